case seed_C17_async_waker_fast_path
mode read
blocking 0
total 1000 chunk 2
finish intoinner
probe 1
settle
peer 5
settle
peer 5
peer 1
settle
peer 989
settle
settle
settle
end
