case seed_R_F6_revert
mode read
blocking 1
total 100 chunk 10
finish drop
probe 0
settle
adaptsame
peer 50
settle
adaptsame
peer 50
settle
settle
end
