case seed_R_F11_revert
mode read
blocking 1
total 100 chunk 10
finish drop
probe 0
settle
peer 10
settle
removeexec
settle
end
