case seed_C17c_is_registered_set_before_poller_cal
mode read
blocking 1
total 100 chunk 10
finish drop
probe 0
settle
adaptsame
peer 50
settle
adaptsame
peer 50
settle
settle
end
