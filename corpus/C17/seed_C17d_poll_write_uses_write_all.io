case seed_C17d_poll_write_uses_write_all
mode write
blocking 0
total 400000 chunk 100000
finish drop
probe 0
settle
adaptsame
peer 300000
settle
finishpeer
end
