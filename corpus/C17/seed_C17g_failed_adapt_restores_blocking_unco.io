case seed_C17g_failed_adapt_restores_blocking_unco
mode read
blocking 1
total 100 chunk 10
finish drop
probe 0
settle
adaptsame
peer 50
settle
adaptsame
peer 50
settle
settle
end
