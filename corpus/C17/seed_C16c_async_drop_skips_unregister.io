case seed_C16c_async_drop_skips_unregister
mode read
blocking 1
total 100 chunk 10
finish drop
probe 0
settle
adaptsame
peer 50
settle
adaptsame
peer 50
settle
settle
end
