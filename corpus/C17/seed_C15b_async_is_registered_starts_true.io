case seed_C15b_async_is_registered_starts_true
mode read
blocking 1
total 100 chunk 10
finish drop
probe 0
settle
adaptsame
peer 50
settle
adaptsame
peer 50
settle
settle
end
