case seed_C17e_vectored_write_waits_for_read
mode write
blocking 0
total 400000 chunk 100000
finish drop
probe 0
vectored 1
settle
peer 300000
settle
finishpeer
end
