#!/bin/sh
# Build the whole framework offline from files on disk: regenerate the source-derived Lean
# definitions, build every model / theorem module and the driver, build the Rust harness.
set -e
cd "$(dirname "$0")"
export CARGO_NET_OFFLINE=true
python3 tools/extract.py
(cd lean && lake build Verif drv)
[ -f harness/Cargo.lock ] || cp /repo/Cargo.lock harness/Cargo.lock
(cd harness && cargo build --offline)
echo setup-ok
