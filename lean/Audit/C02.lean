import Verif.Inv.Kernel
import Verif.Inv.Wheel
import Verif.Props.C02
#print axioms Verif.Inv.Kernel.entry?_some_mem
#print axioms Verif.Inv.Kernel.entry?_none_iff
#print axioms Verif.Inv.Kernel.epAdd_eexist
#print axioms Verif.Inv.Kernel.epAdd_ok
#print axioms Verif.Inv.Kernel.epMod_enoent
#print axioms Verif.Inv.Kernel.epDel_enoent
#print axioms Verif.Inv.Kernel.epDel_ok
#print axioms Verif.Inv.Kernel.waitLoop_sound
#print axioms Verif.Inv.Kernel.epWait_sound
#print axioms Verif.Inv.Kernel.level_reported_and_requeued
#print axioms Verif.Inv.Kernel.lifeRegister_nodup
#print axioms Verif.Inv.Kernel.lifeRegister_mem
#print axioms Verif.Inv.Kernel.lifeRegister_idem
#print axioms Verif.Inv.Kernel.lifeUnregister_mem
#print axioms Verif.Inv.Kernel.lifeUnregister_nodup
#print axioms Verif.Inv.Wheel.minIdx_spec
#print axioms Verif.Inv.Wheel.minIdx_none
#print axioms Verif.Inv.Wheel.nextExpired_due
#print axioms Verif.Inv.Wheel.nextExpired_none
#print axioms Verif.Inv.Wheel.popExpired_spec
#print axioms Verif.Inv.Wheel.insert_counter
#print axioms Verif.Inv.Wheel.cancel_removes
#print axioms Verif.Inv.Wheel.cancel_keeps_others
#print axioms Verif.Props.C02.add_ready_is_queued
#print axioms Verif.Props.C02.write_queues
#print axioms Verif.Props.C02.level_reported_every_wait
#print axioms Verif.Props.C02.no_expired_timer_left
#print axioms Verif.Props.C02.channel_budget_bounds
#print axioms Verif.Props.C02.drain_budget_exhausted
