import Verif.Inv.Kernel
import Verif.Props.C07
#print axioms Verif.Inv.Kernel.entry?_some_mem
#print axioms Verif.Inv.Kernel.entry?_none_iff
#print axioms Verif.Inv.Kernel.epAdd_eexist
#print axioms Verif.Inv.Kernel.epAdd_ok
#print axioms Verif.Inv.Kernel.epMod_enoent
#print axioms Verif.Inv.Kernel.epDel_enoent
#print axioms Verif.Inv.Kernel.epDel_ok
#print axioms Verif.Inv.Kernel.waitLoop_sound
#print axioms Verif.Inv.Kernel.epWait_sound
#print axioms Verif.Inv.Kernel.level_reported_and_requeued
#print axioms Verif.Inv.Kernel.lifeRegister_nodup
#print axioms Verif.Inv.Kernel.lifeRegister_mem
#print axioms Verif.Inv.Kernel.lifeRegister_idem
#print axioms Verif.Inv.Kernel.lifeUnregister_mem
#print axioms Verif.Inv.Kernel.lifeUnregister_nodup
#print axioms Verif.Props.C07.unregistered_gate_closed
#print axioms Verif.Props.C07.disabled_timer_silent
#print axioms Verif.Props.C07.stale_expiry_ignored
#print axioms Verif.Props.C07.unregister_clears_ready
#print axioms Verif.Props.C07.unregister_frame
#print axioms Verif.Props.C07.readiness_survives
