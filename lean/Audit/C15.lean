import Verif.Inv.Slots
import Verif.Props.C15
#print axioms Verif.Inv.Slots.get_some_iff
#print axioms Verif.Inv.Slots.get_sound
#print axioms Verif.Inv.Slots.bumpAt_getElem
#print axioms Verif.Inv.Slots.setOcc_getElem
#print axioms Verif.Inv.Slots.stale_after_bump
#print axioms Verif.Inv.Slots.bump_other
#print axioms Verif.Inv.Slots.setOcc_other
#print axioms Verif.Inv.Slots.get_after_vacate
#print axioms Verif.Inv.Slots.firstVacant_spec
#print axioms Verif.Inv.Slots.vacantEntry_vacant
#print axioms Verif.Props.C15.occupied_setOcc_roundtrip
#print axioms Verif.Props.C15.occupied_bumpAt
#print axioms Verif.Props.C15.failed_insert_leaks_no_slot
#print axioms Verif.Props.C15.failed_insert_frame
#print axioms Verif.Props.C15.batch_processes_every_event
#print axioms Verif.Props.C15.first_error_kept
