import Verif.Props.C08
#print axioms Verif.Props.C08.unregister_of_running_is_deferred
#print axioms Verif.Props.C08.reregister_of_running_is_deferred
#print axioms Verif.Props.C08.register_of_running_panics
#print axioms Verif.Props.C08.other_source_not_deferred
