import Verif.Inv.Slots
import Verif.Inv.Kernel
import Verif.Props.C01
#print axioms Verif.Inv.Slots.get_some_iff
#print axioms Verif.Inv.Slots.get_sound
#print axioms Verif.Inv.Slots.bumpAt_getElem
#print axioms Verif.Inv.Slots.setOcc_getElem
#print axioms Verif.Inv.Slots.stale_after_bump
#print axioms Verif.Inv.Slots.bump_other
#print axioms Verif.Inv.Slots.setOcc_other
#print axioms Verif.Inv.Slots.get_after_vacate
#print axioms Verif.Inv.Slots.firstVacant_spec
#print axioms Verif.Inv.Slots.vacantEntry_vacant
#print axioms Verif.Inv.Kernel.entry?_some_mem
#print axioms Verif.Inv.Kernel.entry?_none_iff
#print axioms Verif.Inv.Kernel.epAdd_eexist
#print axioms Verif.Inv.Kernel.epAdd_ok
#print axioms Verif.Inv.Kernel.epMod_enoent
#print axioms Verif.Inv.Kernel.epDel_enoent
#print axioms Verif.Inv.Kernel.epDel_ok
#print axioms Verif.Inv.Kernel.waitLoop_sound
#print axioms Verif.Inv.Kernel.epWait_sound
#print axioms Verif.Inv.Kernel.level_reported_and_requeued
#print axioms Verif.Inv.Kernel.lifeRegister_nodup
#print axioms Verif.Inv.Kernel.lifeRegister_mem
#print axioms Verif.Inv.Kernel.lifeRegister_idem
#print axioms Verif.Inv.Kernel.lifeUnregister_mem
#print axioms Verif.Inv.Kernel.lifeUnregister_nodup
#print axioms Verif.Props.C01.lookup_sound
#print axioms Verif.Props.C01.stale_key_unroutable
#print axioms Verif.Props.C01.reuse_frame
#print axioms Verif.Props.C01.insertion_slot_vacant
#print axioms Verif.Props.C01.poller_reports_registered
#print axioms Verif.Props.C01.gate_own_token_only
#print axioms Verif.Props.C01.gate_rejects_sibling
