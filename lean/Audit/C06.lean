import Verif.Inv.Slots
import Verif.Props.C06
#print axioms Verif.Inv.Slots.get_some_iff
#print axioms Verif.Inv.Slots.get_sound
#print axioms Verif.Inv.Slots.bumpAt_getElem
#print axioms Verif.Inv.Slots.setOcc_getElem
#print axioms Verif.Inv.Slots.stale_after_bump
#print axioms Verif.Inv.Slots.bump_other
#print axioms Verif.Inv.Slots.setOcc_other
#print axioms Verif.Inv.Slots.get_after_vacate
#print axioms Verif.Inv.Slots.firstVacant_spec
#print axioms Verif.Inv.Slots.vacantEntry_vacant
#print axioms Verif.Props.C06.token_dead_after_removal
#print axioms Verif.Props.C06.token_dead_after_reuse
#print axioms Verif.Props.C06.token_dead_below_period
#print axioms Verif.Props.C06.C06_wrap_false
#print axioms Verif.Props.C06.removal_frame
