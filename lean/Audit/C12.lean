import Verif.Props.C12
#print axioms Verif.Props.C12.bridge
#print axioms Verif.Props.C12.eff_min
#print axioms Verif.Props.C12.eff_le_user
#print axioms Verif.Props.C12.eff_le_deadline
#print axioms Verif.Props.C12.eff_ge_min
#print axioms Verif.Props.C12.eff_none_none
#print axioms Verif.Props.C12.eff_none_iff
#print axioms Verif.Props.C12.eff_zero
#print axioms Verif.Props.C12.expired_zero
#print axioms Verif.Props.C12.synthetic_zero
#print axioms Verif.Props.C12.wheel_wait_le_every_armed_deadline
#print axioms Verif.Props.C12.wheel_wait_none_iff
#print axioms Verif.Props.C12.wheel_wait_ge_min
#print axioms Verif.Props.C12.wheel_wait_insert_le
#print axioms Verif.Props.C12.wheel_wait_cancel_ge
#print axioms Verif.Props.C12.wheel_wait_after_poll_zero_only_on_request
#print axioms Verif.Props.C12.loop_wait_limited_only_by_a_live_arming
