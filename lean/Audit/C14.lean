import Verif.Inv.Kernel
import Verif.Props.C14
#print axioms Verif.Inv.Kernel.entry?_some_mem
#print axioms Verif.Inv.Kernel.entry?_none_iff
#print axioms Verif.Inv.Kernel.epAdd_eexist
#print axioms Verif.Inv.Kernel.epAdd_ok
#print axioms Verif.Inv.Kernel.epMod_enoent
#print axioms Verif.Inv.Kernel.epDel_enoent
#print axioms Verif.Inv.Kernel.epDel_ok
#print axioms Verif.Inv.Kernel.waitLoop_sound
#print axioms Verif.Inv.Kernel.epWait_sound
#print axioms Verif.Inv.Kernel.level_reported_and_requeued
#print axioms Verif.Inv.Kernel.lifeRegister_nodup
#print axioms Verif.Inv.Kernel.lifeRegister_mem
#print axioms Verif.Inv.Kernel.lifeRegister_idem
#print axioms Verif.Inv.Kernel.lifeUnregister_mem
#print axioms Verif.Inv.Kernel.lifeUnregister_nodup
#print axioms Verif.Props.C14.register_idempotent
#print axioms Verif.Props.C14.register_keeps_nodup
#print axioms Verif.Props.C14.register_mem
#print axioms Verif.Props.C14.unregister_mem
#print axioms Verif.Props.C14.unregister_keeps_nodup
#print axioms Verif.Props.C14.walk_once
#print axioms Verif.Props.C14.bhe_filter_own
