import Verif.Props.C19
#print axioms Verif.Props.C19.inv_init
#print axioms Verif.Props.C19.inv_step
#print axioms Verif.Props.C19.inv_run
#print axioms Verif.Props.C19.mask_exact
#print axioms Verif.Props.C19.pending_kept
#print axioms Verif.Props.C19.dispatch_reports_pending_once
#print axioms Verif.Props.C19.reports_only_configured
#print axioms Verif.Props.C19.unconfigured_untouched
#print axioms Verif.Props.C19.configured_becomes_pending
#print axioms Verif.Props.C19.two_routes_two_instances
#print axioms Verif.Props.C19.drop_unblocks
#print axioms Verif.Props.C19.foreign_step
#print axioms Verif.Props.C19.foreign_untouched
