import Verif.Props.C13
#print axioms Verif.Props.C13.idles_snapshot
#print axioms Verif.Props.C13.cancelled_never_runs
#print axioms Verif.Props.C13.walk_in_order
#print axioms Verif.Props.C13.walk_empty
#print axioms Verif.Props.C13.insert_appends
#print axioms Verif.Props.C13.drop_handle_keeps_queue
