import Verif.Inv.Wheel
import Verif.Props.C05
#print axioms Verif.Inv.Wheel.minIdx_spec
#print axioms Verif.Inv.Wheel.minIdx_none
#print axioms Verif.Inv.Wheel.nextExpired_due
#print axioms Verif.Inv.Wheel.nextExpired_none
#print axioms Verif.Inv.Wheel.popExpired_spec
#print axioms Verif.Inv.Wheel.insert_counter
#print axioms Verif.Inv.Wheel.cancel_removes
#print axioms Verif.Inv.Wheel.cancel_keeps_others
#print axioms Verif.Props.C05.poll_pops_exactly_the_due_in_order
#print axioms Verif.Props.C05.next_expired_never_early
#print axioms Verif.Props.C05.next_expired_earliest
#print axioms Verif.Props.C05.nothing_due_when_none
#print axioms Verif.Props.C05.cancel_final
#print axioms Verif.Props.C05.cancel_frame
#print axioms Verif.Props.C05.counters_fresh
