import Verif.Props.C09
#print axioms Verif.Props.C09.bitor_table
#print axioms Verif.Props.C09.bitor_assign_table
#print axioms Verif.Props.C09.bitor_eq_assign
#print axioms Verif.Props.C09.bitor_comm
#print axioms Verif.Props.C09.bitor_idem
#print axioms Verif.Props.C09.bitor_assoc
#print axioms Verif.Props.C09.variants_complete
#print axioms Verif.Props.C09.resolve_explicit
#print axioms Verif.Props.C09.resolve_continue
#print axioms Verif.Props.C09.resolve_table
