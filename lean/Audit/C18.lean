import Verif.Props.C18
#print axioms Verif.Props.C18.monitor_cons
#print axioms Verif.Props.C18.monitor_nil
#print axioms Verif.Props.C18.monitor_frozen
#print axioms Verif.Props.C18.step_R
#print axioms Verif.Props.C18.monitor_append
#print axioms Verif.Props.C18.run_R
#print axioms Verif.Props.C18.R_initFrom
#print axioms Verif.Props.C18.R_initDefault
#print axioms Verif.Props.C18.C18_partial
#print axioms Verif.Props.C18.C18_full_false
#print axioms Verif.Props.C18.ret_cont_or_rereg
#print axioms Verif.Props.C18.empty_noop
#print axioms Verif.Props.C18.forward_keep_only
