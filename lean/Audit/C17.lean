import Verif.Props.C17
#print axioms Verif.Props.C17.inv_init
#print axioms Verif.Props.C17.inv_step
#print axioms Verif.Props.C17.inv_reach
#print axioms Verif.Props.C17.conservation
#print axioms Verif.Props.C17.no_lost_wake
#print axioms Verif.Props.C17.parked_waker_is_current
#print axioms Verif.Props.C17.parked_is_armed
#print axioms Verif.Props.C17.task_state_exclusive
#print axioms Verif.Props.C17.flags_and_registration
