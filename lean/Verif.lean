-- Root of the `Verif` library: every model, bridge and property module.
import Verif.Model.Token
import Verif.Generated.TokenSrc
import Verif.Generated.Consts
import Verif.Generated.PostActionSrc
import Verif.Bridge.Token
import Verif.Props.C20
import Verif.Drv.Tok
import Verif.Model.Transient
import Verif.Spec.C18
import Verif.Props.C18
import Verif.Drv.Transient
import Verif.Model.Slots
import Verif.Model.Wheel
import Verif.Model.Kernel
import Verif.Model.Loop
import Verif.Drv.Core
