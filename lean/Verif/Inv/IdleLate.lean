/-
C13, last sentence, over the whole model: whatever is queued when the idle phase of a dispatch ends was queued *during*
that phase — it is strictly younger than every idle the phase took, so an idle inserted by an idle callback (or by
anything an idle callback does) waits for the following dispatch.
-/
import Verif.Inv.IdleQ

namespace Verif.Inv.IdleLate
open Verif.Loop Verif.Inv Verif.Kernel Verif.Slots Verif.Wheel Verif.Token Verif.Inv.IdleQ

/-- everything queued was queued at instance counter `n` or later -/
def Late (n : Nat) : St → Prop := fun s => n ≤ s.idleSeq ∧ ∀ p ∈ s.idles, n ≤ p.2

abbrev KeepsL (n : Nat) {α} (x : M α) : Prop := Keeps x (Late n)

theorem late_push (n : Nat) (s : St) (i : Nat) (h : Late n s) :
    Late n { s with idles := s.idles ++ [(i, s.idleSeq)], idleHandles := aset s.idleHandles i s.idleSeq, idleSeq := s.idleSeq + 1 } := by
  obtain ⟨h1, h2⟩ := h
  refine ⟨Nat.le_succ_of_le h1, ?_⟩
  intro p hp
  have hp' : p ∈ s.idles ++ [(i, s.idleSeq)] := hp
  simp only [List.mem_append, List.mem_singleton] at hp'
  cases hp' with
  | inl h => exact h2 p h
  | inr h => subst h; exact h1

theorem late_clear (n : Nat) (s : St) (h : Late n s) : Late n { s with idles := [] } :=
  ⟨h.1, by intro p hp; simp at hp⟩

syntax "il_lemma" : tactic
macro_rules | `(tactic| il_lemma) => `(tactic| fail "no lemma applies")

macro "il_step" : tactic => `(tactic| first
  | exact keeps_pure _ _
  | exact keeps_throw _ _
  | exact keeps_get _
  | il_lemma
  | (apply keeps_modify; intro s h; exact h)
  | (apply keeps_modify; intro s h; exact late_push _ _ _ h)
  | (apply keeps_modify; intro s h; exact late_clear _ _ h)
  | (apply keeps_emit; intro s h; exact h)
  | (apply keeps_bind)
  | (apply keeps_catchErr)
  | (apply keeps_forEachM)
  | (apply keeps_ite)
  | (intro _)
  | split)

macro "il" : tactic => `(tactic| (repeat il_step))

theorem il_emit (m0 : Nat) (o : Obs) : KeepsL m0 (emit o) := by apply keeps_emit; intro s h; exact h
macro_rules | `(tactic| il_lemma) => `(tactic| with_reducible exact il_emit _ _)
theorem il_throwErr (m0 : Nat) {α} (e : Err) : KeepsL m0 (throwErr e : M α) := by exact keeps_throw _ _
macro_rules | `(tactic| il_lemma) => `(tactic| with_reducible exact il_throwErr _ _)
theorem il_throwPanic (m0 : Nat) {α} (p : Panic) : KeepsL m0 (throwPanic p : M α) := by exact keeps_throw _ _
macro_rules | `(tactic| il_lemma) => `(tactic| with_reducible exact il_throwPanic _ _)

theorem il_getSrc (m0 : Nat) (k : Nat) : KeepsL m0 (getSrc? k) := by unfold getSrc?; il
macro_rules | `(tactic| il_lemma) => `(tactic| with_reducible exact il_getSrc _ _)
theorem il_setSrc (m0 : Nat) (k : Nat) (v : Src) : KeepsL m0 (setSrc k v) := by unfold setSrc; il
macro_rules | `(tactic| il_lemma) => `(tactic| with_reducible exact il_setSrc _ _ _)
theorem il_modSrc (m0 : Nat) (k : Nat) (f : Src → Src) : KeepsL m0 (modSrc k f) := by unfold modSrc; il
macro_rules | `(tactic| il_lemma) => `(tactic| with_reducible exact il_modSrc _ _ _)
theorem il_modGen (m0 : Nat) (k j : Nat) (f : Gen → Gen) : KeepsL m0 (modGen k j f) := by unfold modGen; il
macro_rules | `(tactic| il_lemma) => `(tactic| with_reducible exact il_modGen _ _ _ _)
theorem il_getGen (m0 : Nat) (k j : Nat) : KeepsL m0 (getGen? k j) := by unfold getGen?; il
macro_rules | `(tactic| il_lemma) => `(tactic| with_reducible exact il_getGen _ _ _)
theorem il_kAdd (m0 : Nat) (e : EpEntry) : KeepsL m0 (kAdd e) := by unfold kAdd; il
macro_rules | `(tactic| il_lemma) => `(tactic| with_reducible exact il_kAdd _ _)
theorem il_kMod (m0 : Nat) (e : EpEntry) : KeepsL m0 (kMod e) := by unfold kMod; il
macro_rules | `(tactic| il_lemma) => `(tactic| with_reducible exact il_kMod _ _)
theorem il_kDel (m0 : Nat) (fd : Nat) : KeepsL m0 (kDel fd) := by unfold kDel; il
macro_rules | `(tactic| il_lemma) => `(tactic| with_reducible exact il_kDel _ _)
theorem il_kWrite (m0 : Nat) (fd n : Nat) : KeepsL m0 (kWrite fd n) := by unfold kWrite; il
macro_rules | `(tactic| il_lemma) => `(tactic| with_reducible exact il_kWrite _ _ _)
theorem il_kRead (m0 : Nat) (fd : Nat) : KeepsL m0 (kRead fd) := by unfold kRead; il
macro_rules | `(tactic| il_lemma) => `(tactic| with_reducible exact il_kRead _ _)
theorem il_takeToken (m0 : Nat) (f : Factory) : KeepsL m0 (takeToken f) := by unfold takeToken; il
macro_rules | `(tactic| il_lemma) => `(tactic| with_reducible exact il_takeToken _ _)
theorem il_genRegister (m0 : Nat) (k j : Nat) (f : Factory) : KeepsL m0 (genRegister k j f) := by unfold genRegister; il
macro_rules | `(tactic| il_lemma) => `(tactic| with_reducible exact il_genRegister _ _ _ _)
theorem il_genReregister (m0 : Nat) (k j : Nat) (f : Factory) : KeepsL m0 (genReregister k j f) := by unfold genReregister; il
macro_rules | `(tactic| il_lemma) => `(tactic| with_reducible exact il_genReregister _ _ _ _)
theorem il_genUnregister (m0 : Nat) (k j : Nat) : KeepsL m0 (genUnregister k j) := by unfold genUnregister; il
macro_rules | `(tactic| il_lemma) => `(tactic| with_reducible exact il_genUnregister _ _ _)

theorem il_customLoop (m0 : Nat) (k : Nat) (kind : RegKind) (fail : Option Nat) (body : Nat → Factory → M Factory)
    (hb : ∀ j f, KeepsL m0 (body j f)) (n j : Nat) (f : Factory) : KeepsL m0 (customLoop k kind fail body n j f) := by
  induction n generalizing j f with
  | zero => unfold customLoop; il
  | succ n ih =>
    unfold customLoop
    repeat (first | exact ih _ _ | exact hb _ _ | il_step)

theorem il_customRollback (m0 : Nat) (k j : Nat) : KeepsL m0 (customRollback k j) := by
  induction j with
  | zero => unfold customRollback; il
  | succ j ih => unfold customRollback; repeat (first | exact ih | il_step)
macro_rules | `(tactic| il_lemma) => `(tactic| with_reducible exact il_customRollback _ _ _)

theorem il_customRegister (m0 : Nat) (k : Nat) (fail : Option Nat) (rb : Bool) (n j : Nat) (f : Factory) :
    KeepsL m0 (customRegister k fail rb n j f) := by
  induction n generalizing j f with
  | zero => unfold customRegister; il
  | succ n ih => unfold customRegister; repeat (first | exact ih _ _ | il_step)
macro_rules | `(tactic| il_lemma) => `(tactic| with_reducible exact il_customRegister _ _ _ _ _ _ _)

theorem il_timerUnregister (m0 : Nat) (k : Nat) : KeepsL m0 (timerUnregister k) := by unfold timerUnregister; il
macro_rules | `(tactic| il_lemma) => `(tactic| with_reducible exact il_timerUnregister _ _)
theorem il_timerRegister (m0 : Nat) (k : Nat) (f : Factory) : KeepsL m0 (timerRegister k f) := by unfold timerRegister; il
macro_rules | `(tactic| il_lemma) => `(tactic| with_reducible exact il_timerRegister _ _ _)

theorem il_srcRegister (m0 : Nat) (k : Nat) (f : Factory) : KeepsL m0 (srcRegister k f) := by unfold srcRegister; il
macro_rules | `(tactic| il_lemma) => `(tactic| with_reducible exact il_srcRegister _ _ _)

theorem il_srcReregister (m0 : Nat) (k : Nat) (f : Factory) : KeepsL m0 (srcReregister k f) := by
  unfold srcReregister
  repeat (first | (apply il_customLoop; intro j f; exact il_genReregister _ _ _ _) | il_step)
macro_rules | `(tactic| il_lemma) => `(tactic| with_reducible exact il_srcReregister _ _ _)

theorem il_srcUnregister (m0 : Nat) (k : Nat) : KeepsL m0 (srcUnregister k) := by
  unfold srcUnregister
  repeat (first | (apply il_customLoop; intro j f; repeat il_step) | il_step)
macro_rules | `(tactic| il_lemma) => `(tactic| with_reducible exact il_srcUnregister _ _)

theorem il_isLife (m0 : Nat) (k : Nat) : KeepsL m0 (isLife k) := by unfold isLife; il
macro_rules | `(tactic| il_lemma) => `(tactic| with_reducible exact il_isLife _ _)

theorem il_dRegister (m0 : Nat) (k : Nat) (tok : Tok) : KeepsL m0 (dRegister k tok) := by unfold dRegister; il
macro_rules | `(tactic| il_lemma) => `(tactic| with_reducible exact il_dRegister _ _ _)
theorem il_dReregister (m0 : Nat) (k : Nat) (tok : Tok) : KeepsL m0 (dReregister k tok) := by unfold dReregister; il
macro_rules | `(tactic| il_lemma) => `(tactic| with_reducible exact il_dReregister _ _ _)
theorem il_dUnregister (m0 : Nat) (k : Nat) (tok : Tok) : KeepsL m0 (dUnregister k tok) := by unfold dUnregister; il
macro_rules | `(tactic| il_lemma) => `(tactic| with_reducible exact il_dUnregister _ _ _)

theorem il_maybeDrop (m0 : Nat) (k : Nat) : KeepsL m0 (maybeDrop k) := by unfold maybeDrop; il
macro_rules | `(tactic| il_lemma) => `(tactic| with_reducible exact il_maybeDrop _ _)
theorem il_userTok (m0 : Nat) (k : Nat) : KeepsL m0 (userTok k) := by unfold userTok; il
macro_rules | `(tactic| il_lemma) => `(tactic| with_reducible exact il_userTok _ _)
theorem il_doInsert (m0 : Nat) (k : Nat) (keep : Bool) : KeepsL m0 (doInsert k keep) := by unfold doInsert; il
macro_rules | `(tactic| il_lemma) => `(tactic| with_reducible exact il_doInsert _ _ _)
theorem il_doRemove (m0 : Nat) (o : COp) (k : Nat) : KeepsL m0 (doRemove o k) := by unfold doRemove; il
macro_rules | `(tactic| il_lemma) => `(tactic| with_reducible exact il_doRemove _ _ _)
theorem il_chanFd (m0 : Nat) (k : Nat) : KeepsL m0 (chanFd k) := by unfold chanFd; il
macro_rules | `(tactic| il_lemma) => `(tactic| with_reducible exact il_chanFd _ _)


/-! ### user operations, event processing, dispatch: everything keeps the set duplicate-free -/

theorem il_tokenOp (m0 : Nat) (o : COp) (k : Nat) (body : Nat → Tok → M Unit) (hb : ∀ d t, KeepsL m0 (body d t)) :
    KeepsL m0 (tokenOp o k body) := by
  unfold tokenOp
  repeat (first | exact hb _ _ | il_step)

theorem il_execCore (m0 : Nat) (o : COp) : KeepsL m0 (execC' o) := by
  cases o <;> unfold execC' <;>
    repeat (first | (apply il_tokenOp; intro d t) | il_step)
macro_rules | `(tactic| il_lemma) => `(tactic| with_reducible exact il_execCore _ _)

theorem il_execC (m0 : Nat) (o : COp) : KeepsL m0 (execC o) := by unfold execC; il
macro_rules | `(tactic| il_lemma) => `(tactic| with_reducible exact il_execC _ _)


theorem il_runIdle (n : Nat) (p : Nat × Nat) : KeepsL n (runIdle p) := by unfold runIdle; il

/-- the idle phase, from a state in which the counter is `n`: afterwards everything queued is `n` or younger -/
theorem dispatchIdles_late (s : St) : Late s.idleSeq (after dispatchIdles s) := by
  have e : dispatchIdles s = forEachM s.idles runIdle { s with idles := [] } := rfl
  have hk : Keeps (forEachM s.idles runIdle) (Late s.idleSeq) := by
    apply keeps_forEachM; intro p; exact il_runIdle _ p
  have := hk.h { s with idles := [] } ⟨Nat.le_refl _, by intro p hp; simp at hp⟩
  unfold after at this ⊢
  rw [e]
  exact this

/-- **After every history**, run the idle phase of the next dispatch: whatever is queued when it ends is strictly younger
    than every idle callback the phase took from the queue (and ran, unless cancelled) — so nothing that was inserted by
    an idle callback, or by anything it did, has run in this dispatch, and nothing that ran is queued again. -/
theorem idle_inserted_by_idle_waits (ops : List Op) :
    ∀ p ∈ (after dispatchIdles (run ops)).idles, ∀ r ∈ (run ops).idles, r.2 < p.2 := by
  intro p hp r hr
  have h1 := (dispatchIdles_late (run ops)).2 p hp
  have h2 := (run_idle_queue_fresh ops).2 r hr
  omega

end Verif.Inv.IdleLate
