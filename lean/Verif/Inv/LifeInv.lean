/-
The additional-lifecycle set against the slot table, over the *whole* loop model: every token in it resolves to an
occupied slot whose source has lifecycle hooks — so `dispatch_events` never reaches its `unreachable!()` (C08, C14,
C15: "no later dispatch panics"), whatever callbacks removed, disabled, re-inserted or failed to register.
-/
import Verif.Inv.TokInv
import Verif.Inv.Kernel

namespace Verif.Inv.LifeInv
open Verif.Loop Verif.Inv Verif.Kernel Verif.Slots Verif.Wheel Verif.Token Verif.Inv.TokInv

/-- what the invariant reads: slot table, user tokens, escape flag; lifecycle set, lifecycle flags, borrowed and held
    dispatcher -/
def prL (s : St) : (Slots × List (Nat × Tok) × Bool) × (List Tok × List (Nat × Bool) × Option Nat × Option Nat) :=
  (prA s, (s.life, s.lifeFlags, s.running, s.inflight))

abbrev FrameL {α} (x : M α) : Prop := ∀ c, Keeps x (fun s => prL s = c)

syntax "fl_lemma" : tactic
macro_rules | `(tactic| fl_lemma) => `(tactic| fail "no lemma applies")

macro "fl_step" : tactic => `(tactic| first
  | exact keeps_pure _ _
  | exact keeps_throw _ _
  | exact keeps_get _
  | fl_lemma
  | (apply keeps_modify; intro s h; exact h)
  | (apply keeps_emit; intro s h; exact h)
  | (apply keeps_bind)
  | (apply keeps_catchErr)
  | (apply keeps_forEachM)
  | (apply keeps_ite)
  | (intro _)
  | split)

macro "fl" : tactic => `(tactic| (intro c; repeat fl_step))

theorem fl_emit (o : Obs) : FrameL (emit o) := by intro c; apply keeps_emit; intro s h; exact h
macro_rules | `(tactic| fl_lemma) => `(tactic| with_reducible exact fl_emit _ _)
theorem fl_throwErr {α} (e : Err) : FrameL (throwErr e : M α) := by intro c; exact keeps_throw _ _
macro_rules | `(tactic| fl_lemma) => `(tactic| with_reducible exact fl_throwErr _ _)
theorem fl_throwPanic {α} (p : Panic) : FrameL (throwPanic p : M α) := by intro c; exact keeps_throw _ _
macro_rules | `(tactic| fl_lemma) => `(tactic| with_reducible exact fl_throwPanic _ _)

theorem fl_getSrc (k : Nat) : FrameL (getSrc? k) := by unfold getSrc?; fl
macro_rules | `(tactic| fl_lemma) => `(tactic| with_reducible exact fl_getSrc _ _)
theorem fl_setSrc (k : Nat) (v : Src) : FrameL (setSrc k v) := by unfold setSrc; fl
macro_rules | `(tactic| fl_lemma) => `(tactic| with_reducible exact fl_setSrc _ _ _)
theorem fl_modSrc (k : Nat) (f : Src → Src) : FrameL (modSrc k f) := by unfold modSrc; fl
macro_rules | `(tactic| fl_lemma) => `(tactic| with_reducible exact fl_modSrc _ _ _)
theorem fl_modGen (k j : Nat) (f : Gen → Gen) : FrameL (modGen k j f) := by unfold modGen; fl
macro_rules | `(tactic| fl_lemma) => `(tactic| with_reducible exact fl_modGen _ _ _ _)
theorem fl_getGen (k j : Nat) : FrameL (getGen? k j) := by unfold getGen?; fl
macro_rules | `(tactic| fl_lemma) => `(tactic| with_reducible exact fl_getGen _ _ _)
theorem fl_kAdd (e : EpEntry) : FrameL (kAdd e) := by unfold kAdd; fl
macro_rules | `(tactic| fl_lemma) => `(tactic| with_reducible exact fl_kAdd _ _)
theorem fl_kMod (e : EpEntry) : FrameL (kMod e) := by unfold kMod; fl
macro_rules | `(tactic| fl_lemma) => `(tactic| with_reducible exact fl_kMod _ _)
theorem fl_kDel (fd : Nat) : FrameL (kDel fd) := by unfold kDel; fl
macro_rules | `(tactic| fl_lemma) => `(tactic| with_reducible exact fl_kDel _ _)
theorem fl_kWrite (fd n : Nat) : FrameL (kWrite fd n) := by unfold kWrite; fl
macro_rules | `(tactic| fl_lemma) => `(tactic| with_reducible exact fl_kWrite _ _ _)
theorem fl_kRead (fd : Nat) : FrameL (kRead fd) := by unfold kRead; fl
macro_rules | `(tactic| fl_lemma) => `(tactic| with_reducible exact fl_kRead _ _)
theorem fl_takeToken (f : Factory) : FrameL (takeToken f) := by unfold takeToken; fl
macro_rules | `(tactic| fl_lemma) => `(tactic| with_reducible exact fl_takeToken _ _)
theorem fl_genRegister (k j : Nat) (f : Factory) : FrameL (genRegister k j f) := by unfold genRegister; fl
macro_rules | `(tactic| fl_lemma) => `(tactic| with_reducible exact fl_genRegister _ _ _ _)
theorem fl_genReregister (k j : Nat) (f : Factory) : FrameL (genReregister k j f) := by unfold genReregister; fl
macro_rules | `(tactic| fl_lemma) => `(tactic| with_reducible exact fl_genReregister _ _ _ _)
theorem fl_genUnregister (k j : Nat) : FrameL (genUnregister k j) := by unfold genUnregister; fl
macro_rules | `(tactic| fl_lemma) => `(tactic| with_reducible exact fl_genUnregister _ _ _)

theorem fl_customLoop (k : Nat) (kind : RegKind) (fail : Option Nat) (body : Nat → Factory → M Factory)
    (hb : ∀ j f, FrameL (body j f)) (n j : Nat) (f : Factory) : FrameL (customLoop k kind fail body n j f) := by
  induction n generalizing j f with
  | zero => unfold customLoop; fl
  | succ n ih =>
    unfold customLoop
    intro c
    repeat (first | exact ih _ _ c | exact hb _ _ c | fl_step)

theorem fl_customRollback (k j : Nat) : FrameL (customRollback k j) := by
  induction j with
  | zero => unfold customRollback; fl
  | succ j ih => unfold customRollback; intro c; repeat (first | exact ih c | fl_step)
macro_rules | `(tactic| fl_lemma) => `(tactic| with_reducible exact fl_customRollback _ _ _)

theorem fl_customRegister (k : Nat) (fail : Option Nat) (rb : Bool) (n j : Nat) (f : Factory) :
    FrameL (customRegister k fail rb n j f) := by
  induction n generalizing j f with
  | zero => unfold customRegister; fl
  | succ n ih => unfold customRegister; intro c; repeat (first | exact ih _ _ c | fl_step)
macro_rules | `(tactic| fl_lemma) => `(tactic| with_reducible exact fl_customRegister _ _ _ _ _ _ _)

theorem fl_timerUnregister (k : Nat) : FrameL (timerUnregister k) := by unfold timerUnregister; fl
macro_rules | `(tactic| fl_lemma) => `(tactic| with_reducible exact fl_timerUnregister _ _)
theorem fl_timerRegister (k : Nat) (f : Factory) : FrameL (timerRegister k f) := by unfold timerRegister; fl
macro_rules | `(tactic| fl_lemma) => `(tactic| with_reducible exact fl_timerRegister _ _ _)

theorem fl_srcRegister (k : Nat) (f : Factory) : FrameL (srcRegister k f) := by unfold srcRegister; fl
macro_rules | `(tactic| fl_lemma) => `(tactic| with_reducible exact fl_srcRegister _ _ _)

theorem fl_srcReregister (k : Nat) (f : Factory) : FrameL (srcReregister k f) := by
  unfold srcReregister
  intro c
  repeat (first | (apply fl_customLoop; intro j f; exact fl_genReregister _ _ _) | fl_step)
macro_rules | `(tactic| fl_lemma) => `(tactic| with_reducible exact fl_srcReregister _ _ _)

theorem fl_srcUnregister (k : Nat) : FrameL (srcUnregister k) := by
  unfold srcUnregister
  intro c
  repeat (first | (apply fl_customLoop; intro j f c; repeat fl_step) | fl_step)
macro_rules | `(tactic| fl_lemma) => `(tactic| with_reducible exact fl_srcUnregister _ _)

theorem fl_isLife (k : Nat) : FrameL (isLife k) := by unfold isLife; fl
macro_rules | `(tactic| fl_lemma) => `(tactic| with_reducible exact fl_isLife _ _)

theorem fl_maybeDrop (k : Nat) : FrameL (maybeDrop k) := by unfold maybeDrop; fl
macro_rules | `(tactic| fl_lemma) => `(tactic| with_reducible exact fl_maybeDrop _ _)
theorem fl_userTok (k : Nat) : FrameL (userTok k) := by unfold userTok; fl
macro_rules | `(tactic| fl_lemma) => `(tactic| with_reducible exact fl_userTok _ _)

/-! ### what the three dispatcher-level registration calls do to the lifecycle set -/

open Verif.Inv.Ctl

abbrev LP := (Slots × List (Nat × Tok) × Bool) × (List Tok × List (Nat × Bool) × Option Nat × Option Nat)

def flagOf (fl : List (Nat × Bool)) (k : Nat) : Bool := (alookup fl k).getD false

/-- the projection after the lifecycle token of `k` has been added (if `k` has lifecycle hooks) -/
def addL (c : LP) (k : Nat) (t : Tok) : LP :=
  (c.1, (if flagOf c.2.2.1 k then lifeRegister c.2.1 t else c.2.1, c.2.2))

/-- … and after it has been taken out -/
def delL (c : LP) (k : Nat) (t : Tok) : LP :=
  (c.1, (if flagOf c.2.2.1 k then lifeUnregister c.2.1 t else c.2.1, c.2.2))

theorem addL_eq (c : LP) (k : Nat) (t : Tok) :
    addL c k t = if flagOf c.2.2.1 k = true then (c.1, (lifeRegister c.2.1 t, c.2.2)) else c := by
  cases hf : flagOf c.2.2.1 k <;> simp [addL, hf]

theorem delL_eq (c : LP) (k : Nat) (t : Tok) :
    delL c k t = if flagOf c.2.2.1 k = true then (c.1, (lifeUnregister c.2.1 t, c.2.2)) else c := by
  cases hf : flagOf c.2.2.1 k <;> simp [delL, hf]

theorem hoare_isLife (k : Nat) (c : LP) (E : St → Prop) :
    Hoare (fun s => prL s = c) (isLife k) (fun b s => prL s = c ∧ b = flagOf c.2.2.1 k) E := by
  unfold isLife
  apply hoare_bind (fun a s => prL s = c ∧ a = s) hoare_get
  intro s0
  apply hoare_pure
  intro s ⟨h, e⟩
  subst e
  refine ⟨h, ?_⟩
  subst h
  rfl

theorem hoare_frameL {α} {x : M α} (h : FrameL x) (c : LP) :
    Hoare (fun s => prL s = c) x (fun _ s => prL s = c) (fun s => prL s = c) := hoare_of_keeps (h c)

theorem hoare_pre_fact {α} {P : St → Prop} {x : M α} {R : α → St → Prop} {E : St → Prop} (F : Prop)
    (hf : ∀ s, P s → F) (h : F → Hoare P x R E) : Hoare P x R E := fun s hs => h (hf s hs) s hs

/-- strengthen both posts of a triple by a fact that does not depend on the state -/
theorem hoare_and_fact {α} {P : St → Prop} {x : M α} {R : α → St → Prop} {E : St → Prop} (F : Prop) (hF : F)
    (h : Hoare P x R E) : Hoare P x (fun a s => R a s ∧ F) E := by
  intro s hs
  have := h s hs
  cases hx : x s with
  | ok a s' => rw [hx] at this; exact ⟨this, hF⟩
  | error e s' => rw [hx] at this; cases e <;> exact this

theorem hoare_panic_bind {α β} {P : St → Prop} (p : Panic) (f : α → M β) {R : β → St → Prop} {E : St → Prop} :
    Hoare P ((throwPanic p : M α) >>= f) R E := by
  intro s _
  simp [throwPanic, throw, throwThe, MonadExceptOf.throw, EStateM.throw, bind, EStateM.bind]

/-- "if the source has lifecycle hooks, update the set", followed by `rest` on both branches -/
theorem hoare_lifeIf {β} (k : Nat) (upd : St → St) (cupd : LP → LP) (c : LP) (rest : M β)
    (R : β → St → Prop) (E : St → Prop)
    (hupd : ∀ s, prL s = c → prL (upd s) = cupd c)
    (hrest : Hoare (fun s => prL s = (if flagOf c.2.2.1 k then cupd c else c)) rest R E) :
    Hoare (fun s => prL s = c)
      (isLife k >>= fun b => if b = true then (modify upd >>= fun _ => rest) else rest) R E := by
  apply hoare_bind (fun b s => prL s = c ∧ b = flagOf c.2.2.1 k)
  · exact hoare_isLife k c E
  intro b
  by_cases hb : b = true
  · subst hb
    simp only [if_true]
    apply hoare_bind (fun _ s => prL s = cupd c ∧ flagOf c.2.2.1 k = true)
    · apply hoare_modify
      intro s ⟨h, hf⟩
      exact ⟨hupd s h, hf.symm⟩
    · intro _
      refine hoare_pre_fact (flagOf c.2.2.1 k = true) (fun s h => h.2) (fun hf => ?_)
      rw [hf] at hrest
      exact hoare_conseq hrest (fun _ h => by simpa using h.1) (fun _ _ h => h) (fun _ h => h)
  · have hb' : b = false := by simpa using hb
    subst hb'
    simp only [Bool.false_eq_true, if_false]
    refine hoare_pre_fact (flagOf c.2.2.1 k = false) (fun s h => h.2.symm) (fun hf => ?_)
    rw [hf] at hrest
    exact hoare_conseq hrest (fun _ h => by simpa using h.1) (fun _ _ h => h) (fun _ h => h)

theorem prL_life_upd (s : St) (c : LP) (f : List Tok → List Tok) (h : prL s = c) :
    prL { s with life := f s.life } = (c.1, (f c.2.1, c.2.2)) := by
  subst h; rfl

theorem running_of_prL (s : St) (c : LP) (h : prL s = c) : s.running = c.2.2.2.1 := by subst h; rfl

/-- `register`: panics when the dispatcher is borrowed; otherwise registers the source (which touches nothing the
    invariant reads) and puts the lifecycle token in — an error leaves the set as it was -/
theorem hoare_dRegister (k : Nat) (tok : Tok) (c : LP) :
    Hoare (fun s => prL s = c) (dRegister k tok)
      (fun _ s => prL s = addL c k (forgetSub tok) ∧ c.2.2.2.1 ≠ some k) (fun s => prL s = c) := by
  unfold dRegister
  apply hoare_bind (fun a s => prL s = c ∧ a = s) hoare_get
  intro s0
  refine hoare_pre_fact (s0.running = c.2.2.2.1) (fun s h => by rw [h.2]; exact running_of_prL s c h.1) (fun hrun => ?_)
  dsimp only
  by_cases hr : (s0.running == some k) = true
  · simp only [hr, if_true]
    exact hoare_panic_bind _ _
  · simp only [hr]
    have hne : c.2.2.2.1 ≠ some k := by
      intro h2; apply hr; rw [hrun, h2]; simp
    apply hoare_bind (fun _ s => prL s = c)
    · exact hoare_conseq (hoare_frameL (fl_srcRegister k _) c) (fun _ h => h.1) (fun _ _ h => h) (fun _ h => h)
    intro _
    apply hoare_and_fact _ hne
    apply hoare_bind (fun b s => prL s = c ∧ b = flagOf c.2.2.1 k) (hoare_isLife k c _)
    intro b
    by_cases hb : b = true
    · subst hb
      simp only [if_true]
      apply hoare_modify
      intro s ⟨h, hf⟩
      rw [prL_life_upd s c (fun l => lifeRegister l (forgetSub tok)) h]
      simp only [addL, ← hf, if_true]
    · have hb' : b = false := by simpa using hb
      subst hb'
      simp only [Bool.false_eq_true, if_false]
      apply hoare_pure
      intro s ⟨h, hf⟩
      simp only [addL, ← hf, Bool.false_eq_true, if_false]
      exact h

/-- `reregister`: deferred (`false`, nothing changes) when the dispatcher is borrowed; otherwise `true` with the token in -/
theorem hoare_dReregister (k : Nat) (tok : Tok) (c : LP) :
    Hoare (fun s => prL s = c) (dReregister k tok)
      (fun b s => (b = false ∧ prL s = c ∧ c.2.2.2.1 = some k) ∨ (b = true ∧ prL s = addL c k (forgetSub tok) ∧ c.2.2.2.1 ≠ some k))
      (fun s => prL s = c) := by
  unfold dReregister
  apply hoare_bind (fun a s => prL s = c ∧ a = s) hoare_get
  intro s0
  refine hoare_pre_fact (s0.running = c.2.2.2.1) (fun s h => by rw [h.2]; exact running_of_prL s c h.1) (fun hrun => ?_)
  by_cases hr : (s0.running == some k) = true
  · simp only [hr, if_true]
    apply hoare_pure
    intro s h
    exact Or.inl ⟨rfl, h.1, by rw [← hrun]; simpa using hr⟩
  · simp only [hr]
    have hne : c.2.2.2.1 ≠ some k := by
      intro h2; apply hr; rw [hrun, h2]; simp
    apply hoare_bind (fun _ s => prL s = c)
    · exact hoare_conseq (hoare_frameL (fl_srcReregister k _) c) (fun _ h => h.1) (fun _ _ h => h) (fun _ h => h)
    intro _
    apply hoare_lifeIf k _ (fun c => (c.1, (lifeRegister c.2.1 (forgetSub tok), c.2.2))) c
    · intro s h; exact prL_life_upd s c (fun l => lifeRegister l (forgetSub tok)) h
    · apply hoare_pure
      intro s h
      exact Or.inr ⟨rfl, by rw [addL_eq]; exact h, hne⟩

/-- `unregister`: deferred when the dispatcher is borrowed; otherwise the lifecycle token goes — also when the source
    itself failed to unregister (finding F13's fix) -/
theorem hoare_dUnregister (k : Nat) (tok : Tok) (c : LP) :
    Hoare (fun s => prL s = c) (dUnregister k tok)
      (fun b s => (b = false ∧ prL s = c ∧ c.2.2.2.1 = some k) ∨ (b = true ∧ prL s = delL c k tok ∧ c.2.2.2.1 ≠ some k))
      (fun s => prL s = delL c k tok ∧ c.2.2.2.1 ≠ some k) := by
  unfold dUnregister
  apply hoare_bind (fun a s => prL s = c ∧ a = s) hoare_get
  intro s0
  refine hoare_pre_fact (s0.running = c.2.2.2.1) (fun s h => by rw [h.2]; exact running_of_prL s c h.1) (fun hrun => ?_)
  by_cases hr : (s0.running == some k) = true
  · simp only [hr, if_true]
    apply hoare_pure
    intro s h
    exact Or.inl ⟨rfl, h.1, by rw [← hrun]; simpa using hr⟩
  · simp only [hr]
    have hne : c.2.2.2.1 ≠ some k := by
      intro h2; apply hr; rw [hrun, h2]; simp
    apply hoare_bind (fun _ s => prL s = c)
    · exact hoare_conseq (hoare_catchErr (E' := fun s => prL s = delL c k tok ∧ c.2.2.2.1 ≠ some k)
          (hoare_frameL (fl_srcUnregister k) c)) (fun _ h => h.1) (fun a _ h => by cases a <;> exact h) (fun _ h => h)
    intro r
    apply hoare_lifeIf k _ (fun c => (c.1, (lifeUnregister c.2.1 tok, c.2.2))) c
    · intro s h; exact prL_life_upd s c (fun l => lifeUnregister l tok) h
    · cases r with
      | ok _ =>
        apply hoare_pure
        intro s h
        exact Or.inr ⟨rfl, by rw [delL_eq]; exact h, hne⟩
      | error e =>
        intro s h
        simp [throwErr, throw, throwThe, MonadExceptOf.throw, EStateM.throw]
        exact ⟨by rw [delL_eq]; exact h, hne⟩

/-! ### the invariant -/

/-- the token resolves to an occupied slot whose source has lifecycle hooks -/
def good (c : LP) (t : Tok) : Prop := ∃ k, disp c.1.1 t = some k ∧ flagOf c.2.2.1 k = true

/-- the token is the one of the dispatcher whose event is being processed (its unregistration may be deferred to the
    end of that processing) -/
def exempt (c : LP) (t : Tok) : Prop :=
  ∃ k0, c.2.2.2.2 = some k0 ∧ alookup c.1.2.1 k0 = some t ∧ flagOf c.2.2.1 k0 = true

/-- `TokOk`; lifecycle tokens have sub-id 0; and — unless a generation wrapped or an object was inserted twice — every
    lifecycle token is good or exempt -/
def LifeMidP (x : Option Nat) (c : LP) : Prop :=
  TokMidP x c.1 ∧ (∀ t ∈ c.2.1, t.sub = 0) ∧ (c.1.2.2 = true ∨ ∀ t ∈ c.2.1, good c t ∨ exempt c t)

abbrev LifeP (c : LP) : Prop := LifeMidP none c

theorem disp_forgetSub (ss : Slots) (t : Tok) : disp ss (forgetSub t) = disp ss t := by
  unfold disp Slots.get
  simp [forgetSub, sameSource]

/-- adding the token of a source that sits in the slot the token names -/
theorem lifeP_add_good (x : Option Nat) (c : LP) (k : Nat) (t : Tok) (h : LifeMidP x c) (ht : t.sub = 0) (hd : disp c.1.1 t = some k) :
    LifeMidP x (addL c k t) := by
  obtain ⟨h1, h2, h3⟩ := h
  unfold addL
  cases hf : flagOf c.2.2.1 k with
  | false => simpa [hf] using ⟨h1, h2, h3⟩
  | true =>
    simp only [if_true]
    refine ⟨h1, ?_, ?_⟩
    · intro x hx
      rcases (Verif.Inv.Kernel.lifeRegister_mem _ _ _).mp hx with hx | hx
      · exact h2 x hx
      · subst hx; exact ht
    · cases h3 with
      | inl he => exact Or.inl he
      | inr hg =>
        refine Or.inr (fun x hx => ?_)
        rcases (Verif.Inv.Kernel.lifeRegister_mem _ _ _).mp hx with hx | hx
        · exact hg x hx
        · subst hx; exact Or.inl ⟨k, hd, hf⟩

/-- adding the token of the dispatcher in flight (its slot may be gone already) -/
theorem lifeP_add_exempt (c : LP) (k : Nat) (t : Tok) (h : LifeP c) (ht : t.sub = 0)
    (hi : c.2.2.2.2 = some k) (htok : alookup c.1.2.1 k = some t) : LifeP (addL c k t) := by
  obtain ⟨h1, h2, h3⟩ := h
  unfold addL
  cases hf : flagOf c.2.2.1 k with
  | false => simpa [hf] using ⟨h1, h2, h3⟩
  | true =>
    simp only [if_true]
    refine ⟨h1, ?_, ?_⟩
    · intro x hx
      rcases (Verif.Inv.Kernel.lifeRegister_mem _ _ _).mp hx with hx | hx
      · exact h2 x hx
      · subst hx; exact ht
    · cases h3 with
      | inl he => exact Or.inl he
      | inr hg =>
        refine Or.inr (fun x hx => ?_)
        rcases (Verif.Inv.Kernel.lifeRegister_mem _ _ _).mp hx with hx | hx
        · exact hg x hx
        · subst hx; exact Or.inr ⟨k, hi, htok, hf⟩

/-- taking a token out never hurts -/
theorem lifeP_del (c : LP) (k : Nat) (t : Tok) (h : LifeP c) : LifeP (delL c k t) := by
  obtain ⟨h1, h2, h3⟩ := h
  unfold delL
  cases hf : flagOf c.2.2.1 k with
  | false => simpa [hf] using ⟨h1, h2, h3⟩
  | true =>
    simp only [if_true]
    refine ⟨h1, fun x hx => h2 x ((Verif.Inv.Kernel.lifeUnregister_mem _ _ _).mp hx).1, ?_⟩
    cases h3 with
    | inl he => exact Or.inl he
    | inr hg => exact Or.inr (fun x hx => hg x ((Verif.Inv.Kernel.lifeUnregister_mem _ _ _).mp hx).1)

/-! ### vacating a slot -/

def setSlots (c : LP) (ss : Slots) : LP := ((ss, c.1.2.1, c.1.2.2), c.2)

theorem get_isSome_of_disp (ss : Slots) (t : Tok) (k : Nat) (h : disp ss t = some k) : ∃ sl, Slots.get ss t = some sl := by
  unfold disp at h
  cases hg : Slots.get ss t with
  | none => simp [hg] at h
  | some sl => exact ⟨sl, rfl⟩

/-- two sub-id-0 tokens that both pass the generation check of the same slot are one token -/
theorem same_slot_same_tok (ss : Slots) (t u : Tok) (a b : Slot) (ht : Slots.get ss t = some a) (hu : Slots.get ss u = some b)
    (hid : t.id = u.id) (h0 : t.sub = 0) (h0' : u.sub = 0) : t = u := by
  have h1 := (Verif.Inv.Slots.get_some_iff ss t a).mp ht
  have h2 := (Verif.Inv.Slots.get_some_iff ss u b).mp hu
  rw [hid] at h1
  have hab : a = b := by have := h1.1.symm.trans h2.1; injection this
  subst hab
  have e1 := h1.2; have e2 := h2.2
  simp only [sameSource, Bool.and_eq_true, beq_iff_eq] at e1 e2
  cases t; cases u; simp_all

/-- a good token other than `tok` stays good when `tok`'s slot is vacated -/
theorem good_vacate (c : LP) (t tok : Tok) (sl : Slot) (hg : good c t) (hne : t ≠ tok)
    (htok : Slots.get c.1.1 tok = some sl) (h0 : t.sub = 0) (h0' : tok.sub = 0) :
    good (setSlots c (setOcc c.1.1 tok.id none)) t := by
  obtain ⟨k, hd, hf⟩ := hg
  refine ⟨k, ?_, hf⟩
  show disp (setOcc c.1.1 tok.id none) t = some k
  by_cases hid : t.id = tok.id
  · obtain ⟨a, ha⟩ := get_isSome_of_disp _ _ _ hd
    exact absurd (same_slot_same_tok c.1.1 t tok a sl ha htok hid h0 h0') hne
  · unfold disp; rw [Verif.Inv.Slots.setOcc_other _ _ _ _ hid]; exact hd

theorem exempt_setSlots (c : LP) (ss : Slots) (t : Tok) (h : exempt c t) : exempt (setSlots c ss) t := h

/-- vacating the slot of `tok`: everything but `tok` itself is as good as before -/
theorem lifeP_vacate_but (c : LP) (tok : Tok) (sl : Slot) (h : LifeP c) (htok : Slots.get c.1.1 tok = some sl) (h0 : tok.sub = 0) :
    TokOkP (setSlots c (setOcc c.1.1 tok.id none)).1 ∧ (∀ t ∈ c.2.1, t.sub = 0) ∧
    (c.1.2.2 = true ∨ ∀ t ∈ c.2.1, t = tok ∨ good (setSlots c (setOcc c.1.1 tok.id none)) t ∨ exempt c t) := by
  obtain ⟨h1, h2, h3⟩ := h
  refine ⟨?_, h2, ?_⟩
  · obtain ⟨w, t0, r⟩ := h1
    refine ⟨wfs_setOcc _ _ _ w, t0, ?_⟩
    cases r with
    | inl he => exact Or.inl he
    | inr hs => exact Or.inr ⟨fun k t d hk hd => hs.1 k t d hk (disp_vacate _ _ _ _ hd), u_vacate _ _ hs.2.1, sp_vacate _ _ _ _ hs.2.2⟩
  · cases h3 with
    | inl he => exact Or.inl he
    | inr hg =>
      refine Or.inr (fun t ht => ?_)
      by_cases hne : t = tok
      · exact Or.inl hne
      · cases hg t ht with
        | inl hgood => exact Or.inr (Or.inl (good_vacate c t tok sl hgood hne htok (h2 t ht) h0))
        | inr hex => exact Or.inr (Or.inr hex)

/-- the user's token of the occupant of the slot `tok` resolves to is `tok` itself (clause 3 of `TokOk`) -/
theorem tokens_of_occupant (c : LP) (tok : Tok) (sl : Slot) (d : Nat) (h : TokOkP c.1) (hne : c.1.2.2 = false)
    (hg : Slots.get c.1.1 tok = some sl) (ho : sl.occ = some d) (h0 : tok.sub = 0) : alookup c.1.2.1 d = some tok := by
  obtain ⟨w, _, r⟩ := h
  have hs := r.resolve_left (by simp [hne])
  have hg' := (Verif.Inv.Slots.get_some_iff _ _ _).mp hg
  have := hs.2.2 tok.id sl d hg'.1 ho (by simp)
  have hw := w tok.id sl hg'.1
  have : sl.tok = tok := tok_eq_of_same sl.tok tok hg'.2 hw.2 h0
  rw [← this]; assumption

/-- from the invariant, with the escape flag down: the strong parts -/
theorem lifeP_strong (c : LP) (h : LifeP c) (hne : c.1.2.2 = false) :
    (∀ t ∈ c.2.1, good c t ∨ exempt c t) := h.2.2.resolve_left (by simp [hne])

/-- a lifecycle token that resolves to occupant `d` means `d` has lifecycle hooks -/
theorem flag_of_resolving (c : LP) (t : Tok) (d : Nat) (h : LifeP c) (hne : c.1.2.2 = false) (ht : t ∈ c.2.1)
    (hd : disp c.1.1 t = some d) : flagOf c.2.2.1 d = true := by
  rcases lifeP_strong c h hne t ht with ⟨k, hk, hf⟩ | ⟨k0, _, htok, hf⟩
  · rw [hd] at hk; injection hk with e; subst e; exact hf
  · -- exempt: `t` is the user's token of `k0`, and it resolves to `d`: so `d = k0`
    obtain ⟨_, _, r⟩ := h.1
    have hs := r.resolve_left (by simp [hne])
    have := hs.1 k0 t d htok hd
    subst this; exact hf

theorem disp_of_get (ss : Slots) (t : Tok) (sl : Slot) (d : Nat) (hg : Slots.get ss t = some sl) (ho : sl.occ = some d) :
    disp ss t = some d := by unfold disp; rw [hg]; exact ho

/-- `remove` of a source whose dispatcher is borrowed right now (it removes itself from its own callback): the slot
    is vacated, the unregistration is deferred — its lifecycle token stays, and is exempt -/
theorem lifeP_vacate_deferred (c : LP) (tok : Tok) (sl : Slot) (d : Nat) (h : LifeP c)
    (hg : Slots.get c.1.1 tok = some sl) (ho : sl.occ = some d) (h0 : tok.sub = 0)
    (hinf : c.2.2.2.2 = some d) :
    LifeP (setSlots c (setOcc c.1.1 tok.id none)) := by
  obtain ⟨hb1, hb2, hb3⟩ := lifeP_vacate_but c tok sl h hg h0
  refine ⟨hb1, hb2, ?_⟩
  cases hesc : c.1.2.2 with
  | true => exact Or.inl hesc
  | false =>
    have hx := hb3.resolve_left (by simp [hesc])
    refine Or.inr (fun t ht => ?_)
    rcases hx t ht with e | hgd | hex
    · subst e
      refine Or.inr ⟨d, hinf, tokens_of_occupant c t sl d h.1 hesc hg ho h0, ?_⟩
      exact flag_of_resolving c t d h hesc ht (disp_of_get _ _ _ _ hg ho)
    · exact Or.inl hgd
    · exact Or.inr hex

/-- `remove` carried out at once: the slot is vacated and the lifecycle token taken out -/
theorem lifeP_vacate_del (c : LP) (tok : Tok) (sl : Slot) (d : Nat) (h : LifeP c)
    (hg : Slots.get c.1.1 tok = some sl) (ho : sl.occ = some d) (h0 : tok.sub = 0) :
    LifeP (delL (setSlots c (setOcc c.1.1 tok.id none)) d tok) := by
  obtain ⟨hb1, hb2, hb3⟩ := lifeP_vacate_but c tok sl h hg h0
  cases hesc : c.1.2.2 with
  | true =>
    exact lifeP_del _ d tok ⟨hb1, hb2, Or.inl hesc⟩
  | false =>
    have hx := hb3.resolve_left (by simp [hesc])
    unfold delL
    cases hf : flagOf (setSlots c (setOcc c.1.1 tok.id none)).2.2.1 d with
    | false =>
      simp only [Bool.false_eq_true, if_false]
      refine ⟨hb1, hb2, Or.inr (fun t ht => ?_)⟩
      rcases hx t ht with e | hgd | hex
      · subst e
        have := flag_of_resolving c t d h hesc ht (disp_of_get _ _ _ _ hg ho)
        have hf' : flagOf c.2.2.1 d = false := hf
        rw [hf'] at this; cases this
      · exact Or.inl hgd
      · exact Or.inr hex
    | true =>
      simp only [if_true]
      refine ⟨hb1, fun x hx' => hb2 x ((Verif.Inv.Kernel.lifeUnregister_mem _ _ _).mp hx').1, Or.inr (fun t ht => ?_)⟩
      have hm := (Verif.Inv.Kernel.lifeUnregister_mem _ _ _).mp ht
      rcases hx t hm.1 with e | hgd | hex
      · exact absurd e hm.2
      · exact Or.inl hgd
      · exact Or.inr hex

/-! ### an insertion, seen from the lifecycle set -/

/-- occupying the vacant slot `i` (own token `sl.tok`) with `k`, escape flag raised if that token was issued before -/
theorem life_occupy (c : LP) (ss' : Slots) (i k : Nat) (sl : Slot) (esc' : Bool) (h : LifeP c)
    (hw' : WFS ss') (hsl : ss'[i]? = some sl) (hv : sl.occ = none)
    (hdisp : ∀ t, disp ss' t = disp c.1.1 t)
    (hesc : esc' = false → c.1.2.2 = false ∧ ∀ p ∈ c.1.2.1, p.2 ≠ sl.tok) :
    (esc' = true ∨ ∀ t ∈ c.2.1, good ((setOcc ss' i (some k), c.1.2.1, esc'), c.2) t ∨ exempt ((setOcc ss' i (some k), c.1.2.1, esc'), c.2) t) := by
  cases he : esc' with
  | true => exact Or.inl rfl
  | false =>
    obtain ⟨hne, hfresh⟩ := hesc he
    refine Or.inr (fun t ht => ?_)
    have h0 : t.sub = 0 := h.2.1 t ht
    rcases lifeP_strong c h hne t ht with ⟨k', hk', hf⟩ | ⟨k0, hi, htok, hf⟩
    · have hne' : t ≠ sl.tok := by
        intro e
        have hid := (hw' i sl hsl).1
        have : disp ss' t = none := by
          rw [e]; exact disp_vacant ss' sl.tok sl (by rw [hid]; exact hsl) hv
        rw [hdisp t, hk'] at this; cases this
      refine Or.inl ⟨k', ?_, hf⟩
      show disp (setOcc ss' i (some k)) t = some k'
      rw [disp_occupy ss' i k sl t hw' hsl h0 hne', hdisp t]; exact hk'
    · exact Or.inr ⟨k0, hi, htok, hf⟩

/-- the user gets the new token: an exemption rests on the token of the dispatcher in flight, which is another one -/
theorem life_newToken (c : LP) (k : Nat) (tok : Tok) (hk : c.2.2.2.2 ≠ some k)
    (h : c.1.2.2 = true ∨ ∀ t ∈ c.2.1, good c t ∨ exempt c t) :
    (c.1.2.2 = true ∨ ∀ t ∈ c.2.1, good ((c.1.1, aset c.1.2.1 k tok, c.1.2.2), c.2) t ∨ exempt ((c.1.1, aset c.1.2.1 k tok, c.1.2.2), c.2) t) := by
  cases h with
  | inl he => exact Or.inl he
  | inr hg =>
    refine Or.inr (fun t ht => ?_)
    rcases hg t ht with hgd | ⟨k0, hi, htok, hf⟩
    · exact Or.inl hgd
    · refine Or.inr ⟨k0, hi, ?_, hf⟩
      show alookup (aset c.1.2.1 k tok) k0 = some t
      rw [alookup_aset_other _ _ _ _ (by intro e; subst e; exact hk hi)]; exact htok

/-- the registration failed and the slot is given back: no lifecycle token named it -/
theorem life_vacateNew (c : LP) (i : Nat) (sl : Slot) (hw : WFS c.1.1) (hsl : c.1.1[i]? = some sl)
    (hnot : c.1.2.2 = false → ∀ t ∈ c.2.1, t ≠ sl.tok) (hl0 : ∀ t ∈ c.2.1, t.sub = 0)
    (h : c.1.2.2 = true ∨ ∀ t ∈ c.2.1, good c t ∨ exempt c t) :
    (c.1.2.2 = true ∨ ∀ t ∈ c.2.1, good (setSlots c (setOcc c.1.1 i none)) t ∨ exempt (setSlots c (setOcc c.1.1 i none)) t) := by
  cases he : c.1.2.2 with
  | true => exact Or.inl rfl
  | false =>
    have hg := h.resolve_left (by simp [he])
    refine Or.inr (fun t ht => ?_)
    rcases hg t ht with ⟨k', hk', hf⟩ | hex
    · refine Or.inl ⟨k', ?_, hf⟩
      show disp (setOcc c.1.1 i none) t = some k'
      by_cases hid : t.id = i
      · exfalso
        obtain ⟨a, ha⟩ := get_isSome_of_disp _ _ _ hk'
        have ha' := (Verif.Inv.Slots.get_some_iff _ _ _).mp ha
        rw [hid, hsl] at ha'
        have : a = sl := by have := ha'.1; injection this with e; exact e.symm
        subst this
        exact hnot he t ht (tok_eq_of_same a.tok t ha'.2 (hw i a hsl).2 (hl0 t ht)).symm
      · unfold disp; rw [Verif.Inv.Slots.setOcc_other _ _ _ _ hid]; exact hk'
    · exact Or.inr hex

/-! ### the invariant as seen by callbacks and top-level operations -/

/-- which event is being processed: none (top level, idle callbacks), or dispatcher `k0` under the token `reg` -/
def FixOk (fix : Option (Nat × Tok)) (c : LP) : Prop :=
  match fix with
  | none => c.2.2.2.2 = none
  | some (k0, reg) => c.2.2.2.2 = some k0 ∧ (c.1.2.2 = true ∨ alookup c.1.2.1 k0 = some reg)

/-- the invariant wherever user code can run: `LifeP`, the dispatcher held by the loop is the one borrowed (both none
    outside event processing), and the token of the event in flight is the user's token of that dispatcher -/
def CbP (fix : Option (Nat × Tok)) (c : LP) : Prop := LifeP c ∧ c.2.2.2.2 = c.2.2.2.1 ∧ FixOk fix c

abbrev CbOk (fix : Option (Nat × Tok)) : St → Prop := fun s => CbP fix (prL s)

theorem keeps_of_frameL {α} {x : M α} (h : FrameL x) (R : LP → Prop) : Keeps x (fun s => R (prL s)) := by
  constructor
  intro s hs
  have h1 : prL (after x s) = prL s := (h (prL s)).h s rfl
  show R (prL (after x s))
  rw [h1]; exact hs

/-- a triple stated for every value of the projection gives an invariant -/
theorem ki_of_forall {α} {x : M α} {R : LP → Prop}
    (h : ∀ c, R c → Hoare (fun s => prL s = c) x (fun _ s => R (prL s)) (fun s => R (prL s))) :
    KeepsI x (fun s => R (prL s)) := by
  constructor
  intro s hs
  exact h (prL s) hs s rfl

theorem flagOf_append (fl : List (Nat × Bool)) (k : Nat) (b : Bool) (k' : Nat) (hnone : (alookup fl k).isSome = false)
    (h : flagOf fl k' = true) : flagOf (fl ++ [(k, b)]) k' = true := by
  unfold flagOf alookup at *
  rw [List.find?_append]
  cases hf : fl.find? (·.1 == k') with
  | none => simp [hf] at h
  | some p => simpa [hf] using h

theorem cb_churn (fix : Option (Nat × Tok)) (s : St) (n : Nat) (h : CbOk fix s) :
    CbOk fix { s with slots := churnSlots n s.slots } := by
  obtain ⟨⟨h1, h2, h3⟩, hs, hf⟩ := h
  refine ⟨⟨tokOk_churn s n h1, h2, ?_⟩, hs, hf⟩
  cases h3 with
  | inl he => exact Or.inl he
  | inr hg =>
    refine Or.inr (fun t ht => ?_)
    rcases hg t ht with ⟨k, hk, hfl⟩ | hex
    · exact Or.inl ⟨k, by show disp (churnSlots n s.slots) t = some k; rw [disp_churn]; exact hk, hfl⟩
    · exact Or.inr hex

theorem cb_newFlags (fix : Option (Nat × Tok)) (s : St) (k : Nat) (b : Bool) (kk : Kernel) (h : CbOk fix s) :
    CbOk fix { s with k := kk, lifeFlags := if (alookup s.lifeFlags k).isSome then s.lifeFlags else s.lifeFlags ++ [(k, b)] } := by
  cases hsome : (alookup s.lifeFlags k).isSome with
  | true => simp only [if_true]; exact h
  | false =>
    simp only [Bool.false_eq_true, if_false]
    obtain ⟨⟨h1, h2, h3⟩, hs, hf⟩ := h
    refine ⟨⟨h1, h2, ?_⟩, hs, hf⟩
    cases h3 with
    | inl he => exact Or.inl he
    | inr hg =>
      refine Or.inr (fun t ht => ?_)
      rcases hg t ht with ⟨k', hk', hfl⟩ | ⟨k0, hi, htok, hfl⟩
      · exact Or.inl ⟨k', hk', flagOf_append _ _ _ _ hsome hfl⟩
      · exact Or.inr ⟨k0, hi, htok, flagOf_append _ _ _ _ hsome hfl⟩

/-! ### handle operations on a token -/

theorem cbP_addL_good (fix : Option (Nat × Tok)) (c : LP) (d : Nat) (t : Tok) (h : CbP fix c) (h0 : t.sub = 0)
    (hd : disp c.1.1 t = some d) : CbP fix (addL c d t) := by
  obtain ⟨hl, hs, hf⟩ := h
  refine ⟨lifeP_add_good none c d t hl h0 hd, ?_, ?_⟩
  · unfold addL; exact hs
  · unfold addL; exact hf

theorem cbP_delL (fix : Option (Nat × Tok)) (c : LP) (d : Nat) (t : Tok) (h : CbP fix c) : CbP fix (delL c d t) := by
  obtain ⟨hl, hs, hf⟩ := h
  refine ⟨lifeP_del c d t hl, ?_, ?_⟩
  · unfold delL; exact hs
  · unfold delL; exact hf

theorem slotDisp_prL (s : St) (c : LP) (t : Tok) (h : prL s = c) : slotDisp s t = disp c.1.1 t := by subst h; rfl

/-- the frame around the body of `enable` / `update` / `disable`: the body runs only for a token that resolves -/
theorem ki_tokenOp_cb (fix : Option (Nat × Tok)) (o : COp) (k : Nat) (body : Nat → Tok → M Unit)
    (hb : ∀ d tok c, CbP fix c → disp c.1.1 tok = some d →
      Hoare (fun s => prL s = c) (body d tok) (fun _ s => CbP fix (prL s)) (fun s => CbP fix (prL s))) :
    KeepsI (tokenOp o k body) (CbOk fix) := by
  apply ki_of_forall
  intro c hc
  unfold tokenOp
  apply hoare_bind (fun _ s => prL s = c)
  · exact hoare_conseq (hoare_frameL (fl_userTok k) c) (fun _ h => h) (fun _ _ h => h) (fun s h => by rw [h]; exact hc)
  intro otok
  split
  · exact hoare_conseq (hoare_frameL (fl_emit _) c) (fun _ h => h) (fun _ s h => by rw [h]; exact hc) (fun s h => by rw [h]; exact hc)
  · rename_i tok
    apply hoare_bind (fun a s => prL s = c ∧ a = s) hoare_get
    intro s0
    refine hoare_pre_fact (slotDisp s0 tok = disp c.1.1 tok) (fun s h => by rw [h.2]; exact slotDisp_prL s c tok h.1) (fun hsd => ?_)
    split
    · exact hoare_conseq (hoare_frameL (fl_emit _) c) (fun _ h => h.1) (fun _ s h => by rw [h]; exact hc) (fun s h => by rw [h]; exact hc)
    · rename_i d hd
      have hd' : disp c.1.1 tok = some d := by rw [← hsd]; exact hd
      apply hoare_bind (fun _ s => CbP fix (prL s))
      · exact hoare_conseq (hoare_catchErr (E' := fun s => CbP fix (prL s)) (hb d tok c hc hd'))
          (fun _ h => h.1) (fun a _ h => by cases a <;> exact h) (fun _ h => h)
      · intro r
        have he : ∀ ob, Hoare (fun s => CbP fix (prL s)) (emit ob) (fun _ s => CbP fix (prL s)) (fun s => CbP fix (prL s)) :=
          fun ob => hoare_of_keeps (keeps_of_frameL (fl_emit ob) (CbP fix))
        split <;> exact he _

theorem ki_enable_cb (fix : Option (Nat × Tok)) (o : COp) (k : Nat) :
    KeepsI (tokenOp o k fun d tok => dRegister d tok) (CbOk fix) := by
  apply ki_tokenOp_cb
  intro d tok c hc hd
  refine hoare_conseq (hoare_dRegister d tok c) (fun _ h => h) (fun _ s h => ?_) (fun s h => by rw [h]; exact hc)
  rw [h.1]
  exact cbP_addL_good fix c d (forgetSub tok) hc rfl (by rw [disp_forgetSub]; exact hd)

theorem ki_update_cb (fix : Option (Nat × Tok)) (o : COp) (k : Nat) :
    KeepsI (tokenOp o k fun d tok => do
      if !(← dReregister d tok) then modify fun s => { s with pending := .Reregister }) (CbOk fix) := by
  apply ki_tokenOp_cb
  intro d tok c hc hd
  apply hoare_bind (fun _ s => CbP fix (prL s))
  · refine hoare_conseq (hoare_dReregister d tok c) (fun _ h => h) (fun b s h => ?_) (fun s h => by rw [h]; exact hc)
    rcases h with ⟨_, h, _⟩ | ⟨_, h, _⟩
    · rw [h]; exact hc
    · rw [h]; exact cbP_addL_good fix c d (forgetSub tok) hc rfl (by rw [disp_forgetSub]; exact hd)
  · intro b
    split
    · exact hoare_of_keeps (by apply keeps_modify; intro s h; exact h)
    · exact hoare_pure _ (fun _ h => h)

theorem ki_disable_cb (fix : Option (Nat × Tok)) (o : COp) (k : Nat) :
    KeepsI (tokenOp o k fun d tok => do
      if !(← dUnregister d tok) then modify fun s => { s with pending := .Disable }) (CbOk fix) := by
  apply ki_tokenOp_cb
  intro d tok c hc hd
  apply hoare_bind (fun _ s => CbP fix (prL s))
  · refine hoare_conseq (hoare_dUnregister d tok c) (fun _ h => h) (fun b s h => ?_) (fun s h => by rw [h.1]; exact cbP_delL fix c d tok hc)
    rcases h with ⟨_, h, _⟩ | ⟨_, h, _⟩
    · rw [h]; exact hc
    · rw [h]; exact cbP_delL fix c d tok hc
  · intro b
    split
    · exact hoare_of_keeps (by apply keeps_modify; intro s h; exact h)
    · exact hoare_pure _ (fun _ h => h)

/-! ### `remove` -/

theorem hoare_userTok (k : Nat) (c : LP) (E : St → Prop) :
    Hoare (fun s => prL s = c) (userTok k) (fun a s => prL s = c ∧ a = alookup c.1.2.1 k) E := by
  unfold userTok
  apply hoare_bind (fun a s => prL s = c ∧ a = s) hoare_get
  intro s0
  apply hoare_pure
  intro s ⟨h, e⟩
  subst e; subst h
  exact ⟨rfl, rfl⟩

theorem slots_prL (s : St) (c : LP) (h : prL s = c) : s.slots = c.1.1 := by subst h; rfl

theorem prL_setSlots (s : St) (c : LP) (ss : Slots) (h : prL s = c) : prL { s with slots := ss } = setSlots c ss := by
  subst h; rfl

theorem ki_doRemove_cb (fix : Option (Nat × Tok)) (o : COp) (k : Nat) : KeepsI (doRemove o k) (CbOk fix) := by
  apply ki_of_forall
  intro c hc
  have hE : ∀ s, prL s = c → CbP fix (prL s) := fun s h => by rw [h]; exact hc
  have hemit : ∀ ob, Hoare (fun s => CbP fix (prL s)) (emit ob) (fun _ s => CbP fix (prL s)) (fun s => CbP fix (prL s)) :=
    fun ob => hoare_of_keeps (keeps_of_frameL (fl_emit ob) (CbP fix))
  unfold doRemove
  apply hoare_bind (fun a s => prL s = c ∧ a = alookup c.1.2.1 k) (hoare_userTok k c _)
  intro otok
  split
  · exact hoare_conseq (hemit _) (fun s h => hE s h.1) (fun _ _ h => h) (fun _ h => h)
  · rename_i tok
    refine hoare_pre_fact (alookup c.1.2.1 k = some tok) (fun s h => h.2.symm) (fun htok => ?_)
    apply hoare_bind (fun a s => prL s = c ∧ a = s)
    · exact hoare_conseq hoare_get (fun _ h => h.1) (fun _ _ h => h) (fun _ h => h)
    intro s0
    refine hoare_pre_fact (s0.slots = c.1.1) (fun s h => by rw [h.2]; exact slots_prL s c h.1) (fun hss => ?_)
    dsimp only
    rw [hss]
    have h0 : tok.sub = 0 := hc.1.1.2.1 (k, tok) (alookup_mem _ _ _ htok)
    split
    · exact hoare_conseq (hemit _) (fun s h => hE s h.1) (fun _ _ h => h) (fun _ h => h)
    · rename_i slot hget
      split
      · exact hoare_conseq (hemit _) (fun s h => hE s h.1) (fun _ _ h => h) (fun _ h => h)
      · rename_i d hocc
        apply hoare_bind (fun _ s => prL s = setSlots c (setOcc c.1.1 tok.id none))
        · apply hoare_modify
          intro s ⟨h, _⟩
          have := slots_prL s c h
          rw [this]
          exact prL_setSlots s c _ h
        intro _
        have hsync : c.2.2.2.2 = c.2.2.2.1 := hc.2.1
        have hfix : FixOk fix c := hc.2.2
        have hdefer : c.2.2.2.1 = some d → CbP fix (setSlots c (setOcc c.1.1 tok.id none)) := fun hr =>
          ⟨lifeP_vacate_deferred c tok slot d hc.1 hget hocc h0 (by rw [hsync]; exact hr), hsync, hfix⟩
        have hdone : CbP fix (delL (setSlots c (setOcc c.1.1 tok.id none)) d tok) :=
          ⟨lifeP_vacate_del c tok slot d hc.1 hget hocc h0, by unfold delL; exact hsync, by unfold delL; exact hfix⟩
        apply hoare_bind (fun _ s => CbP fix (prL s))
        · refine hoare_conseq (hoare_catchErr (E' := fun s => CbP fix (prL s)) (hoare_dUnregister d tok _))
            (fun _ h => h) (fun a s h => ?_) (fun _ h => h)
          cases a with
          | ok b =>
            rcases h with ⟨_, h, hr⟩ | ⟨_, h, _⟩
            · rw [h]; exact hdefer hr
            · rw [h]; exact hdone
          | error e => rw [h.1]; exact hdone
        intro _
        apply hoare_bind (fun _ s => CbP fix (prL s)) (hoare_of_keeps (keeps_of_frameL (fl_maybeDrop d) (CbP fix)))
        intro _
        exact hemit _

/-! ### `insert` -/

/-- no lifecycle token equals the token of the vacant slot about to be handed out (unless the escape flag goes up) -/
theorem life_fresh (c : LP) (ss' : Slots) (i : Nat) (sl : Slot) (h : LifeP c)
    (hw' : WFS ss') (hsl : ss'[i]? = some sl) (hv : sl.occ = none) (hdisp : ∀ t, disp ss' t = disp c.1.1 t)
    (hne : c.1.2.2 = false) (hfresh : ∀ p ∈ c.1.2.1, p.2 ≠ sl.tok) : ∀ t ∈ c.2.1, t ≠ sl.tok := by
  intro t ht e
  rcases lifeP_strong c h hne t ht with ⟨k', hk', _⟩ | ⟨k0, _, htok, _⟩
  · have hid := (hw' i sl hsl).1
    have : disp ss' t = none := by rw [e]; exact disp_vacant ss' sl.tok sl (by rw [hid]; exact hsl) hv
    rw [hdisp t, hk'] at this; cases this
  · exact hfresh (k0, t) (alookup_mem _ _ _ htok) e

/-- the projection right after `doInsert` has occupied slot `i` with `k` -/
def occL (c : LP) (ss' : Slots) (i k : Nat) (tok : Tok) : LP :=
  ((setOcc ss' i (some k), c.1.2.1, (c.1.2.2 || c.1.2.1.any (·.2 == tok)) || c.1.1.any (·.occ == some k)), c.2)

theorem prL_occupy (s : St) (c : LP) (ss' : Slots) (i k : Nat) (tok : Tok) (h : prL s = c) :
    prL { s with slots := setOcc ss' i (some k), aliased := s.aliased || s.tokens.any (·.2 == tok),
                 dupInsert := s.dupInsert || inSlot s k } = occL c ss' i k tok := by
  subst h
  simp only [prL, prA, occL, inSlot]
  congr 2
  cases s.aliased <;> cases s.dupInsert <;> cases (s.tokens.any fun x => x.2 == tok) <;> simp

theorem fl_doInsertTail (k : Nat) (src : Src) (e : Err) :
    FrameL (do
      if src.kind == .custom then modSrc k fun s => { s with owned := true }
      maybeDrop k
      emit (.ins k (.err e)) : M Unit) := by
  intro c; repeat (first | fl_step | dsimp only)

theorem hoare_doInsertAt_cb (fix : Option (Nat × Tok)) (k : Nat) (src : Src) (c : LP) (hc : CbP fix c) :
    Hoare (fun s => prL s = c)
      (doInsertAt k src (vacantEntry bV c.1.1).1 (vacantEntry bV c.1.1).2
        (match (vacantEntry bV c.1.1).1[(vacantEntry bV c.1.1).2]? with | some sl => sl.tok | none => default))
      (fun _ s => CbP fix (prL s)) (fun s => CbP fix (prL s)) := by
  obtain ⟨sl, hsl, hv⟩ := Verif.Inv.Slots.vacantEntry_vacant bV c.1.1
  rw [hsl]
  simp only
  unfold doInsertAt
  obtain ⟨hl, hsync, hfix⟩ := hc
  have hw : WFS c.1.1 := hl.1.1
  have hw' : WFS (vacantEntry bV c.1.1).1 := wfs_vacantEntry bV c.1.1 hw
  have h0 : sl.tok.sub = 0 := (hw' _ sl hsl).2
  -- A: the slot is occupied
  apply hoare_bind (fun _ s => prL s = occL c (vacantEntry bV c.1.1).1 (vacantEntry bV c.1.1).2 k sl.tok ∧
      TokMidP (some (vacantEntry bV c.1.1).2) (occL c (vacantEntry bV c.1.1).1 (vacantEntry bV c.1.1).2 k sl.tok).1)
  · apply hoare_modify
    intro s h
    have hp := prL_occupy s c (vacantEntry bV c.1.1).1 (vacantEntry bV c.1.1).2 k sl.tok h
    refine ⟨hp, ?_⟩
    have hss : s.slots = c.1.1 := slots_prL s c h
    have hts : TokOk s := by have : prA s = c.1 := by rw [← h]; rfl
                             show TokOkP (prA s); rw [this]; exact hl.1
    have := (tokMid_occupy s k sl hts (by rw [hss]; exact hsl)).1
    rw [hss] at this
    have e : prA { s with slots := setOcc (vacantEntry bV c.1.1).1 (vacantEntry bV c.1.1).2 (some k),
                          aliased := s.aliased || s.tokens.any (·.2 == sl.tok), dupInsert := s.dupInsert || inSlot s k }
           = (occL c (vacantEntry bV c.1.1).1 (vacantEntry bV c.1.1).2 k sl.tok).1 := by rw [← hp]; rfl
    rw [← e]; exact this
  intro _
  -- facts about the projection after A (they do not depend on the state any more)
  refine hoare_pre_fact (TokMidP (some (vacantEntry bV c.1.1).2) (occL c (vacantEntry bV c.1.1).1 (vacantEntry bV c.1.1).2 k sl.tok).1)
    (fun _ h => h.2) (fun hF1 => ?_)
  generalize hcA : occL c (vacantEntry bV c.1.1).1 (vacantEntry bV c.1.1).2 k sl.tok = cA at hF1
  have hA1 : cA.1.1 = setOcc (vacantEntry bV c.1.1).1 (vacantEntry bV c.1.1).2 (some k) := by rw [← hcA]; rfl
  have hA2 : cA.1.2.1 = c.1.2.1 := by rw [← hcA]; rfl
  have hA3 : cA.2 = c.2 := by rw [← hcA]; rfl
  have hAesc : cA.1.2.2 = false → c.1.2.2 = false ∧ ∀ p ∈ c.1.2.1, p.2 ≠ sl.tok := by
    intro he
    have : ((c.1.2.2 || c.1.2.1.any (·.2 == sl.tok)) || c.1.1.any (·.occ == some k)) = false := by rw [← hcA] at he; exact he
    simp only [Bool.or_eq_false_iff] at this
    refine ⟨this.1.1, fun p hp e => ?_⟩
    have h2 : c.1.2.1.any (·.2 == sl.tok) = true := List.any_eq_true.mpr ⟨p, hp, by simp [e]⟩
    rw [this.1.2] at h2; cases h2
  have hAmono : c.1.2.2 = true → cA.1.2.2 = true := by
    intro he; rw [← hcA]; show ((c.1.2.2 || _) || _) = true; simp [he]
  have hF2 : cA.1.1[(vacantEntry bV c.1.1).2]? = some { sl with occ := some k } := by
    rw [hA1, Verif.Inv.Slots.setOcc_getElem, if_pos rfl, hsl]; rfl
  have hdisp : ∀ t, disp (vacantEntry bV c.1.1).1 t = disp c.1.1 t := fun t => disp_vacantEntry bV c.1.1 t
  have hF3 : cA.1.2.2 = true ∨ ∀ t ∈ cA.2.1, good cA t ∨ exempt cA t := by
    have := life_occupy c (vacantEntry bV c.1.1).1 (vacantEntry bV c.1.1).2 k sl cA.1.2.2 hl hw' hsl hv hdisp hAesc
    have e : ((setOcc (vacantEntry bV c.1.1).1 (vacantEntry bV c.1.1).2 (some k), c.1.2.1, cA.1.2.2), c.2) = cA := by
      rw [← hcA]; rfl
    rw [e] at this; rw [hA3]; exact this
  have hL0 : ∀ t ∈ cA.2.1, t.sub = 0 := by rw [hA3]; exact hl.2.1
  have hmid : LifeMidP (some (vacantEntry bV c.1.1).2) cA := ⟨hF1, hL0, hF3⟩
  have hF4 : cA.1.2.2 = false → ∀ t ∈ cA.2.1, t ≠ sl.tok := by
    intro he
    rw [hA3]
    exact life_fresh c _ _ sl hl hw' hsl hv hdisp (hAesc he).1 (hAesc he).2
  have hdk : disp cA.1.1 sl.tok = some k := by rw [hA1]; exact disp_occupy_self _ _ k sl hw' hsl
  have hfs : forgetSub sl.tok = sl.tok := by
    cases hst : sl.tok with
    | mk a b c0 =>
      rw [hst] at h0
      simp only at h0
      simp [forgetSub, h0]
  have hsyncA : cA.2.2.2.2 = cA.2.2.2.1 := by rw [hA3]; exact hsync
  have hfixA : FixOk fix cA := by
    cases fix with
    | none => show cA.2.2.2.2 = none; rw [hA3]; exact hfix
    | some kr =>
      obtain ⟨k0, reg⟩ := kr
      obtain ⟨hi, ht⟩ := hfix
      refine ⟨by rw [hA3]; exact hi, ?_⟩
      cases ht with
      | inl he => exact Or.inl (hAmono he)
      | inr ht => exact Or.inr (by rw [hA2]; exact ht)
  -- registration
  apply hoare_bind (fun r s => match r with
      | .ok _ => prL s = addL cA k sl.tok ∧ cA.2.2.2.1 ≠ some k
      | .error _ => prL s = cA)
  · refine hoare_conseq (hoare_catchErr (E' := fun s => CbP fix (prL s)) (hoare_dRegister k sl.tok cA))
      (fun _ h => h.1) (fun a s h => ?_) (fun _ h => h)
    cases a with
    | ok _ => rw [hfs] at h; exact h
    | error e => exact h
  intro r
  cases r with
  | ok _ =>
    simp only
    apply hoare_bind (fun _ s => CbP fix (prL s))
    · apply hoare_modify
      intro s ⟨hp, hrn⟩
      have hinf : (addL cA k sl.tok).2.2.2.2 ≠ some k := by
        show cA.2.2.2.2 ≠ some k; rw [hsyncA]; exact hrn
      have hmid2 := lifeP_add_good (some (vacantEntry bV c.1.1).2) cA k sl.tok hmid h0 hdk
      have hprA : prA s = cA.1 := by have : (prL s).1 = (addL cA k sl.tok).1 := by rw [hp]
                                     exact this
      have hslots : s.slots = cA.1.1 := by have := congrArg (·.1) hprA; exact this
      have htok := tokOk_newToken s _ k sl (by rw [hprA]; exact hF1) (by rw [hslots]; exact hF2) h0
      have hlife := life_newToken (addL cA k sl.tok) k sl.tok hinf hmid2.2.2
      have hpr2 : prL { s with tokens := aset s.tokens k sl.tok }
          = (((addL cA k sl.tok).1.1, aset (addL cA k sl.tok).1.2.1 k sl.tok, (addL cA k sl.tok).1.2.2), (addL cA k sl.tok).2) := by
        rw [← hp]; rfl
      refine ⟨⟨?_, ?_, ?_⟩, ?_, ?_⟩
      · exact htok
      · rw [hpr2]; exact hmid2.2.1
      · rw [hpr2]; exact hlife
      · rw [hpr2]; exact hsyncA
      · rw [hpr2]
        cases fix with
        | none => exact hfixA
        | some kr =>
          obtain ⟨k0, reg⟩ := kr
          obtain ⟨hi, ht⟩ := hfixA
          refine ⟨hi, ?_⟩
          cases ht with
          | inl he => exact Or.inl he
          | inr ht =>
            refine Or.inr ?_
            show alookup (aset cA.1.2.1 k sl.tok) k0 = some reg
            rw [alookup_aset_other _ _ _ _ (by intro e; subst e; exact hinf hi)]; exact ht
    · intro _
      exact hoare_of_keeps (keeps_of_frameL (fl_emit _) (CbP fix))
  | error e =>
    simp only
    apply hoare_bind (fun _ s => CbP fix (prL s))
    · apply hoare_modify
      intro s hp
      have hprA : prA s = cA.1 := by have : (prL s).1 = cA.1 := by rw [hp]
                                     exact this
      have hslots : s.slots = cA.1.1 := by have := congrArg (·.1) hprA; exact this
      have htok := tokOk_vacateNew s (vacantEntry bV c.1.1).2 (by rw [hprA]; exact hF1)
      have hlife := life_vacateNew cA (vacantEntry bV c.1.1).2 _ hF1.1 hF2 (fun he t ht => hF4 he t ht) hL0 hF3
      have hpr2 : prL { s with slots := setOcc s.slots (vacantEntry bV c.1.1).2 none } = setSlots cA (setOcc cA.1.1 (vacantEntry bV c.1.1).2 none) := by
        rw [hslots]; exact prL_setSlots s cA _ hp
      refine ⟨⟨htok, ?_, ?_⟩, ?_, ?_⟩
      · rw [hpr2]; exact hL0
      · rw [hpr2]; exact hlife
      · rw [hpr2]; exact hsyncA
      · rw [hpr2]; exact hfixA
    · intro _
      exact hoare_of_keeps (keeps_of_frameL (fl_doInsertTail k src e) (CbP fix))

theorem ki_doInsert_cb (fix : Option (Nat × Tok)) (k : Nat) (keep : Bool) : KeepsI (doInsert k keep) (CbOk fix) := by
  apply ki_of_forall
  intro c hc
  have hE : ∀ s, prL s = c → CbP fix (prL s) := fun s h => by rw [h]; exact hc
  have hemit : ∀ ob, Hoare (fun s => prL s = c) (emit ob) (fun _ s => CbP fix (prL s)) (fun s => CbP fix (prL s)) :=
    fun ob => hoare_conseq (hoare_frameL (fl_emit ob) c) (fun _ h => h) (fun _ s h => hE s h) (fun s h => hE s h)
  rw [doInsert_eq]
  apply hoare_bind (fun _ s => prL s = c)
  · exact hoare_conseq (hoare_frameL (fl_getSrc k) c) (fun _ h => h) (fun _ _ h => h) hE
  intro o
  split
  · exact hemit _
  · rename_i src
    split
    · exact hemit _
    · apply hoare_bind (fun _ s => prL s = c)
      · exact hoare_conseq (hoare_frameL (fl_modSrc k _) c) (fun _ h => h) (fun _ _ h => h) hE
      intro _
      apply hoare_bind (fun a s => prL s = c ∧ a = s) hoare_get
      intro s0
      refine hoare_pre_fact (s0.slots = c.1.1) (fun s h => by rw [h.2]; exact slots_prL s c h.1) (fun hss => ?_)
      rw [hss]
      exact hoare_conseq (hoare_doInsertAt_cb fix k src c hc) (fun _ h => h.1) (fun _ _ h => h) (fun _ h => h)

/-! ### everything user code can do keeps the invariant -/

theorem fl_chanFd (k : Nat) : FrameL (chanFd k) := by unfold chanFd; fl
macro_rules | `(tactic| fl_lemma) => `(tactic| with_reducible exact fl_chanFd _ _)
theorem fl_retPA (r : Loop.Ret) : FrameL (retPA r) := by cases r <;> unfold retPA <;> fl
macro_rules | `(tactic| fl_lemma) => `(tactic| with_reducible exact fl_retPA _ _)
theorem fl_genGate (k j : Nat) (ev : Event) : FrameL (genGate k j ev) := by unfold genGate; fl
macro_rules | `(tactic| fl_lemma) => `(tactic| with_reducible exact fl_genGate _ _ _ _)

abbrev KeepsC (fix : Option (Nat × Tok)) {α} (x : M α) : Prop := KeepsI x (CbOk fix)

syntax "cb_lemma" : tactic
macro_rules | `(tactic| cb_lemma) => `(tactic| fail "no lemma applies")

macro "cb_step" : tactic => `(tactic| first
  | exact ki_of_keeps (keeps_pure _ _)
  | exact ki_of_keeps (keeps_throw _ _)
  | exact ki_of_keeps (keeps_get _)
  | cb_lemma
  | (refine ki_of_keeps (keeps_of_frameL ?_ (CbP _)); intro _; fl_lemma)
  | (refine ki_of_keeps (keeps_modify _ _ ?_); intro s h; exact h)
  | (refine ki_of_keeps (keeps_modify _ _ ?_); intro s h; exact cb_churn _ _ _ h)
  | (refine ki_of_keeps (keeps_modify _ _ ?_); intro s h; exact cb_newFlags _ _ _ _ _ h)
  | (refine ki_of_keeps (keeps_emit _ _ ?_); intro s h; exact h)
  | (apply ki_bind)
  | (apply ki_catchErr)
  | (apply ki_forEachM)
  | (apply ki_ite)
  | (intro _)
  | split)

macro "cb" : tactic => `(tactic| (repeat cb_step))

theorem cb_execCore (fix : Option (Nat × Tok)) (o : COp) : KeepsC fix (execC' o) := by
  cases o
  case insert k => unfold execC'; exact ki_doInsert_cb fix k false
  case insertd k => unfold execC'; exact ki_doInsert_cb fix k true
  case remove k => unfold execC'; exact ki_doRemove_cb fix _ k
  case enable k => unfold execC'; exact ki_enable_cb fix _ k
  case update k => unfold execC'; exact ki_update_cb fix _ k
  case disable k => unfold execC'; exact ki_disable_cb fix _ k
  all_goals (unfold execC'; cb)
macro_rules | `(tactic| cb_lemma) => `(tactic| with_reducible exact cb_execCore _ _)

theorem cb_execC (fix : Option (Nat × Tok)) (o : COp) : KeepsC fix (execC o) := by unfold execC; cb
macro_rules | `(tactic| cb_lemma) => `(tactic| with_reducible exact cb_execC _ _)

theorem cb_runCb (fix : Option (Nat × Tok)) (k : Nat) (p : Payload) : KeepsC fix (runCb k p) := by unfold runCb; cb
macro_rules | `(tactic| cb_lemma) => `(tactic| with_reducible exact cb_runCb _ _ _)
theorem cb_retPA (fix : Option (Nat × Tok)) (r : Loop.Ret) : KeepsC fix (retPA r) := by cases r <;> unfold retPA <;> cb
macro_rules | `(tactic| cb_lemma) => `(tactic| with_reducible exact cb_retPA _ _)
theorem cb_genGate (fix : Option (Nat × Tok)) (k j : Nat) (ev : Event) : KeepsC fix (genGate k j ev) := by unfold genGate; cb
macro_rules | `(tactic| cb_lemma) => `(tactic| with_reducible exact cb_genGate _ _ _ _)

theorem cb_pingPE (fix : Option (Nat × Tok)) {α} (k : Nat) (ev : Event) (body : M α) (hb : KeepsC fix body) : KeepsC fix (pingPE k ev body) := by
  unfold pingPE; repeat (first | exact hb | cb_step)

theorem cb_chanDrain (fix : Option (Nat × Tok)) (k n : Nat) : KeepsC fix (chanDrain k n) := by
  induction n with
  | zero => unfold chanDrain; cb
  | succ n ih => unfold chanDrain; repeat (first | exact ih | cb_step)
macro_rules | `(tactic| cb_lemma) => `(tactic| with_reducible exact cb_chanDrain _ _ _)

theorem cb_customPE (fix : Option (Nat × Tok)) (k : Nat) (ev : Event) (n j : Nat) (acc : PA) : KeepsC fix (customPE k ev n j acc) := by
  induction n generalizing j acc with
  | zero => unfold customPE; cb
  | succ n ih => unfold customPE; repeat (first | exact ih _ _ | cb_step)
macro_rules | `(tactic| cb_lemma) => `(tactic| with_reducible exact cb_customPE _ _ _ _ _ _)


theorem cb_processEventsInner (fix : Option (Nat × Tok)) (k : Nat) (ev : Event) : KeepsC fix (processEventsInner k ev) := by
  unfold processEventsInner
  repeat (first
    | (apply cb_pingPE; first | exact cb_runCb _ _ _ | exact cb_chanDrain _ _ _)
    | cb_step)

/-! ### one event -/

/-- the invariant while the loop holds dispatcher `k0` for an event under token `reg`, outside the callback itself -/
def EvP (k0 : Nat) (reg : Tok) (c : LP) : Prop :=
  LifeP c ∧ c.2.2.2.2 = some k0 ∧ c.2.2.2.1 = none ∧ reg.sub = 0 ∧ (c.1.2.2 = true ∨ alookup c.1.2.1 k0 = some reg)

def setRn (c : LP) (r : Option Nat) : LP := (c.1, (c.2.1, c.2.2.1, r, c.2.2.2.2))
def setInf (c : LP) (i : Option Nat) : LP := (c.1, (c.2.1, c.2.2.1, c.2.2.2.1, i))

theorem lifeP_setRn (c : LP) (r : Option Nat) (h : LifeP c) : LifeP (setRn c r) := h

/-- the loop takes hold of the dispatcher its event resolves to: every lifecycle token was good and stays so -/
theorem evP_enter (c : LP) (reg : Tok) (sl : Slot) (k0 : Nat) (h : CbP none c) (h0 : reg.sub = 0)
    (hg : Slots.get c.1.1 reg = some sl) (ho : sl.occ = some k0) : EvP k0 reg (setInf c (some k0)) := by
  obtain ⟨hl, hsync, hfix⟩ := h
  have hinf : c.2.2.2.2 = none := hfix
  refine ⟨⟨hl.1, hl.2.1, ?_⟩, rfl, ?_, h0, ?_⟩
  · cases hl.2.2 with
    | inl he => exact Or.inl he
    | inr hg' =>
      refine Or.inr (fun t ht => ?_)
      rcases hg' t ht with hgd | ⟨k, hi, _, _⟩
      · exact Or.inl hgd
      · rw [hinf] at hi; cases hi
  · show c.2.2.2.1 = none; rw [← hsync]; exact hinf
  · cases he : c.1.2.2 with
    | true => exact Or.inl he
    | false => exact Or.inr (tokens_of_occupant c reg sl k0 hl.1 he hg ho h0)

/-- adding the in-flight token (a `Reregister` post action; the slot may be gone already) -/
theorem evP_add (c : LP) (k0 : Nat) (reg : Tok) (h : EvP k0 reg c) : EvP k0 reg (addL c k0 reg) := by
  obtain ⟨hl, hi, hr, h0, ht⟩ := h
  refine ⟨?_, by unfold addL; exact hi, by unfold addL; exact hr, h0, by unfold addL; exact ht⟩
  cases ht with
  | inr htok => exact lifeP_add_exempt c k0 reg hl h0 hi htok
  | inl he =>
    obtain ⟨h1, h2, _⟩ := hl
    unfold addL
    cases hf : flagOf c.2.2.1 k0 with
    | false =>
      simp only [Bool.false_eq_true, if_false]
      exact ⟨h1, h2, Or.inl he⟩
    | true =>
      simp only [if_true]
      refine ⟨h1, ?_, Or.inl he⟩
      intro x hx
      rcases (Verif.Inv.Kernel.lifeRegister_mem _ _ _).mp hx with hx | hx
      · exact h2 x hx
      · subst hx; exact h0

theorem evP_del (c : LP) (k0 : Nat) (reg : Tok) (h : EvP k0 reg c) : EvP k0 reg (delL c k0 reg) := by
  obtain ⟨hl, hi, hr, h0, ht⟩ := h
  exact ⟨lifeP_del c k0 reg hl, by unfold delL; exact hi, by unfold delL; exact hr, h0, by unfold delL; exact ht⟩

/-- a `Remove` post action: the slot of the in-flight token is vacated; its lifecycle token (if any) is exempt -/
theorem evP_vacate (c : LP) (k0 : Nat) (reg : Tok) (sl : Slot) (h : EvP k0 reg c) (hg : Slots.get c.1.1 reg = some sl) :
    EvP k0 reg (setSlots c (setOcc c.1.1 reg.id none)) := by
  obtain ⟨hl, hi, hr, h0, ht⟩ := h
  obtain ⟨hb1, hb2, hb3⟩ := lifeP_vacate_but c reg sl hl hg h0
  refine ⟨⟨hb1, hb2, ?_⟩, hi, hr, h0, ht⟩
  cases hesc : c.1.2.2 with
  | true => exact Or.inl hesc
  | false =>
    have hx := hb3.resolve_left (by simp [hesc])
    have htok := ht.resolve_left (by simp [hesc])
    refine Or.inr (fun t htm => ?_)
    rcases hx t htm with e | hgd | hex
    · subst e
      -- the token itself: it is the user's token of the dispatcher in flight, which has lifecycle hooks since the
      -- token is in the set
      refine Or.inr ⟨k0, hi, htok, ?_⟩
      rcases lifeP_strong c hl hesc t htm with ⟨k', hk', hf⟩ | ⟨k1, hi1, _, hf1⟩
      · obtain ⟨_, _, r⟩ := hl.1
        have hs := r.resolve_left (by simp [hesc])
        have := hs.1 k0 t k' htok hk'
        subst this; exact hf
      · rw [hi] at hi1; injection hi1 with e; subst e; exact hf1
    · exact Or.inl hgd
    · exact Or.inr hex

/-- the end of the event: the loop lets go of the dispatcher.  If the in-flight token no longer resolves its lifecycle
    entry has been taken out; if it still resolves it resolves to the dispatcher itself -/
theorem evP_leave (c : LP) (k0 : Nat) (reg : Tok) (h : EvP k0 reg c)
    (hgone : c.1.2.2 = false → reg ∈ c.2.1 → ∃ d, disp c.1.1 reg = some d) : CbP none (setInf c none) := by
  obtain ⟨hl, hi, hr, h0, ht⟩ := h
  refine ⟨⟨hl.1, hl.2.1, ?_⟩, by show none = c.2.2.2.1; exact hr.symm, rfl⟩
  cases hesc : c.1.2.2 with
  | true => exact Or.inl hesc
  | false =>
    have htok := ht.resolve_left (by simp [hesc])
    refine Or.inr (fun t htm => ?_)
    rcases lifeP_strong c hl hesc t htm with hgd | ⟨k1, hi1, htok1, hf1⟩
    · exact Or.inl hgd
    · rw [hi] at hi1; injection hi1 with e; subst e
      rw [htok] at htok1; injection htok1 with e; subst e
      obtain ⟨d, hd⟩ := hgone hesc htm
      obtain ⟨_, _, r⟩ := hl.1
      have hs := r.resolve_left (by simp [hesc])
      have := hs.1 k0 reg d htok hd
      subst this
      exact Or.inl ⟨d, hd, hf1⟩

theorem hoare_poApply (k0 : Nat) (reg : Tok) (r : Except Err PA) (p : PA) (c : LP) (hc : EvP k0 reg c) :
    Hoare (fun s => prL s = c) (poApply k0 reg r p) (fun _ s => EvP k0 reg (prL s)) (fun s => EvP k0 reg (prL s)) := by
  have hE : ∀ s, prL s = c → EvP k0 reg (prL s) := fun s h => by rw [h]; exact hc
  have hrn : c.2.2.2.1 ≠ some k0 := by rw [hc.2.2.1]; simp
  have hfs : forgetSub reg = reg := by
    have h0 := hc.2.2.2.1
    cases hst : reg with
    | mk a b c0 => rw [hst] at h0; simp only at h0; simp [forgetSub, h0]
  unfold poApply
  split
  · exact hoare_throwErr _ hE
  · dsimp only
    split
    · -- Reregister
      apply hoare_bind (fun _ s => EvP k0 reg (prL s))
      · refine hoare_conseq (hoare_dReregister k0 reg c) (fun _ h => h) (fun b s h => ?_) hE
        rcases h with ⟨_, h, hr⟩ | ⟨_, h, _⟩
        · exact absurd hr hrn
        · rw [h, hfs]; exact evP_add c k0 reg hc
      · intro _; exact hoare_pure _ (fun _ h => h)
    · -- Disable
      apply hoare_bind (fun _ s => EvP k0 reg (prL s))
      · refine hoare_conseq (hoare_dUnregister k0 reg c) (fun _ h => h) (fun b s h => ?_)
          (fun s h => by rw [h.1]; exact evP_del c k0 reg hc)
        rcases h with ⟨_, h, hr⟩ | ⟨_, h, _⟩
        · exact absurd hr hrn
        · rw [h]; exact evP_del c k0 reg hc
      · intro _; exact hoare_pure _ (fun _ h => h)
    · -- Remove
      apply hoare_bind (fun a s => prL s = c ∧ a = s) hoare_get
      intro s0
      refine hoare_pre_fact (s0.slots = c.1.1) (fun s h => by rw [h.2]; exact slots_prL s c h.1) (fun hss => ?_)
      rw [hss]
      split
      · rename_i hsome
        obtain ⟨sl, hsl⟩ := Option.isSome_iff_exists.mp hsome
        apply hoare_modify
        intro s ⟨h, _⟩
        rw [slots_prL s c h, prL_setSlots s c _ h]
        exact evP_vacate c k0 reg sl hc hsl
      · exact hoare_pure _ (fun s h => hE s h.1)
    · exact hoare_pure _ hE

theorem hoare_of_forall {α} {x : M α} {R : LP → Prop} {Q : α → St → Prop} {E : St → Prop}
    (h : ∀ c, R c → Hoare (fun s => prL s = c) x Q E) : Hoare (fun s => R (prL s)) x Q E :=
  fun s hs => h (prL s) hs s rfl

/-- the in-flight token is not in the set or still resolves -/
def GoneOk (reg : Tok) (c : LP) : Prop := c.1.2.2 = false → reg ∈ c.2.1 → ∃ d, disp c.1.1 reg = some d

theorem goneOk_del (c : LP) (k0 : Nat) (reg : Tok) (h : EvP k0 reg c) (hgone : disp c.1.1 reg = none) :
    GoneOk reg (delL c k0 reg) := by
  intro hesc hmem
  exfalso
  have hesc' : c.1.2.2 = false := by unfold delL at hesc; exact hesc
  unfold delL at hmem
  cases hf : flagOf c.2.2.1 k0 with
  | true =>
    rw [hf] at hmem
    simp only [if_true] at hmem
    exact ((Verif.Inv.Kernel.lifeUnregister_mem _ _ _).mp hmem).2 rfl
  | false =>
    rw [hf] at hmem
    simp only [Bool.false_eq_true, if_false] at hmem
    rcases lifeP_strong c h.1 hesc' reg hmem with ⟨d, hd, _⟩ | ⟨k1, hi1, _, hf1⟩
    · rw [hgone] at hd; cases hd
    · rw [h.2.1] at hi1; injection hi1 with e; subst e; rw [hf] at hf1; cases hf1

theorem prL_setInf (s : St) (c : LP) (i : Option Nat) (h : prL s = c) : prL { s with inflight := i } = setInf c i := by
  subst h; rfl

theorem hoare_poTail_life (k0 : Nat) (reg : Tok) (r : Except Err PA) :
    Hoare (fun s => EvP k0 reg (prL s)) (poTail k0 reg r) (fun _ s => CbP none (prL s)) (fun s => CbP none (prL s)) := by
  unfold poTail
  apply hoare_bind (fun a s => EvP k0 reg (prL s) ∧ a = s)
  · exact hoare_conseq hoare_get (fun _ h => h) (fun _ _ h => h) (fun _ h => h)
  intro s0
  dsimp only
  apply hoare_bind (fun _ s => EvP k0 reg (prL s))
  · apply hoare_modify; intro s h; exact h.1
  intro _
  apply hoare_bind (fun _ s => EvP k0 reg (prL s))
  · refine hoare_conseq (hoare_catchErr (E' := fun s => CbP none (prL s))
        (hoare_of_forall (fun c hc => hoare_poApply k0 reg r s0.pending c hc)))
      (fun _ h => h) (fun a _ h => by cases a <;> exact h) (fun _ h => h)
  intro outcome
  apply hoare_of_forall
  intro c hc
  apply hoare_bind (fun a s => prL s = c ∧ a = s) hoare_get
  intro s1
  refine hoare_pre_fact (s1.slots = c.1.1) (fun s h => by rw [h.2]; exact slots_prL s c h.1) (fun hss => ?_)
  rw [hss]
  -- the end: let go of the dispatcher, drop it if nobody holds it
  have hend : ∀ c', EvP k0 reg c' → GoneOk reg c' →
      Hoare (fun s => prL s = c')
        (do modify fun s => { s with inflight := none }
            maybeDrop k0
            match outcome with
            | .ok _ => pure none
            | .error e => pure (some e) : M (Option Err))
        (fun _ s => CbP none (prL s)) (fun s => CbP none (prL s)) := by
    intro c' hc' hg'
    apply hoare_bind (fun _ s => CbP none (prL s))
    · apply hoare_modify
      intro s h
      rw [prL_setInf s c' none h]
      exact evP_leave c' k0 reg hc' hg'
    intro _
    apply hoare_bind (fun _ s => CbP none (prL s)) (hoare_of_keeps (keeps_of_frameL (fl_maybeDrop k0) (CbP none)))
    intro _
    split <;> exact hoare_pure _ (fun _ h => h)
  have hrn : c.2.2.2.1 ≠ some k0 := by rw [hc.2.2.1]; simp
  have hgoneBranch : disp c.1.1 reg = none →
      Hoare (fun s => prL s = c ∧ s1 = s)
        (do let _ ← catchErr (dUnregister k0 reg)
            modify fun s => { s with inflight := none }
            maybeDrop k0
            match outcome with
            | .ok _ => pure none
            | .error e => pure (some e) : M (Option Err))
        (fun _ s => CbP none (prL s)) (fun s => CbP none (prL s)) := by
    intro hdn
    apply hoare_bind (fun _ s => prL s = delL c k0 reg)
    · refine hoare_conseq (hoare_catchErr (E' := fun s => CbP none (prL s)) (hoare_dUnregister k0 reg c))
        (fun _ h => h.1) (fun a s h => ?_) (fun _ h => h)
      cases a with
      | ok b =>
        rcases h with ⟨_, _, hr⟩ | ⟨_, h, _⟩
        · exact absurd hr hrn
        · exact h
      | error e => exact h.1
    intro _
    exact hend (delL c k0 reg) (evP_del c k0 reg hc) (goneOk_del c k0 reg hc hdn)
  cases hg : Slots.get c.1.1 reg with
  | none =>
    simp only [if_true]
    exact hgoneBranch (by unfold disp; rw [hg]; rfl)
  | some sl =>
    simp only
    by_cases hiso : sl.occ.isNone = true
    · rw [if_pos hiso]
      have ho : sl.occ = none := by cases h : sl.occ with | none => rfl | some d => rw [h] at hiso; simp at hiso
      exact hgoneBranch (by unfold disp; rw [hg]; exact ho)
    · rw [if_neg hiso]
      have : ∃ d, sl.occ = some d := by
        cases h : sl.occ with
        | none => rw [h] at hiso; simp at hiso
        | some d => exact ⟨d, rfl⟩
      obtain ⟨d, ho⟩ := this
      exact hoare_conseq (hend c hc (fun _ _ => ⟨d, disp_of_get _ _ _ _ hg ho⟩)) (fun _ h => h.1) (fun _ _ h => h) (fun _ h => h)


theorem prL_setRn (s : St) (c : LP) (r : Option Nat) (l : List Obs) (h : prL s = c) :
    prL { s with running := r, log := l } = setRn c r := by subst h; rfl

/-- `process_events` of the dispatcher in flight: the callback runs under `CbOk`, the borrow is given back -/
theorem ki_processEvents_ev (k0 : Nat) (reg : Tok) (ev : Event) :
    KeepsI (processEvents k0 ev) (fun s => EvP k0 reg (prL s)) := by
  constructor
  intro s hs
  obtain ⟨hl, hi, hr, h0, ht⟩ := hs
  have hs1 : CbOk (some (k0, reg)) { s with running := some k0, log := s.log ++ [.pe k0] } := by
    show CbP (some (k0, reg)) (prL { s with running := some k0, log := s.log ++ [.pe k0] })
    rw [prL_setRn s (prL s) (some k0) _ rfl]
    exact ⟨lifeP_setRn _ _ hl, hi, hi, ht⟩
  have hin := (cb_processEventsInner (some (k0, reg)) k0 ev).h _ hs1
  have hback : ∀ (s' : St) (l : List Obs), CbOk (some (k0, reg)) s' → EvP k0 reg (prL { s' with running := none, log := l }) := by
    intro s' l h'
    rw [prL_setRn s' (prL s') none l rfl]
    obtain ⟨hl', _, hi', ht'⟩ := h'
    exact ⟨lifeP_setRn _ _ hl', hi', rfl, h0, ht'⟩
  simp only [processEvents, bind, EStateM.bind, modify, modifyGet, MonadStateOf.modifyGet, EStateM.modifyGet, emit,
    tryCatch, tryCatchThe, MonadExceptOf.tryCatch, EStateM.tryCatch, pure, EStateM.pure]
  cases h : processEventsInner k0 ev { s with running := some k0, log := s.log ++ [.pe k0] } with
  | ok a s' =>
    rw [h] at hin
    simp only [EStateM.bind, EStateM.modifyGet, EStateM.pure]
    exact hback s' _ hin
  | error e s' =>
    rw [h] at hin
    cases e with
    | err e =>
      simp only [EStateM.bind, EStateM.modifyGet, throw, throwThe, MonadExceptOf.throw, EStateM.throw,
        EStateM.Backtrackable.restore, EStateM.dummyRestore]
      exact hback s' _ hin
    | panic p =>
      simp [EStateM.bind, EStateM.modifyGet, throw, throwThe, MonadExceptOf.throw, EStateM.throw,
        EStateM.Backtrackable.restore, EStateM.dummyRestore]

theorem forgetSub_sub (t : Tok) : (forgetSub t).sub = 0 := rfl

/-- **one iteration of `dispatch_events`**: from the invariant to the invariant, whatever the callback did -/
theorem cb_processOne (ev : Event) : KeepsC none (processOne ev) := by
  apply ki_of_forall
  intro c hc
  rw [processOne_eq]
  apply hoare_bind (fun a s => prL s = c ∧ a = s) hoare_get
  intro s0
  refine hoare_pre_fact (slotDisp s0 (forgetSub ev.key) = disp c.1.1 (forgetSub ev.key))
    (fun s h => by rw [h.2]; exact slotDisp_prL s c _ h.1) (fun hsd => ?_)
  split
  · exact hoare_pure _ (fun s h => by rw [h.1]; exact hc)
  · rename_i k0 hk0
    have hd : disp c.1.1 (forgetSub ev.key) = some k0 := by rw [← hsd]; exact hk0
    obtain ⟨sl, hsl⟩ := get_isSome_of_disp _ _ _ hd
    have ho : sl.occ = some k0 := by unfold disp at hd; rw [hsl] at hd; exact hd
    apply hoare_bind (fun _ s => EvP k0 (forgetSub ev.key) (prL s))
    · apply hoare_modify
      intro s h
      rw [prL_setInf s c (some k0) h.1]
      exact evP_enter c (forgetSub ev.key) sl k0 hc (forgetSub_sub _) hsl ho
    intro _
    apply hoare_bind (fun _ s => EvP k0 (forgetSub ev.key) (prL s))
    · exact hoare_conseq (hoare_catchErr (E' := fun s => CbP none (prL s)) (ki_processEvents_ev k0 (forgetSub ev.key) ev).h)
        (fun _ h => h) (fun a _ h => by cases a <;> exact h) (fun _ h => h)
    intro r
    exact hoare_poTail_life k0 (forgetSub ev.key) r
macro_rules | `(tactic| cb_lemma) => `(tactic| with_reducible exact cb_processOne _)

theorem cb_batchLoop (l : List Event) (first : Option Err) : KeepsC none (batchLoop l first) := by
  induction l generalizing first with
  | nil => unfold batchLoop; cb
  | cons ev rest ih => unfold batchLoop; repeat (first | exact ih _ | cb_step)
macro_rules | `(tactic| cb_lemma) => `(tactic| with_reducible exact cb_batchLoop _ _)

theorem fl_beforeSleep (tok : Tok) : FrameL (beforeSleep tok) := by unfold beforeSleep; fl
macro_rules | `(tactic| fl_lemma) => `(tactic| with_reducible exact fl_beforeSleep _ _)
theorem fl_beforeHandle (evs : List Event) (tok : Tok) : FrameL (beforeHandle evs tok) := by unfold beforeHandle; fl
macro_rules | `(tactic| fl_lemma) => `(tactic| with_reducible exact fl_beforeHandle _ _ _)

theorem cb_dispatchEvents : KeepsC none dispatchEvents := by
  unfold dispatchEvents; repeat (first | cb_step | dsimp only)
theorem cb_runIdle (p : Nat × Nat) : KeepsC none (runIdle p) := by unfold runIdle; cb
macro_rules | `(tactic| cb_lemma) => `(tactic| with_reducible exact cb_runIdle _)
theorem cb_dispatchIdles : KeepsC none dispatchIdles := by unfold dispatchIdles; cb
theorem cb_dispatch : KeepsC none dispatch := by
  unfold dispatch
  repeat (first | exact cb_dispatchEvents | exact cb_dispatchIdles | cb_step)
theorem fl_snapshot : FrameL snapshot := by unfold snapshot; fl
theorem cb_execTop (o : Op) : KeepsC none (execTop o) := by
  cases o <;> unfold execTop <;>
    repeat (first | exact cb_dispatch | exact ki_of_keeps (keeps_of_frameL fl_snapshot (CbP none)) | cb_step)

theorem cb_step_ok (s : St) (o : Op) (h : CbOk none s ∨ s.aborted = true) : CbOk none (step s o) ∨ (step s o).aborted = true := by
  unfold step
  by_cases ha : s.aborted = true
  · rw [if_pos ha]; exact Or.inr ha
  · rw [if_neg ha]
    have hs : CbOk none s := by cases h with | inl h => exact h | inr h => exact absurd h ha
    have := (cb_execTop o).h s hs
    cases hx : execTop o s with
    | ok a s' => rw [hx] at this; exact Or.inl this
    | error e s' =>
      rw [hx] at this
      cases e with
      | err e => exact Or.inl this
      | panic p => exact Or.inr rfl

theorem run_cbOk (ops : List Op) : CbOk none (run ops) ∨ (run ops).aborted = true := by
  unfold run
  have : ∀ (l : List Op) (s : St), (CbOk none s ∨ s.aborted = true) → (CbOk none (l.foldl step s) ∨ (l.foldl step s).aborted = true) := by
    intro l
    induction l with
    | nil => intro s h; exact h
    | cons o l ih => intro s h; exact ih _ (cb_step_ok s o h)
  refine this ops {} (Or.inl ⟨⟨⟨wfs_nil, by intro p hp; simp [prL, prA] at hp, Or.inr ⟨?_, ?_, ?_⟩⟩, ?_, ?_⟩, rfl, rfl⟩)
  · intro k tok d hk; simp [prL, prA, alookup] at hk
  · intro i j a b d ha; simp [prL, prA] at ha
  · intro i sl d ha; simp [prL, prA] at ha
  · intro t ht; simp [prL] at ht
  · exact Or.inr (fun t ht => by simp [prL] at ht)

/-! ### what it means for the loop -/

/-- **After every history** (not aborted by a panic; no generation wrapped, no object inserted twice): every token in the
    additional-lifecycle set resolves to an occupied slot, and the source sitting there has lifecycle hooks. -/
theorem lifecycle_tokens_resolve (ops : List Op) (hab : (run ops).aborted = false)
    (hna : (run ops).aliased = false) (hnd : (run ops).dupInsert = false) :
    ∀ t ∈ (run ops).life, ∃ k, slotDisp (run ops) t = some k ∧ lifeFlag (run ops) k = true := by
  obtain ⟨hl, _, hfix⟩ := (run_cbOk ops).resolve_right (by simp [hab])
  have hesc : (prL (run ops)).1.2.2 = false := by simp [prL, prA, hna, hnd]
  have hinf : (run ops).inflight = none := hfix
  intro t ht
  rcases lifeP_strong _ hl hesc t ht with ⟨k, hk, hf⟩ | ⟨k0, hi, _, _⟩
  · exact ⟨k, hk, hf⟩
  · have : (run ops).inflight = some k0 := hi
    rw [hinf] at this; cases this

/-- the panic the loop reserves for a lifecycle token without a source -/
def isUnreachable {α} : EStateM.Result Exc St α → Prop
  | .error (.panic .unreachable) _ => True
  | _ => False

theorem beforeSleep_fine (s : St) (tok : Tok) (k : Nat) (h : slotDisp s tok = some k) : ¬ isUnreachable (beforeSleep tok s) := by
  unfold beforeSleep
  simp only [bind, EStateM.bind, MonadState.get, getThe, MonadStateOf.get, EStateM.get, h]
  cases alookup s.srcs k with
  | none => simp [isUnreachable, pure, EStateM.pure]
  | some src =>
    simp only
    cases src.plan.bs <;>
      simp [isUnreachable, emit, modify, modifyGet, MonadStateOf.modifyGet, EStateM.modifyGet, bind, EStateM.bind,
        throwErr, throw, throwThe, MonadExceptOf.throw, EStateM.throw]

theorem beforeHandle_fine (s : St) (evs : List Event) (tok : Tok) (k : Nat) (h : slotDisp s tok = some k) :
    ¬ isUnreachable (beforeHandle evs tok s) := by
  unfold beforeHandle
  simp [bind, EStateM.bind, MonadState.get, getThe, MonadStateOf.get, EStateM.get, h, isUnreachable, emit, modify,
    modifyGet, MonadStateOf.modifyGet, EStateM.modifyGet]

/-- the walk over the lifecycle set at the head of `dispatch_events` (`before_sleep`), and the one after the poll
    (`before_handle_events`), started where every listed token resolves, never reach `unreachable!()` -/
theorem hook_walk_fine (f : Tok → M Unit) (hf : ∀ tok, FrameL (f tok))
    (hfine : ∀ s tok k, slotDisp s tok = some k → ¬ isUnreachable (f tok s))
    (l : List Tok) (s : St) (h : ∀ t ∈ l, ∃ k, slotDisp s t = some k) : ¬ isUnreachable (forEachM l f s) := by
  induction l generalizing s with
  | nil => simp [forEachM, isUnreachable, pure, EStateM.pure]
  | cons t ts ih =>
    unfold forEachM
    simp only [bind, EStateM.bind]
    obtain ⟨k, hk⟩ := h t (List.mem_cons_self)
    have h1 := hfine s t k hk
    cases hx : f t s with
    | ok a s' =>
      simp only
      apply ih
      intro u hu
      obtain ⟨ku, hku⟩ := h u (List.mem_cons_of_mem _ hu)
      have hfr : prL s' = prL s := by
        have := (hf t (prL s)).h s rfl
        simp only [after, hx] at this
        exact this
      refine ⟨ku, ?_⟩
      rw [slotDisp_prL s' (prL s') u rfl, hfr, ← slotDisp_prL s (prL s) u rfl]; exact hku
    | error e s' =>
      rw [hx] at h1
      cases e with
      | err e => simp [isUnreachable]
      | panic p => cases p <;> simp_all [isUnreachable]

/-- **No later dispatch panics on a stale lifecycle entry**: after every history (as above) the `before_sleep` walk
    that opens the next dispatch does not hit `unreachable!()` … -/
theorem next_before_sleep_walk_fine (ops : List Op) (hab : (run ops).aborted = false)
    (hna : (run ops).aliased = false) (hnd : (run ops).dupInsert = false) :
    ¬ isUnreachable (forEachM (run ops).life beforeSleep (run ops)) := by
  apply hook_walk_fine beforeSleep fl_beforeSleep beforeSleep_fine
  intro t ht
  obtain ⟨k, hk, _⟩ := lifecycle_tokens_resolve ops hab hna hnd t ht
  exact ⟨k, hk⟩

/-- … and neither does the `before_handle_events` walk, on whatever events the poll returned -/
theorem next_before_handle_walk_fine (ops : List Op) (evs : List Event) (hab : (run ops).aborted = false)
    (hna : (run ops).aliased = false) (hnd : (run ops).dupInsert = false) :
    ¬ isUnreachable (forEachM (run ops).life (beforeHandle evs) (run ops)) := by
  apply hook_walk_fine (beforeHandle evs) (fl_beforeHandle evs) (fun s tok k h => beforeHandle_fine s evs tok k h)
  intro t ht
  obtain ⟨k, hk, _⟩ := lifecycle_tokens_resolve ops hab hna hnd t ht
  exact ⟨k, hk⟩

end Verif.Inv.LifeInv
