/-
C02, over the whole model: the kernel's ready list never forgets a registration that is ready.  After every history, every
entry of the poller table that is level-triggered or one-shot (armed) and whose fd is ready for one of the interests it
was registered with is queued — so the next `epoll_wait` reports it (`epWait_reports`).  Edge-triggered entries are
outside the statement by design: they are queued when the readiness *arrives* (`Props/C02: write_queues`), once.
-/
import Verif.Inv.GhostFree
import Verif.Inv.Kernel

namespace Verif.Inv.ReadyQ
open Verif.Loop Verif.Inv Verif.Kernel Verif.Slots Verif.Wheel Verif.Token Verif.Inv.TokInv Verif.Inv.OwnInv Verif.Inv.GhostFree

/-- ready for an interest it holds -/
def rdy (k : Kernel) (e : EpEntry) : Bool := (readyNow k e).1 || (readyNow k e).2

theorem rdy_eq (k : Kernel) (e : EpEntry) : rdy k e = ((e.r && decide (counter k e.fd > 0)) || e.w) := rfl

/-- one entry per fd, and every ready entry that is not edge-triggered is on the ready list -/
def KQ (k : Kernel) : Prop :=
  (k.ep.map (·.fd)).Nodup ∧ ∀ e ∈ k.ep, e.mode ≠ .edge → rdy k e = true → e.fd ∈ k.rdl

/-! ### lists -/

theorem find_of_mem (l : List EpEntry) (e : EpEntry) (h : e ∈ l) (nd : (l.map (·.fd)).Nodup) :
    l.find? (·.fd == e.fd) = some e := by
  induction l with
  | nil => cases h
  | cons x xs ih =>
    simp only [List.map_cons, List.nodup_cons] at nd
    by_cases hx : x = e
    · subst hx; simp [List.find?_cons]
    · have he : e ∈ xs := by
        cases h with
        | head => exact absurd rfl hx
        | tail _ h => exact h
      have hne : (x.fd == e.fd) = false := by
        cases hb : x.fd == e.fd with
        | false => rfl
        | true =>
          have : x.fd = e.fd := by simpa using hb
          exact absurd (List.mem_map.mpr ⟨e, he, this.symm⟩) nd.1
      rw [List.find?_cons, hne]
      exact ih he nd.2

theorem entry_of_mem (k : Kernel) (e : EpEntry) (h : e ∈ k.ep) (nd : (k.ep.map (·.fd)).Nodup) : entry? k e.fd = some e :=
  find_of_mem k.ep e h nd

theorem mem_of_entry (k : Kernel) (fd : Nat) (e : EpEntry) (h : entry? k fd = some e) : e ∈ k.ep ∧ e.fd = fd := by
  unfold entry? at h
  exact ⟨List.mem_of_find?_eq_some h, by simpa using List.find?_some h⟩

theorem find_filter_ne (l : List (Nat × Nat)) (fd fd' : Nat) (h : fd' ≠ fd) :
    (l.filter (·.1 != fd)).find? (·.1 == fd') = l.find? (·.1 == fd') := by
  induction l with
  | nil => rfl
  | cons x xs ih =>
    by_cases hx : x.1 = fd
    · have h1 : (x.1 != fd) = false := by simp [hx]
      have h2 : (x.1 == fd') = false := by simp [hx]; exact fun e => h e.symm
      rw [List.filter_cons, h1, List.find?_cons, h2]
      exact ih
    · have h1 : (x.1 != fd) = true := by simp [hx]
      rw [List.filter_cons, h1]
      simp only [if_true, List.find?_cons]
      cases x.1 == fd' <;> simp [ih]

theorem counter_setCounter_other (k : Kernel) (fd c fd' : Nat) (h : fd' ≠ fd) : counter (setCounter k fd c) fd' = counter k fd' := by
  unfold counter setCounter
  have h2 : ((fd, c).1 == fd') = false := by simp; exact fun e => h e.symm
  simp only [List.find?_cons, h2]
  rw [find_filter_ne _ _ _ h]

theorem counter_setCounter_self (k : Kernel) (fd c : Nat) : counter (setCounter k fd c) fd = c := by
  unfold counter setCounter
  simp [List.find?_cons]

/-! ### readiness under the kernel's steps -/

theorem rdy_congr (k k' : Kernel) (e : EpEntry) (h : counter k' e.fd = counter k e.fd) : rdy k' e = rdy k e := by
  rw [rdy_eq, rdy_eq, h]

theorem rdy_setCounter_other (k : Kernel) (fd c : Nat) (e : EpEntry) (h : e.fd ≠ fd) : rdy (setCounter k fd c) e = rdy k e :=
  rdy_congr _ _ _ (counter_setCounter_other k fd c e.fd h)

theorem enqueue_mem (k : Kernel) (fd x : Nat) : x ∈ (enqueue k fd).rdl ↔ x ∈ k.rdl ∨ x = fd := by
  unfold enqueue
  split
  · rename_i h
    have : fd ∈ k.rdl := by simpa using h
    constructor
    · exact Or.inl
    · intro h'; cases h' with
      | inl h' => exact h'
      | inr h' => subst h'; exact this
  · simp

theorem enqueue_counter (k : Kernel) (fd x : Nat) : counter (enqueue k fd) x = counter k x := by
  unfold enqueue; split <;> rfl

theorem rdy_enqueue (k : Kernel) (fd : Nat) (e : EpEntry) : rdy (enqueue k fd) e = rdy k e :=
  rdy_congr _ _ _ (enqueue_counter k fd e.fd)

theorem kq_enqueue (k : Kernel) (fd : Nat) (h : KQ k) : KQ (enqueue k fd) := by
  refine ⟨by rw [enqueue_ep]; exact h.1, ?_⟩
  intro e he hm hr
  rw [enqueue_ep] at he
  rw [rdy_enqueue] at hr
  exact (enqueue_mem k fd e.fd).mpr (Or.inl (h.2 e he hm hr))

/-- queueing `fd` discharges the obligation for the entry of `fd` -/
theorem kq_enqueue_for (k : Kernel) (fd : Nat) (nd : (k.ep.map (·.fd)).Nodup)
    (h : ∀ e ∈ k.ep, e.fd ≠ fd → e.mode ≠ .edge → rdy k e = true → e.fd ∈ k.rdl) : KQ (enqueue k fd) := by
  refine ⟨by rw [enqueue_ep]; exact nd, ?_⟩
  intro e he hm hr
  rw [enqueue_ep] at he
  rw [rdy_enqueue] at hr
  by_cases hf : e.fd = fd
  · exact (enqueue_mem k fd e.fd).mpr (Or.inr hf)
  · exact (enqueue_mem k fd e.fd).mpr (Or.inl (h e he hf hm hr))

/-- a counter set to zero makes nothing ready -/
theorem kq_setCounter_zero (k : Kernel) (fd : Nat) (h : KQ k) : KQ (setCounter k fd 0) := by
  refine ⟨h.1, ?_⟩
  intro e he hm hr
  have he' : e ∈ k.ep := he
  apply h.2 e he' hm
  by_cases hf : e.fd = fd
  · rw [rdy_eq] at hr ⊢
    rw [hf, counter_setCounter_self] at hr
    simp at hr
    simp [hr]
  · rw [rdy_setCounter_other k fd 0 e hf] at hr; exact hr

theorem kq_foldl_setCounter (l : List Nat) (f : Nat → Nat) (k : Kernel) (h : KQ k) :
    KQ (l.foldl (fun kk j => setCounter kk (f j) 0) k) := by
  induction l generalizing k with
  | nil => exact h
  | cons a l ih => simp only [List.foldl_cons]; exact ih _ (kq_setCounter_zero k (f a) h)

theorem kq_epAdd (k : Kernel) (e : EpEntry) (k' : Kernel) (h : KQ k) (ha : epAdd k e = .ok k') : KQ k' := by
  unfold epAdd at ha
  split at ha
  · cases ha
  · rename_i hnone
    simp only at ha
    injection ha with ha
    subst ha
    have hnot : e.fd ∉ k.ep.map (·.fd) := entry_none_fd k e.fd hnone
    have nd : (({ k with ep := k.ep ++ [e] } : Kernel).ep.map (·.fd)).Nodup := by
      show ((k.ep ++ [e]).map (·.fd)).Nodup
      rw [List.map_append, List.nodup_append]
      refine ⟨h.1, by simp, ?_⟩
      intro a ha b hb
      simp at hb
      subst hb
      intro hab; subst hab; exact hnot ha
    have old : ∀ x ∈ ({ k with ep := k.ep ++ [e] } : Kernel).ep, x.fd ≠ e.fd → x.mode ≠ .edge →
        rdy { k with ep := k.ep ++ [e] } x = true → x.fd ∈ ({ k with ep := k.ep ++ [e] } : Kernel).rdl := by
      intro x hx hne hm hr
      have hx' : x ∈ k.ep ++ [e] := hx
      cases List.mem_append.mp hx' with
      | inl ho => exact h.2 x ho hm hr
      | inr hn => simp at hn; subst hn; exact absurd rfl hne
    split
    · exact kq_enqueue_for _ _ nd old
    · rename_i hnr
      refine ⟨nd, ?_⟩
      intro x hx hm hr
      by_cases hf : x.fd = e.fd
      · have hx' : x ∈ k.ep ++ [e] := hx
        cases List.mem_append.mp hx' with
        | inl ho => exact absurd (List.mem_map.mpr ⟨x, ho, hf⟩) hnot
        | inr hn =>
          simp at hn; subst hn
          exact absurd hr (by simpa [rdy] using hnr)
      · exact old x hx hf hm hr

theorem kq_epMod (k : Kernel) (e : EpEntry) (k' : Kernel) (h : KQ k) (ha : epMod k e = .ok k') : KQ k' := by
  unfold epMod at ha
  split at ha
  · cases ha
  · simp only at ha
    injection ha with ha
    subst ha
    have hfds : (k.ep.map (fun x => if x.fd == e.fd then e else x)).map (·.fd) = k.ep.map (·.fd) := by
      rw [List.map_map]
      apply List.map_congr_left
      intro x _
      simp only [Function.comp]
      split
      · rename_i hb; exact (by simpa using hb : x.fd = e.fd).symm
      · rfl
    have nd : (({ k with ep := k.ep.map (fun x => if x.fd == e.fd then e else x) } : Kernel).ep.map (·.fd)).Nodup := by
      show ((k.ep.map (fun x => if x.fd == e.fd then e else x)).map (·.fd)).Nodup
      rw [hfds]; exact h.1
    have old : ∀ x ∈ ({ k with ep := k.ep.map (fun x => if x.fd == e.fd then e else x) } : Kernel).ep, x.fd ≠ e.fd → x.mode ≠ .edge →
        rdy { k with ep := k.ep.map (fun x => if x.fd == e.fd then e else x) } x = true →
        x.fd ∈ ({ k with ep := k.ep.map (fun x => if x.fd == e.fd then e else x) } : Kernel).rdl := by
      intro x hx hne hm hr
      have hx' : x ∈ k.ep.map (fun x => if x.fd == e.fd then e else x) := hx
      obtain ⟨y, hy, hxy⟩ := List.mem_map.mp hx'
      by_cases hb : y.fd == e.fd
      · rw [if_pos hb] at hxy; subst hxy; exact absurd rfl hne
      · rw [if_neg hb] at hxy; subst hxy; exact h.2 y hy hm hr
    split
    · exact kq_enqueue_for _ _ nd old
    · rename_i hnr
      refine ⟨nd, ?_⟩
      intro x hx hm hr
      by_cases hf : x.fd = e.fd
      · have hx' : x ∈ k.ep.map (fun x => if x.fd == e.fd then e else x) := hx
        obtain ⟨y, hy, hxy⟩ := List.mem_map.mp hx'
        by_cases hb : y.fd == e.fd
        · rw [if_pos hb] at hxy; subst hxy
          exact absurd hr (by simpa [rdy] using hnr)
        · rw [if_neg hb] at hxy; subst hxy
          exact absurd (by simpa using hf) hb
      · exact old x hx hf hm hr

theorem kq_epDel (k : Kernel) (fd : Nat) (k' : Kernel) (h : KQ k) (ha : epDel k fd = .ok k') : KQ k' := by
  unfold epDel at ha
  split at ha
  · cases ha
  · injection ha with ha
    subst ha
    refine ⟨?_, ?_⟩
    · show ((k.ep.filter (·.fd != fd)).map (·.fd)).Nodup
      exact List.Nodup.sublist (List.Sublist.map _ List.filter_sublist) h.1
    · intro x hx hm hr
      have hx' : x ∈ k.ep.filter (·.fd != fd) := hx
      obtain ⟨ho, hne⟩ := List.mem_filter.mp hx'
      have := h.2 x ho hm hr
      show x.fd ∈ k.rdl.filter (· != fd)
      exact List.mem_filter.mpr ⟨this, hne⟩

theorem kq_dropGens (gens : List Gen) (k : Kernel) (h : KQ k) : KQ (dropGens k gens) := by
  induction gens generalizing k with
  | nil => exact h
  | cons g gs ih =>
    unfold dropGens
    split
    · cases hd : epDel k g.fd with
      | ok k' => exact ih k' (kq_epDel k g.fd k' h hd)
      | error io => exact ih k h
    · exact ih k h

theorem kq_efdWrite (k : Kernel) (fd n : Nat) (h : KQ k) : KQ (efdWrite k fd n) := by
  unfold efdWrite
  simp only
  have nd : ((setCounter k fd (counter k fd + n)).ep.map (·.fd)).Nodup := h.1
  -- entries of other fds are as ready as before
  have old : ∀ x ∈ (setCounter k fd (counter k fd + n)).ep, x.fd ≠ fd → x.mode ≠ .edge →
      rdy (setCounter k fd (counter k fd + n)) x = true → x.fd ∈ (setCounter k fd (counter k fd + n)).rdl := by
    intro x hx hne hm hr
    rw [rdy_setCounter_other k fd _ x hne] at hr
    exact h.2 x hx hm hr
  cases he : entry? (setCounter k fd (counter k fd + n)) fd with
  | none =>
    simp only
    refine ⟨nd, ?_⟩
    intro x hx hm hr
    by_cases hf : x.fd = fd
    · have := (Verif.Inv.Kernel.entry?_none_iff _ fd).mp he x hx
      exact absurd hf this
    · exact old x hx hf hm hr
  | some e =>
    simp only
    obtain ⟨hmem, hfd⟩ := mem_of_entry _ fd e he
    split
    · exact kq_enqueue_for _ _ nd old
    · rename_i hnr
      refine ⟨nd, ?_⟩
      intro x hx hm hr
      by_cases hf : x.fd = fd
      · -- `x` is the entry of `fd`: it has no read interest, so it was as ready before
        have hxe : x = e := by
          have h1 := entry_of_mem _ x hx nd
          rw [hf, he] at h1
          injection h1 with h1; exact h1.symm
        subst hxe
        have hr0 : x.r = false := by simpa using hnr
        apply h.2 x hx hm
        rw [rdy_eq] at hr ⊢
        simpa [hr0] using hr
      · exact old x hx hf hm hr

theorem kq_efdRead (k : Kernel) (fd : Nat) (h : KQ k) : KQ (efdRead k fd).2 := by
  unfold efdRead
  simp only
  split
  · exact h
  · have nd : ((setCounter k fd 0).ep.map (·.fd)).Nodup := h.1
    have base := kq_setCounter_zero k fd h
    cases he : entry? (setCounter k fd 0) fd with
    | none => exact base
    | some e =>
      simp only
      split
      · exact kq_enqueue _ _ base
      · exact base

/-- the loop of `epoll_wait`: what was ready and owed to the queue is either re-queued or still to be visited -/
theorem kq_waitLoop (q : List Nat) (k : Kernel) (nd : (k.ep.map (·.fd)).Nodup)
    (h : ∀ e ∈ k.ep, e.mode ≠ .edge → rdy k e = true → e.fd ∈ k.rdl ∨ e.fd ∈ q) : KQ (waitLoop k q).2 := by
  induction q generalizing k with
  | nil =>
    unfold waitLoop
    refine ⟨nd, ?_⟩
    intro e he hm hr
    cases h e he hm hr with
    | inl h1 => exact h1
    | inr h1 => cases h1
  | cons fd rest ih =>
    unfold waitLoop
    cases hent : entry? k fd with
    | none =>
      simp only
      apply ih k nd
      intro e he hm hr
      cases h e he hm hr with
      | inl h1 => exact Or.inl h1
      | inr h1 =>
        cases h1 with
        | head => exact absurd rfl ((Verif.Inv.Kernel.entry?_none_iff k e.fd).mp hent e he)
        | tail _ h2 => exact Or.inr h2
    | some e0 =>
      obtain ⟨hmem0, hfd0⟩ := mem_of_entry k fd e0 hent
      simp only
      split
      · rename_i hready
        -- the visited entry is ready
        cases hmode : e0.mode with
        | level =>
          simp only
          apply ih { k with rdl := k.rdl ++ [fd] } nd
          intro e he hm hr
          have hr' : rdy k e = true := hr
          by_cases hf : e.fd = fd
          · left; show e.fd ∈ k.rdl ++ [fd]; simp [hf]
          · cases h e he hm hr' with
            | inl h1 => left; show e.fd ∈ k.rdl ++ [fd]; simp [h1]
            | inr h1 =>
              cases h1 with
              | head => exact absurd rfl hf
              | tail _ h2 => exact Or.inr h2
        | edge =>
          simp only
          apply ih k nd
          intro e he hm hr
          by_cases hf : e.fd = fd
          · have : e = e0 := by
              have h1 := entry_of_mem k e he nd
              rw [hf, hent] at h1
              injection h1 with h1; exact h1.symm
            subst this
            exact absurd hmode hm
          · cases h e he hm hr with
            | inl h1 => exact Or.inl h1
            | inr h1 =>
              cases h1 with
              | head => exact absurd rfl hf
              | tail _ h2 => exact Or.inr h2
        | oneshot =>
          simp only
          have hfds : (k.ep.map (fun x => if x.fd == fd then { x with r := false, w := false } else x)).map (·.fd) = k.ep.map (·.fd) := by
            rw [List.map_map]
            apply List.map_congr_left
            intro x _
            simp only [Function.comp]
            split <;> rfl
          apply ih
          · show ((k.ep.map (fun x => if x.fd == fd then { x with r := false, w := false } else x)).map (·.fd)).Nodup
            rw [hfds]; exact nd
          · intro e he hm hr
            have he' : e ∈ k.ep.map (fun x => if x.fd == fd then { x with r := false, w := false } else x) := he
            obtain ⟨y, hy, hxy⟩ := List.mem_map.mp he'
            by_cases hb : y.fd == fd
            · rw [if_pos hb] at hxy; subst hxy
              exact absurd hr (by simp [rdy_eq])
            · rw [if_neg hb] at hxy
              have hxy' := hxy.symm
              subst hxy'
              have hne : e.fd ≠ fd := by simpa using hb
              cases h e hy hm hr with
              | inl h1 => exact Or.inl h1
              | inr h1 =>
                cases h1 with
                | head => exact absurd rfl hne
                | tail _ h2 => exact Or.inr h2
      · rename_i hnot
        apply ih k nd
        intro e he hm hr
        by_cases hf : e.fd = fd
        · have : e = e0 := by
            have h1 := entry_of_mem k e he nd
            rw [hf, hent] at h1
            injection h1 with h1; exact h1.symm
          subst this
          exact absurd hr (by simpa [rdy] using hnot)
        · cases h e he hm hr with
          | inl h1 => exact Or.inl h1
          | inr h1 =>
            cases h1 with
            | head => exact absurd rfl hf
            | tail _ h2 => exact Or.inr h2

theorem kq_epWait (k : Kernel) (h : KQ k) : KQ (epWait k).2 := by
  unfold epWait
  apply kq_waitLoop k.rdl { k with rdl := [] } h.1
  intro e he hm hr
  exact Or.inr (h.2 e he hm hr)

/-! ### what the wait reports -/

theorem find_map_other (l : List EpEntry) (fd fd' : Nat) (g : EpEntry → EpEntry) (hg : ∀ x, (g x).fd = x.fd) (h : fd ≠ fd') :
    (l.map (fun x => if x.fd == fd' then g x else x)).find? (·.fd == fd) = l.find? (·.fd == fd) := by
  induction l with
  | nil => rfl
  | cons x xs ih =>
    simp only [List.map_cons, List.find?_cons]
    by_cases hb : x.fd == fd'
    · have hx : x.fd = fd' := by simpa using hb
      have h1 : ((g x).fd == fd) = false := by rw [hg, hx]; simp; exact fun e => h e.symm
      have h2 : (x.fd == fd) = false := by rw [hx]; simp; exact fun e => h e.symm
      rw [if_pos hb, h1, h2]; exact ih
    · rw [if_neg hb]
      cases hc : x.fd == fd with
      | true => rfl
      | false => exact ih

/-- an fd on the list whose entry is ready is reported by the pass, with the readiness it has -/
theorem waitLoop_reports (q : List Nat) (k : Kernel) (fd : Nat) (e : EpEntry) (hq : fd ∈ q) (he : entry? k fd = some e)
    (hr : rdy k e = true) : (⟨e.key, (readyNow k e).1, (readyNow k e).2⟩ : Event) ∈ (waitLoop k q).1 := by
  induction q generalizing k with
  | nil => cases hq
  | cons fd' rest ih =>
    by_cases hf : fd' = fd
    · subst hf
      unfold waitLoop
      rw [he]
      simp only
      have : ((readyNow k e).1 || (readyNow k e).2) = true := hr
      rw [if_pos this]
      exact List.mem_cons_self
    · have hq' : fd ∈ rest := by
        cases hq with
        | head => exact absurd rfl hf
        | tail _ h => exact h
      unfold waitLoop
      cases hent : entry? k fd' with
      | none => exact ih k hq' he hr
      | some e0 =>
        simp only
        split
        · cases hmode : e0.mode with
          | level => exact List.mem_cons_of_mem _ (ih { k with rdl := k.rdl ++ [fd'] } hq' he hr)
          | edge => exact List.mem_cons_of_mem _ (ih k hq' he hr)
          | oneshot =>
            apply List.mem_cons_of_mem
            apply ih { k with ep := k.ep.map (fun x => if x.fd == fd' then { x with r := false, w := false } else x) } hq'
            · unfold entry?
              show (k.ep.map (fun x => if x.fd == fd' then { x with r := false, w := false } else x)).find? (·.fd == fd) = some e
              rw [find_map_other k.ep fd fd' (fun x => { x with r := false, w := false }) (fun _ => rfl) (fun e => hf e.symm)]
              exact he
            · exact hr
        · exact ih k hq' he hr

/-- under the queue invariant, the next wait reports every ready entry that is not edge-triggered -/
theorem epWait_reports (k : Kernel) (h : KQ k) (e : EpEntry) (he : e ∈ k.ep) (hm : e.mode ≠ .edge) (hr : rdy k e = true) :
    (⟨e.key, (readyNow k e).1, (readyNow k e).2⟩ : Event) ∈ (epWait k).1 := by
  unfold epWait
  exact waitLoop_reports k.rdl { k with rdl := [] } e.fd e (h.2 e he hm hr) (entry_of_mem k e he h.1) hr

/-! ## the loop -/

abbrev KQs : St → Prop := fun s => KQ s.k
abbrev KeepsQ {α} (x : M α) : Prop := KeepsI x KQs

theorem kk_kAdd (e : EpEntry) : Keeps (kAdd e) KQs := by
  constructor; intro s hs; unfold after; rw [kAdd_run]
  cases h : epAdd s.k e with
  | ok k' => exact kq_epAdd s.k e k' hs h
  | error io => exact hs

theorem kk_kMod (e : EpEntry) : Keeps (kMod e) KQs := by
  constructor; intro s hs; unfold after; rw [kMod_run]
  cases h : epMod s.k e with
  | ok k' => exact kq_epMod s.k e k' hs h
  | error io => exact hs

theorem kk_kDel (fd : Nat) : Keeps (kDel fd) KQs := by
  constructor; intro s hs; unfold after; rw [kDel_run]
  cases h : epDel s.k fd with
  | ok k' => exact kq_epDel s.k fd k' hs h
  | error io => exact hs

theorem kk_kWrite (fd n : Nat) : Keeps (kWrite fd n) KQs := by
  unfold kWrite; apply keeps_modify; intro s hs; exact kq_efdWrite s.k fd n hs

theorem kk_kRead (fd : Nat) : Keeps (kRead fd) KQs := by
  constructor; intro s hs
  have : after (kRead fd) s = { s with k := (efdRead s.k fd).2 } := rfl
  rw [this]; exact kq_efdRead s.k fd hs

theorem kk_modSrc (k : Nat) (f : Src → Src) : Keeps (modSrc k f) KQs := by
  constructor; intro s hs; unfold after; rw [modSrc_run]
  cases alookup s.srcs k <;> exact hs

theorem kk_modGen (k j : Nat) (f : Gen → Gen) : Keeps (modGen k j f) KQs := by
  unfold modGen; exact kk_modSrc _ _

theorem kk_getGen (k j : Nat) : Keeps (getGen? k j) KQs := by
  constructor; intro s hs; unfold after; rw [getGen_run]; exact hs

theorem kk_takeToken (f : Factory) : Keeps (takeToken f) KQs := by
  unfold takeToken; split
  · exact keeps_pure _ _
  · exact keeps_throw _ _

syntax "kq_lemma" : tactic
macro_rules | `(tactic| kq_lemma) => `(tactic| fail "no lemma applies")
macro_rules | `(tactic| kq_lemma) => `(tactic| with_reducible exact ki_of_keeps (kk_kAdd _))
macro_rules | `(tactic| kq_lemma) => `(tactic| with_reducible exact ki_of_keeps (kk_kMod _))
macro_rules | `(tactic| kq_lemma) => `(tactic| with_reducible exact ki_of_keeps (kk_kDel _))
macro_rules | `(tactic| kq_lemma) => `(tactic| with_reducible exact ki_of_keeps (kk_kWrite _ _))
macro_rules | `(tactic| kq_lemma) => `(tactic| with_reducible exact ki_of_keeps (kk_kRead _))
macro_rules | `(tactic| kq_lemma) => `(tactic| with_reducible exact ki_of_keeps (kk_modSrc _ _))
macro_rules | `(tactic| kq_lemma) => `(tactic| with_reducible exact ki_of_keeps (kk_modGen _ _ _))
macro_rules | `(tactic| kq_lemma) => `(tactic| with_reducible exact ki_of_keeps (kk_getGen _ _))
macro_rules | `(tactic| kq_lemma) => `(tactic| with_reducible exact ki_of_keeps (kk_takeToken _))

macro "kq_step" : tactic => `(tactic| first
  | exact ki_of_keeps (keeps_pure _ _)
  | exact ki_of_keeps (keeps_throw _ _)
  | exact ki_of_keeps (keeps_get _)
  | kq_lemma
  | (refine ki_of_keeps (keeps_modify _ _ ?_); intro s h; exact h)
  | (refine ki_of_keeps (keeps_modify _ _ ?_); intro s h; exact kq_dropGens _ _ h)
  | (refine ki_of_keeps (keeps_modify _ _ ?_); intro s h; exact kq_setCounter_zero _ _ h)
  | (refine ki_of_keeps (keeps_modify _ _ ?_); intro s h; exact kq_foldl_setCounter _ _ _ h)
  | (refine ki_of_keeps (keeps_emit _ _ ?_); intro s h; exact h)
  | (apply ki_bind)
  | (apply ki_catchErr)
  | (apply ki_forEachM)
  | (apply ki_ite)
  | (intro _)
  | split)

macro "kq" : tactic => `(tactic| (repeat kq_step))

theorem kq_genRegister (k j : Nat) (f : Factory) : KeepsQ (genRegister k j f) := by unfold genRegister; kq
macro_rules | `(tactic| kq_lemma) => `(tactic| with_reducible exact kq_genRegister _ _ _)
theorem kq_genReregister (k j : Nat) (f : Factory) : KeepsQ (genReregister k j f) := by unfold genReregister; kq
macro_rules | `(tactic| kq_lemma) => `(tactic| with_reducible exact kq_genReregister _ _ _)
theorem kq_genUnregister (k j : Nat) : KeepsQ (genUnregister k j) := by unfold genUnregister; kq
macro_rules | `(tactic| kq_lemma) => `(tactic| with_reducible exact kq_genUnregister _ _)
theorem kq_maybeDrop (k : Nat) : KeepsQ (maybeDrop k) := by unfold maybeDrop; kq
macro_rules | `(tactic| kq_lemma) => `(tactic| with_reducible exact kq_maybeDrop _)

theorem kq_getSrc (k : Nat) : KeepsQ (getSrc? k) := by unfold getSrc?; kq
macro_rules | `(tactic| kq_lemma) => `(tactic| with_reducible exact kq_getSrc _)

theorem kq_emit (o : Obs) : KeepsQ (emit o) := by refine ki_of_keeps (keeps_emit _ _ ?_); intro s h; exact h
macro_rules | `(tactic| kq_lemma) => `(tactic| with_reducible exact kq_emit _)
theorem kq_throwErr {α} (e : Err) : KeepsQ (throwErr e : M α) := ki_of_keeps (keeps_throw _ _)
macro_rules | `(tactic| kq_lemma) => `(tactic| with_reducible exact kq_throwErr _)
theorem kq_throwPanic {α} (p : Panic) : KeepsQ (throwPanic p : M α) := ki_of_keeps (keeps_throw _ _)
macro_rules | `(tactic| kq_lemma) => `(tactic| with_reducible exact kq_throwPanic _)


theorem kq_customLoop (k : Nat) (kind : RegKind) (fail : Option Nat) (body : Nat → Factory → M Factory)
    (hb : ∀ j f, KeepsQ (body j f)) (n j : Nat) (f : Factory) : KeepsQ (customLoop k kind fail body n j f) := by
  induction n generalizing j f with
  | zero => unfold customLoop; kq
  | succ n ih =>
    unfold customLoop
    repeat (first | exact ih _ _ | exact hb _ _ | kq_step)

theorem kq_customRollback (k j : Nat) : KeepsQ (customRollback k j) := by
  induction j with
  | zero => unfold customRollback; kq
  | succ j ih => unfold customRollback; repeat (first | exact ih | kq_step)
macro_rules | `(tactic| kq_lemma) => `(tactic| with_reducible exact kq_customRollback _ _)

theorem kq_customRegister (k : Nat) (fail : Option Nat) (rb : Bool) (n j : Nat) (f : Factory) :
    KeepsQ (customRegister k fail rb n j f) := by
  induction n generalizing j f with
  | zero => unfold customRegister; kq
  | succ n ih => unfold customRegister; repeat (first | exact ih _ _ | kq_step)
macro_rules | `(tactic| kq_lemma) => `(tactic| with_reducible exact kq_customRegister _ _ _ _ _ _)

theorem kq_timerUnregister (k : Nat) : KeepsQ (timerUnregister k) := by unfold timerUnregister; kq
macro_rules | `(tactic| kq_lemma) => `(tactic| with_reducible exact kq_timerUnregister _)
theorem kq_timerRegister (k : Nat) (f : Factory) : KeepsQ (timerRegister k f) := by unfold timerRegister; kq
macro_rules | `(tactic| kq_lemma) => `(tactic| with_reducible exact kq_timerRegister _ _)

theorem kq_srcRegister (k : Nat) (f : Factory) : KeepsQ (srcRegister k f) := by unfold srcRegister; kq
macro_rules | `(tactic| kq_lemma) => `(tactic| with_reducible exact kq_srcRegister _ _)

theorem kq_srcReregister (k : Nat) (f : Factory) : KeepsQ (srcReregister k f) := by
  unfold srcReregister
  repeat (first | (apply kq_customLoop; intro j f; exact kq_genReregister _ _ _) | kq_step)
macro_rules | `(tactic| kq_lemma) => `(tactic| with_reducible exact kq_srcReregister _ _)

theorem kq_srcUnregister (k : Nat) : KeepsQ (srcUnregister k) := by
  unfold srcUnregister
  repeat (first | (apply kq_customLoop; intro j f; repeat kq_step) | kq_step)
macro_rules | `(tactic| kq_lemma) => `(tactic| with_reducible exact kq_srcUnregister _)

theorem kq_isLife (k : Nat) : KeepsQ (isLife k) := by unfold isLife; kq
macro_rules | `(tactic| kq_lemma) => `(tactic| with_reducible exact kq_isLife _)

theorem kq_dRegister (k : Nat) (tok : Tok) : KeepsQ (dRegister k tok) := by unfold dRegister; kq
macro_rules | `(tactic| kq_lemma) => `(tactic| with_reducible exact kq_dRegister _ _)
theorem kq_dReregister (k : Nat) (tok : Tok) : KeepsQ (dReregister k tok) := by unfold dReregister; kq
macro_rules | `(tactic| kq_lemma) => `(tactic| with_reducible exact kq_dReregister _ _)
theorem kq_dUnregister (k : Nat) (tok : Tok) : KeepsQ (dUnregister k tok) := by unfold dUnregister; kq
macro_rules | `(tactic| kq_lemma) => `(tactic| with_reducible exact kq_dUnregister _ _)

theorem kq_userTok (k : Nat) : KeepsQ (userTok k) := by unfold userTok; kq
macro_rules | `(tactic| kq_lemma) => `(tactic| with_reducible exact kq_userTok _)
theorem kq_doInsert (k : Nat) (keep : Bool) : KeepsQ (doInsert k keep) := by unfold doInsert; kq
macro_rules | `(tactic| kq_lemma) => `(tactic| with_reducible exact kq_doInsert _ _)
theorem kq_doRemove (o : COp) (k : Nat) : KeepsQ (doRemove o k) := by unfold doRemove; kq
macro_rules | `(tactic| kq_lemma) => `(tactic| with_reducible exact kq_doRemove _ _)
theorem kq_chanFd (k : Nat) : KeepsQ (chanFd k) := by unfold chanFd; kq
macro_rules | `(tactic| kq_lemma) => `(tactic| with_reducible exact kq_chanFd _)


/-! ### user operations, event processing, dispatch: everything keeps the set duplicate-free -/

theorem kq_tokenOp (o : COp) (k : Nat) (body : Nat → Tok → M Unit) (hb : ∀ d t, KeepsQ (body d t)) :
    KeepsQ (tokenOp o k body) := by
  unfold tokenOp
  repeat (first | exact hb _ _ | kq_step)




theorem kq_execCore (o : COp) : KeepsQ (execC' o) := by
  cases o <;> unfold execC' <;>
    repeat (first | (apply kq_tokenOp; intro d t) | kq_step)

theorem kq_execC (o : COp) : KeepsQ (execC o) := by
  unfold execC
  repeat (first | exact kq_execCore _ | kq_step)
macro_rules | `(tactic| kq_lemma) => `(tactic| with_reducible exact kq_execC _)

theorem kq_runCb (k : Nat) (p : Payload) : KeepsQ (runCb k p) := by unfold runCb; kq
macro_rules | `(tactic| kq_lemma) => `(tactic| with_reducible exact kq_runCb _ _)
theorem kq_retPA (r : Loop.Ret) : KeepsQ (retPA r) := by cases r <;> unfold retPA <;> kq
macro_rules | `(tactic| kq_lemma) => `(tactic| with_reducible exact kq_retPA _)
theorem kq_genGate (k j : Nat) (ev : Event) : KeepsQ (genGate k j ev) := by unfold genGate; kq
macro_rules | `(tactic| kq_lemma) => `(tactic| with_reducible exact kq_genGate _ _ _)

theorem kq_pingPE {α} (k : Nat) (ev : Event) (body : M α) (hb : KeepsQ body) : KeepsQ (pingPE k ev body) := by
  unfold pingPE; repeat (first | exact hb | kq_step)

theorem kq_chanDrain (k n : Nat) : KeepsQ (chanDrain k n) := by
  induction n with
  | zero => unfold chanDrain; kq
  | succ n ih => unfold chanDrain; repeat (first | exact ih | kq_step)
macro_rules | `(tactic| kq_lemma) => `(tactic| with_reducible exact kq_chanDrain _ _)

theorem kq_customPE (k : Nat) (ev : Event) (n j : Nat) (acc : PA) : KeepsQ (customPE k ev n j acc) := by
  induction n generalizing j acc with
  | zero => unfold customPE; kq
  | succ n ih => unfold customPE; repeat (first | exact ih _ _ | kq_step)
macro_rules | `(tactic| kq_lemma) => `(tactic| with_reducible exact kq_customPE _ _ _ _ _)

theorem kq_processEventsInner (k : Nat) (ev : Event) : KeepsQ (processEventsInner k ev) := by
  unfold processEventsInner
  repeat (first
    | (apply kq_pingPE; first | exact kq_runCb _ _ | exact kq_chanDrain _ _)
    | kq_step)
macro_rules | `(tactic| kq_lemma) => `(tactic| with_reducible exact kq_processEventsInner _ _)



open Verif.Inv.Ctl in
theorem kq_processEvents (k : Nat) (ev : Event) : KeepsQ (processEvents k ev) := by
  constructor
  intro s hs
  have hs1 : KQs { s with running := some k, log := s.log ++ [.pe k] } := hs
  have hin := (kq_processEventsInner k ev).h _ hs1
  simp only [processEvents, bind, EStateM.bind, modify, modifyGet, MonadStateOf.modifyGet, EStateM.modifyGet, emit,
    tryCatch, tryCatchThe, MonadExceptOf.tryCatch, EStateM.tryCatch, pure, EStateM.pure]
  cases h : processEventsInner k ev { s with running := some k, log := s.log ++ [.pe k] } with
  | ok a s' =>
    rw [h] at hin
    simp only [EStateM.bind, EStateM.modifyGet, EStateM.pure]
    exact hin
  | error e s' =>
    rw [h] at hin
    cases e with
    | err e =>
      simp only [EStateM.bind, EStateM.modifyGet, throw, throwThe, MonadExceptOf.throw, EStateM.throw,
        EStateM.Backtrackable.restore, EStateM.dummyRestore]
      exact hin
    | panic p =>
      simp [EStateM.bind, EStateM.modifyGet, throw, throwThe, MonadExceptOf.throw, EStateM.throw,
        EStateM.Backtrackable.restore, EStateM.dummyRestore]
macro_rules | `(tactic| kq_lemma) => `(tactic| with_reducible exact kq_processEvents _ _)

theorem kq_beforeSleep (tok : Tok) : KeepsQ (beforeSleep tok) := by unfold beforeSleep; kq
macro_rules | `(tactic| kq_lemma) => `(tactic| with_reducible exact kq_beforeSleep _)
theorem kq_beforeHandle (evs : List Event) (tok : Tok) : KeepsQ (beforeHandle evs tok) := by unfold beforeHandle; kq
macro_rules | `(tactic| kq_lemma) => `(tactic| with_reducible exact kq_beforeHandle _ _)

theorem kq_processOne (ev : Event) : KeepsQ (processOne ev) := by
  unfold processOne; repeat (first | kq_step | dsimp only)
macro_rules | `(tactic| kq_lemma) => `(tactic| with_reducible exact kq_processOne _)

theorem kq_batchLoop (l : List Event) (first : Option Err) : KeepsQ (batchLoop l first) := by
  induction l generalizing first with
  | nil => unfold batchLoop; kq
  | cons ev rest ih => unfold batchLoop; repeat (first | exact ih _ | kq_step)
macro_rules | `(tactic| kq_lemma) => `(tactic| with_reducible exact kq_batchLoop _ _)

theorem kqs_epWait (s : St) (h : KQs s) : KQs { s with k := (epWait s.k).2 } := kq_epWait s.k h

theorem kq_dispatchEvents : KeepsQ dispatchEvents := by
  unfold dispatchEvents
  repeat (first
    | (refine ki_of_keeps (keeps_modify _ _ ?_); intro s h; exact kqs_epWait s h)
    | kq_step | dsimp only)
theorem kq_runIdle (p : Nat × Nat) : KeepsQ (runIdle p) := by unfold runIdle; kq
macro_rules | `(tactic| kq_lemma) => `(tactic| with_reducible exact kq_runIdle _)
theorem kq_dispatchIdles : KeepsQ dispatchIdles := by unfold dispatchIdles; kq
theorem kq_dispatch : KeepsQ dispatch := by
  unfold dispatch
  repeat (first | exact kq_dispatchEvents | exact kq_dispatchIdles | kq_step)
theorem kq_snapshot : KeepsQ snapshot := by unfold snapshot; kq
theorem kq_execTop (o : Op) : KeepsQ (execTop o) := by
  cases o <;> unfold execTop <;> repeat (first | exact kq_dispatch | exact kq_snapshot | kq_step)


theorem kq_step_ok (s : St) (o : Op) (h : KQs s ∨ s.aborted = true) : KQs (step s o) ∨ (step s o).aborted = true := by
  unfold step
  by_cases ha : s.aborted = true
  · rw [if_pos ha]; exact Or.inr ha
  · rw [if_neg ha]
    have hs : KQs s := by cases h with | inl h => exact h | inr h => exact absurd h ha
    have := (kq_execTop o).h s hs
    cases hx : execTop o s with
    | ok a s' => rw [hx] at this; exact Or.inl this
    | error e s' =>
      rw [hx] at this
      cases e with
      | err e => exact Or.inl this
      | panic p => exact Or.inr rfl

theorem run_kq (ops : List Op) : KQs (run ops) ∨ (run ops).aborted = true := by
  unfold run
  have : ∀ (l : List Op) (s : St), (KQs s ∨ s.aborted = true) → (KQs (l.foldl step s) ∨ (l.foldl step s).aborted = true) := by
    intro l
    induction l with
    | nil => intro s h; exact h
    | cons o l ih => intro s h; exact ih _ (kq_step_ok s o h)
  refine this ops {} (Or.inl ⟨?_, ?_⟩)
  · exact List.nodup_nil
  · intro e he; cases he

/-- **After every history** that was not aborted by a panic, every entry of the poller table that is level-triggered
    or one-shot and ready for an interest it holds is reported by the next wait: readiness is never forgotten between
    the moment it arises (or the moment of registration, if it arose earlier) and the next `epoll_wait` — whatever
    registrations, re-registrations, disables, removals, failed calls and callbacks came in between. -/
theorem ready_registration_is_reported (ops : List Op) (hab : (run ops).aborted = false) (e : EpEntry)
    (he : e ∈ (run ops).k.ep) (hm : e.mode ≠ .edge) (hr : rdy (run ops).k e = true) :
    (⟨e.key, (readyNow (run ops).k e).1, (readyNow (run ops).k e).2⟩ : Event) ∈ (epWait (run ops).k).1 :=
  epWait_reports _ ((run_kq ops).resolve_right (by simp [hab])) e he hm hr

/-- … and the poller table holds one entry per fd -/
theorem one_entry_per_fd (ops : List Op) (hab : (run ops).aborted = false) : ((run ops).k.ep.map (·.fd)).Nodup :=
  ((run_kq ops).resolve_right (by simp [hab])).1

end Verif.Inv.ReadyQ
