/-
The control cells of the dispatch loop — `pending_action`, the borrowed dispatcher (`running`) and the
dispatcher whose `Rc` the loop holds (`inflight`) — over the *whole* loop model: which operations can
touch them, and that every top-level operation leaves them clear (C09: a post action is never carried
over to a later event; C07: … nor to another source).
-/
import Verif.Inv.Keeps

namespace Verif.Inv.Ctl
open Verif.Loop Verif.Inv Verif.Kernel Verif.Slots Verif.Wheel Verif.Token

/-- the three control cells -/
def ctl (s : St) : PA × Option Nat × Option Nat := (s.pending, s.running, s.inflight)

/-- `x` leaves the control cells alone, however it ends -/
abbrev Frame {α} (x : M α) : Prop := ∀ c, Keeps x (fun s => ctl s = c)

syntax "frame_lemma" : tactic
macro_rules | `(tactic| frame_lemma) => `(tactic| fail "no frame lemma applies")

macro "frame_step" : tactic => `(tactic| first
  | exact keeps_pure _ _
  | exact keeps_throw _ _
  | exact keeps_get _
  | frame_lemma
  | (apply keeps_modify; intro s h; exact h)
  | (apply keeps_emit; intro s h; exact h)
  | (apply keeps_bind)
  | (apply keeps_catchErr)
  | (apply keeps_forEachM)
  | (apply keeps_ite)
  | (intro _)
  | split)

macro "frame" : tactic => `(tactic| (intro c; repeat frame_step))

theorem frame_emit (o : Obs) : Frame (emit o) := by intro c; apply keeps_emit; intro s h; exact h
macro_rules | `(tactic| frame_lemma) => `(tactic| with_reducible exact frame_emit _ _)
theorem frame_throwErr {α} (e : Err) : Frame (throwErr e : M α) := by intro c; exact keeps_throw _ _
macro_rules | `(tactic| frame_lemma) => `(tactic| with_reducible exact frame_throwErr _ _)
theorem frame_throwPanic {α} (p : Panic) : Frame (throwPanic p : M α) := by intro c; exact keeps_throw _ _
macro_rules | `(tactic| frame_lemma) => `(tactic| with_reducible exact frame_throwPanic _ _)

theorem frame_getSrc (k : Nat) : Frame (getSrc? k) := by unfold getSrc?; frame
macro_rules | `(tactic| frame_lemma) => `(tactic| with_reducible exact frame_getSrc _ _)
theorem frame_setSrc (k : Nat) (v : Src) : Frame (setSrc k v) := by unfold setSrc; frame
macro_rules | `(tactic| frame_lemma) => `(tactic| with_reducible exact frame_setSrc _ _ _)
theorem frame_modSrc (k : Nat) (f : Src → Src) : Frame (modSrc k f) := by unfold modSrc; frame
macro_rules | `(tactic| frame_lemma) => `(tactic| with_reducible exact frame_modSrc _ _ _)
theorem frame_modGen (k j : Nat) (f : Gen → Gen) : Frame (modGen k j f) := by unfold modGen; frame
macro_rules | `(tactic| frame_lemma) => `(tactic| with_reducible exact frame_modGen _ _ _ _)
theorem frame_getGen (k j : Nat) : Frame (getGen? k j) := by unfold getGen?; frame
macro_rules | `(tactic| frame_lemma) => `(tactic| with_reducible exact frame_getGen _ _ _)
theorem frame_kAdd (e : EpEntry) : Frame (kAdd e) := by unfold kAdd; frame
macro_rules | `(tactic| frame_lemma) => `(tactic| with_reducible exact frame_kAdd _ _)
theorem frame_kMod (e : EpEntry) : Frame (kMod e) := by unfold kMod; frame
macro_rules | `(tactic| frame_lemma) => `(tactic| with_reducible exact frame_kMod _ _)
theorem frame_kDel (fd : Nat) : Frame (kDel fd) := by unfold kDel; frame
macro_rules | `(tactic| frame_lemma) => `(tactic| with_reducible exact frame_kDel _ _)
theorem frame_kWrite (fd n : Nat) : Frame (kWrite fd n) := by unfold kWrite; frame
macro_rules | `(tactic| frame_lemma) => `(tactic| with_reducible exact frame_kWrite _ _ _)
theorem frame_kRead (fd : Nat) : Frame (kRead fd) := by unfold kRead; frame
macro_rules | `(tactic| frame_lemma) => `(tactic| with_reducible exact frame_kRead _ _)
theorem frame_takeToken (f : Factory) : Frame (takeToken f) := by unfold takeToken; frame
macro_rules | `(tactic| frame_lemma) => `(tactic| with_reducible exact frame_takeToken _ _)
theorem frame_genRegister (k j : Nat) (f : Factory) : Frame (genRegister k j f) := by unfold genRegister; frame
macro_rules | `(tactic| frame_lemma) => `(tactic| with_reducible exact frame_genRegister _ _ _ _)
theorem frame_genReregister (k j : Nat) (f : Factory) : Frame (genReregister k j f) := by unfold genReregister; frame
macro_rules | `(tactic| frame_lemma) => `(tactic| with_reducible exact frame_genReregister _ _ _ _)
theorem frame_genUnregister (k j : Nat) : Frame (genUnregister k j) := by unfold genUnregister; frame
macro_rules | `(tactic| frame_lemma) => `(tactic| with_reducible exact frame_genUnregister _ _ _)

theorem frame_customLoop (k : Nat) (kind : RegKind) (fail : Option Nat) (body : Nat → Factory → M Factory)
    (hb : ∀ j f, Frame (body j f)) (n j : Nat) (f : Factory) : Frame (customLoop k kind fail body n j f) := by
  induction n generalizing j f with
  | zero => unfold customLoop; frame
  | succ n ih =>
    unfold customLoop
    intro c
    repeat (first | exact ih _ _ c | exact hb _ _ c | frame_step)

theorem frame_customRollback (k j : Nat) : Frame (customRollback k j) := by
  induction j with
  | zero => unfold customRollback; frame
  | succ j ih => unfold customRollback; intro c; repeat (first | exact ih c | frame_step)
macro_rules | `(tactic| frame_lemma) => `(tactic| with_reducible exact frame_customRollback _ _ _)

theorem frame_customRegister (k : Nat) (fail : Option Nat) (rb : Bool) (n j : Nat) (f : Factory) :
    Frame (customRegister k fail rb n j f) := by
  induction n generalizing j f with
  | zero => unfold customRegister; frame
  | succ n ih => unfold customRegister; intro c; repeat (first | exact ih _ _ c | frame_step)
macro_rules | `(tactic| frame_lemma) => `(tactic| with_reducible exact frame_customRegister _ _ _ _ _ _ _)

theorem frame_timerUnregister (k : Nat) : Frame (timerUnregister k) := by unfold timerUnregister; frame
macro_rules | `(tactic| frame_lemma) => `(tactic| with_reducible exact frame_timerUnregister _ _)
theorem frame_timerRegister (k : Nat) (f : Factory) : Frame (timerRegister k f) := by unfold timerRegister; frame
macro_rules | `(tactic| frame_lemma) => `(tactic| with_reducible exact frame_timerRegister _ _ _)

theorem frame_srcRegister (k : Nat) (f : Factory) : Frame (srcRegister k f) := by unfold srcRegister; frame
macro_rules | `(tactic| frame_lemma) => `(tactic| with_reducible exact frame_srcRegister _ _ _)

theorem frame_srcReregister (k : Nat) (f : Factory) : Frame (srcReregister k f) := by
  unfold srcReregister
  intro c
  repeat (first | (apply frame_customLoop; intro j f; exact frame_genReregister _ _ _) | frame_step)
macro_rules | `(tactic| frame_lemma) => `(tactic| with_reducible exact frame_srcReregister _ _ _)

theorem frame_srcUnregister (k : Nat) : Frame (srcUnregister k) := by
  unfold srcUnregister
  intro c
  repeat (first | (apply frame_customLoop; intro j f c; repeat frame_step) | frame_step)
macro_rules | `(tactic| frame_lemma) => `(tactic| with_reducible exact frame_srcUnregister _ _)

theorem frame_isLife (k : Nat) : Frame (isLife k) := by unfold isLife; frame
macro_rules | `(tactic| frame_lemma) => `(tactic| with_reducible exact frame_isLife _ _)

theorem frame_dRegister (k : Nat) (tok : Tok) : Frame (dRegister k tok) := by unfold dRegister; frame
macro_rules | `(tactic| frame_lemma) => `(tactic| with_reducible exact frame_dRegister _ _ _)
theorem frame_dReregister (k : Nat) (tok : Tok) : Frame (dReregister k tok) := by unfold dReregister; frame
macro_rules | `(tactic| frame_lemma) => `(tactic| with_reducible exact frame_dReregister _ _ _)
theorem frame_dUnregister (k : Nat) (tok : Tok) : Frame (dUnregister k tok) := by unfold dUnregister; frame
macro_rules | `(tactic| frame_lemma) => `(tactic| with_reducible exact frame_dUnregister _ _ _)

theorem frame_maybeDrop (k : Nat) : Frame (maybeDrop k) := by unfold maybeDrop; frame
macro_rules | `(tactic| frame_lemma) => `(tactic| with_reducible exact frame_maybeDrop _ _)
theorem frame_userTok (k : Nat) : Frame (userTok k) := by unfold userTok; frame
macro_rules | `(tactic| frame_lemma) => `(tactic| with_reducible exact frame_userTok _ _)
theorem frame_doInsert (k : Nat) (keep : Bool) : Frame (doInsert k keep) := by unfold doInsert; frame
macro_rules | `(tactic| frame_lemma) => `(tactic| with_reducible exact frame_doInsert _ _ _)
theorem frame_doRemove (o : COp) (k : Nat) : Frame (doRemove o k) := by unfold doRemove; frame
macro_rules | `(tactic| frame_lemma) => `(tactic| with_reducible exact frame_doRemove _ _ _)
theorem frame_chanFd (k : Nat) : Frame (chanFd k) := by unfold chanFd; frame
macro_rules | `(tactic| frame_lemma) => `(tactic| with_reducible exact frame_chanFd _ _)

/-! ### operations issued by the user (top level, callbacks, idles) -/

theorem frame_tokenOp (o : COp) (k : Nat) (body : Nat → Tok → M Unit) (hb : ∀ d t, Frame (body d t)) :
    Frame (tokenOp o k body) := by
  unfold tokenOp
  intro c
  repeat (first | exact hb _ _ c | frame_step)

/-- the two cells only the dispatch loop itself writes -/
def ctl2 (s : St) : Option Nat × Option Nat := (s.running, s.inflight)
abbrev Frame2 {α} (x : M α) : Prop := ∀ c, Keeps x (fun s => ctl2 s = c)

theorem frame2_of_frame {α} {x : M α} (h : Frame x) : Frame2 x := by
  intro c
  constructor
  intro s hs
  have h1 : ctl (after x s) = ctl s := (h (ctl s)).h s rfl
  show ctl2 (after x s) = c
  rw [← hs]
  simp only [ctl, Prod.mk.injEq] at h1
  simp only [ctl2, h1.2.1, h1.2.2]

macro "frame2_step" : tactic => `(tactic| first
  | exact keeps_pure _ _
  | exact keeps_throw _ _
  | exact keeps_get _
  | (refine (frame2_of_frame ?_) _; intro _; frame_lemma)
  | (apply keeps_modify; intro s h; exact h)
  | (apply keeps_emit; intro s h; exact h)
  | (apply keeps_bind)
  | (apply keeps_catchErr)
  | (apply keeps_forEachM)
  | (apply keeps_ite)
  | (intro _)
  | split)

macro "frame2" : tactic => `(tactic| (intro c; repeat frame2_step))

theorem frame2_tokenOp (o : COp) (k : Nat) (body : Nat → Tok → M Unit) (hb : ∀ d t, Frame2 (body d t)) :
    Frame2 (tokenOp o k body) := by
  unfold tokenOp
  intro c
  repeat (first | exact hb _ _ c | frame2_step)

/-- no user operation writes `running` or `inflight` -/
theorem frame2_execCore (o : COp) : Frame2 (execC' o) := by
  cases o <;> unfold execC' <;> intro c <;>
    repeat (first | (apply frame2_tokenOp; intro d t c) | frame2_step)

theorem frame2_execC (o : COp) : Frame2 (execC o) := by
  unfold execC; intro c; repeat (first | exact frame2_execCore _ c | frame2_step)

/-! ### outside event processing nothing is deferred -/

/-- the state between events: no deferred action, no dispatcher borrowed; the loop holds dispatcher `i` (or none) -/
abbrev Top (i : Option Nat) : St → Prop := fun s => ctl s = (.Continue, none, i)

/-- what `x` returns when it returns -/
def Returns {α} (x : M α) (Q : α → Prop) : Prop := ∀ s, match x s with | .ok a _ => Q a | .error _ _ => True

theorem ret_pure {α} (a : α) (Q : α → Prop) (h : Q a) : Returns (pure a : M α) Q := fun _ => h
theorem ret_throw {α} (e : Exc) (Q : α → Prop) : Returns (throw e : M α) Q := fun _ => trivial
theorem ret_bind {α β} (x : M α) (f : α → M β) (Q : β → Prop) (hf : ∀ a, Returns (f a) Q) : Returns (x >>= f) Q := by
  intro s
  simp only [bind, EStateM.bind]
  cases h : x s with
  | ok a s' => exact hf a s'
  | error e s' => trivial

def dUnregisterRest (k : Nat) (tok : Tok) : M Bool := do
  let r ← catchErr (srcUnregister k)
  if ← isLife k then modify fun s => { s with life := lifeUnregister s.life tok }
  match r with
  | .ok _ => return true
  | .error e => throwErr e

theorem dUnregister_eq (k : Nat) (tok : Tok) :
    dUnregister k tok = (get >>= fun s => if s.running == some k then pure false else dUnregisterRest k tok) := rfl

def dReregisterRest (k : Nat) (tok : Tok) : M Bool := do
  srcReregister k (Factory.new tok)
  if ← isLife k then modify fun s => { s with life := lifeRegister s.life (forgetSub tok) }
  return true

theorem dReregister_eq (k : Nat) (tok : Tok) :
    dReregister k tok = (get >>= fun s => if s.running == some k then pure false else dReregisterRest k tok) := rfl

theorem frame_dUnregisterRest (k : Nat) (tok : Tok) : Frame (dUnregisterRest k tok) := by unfold dUnregisterRest; frame
theorem frame_dReregisterRest (k : Nat) (tok : Tok) : Frame (dReregisterRest k tok) := by unfold dReregisterRest; frame

macro "ret_auto" : tactic => `(tactic| repeat (first
  | exact ret_pure _ _ rfl
  | exact ret_throw _ _
  | (apply ret_bind; intro _)
  | split
  | (unfold throwErr)
  | dsimp only))

theorem ret_dUnregisterRest (k : Nat) (tok : Tok) : Returns (dUnregisterRest k tok) (· = true) := by
  unfold dUnregisterRest; ret_auto

theorem ret_dReregisterRest (k : Nat) (tok : Tok) : Returns (dReregisterRest k tok) (· = true) := by
  unfold dReregisterRest; ret_auto

/-- with no dispatcher borrowed, `unregister` / `reregister` act at once: they answer `true` (or fail), never "deferred" -/
theorem dUnregister_top (k : Nat) (tok : Tok) (s : St) (h : s.running = none) :
    dUnregister k tok s = dUnregisterRest k tok s := by
  rw [dUnregister_eq]
  simp only [bind, EStateM.bind, MonadState.get, getThe, MonadStateOf.get, EStateM.get, h]
  rfl

theorem dReregister_top (k : Nat) (tok : Tok) (s : St) (h : s.running = none) :
    dReregister k tok s = dReregisterRest k tok s := by
  rw [dReregister_eq]
  simp only [bind, EStateM.bind, MonadState.get, getThe, MonadStateOf.get, EStateM.get, h]
  rfl

/-- what `x` returns when it is started in a state satisfying `P` -/
def RetP {α} (P : St → Prop) (x : M α) (Q : α → Prop) : Prop :=
  ∀ s, P s → match x s with | .ok a _ => Q a | .error _ _ => True

theorem keeps_bind_ret {α β} (x : M α) (f : α → M β) (P : St → Prop) (Q : α → Prop)
    (hx : Keeps x P) (hr : RetP P x Q) (hf : ∀ a, Q a → Keeps (f a) P) : Keeps (x >>= f) P := by
  constructor
  intro s h
  have h1 := hx.h s h
  have h2 := hr s h
  simp only [after, bind, EStateM.bind] at *
  cases hxs : x s with
  | ok a s' =>
    rw [hxs] at h1 h2
    have := (hf a h2).h s' h1
    simpa [after] using this
  | error e s' => rw [hxs] at h1; exact h1

theorem top_running {i : Option Nat} {s : St} (h : Top i s) : s.running = none := by
  have h' : ctl s = (.Continue, none, i) := h
  simp only [ctl, Prod.mk.injEq] at h'; exact h'.2.1

theorem retP_dUnregister (d : Nat) (tok : Tok) (i : Option Nat) : RetP (Top i) (dUnregister d tok) (· = true) := by
  intro s hs
  rw [dUnregister_top d tok s (top_running hs)]
  exact ret_dUnregisterRest d tok s

theorem retP_dReregister (d : Nat) (tok : Tok) (i : Option Nat) : RetP (Top i) (dReregister d tok) (· = true) := by
  intro s hs
  rw [dReregister_top d tok s (top_running hs)]
  exact ret_dReregisterRest d tok s

theorem keeps_top_tokenOp (o : COp) (k : Nat) (body : Nat → Tok → M Unit) (i : Option Nat)
    (hb : ∀ d t, Keeps (body d t) (Top i)) : Keeps (tokenOp o k body) (Top i) := by
  unfold tokenOp
  repeat (first | exact hb _ _ | frame_step)

/-- **Outside event processing a `disable` / `update` is carried out at once**: nothing is left in `pending_action` -/
theorem keeps_top_execCore (o : COp) (i : Option Nat) : Keeps (execC' o) (Top i) := by
  cases o
  case disable k =>
    unfold execC'
    apply keeps_top_tokenOp
    intro d t
    apply keeps_bind_ret _ _ _ (· = true) (frame_dUnregister d t _) (retP_dUnregister d t i)
    intro b hb
    subst hb
    simp only [Bool.not_true, Bool.false_eq_true, if_false]
    exact keeps_pure _ _
  case update k =>
    unfold execC'
    apply keeps_top_tokenOp
    intro d t
    apply keeps_bind_ret _ _ _ (· = true) (frame_dReregister d t _) (retP_dReregister d t i)
    intro b hb
    subst hb
    simp only [Bool.not_true, Bool.false_eq_true, if_false]
    exact keeps_pure _ _
  all_goals (unfold execC'; repeat (first | (apply frame_tokenOp; intro d t c) | frame_step))

theorem keeps_top_execC (o : COp) (i : Option Nat) : Keeps (execC o) (Top i) := by
  unfold execC; repeat (first | exact keeps_top_execCore _ _ | frame_step)

/-! ### event processing -/

theorem frame2_runCb (k : Nat) (p : Payload) : Frame2 (runCb k p) := by
  unfold runCb; intro c; repeat (first | exact frame2_execC _ c | frame2_step)

theorem frame_retPA (r : Loop.Ret) : Frame (retPA r) := by cases r <;> unfold retPA <;> frame
macro_rules | `(tactic| frame_lemma) => `(tactic| with_reducible exact frame_retPA _ _)
theorem frame_genGate (k j : Nat) (ev : Event) : Frame (genGate k j ev) := by unfold genGate; frame
macro_rules | `(tactic| frame_lemma) => `(tactic| with_reducible exact frame_genGate _ _ _ _)

theorem frame2_pingPE {α} (k : Nat) (ev : Event) (body : M α) (hb : Frame2 body) : Frame2 (pingPE k ev body) := by
  unfold pingPE; intro c; repeat (first | exact hb c | frame2_step)

theorem frame2_chanDrain (k n : Nat) : Frame2 (chanDrain k n) := by
  induction n with
  | zero => unfold chanDrain; frame2
  | succ n ih => unfold chanDrain; intro c; repeat (first | exact ih c | exact frame2_runCb _ _ c | frame2_step)

theorem frame2_customPE (k : Nat) (ev : Event) (n j : Nat) (acc : PA) : Frame2 (customPE k ev n j acc) := by
  induction n generalizing j acc with
  | zero => unfold customPE; frame2
  | succ n ih => unfold customPE; intro c; repeat (first | exact ih _ _ c | exact frame2_runCb _ _ c | frame2_step)

theorem frame2_processEventsInner (k : Nat) (ev : Event) : Frame2 (processEventsInner k ev) := by
  unfold processEventsInner
  intro c
  repeat (first
    | exact frame2_customPE _ _ _ _ _ c
    | exact frame2_runCb _ _ c
    | (apply frame2_pingPE; first | exact frame2_runCb _ _ | exact frame2_chanDrain _ _)
    | frame2_step)

/-- `RefCell<DispatcherInner>::process_events` gives the borrow back however the source's processing ends, and
    never touches the loop's own `Rc` -/
theorem processEvents_ends (k : Nat) (ev : Event) (s : St) :
    match processEvents k ev s with
    | .ok _ s' => s'.running = none ∧ s'.inflight = s.inflight
    | .error (.err _) s' => s'.running = none ∧ s'.inflight = s.inflight
    | .error (.panic _) _ => True := by
  have hin := (frame2_processEventsInner k ev (some k, s.inflight)).h
    { s with running := some k, log := s.log ++ [.pe k] } rfl
  simp only [after] at hin
  simp only [processEvents, bind, EStateM.bind, modify, modifyGet, MonadStateOf.modifyGet, EStateM.modifyGet, emit,
    tryCatch, tryCatchThe, MonadExceptOf.tryCatch, EStateM.tryCatch, pure, EStateM.pure]
  cases h : processEventsInner k ev { s with running := some k, log := s.log ++ [.pe k] } with
  | ok a s' =>
    rw [h] at hin
    simp only [ctl2, Prod.mk.injEq] at hin
    simp [EStateM.bind, EStateM.modifyGet, EStateM.pure, hin]
  | error e s' =>
    rw [h] at hin
    simp only [ctl2, Prod.mk.injEq] at hin
    cases e <;> simp [EStateM.bind, EStateM.modifyGet, throw, throwThe, MonadExceptOf.throw, EStateM.throw,
      EStateM.Backtrackable.restore, EStateM.dummyRestore, hin]

/-! ### a small Hoare logic (panics abort the case and are not constrained) -/

/-- from `P`: a normal return satisfies `R`, an `Err` leaves a state satisfying `E` -/
def Hoare {α} (P : St → Prop) (x : M α) (R : α → St → Prop) (E : St → Prop) : Prop :=
  ∀ s, P s → match x s with
    | .ok a s' => R a s'
    | .error (.err _) s' => E s'
    | .error (.panic _) _ => True

theorem hoare_bind {α β} {P : St → Prop} {x : M α} {f : α → M β} {Q : β → St → Prop} {E : St → Prop}
    (R : α → St → Prop) (hx : Hoare P x R E) (hf : ∀ a, Hoare (R a) (f a) Q E) : Hoare P (x >>= f) Q E := by
  intro s hs
  have h1 := hx s hs
  simp only [bind, EStateM.bind]
  cases hxs : x s with
  | ok a s' => rw [hxs] at h1; exact hf a s' h1
  | error e s' => rw [hxs] at h1; cases e <;> simp at h1 ⊢ <;> exact h1

theorem hoare_pure {α} {P : St → Prop} (a : α) {R : α → St → Prop} {E : St → Prop} (h : ∀ s, P s → R a s) :
    Hoare P (pure a : M α) R E := fun s hs => h s hs

theorem hoare_modify {P : St → Prop} (f : St → St) {R : Unit → St → Prop} {E : St → Prop}
    (h : ∀ s, P s → R () (f s)) : Hoare P (modify f : M Unit) R E := fun s hs => h s hs

theorem hoare_get {P : St → Prop} {E : St → Prop} : Hoare P (MonadState.get : M St) (fun a s => P s ∧ a = s) E :=
  fun _ hs => ⟨hs, rfl⟩

theorem hoare_of_keeps {α} {x : M α} {P : St → Prop} (h : Keeps x P) : Hoare P x (fun _ => P) P := by
  intro s hs
  have := h.h s hs
  simp only [after] at this
  cases hxs : x s with
  | ok a s' => rw [hxs] at this; exact this
  | error e s' => rw [hxs] at this; cases e <;> simp [this]

theorem hoare_conseq {α} {P P' : St → Prop} {x : M α} {R R' : α → St → Prop} {E E' : St → Prop}
    (h : Hoare P x R E) (hp : ∀ s, P' s → P s) (hr : ∀ a s, R a s → R' a s) (he : ∀ s, E s → E' s) :
    Hoare P' x R' E' := by
  intro s hs
  have := h s (hp s hs)
  cases hxs : x s with
  | ok a s' => rw [hxs] at this; exact hr a s' this
  | error e s' =>
    rw [hxs] at this
    cases e with
    | err e => exact he s' this
    | panic p => trivial

/-- `catchErr` turns an `Err` into a value: nothing escapes but a panic -/
theorem hoare_catchErr {α} {P : St → Prop} {x : M α} {R : α → St → Prop} {E E' : St → Prop}
    (h : Hoare P x R E) :
    Hoare P (catchErr x) (fun r s => match r with | .ok a => R a s | .error _ => E s) E' := by
  intro s hs
  have := h s hs
  simp only [catchErr, tryCatch, tryCatchThe, MonadExceptOf.tryCatch, EStateM.tryCatch, bind, EStateM.bind, pure, EStateM.pure]
  cases hxs : x s with
  | ok a s' => rw [hxs] at this; simpa using this
  | error e s' =>
    rw [hxs] at this
    cases e with
    | err e => simpa [EStateM.Backtrackable.restore, EStateM.dummyRestore, EStateM.pure] using this
    | panic p => simp [throw, throwThe, MonadExceptOf.throw, EStateM.throw, EStateM.Backtrackable.restore, EStateM.dummyRestore]

end Verif.Inv.Ctl

/-! ### one event, decomposed (`processOne` = prologue · `processEvents` · `poTail`, by `rfl`) -/

namespace Verif.Loop
open Verif.Token Verif.Slots Verif.Wheel Verif.Kernel

def poApply (k : Nat) (reg : Tok) (r : Except Err PA) (p : PA) : M Unit := do
  match r with
  | .error e => throwErr e
  | .ok ret0 =>
    let ret := resolve ret0 p
    match ret with
    | .Reregister => do let _ ← dReregister k reg
    | .Disable => do let _ ← dUnregister k reg
    | .Remove =>
      if (Slots.get (← get).slots reg).isSome then
        modify fun s => { s with slots := setOcc s.slots reg.id none }
    | .Continue => pure ()

def poTail (k : Nat) (reg : Tok) (r : Except Err PA) : M (Option Err) := do
  let p := (← get).pending
  modify fun s => { s with pending := .Continue }
  let outcome ← catchErr (poApply k reg r p)
  let gone := match Slots.get (← get).slots reg with
    | some sl => sl.occ.isNone
    | none => true
  if gone then do let _ ← catchErr (dUnregister k reg)
  modify fun s => { s with inflight := none }
  maybeDrop k
  match outcome with
  | .ok _ => pure none
  | .error e => pure (some e)

theorem processOne_eq (ev : Event) :
    processOne ev = (do
      match slotDisp (← get) (forgetSub ev.key) with
      | none => pure none
      | some k =>
        modify fun s => { s with inflight := some k }
        let r ← catchErr (processEvents k ev)
        poTail k (forgetSub ev.key) r) := by
  rfl
end Verif.Loop

namespace Verif.Inv.Ctl
open Verif.Loop Verif.Inv Verif.Token Verif.Kernel

theorem frame_poApply (k : Nat) (reg : Tok) (r : Except Err PA) (p : PA) : Frame (poApply k reg r p) := by
  unfold poApply; intro c; repeat (first | frame_step | dsimp only)

theorem hoare_poEnd (k : Nat) (outcome : Except Err Unit) :
    Hoare (Top (some k))
      (do modify fun s => { s with inflight := none }
          maybeDrop k
          match outcome with
          | .ok _ => pure none
          | .error e => pure (some e) : M (Option Err))
      (fun _ => Top none) (Top none) := by
  apply hoare_bind (fun _ => Top none)
  · apply hoare_modify
    intro s hs
    have h' : ctl s = (.Continue, none, some k) := hs
    simp only [ctl, Prod.mk.injEq] at h'
    show ctl _ = _
    simp only [ctl, h'.1, h'.2.1]
  intro _
  apply hoare_bind (fun _ => Top none) (hoare_of_keeps (frame_maybeDrop k _))
  intro _
  split <;> exact hoare_pure _ (fun _ h => h)

theorem hoare_poTail (k : Nat) (reg : Tok) (r : Except Err PA) :
    Hoare (fun s => s.running = none ∧ s.inflight = some k) (poTail k reg r) (fun _ => Top none) (Top none) := by
  unfold poTail
  apply hoare_bind (fun a s => (s.running = none ∧ s.inflight = some k) ∧ a = s) hoare_get
  intro s0
  apply hoare_bind (fun _ => Top (some k))
  · apply hoare_modify
    intro s ⟨⟨hr, hi⟩, _⟩
    show ctl _ = _
    simp only [ctl, hr, hi]
  intro _
  apply hoare_bind (fun _ => Top (some k))
  · exact hoare_conseq (hoare_catchErr (E' := Top none) (hoare_of_keeps (frame_poApply k reg r _ _))) (fun _ h => h)
      (fun a s h => by cases a <;> exact h) (fun _ h => h)
  intro outcome
  apply hoare_bind (fun a s => Top (some k) s ∧ a = s) hoare_get
  intro s1
  dsimp only
  generalize (match Slots.get s1.slots reg with | some sl => sl.occ.isNone | none => true) = gone
  cases gone
  · simp only [Bool.false_eq_true, if_false]
    exact hoare_conseq (hoare_poEnd k outcome) (fun _ h => h.1) (fun _ _ h => h) (fun _ h => h)
  · simp only [if_true]
    apply hoare_bind (fun _ => Top (some k))
    · exact hoare_conseq (hoare_catchErr (E' := Top none) (hoare_of_keeps (frame_dUnregister k reg _))) (fun _ h => h.1)
        (fun a s h => by cases a <;> exact h) (fun _ h => h)
    intro _
    exact hoare_poEnd k outcome
theorem hoare_processEvents (k : Nat) (ev : Event) (i : Option Nat) :
    Hoare (fun s => s.inflight = i) (processEvents k ev) (fun _ s => s.running = none ∧ s.inflight = i)
      (fun s => s.running = none ∧ s.inflight = i) := by
  intro s hs
  have := processEvents_ends k ev s
  cases h : processEvents k ev s with
  | ok a s' => rw [h] at this; simpa [hs] using this
  | error e s' =>
    rw [h] at this
    cases e with
    | err e => simpa [hs] using this
    | panic p => trivial

/-- **C09, whole loop**: whatever one event's processing does — callbacks issuing any operations, errors, deferred
    requests, removal, slot reuse — when the loop moves on to the next event the deferred-action cell is empty and
    no dispatcher is borrowed or held. -/
theorem hoare_processOne (ev : Event) : Hoare (Top none) (processOne ev) (fun _ => Top none) (Top none) := by
  rw [processOne_eq]
  apply hoare_bind (fun a s => Top none s ∧ a = s) hoare_get
  intro s0
  split
  · exact hoare_pure _ (fun _ h => h.1)
  · rename_i k _
    apply hoare_bind (fun _ s => s.inflight = some k)
    · apply hoare_modify; intro s _; rfl
    intro _
    apply hoare_bind (fun _ s => s.running = none ∧ s.inflight = some k)
    · exact hoare_conseq (hoare_catchErr (E' := Top none) (hoare_processEvents k ev (some k))) (fun _ h => h)
        (fun a s h => by cases a <;> exact h) (fun _ h => h)
    intro r
    exact hoare_poTail k _ r

theorem hoare_batchLoop (l : List Event) (first : Option Err) :
    Hoare (Top none) (batchLoop l first) (fun _ => Top none) (Top none) := by
  induction l generalizing first with
  | nil => unfold batchLoop; exact hoare_pure _ (fun _ h => h)
  | cons ev rest ih =>
    unfold batchLoop
    apply hoare_bind (fun _ => Top none) (hoare_processOne ev)
    intro e
    exact ih _
end Verif.Inv.Ctl

namespace Verif.Inv.Ctl
open Verif.Loop Verif.Inv Verif.Token Verif.Kernel

/-! ### a whole dispatch, a whole operation, a whole history -/

theorem frame_beforeSleep (tok : Tok) : Frame (beforeSleep tok) := by unfold beforeSleep; frame
macro_rules | `(tactic| frame_lemma) => `(tactic| with_reducible exact frame_beforeSleep _ _)
theorem frame_beforeHandle (evs : List Event) (tok : Tok) : Frame (beforeHandle evs tok) := by unfold beforeHandle; frame
macro_rules | `(tactic| frame_lemma) => `(tactic| with_reducible exact frame_beforeHandle _ _ _)

/-- a statement that leaves the control cells alone, in front of the rest -/
macro "htop_step" : tactic => `(tactic| first
  | exact hoare_pure _ (fun _ h => h)
  | (refine hoare_bind (fun _ => Top none) (hoare_of_keeps ?k) (fun _ => ?rest); case k => (repeat frame_step))
  | split
  | dsimp only)

theorem hoare_throwErr {α} {P : St → Prop} (e : Err) {R : α → St → Prop} {E : St → Prop} (h : ∀ s, P s → E s) :
    Hoare P (throwErr e : M α) R E := fun s hs => h s hs

theorem hoare_dispatchEvents : Hoare (Top none) dispatchEvents (fun _ => Top none) (Top none) := by
  unfold dispatchEvents
  repeat htop_step
  refine hoare_bind (fun _ => Top none) (hoare_batchLoop _ _) (fun r => ?_)
  split
  · exact hoare_throwErr _ (fun _ h => h)
  · exact hoare_pure _ (fun _ h => h)

theorem keeps_top_runIdle (p : Nat × Nat) : Keeps (runIdle p) (Top none) := by
  unfold runIdle; repeat (first | exact keeps_top_execC _ _ | frame_step)

theorem keeps_top_dispatchIdles : Keeps dispatchIdles (Top none) := by
  unfold dispatchIdles; repeat (first | exact keeps_top_runIdle _ | frame_step)

theorem hoare_dispatch : Hoare (Top none) dispatch (fun _ => Top none) (Top none) := by
  unfold dispatch
  htop_step
  refine hoare_bind (fun _ => Top none) ?_ (fun r => ?_)
  · exact hoare_conseq (hoare_catchErr (E' := Top none) hoare_dispatchEvents) (fun _ h => h)
      (fun a s h => by cases a <;> exact h) (fun _ h => h)
  split
  · refine hoare_bind (fun _ => Top none) (hoare_of_keeps keeps_top_dispatchIdles) (fun _ => ?_)
    exact hoare_of_keeps (by repeat frame_step)
  · exact hoare_of_keeps (by repeat frame_step)

theorem frame_snapshot : Frame snapshot := by unfold snapshot; frame

theorem hoare_execTop (o : Op) : Hoare (Top none) (execTop o) (fun _ => Top none) (Top none) := by
  cases o
  case script k n sc => unfold execTop; exact hoare_of_keeps (by repeat frame_step)
  case idleScript i sc => unfold execTop; exact hoare_of_keeps (by repeat frame_step)
  case c o =>
    unfold execTop
    refine hoare_bind (fun _ => Top none) (hoare_of_keeps (keeps_top_execC o none)) (fun _ => ?_)
    exact hoare_of_keeps (frame_snapshot _)
  case dispatch =>
    unfold execTop
    htop_step
    refine hoare_bind (fun _ => Top none) hoare_dispatch (fun _ => ?_)
    exact hoare_of_keeps (frame_snapshot _)

/-- **Between any two top-level operations of any history** (not aborted by a panic): nothing is deferred
    (`pending_action` is `Continue`), no dispatcher is borrowed, the loop holds no dispatcher. -/
theorem step_top (s : St) (o : Op) (h : Top none s ∨ s.aborted = true) :
    Top none (step s o) ∨ (step s o).aborted = true := by
  unfold step
  by_cases ha : s.aborted = true
  · rw [if_pos ha]; exact Or.inr ha
  · rw [if_neg ha]
    have hs : Top none s := by cases h with | inl h => exact h | inr h => exact absurd h ha
    have := hoare_execTop o s hs
    cases hx : execTop o s with
    | ok a s' => rw [hx] at this; exact Or.inl this
    | error e s' =>
      rw [hx] at this
      cases e with
      | err e => exact Or.inl this
      | panic p => exact Or.inr rfl

theorem run_top (ops : List Op) : Top none (run ops) ∨ (run ops).aborted = true := by
  unfold run
  have : ∀ (l : List Op) (s : St), (Top none s ∨ s.aborted = true) →
      (Top none (l.foldl step s) ∨ (l.foldl step s).aborted = true) := by
    intro l
    induction l with
    | nil => intro s h; exact h
    | cons o l ih => intro s h; exact ih _ (step_top s o h)
  exact this ops {} (Or.inl rfl)

end Verif.Inv.Ctl
