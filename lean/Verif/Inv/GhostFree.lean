/-
C16, over the whole model: the kernel's poller table holds no ghost — every fd registered in it belongs to a live
fd-backed source object that holds its poller reference (a `Generic` that registered and has neither unregistered nor
been dropped) — after every history: failed registrations with or without roll-back, failed unregistrations, sources
removed from inside callbacks, dropped dispatchers, finding F15's shared fds included.
-/
import Verif.Inv.OwnInv

namespace Verif.Inv.GhostFree
open Verif.Loop Verif.Inv Verif.Kernel Verif.Slots Verif.Wheel Verif.Token Verif.Inv.TokInv Verif.Inv.OwnInv

/-- what the invariant reads of a sub-source: its fd and whether it holds the poller -/
def gpOf (src : Src) : List (Nat × Bool) := src.gens.map fun g => (g.fd, g.poller)

/-- per source object, the fds of its sub-sources and whether each holds the poller -/
def gp (s : St) : Nat → Option (List (Nat × Bool)) := fun k => (alookup s.srcs k).map gpOf

abbrev GMap := Nat → Option (List (Nat × Bool))

/-- the fds in the kernel's table, and who holds what -/
def prG (s : St) : List Nat × GMap := (s.k.ep.map (·.fd), gp s)

/-- some live sub-source with this fd holds the poller -/
def Owned (g : GMap) (fd : Nat) : Prop := ∃ k l, g k = some l ∧ (fd, true) ∈ l

def GFP (c : List Nat × GMap) : Prop := ∀ fd ∈ c.1, Owned c.2 fd
abbrev GF : St → Prop := fun s => GFP (prG s)

abbrev FrameG {α} (x : M α) : Prop := ∀ c, Keeps x (fun s => prG s = c)

theorem keeps_of_frameG {α} {x : M α} (h : FrameG x) (R : List Nat × GMap → Prop) : Keeps x (fun s => R (prG s)) := by
  constructor
  intro s hs
  have h1 : prG (after x s) = prG s := (h (prG s)).h s rfl
  show R (prG (after x s))
  rw [h1]; exact hs

/-! ### lists and the kernel -/

theorem gp_aset (s : St) (k : Nat) (v : Src) :
    gp { s with srcs := aset s.srcs k v } = fun k' => if k' = k then some (gpOf v) else gp s k' := by
  funext k'
  unfold gp
  by_cases h : k' = k
  · subst h; simp [alookup_aset_self]
  · simp [alookup_aset_other _ _ _ _ h, h]

theorem gp_same (s : St) (k : Nat) (l : List (Nat × Bool)) (h : gp s k = some l) :
    (fun k' => if k' = k then some l else gp s k') = gp s := by
  funext k'
  by_cases hk : k' = k
  · subst hk; simp [h]
  · simp [hk]

theorem mapIdx_proj (gens : List Gen) (j : Nat) (f : Gen → Gen) (g : Gen) (hg : gens[j]? = some g) :
    (gens.mapIdx (fun i x => if i == j then f x else x)).map (fun g => (g.fd, g.poller)) =
      (gens.map (fun g => (g.fd, g.poller))).set j ((f g).fd, (f g).poller) := by
  apply List.ext_getElem?
  intro i
  simp only [List.getElem?_map, List.getElem?_mapIdx, List.getElem?_set]
  by_cases hij : i = j
  · subst hij
    have hi : i < gens.length := (List.getElem?_eq_some_iff.mp hg).1
    have he : gens[i] = g := (List.getElem?_eq_some_iff.mp hg).2
    simp [hi, he]
  · have : (j = i) = False := by simp; exact fun e => hij e.symm
    simp [hij, this]

theorem mapIdx_none (gens : List Gen) (j : Nat) (f : Gen → Gen) (hg : gens[j]? = none) :
    gens.mapIdx (fun i x => if i == j then f x else x) = gens := by
  apply List.ext_getElem?
  intro i
  simp only [List.getElem?_mapIdx]
  by_cases hij : i = j
  · subst hij; simp [hg]
  · cases gens[i]? <;> simp [hij]

theorem setCounter_ep (k : Kernel) (fd c : Nat) : (setCounter k fd c).ep = k.ep := rfl
theorem enqueue_ep (k : Kernel) (fd : Nat) : (enqueue k fd).ep = k.ep := by unfold enqueue; split <;> rfl

theorem efdWrite_ep (k : Kernel) (fd n : Nat) : (efdWrite k fd n).ep = k.ep := by
  unfold efdWrite
  simp only
  split
  · split
    · rw [enqueue_ep]; rfl
    · rfl
  · rfl

theorem efdRead_ep (k : Kernel) (fd : Nat) : (efdRead k fd).2.ep = k.ep := by
  unfold efdRead
  simp only
  split
  · rfl
  · split
    · simp only; split
      · rw [enqueue_ep]; rfl
      · rfl
    · rfl

theorem waitLoop_fds (q : List Nat) (k : Kernel) : (waitLoop k q).2.ep.map (·.fd) = k.ep.map (·.fd) := by
  induction q generalizing k with
  | nil => rfl
  | cons fd rest ih =>
    unfold waitLoop
    cases entry? k fd with
    | none => exact ih k
    | some e =>
      simp only
      split
      · simp only
        rw [ih]
        cases e.mode with
        | level => rfl
        | edge => rfl
        | oneshot =>
          simp only [List.map_map]
          apply List.map_congr_left
          intro x _
          simp only [Function.comp]
          split <;> simp_all
      · exact ih k

theorem epWait_fds (k : Kernel) : (epWait k).2.ep.map (·.fd) = k.ep.map (·.fd) := by
  unfold epWait
  exact waitLoop_fds _ _

theorem entry_none_fd (k : Kernel) (fd : Nat) (h : entry? k fd = none) : fd ∉ k.ep.map (·.fd) := by
  intro hm
  obtain ⟨e, he, hfd⟩ := List.mem_map.mp hm
  unfold entry? at h
  have := List.find?_eq_none.mp h e he
  simp [hfd] at this

theorem epAdd_ok (k : Kernel) (e : EpEntry) (k' : Kernel) (h : epAdd k e = .ok k') :
    k'.ep.map (·.fd) = k.ep.map (·.fd) ++ [e.fd] := by
  unfold epAdd at h
  split at h
  · cases h
  · simp only at h
    injection h with h
    subst h
    split
    · rw [enqueue_ep]; simp
    · simp

theorem epMod_ok (k : Kernel) (e : EpEntry) (k' : Kernel) (h : epMod k e = .ok k') :
    k'.ep.map (·.fd) = k.ep.map (·.fd) := by
  unfold epMod at h
  split at h
  · cases h
  · simp only at h
    injection h with h
    subst h
    have : (k.ep.map (fun x => if x.fd == e.fd then e else x)).map (·.fd) = k.ep.map (·.fd) := by
      simp only [List.map_map]
      apply List.map_congr_left
      intro x _
      simp only [Function.comp]
      split
      · rename_i hx; have : x.fd = e.fd := by simpa using hx
        exact this.symm
      · rfl
    split
    · rw [enqueue_ep]; exact this
    · exact this

theorem epDel_ok (k : Kernel) (fd : Nat) (k' : Kernel) (h : epDel k fd = .ok k') :
    k'.ep.map (·.fd) = (k.ep.map (·.fd)).filter (· != fd) := by
  unfold epDel at h
  split at h
  · cases h
  · injection h with h
    subst h
    simp only [List.filter_map]
    rfl

theorem epDel_err (k : Kernel) (fd : Nat) (io : IoErr) (h : epDel k fd = .error io) : fd ∉ k.ep.map (·.fd) := by
  unfold epDel at h
  split at h
  · rename_i hn; exact entry_none_fd k fd hn
  · cases h

/-- dropping a source's sub-sources: nothing is added to the table, and no fd of a sub-source that held the poller stays -/
theorem dropGens_fds (gens : List Gen) (k : Kernel) :
    (∀ fd ∈ (dropGens k gens).ep.map (·.fd), fd ∈ k.ep.map (·.fd)) ∧
    (∀ g ∈ gens, g.poller = true → g.fd ∉ (dropGens k gens).ep.map (·.fd)) := by
  induction gens generalizing k with
  | nil => exact ⟨fun _ h => h, fun g hg => by simp at hg⟩
  | cons g gs ih =>
    unfold dropGens
    by_cases hp : g.poller = true
    · rw [if_pos hp]
      cases hd : epDel k g.fd with
      | ok k' =>
        simp only
        obtain ⟨h1, h2⟩ := ih k'
        have hk' := epDel_ok k g.fd k' hd
        refine ⟨fun fd hfd => ?_, fun g' hg' hp' => ?_⟩
        · have := h1 fd hfd
          rw [hk'] at this
          exact (List.mem_filter.mp this).1
        · cases List.mem_cons.mp hg' with
          | inl e =>
            subst e
            intro hm
            have := h1 _ hm
            rw [hk'] at this
            have := (List.mem_filter.mp this).2
            simp at this
          | inr hin => exact h2 g' hin hp'
      | error io =>
        simp only
        obtain ⟨h1, h2⟩ := ih k
        refine ⟨h1, fun g' hg' hp' => ?_⟩
        cases List.mem_cons.mp hg' with
        | inl e =>
          subst e
          intro hm
          exact epDel_err k _ io hd (h1 _ hm)
        | inr hin => exact h2 g' hin hp'
    · rw [if_neg hp]
      obtain ⟨h1, h2⟩ := ih k
      refine ⟨h1, fun g' hg' hp' => ?_⟩
      cases List.mem_cons.mp hg' with
      | inl e => subst e; exact absurd hp' hp
      | inr hin => exact h2 g' hin hp'

/-! ### ownership under updates of one object -/

theorem owned_update (g : GMap) (k : Nat) (l l' : List (Nat × Bool)) (fd : Nat) (hk : g k = some l)
    (h : Owned g fd) (hkeep : (fd, true) ∈ l → (fd, true) ∈ l') :
    Owned (fun k' => if k' = k then some l' else g k') fd := by
  obtain ⟨k0, l0, hk0, hm⟩ := h
  by_cases e : k0 = k
  · subst e
    rw [hk] at hk0; injection hk0 with e2; subst e2
    exact ⟨k0, l', by simp, hkeep hm⟩
  · exact ⟨k0, l0, by simp [e, hk0], hm⟩

theorem owned_new (g : GMap) (k : Nat) (l' : List (Nat × Bool)) (fd : Nat) (hk : g k = none) (h : Owned g fd) :
    Owned (fun k' => if k' = k then some l' else g k') fd := by
  obtain ⟨k0, l0, hk0, hm⟩ := h
  have e : k0 ≠ k := by intro e; subst e; rw [hk] at hk0; cases hk0
  exact ⟨k0, l0, by simp [e, hk0], hm⟩

theorem mem_set_of_ne {α} (l : List α) (j : Nat) (a x : α) (hx : x ∈ l) (hne : ∀ y, l[j]? = some y → y ≠ x) :
    x ∈ l.set j a := by
  obtain ⟨i, hi, hxi⟩ := List.getElem_of_mem hx
  have hij : i ≠ j := by
    intro e; subst e
    exact hne x (by rw [List.getElem?_eq_getElem hi, hxi]) rfl
  have : (l.set j a)[i]? = some x := by
    rw [List.getElem?_set_ne (Ne.symm hij), List.getElem?_eq_getElem hi, hxi]
  exact List.mem_of_getElem? this

/-! ### what the statements do -/

theorem modGen_run (k j : Nat) (f : Gen → Gen) (s : St) :
    modGen k j f s = match alookup s.srcs k with
      | some v => .ok () { s with srcs := aset s.srcs k { v with gens := v.gens.mapIdx (fun i g => if i == j then f g else g) } }
      | none => .ok () s := by
  unfold modGen
  rw [modSrc_run]
  cases alookup s.srcs k <;> rfl

theorem kAdd_run (e : EpEntry) (s : St) :
    kAdd e s = match epAdd s.k e with
      | .ok k' => .ok () { s with k := k' }
      | .error io => .error (.err (.io io)) s := by
  unfold kAdd
  simp only [bind, EStateM.bind, MonadState.get, getThe, MonadStateOf.get, EStateM.get]
  cases epAdd s.k e <;> rfl

theorem kMod_run (e : EpEntry) (s : St) :
    kMod e s = match epMod s.k e with
      | .ok k' => .ok () { s with k := k' }
      | .error io => .error (.err (.io io)) s := by
  unfold kMod
  simp only [bind, EStateM.bind, MonadState.get, getThe, MonadStateOf.get, EStateM.get]
  cases epMod s.k e <;> rfl

theorem kDel_run (fd : Nat) (s : St) :
    kDel fd s = match epDel s.k fd with
      | .ok k' => .ok () { s with k := k' }
      | .error io => .error (.err (.io io)) s := by
  unfold kDel
  simp only [bind, EStateM.bind, MonadState.get, getThe, MonadStateOf.get, EStateM.get]
  cases epDel s.k fd <;> rfl

theorem fg_modSrc (k : Nat) (f : Src → Src) (hf : ∀ v, gpOf (f v) = gpOf v) : FrameG (modSrc k f) := by
  intro c
  constructor
  intro s hs
  unfold after
  rw [modSrc_run]
  cases hk : alookup s.srcs k with
  | none => exact hs
  | some v =>
    show prG { s with srcs := aset s.srcs k (f v) } = c
    rw [← hs]
    show (s.k.ep.map (·.fd), gp { s with srcs := aset s.srcs k (f v) }) = (s.k.ep.map (·.fd), gp s)
    rw [gp_aset s k (f v), hf v, gp_same s k (gpOf v) (by simp [gp, hk])]

theorem fg_kMod (e : EpEntry) : FrameG (kMod e) := by
  intro c
  constructor
  intro s hs
  unfold after
  rw [kMod_run]
  cases h : epMod s.k e with
  | ok k' =>
    show prG { s with k := k' } = c
    rw [← hs]
    show (k'.ep.map (·.fd), gp s) = (s.k.ep.map (·.fd), gp s)
    rw [epMod_ok s.k e k' h]
  | error io => exact hs

theorem fg_kWrite (fd n : Nat) : FrameG (kWrite fd n) := by
  intro c
  unfold kWrite
  apply keeps_modify
  intro s hs
  rw [← hs]
  show ((efdWrite s.k fd n).ep.map (·.fd), gp s) = _
  rw [efdWrite_ep]; rfl

theorem fg_kRead (fd : Nat) : FrameG (kRead fd) := by
  intro c
  constructor
  intro s hs
  rw [← hs]
  show prG (after (kRead fd) s) = prG s
  have : after (kRead fd) s = { s with k := (efdRead s.k fd).2 } := rfl
  rw [this]
  show (((efdRead s.k fd).2).ep.map (·.fd), gp s) = _
  rw [efdRead_ep]; rfl

theorem getGen_run (k j : Nat) (s : St) : getGen? k j s = .ok ((alookup s.srcs k).bind (·.gens[j]?)) s := by
  unfold getGen? getSrc?
  simp only [bind, EStateM.bind, MonadState.get, getThe, MonadStateOf.get, EStateM.get, pure, EStateM.pure]
  cases alookup s.srcs k <;> rfl

open Verif.Inv.Ctl in
theorem hoare_getGen (k j : Nat) (P : St → Prop) {E : St → Prop} :
    Hoare P (getGen? k j) (fun a s => P s ∧ a = (alookup s.srcs k).bind (·.gens[j]?)) E := by
  intro s hs
  rw [getGen_run]
  exact ⟨hs, rfl⟩

theorem fg_getGen (k j : Nat) : FrameG (getGen? k j) := by
  intro c; constructor; intro s hs
  unfold after; rw [getGen_run]; exact hs

theorem fg_takeToken (f : Factory) : FrameG (takeToken f) := by
  intro c; unfold takeToken; split
  · exact keeps_pure _ _
  · exact keeps_throw _ _

theorem bind_gens (s : St) (k j : Nat) (g : Gen) (h : (alookup s.srcs k).bind (·.gens[j]?) = some g) :
    ∃ v, alookup s.srcs k = some v ∧ v.gens[j]? = some g := by
  cases hv : alookup s.srcs k with
  | none => simp [hv] at h
  | some v => exact ⟨v, rfl, by simpa [hv] using h⟩

theorem mem_set_self {α} (l : List α) (j : Nat) (a : α) (hj : j < l.length) : a ∈ l.set j a := by
  have : (l.set j a)[j]? = some a := by simp [hj]
  exact List.mem_of_getElem? this

/-- what `modGen` does to the map, when the sub-source exists -/
theorem gp_modGen (s : St) (k j : Nat) (f : Gen → Gen) (v : Src) (g : Gen) (hv : alookup s.srcs k = some v)
    (hg : v.gens[j]? = some g) :
    gp { s with srcs := aset s.srcs k { v with gens := v.gens.mapIdx (fun i x => if i == j then f x else x) } } =
      fun k' => if k' = k then some ((gpOf v).set j ((f g).fd, (f g).poller)) else gp s k' := by
  rw [gp_aset]
  funext k'
  by_cases h : k' = k
  · simp only [h, if_true]
    congr 1
    exact mapIdx_proj v.gens j f g hg
  · simp [h]

open Verif.Inv.Ctl in
theorem gf_genRegister (k j : Nat) (f : Factory) : KeepsI (genRegister k j f) GF := by
  constructor
  unfold genRegister
  apply hoare_bind (fun _ => GF) (hoare_of_keeps (keeps_of_frameG (fg_takeToken f) GFP))
  intro p
  obtain ⟨t, f'⟩ := p
  simp only
  apply hoare_bind _ (hoare_getGen k j GF)
  intro o
  cases o with
  | none => exact hoare_pure _ (fun _ h => h.1)
  | some g =>
    simp only
    apply hoare_bind (fun _ s => (∀ fd ∈ s.k.ep.map (·.fd), fd = g.fd ∨ Owned (gp s) fd) ∧
        (alookup s.srcs k).bind (·.gens[j]?) = some g)
    · intro s ⟨hgf, hg⟩
      rw [kAdd_run]
      cases h : epAdd s.k { fd := g.fd, key := t, r := g.r, w := g.w, mode := g.mode } with
      | ok k' =>
        refine ⟨fun fd hfd => ?_, hg.symm⟩
        have hfd' : fd ∈ k'.ep.map (·.fd) := hfd
        rw [epAdd_ok _ _ _ h] at hfd'
        cases List.mem_append.mp hfd' with
        | inl ho => exact Or.inr (hgf fd ho)
        | inr hn => simp at hn; exact Or.inl hn
      | error io => exact hgf
    intro _
    apply hoare_bind (fun _ => GF)
    · intro s ⟨hm, hg⟩
      obtain ⟨v, hv, hgj⟩ := bind_gens s k j g hg
      rw [modGen_run, hv]
      show GFP (s.k.ep.map (·.fd), gp { s with srcs := aset s.srcs k _ })
      rw [gp_modGen s k j _ v g hv hgj]
      have hj : j < (gpOf v).length := by
        have := (List.getElem?_eq_some_iff.mp hgj).1
        simpa [gpOf] using this
      intro fd hfd
      cases hm fd hfd with
      | inl e =>
        subst e
        exact ⟨k, _, by simp, mem_set_self _ _ _ hj⟩
      | inr ho =>
        apply owned_update (gp s) k (gpOf v) _ fd (by simp [gp, hv]) ho
        intro hmem
        by_cases e : fd = g.fd
        · subst e; exact mem_set_self _ _ _ hj
        · apply mem_set_of_ne _ _ _ _ hmem
          intro y hy hyx
          have : (gpOf v)[j]? = some (g.fd, g.poller) := by simp [gpOf, hgj]
          rw [this] at hy
          injection hy with hy
          rw [← hy] at hyx
          injection hyx with h1 _
          exact e h1.symm
    · intro _
      exact hoare_pure _ (fun _ h => h)

theorem fg_modGen (k j : Nat) (f : Gen → Gen) (hf : ∀ g, (f g).fd = g.fd ∧ (f g).poller = g.poller) : FrameG (modGen k j f) := by
  unfold modGen
  apply fg_modSrc
  intro v
  show (v.gens.mapIdx (fun i g => if i == j then f g else g)).map (fun g => (g.fd, g.poller)) = v.gens.map (fun g => (g.fd, g.poller))
  cases hg : v.gens[j]? with
  | none => rw [mapIdx_none v.gens j f hg]
  | some g =>
    rw [mapIdx_proj v.gens j f g hg, (hf g).1, (hf g).2]
    apply List.ext_getElem?
    intro i
    simp only [List.getElem?_set, List.getElem?_map]
    by_cases e : j = i
    · subst e; simp [hg]
      have := (List.getElem?_eq_some_iff.mp hg).1
      simp [this]
    · simp [e]

theorem fg_genReregister (k j : Nat) (f : Factory) : FrameG (genReregister k j f) := by
  unfold genReregister
  intro c
  apply keeps_bind _ _ _ (fg_takeToken f c)
  intro p
  apply keeps_bind _ _ _ (fg_getGen k j c)
  intro o
  split
  · exact keeps_pure _ _
  · apply keeps_bind _ _ _ (fg_kMod _ c)
    intro _
    apply keeps_bind _ _ _ (fg_modGen k j (fun g => { g with token := some p.1 }) (fun g => ⟨rfl, rfl⟩) c)
    intro _
    exact keeps_pure _ _

open Verif.Inv.Ctl in
theorem gf_genUnregister (k j : Nat) : KeepsI (genUnregister k j) GF := by
  constructor
  unfold genUnregister
  apply hoare_bind _ (hoare_getGen k j GF)
  intro o
  cases o with
  | none => exact hoare_pure _ (fun _ h => h.1)
  | some g =>
    simp only
    apply hoare_bind (fun _ s => GF s ∧ g.fd ∉ s.k.ep.map (·.fd) ∧ (alookup s.srcs k).bind (·.gens[j]?) = some g)
    · intro s ⟨hgf, hg⟩
      rw [kDel_run]
      cases h : epDel s.k g.fd with
      | ok k' =>
        have hk' := epDel_ok s.k g.fd k' h
        refine ⟨fun fd hfd => ?_, ?_, hg.symm⟩
        · have hfd' : fd ∈ k'.ep.map (·.fd) := hfd
          rw [hk'] at hfd'
          exact hgf fd (List.mem_filter.mp hfd').1
        · show g.fd ∉ k'.ep.map (·.fd)
          rw [hk']
          intro hm
          have := (List.mem_filter.mp hm).2
          simp at this
      | error io => exact hgf
    intro _
    intro s ⟨hgf, hno, hg⟩
    obtain ⟨v, hv, hgj⟩ := bind_gens s k j g hg
    rw [modGen_run, hv]
    show GFP (s.k.ep.map (·.fd), gp { s with srcs := aset s.srcs k _ })
    rw [gp_modGen s k j _ v g hv hgj]
    intro fd hfd
    have hne : fd ≠ g.fd := fun e => hno (e ▸ hfd)
    apply owned_update (gp s) k (gpOf v) _ fd (by simp [gp, hv]) (hgf fd hfd)
    intro hmem
    apply mem_set_of_ne _ _ _ _ hmem
    intro y hy hyx
    have : (gpOf v)[j]? = some (g.fd, g.poller) := by simp [gpOf, hgj]
    rw [this] at hy
    injection hy with hy
    rw [← hy] at hyx
    injection hyx with h1 _
    exact hne h1.symm

open Verif.Inv.Ctl in
theorem gf_maybeDrop (k : Nat) : KeepsI (maybeDrop k) GF := by
  constructor
  unfold maybeDrop
  apply hoare_bind (fun a s => GF s ∧ a = s) hoare_get
  intro s0
  cases hv : alookup s0.srcs k with
  | none => exact hoare_pure _ (fun _ h => h.1)
  | some src =>
    simp only
    split
    · exact hoare_pure _ (fun _ h => h.1)
    · apply hoare_bind (fun _ s => GF s ∧ s.srcs = s0.srcs)
      · intro s ⟨h1, h2⟩
        subst h2
        exact ⟨h1, rfl⟩
      intro _
      apply hoare_bind (fun _ s => GF s ∧ s.srcs = s0.srcs ∧ ∀ g ∈ src.gens, g.poller = true → g.fd ∉ s.k.ep.map (·.fd))
      · apply hoare_modify
        intro s ⟨h1, h2⟩
        obtain ⟨d1, d2⟩ := dropGens_fds src.gens s.k
        exact ⟨fun fd hfd => h1 fd (d1 fd hfd), h2, d2⟩
      intro _
      intro s ⟨h1, h2, h3⟩
      have hv' : alookup s.srcs k = some src := by rw [h2]; exact hv
      rw [modSrc_run, hv']
      show GFP (s.k.ep.map (·.fd), gp { s with srcs := aset s.srcs k _ })
      rw [gp_aset]
      intro fd hfd
      have hfd' : fd ∈ s.k.ep.map (·.fd) := hfd
      obtain ⟨k0, l0, hk0, hm⟩ := h1 fd hfd'
      have hk0' : gp s k0 = some l0 := hk0
      have e : k0 ≠ k := by
        intro e; subst e
        have : gp s k0 = some (gpOf src) := by simp [gp, hv']
        rw [this] at hk0'; injection hk0' with e2; subst e2
        obtain ⟨g, hg, hgp⟩ := List.mem_map.mp hm
        injection hgp with h1' h2'
        exact h3 g hg h2' (h1' ▸ hfd')
      refine ⟨k0, l0, ?_, hm⟩
      show (if k0 = k then _ else gp s k0) = some l0
      rw [if_neg e]; exact hk0'

/-! ### every statement keeps the table free of ghosts -/

abbrev KeepsG {α} (x : M α) : Prop := KeepsI x GF

syntax "gf_lemma" : tactic
macro_rules | `(tactic| gf_lemma) => `(tactic| fail "no lemma applies")
macro_rules | `(tactic| gf_lemma) => `(tactic| with_reducible exact gf_genRegister _ _ _)
macro_rules | `(tactic| gf_lemma) => `(tactic| with_reducible exact gf_genUnregister _ _)
macro_rules | `(tactic| gf_lemma) => `(tactic| with_reducible exact gf_maybeDrop _)
macro_rules | `(tactic| gf_lemma) => `(tactic| with_reducible exact ki_of_keeps (keeps_of_frameG (fg_genReregister _ _ _) GFP))
macro_rules | `(tactic| gf_lemma) => `(tactic| with_reducible exact ki_of_keeps (keeps_of_frameG (fg_getGen _ _) GFP))
macro_rules | `(tactic| gf_lemma) => `(tactic| with_reducible exact ki_of_keeps (keeps_of_frameG (fg_takeToken _) GFP))
macro_rules | `(tactic| gf_lemma) => `(tactic| with_reducible exact ki_of_keeps (keeps_of_frameG (fg_kWrite _ _) GFP))
macro_rules | `(tactic| gf_lemma) => `(tactic| with_reducible exact ki_of_keeps (keeps_of_frameG (fg_kRead _) GFP))
macro_rules | `(tactic| gf_lemma) => `(tactic| (refine ki_of_keeps (keeps_of_frameG (fg_modSrc _ _ ?_) GFP); intro _; first | rfl | (split <;> rfl)))
macro_rules | `(tactic| gf_lemma) => `(tactic| (refine ki_of_keeps (keeps_of_frameG (fg_modGen _ _ _ ?_) GFP); intro _; exact ⟨rfl, rfl⟩))

macro "gf_step" : tactic => `(tactic| first
  | exact ki_of_keeps (keeps_pure _ _)
  | exact ki_of_keeps (keeps_throw _ _)
  | exact ki_of_keeps (keeps_get _)
  | gf_lemma
  | (refine ki_of_keeps (keeps_modify _ _ ?_); intro s h; exact h)
  | (refine ki_of_keeps (keeps_emit _ _ ?_); intro s h; exact h)
  | (apply ki_bind)
  | (apply ki_catchErr)
  | (apply ki_forEachM)
  | (apply ki_ite)
  | (intro _)
  | split)

macro "gf" : tactic => `(tactic| (repeat gf_step))

theorem gf_getSrc (k : Nat) : KeepsG (getSrc? k) := by unfold getSrc?; gf
macro_rules | `(tactic| gf_lemma) => `(tactic| with_reducible exact gf_getSrc _)

theorem gf_emit (o : Obs) : KeepsG (emit o) := by refine ki_of_keeps (keeps_emit _ _ ?_); intro s h; exact h
macro_rules | `(tactic| gf_lemma) => `(tactic| with_reducible exact gf_emit _)
theorem gf_throwErr {α} (e : Err) : KeepsG (throwErr e : M α) := ki_of_keeps (keeps_throw _ _)
macro_rules | `(tactic| gf_lemma) => `(tactic| with_reducible exact gf_throwErr _)
theorem gf_throwPanic {α} (p : Panic) : KeepsG (throwPanic p : M α) := ki_of_keeps (keeps_throw _ _)
macro_rules | `(tactic| gf_lemma) => `(tactic| with_reducible exact gf_throwPanic _)


theorem gf_customLoop (k : Nat) (kind : RegKind) (fail : Option Nat) (body : Nat → Factory → M Factory)
    (hb : ∀ j f, KeepsG (body j f)) (n j : Nat) (f : Factory) : KeepsG (customLoop k kind fail body n j f) := by
  induction n generalizing j f with
  | zero => unfold customLoop; gf
  | succ n ih =>
    unfold customLoop
    repeat (first | exact ih _ _ | exact hb _ _ | gf_step)

theorem gf_customRollback (k j : Nat) : KeepsG (customRollback k j) := by
  induction j with
  | zero => unfold customRollback; gf
  | succ j ih => unfold customRollback; repeat (first | exact ih | gf_step)
macro_rules | `(tactic| gf_lemma) => `(tactic| with_reducible exact gf_customRollback _ _)

theorem gf_customRegister (k : Nat) (fail : Option Nat) (rb : Bool) (n j : Nat) (f : Factory) :
    KeepsG (customRegister k fail rb n j f) := by
  induction n generalizing j f with
  | zero => unfold customRegister; gf
  | succ n ih => unfold customRegister; repeat (first | exact ih _ _ | gf_step)
macro_rules | `(tactic| gf_lemma) => `(tactic| with_reducible exact gf_customRegister _ _ _ _ _ _)

theorem gf_timerUnregister (k : Nat) : KeepsG (timerUnregister k) := by unfold timerUnregister; gf
macro_rules | `(tactic| gf_lemma) => `(tactic| with_reducible exact gf_timerUnregister _)
theorem gf_timerRegister (k : Nat) (f : Factory) : KeepsG (timerRegister k f) := by unfold timerRegister; gf
macro_rules | `(tactic| gf_lemma) => `(tactic| with_reducible exact gf_timerRegister _ _)

theorem gf_srcRegister (k : Nat) (f : Factory) : KeepsG (srcRegister k f) := by unfold srcRegister; gf
macro_rules | `(tactic| gf_lemma) => `(tactic| with_reducible exact gf_srcRegister _ _)

theorem gf_srcReregister (k : Nat) (f : Factory) : KeepsG (srcReregister k f) := by
  unfold srcReregister
  repeat (first | (apply gf_customLoop; intro j f; exact ki_of_keeps (keeps_of_frameG (fg_genReregister _ _ _) GFP)) | gf_step)
macro_rules | `(tactic| gf_lemma) => `(tactic| with_reducible exact gf_srcReregister _ _)

theorem gf_srcUnregister (k : Nat) : KeepsG (srcUnregister k) := by
  unfold srcUnregister
  repeat (first | (apply gf_customLoop; intro j f; repeat gf_step) | gf_step)
macro_rules | `(tactic| gf_lemma) => `(tactic| with_reducible exact gf_srcUnregister _)

theorem gf_isLife (k : Nat) : KeepsG (isLife k) := by unfold isLife; gf
macro_rules | `(tactic| gf_lemma) => `(tactic| with_reducible exact gf_isLife _)

theorem gf_dRegister (k : Nat) (tok : Tok) : KeepsG (dRegister k tok) := by unfold dRegister; gf
macro_rules | `(tactic| gf_lemma) => `(tactic| with_reducible exact gf_dRegister _ _)
theorem gf_dReregister (k : Nat) (tok : Tok) : KeepsG (dReregister k tok) := by unfold dReregister; gf
macro_rules | `(tactic| gf_lemma) => `(tactic| with_reducible exact gf_dReregister _ _)
theorem gf_dUnregister (k : Nat) (tok : Tok) : KeepsG (dUnregister k tok) := by unfold dUnregister; gf
macro_rules | `(tactic| gf_lemma) => `(tactic| with_reducible exact gf_dUnregister _ _)

theorem gf_userTok (k : Nat) : KeepsG (userTok k) := by unfold userTok; gf
macro_rules | `(tactic| gf_lemma) => `(tactic| with_reducible exact gf_userTok _)
theorem gf_doInsert (k : Nat) (keep : Bool) : KeepsG (doInsert k keep) := by unfold doInsert; gf
macro_rules | `(tactic| gf_lemma) => `(tactic| with_reducible exact gf_doInsert _ _)
theorem gf_doRemove (o : COp) (k : Nat) : KeepsG (doRemove o k) := by unfold doRemove; gf
macro_rules | `(tactic| gf_lemma) => `(tactic| with_reducible exact gf_doRemove _ _)
theorem gf_chanFd (k : Nat) : KeepsG (chanFd k) := by unfold chanFd; gf
macro_rules | `(tactic| gf_lemma) => `(tactic| with_reducible exact gf_chanFd _)


/-! ### user operations, event processing, dispatch: everything keeps the set duplicate-free -/

theorem gf_tokenOp (o : COp) (k : Nat) (body : Nat → Tok → M Unit) (hb : ∀ d t, KeepsG (body d t)) :
    KeepsG (tokenOp o k body) := by
  unfold tokenOp
  repeat (first | exact hb _ _ | gf_step)




/-- a fresh id: nothing in the table can belong to it -/
theorem gf_new (s : St) (k : Nat) (v : Src) (h : GF s) (hk : alookup s.srcs k = none) :
    GF { s with srcs := aset s.srcs k v } := by
  show GFP (s.k.ep.map (·.fd), gp { s with srcs := aset s.srcs k v })
  rw [gp_aset]
  intro fd hfd
  exact owned_new (gp s) k _ fd (by simp [gp, hk]) (h fd hfd)

open Verif.Inv.Ctl in
theorem hoare_setSrc_newg (k : Nat) (v : Src) :
    Hoare (fun s => GF s ∧ alookup s.srcs k = none) (setSrc k v) (fun _ => GF) GF := by
  unfold setSrc
  apply hoare_modify
  intro s ⟨h, hk⟩
  exact gf_new s k v h hk

theorem foldl_setCounter_ep (l : List Nat) (f : Nat → Nat) (k : Kernel) :
    (l.foldl (fun kk j => setCounter kk (f j) 0) k).ep = k.ep := by
  induction l generalizing k with
  | nil => rfl
  | cons a l ih => simp only [List.foldl_cons]; rw [ih]; rfl

open Verif.Inv.Ctl in
theorem hoare_newg (o : COp) (k : Nat) (h : isNew o = some k) :
    Hoare (fun s => GF s ∧ alookup s.srcs k = none) (execC' o) (fun _ => GF) GF := by
  cases o <;> simp only [isNew, Option.some.injEq, reduceCtorEq] at h <;> subst h <;> unfold execC'
  case newPing => exact hoare_setSrc_newg _ _
  case newTimer => exact hoare_setSrc_newg _ _
  case newChan => exact hoare_setSrc_newg _ _
  case newSync => exact hoare_setSrc_newg _ _
  case newGen =>
    apply hoare_bind (fun a s => (GF s ∧ alookup s.srcs _ = none) ∧ a = s) hoare_get
    intro s0
    split
    · exact hoare_conseq (hoare_setSrc_newg _ _) (fun _ h => h.1) (fun _ _ h => h) (fun _ h => h)
    · exact hoare_conseq (hoare_of_keeps (keeps_emit _ _ (fun s (h : GF s) => h))) (fun _ h => h.1.1) (fun _ _ h => h) (fun _ h => h)
  case newCustom k nsub life =>
    apply hoare_bind (fun _ s => GF s ∧ alookup s.srcs _ = none)
    · apply hoare_modify
      intro s ⟨h, hk⟩
      refine ⟨?_, hk⟩
      show GFP ((((List.range nsub).foldl (fun kk j => setCounter kk (1000 * k + j) 0) s.k).ep).map (·.fd), gp s)
      rw [foldl_setCounter_ep (List.range nsub) (fun j => 1000 * k + j)]
      exact h
    · intro _
      exact hoare_setSrc_newg _ _

theorem gf_execCore (o : COp) (h : isNew o = none) : KeepsG (execC' o) := by
  cases o <;> simp only [isNew, reduceCtorEq] at h <;> unfold execC' <;>
    repeat (first | (apply gf_tokenOp; intro d t) | gf_step)

open Verif.Inv.Ctl in
theorem gf_execC (o : COp) : KeepsG (execC o) := by
  unfold execC
  apply ki_bind (by gf)
  intro _
  cases hn : isNew o with
  | none => exact gf_execCore o hn
  | some k =>
    constructor
    simp only
    apply hoare_bind (fun a s => GF s ∧ a = s) hoare_get
    intro s0
    split
    · exact hoare_conseq (hoare_of_keeps (keeps_emit _ _ (fun s (h : GF s) => h))) (fun _ h => h.1) (fun _ _ h => h) (fun _ h => h)
    · rename_i hnone
      apply hoare_bind (fun _ s => GF s ∧ alookup s.srcs k = none)
      · apply hoare_modify
        intro s ⟨hs, he⟩
        subst he
        refine ⟨hs, ?_⟩
        show alookup s0.srcs k = none
        cases hl : alookup s0.srcs k with
        | none => rfl
        | some v => simp [hl] at hnone
      · intro _
        exact hoare_newg o k hn
macro_rules | `(tactic| gf_lemma) => `(tactic| with_reducible exact gf_execC _)

theorem gf_runCb (k : Nat) (p : Payload) : KeepsG (runCb k p) := by unfold runCb; gf
macro_rules | `(tactic| gf_lemma) => `(tactic| with_reducible exact gf_runCb _ _)
theorem gf_retPA (r : Loop.Ret) : KeepsG (retPA r) := by cases r <;> unfold retPA <;> gf
macro_rules | `(tactic| gf_lemma) => `(tactic| with_reducible exact gf_retPA _)
theorem gf_genGate (k j : Nat) (ev : Event) : KeepsG (genGate k j ev) := by unfold genGate; gf
macro_rules | `(tactic| gf_lemma) => `(tactic| with_reducible exact gf_genGate _ _ _)

theorem gf_pingPE {α} (k : Nat) (ev : Event) (body : M α) (hb : KeepsG body) : KeepsG (pingPE k ev body) := by
  unfold pingPE; repeat (first | exact hb | gf_step)

theorem gf_chanDrain (k n : Nat) : KeepsG (chanDrain k n) := by
  induction n with
  | zero => unfold chanDrain; gf
  | succ n ih => unfold chanDrain; repeat (first | exact ih | gf_step)
macro_rules | `(tactic| gf_lemma) => `(tactic| with_reducible exact gf_chanDrain _ _)

theorem gf_customPE (k : Nat) (ev : Event) (n j : Nat) (acc : PA) : KeepsG (customPE k ev n j acc) := by
  induction n generalizing j acc with
  | zero => unfold customPE; gf
  | succ n ih => unfold customPE; repeat (first | exact ih _ _ | gf_step)
macro_rules | `(tactic| gf_lemma) => `(tactic| with_reducible exact gf_customPE _ _ _ _ _)

theorem gf_processEventsInner (k : Nat) (ev : Event) : KeepsG (processEventsInner k ev) := by
  unfold processEventsInner
  repeat (first
    | (apply gf_pingPE; first | exact gf_runCb _ _ | exact gf_chanDrain _ _)
    | gf_step)
macro_rules | `(tactic| gf_lemma) => `(tactic| with_reducible exact gf_processEventsInner _ _)



open Verif.Inv.Ctl in
theorem gf_processEvents (k : Nat) (ev : Event) : KeepsG (processEvents k ev) := by
  constructor
  intro s hs
  have hs1 : GF { s with running := some k, log := s.log ++ [.pe k] } := hs
  have hin := (gf_processEventsInner k ev).h _ hs1
  simp only [processEvents, bind, EStateM.bind, modify, modifyGet, MonadStateOf.modifyGet, EStateM.modifyGet, emit,
    tryCatch, tryCatchThe, MonadExceptOf.tryCatch, EStateM.tryCatch, pure, EStateM.pure]
  cases h : processEventsInner k ev { s with running := some k, log := s.log ++ [.pe k] } with
  | ok a s' =>
    rw [h] at hin
    simp only [EStateM.bind, EStateM.modifyGet, EStateM.pure]
    exact hin
  | error e s' =>
    rw [h] at hin
    cases e with
    | err e =>
      simp only [EStateM.bind, EStateM.modifyGet, throw, throwThe, MonadExceptOf.throw, EStateM.throw,
        EStateM.Backtrackable.restore, EStateM.dummyRestore]
      exact hin
    | panic p =>
      simp [EStateM.bind, EStateM.modifyGet, throw, throwThe, MonadExceptOf.throw, EStateM.throw,
        EStateM.Backtrackable.restore, EStateM.dummyRestore]
macro_rules | `(tactic| gf_lemma) => `(tactic| with_reducible exact gf_processEvents _ _)

theorem gf_beforeSleep (tok : Tok) : KeepsG (beforeSleep tok) := by unfold beforeSleep; gf
macro_rules | `(tactic| gf_lemma) => `(tactic| with_reducible exact gf_beforeSleep _)
theorem gf_beforeHandle (evs : List Event) (tok : Tok) : KeepsG (beforeHandle evs tok) := by unfold beforeHandle; gf
macro_rules | `(tactic| gf_lemma) => `(tactic| with_reducible exact gf_beforeHandle _ _)

theorem gf_processOne (ev : Event) : KeepsG (processOne ev) := by
  unfold processOne; repeat (first | gf_step | dsimp only)
macro_rules | `(tactic| gf_lemma) => `(tactic| with_reducible exact gf_processOne _)

theorem gf_batchLoop (l : List Event) (first : Option Err) : KeepsG (batchLoop l first) := by
  induction l generalizing first with
  | nil => unfold batchLoop; gf
  | cons ev rest ih => unfold batchLoop; repeat (first | exact ih _ | gf_step)
macro_rules | `(tactic| gf_lemma) => `(tactic| with_reducible exact gf_batchLoop _ _)

theorem gf_epWait (s : St) (h : GF s) : GF { s with k := (epWait s.k).2 } := by
  show GFP (((epWait s.k).2).ep.map (·.fd), gp s)
  rw [epWait_fds]; exact h

theorem gf_dispatchEvents : KeepsG dispatchEvents := by
  unfold dispatchEvents
  repeat (first
    | (refine ki_of_keeps (keeps_modify _ _ ?_); intro s h; exact gf_epWait s h)
    | gf_step | dsimp only)
theorem gf_runIdle (p : Nat × Nat) : KeepsG (runIdle p) := by unfold runIdle; gf
macro_rules | `(tactic| gf_lemma) => `(tactic| with_reducible exact gf_runIdle _)
theorem gf_dispatchIdles : KeepsG dispatchIdles := by unfold dispatchIdles; gf
theorem gf_dispatch : KeepsG dispatch := by
  unfold dispatch
  repeat (first | exact gf_dispatchEvents | exact gf_dispatchIdles | gf_step)
theorem gf_snapshot : KeepsG snapshot := by unfold snapshot; gf
theorem gf_execTop (o : Op) : KeepsG (execTop o) := by
  cases o <;> unfold execTop <;> repeat (first | exact gf_dispatch | exact gf_snapshot | gf_step)


theorem gf_step_ok (s : St) (o : Op) (h : GF s ∨ s.aborted = true) : GF (step s o) ∨ (step s o).aborted = true := by
  unfold step
  by_cases ha : s.aborted = true
  · rw [if_pos ha]; exact Or.inr ha
  · rw [if_neg ha]
    have hs : GF s := by cases h with | inl h => exact h | inr h => exact absurd h ha
    have := (gf_execTop o).h s hs
    cases hx : execTop o s with
    | ok a s' => rw [hx] at this; exact Or.inl this
    | error e s' =>
      rw [hx] at this
      cases e with
      | err e => exact Or.inl this
      | panic p => exact Or.inr rfl

theorem run_gf (ops : List Op) : GF (run ops) ∨ (run ops).aborted = true := by
  unfold run
  have : ∀ (l : List Op) (s : St), (GF s ∨ s.aborted = true) → (GF (l.foldl step s) ∨ (l.foldl step s).aborted = true) := by
    intro l
    induction l with
    | nil => intro s h; exact h
    | cons o l ih => intro s h; exact ih _ (gf_step_ok s o h)
  refine this ops {} (Or.inl ?_)
  intro fd hfd
  simp [prG] at hfd

/-- **After every history** that was not aborted by a panic — failed registrations with or without roll-back, failed
    unregistrations, sources removed or disabled from inside callbacks, dispatchers dropped, fds shared between sources
    (finding F15) — every fd in the kernel's poller table belongs to a live sub-source that holds its poller reference:
    the table has no ghost entry. -/
theorem no_ghost_registration (ops : List Op) (hab : (run ops).aborted = false) :
    ∀ e ∈ (run ops).k.ep, ∃ k src g, alookup (run ops).srcs k = some src ∧ g ∈ src.gens ∧ g.fd = e.fd ∧ g.poller = true := by
  intro e he
  have h := (run_gf ops).resolve_right (by simp [hab])
  obtain ⟨k, l, hk, hm⟩ := h e.fd (List.mem_map.mpr ⟨e, he, rfl⟩)
  have hk' : gp (run ops) k = some l := hk
  unfold gp at hk'
  cases hv : alookup (run ops).srcs k with
  | none => simp [hv] at hk'
  | some src =>
    simp [hv] at hk'
    subst hk'
    obtain ⟨g, hg, hgp⟩ := List.mem_map.mp hm
    injection hgp with h1 h2
    exact ⟨k, src, g, hv, hg, h1, h2⟩

/-- … in particular an object that was dropped (`Generic::drop` gave its poller reference back) has left nothing behind:
    an fd in the table whose every sub-source has let go of the poller cannot exist -/
theorem released_fd_not_registered (ops : List Op) (hab : (run ops).aborted = false) (fd : Nat)
    (hrel : ∀ k src g, alookup (run ops).srcs k = some src → g ∈ src.gens → g.fd = fd → g.poller = false) :
    fd ∉ (run ops).k.ep.map (·.fd) := by
  intro hm
  obtain ⟨e, he, hfd⟩ := List.mem_map.mp hm
  obtain ⟨k, src, g, hk, hg, h1, h2⟩ := no_ghost_registration ops hab e he
  have := hrel k src g hk hg (h1.trans hfd)
  rw [h2] at this; cases this

end Verif.Inv.GhostFree
