/- Lemmas about the timer wheel model (`TimerWheel` of `src/sources/timer.rs`). -/
import Verif.Model.Wheel

namespace Verif.Inv.Wheel
open Verif.Wheel

/-- `minIdx` points at an entry whose deadline is minimal -/
theorem minIdx_spec (l : List Entry) (i : Nat) (h : minIdx l = some i) :
    ∃ m, l[i]? = some m ∧ ∀ e ∈ l, m.deadline ≤ e.deadline := by
  induction l generalizing i with
  | nil => simp [minIdx] at h
  | cons e es ih =>
    simp only [minIdx] at h
    cases hm : minIdx es with
    | none =>
      rw [hm] at h; injection h with h; subst h
      cases es with
      | nil => exact ⟨e, rfl, by simp⟩
      | cons x xs =>
        simp only [minIdx] at hm
        cases h2 : minIdx xs with
        | none => simp [h2] at hm
        | some j => simp only [h2] at hm; split at hm <;> (try split at hm) <;> simp at hm
    | some j =>
      rw [hm] at h
      obtain ⟨m, hm1, hm2⟩ := ih j hm
      simp only [hm1] at h
      split at h
      · rename_i hle
        injection h with h; subst h
        refine ⟨e, rfl, ?_⟩
        intro x hx
        cases hx with
        | head => exact Int.le_refl _
        | tail _ hx => exact Int.le_trans hle (hm2 x hx)
      · rename_i hle
        injection h with h; subst h
        refine ⟨m, by simpa using hm1, ?_⟩
        intro x hx
        cases hx with
        | head => omega
        | tail _ hx => exact hm2 x hx

theorem minIdx_none (l : List Entry) (h : minIdx l = none) : l = [] := by
  cases l with
  | nil => rfl
  | cons e es =>
    simp only [minIdx] at h
    cases hm : minIdx es with
    | none => simp [hm] at h
    | some j => simp only [hm] at h; split at h <;> (try split at h) <;> simp at h

/-- never early: `next_expired` only hands out an entry whose deadline has been reached … -/
theorem nextExpired_due (w : Wheel) (now : Int) (e : Entry) (w' : Wheel)
    (h : nextExpired w now = some (e, w')) : e.deadline ≤ now ∧ e ∈ w.heap ∧
      (∀ x ∈ w.heap, e.deadline ≤ x.deadline) ∧ w'.heap.length + 1 = w.heap.length := by
  unfold nextExpired at h
  cases hm : minIdx w.heap with
  | none => simp [hm] at h
  | some i =>
    obtain ⟨m, h1, h2⟩ := minIdx_spec _ _ hm
    simp only [hm, h1] at h
    split at h
    · rename_i hd
      simp only [Option.some.injEq, Prod.mk.injEq] at h
      obtain ⟨rfl, rfl⟩ := h
      have hi : i < w.heap.length := by
        have := List.getElem?_eq_some_iff.mp h1; exact this.1
      refine ⟨hd, List.mem_of_getElem? h1, h2, ?_⟩
      simp [List.length_eraseIdx, hi]; omega
    · simp at h

/-- … and when it hands out nothing, nothing is due: every remaining deadline is in the future -/
theorem nextExpired_none (w : Wheel) (now : Int) (h : nextExpired w now = none) :
    ∀ x ∈ w.heap, now < x.deadline := by
  unfold nextExpired at h
  cases hm : minIdx w.heap with
  | none => rw [minIdx_none _ hm]; simp
  | some i =>
    obtain ⟨m, h1, h2⟩ := minIdx_spec _ _ hm
    simp only [hm, h1] at h
    split at h
    · simp at h
    · rename_i hd
      intro x hx
      have := h2 x hx
      omega

/-- what one `Poll::poll` pops: entries in non-decreasing deadline order, all due, and
    (given enough fuel: the heap length) nothing due is left behind -/
theorem popExpired_spec (w : Wheel) (now : Int) (fuel : Nat) :
    let r := popExpired w now fuel
    (∀ e ∈ r.1, e.deadline ≤ now) ∧ r.1.Pairwise (fun a b => a.deadline ≤ b.deadline) ∧
    (∀ e ∈ r.1, ∀ x ∈ r.2.heap, e.deadline ≤ x.deadline) ∧
    (w.heap.length ≤ fuel → ∀ x ∈ r.2.heap, now < x.deadline) := by
  induction fuel generalizing w with
  | zero =>
    simp only [popExpired]
    refine ⟨by simp, List.Pairwise.nil, by simp, ?_⟩
    intro h x hx
    have : w.heap = [] := List.eq_nil_of_length_eq_zero (by omega)
    simp [this] at hx
  | succ n ih =>
    simp only [popExpired]
    cases hne : nextExpired w now with
    | none =>
      refine ⟨by simp, List.Pairwise.nil, by simp, ?_⟩
      intro _; exact nextExpired_none w now hne
    | some p =>
      obtain ⟨e, w'⟩ := p
      obtain ⟨hd, hmem, hmin, hlen⟩ := nextExpired_due w now e w' hne
      have ih' := ih w'
      simp only at ih' ⊢
      obtain ⟨i1, i2, i3, i4⟩ := ih'
      -- entries of w' come from w
      have hsub : ∀ x ∈ w'.heap, x ∈ w.heap := by
        unfold nextExpired at hne
        cases hm : minIdx w.heap with
        | none => simp [hm] at hne
        | some i =>
          cases hg : w.heap[i]? with
          | none => simp [hm, hg] at hne
          | some m =>
            simp only [hm, hg] at hne
            split at hne
            · simp only [Option.some.injEq, Prod.mk.injEq] at hne
              obtain ⟨_, rfl⟩ := hne
              intro x hx; exact List.mem_of_mem_eraseIdx hx
            · simp at hne
      have hpop_sub : ∀ x ∈ (popExpired w' now n).1, x ∈ w'.heap := by
        intro x hx
        -- by a separate induction: popped entries are heap entries
        have key : ∀ (k : Nat) (u : Wheel), ∀ y ∈ (popExpired u now k).1, y ∈ u.heap := by
          intro k
          induction k with
          | zero => intro u y hy; simp [popExpired] at hy
          | succ k ihk =>
            intro u y hy
            simp only [popExpired] at hy
            cases hq : nextExpired u now with
            | none => simp [hq] at hy
            | some q =>
              obtain ⟨e2, u2⟩ := q
              simp only [hq, List.mem_cons] at hy
              obtain ⟨_, hm2, _, _⟩ := nextExpired_due u now e2 u2 hq
              cases hy with
              | inl h => rw [h]; exact hm2
              | inr h =>
                have := ihk u2 y h
                unfold nextExpired at hq
                cases hm : minIdx u.heap with
                | none => simp [hm] at hq
                | some i =>
                  cases hg : u.heap[i]? with
                  | none => simp [hm, hg] at hq
                  | some m =>
                    simp only [hm, hg] at hq
                    split at hq
                    · simp only [Option.some.injEq, Prod.mk.injEq] at hq
                      obtain ⟨_, rfl⟩ := hq
                      exact List.mem_of_mem_eraseIdx this
                    · simp at hq
        exact key n w' x hx
      refine ⟨?_, ?_, ?_, ?_⟩
      · intro x hx
        simp only [List.mem_cons] at hx
        cases hx with
        | inl h => rw [h]; exact hd
        | inr h => exact i1 x h
      · apply List.Pairwise.cons _ i2
        intro x hx
        exact hmin x (hsub x (hpop_sub x hx))
      · intro x hx y hy
        simp only [List.mem_cons] at hx
        cases hx with
        | inl h =>
          rw [h]
          -- y is in the final heap, which is a sub-multiset of w'.heap ⊆ w.heap
          have key2 : ∀ (k : Nat) (u : Wheel), ∀ z ∈ (popExpired u now k).2.heap, z ∈ u.heap := by
            intro k
            induction k with
            | zero => intro u z hz; simpa [popExpired] using hz
            | succ k ihk =>
              intro u z hz
              simp only [popExpired] at hz
              cases hq : nextExpired u now with
              | none => simpa [hq] using hz
              | some q =>
                obtain ⟨e2, u2⟩ := q
                simp only [hq] at hz
                have := ihk u2 z hz
                unfold nextExpired at hq
                cases hm : minIdx u.heap with
                | none => simp [hm] at hq
                | some i =>
                  cases hg : u.heap[i]? with
                  | none => simp [hm, hg] at hq
                  | some m =>
                    simp only [hm, hg] at hq
                    split at hq
                    · simp only [Option.some.injEq, Prod.mk.injEq] at hq
                      obtain ⟨_, rfl⟩ := hq
                      exact List.mem_of_mem_eraseIdx this
                    · simp at hq
          exact hmin y (hsub y (key2 n w' y hy))
        | inr h => exact i3 x h y hy
      · intro hl
        exact i4 (by omega)

/-- `insert` hands out a fresh counter each time -/
theorem insert_counter (w : Wheel) (d : Int) (t : Verif.Token.Tok) :
    (insert w d t).2 = w.counter ∧ (insert w d t).1.counter = w.counter + 1 ∧
    (insert w d t).1.heap = w.heap ++ [⟨d, t, w.counter⟩] := ⟨rfl, rfl, rfl⟩

/-- after `cancel c` no entry with counter `c` is left, provided counters are unique in the heap
    (true of every wheel built with `insert`; `insert_reuse` re-adds a popped counter) -/
theorem cancel_removes (w : Wheel) (c : Nat)
    (huniq : w.heap.Pairwise (fun a b => a.counter ≠ b.counter)) :
    ∀ x ∈ (cancel w c).heap, x.counter ≠ c := by
  cases hm : minIdx w.heap with
  | none =>
    have hnil := minIdx_none _ hm
    simp only [cancel, hm]
    intro x hx; rw [hnil] at hx; simp at hx
  | some i =>
    obtain ⟨e, hg, _⟩ := minIdx_spec _ _ hm
    have hi : i < w.heap.length := (List.getElem?_eq_some_iff.mp hg).1
    have he : w.heap[i] = e := (List.getElem?_eq_some_iff.mp hg).2
    by_cases hc : e.counter = c
    · simp only [cancel, hm, hg, hc, if_true]
      intro x hx hxc
      obtain ⟨j, hj, hxj⟩ := List.getElem_of_mem hx
      rw [List.length_eraseIdx] at hj
      simp only [hi, if_true] at hj
      rw [List.getElem_eraseIdx] at hxj
      split at hxj
      · rename_i hlt
        have := (List.pairwise_iff_getElem.mp huniq) j i (by omega) hi hlt
        rw [hxj, he] at this; exact this (by rw [hxc, hc])
      · rename_i hge
        have := (List.pairwise_iff_getElem.mp huniq) i (j + 1) hi (by omega) (by omega)
        rw [hxj, he] at this; exact this (by rw [hxc, hc])
    · simp only [cancel, hm, hg, hc, if_false]
      intro x hx
      simp only [List.mem_filter, decide_eq_true_eq] at hx
      exact hx.2

/-- `cancel` never touches entries with another counter -/
theorem cancel_keeps_others (w : Wheel) (c : Nat) (x : Entry) (hx : x ∈ w.heap) (hc : x.counter ≠ c) :
    x ∈ (cancel w c).heap := by
  cases hm : minIdx w.heap with
  | none => simpa [cancel, hm] using hx
  | some i =>
    obtain ⟨e, hg, _⟩ := minIdx_spec _ _ hm
    have hi : i < w.heap.length := (List.getElem?_eq_some_iff.mp hg).1
    have he : w.heap[i] = e := (List.getElem?_eq_some_iff.mp hg).2
    by_cases hec : e.counter = c
    · simp only [cancel, hm, hg, hec, if_true]
      have hne : x ≠ e := fun h => hc (h ▸ hec)
      obtain ⟨j, hj, hxj⟩ := List.getElem_of_mem hx
      have hji : j ≠ i := fun h => hne (by subst h; rw [← hxj, he])
      rw [List.mem_iff_getElem]
      by_cases hlt : j < i
      · refine ⟨j, ?_, ?_⟩
        · rw [List.length_eraseIdx]; simp only [hi, if_true]; omega
        · rw [List.getElem_eraseIdx]; simp only [hlt, dite_true]; exact hxj
      · refine ⟨j - 1, ?_, ?_⟩
        · rw [List.length_eraseIdx]; simp only [hi, if_true]; omega
        · rw [List.getElem_eraseIdx]
          have h1 : ¬ (j - 1 < i) := by omega
          simp only [h1, dite_false]
          have h2 : j - 1 + 1 = j := by omega
          simp only [h2]; exact hxj
    · simp only [cancel, hm, hg, hec, if_false, List.mem_filter, decide_eq_true_eq]
      exact ⟨hx, hc⟩

/-- `next_deadline()` is the deadline of an entry of the heap, and no entry has an earlier one -/
theorem nextDeadline_spec (w : Wheel) (d : Int) (h : nextDeadline w = some d) :
    (∃ e ∈ w.heap, e.deadline = d) ∧ ∀ x ∈ w.heap, d ≤ x.deadline := by
  unfold nextDeadline peek at h
  cases hm : minIdx w.heap with
  | none => simp [hm] at h
  | some i =>
    obtain ⟨m, hg, hmin⟩ := minIdx_spec _ _ hm
    simp only [hm, hg, Option.map_some, Option.some.injEq] at h
    subst h
    exact ⟨⟨m, List.mem_of_getElem? hg, rfl⟩, hmin⟩

/-- `next_deadline()` is `None` exactly when no timer is armed -/
theorem nextDeadline_none_iff (w : Wheel) : nextDeadline w = none ↔ w.heap = [] := by
  constructor
  · intro h
    unfold nextDeadline peek at h
    cases hm : minIdx w.heap with
    | none => exact minIdx_none _ hm
    | some i =>
      obtain ⟨m, hg, _⟩ := minIdx_spec _ _ hm
      simp [hm, hg] at h
  · intro h
    simp [nextDeadline, peek, h, minIdx]

/-- arming a timer can only bring the next deadline forward (or leave it) -/
theorem nextDeadline_insert_le (w : Wheel) (d : Int) (t : Verif.Token.Tok) :
    ∃ d', nextDeadline (Verif.Wheel.insert w d t).1 = some d' ∧ d' ≤ d ∧ ∀ d0, nextDeadline w = some d0 → d' ≤ d0 := by
  cases hn : nextDeadline (Verif.Wheel.insert w d t).1 with
  | none =>
    have := (nextDeadline_none_iff _).mp hn
    simp [Verif.Wheel.insert] at this
  | some d' =>
    obtain ⟨_, hmin⟩ := nextDeadline_spec _ _ hn
    refine ⟨d', rfl, ?_, ?_⟩
    · exact hmin ⟨d, t, w.counter⟩ (by simp [Verif.Wheel.insert])
    · intro d0 h0
      obtain ⟨⟨e, he, hed⟩, _⟩ := nextDeadline_spec _ _ h0
      have := hmin e (by simp [Verif.Wheel.insert, he])
      omega

/-! ### conservation: a poll neither duplicates nor loses an arming -/

theorem perm_getElem_eraseIdx {α} (l : List α) (i : Nat) (h : i < l.length) : (l[i] :: l.eraseIdx i).Perm l := by
  induction l generalizing i with
  | nil => cases h
  | cons a t ih =>
    cases i with
    | zero => exact List.Perm.refl _
    | succ j =>
      have hj : j < t.length := by simpa using h
      simp only [List.getElem_cons_succ, List.eraseIdx_cons_succ]
      exact (List.Perm.swap a t[j] _).trans ((ih j hj).cons a)

theorem nextExpired_perm (w : Wheel) (now : Int) (e : Entry) (w' : Wheel) (h : nextExpired w now = some (e, w')) :
    (e :: w'.heap).Perm w.heap := by
  unfold nextExpired at h
  cases hm : minIdx w.heap with
  | none => simp [hm] at h
  | some i =>
    simp only [hm] at h
    cases hg : w.heap[i]? with
    | none => simp [hg] at h
    | some x =>
      simp only [hg] at h
      split at h
      · injection h with h; injection h with h1 h2; subst h1; subst h2
        obtain ⟨hi, hx⟩ := List.getElem?_eq_some_iff.mp hg
        subst hx
        exact perm_getElem_eraseIdx _ _ hi
      · cases h

/-- what a poll pops together with what it leaves is exactly what was in the heap -/
theorem popExpired_perm (w : Wheel) (now : Int) (fuel : Nat) :
    ((popExpired w now fuel).1 ++ (popExpired w now fuel).2.heap).Perm w.heap := by
  induction fuel generalizing w with
  | zero => exact List.Perm.refl _
  | succ n ih =>
    unfold popExpired
    cases hn : nextExpired w now with
    | none => exact List.Perm.refl _
    | some p =>
      obtain ⟨e, w'⟩ := p
      simp only [List.cons_append]
      exact ((ih w').cons e).trans (nextExpired_perm w now e w' hn)

/-- with distinct counters `cancel c` leaves exactly the entries of the other armings, each as often as before -/
theorem cancel_perm (w : Wheel) (c : Nat) (huniq : w.heap.Pairwise (fun a b => a.counter ≠ b.counter)) :
    (cancel w c).heap.Perm (w.heap.filter (fun x => decide (x.counter ≠ c))) := by
  cases hm : minIdx w.heap with
  | none =>
    have h0 := minIdx_none _ hm
    have hc : cancel w c = w := by simp only [cancel, hm]
    rw [hc, h0]; exact List.Perm.refl _
  | some i =>
    obtain ⟨e, hg, _⟩ := minIdx_spec _ _ hm
    obtain ⟨hi, he⟩ := List.getElem?_eq_some_iff.mp hg
    by_cases hec : e.counter = c
    · simp only [cancel, hm, hg, hec, if_true]
      have hp : (e :: w.heap.eraseIdx i).Perm w.heap := he ▸ perm_getElem_eraseIdx _ _ hi
      have hsym : ∀ {a b : Entry}, a.counter ≠ b.counter → b.counter ≠ a.counter := fun h => Ne.symm h
      have hu := (hp.symm.pairwise_iff (R := fun a b : Entry => a.counter ≠ b.counter) hsym).mp huniq
      rw [List.pairwise_cons] at hu
      have hrest : (w.heap.eraseIdx i).filter (fun x => decide (x.counter ≠ c)) = w.heap.eraseIdx i := by
        rw [List.filter_eq_self]
        intro x hx
        have := hu.1 x hx
        simp only [decide_eq_true_eq]
        intro h; exact this (hec.trans h.symm)
      have hf := (hp.symm.filter (fun x => decide (x.counter ≠ c)))
      rw [List.filter_cons] at hf
      simp only [hec, ne_eq, not_true_eq_false, decide_false, Bool.false_eq_true, if_false] at hf
      simp only [ne_eq] at hrest
      rw [hrest] at hf
      exact hf.symm
    · simp only [cancel, hm, hg, hec, if_false]
      exact List.Perm.refl _

/-- `cancel` adds nothing to the heap -/
theorem cancel_subset (w : Wheel) (c : Nat) (x : Entry) (hx : x ∈ (cancel w c).heap) : x ∈ w.heap := by
  unfold cancel at hx
  cases hm : minIdx w.heap with
  | none => simpa [hm] using hx
  | some i =>
    simp only [hm] at hx
    cases hg : w.heap[i]? with
    | none => simpa [hg] using hx
    | some e =>
      simp only [hg] at hx
      split at hx
      · exact (List.eraseIdx_sublist _ _).subset hx
      · exact (List.filter_sublist).subset hx

/-- cancelling an arming never brings the next deadline forward -/
theorem nextDeadline_cancel_ge (w : Wheel) (c : Nat) (d' : Int) (h : nextDeadline (cancel w c) = some d') :
    ∃ d, nextDeadline w = some d ∧ d ≤ d' := by
  obtain ⟨⟨e, he, hed⟩, _⟩ := nextDeadline_spec _ _ h
  have hew := cancel_subset w c e he
  cases hn : nextDeadline w with
  | none => rw [(nextDeadline_none_iff w).mp hn] at hew; cases hew
  | some d => exact ⟨d, rfl, hed ▸ (nextDeadline_spec w d hn).2 e hew⟩

/-- after a poll at `now` (with enough fuel: the heap length) the next deadline, if any, lies strictly after `now` -/
theorem nextDeadline_after_poll (w : Wheel) (now : Int) (d : Int)
    (h : nextDeadline (popExpired w now w.heap.length).2 = some d) : now < d := by
  obtain ⟨⟨e, he, hed⟩, _⟩ := nextDeadline_spec _ _ h
  have := (popExpired_spec w now w.heap.length).2.2.2 (Nat.le_refl _) e he
  omega

/-- a re-arming under the same counter (`TimeoutAction::ToInstant`) puts the next deadline at or before the new deadline
    and never later than it was -/
theorem nextDeadline_insertReuse_le (w : Wheel) (c : Nat) (d : Int) (t : Verif.Token.Tok) :
    ∃ d', nextDeadline (insertReuse w c d t) = some d' ∧ d' ≤ d ∧ ∀ d0, nextDeadline w = some d0 → d' ≤ d0 := by
  cases hn : nextDeadline (insertReuse w c d t) with
  | none =>
    have := (nextDeadline_none_iff _).mp hn
    simp [insertReuse] at this
  | some d' =>
    obtain ⟨_, hmin⟩ := nextDeadline_spec _ _ hn
    refine ⟨d', rfl, ?_, ?_⟩
    · exact hmin ⟨d, t, c⟩ (by simp [insertReuse])
    · intro d0 h0
      obtain ⟨⟨e, he, hed⟩, _⟩ := nextDeadline_spec _ _ h0
      have := hmin e (by simp [insertReuse, he])
      omega

end Verif.Inv.Wheel
