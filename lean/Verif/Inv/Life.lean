/-
The additional-lifecycle set over the *whole* loop model: it never holds a token twice — after any
history of operations, callback programs and dispatches (C14: every lifecycle source's hooks are
called once per dispatch, not more; finding F1 was a duplicate entry).
-/
import Verif.Inv.Ctl
import Verif.Inv.Kernel

namespace Verif.Inv.Life
open Verif.Loop Verif.Inv Verif.Kernel Verif.Slots Verif.Wheel Verif.Token

/-- the lifecycle set is duplicate-free -/
abbrev LifeOk : St → Prop := fun s => s.life.Nodup

abbrev KeepsL {α} (x : M α) : Prop := Keeps x LifeOk

syntax "life_lemma" : tactic
macro_rules | `(tactic| life_lemma) => `(tactic| fail "no lemma applies")

macro "life_step" : tactic => `(tactic| first
  | exact keeps_pure _ _
  | exact keeps_throw _ _
  | exact keeps_get _
  | life_lemma
  | (apply keeps_modify; intro s h; exact h)
  | (apply keeps_modify; intro s h; exact Verif.Inv.Kernel.lifeRegister_nodup _ _ h)
  | (apply keeps_modify; intro s h; exact Verif.Inv.Kernel.lifeUnregister_nodup _ _ h)
  | (apply keeps_emit; intro s h; exact h)
  | (apply keeps_bind)
  | (apply keeps_catchErr)
  | (apply keeps_forEachM)
  | (apply keeps_ite)
  | (intro _)
  | split)

macro "life" : tactic => `(tactic| (repeat life_step))

theorem life_emit (o : Obs) : KeepsL (emit o) := by apply keeps_emit; intro s h; exact h
macro_rules | `(tactic| life_lemma) => `(tactic| with_reducible exact life_emit _)
theorem life_throwErr {α} (e : Err) : KeepsL (throwErr e : M α) := by exact keeps_throw _ _
macro_rules | `(tactic| life_lemma) => `(tactic| with_reducible exact life_throwErr _)
theorem life_throwPanic {α} (p : Panic) : KeepsL (throwPanic p : M α) := by exact keeps_throw _ _
macro_rules | `(tactic| life_lemma) => `(tactic| with_reducible exact life_throwPanic _)

theorem life_getSrc (k : Nat) : KeepsL (getSrc? k) := by unfold getSrc?; life
macro_rules | `(tactic| life_lemma) => `(tactic| with_reducible exact life_getSrc _)
theorem life_setSrc (k : Nat) (v : Src) : KeepsL (setSrc k v) := by unfold setSrc; life
macro_rules | `(tactic| life_lemma) => `(tactic| with_reducible exact life_setSrc _ _)
theorem life_modSrc (k : Nat) (f : Src → Src) : KeepsL (modSrc k f) := by unfold modSrc; life
macro_rules | `(tactic| life_lemma) => `(tactic| with_reducible exact life_modSrc _ _)
theorem life_modGen (k j : Nat) (f : Gen → Gen) : KeepsL (modGen k j f) := by unfold modGen; life
macro_rules | `(tactic| life_lemma) => `(tactic| with_reducible exact life_modGen _ _ _)
theorem life_getGen (k j : Nat) : KeepsL (getGen? k j) := by unfold getGen?; life
macro_rules | `(tactic| life_lemma) => `(tactic| with_reducible exact life_getGen _ _)
theorem life_kAdd (e : EpEntry) : KeepsL (kAdd e) := by unfold kAdd; life
macro_rules | `(tactic| life_lemma) => `(tactic| with_reducible exact life_kAdd _)
theorem life_kMod (e : EpEntry) : KeepsL (kMod e) := by unfold kMod; life
macro_rules | `(tactic| life_lemma) => `(tactic| with_reducible exact life_kMod _)
theorem life_kDel (fd : Nat) : KeepsL (kDel fd) := by unfold kDel; life
macro_rules | `(tactic| life_lemma) => `(tactic| with_reducible exact life_kDel _)
theorem life_kWrite (fd n : Nat) : KeepsL (kWrite fd n) := by unfold kWrite; life
macro_rules | `(tactic| life_lemma) => `(tactic| with_reducible exact life_kWrite _ _)
theorem life_kRead (fd : Nat) : KeepsL (kRead fd) := by unfold kRead; life
macro_rules | `(tactic| life_lemma) => `(tactic| with_reducible exact life_kRead _)
theorem life_takeToken (f : Factory) : KeepsL (takeToken f) := by unfold takeToken; life
macro_rules | `(tactic| life_lemma) => `(tactic| with_reducible exact life_takeToken _)
theorem life_genRegister (k j : Nat) (f : Factory) : KeepsL (genRegister k j f) := by unfold genRegister; life
macro_rules | `(tactic| life_lemma) => `(tactic| with_reducible exact life_genRegister _ _ _)
theorem life_genReregister (k j : Nat) (f : Factory) : KeepsL (genReregister k j f) := by unfold genReregister; life
macro_rules | `(tactic| life_lemma) => `(tactic| with_reducible exact life_genReregister _ _ _)
theorem life_genUnregister (k j : Nat) : KeepsL (genUnregister k j) := by unfold genUnregister; life
macro_rules | `(tactic| life_lemma) => `(tactic| with_reducible exact life_genUnregister _ _)

theorem life_customLoop (k : Nat) (kind : RegKind) (fail : Option Nat) (body : Nat → Factory → M Factory)
    (hb : ∀ j f, KeepsL (body j f)) (n j : Nat) (f : Factory) : KeepsL (customLoop k kind fail body n j f) := by
  induction n generalizing j f with
  | zero => unfold customLoop; life
  | succ n ih =>
    unfold customLoop
    repeat (first | exact ih _ _ | exact hb _ _ | life_step)

theorem life_customRollback (k j : Nat) : KeepsL (customRollback k j) := by
  induction j with
  | zero => unfold customRollback; life
  | succ j ih => unfold customRollback; repeat (first | exact ih | life_step)
macro_rules | `(tactic| life_lemma) => `(tactic| with_reducible exact life_customRollback _ _)

theorem life_customRegister (k : Nat) (fail : Option Nat) (rb : Bool) (n j : Nat) (f : Factory) :
    KeepsL (customRegister k fail rb n j f) := by
  induction n generalizing j f with
  | zero => unfold customRegister; life
  | succ n ih => unfold customRegister; repeat (first | exact ih _ _ | life_step)
macro_rules | `(tactic| life_lemma) => `(tactic| with_reducible exact life_customRegister _ _ _ _ _ _)

theorem life_timerUnregister (k : Nat) : KeepsL (timerUnregister k) := by unfold timerUnregister; life
macro_rules | `(tactic| life_lemma) => `(tactic| with_reducible exact life_timerUnregister _)
theorem life_timerRegister (k : Nat) (f : Factory) : KeepsL (timerRegister k f) := by unfold timerRegister; life
macro_rules | `(tactic| life_lemma) => `(tactic| with_reducible exact life_timerRegister _ _)

theorem life_srcRegister (k : Nat) (f : Factory) : KeepsL (srcRegister k f) := by unfold srcRegister; life
macro_rules | `(tactic| life_lemma) => `(tactic| with_reducible exact life_srcRegister _ _)

theorem life_srcReregister (k : Nat) (f : Factory) : KeepsL (srcReregister k f) := by
  unfold srcReregister
  repeat (first | (apply life_customLoop; intro j f; exact life_genReregister _ _ _) | life_step)
macro_rules | `(tactic| life_lemma) => `(tactic| with_reducible exact life_srcReregister _ _)

theorem life_srcUnregister (k : Nat) : KeepsL (srcUnregister k) := by
  unfold srcUnregister
  repeat (first | (apply life_customLoop; intro j f; repeat life_step) | life_step)
macro_rules | `(tactic| life_lemma) => `(tactic| with_reducible exact life_srcUnregister _)

theorem life_isLife (k : Nat) : KeepsL (isLife k) := by unfold isLife; life
macro_rules | `(tactic| life_lemma) => `(tactic| with_reducible exact life_isLife _)

theorem life_dRegister (k : Nat) (tok : Tok) : KeepsL (dRegister k tok) := by unfold dRegister; life
macro_rules | `(tactic| life_lemma) => `(tactic| with_reducible exact life_dRegister _ _)
theorem life_dReregister (k : Nat) (tok : Tok) : KeepsL (dReregister k tok) := by unfold dReregister; life
macro_rules | `(tactic| life_lemma) => `(tactic| with_reducible exact life_dReregister _ _)
theorem life_dUnregister (k : Nat) (tok : Tok) : KeepsL (dUnregister k tok) := by unfold dUnregister; life
macro_rules | `(tactic| life_lemma) => `(tactic| with_reducible exact life_dUnregister _ _)

theorem life_maybeDrop (k : Nat) : KeepsL (maybeDrop k) := by unfold maybeDrop; life
macro_rules | `(tactic| life_lemma) => `(tactic| with_reducible exact life_maybeDrop _)
theorem life_userTok (k : Nat) : KeepsL (userTok k) := by unfold userTok; life
macro_rules | `(tactic| life_lemma) => `(tactic| with_reducible exact life_userTok _)
theorem life_doInsert (k : Nat) (keep : Bool) : KeepsL (doInsert k keep) := by unfold doInsert; life
macro_rules | `(tactic| life_lemma) => `(tactic| with_reducible exact life_doInsert _ _)
theorem life_doRemove (o : COp) (k : Nat) : KeepsL (doRemove o k) := by unfold doRemove; life
macro_rules | `(tactic| life_lemma) => `(tactic| with_reducible exact life_doRemove _ _)
theorem life_chanFd (k : Nat) : KeepsL (chanFd k) := by unfold chanFd; life
macro_rules | `(tactic| life_lemma) => `(tactic| with_reducible exact life_chanFd _)


/-! ### user operations, event processing, dispatch: everything keeps the set duplicate-free -/

theorem life_tokenOp (o : COp) (k : Nat) (body : Nat → Tok → M Unit) (hb : ∀ d t, KeepsL (body d t)) :
    KeepsL (tokenOp o k body) := by
  unfold tokenOp
  repeat (first | exact hb _ _ | life_step)

theorem life_execCore (o : COp) : KeepsL (execC' o) := by
  cases o <;> unfold execC' <;>
    repeat (first | (apply life_tokenOp; intro d t) | life_step)
macro_rules | `(tactic| life_lemma) => `(tactic| with_reducible exact life_execCore _)

theorem life_execC (o : COp) : KeepsL (execC o) := by unfold execC; life
macro_rules | `(tactic| life_lemma) => `(tactic| with_reducible exact life_execC _)

theorem life_runCb (k : Nat) (p : Payload) : KeepsL (runCb k p) := by unfold runCb; life
macro_rules | `(tactic| life_lemma) => `(tactic| with_reducible exact life_runCb _ _)
theorem life_retPA (r : Loop.Ret) : KeepsL (retPA r) := by cases r <;> unfold retPA <;> life
macro_rules | `(tactic| life_lemma) => `(tactic| with_reducible exact life_retPA _)
theorem life_genGate (k j : Nat) (ev : Event) : KeepsL (genGate k j ev) := by unfold genGate; life
macro_rules | `(tactic| life_lemma) => `(tactic| with_reducible exact life_genGate _ _ _)

theorem life_pingPE {α} (k : Nat) (ev : Event) (body : M α) (hb : KeepsL body) : KeepsL (pingPE k ev body) := by
  unfold pingPE; repeat (first | exact hb | life_step)

theorem life_chanDrain (k n : Nat) : KeepsL (chanDrain k n) := by
  induction n with
  | zero => unfold chanDrain; life
  | succ n ih => unfold chanDrain; repeat (first | exact ih | life_step)
macro_rules | `(tactic| life_lemma) => `(tactic| with_reducible exact life_chanDrain _ _)

theorem life_customPE (k : Nat) (ev : Event) (n j : Nat) (acc : PA) : KeepsL (customPE k ev n j acc) := by
  induction n generalizing j acc with
  | zero => unfold customPE; life
  | succ n ih => unfold customPE; repeat (first | exact ih _ _ | life_step)
macro_rules | `(tactic| life_lemma) => `(tactic| with_reducible exact life_customPE _ _ _ _ _)

theorem life_processEventsInner (k : Nat) (ev : Event) : KeepsL (processEventsInner k ev) := by
  unfold processEventsInner
  repeat (first
    | (apply life_pingPE; first | exact life_runCb _ _ | exact life_chanDrain _ _)
    | life_step)
macro_rules | `(tactic| life_lemma) => `(tactic| with_reducible exact life_processEventsInner _ _)

theorem life_processEvents (k : Nat) (ev : Event) : KeepsL (processEvents k ev) := by
  unfold processEvents
  repeat (first | (apply keeps_tryCatch) | life_step)
macro_rules | `(tactic| life_lemma) => `(tactic| with_reducible exact life_processEvents _ _)

theorem life_beforeSleep (tok : Tok) : KeepsL (beforeSleep tok) := by unfold beforeSleep; life
macro_rules | `(tactic| life_lemma) => `(tactic| with_reducible exact life_beforeSleep _)
theorem life_beforeHandle (evs : List Event) (tok : Tok) : KeepsL (beforeHandle evs tok) := by unfold beforeHandle; life
macro_rules | `(tactic| life_lemma) => `(tactic| with_reducible exact life_beforeHandle _ _)

theorem life_processOne (ev : Event) : KeepsL (processOne ev) := by
  unfold processOne; repeat (first | life_step | dsimp only)
macro_rules | `(tactic| life_lemma) => `(tactic| with_reducible exact life_processOne _)

theorem life_batchLoop (l : List Event) (first : Option Err) : KeepsL (batchLoop l first) := by
  induction l generalizing first with
  | nil => unfold batchLoop; life
  | cons ev rest ih => unfold batchLoop; repeat (first | exact ih _ | life_step)
macro_rules | `(tactic| life_lemma) => `(tactic| with_reducible exact life_batchLoop _ _)

theorem life_dispatchEvents : KeepsL dispatchEvents := by
  unfold dispatchEvents; repeat (first | life_step | dsimp only)
theorem life_runIdle (p : Nat × Nat) : KeepsL (runIdle p) := by unfold runIdle; life
macro_rules | `(tactic| life_lemma) => `(tactic| with_reducible exact life_runIdle _)
theorem life_dispatchIdles : KeepsL dispatchIdles := by unfold dispatchIdles; life
theorem life_dispatch : KeepsL dispatch := by
  unfold dispatch
  repeat (first | exact life_dispatchEvents | exact life_dispatchIdles | life_step)
theorem life_snapshot : KeepsL snapshot := by unfold snapshot; life
theorem life_execTop (o : Op) : KeepsL (execTop o) := by
  cases o <;> unfold execTop <;> repeat (first | exact life_dispatch | exact life_snapshot | life_step)

theorem life_step_ok (s : St) (o : Op) (h : LifeOk s) : LifeOk (step s o) := by
  unfold step
  by_cases ha : s.aborted = true
  · rw [if_pos ha]; exact h
  · rw [if_neg ha]
    have := (life_execTop o).h s h
    simp only [after] at this
    cases hx : execTop o s with
    | ok a s' => rw [hx] at this; exact this
    | error e s' =>
      rw [hx] at this
      cases e with
      | err e => exact this
      | panic p => exact this

/-- **After every history** — operations from the top level, from callbacks and from idle callbacks, failed
    registrations, removals, slot reuse, even a panic — the lifecycle set holds every token at most once. -/
theorem run_life_nodup (ops : List Op) : (run ops).life.Nodup := by
  unfold run
  have : ∀ (l : List Op) (s : St), LifeOk s → LifeOk (l.foldl step s) := by
    intro l
    induction l with
    | nil => intro s h; exact h
    | cons o l ih => intro s h; exact ih _ (life_step_ok s o h)
  exact this ops {} List.nodup_nil

end Verif.Inv.Life
