/- Invariant of the executor FIFO model (Verif.ExecFifo) and its consequences. -/
import Verif.Model.ExecFifo

namespace Verif.Inv.ExecFifo
open Verif.ExecFifo

structure Base (s : St) : Prop where
  qnd : s.queued.Nodup
  qs : ∀ i ∈ s.queued, i ∈ s.sched ∧ i ∉ s.done
  dnd : s.done.Nodup
  df : ∀ i ∈ s.done, i ∈ s.flags ∧ i ∈ s.sched
  dd : ∀ i ∈ s.done, i ∈ s.dropped
  ps : ∀ i ∈ s.polled, i ∈ s.sched
  snd : s.sched.Nodup
  deadq : s.dead = true → s.queued = [] ∧ ∀ i ∈ s.sched, i ∈ s.dropped

/-- while the executor lives, a scheduled task is done, or queued, or parked (polled, not complete) -/
def Live (s : St) : Prop :=
  s.dead = false → ∀ i ∈ s.sched, i ∈ s.done ∨ i ∈ s.queued ∨ (i ∈ s.polled ∧ i ∉ s.flags)

structure Inv (s : St) : Prop where
  base : Base s
  live : Live s

theorem inv_init : Inv {} := by
  refine ⟨⟨?_, ?_, ?_, ?_, ?_, ?_, ?_, ?_⟩, ?_⟩ <;> simp [Live]

/-- what a pass over the queue does -/
theorem fold_poll (q : List Nat) (s : St) :
    q.foldl poll s = { s with done := s.done ++ q.filter (fun i => s.flags.contains i),
                              polled := s.polled ++ q.filter (fun i => !s.flags.contains i),
                              dropped := s.dropped ++ q.filter (fun i => s.flags.contains i) } := by
  induction q generalizing s with
  | nil => simp
  | cons i q ih =>
    simp only [List.foldl_cons]
    rw [ih]
    have hf : (poll s i).flags = s.flags := by unfold poll; split <;> rfl
    rw [hf]
    unfold poll
    by_cases h : s.flags.contains i = true
    · rw [if_pos h]
      have hm : i ∈ s.flags := by simpa using h
      simp [List.filter_cons, hm, List.append_assoc]
    · have hm : i ∉ s.flags := by simpa using h
      rw [if_neg h]
      simp [List.filter_cons, hm, List.append_assoc]

theorem nodup_snoc (l : List Nat) (i : Nat) (h : l.Nodup) (hi : i ∉ l) : (l ++ [i]).Nodup := by
  rw [List.nodup_append]
  refine ⟨h, by simp, ?_⟩
  intro a ha b hb
  simp at hb; subst hb
  intro e; subst e; exact hi ha

theorem wake_inv (s : St) (i : Nat) (h : Base s)
    (hl : s.dead = false → ∀ j ∈ s.sched, j ∈ s.done ∨ j ∈ s.queued ∨ (j ∈ s.polled ∧ (j ∉ s.flags ∨ j = i))) :
    Inv (wake s i) := by
  unfold wake
  by_cases hc : (s.polled.contains i && !s.done.contains i && !s.queued.contains i && !s.dead) = true
  · rw [if_pos hc]
    simp only [Bool.and_eq_true, Bool.not_eq_true', List.contains_eq_mem, decide_eq_true_eq, decide_eq_false_iff_not] at hc
    obtain ⟨⟨⟨hp, hd⟩, hq⟩, hdead⟩ := hc
    refine ⟨⟨?_, ?_, h.dnd, h.df, h.dd, h.ps, h.snd, ?_⟩, ?_⟩
    · exact nodup_snoc _ _ h.qnd hq
    · intro j hj
      have hj' : j ∈ s.queued ++ [i] := hj
      cases List.mem_append.mp hj' with
      | inl a => exact h.qs j a
      | inr a => simp at a; subst a; exact ⟨h.ps _ hp, hd⟩
    · intro hdd
      have hdd' : s.dead = true := hdd
      rw [hdd'] at hdead; cases hdead
    · intro hdd j hj
      have hdd' : s.dead = false := hdd
      show j ∈ s.done ∨ j ∈ s.queued ++ [i] ∨ (j ∈ s.polled ∧ j ∉ s.flags)
      cases hl hdd' j hj with
      | inl a => exact Or.inl a
      | inr a =>
        cases a with
        | inl a => right; left; simp [a]
        | inr a =>
          cases a.2 with
          | inl nf => exact Or.inr (Or.inr ⟨a.1, nf⟩)
          | inr e => subst e; right; left; simp
  · rw [if_neg hc]
    refine ⟨h, ?_⟩
    intro hdd j hj
    cases hl hdd j hj with
    | inl a => exact Or.inl a
    | inr a =>
      cases a with
      | inl a => exact Or.inr (Or.inl a)
      | inr a =>
        cases a.2 with
        | inl nf => exact Or.inr (Or.inr ⟨a.1, nf⟩)
        | inr e =>
          subst e
          -- the wake did nothing although `j` is polled and the executor lives: it is done or queued
          by_cases hd : j ∈ s.done
          · exact Or.inl hd
          · by_cases hq : j ∈ s.queued
            · exact Or.inr (Or.inl hq)
            · exfalso
              apply hc
              simp [a.1, hd, hq, hdd]

theorem step_inv (s : St) (o : Op) (h : Inv s) (hnew : ∀ i, o = .sch i → i ∉ s.sched) : Inv (step s o) := by
  have hb := h.base
  cases o with
  | sch i =>
    simp only [step]
    by_cases hdead : s.dead = true
    · rw [if_pos hdead]; exact h
    · rw [if_neg hdead]
      have hdead' : s.dead = false := by simpa using hdead
      have hi := hnew i rfl
      have hq : i ∉ s.queued := fun a => hi (hb.qs i a).1
      refine ⟨⟨?_, ?_, hb.dnd, ?_, hb.dd, ?_, ?_, ?_⟩, ?_⟩
      · exact nodup_snoc _ _ hb.qnd hq
      · intro j hj
        have hj' : j ∈ s.queued ++ [i] := hj
        show j ∈ s.sched ++ [i] ∧ j ∉ s.done
        cases List.mem_append.mp hj' with
        | inl a => exact ⟨by simp [(hb.qs j a).1], (hb.qs j a).2⟩
        | inr a => simp at a; subst a; exact ⟨by simp, fun hd => hi (hb.df _ hd).2⟩
      · intro j hj; exact ⟨(hb.df j hj).1, by show j ∈ s.sched ++ [i]; simp [(hb.df j hj).2]⟩
      · intro j hj; show j ∈ s.sched ++ [i]; simp [hb.ps j hj]
      · exact nodup_snoc _ _ hb.snd hi
      · intro hd
        have hd' : s.dead = true := hd
        rw [hdead'] at hd'; cases hd'
      · intro _ j hj
        have hj' : j ∈ s.sched ++ [i] := hj
        show j ∈ s.done ∨ j ∈ s.queued ++ [i] ∨ (j ∈ s.polled ∧ j ∉ s.flags)
        cases List.mem_append.mp hj' with
        | inl a =>
          cases h.live hdead' j a with
          | inl b => exact Or.inl b
          | inr b =>
            cases b with
            | inl b => right; left; simp [b]
            | inr b => exact Or.inr (Or.inr b)
        | inr a => simp at a; subst a; right; left; simp
  | cpl i =>
    simp only [step]
    apply wake_inv
    · refine ⟨hb.qnd, hb.qs, hb.dnd, ?_, hb.dd, hb.ps, hb.snd, hb.deadq⟩
      intro j hj
      exact ⟨by show j ∈ s.flags ++ [i]; simp [(hb.df j hj).1], (hb.df j hj).2⟩
    · intro hd j hj
      have hd' : s.dead = false := hd
      have hj' : j ∈ s.sched := hj
      show j ∈ s.done ∨ j ∈ s.queued ∨ (j ∈ s.polled ∧ (j ∉ s.flags ++ [i] ∨ j = i))
      cases h.live hd' j hj' with
      | inl a => exact Or.inl a
      | inr a =>
        cases a with
        | inl a => exact Or.inr (Or.inl a)
        | inr a =>
          refine Or.inr (Or.inr ⟨a.1, ?_⟩)
          by_cases e : j = i
          · exact Or.inr e
          · left; simp [a.2, e]
  | wk i =>
    simp only [step]
    apply wake_inv _ _ hb
    intro hd j hj
    cases h.live hd j hj with
    | inl a => exact Or.inl a
    | inr a =>
      cases a with
      | inl a => exact Or.inr (Or.inl a)
      | inr a => exact Or.inr (Or.inr ⟨a.1, Or.inl a.2⟩)
  | drop =>
    simp only [step]
    refine ⟨⟨List.nodup_nil, ?_, hb.dnd, hb.df, ?_, hb.ps, hb.snd, ?_⟩, ?_⟩
    · intro j hj; cases hj
    · intro j hj; show j ∈ s.dropped ++ s.sched; simp [hb.dd j hj]
    · intro _; exact ⟨rfl, fun j hj => by show j ∈ s.dropped ++ s.sched; simp [show j ∈ s.sched from hj]⟩
    · intro hd; cases hd
  | disp =>
    simp only [step]
    rw [fold_poll]
    refine ⟨⟨List.nodup_nil, ?_, ?_, ?_, ?_, ?_, hb.snd, ?_⟩, ?_⟩
    · intro j hj; cases hj
    · show (s.done ++ s.queued.filter (fun i => s.flags.contains i)).Nodup
      rw [List.nodup_append]
      refine ⟨hb.dnd, List.Nodup.sublist List.filter_sublist hb.qnd, ?_⟩
      intro a ha b hb' e
      subst e
      exact (hb.qs a (List.mem_filter.mp hb').1).2 ha
    · intro j hj
      have hj' : j ∈ s.done ++ s.queued.filter (fun i => s.flags.contains i) := hj
      show j ∈ s.flags ∧ j ∈ s.sched
      cases List.mem_append.mp hj' with
      | inl a => exact hb.df j a
      | inr a =>
        obtain ⟨a1, a2⟩ := List.mem_filter.mp a
        exact ⟨by simpa using a2, (hb.qs j a1).1⟩
    · intro j hj
      have hj' : j ∈ s.done ++ s.queued.filter (fun i => s.flags.contains i) := hj
      show j ∈ s.dropped ++ s.queued.filter (fun i => s.flags.contains i)
      cases List.mem_append.mp hj' with
      | inl a => simp [hb.dd j a]
      | inr a => exact List.mem_append.mpr (Or.inr a)
    · intro j hj
      have hj' : j ∈ s.polled ++ s.queued.filter (fun i => !s.flags.contains i) := hj
      show j ∈ s.sched
      cases List.mem_append.mp hj' with
      | inl a => exact hb.ps j a
      | inr a => exact (hb.qs j (List.mem_filter.mp a).1).1
    · intro hd
      have hd' : s.dead = true := hd
      refine ⟨rfl, fun j hj => ?_⟩
      show j ∈ s.dropped ++ s.queued.filter (fun i => s.flags.contains i)
      simp [(hb.deadq hd').2 j hj]
    · intro hd j hj
      have hd' : s.dead = false := hd
      have hj' : j ∈ s.sched := hj
      show j ∈ s.done ++ s.queued.filter (fun i => s.flags.contains i) ∨ j ∈ ([] : List Nat) ∨
        (j ∈ s.polled ++ s.queued.filter (fun i => !s.flags.contains i) ∧ j ∉ s.flags)
      cases h.live hd' j hj' with
      | inl a => left; simp [a]
      | inr a =>
        cases a with
        | inl a =>
          by_cases f : j ∈ s.flags
          · left; exact List.mem_append.mpr (Or.inr (List.mem_filter.mpr ⟨a, by simpa using f⟩))
          · right; right; exact ⟨List.mem_append.mpr (Or.inr (List.mem_filter.mpr ⟨a, by simpa using f⟩)), f⟩
        | inr a => right; right; exact ⟨List.mem_append.mpr (Or.inl a.1), a.2⟩

/-! ### histories -/

theorem sched_step (s : St) (o : Op) : (step s o).sched = s.sched ∨ ∃ i, o = .sch i ∧ (step s o).sched = s.sched ++ [i] := by
  cases o with
  | sch i =>
    simp only [step]
    by_cases hd : s.dead = true
    · rw [if_pos hd]; exact Or.inl rfl
    · rw [if_neg hd]; exact Or.inr ⟨i, rfl, rfl⟩
  | cpl i => left; simp only [step, wake]; split <;> rfl
  | wk i => left; simp only [step, wake]; split <;> rfl
  | drop => exact Or.inl rfl
  | disp => left; simp only [step]; rw [fold_poll]

/-- the tasks the executor has been given are among the scheduled ids of the history -/
theorem sched_sub (ops : List Op) (s : St) : ∀ i ∈ (ops.foldl step s).sched, i ∈ s.sched ∨ i ∈ scheduledIds ops := by
  induction ops generalizing s with
  | nil => intro i hi; exact Or.inl hi
  | cons o ops ih =>
    intro i hi
    simp only [List.foldl_cons] at hi
    cases ih (step s o) i hi with
    | inr a => right; cases o <;> simp [scheduledIds, a]
    | inl a =>
      cases sched_step s o with
      | inl e => rw [e] at a; exact Or.inl a
      | inr e =>
        obtain ⟨j, ho, e⟩ := e
        rw [e] at a
        cases List.mem_append.mp a with
        | inl a => exact Or.inl a
        | inr a => simp at a; subst a; subst ho; right; simp [scheduledIds]

theorem foldl_inv (ops : List Op) (s : St) (h : Inv s) (hnd : (scheduledIds ops).Nodup)
    (hdis : ∀ i ∈ scheduledIds ops, i ∉ s.sched) : Inv (ops.foldl step s) := by
  induction ops generalizing s with
  | nil => exact h
  | cons o ops ih =>
    simp only [List.foldl_cons]
    have hstep : Inv (step s o) := by
      apply step_inv s o h
      intro i ho; subst ho
      exact hdis i (by simp [scheduledIds])
    apply ih (step s o) hstep
    · cases o <;> simp [scheduledIds] at hnd ⊢ <;> first | exact hnd | exact hnd.2
    · intro i hi
      cases sched_step s o with
      | inl e => rw [e]; exact hdis i (by cases o <;> simp [scheduledIds, hi])
      | inr e =>
        obtain ⟨j, ho, e⟩ := e
        subst ho
        rw [e]
        simp only [scheduledIds, List.nodup_cons] at hnd
        intro hm
        cases List.mem_append.mp hm with
        | inl a => exact hdis i (by simp [scheduledIds, hi]) a
        | inr a => simp at a; subst a; exact hnd.1 hi

theorem run_inv (ops : List Op) (hnd : (scheduledIds ops).Nodup) : Inv (run ops) :=
  foldl_inv ops {} inv_init hnd (by intro i _ h; cases h)

end Verif.Inv.ExecFifo
