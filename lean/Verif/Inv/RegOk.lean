/-
C16 / C02, over the whole model: every sub-source of a live source object that holds a registration token is in the
kernel's poller table, under exactly that token — after every history in which no source object was created over an fd
that an earlier object watches or watched (`fdClash`: two sources over one fd, the situation of finding F15; re-use of an fd
after its first object is gone is outside this theorem — `GhostFree` covers the release side).  Failed registrations with or without
roll-back, failed unregistrations, one-shot disarming, sources dropped while registered are all among the histories.
-/
import Verif.Inv.GhostFree

namespace Verif.Inv.RegOk
open Verif.Loop Verif.Inv Verif.Kernel Verif.Slots Verif.Wheel Verif.Token Verif.Inv.TokInv Verif.Inv.OwnInv Verif.Inv.GhostFree

abbrev RRow := Bool × List (Nat × Option Tok)
abbrev RMap := Nat → Option RRow

/-- what the invariant reads of a source object: was it dropped; fd and token of each sub-source -/
def rpOf (src : Src) : RRow := (src.dropped, src.gens.map fun g => (g.fd, g.token))

def rp (s : St) : RMap := fun k => (alookup s.srcs k).map rpOf

/-- (fd, key) of every entry of the kernel's table -/
def pairs (k : Kernel) : List (Nat × Tok) := k.ep.map fun e => (e.fd, e.key)

def prR (s : St) : List (Nat × Tok) × RMap × Bool := (pairs s.k, rp s, s.fdClash)

/-- no fd is watched by two sub-sources (of the same or of different objects, dropped ones included) -/
def NoShare (m : RMap) : Prop :=
  ∀ (k1 k2 : Nat) (d1 d2 : Bool) (l1 l2 : List (Nat × Option Tok)) (i1 i2 fd : Nat) (t1 t2 : Option Tok),
    m k1 = some (d1, l1) → m k2 = some (d2, l2) →
    l1[i1]? = some (fd, t1) → l2[i2]? = some (fd, t2) → k1 = k2 ∧ i1 = i2

/-- a live sub-source that holds a token is in the table under it -/
def Reg (ep : List (Nat × Tok)) (m : RMap) : Prop :=
  ∀ (k : Nat) (l : List (Nat × Option Tok)) (i fd : Nat) (t : Tok), m k = some (false, l) → l[i]? = some (fd, some t) → (fd, t) ∈ ep

def RP (c : List (Nat × Tok) × RMap × Bool) : Prop := c.2.2 = true ∨ (NoShare c.2.1 ∧ Reg c.1 c.2.1)
abbrev RI : St → Prop := fun s => RP (prR s)

abbrev FrameR {α} (x : M α) : Prop := ∀ c, Keeps x (fun s => prR s = c)

theorem keeps_of_frameR {α} {x : M α} (h : FrameR x) (R : _ → Prop) : Keeps x (fun s => R (prR s)) := by
  constructor
  intro s hs
  have h1 : prR (after x s) = prR s := (h (prR s)).h s rfl
  show R (prR (after x s))
  rw [h1]; exact hs

/-! ### the kernel -/

theorem enqueue_pairs (k : Kernel) (fd : Nat) : pairs (enqueue k fd) = pairs k := by unfold pairs; rw [enqueue_ep]
theorem efdWrite_pairs (k : Kernel) (fd n : Nat) : pairs (efdWrite k fd n) = pairs k := by unfold pairs; rw [efdWrite_ep]
theorem efdRead_pairs (k : Kernel) (fd : Nat) : pairs (efdRead k fd).2 = pairs k := by unfold pairs; rw [efdRead_ep]

theorem waitLoop_pairs (q : List Nat) (k : Kernel) : pairs (waitLoop k q).2 = pairs k := by
  induction q generalizing k with
  | nil => rfl
  | cons fd rest ih =>
    unfold waitLoop
    cases entry? k fd with
    | none => exact ih k
    | some e =>
      simp only
      split
      · simp only
        rw [ih]
        cases e.mode with
        | level => rfl
        | edge => rfl
        | oneshot =>
          unfold pairs
          simp only [List.map_map]
          apply List.map_congr_left
          intro x _
          simp only [Function.comp]
          split <;> rfl
      · exact ih k

theorem epWait_pairs (k : Kernel) : pairs (epWait k).2 = pairs k := by
  unfold epWait
  exact waitLoop_pairs _ _

theorem epAdd_pairs (k : Kernel) (e : EpEntry) (k' : Kernel) (h : epAdd k e = .ok k') :
    pairs k' = pairs k ++ [(e.fd, e.key)] := by
  unfold epAdd at h
  split at h
  · cases h
  · simp only at h
    injection h with h
    subst h
    split
    · rw [enqueue_pairs]; simp [pairs]
    · simp [pairs]

theorem epMod_pairs (k : Kernel) (e : EpEntry) (k' : Kernel) (h : epMod k e = .ok k') :
    pairs k' = (pairs k).map (fun p => if p.1 == e.fd then (e.fd, e.key) else p) ∧ e.fd ∈ (pairs k).map (·.1) := by
  unfold epMod at h
  split at h
  · cases h
  · rename_i x hx
    simp only at h
    injection h with h
    subst h
    have hmem : e.fd ∈ (pairs k).map (·.1) := by
      unfold entry? at hx
      have hm := List.mem_of_find?_eq_some hx
      have hp := List.find?_some hx
      have : x.fd = e.fd := by simpa using hp
      simp only [pairs, List.map_map, List.mem_map]
      exact ⟨x, hm, this⟩
    have hmap : pairs { k with ep := k.ep.map (fun x => if x.fd == e.fd then e else x) } =
        (pairs k).map (fun p => if p.1 == e.fd then (e.fd, e.key) else p) := by
      unfold pairs
      simp only [List.map_map]
      apply List.map_congr_left
      intro x _
      simp only [Function.comp]
      split <;> rfl
    refine ⟨?_, hmem⟩
    split
    · rw [enqueue_pairs]; exact hmap
    · exact hmap

theorem epDel_pairs (k : Kernel) (fd : Nat) (k' : Kernel) (h : epDel k fd = .ok k') :
    pairs k' = (pairs k).filter (·.1 != fd) := by
  unfold epDel at h
  split at h
  · cases h
  · injection h with h
    subst h
    simp only [pairs, List.filter_map]
    rfl

/-- dropping a source's sub-sources touches only entries with their fds -/
theorem dropGens_pairs (gens : List Gen) (k : Kernel) (p : Nat × Tok) (hp : p ∈ pairs k) (hn : p.1 ∉ gens.map (·.fd)) :
    p ∈ pairs (dropGens k gens) := by
  induction gens generalizing k with
  | nil => exact hp
  | cons g gs ih =>
    have hn' : p.1 ∉ gs.map (·.fd) := fun h => hn (by simp [h])
    have hg : p.1 ≠ g.fd := fun h => hn (by simp [h])
    unfold dropGens
    split
    · cases hd : epDel k g.fd with
      | ok k' =>
        simp only
        apply ih k' _ hn'
        rw [epDel_pairs k g.fd k' hd]
        exact List.mem_filter.mpr ⟨hp, by simpa using hg⟩
      | error io => simp only; exact ih k hp hn'
    · exact ih k hp hn'

/-! ### lists -/

theorem rp_aset (s : St) (k : Nat) (v : Src) :
    rp { s with srcs := aset s.srcs k v } = fun k' => if k' = k then some (rpOf v) else rp s k' := by
  funext k'
  unfold rp
  by_cases h : k' = k
  · subst h; simp [alookup_aset_self]
  · simp [alookup_aset_other _ _ _ _ h, h]

theorem rp_same (s : St) (k : Nat) (r : RRow) (h : rp s k = some r) :
    (fun k' => if k' = k then some r else rp s k') = rp s := by
  funext k'
  by_cases hk : k' = k
  · subst hk; simp [h]
  · simp [hk]

theorem mapIdx_projT (gens : List Gen) (j : Nat) (f : Gen → Gen) (g : Gen) (hg : gens[j]? = some g) :
    (gens.mapIdx (fun i x => if i == j then f x else x)).map (fun g => (g.fd, g.token)) =
      (gens.map (fun g => (g.fd, g.token))).set j ((f g).fd, (f g).token) := by
  apply List.ext_getElem?
  intro i
  simp only [List.getElem?_map, List.getElem?_mapIdx, List.getElem?_set]
  by_cases hij : i = j
  · subst hij
    have hi : i < gens.length := (List.getElem?_eq_some_iff.mp hg).1
    have he : gens[i] = g := (List.getElem?_eq_some_iff.mp hg).2
    simp [hi, he]
  · have : (j = i) = False := by simp; exact fun e => hij e.symm
    simp [hij, this]

/-- what `modGen` does to the map, when the sub-source exists -/
theorem rp_modGen (s : St) (k j : Nat) (f : Gen → Gen) (v : Src) (g : Gen) (hv : alookup s.srcs k = some v)
    (hg : v.gens[j]? = some g) :
    rp { s with srcs := aset s.srcs k { v with gens := v.gens.mapIdx (fun i x => if i == j then f x else x) } } =
      fun k' => if k' = k then some (v.dropped, (rpOf v).2.set j ((f g).fd, (f g).token)) else rp s k' := by
  rw [rp_aset]
  funext k'
  by_cases h : k' = k
  · simp only [h, if_true]
    congr 1
    show (v.dropped, _) = (v.dropped, _)
    congr 1
    exact mapIdx_projT v.gens j f g hg
  · simp [h]

/-! ### frames -/

theorem fr_modSrc (k : Nat) (f : Src → Src) (hf : ∀ v, rpOf (f v) = rpOf v) : FrameR (modSrc k f) := by
  intro c
  constructor
  intro s hs
  unfold after
  rw [modSrc_run]
  cases hk : alookup s.srcs k with
  | none => exact hs
  | some v =>
    show prR { s with srcs := aset s.srcs k (f v) } = c
    rw [← hs]
    show (pairs s.k, rp { s with srcs := aset s.srcs k (f v) }, s.fdClash) = (pairs s.k, rp s, s.fdClash)
    rw [rp_aset s k (f v), hf v, rp_same s k (rpOf v) (by simp [rp, hk])]

theorem fr_modGen (k j : Nat) (f : Gen → Gen) (hf : ∀ g, (f g).fd = g.fd ∧ (f g).token = g.token) : FrameR (modGen k j f) := by
  unfold modGen
  apply fr_modSrc
  intro v
  show (v.dropped, (v.gens.mapIdx (fun i g => if i == j then f g else g)).map (fun g => (g.fd, g.token))) =
    (v.dropped, v.gens.map (fun g => (g.fd, g.token)))
  congr 1
  cases hg : v.gens[j]? with
  | none => rw [mapIdx_none v.gens j f hg]
  | some g =>
    rw [mapIdx_projT v.gens j f g hg, (hf g).1, (hf g).2]
    apply List.ext_getElem?
    intro i
    simp only [List.getElem?_set, List.getElem?_map]
    by_cases e : j = i
    · subst e
      have hlt := (List.getElem?_eq_some_iff.mp hg).1
      have he := (List.getElem?_eq_some_iff.mp hg).2
      simp [hlt, he]
    · simp [e]

theorem fr_kWrite (fd n : Nat) : FrameR (kWrite fd n) := by
  intro c
  unfold kWrite
  apply keeps_modify
  intro s hs
  rw [← hs]
  show (pairs (efdWrite s.k fd n), rp s, s.fdClash) = _
  rw [efdWrite_pairs]; rfl

theorem fr_kRead (fd : Nat) : FrameR (kRead fd) := by
  intro c
  constructor
  intro s hs
  rw [← hs]
  show prR (after (kRead fd) s) = prR s
  have : after (kRead fd) s = { s with k := (efdRead s.k fd).2 } := rfl
  rw [this]
  show (pairs (efdRead s.k fd).2, rp s, s.fdClash) = _
  rw [efdRead_pairs]; rfl

theorem fr_getGen (k j : Nat) : FrameR (getGen? k j) := by
  intro c; constructor; intro s hs
  unfold after; rw [getGen_run]; exact hs

theorem fr_takeToken (f : Factory) : FrameR (takeToken f) := by
  intro c; unfold takeToken; split
  · exact keeps_pure _ _
  · exact keeps_throw _ _

/-! ### the row of one object changes at one index, its fd staying -/

theorem getElem_set_fd (l : List (Nat × Option Tok)) (j i fd : Nat) (t0 t t1 : Option Tok)
    (hj : l[j]? = some (fd, t0)) (h : (l.set j (fd, t))[i]? = some (fd1, t1)) : ∃ t', l[i]? = some (fd1, t') := by
  by_cases e : j = i
  · subst e
    have hlt : j < l.length := (List.getElem?_eq_some_iff.mp hj).1
    rw [List.getElem?_set_self hlt] at h
    injection h with h; injection h with h1 _
    subst h1
    exact ⟨t0, hj⟩
  · rw [List.getElem?_set_ne e] at h
    exact ⟨t1, h⟩

/-- changing the token at one index of one object's row keeps fds unshared -/
theorem noShare_setTok (m : RMap) (k : Nat) (d : Bool) (l : List (Nat × Option Tok)) (j fd : Nat) (t0 t : Option Tok)
    (hk : m k = some (d, l)) (hj : l[j]? = some (fd, t0)) (h : NoShare m) :
    NoShare (fun k' => if k' = k then some (d, l.set j (fd, t)) else m k') := by
  intro k1 k2 d1 d2 l1 l2 i1 i2 fd' t1 t2 h1 h2 e1 e2
  -- the same entries existed before, with some token
  have back : ∀ (k0 : Nat) (d0 : Bool) (l0 : List (Nat × Option Tok)) (i0 : Nat) (t' : Option Tok),
      (if k0 = k then some (d, l.set j (fd, t)) else m k0) = some (d0, l0) → l0[i0]? = some (fd', t') →
      ∃ (d0' : Bool) (l0' : List (Nat × Option Tok)) (t'' : Option Tok), m k0 = some (d0', l0') ∧ l0'[i0]? = some (fd', t'') := by
    intro k0 d0 l0 i0 t' hm he
    by_cases e : k0 = k
    · subst e
      simp only [if_true] at hm
      injection hm with hm; injection hm with _ hl
      subst hl
      obtain ⟨t'', ht⟩ := getElem_set_fd l j i0 fd t0 t t' hj he
      exact ⟨d, l, t'', hk, ht⟩
    · simp only [e, if_false] at hm
      exact ⟨d0, l0, t', hm, he⟩
  obtain ⟨_, _, _, a1, b1⟩ := back k1 d1 l1 i1 t1 h1 e1
  obtain ⟨_, _, _, a2, b2⟩ := back k2 d2 l2 i2 t2 h2 e2
  exact h k1 k2 _ _ _ _ i1 i2 fd' _ _ a1 a2 b1 b2

/-- every other live sub-source keeps its row entry when object `k`'s row changes at index `j` only -/
theorem other_entry (m : RMap) (k : Nat) (d : Bool) (l : List (Nat × Option Tok)) (j fd : Nat) (t0 t : Option Tok)
    (hk : m k = some (d, l)) (hj : l[j]? = some (fd, t0)) (h : NoShare m)
    (k' : Nat) (l' : List (Nat × Option Tok)) (i fd' : Nat) (t' : Tok)
    (hm : (if k' = k then some (d, l.set j (fd, t)) else m k') = some (false, l')) (he : l'[i]? = some (fd', some t')) :
    (k' = k ∧ i = j ∧ fd' = fd ∧ t = some t') ∨ (fd' ≠ fd ∧ ∃ l0, m k' = some (false, l0) ∧ l0[i]? = some (fd', some t')) := by
  by_cases e : k' = k
  · subst e
    simp only [if_true] at hm
    injection hm with hm; injection hm with hd hl
    subst hl
    by_cases eij : j = i
    · subst eij
      have hlt : j < l.length := (List.getElem?_eq_some_iff.mp hj).1
      rw [List.getElem?_set_self hlt] at he
      injection he with he; injection he with h1 h2
      exact Or.inl ⟨rfl, rfl, h1.symm, h2⟩
    · rw [List.getElem?_set_ne eij] at he
      right
      refine ⟨fun ef => ?_, l, by rw [hk, hd], he⟩
      subst ef
      exact eij (h k' k' d d l l j i fd' t0 (some t') hk hk hj he).2
  · simp only [e, if_false] at hm
    right
    refine ⟨fun ef => ?_, l', hm, he⟩
    subst ef
    exact e (h k' k false d l' l i j fd' (some t') t0 hm hk he hj).1

/-! ### the registration calls of a sub-source -/

theorem rp_row (s : St) (k : Nat) (v : Src) (hv : alookup s.srcs k = some v) : rp s k = some (v.dropped, (rpOf v).2) := by
  simp [rp, hv, rpOf]

theorem row_at (v : Src) (j : Nat) (g : Gen) (hg : v.gens[j]? = some g) : (rpOf v).2[j]? = some (g.fd, g.token) := by
  simp [rpOf, hg]

/-- the core step: sub-source `j` of object `k` gets token `t'` (or none) while the table changes from `ep` to `ep'` such
    that entries with other fds stay and, when a token is set, the entry `(fd, t)` is there -/
theorem rp_step (ep ep' : List (Nat × Tok)) (m : RMap) (k : Nat) (d : Bool) (l : List (Nat × Option Tok)) (j fd : Nat)
    (t0 t' : Option Tok) (hk : m k = some (d, l)) (hj : l[j]? = some (fd, t0)) (h : NoShare m ∧ Reg ep m)
    (hkeep : ∀ p ∈ ep, p.1 ≠ fd → p ∈ ep') (hnew : ∀ t, t' = some t → (fd, t) ∈ ep') :
    NoShare (fun k' => if k' = k then some (d, l.set j (fd, t')) else m k') ∧
    Reg ep' (fun k' => if k' = k then some (d, l.set j (fd, t')) else m k') := by
  refine ⟨noShare_setTok m k d l j fd t0 t' hk hj h.1, ?_⟩
  intro k' l' i fd' t hm he
  rcases other_entry m k d l j fd t0 t' hk hj h.1 k' l' i fd' t hm he with ⟨_, _, e3, e4⟩ | ⟨hne, l0, hm0, he0⟩
  · subst e3; exact hnew t e4
  · exact hkeep _ (h.2 k' l0 i fd' t hm0 he0) hne

open Verif.Inv.Ctl in
theorem ri_genRegister (k j : Nat) (f : Factory) : KeepsI (genRegister k j f) RI := by
  constructor
  unfold genRegister
  apply hoare_bind (fun _ => RI) (hoare_of_keeps (keeps_of_frameR (fr_takeToken f) RP))
  intro p
  obtain ⟨t, f'⟩ := p
  simp only
  apply hoare_bind _ (hoare_getGen k j RI)
  intro o
  cases o with
  | none => exact hoare_pure _ (fun _ h => h.1)
  | some g =>
    simp only
    -- the entry goes into the table …
    apply hoare_bind (fun _ s => (s.fdClash = true ∨ (NoShare (rp s) ∧ ∃ ep0, Reg ep0 (rp s) ∧ pairs s.k = ep0 ++ [(g.fd, t)])) ∧
        (alookup s.srcs k).bind (·.gens[j]?) = some g)
    · intro s ⟨hri, hg⟩
      rw [kAdd_run]
      cases h : epAdd s.k { fd := g.fd, key := t, r := g.r, w := g.w, mode := g.mode } with
      | ok k' =>
        refine ⟨?_, hg.symm⟩
        cases hri with
        | inl hf => exact Or.inl hf
        | inr hn => exact Or.inr ⟨hn.1, pairs s.k, hn.2, epAdd_pairs _ _ _ h⟩
      | error io => exact hri
    intro _
    -- … and the sub-source remembers its token
    apply hoare_bind (fun _ => RI)
    · intro s ⟨hm, hg⟩
      obtain ⟨v, hv, hgj⟩ := bind_gens s k j g hg
      rw [modGen_run, hv]
      show RP (pairs s.k, rp { s with srcs := aset s.srcs k _ }, s.fdClash)
      rw [rp_modGen s k j _ v g hv hgj]
      cases hm with
      | inl hf => exact Or.inl hf
      | inr hn =>
        obtain ⟨hns, ep0, hreg, hep⟩ := hn
        refine Or.inr ?_
        show NoShare _ ∧ Reg (pairs s.k) _
        rw [hep]
        exact rp_step ep0 (ep0 ++ [(g.fd, t)]) (rp s) k v.dropped (rpOf v).2 j g.fd g.token (some t)
          (rp_row s k v hv) (row_at v j g hgj) ⟨hns, hreg⟩ (fun p hp _ => List.mem_append_left _ hp)
          (fun t1 e => by injection e with e; subst e; simp)
    · intro _
      exact hoare_pure _ (fun _ h => h)

open Verif.Inv.Ctl in
theorem ri_genReregister (k j : Nat) (f : Factory) : KeepsI (genReregister k j f) RI := by
  constructor
  unfold genReregister
  apply hoare_bind (fun _ => RI) (hoare_of_keeps (keeps_of_frameR (fr_takeToken f) RP))
  intro p
  obtain ⟨t, f'⟩ := p
  simp only
  apply hoare_bind _ (hoare_getGen k j RI)
  intro o
  cases o with
  | none => exact hoare_pure _ (fun _ h => h.1)
  | some g =>
    simp only
    apply hoare_bind (fun _ s => (s.fdClash = true ∨ (NoShare (rp s) ∧ ∃ ep0, Reg ep0 (rp s) ∧ g.fd ∈ ep0.map (·.1) ∧
          pairs s.k = ep0.map (fun p => if p.1 == g.fd then (g.fd, t) else p))) ∧
        (alookup s.srcs k).bind (·.gens[j]?) = some g)
    · intro s ⟨hri, hg⟩
      rw [kMod_run]
      cases h : epMod s.k { fd := g.fd, key := t, r := g.r, w := g.w, mode := g.mode } with
      | ok k' =>
        refine ⟨?_, hg.symm⟩
        cases hri with
        | inl hf => exact Or.inl hf
        | inr hn =>
          obtain ⟨h1, h2⟩ := epMod_pairs _ _ _ h
          exact Or.inr ⟨hn.1, pairs s.k, hn.2, h2, h1⟩
      | error io => exact hri
    intro _
    apply hoare_bind (fun _ => RI)
    · intro s ⟨hm, hg⟩
      obtain ⟨v, hv, hgj⟩ := bind_gens s k j g hg
      rw [modGen_run, hv]
      show RP (pairs s.k, rp { s with srcs := aset s.srcs k _ }, s.fdClash)
      rw [rp_modGen s k j _ v g hv hgj]
      cases hm with
      | inl hf => exact Or.inl hf
      | inr hn =>
        obtain ⟨hns, ep0, hreg, hmem, hep⟩ := hn
        refine Or.inr ?_
        show NoShare _ ∧ Reg (pairs s.k) _
        rw [hep]
        refine rp_step ep0 _ (rp s) k v.dropped (rpOf v).2 j g.fd g.token (some t)
          (rp_row s k v hv) (row_at v j g hgj) ⟨hns, hreg⟩ (fun p hp hne => ?_) (fun t1 e => ?_)
        · refine List.mem_map.mpr ⟨p, hp, ?_⟩
          have : (p.1 == g.fd) = false := by simpa using hne
          simp [this]
        · injection e with e; subst e
          obtain ⟨q, hq, hq1⟩ := List.mem_map.mp hmem
          exact List.mem_map.mpr ⟨q, hq, by simp [hq1]⟩
    · intro _
      exact hoare_pure _ (fun _ h => h)

open Verif.Inv.Ctl in
theorem ri_genUnregister (k j : Nat) : KeepsI (genUnregister k j) RI := by
  constructor
  unfold genUnregister
  apply hoare_bind _ (hoare_getGen k j RI)
  intro o
  cases o with
  | none => exact hoare_pure _ (fun _ h => h.1)
  | some g =>
    simp only
    apply hoare_bind (fun _ s => (s.fdClash = true ∨ (NoShare (rp s) ∧ ∃ ep0, Reg ep0 (rp s) ∧ pairs s.k = ep0.filter (·.1 != g.fd))) ∧
        (alookup s.srcs k).bind (·.gens[j]?) = some g)
    · intro s ⟨hri, hg⟩
      rw [kDel_run]
      cases h : epDel s.k g.fd with
      | ok k' =>
        refine ⟨?_, hg.symm⟩
        cases hri with
        | inl hf => exact Or.inl hf
        | inr hn => exact Or.inr ⟨hn.1, pairs s.k, hn.2, epDel_pairs _ _ _ h⟩
      | error io => exact hri
    intro _
    intro s ⟨hm, hg⟩
    obtain ⟨v, hv, hgj⟩ := bind_gens s k j g hg
    rw [modGen_run, hv]
    show RP (pairs s.k, rp { s with srcs := aset s.srcs k _ }, s.fdClash)
    rw [rp_modGen s k j _ v g hv hgj]
    cases hm with
    | inl hf => exact Or.inl hf
    | inr hn =>
      obtain ⟨hns, ep0, hreg, hep⟩ := hn
      refine Or.inr ?_
      show NoShare _ ∧ Reg (pairs s.k) _
      rw [hep]
      refine rp_step ep0 _ (rp s) k v.dropped (rpOf v).2 j g.fd g.token none
        (rp_row s k v hv) (row_at v j g hgj) ⟨hns, hreg⟩ (fun p hp hne => ?_) (fun t1 e => by cases e)
      exact List.mem_filter.mpr ⟨hp, by simpa using hne⟩

/-- an object is dropped: its sub-sources' entries go, everybody else's stay, and it leaves the live set -/
theorem rp_drop (ep ep' : List (Nat × Tok)) (m : RMap) (k : Nat) (d : Bool) (l l' : List (Nat × Option Tok))
    (hk : m k = some (d, l)) (hfd : l'.map (·.1) = l.map (·.1)) (h : NoShare m ∧ Reg ep m)
    (hkeep : ∀ p ∈ ep, p.1 ∉ l.map (·.1) → p ∈ ep') :
    NoShare (fun k' => if k' = k then some (true, l') else m k') ∧ Reg ep' (fun k' => if k' = k then some (true, l') else m k') := by
  have hget : ∀ (i fd : Nat) (t : Option Tok), l'[i]? = some (fd, t) → ∃ t0, l[i]? = some (fd, t0) := by
    intro i fd t hi
    have h1 : (l'.map (·.1))[i]? = some fd := by simp [hi]
    rw [hfd] at h1
    simp only [List.getElem?_map] at h1
    cases hl : l[i]? with
    | none => simp [hl] at h1
    | some q =>
      simp [hl] at h1
      exact ⟨q.2, by rw [← h1]⟩
  constructor
  · intro k1 k2 d1 d2 l1 l2 i1 i2 fd t1 t2 h1 h2 e1 e2
    have back : ∀ (k0 : Nat) (d0 : Bool) (l0 : List (Nat × Option Tok)) (i0 : Nat) (t' : Option Tok),
        (if k0 = k then some (true, l') else m k0) = some (d0, l0) → l0[i0]? = some (fd, t') →
        ∃ (d0' : Bool) (l0' : List (Nat × Option Tok)) (t'' : Option Tok), m k0 = some (d0', l0') ∧ l0'[i0]? = some (fd, t'') := by
      intro k0 d0 l0 i0 t' hm he
      by_cases e : k0 = k
      · subst e
        simp only [if_true] at hm
        injection hm with hm; injection hm with _ hl; subst hl
        obtain ⟨t0, ht0⟩ := hget i0 fd t' he
        exact ⟨d, l, t0, hk, ht0⟩
      · simp only [e, if_false] at hm
        exact ⟨d0, l0, t', hm, he⟩
    obtain ⟨_, _, _, a1, b1⟩ := back k1 d1 l1 i1 t1 h1 e1
    obtain ⟨_, _, _, a2, b2⟩ := back k2 d2 l2 i2 t2 h2 e2
    exact h.1 k1 k2 _ _ _ _ i1 i2 fd _ _ a1 a2 b1 b2
  · intro k' l0 i fd t hm he
    by_cases e : k' = k
    · subst e; simp at hm
    · simp only [e, if_false] at hm
      apply hkeep _ (h.2 k' l0 i fd t hm he)
      intro hin
      obtain ⟨q, hq, hq1⟩ := List.mem_map.mp hin
      obtain ⟨i', hi'⟩ := List.getElem?_of_mem hq
      have : l[i']? = some (fd, q.2) := by
        rw [hi']
        have : q.1 = fd := hq1
        rw [← this]
      exact e (h.1 k' k false d l0 l i i' fd (some t) q.2 hm hk he this).1

open Verif.Inv.Ctl in
theorem ri_maybeDrop (k : Nat) : KeepsI (maybeDrop k) RI := by
  constructor
  unfold maybeDrop
  apply hoare_bind (fun a s => RI s ∧ a = s) hoare_get
  intro s0
  cases hv : alookup s0.srcs k with
  | none => exact hoare_pure _ (fun _ h => h.1)
  | some src =>
    simp only
    split
    · exact hoare_pure _ (fun _ h => h.1)
    · apply hoare_bind (fun _ s => RI s ∧ s.srcs = s0.srcs)
      · intro s ⟨h1, h2⟩
        subst h2
        exact ⟨h1, rfl⟩
      intro _
      apply hoare_bind (fun _ s => s.srcs = s0.srcs ∧ (s.fdClash = true ∨ (NoShare (rp s) ∧ ∃ ep0, Reg ep0 (rp s) ∧
          ∀ p ∈ ep0, p.1 ∉ src.gens.map (·.fd) → p ∈ pairs s.k)))
      · apply hoare_modify
        intro s ⟨h1, h2⟩
        refine ⟨h2, ?_⟩
        cases h1 with
        | inl hf => exact Or.inl hf
        | inr hn => exact Or.inr ⟨hn.1, pairs s.k, hn.2, fun p hp hnin => dropGens_pairs src.gens s.k p hp hnin⟩
      intro _
      intro s ⟨h2, h3⟩
      have hv' : alookup s.srcs k = some src := by rw [h2]; exact hv
      rw [modSrc_run, hv']
      show RP (pairs s.k, rp { s with srcs := aset s.srcs k _ }, s.fdClash)
      rw [rp_aset]
      cases h3 with
      | inl hf => exact Or.inl hf
      | inr hn =>
        obtain ⟨hns, ep0, hreg, hkeep⟩ := hn
        refine Or.inr ?_
        have := rp_drop ep0 (pairs s.k) (rp s) k src.dropped (rpOf src).2
          ((src.gens.map fun g => ({ g with poller := false } : Gen)).map fun g => (g.fd, g.token))
          (rp_row s k src hv') (by simp [rpOf, List.map_map, Function.comp]) ⟨hns, hreg⟩
          (fun p hp hnin => hkeep p hp (by simpa [rpOf, List.map_map, Function.comp] using hnin))
        exact this

/-! ### every statement keeps the registrations in the table -/

abbrev KeepsR {α} (x : M α) : Prop := KeepsI x RI

syntax "ri_lemma" : tactic
macro_rules | `(tactic| ri_lemma) => `(tactic| fail "no lemma applies")
macro_rules | `(tactic| ri_lemma) => `(tactic| with_reducible exact ri_genRegister _ _ _)
macro_rules | `(tactic| ri_lemma) => `(tactic| with_reducible exact ri_genUnregister _ _)
macro_rules | `(tactic| ri_lemma) => `(tactic| with_reducible exact ri_maybeDrop _)
macro_rules | `(tactic| ri_lemma) => `(tactic| with_reducible exact ri_genReregister _ _ _)
macro_rules | `(tactic| ri_lemma) => `(tactic| with_reducible exact ki_of_keeps (keeps_of_frameR (fr_getGen _ _) RP))
macro_rules | `(tactic| ri_lemma) => `(tactic| with_reducible exact ki_of_keeps (keeps_of_frameR (fr_takeToken _) RP))
macro_rules | `(tactic| ri_lemma) => `(tactic| with_reducible exact ki_of_keeps (keeps_of_frameR (fr_kWrite _ _) RP))
macro_rules | `(tactic| ri_lemma) => `(tactic| with_reducible exact ki_of_keeps (keeps_of_frameR (fr_kRead _) RP))
macro_rules | `(tactic| ri_lemma) => `(tactic| (refine ki_of_keeps (keeps_of_frameR (fr_modSrc _ _ ?_) RP); intro _; first | rfl | (split <;> rfl)))
macro_rules | `(tactic| ri_lemma) => `(tactic| (refine ki_of_keeps (keeps_of_frameR (fr_modGen _ _ _ ?_) RP); intro _; exact ⟨rfl, rfl⟩))

macro "ri_step" : tactic => `(tactic| first
  | exact ki_of_keeps (keeps_pure _ _)
  | exact ki_of_keeps (keeps_throw _ _)
  | exact ki_of_keeps (keeps_get _)
  | ri_lemma
  | (refine ki_of_keeps (keeps_modify _ _ ?_); intro s h; exact h)
  | (refine ki_of_keeps (keeps_emit _ _ ?_); intro s h; exact h)
  | (apply ki_bind)
  | (apply ki_catchErr)
  | (apply ki_forEachM)
  | (apply ki_ite)
  | (intro _)
  | split)

macro "gf" : tactic => `(tactic| (repeat ri_step))

theorem ri_getSrc (k : Nat) : KeepsR (getSrc? k) := by unfold getSrc?; gf
macro_rules | `(tactic| ri_lemma) => `(tactic| with_reducible exact ri_getSrc _)

theorem ri_emit (o : Obs) : KeepsR (emit o) := by refine ki_of_keeps (keeps_emit _ _ ?_); intro s h; exact h
macro_rules | `(tactic| ri_lemma) => `(tactic| with_reducible exact ri_emit _)
theorem ri_throwErr {α} (e : Err) : KeepsR (throwErr e : M α) := ki_of_keeps (keeps_throw _ _)
macro_rules | `(tactic| ri_lemma) => `(tactic| with_reducible exact ri_throwErr _)
theorem ri_throwPanic {α} (p : Panic) : KeepsR (throwPanic p : M α) := ki_of_keeps (keeps_throw _ _)
macro_rules | `(tactic| ri_lemma) => `(tactic| with_reducible exact ri_throwPanic _)


theorem ri_customLoop (k : Nat) (kind : RegKind) (fail : Option Nat) (body : Nat → Factory → M Factory)
    (hb : ∀ j f, KeepsR (body j f)) (n j : Nat) (f : Factory) : KeepsR (customLoop k kind fail body n j f) := by
  induction n generalizing j f with
  | zero => unfold customLoop; gf
  | succ n ih =>
    unfold customLoop
    repeat (first | exact ih _ _ | exact hb _ _ | ri_step)

theorem ri_customRollback (k j : Nat) : KeepsR (customRollback k j) := by
  induction j with
  | zero => unfold customRollback; gf
  | succ j ih => unfold customRollback; repeat (first | exact ih | ri_step)
macro_rules | `(tactic| ri_lemma) => `(tactic| with_reducible exact ri_customRollback _ _)

theorem ri_customRegister (k : Nat) (fail : Option Nat) (rb : Bool) (n j : Nat) (f : Factory) :
    KeepsR (customRegister k fail rb n j f) := by
  induction n generalizing j f with
  | zero => unfold customRegister; gf
  | succ n ih => unfold customRegister; repeat (first | exact ih _ _ | ri_step)
macro_rules | `(tactic| ri_lemma) => `(tactic| with_reducible exact ri_customRegister _ _ _ _ _ _)

theorem ri_timerUnregister (k : Nat) : KeepsR (timerUnregister k) := by unfold timerUnregister; gf
macro_rules | `(tactic| ri_lemma) => `(tactic| with_reducible exact ri_timerUnregister _)
theorem ri_timerRegister (k : Nat) (f : Factory) : KeepsR (timerRegister k f) := by unfold timerRegister; gf
macro_rules | `(tactic| ri_lemma) => `(tactic| with_reducible exact ri_timerRegister _ _)

theorem ri_srcRegister (k : Nat) (f : Factory) : KeepsR (srcRegister k f) := by unfold srcRegister; gf
macro_rules | `(tactic| ri_lemma) => `(tactic| with_reducible exact ri_srcRegister _ _)

theorem ri_srcReregister (k : Nat) (f : Factory) : KeepsR (srcReregister k f) := by
  unfold srcReregister
  repeat (first | (apply ri_customLoop; intro j f; exact ri_genReregister _ _ _) | ri_step)
macro_rules | `(tactic| ri_lemma) => `(tactic| with_reducible exact ri_srcReregister _ _)

theorem ri_srcUnregister (k : Nat) : KeepsR (srcUnregister k) := by
  unfold srcUnregister
  repeat (first | (apply ri_customLoop; intro j f; repeat ri_step) | ri_step)
macro_rules | `(tactic| ri_lemma) => `(tactic| with_reducible exact ri_srcUnregister _)

theorem ri_isLife (k : Nat) : KeepsR (isLife k) := by unfold isLife; gf
macro_rules | `(tactic| ri_lemma) => `(tactic| with_reducible exact ri_isLife _)

theorem ri_dRegister (k : Nat) (tok : Tok) : KeepsR (dRegister k tok) := by unfold dRegister; gf
macro_rules | `(tactic| ri_lemma) => `(tactic| with_reducible exact ri_dRegister _ _)
theorem ri_dReregister (k : Nat) (tok : Tok) : KeepsR (dReregister k tok) := by unfold dReregister; gf
macro_rules | `(tactic| ri_lemma) => `(tactic| with_reducible exact ri_dReregister _ _)
theorem ri_dUnregister (k : Nat) (tok : Tok) : KeepsR (dUnregister k tok) := by unfold dUnregister; gf
macro_rules | `(tactic| ri_lemma) => `(tactic| with_reducible exact ri_dUnregister _ _)

theorem ri_userTok (k : Nat) : KeepsR (userTok k) := by unfold userTok; gf
macro_rules | `(tactic| ri_lemma) => `(tactic| with_reducible exact ri_userTok _)
theorem ri_doInsert (k : Nat) (keep : Bool) : KeepsR (doInsert k keep) := by unfold doInsert; gf
macro_rules | `(tactic| ri_lemma) => `(tactic| with_reducible exact ri_doInsert _ _)
theorem ri_doRemove (o : COp) (k : Nat) : KeepsR (doRemove o k) := by unfold doRemove; gf
macro_rules | `(tactic| ri_lemma) => `(tactic| with_reducible exact ri_doRemove _ _)
theorem ri_chanFd (k : Nat) : KeepsR (chanFd k) := by unfold chanFd; gf
macro_rules | `(tactic| ri_lemma) => `(tactic| with_reducible exact ri_chanFd _)


/-! ### user operations, event processing, dispatch: everything keeps the set duplicate-free -/

theorem ri_tokenOp (o : COp) (k : Nat) (body : Nat → Tok → M Unit) (hb : ∀ d t, KeepsR (body d t)) :
    KeepsR (tokenOp o k body) := by
  unfold tokenOp
  repeat (first | exact hb _ _ | ri_step)




/-- an fd watched by a sub-source of some object is among the fds of all objects -/
theorem mem_allFds (s : St) (k : Nat) (d : Bool) (l : List (Nat × Option Tok)) (i fd : Nat) (t : Option Tok)
    (hk : rp s k = some (d, l)) (hi : l[i]? = some (fd, t)) : fd ∈ allFds s := by
  unfold rp at hk
  cases hv : alookup s.srcs k with
  | none => simp [hv] at hk
  | some src =>
    simp [hv, rpOf] at hk
    obtain ⟨_, hl⟩ := hk
    subst hl
    simp only [List.getElem?_map] at hi
    cases hg : src.gens[i]? with
    | none => simp [hg] at hi
    | some g =>
      simp [hg] at hi
      have hmem := alookup_mem s.srcs k src hv
      unfold allFds
      refine List.mem_flatMap.mpr ⟨(k, src), hmem, ?_⟩
      exact List.mem_map.mpr ⟨g, List.mem_of_getElem? hg, hi.1⟩

/-- a fresh object whose fds nobody watches and whose sub-sources hold no token -/
theorem ri_new (s : St) (k : Nat) (v : Src) (h : RI s) (hk : alookup s.srcs k = none)
    (hfresh : s.fdClash = false → (v.gens.map (·.fd)).Nodup ∧ ∀ fd ∈ v.gens.map (·.fd), fd ∉ allFds s)
    (htok : ∀ g ∈ v.gens, g.token = none) : RI { s with srcs := aset s.srcs k v } := by
  show RP (pairs s.k, rp { s with srcs := aset s.srcs k v }, s.fdClash)
  rw [rp_aset]
  cases h with
  | inl hf => exact Or.inl hf
  | inr hn =>
    have hn : NoShare (rp s) ∧ Reg (pairs s.k) (rp s) := hn
    cases hfl : s.fdClash with
    | true => exact Or.inl rfl
    | false =>
      obtain ⟨hnd, hdis⟩ := hfresh hfl
      have hnone : rp s k = none := by simp [rp, hk]
      -- an entry of the new row: its index into `v.gens`
      have hrow : ∀ (i fd : Nat) (t : Option Tok), (rpOf v).2[i]? = some (fd, t) → ∃ g, v.gens[i]? = some g ∧ g.fd = fd ∧ g.token = t := by
        intro i fd t hi
        simp only [rpOf, List.getElem?_map] at hi
        cases hg : v.gens[i]? with
        | none => simp [hg] at hi
        | some g => simp [hg] at hi; exact ⟨g, rfl, hi.1, hi.2⟩
      refine Or.inr ⟨?_, ?_⟩
      · intro k1 k2 d1 d2 l1 l2 i1 i2 fd t1 t2 h1 h2 e1 e2
        by_cases c1 : k1 = k <;> by_cases c2 : k2 = k
        · subst c1; subst c2
          simp only [if_true] at h1 h2
          injection h1 with h1; injection h1 with _ hl1; subst hl1
          injection h2 with h2; injection h2 with _ hl2; subst hl2
          obtain ⟨g1, hg1, hf1, _⟩ := hrow i1 fd t1 e1
          obtain ⟨g2, hg2, hf2, _⟩ := hrow i2 fd t2 e2
          refine ⟨rfl, ?_⟩
          -- equal fds at two indices of a duplicate-free list
          have a1 : (v.gens.map (·.fd))[i1]? = some fd := by simp [hg1, hf1]
          have a2 : (v.gens.map (·.fd))[i2]? = some fd := by simp [hg2, hf2]
          have b1 := (List.getElem?_eq_some_iff.mp a1)
          have b2 := (List.getElem?_eq_some_iff.mp a2)
          exact (List.getElem_inj (h₀ := b1.1) (h₁ := b2.1) hnd).mp (b1.2.trans b2.2.symm)
        · subst c1
          simp only [if_true] at h1
          simp only [c2, if_false] at h2
          injection h1 with h1; injection h1 with _ hl1; subst hl1
          obtain ⟨g1, hg1, hf1, _⟩ := hrow i1 fd t1 e1
          exact absurd (mem_allFds s k2 d2 l2 i2 fd t2 h2 e2)
            (hdis fd (List.mem_map.mpr ⟨g1, List.mem_of_getElem? hg1, hf1⟩))
        · subst c2
          simp only [if_true] at h2
          simp only [c1, if_false] at h1
          injection h2 with h2; injection h2 with _ hl2; subst hl2
          obtain ⟨g2, hg2, hf2, _⟩ := hrow i2 fd t2 e2
          exact absurd (mem_allFds s k1 d1 l1 i1 fd t1 h1 e1)
            (hdis fd (List.mem_map.mpr ⟨g2, List.mem_of_getElem? hg2, hf2⟩))
        · simp only [c1, if_false] at h1
          simp only [c2, if_false] at h2
          exact hn.1 k1 k2 d1 d2 l1 l2 i1 i2 fd t1 t2 h1 h2 e1 e2
      · intro k' l i fd t hm he
        by_cases c : k' = k
        · subst c
          simp only [if_true] at hm
          injection hm with hm; injection hm with _ hl; subst hl
          obtain ⟨g, hg, _, ht⟩ := hrow i fd (some t) he
          rw [htok g (List.mem_of_getElem? hg)] at ht
          cases ht
        · simp only [c, if_false] at hm
          exact hn.2 k' l i fd t hm he

/-- what the creation of an object knows: the id is free, and unless the ghost flag is up the new fds are fresh -/
def Fresh (o : COp) (k : Nat) (s : St) : Prop :=
  RI s ∧ alookup s.srcs k = none ∧ (s.fdClash = false → (newFds o).Nodup ∧ ∀ fd ∈ newFds o, fd ∉ allFds s)

open Verif.Inv.Ctl in
theorem hoare_setSrc_newr (o : COp) (k : Nat) (v : Src) (hfds : v.gens.map (·.fd) = newFds o) (htok : ∀ g ∈ v.gens, g.token = none) :
    Hoare (Fresh o k) (setSrc k v) (fun _ => RI) RI := by
  unfold setSrc
  apply hoare_modify
  intro s ⟨h, hk, hf⟩
  exact ri_new s k v h hk (by rw [hfds]; exact hf) htok

open Verif.Inv.Ctl in
theorem hoare_newr (o : COp) (k : Nat) (h : isNew o = some k) :
    Hoare (Fresh o k) (execC' o) (fun _ => RI) RI := by
  cases o <;> simp only [isNew, Option.some.injEq, reduceCtorEq] at h <;> subst h <;> unfold execC'
  case newPing => exact hoare_setSrc_newr _ _ _ rfl (by intro g hg; simp at hg; subst hg; rfl)
  case newTimer => exact hoare_setSrc_newr _ _ _ rfl (by intro g hg; simp at hg)
  case newChan => exact hoare_setSrc_newr _ _ _ rfl (by intro g hg; simp at hg; subst hg; rfl)
  case newSync => exact hoare_setSrc_newr _ _ _ rfl (by intro g hg; simp at hg; subst hg; rfl)
  case newGen =>
    apply hoare_bind (fun a s => Fresh _ _ s ∧ a = s) hoare_get
    intro s0
    split
    · exact hoare_conseq (hoare_setSrc_newr _ _ _ rfl (by intro g hg; simp at hg; subst hg; rfl)) (fun _ h => h.1) (fun _ _ h => h) (fun _ h => h)
    · exact hoare_conseq (hoare_of_keeps (keeps_emit _ _ (fun s (h : RI s) => h))) (fun _ h => h.1.1) (fun _ _ h => h) (fun _ h => h)
  case newCustom k nsub life =>
    apply hoare_bind (fun _ s => Fresh (.newCustom k nsub life) k s)
    · apply hoare_modify
      intro s ⟨h, hk, hf⟩
      refine ⟨?_, hk, hf⟩
      show RP (pairs ((List.range nsub).foldl (fun kk j => setCounter kk (1000 * k + j) 0) s.k), rp s, s.fdClash)
      have : pairs ((List.range nsub).foldl (fun kk j => setCounter kk (1000 * k + j) 0) s.k) = pairs s.k := by
        unfold pairs; rw [foldl_setCounter_ep (List.range nsub) (fun j => 1000 * k + j)]
      rw [this]; exact h
    · intro _
      exact hoare_setSrc_newr _ _ _ (by simp [newFds, List.map_map, Function.comp]) (by intro g hg; simp at hg; obtain ⟨_, _, e⟩ := hg; subst e; rfl)

theorem ri_execCore (o : COp) (h : isNew o = none) : KeepsR (execC' o) := by
  cases o <;> simp only [isNew, reduceCtorEq] at h <;> unfold execC' <;>
    repeat (first | (apply ri_tokenOp; intro d t) | ri_step)

open Verif.Inv.Ctl in
theorem ri_execC (o : COp) : KeepsR (execC o) := by
  unfold execC
  apply ki_bind (by repeat ri_step)
  intro _
  cases hn : isNew o with
  | none => exact ri_execCore o hn
  | some k =>
    constructor
    simp only
    apply hoare_bind (fun a s => RI s ∧ a = s) hoare_get
    intro s0
    split
    · exact hoare_conseq (hoare_of_keeps (keeps_emit _ _ (fun s (h : RI s) => h))) (fun _ h => h.1) (fun _ _ h => h) (fun _ h => h)
    · rename_i hnone
      -- the ghost flag is raised if the new fds are not fresh; otherwise they are
      apply hoare_bind (fun _ s => Fresh o k s)
      · apply hoare_modify
        intro s ⟨hs, he⟩
        subst he
        have hk : alookup s0.srcs k = none := by
          cases hl : alookup s0.srcs k with
          | none => rfl
          | some v => simp [hl] at hnone
        refine ⟨?_, hk, ?_⟩
        · show RP (pairs s0.k, rp s0, (s0.fdClash || !decide (newFds o).Nodup || (newFds o).any (allFds s0).contains))
          cases hs with
          | inl hf => exact Or.inl (by rw [show s0.fdClash = true from hf]; rfl)
          | inr hg =>
            by_cases hc : (s0.fdClash || !decide (newFds o).Nodup || (newFds o).any (allFds s0).contains) = true
            · exact Or.inl hc
            · exact Or.inr hg
        · intro hfl
          have hfl' : (s0.fdClash || !decide (newFds o).Nodup || (newFds o).any (allFds s0).contains) = false := hfl
          simp only [Bool.or_eq_false_iff, Bool.not_eq_false', decide_eq_true_eq] at hfl'
          refine ⟨hfl'.1.2, fun fd hfd hin => ?_⟩
          have hin' : fd ∈ allFds s0 := hin
          have : (newFds o).any (allFds s0).contains = true :=
            List.any_eq_true.mpr ⟨fd, hfd, by simpa using hin'⟩
          rw [hfl'.2] at this; cases this
      · intro _
        exact hoare_newr o k hn
macro_rules | `(tactic| ri_lemma) => `(tactic| with_reducible exact ri_execC _)

theorem ri_runCb (k : Nat) (p : Payload) : KeepsR (runCb k p) := by unfold runCb; gf
macro_rules | `(tactic| ri_lemma) => `(tactic| with_reducible exact ri_runCb _ _)
theorem ri_retPA (r : Loop.Ret) : KeepsR (retPA r) := by cases r <;> unfold retPA <;> gf
macro_rules | `(tactic| ri_lemma) => `(tactic| with_reducible exact ri_retPA _)
theorem ri_genGate (k j : Nat) (ev : Event) : KeepsR (genGate k j ev) := by unfold genGate; gf
macro_rules | `(tactic| ri_lemma) => `(tactic| with_reducible exact ri_genGate _ _ _)

theorem ri_pingPE {α} (k : Nat) (ev : Event) (body : M α) (hb : KeepsR body) : KeepsR (pingPE k ev body) := by
  unfold pingPE; repeat (first | exact hb | ri_step)

theorem ri_chanDrain (k n : Nat) : KeepsR (chanDrain k n) := by
  induction n with
  | zero => unfold chanDrain; gf
  | succ n ih => unfold chanDrain; repeat (first | exact ih | ri_step)
macro_rules | `(tactic| ri_lemma) => `(tactic| with_reducible exact ri_chanDrain _ _)

theorem ri_customPE (k : Nat) (ev : Event) (n j : Nat) (acc : PA) : KeepsR (customPE k ev n j acc) := by
  induction n generalizing j acc with
  | zero => unfold customPE; gf
  | succ n ih => unfold customPE; repeat (first | exact ih _ _ | ri_step)
macro_rules | `(tactic| ri_lemma) => `(tactic| with_reducible exact ri_customPE _ _ _ _ _)

theorem ri_processEventsInner (k : Nat) (ev : Event) : KeepsR (processEventsInner k ev) := by
  unfold processEventsInner
  repeat (first
    | (apply ri_pingPE; first | exact ri_runCb _ _ | exact ri_chanDrain _ _)
    | ri_step)
macro_rules | `(tactic| ri_lemma) => `(tactic| with_reducible exact ri_processEventsInner _ _)



open Verif.Inv.Ctl in
theorem ri_processEvents (k : Nat) (ev : Event) : KeepsR (processEvents k ev) := by
  constructor
  intro s hs
  have hs1 : RI { s with running := some k, log := s.log ++ [.pe k] } := hs
  have hin := (ri_processEventsInner k ev).h _ hs1
  simp only [processEvents, bind, EStateM.bind, modify, modifyGet, MonadStateOf.modifyGet, EStateM.modifyGet, emit,
    tryCatch, tryCatchThe, MonadExceptOf.tryCatch, EStateM.tryCatch, pure, EStateM.pure]
  cases h : processEventsInner k ev { s with running := some k, log := s.log ++ [.pe k] } with
  | ok a s' =>
    rw [h] at hin
    simp only [EStateM.bind, EStateM.modifyGet, EStateM.pure]
    exact hin
  | error e s' =>
    rw [h] at hin
    cases e with
    | err e =>
      simp only [EStateM.bind, EStateM.modifyGet, throw, throwThe, MonadExceptOf.throw, EStateM.throw,
        EStateM.Backtrackable.restore, EStateM.dummyRestore]
      exact hin
    | panic p =>
      simp [EStateM.bind, EStateM.modifyGet, throw, throwThe, MonadExceptOf.throw, EStateM.throw,
        EStateM.Backtrackable.restore, EStateM.dummyRestore]
macro_rules | `(tactic| ri_lemma) => `(tactic| with_reducible exact ri_processEvents _ _)

theorem ri_beforeSleep (tok : Tok) : KeepsR (beforeSleep tok) := by unfold beforeSleep; gf
macro_rules | `(tactic| ri_lemma) => `(tactic| with_reducible exact ri_beforeSleep _)
theorem ri_beforeHandle (evs : List Event) (tok : Tok) : KeepsR (beforeHandle evs tok) := by unfold beforeHandle; gf
macro_rules | `(tactic| ri_lemma) => `(tactic| with_reducible exact ri_beforeHandle _ _)

theorem ri_processOne (ev : Event) : KeepsR (processOne ev) := by
  unfold processOne; repeat (first | ri_step | dsimp only)
macro_rules | `(tactic| ri_lemma) => `(tactic| with_reducible exact ri_processOne _)

theorem ri_batchLoop (l : List Event) (first : Option Err) : KeepsR (batchLoop l first) := by
  induction l generalizing first with
  | nil => unfold batchLoop; gf
  | cons ev rest ih => unfold batchLoop; repeat (first | exact ih _ | ri_step)
macro_rules | `(tactic| ri_lemma) => `(tactic| with_reducible exact ri_batchLoop _ _)

theorem ri_epWait (s : St) (h : RI s) : RI { s with k := (epWait s.k).2 } := by
  show RP (pairs (epWait s.k).2, rp s, s.fdClash)
  rw [epWait_pairs]; exact h

theorem ri_dispatchEvents : KeepsR dispatchEvents := by
  unfold dispatchEvents
  repeat (first
    | (refine ki_of_keeps (keeps_modify _ _ ?_); intro s h; exact ri_epWait s h)
    | ri_step | dsimp only)
theorem ri_runIdle (p : Nat × Nat) : KeepsR (runIdle p) := by unfold runIdle; gf
macro_rules | `(tactic| ri_lemma) => `(tactic| with_reducible exact ri_runIdle _)
theorem ri_dispatchIdles : KeepsR dispatchIdles := by unfold dispatchIdles; gf
theorem ri_dispatch : KeepsR dispatch := by
  unfold dispatch
  repeat (first | exact ri_dispatchEvents | exact ri_dispatchIdles | ri_step)
theorem ri_snapshot : KeepsR snapshot := by unfold snapshot; gf
theorem ri_execTop (o : Op) : KeepsR (execTop o) := by
  cases o <;> unfold execTop <;> repeat (first | exact ri_dispatch | exact ri_snapshot | ri_step)


theorem ri_step_ok (s : St) (o : Op) (h : RI s ∨ s.aborted = true) : RI (step s o) ∨ (step s o).aborted = true := by
  unfold step
  by_cases ha : s.aborted = true
  · rw [if_pos ha]; exact Or.inr ha
  · rw [if_neg ha]
    have hs : RI s := by cases h with | inl h => exact h | inr h => exact absurd h ha
    have := (ri_execTop o).h s hs
    cases hx : execTop o s with
    | ok a s' => rw [hx] at this; exact Or.inl this
    | error e s' =>
      rw [hx] at this
      cases e with
      | err e => exact Or.inl this
      | panic p => exact Or.inr rfl

theorem run_ri (ops : List Op) : RI (run ops) ∨ (run ops).aborted = true := by
  unfold run
  have : ∀ (l : List Op) (s : St), (RI s ∨ s.aborted = true) → (RI (l.foldl step s) ∨ (l.foldl step s).aborted = true) := by
    intro l
    induction l with
    | nil => intro s h; exact h
    | cons o l ih => intro s h; exact ih _ (ri_step_ok s o h)
  refine this ops {} (Or.inl (Or.inr ⟨?_, ?_⟩))
  · intro k1 k2 d1 d2 l1 l2 i1 i2 fd t1 t2 h1; simp [prR, rp, alookup] at h1
  · intro k l i fd t h1; simp [prR, rp, alookup] at h1

/-- **After every history** not aborted by a panic and in which no source object was created over an fd that an earlier
    object watches or watched (`fdClash`) — failed registrations with or without roll-back, failed unregistrations,
    one-shot disarming, sources removed or disabled from inside callbacks, dispatchers dropped while registered among
    them — every sub-source of a source object that has not been dropped and that holds a registration token is in the
    kernel's poller table, under exactly that token: what the loop believes to be registered, is. -/
theorem registered_is_in_the_table (ops : List Op) (hab : (run ops).aborted = false) (hfc : (run ops).fdClash = false)
    (k : Nat) (src : Src) (g : Gen) (t : Tok) (hk : alookup (run ops).srcs k = some src) (hd : src.dropped = false)
    (hg : g ∈ src.gens) (ht : g.token = some t) :
    ∃ e ∈ (run ops).k.ep, e.fd = g.fd ∧ e.key = t := by
  have h := (run_ri ops).resolve_right (by simp [hab])
  cases h with
  | inl hf => rw [show (run ops).fdClash = true from hf] at hfc; cases hfc
  | inr hn =>
    obtain ⟨i, hi⟩ := List.getElem?_of_mem hg
    have hrow : rp (run ops) k = some (false, (rpOf src).2) := by simp [rp, hk, rpOf, hd]
    have hent : (rpOf src).2[i]? = some (g.fd, some t) := by simp [rpOf, hi, ht]
    have := hn.2 k _ i g.fd t hrow hent
    obtain ⟨e, he, hp⟩ := List.mem_map.mp this
    injection hp with h1 h2
    exact ⟨e, he, h1, h2⟩

/-- … and no fd is watched by two sub-sources -/
theorem fds_not_shared (ops : List Op) (hab : (run ops).aborted = false) (hfc : (run ops).fdClash = false) :
    NoShare (rp (run ops)) := by
  cases (run_ri ops).resolve_right (by simp [hab]) with
  | inl hf => rw [show (run ops).fdClash = true from hf] at hfc; cases hfc
  | inr hn => exact hn.1

end Verif.Inv.RegOk
