/-
C07 / C16, from every state of the model: a source-level unregistration that succeeds (what `disable`, `remove`, a
`Disable` / `Remove` post action and `Drop` of an inserted source all go through) leaves every sub-source of the
source without its poller reference and without a token.  Together with `GhostFree.released_fd_not_registered`: by the
time a source has been disabled or removed its fds are no longer in the kernel's table (unless another source holds them).
-/
import Verif.Inv.GhostFree

namespace Verif.Inv.Release
open Verif.Loop Verif.Inv Verif.Kernel Verif.Slots Verif.Wheel Verif.Token Verif.Inv.TokInv Verif.Inv.OwnInv Verif.Inv.GhostFree

/-- the first `j` sub-sources of object `k` hold neither the poller nor a token -/
def Rel (k j : Nat) (s : St) : Prop :=
  ∀ src, alookup s.srcs k = some src → ∀ i g, i < j → src.gens[i]? = some g → g.poller = false ∧ g.token = none

/-- object `k` (if it exists) has `n` sub-sources -/
def Len (k n : Nat) (s : St) : Prop := ∀ src, alookup s.srcs k = some src → src.gens.length = n

open Verif.Inv.Ctl in
theorem hoare_genUnregister_rel (k j n : Nat) :
    Hoare (fun s => Rel k j s ∧ Len k n s) (genUnregister k j) (fun _ s => Rel k (j + 1) s ∧ Len k n s) (fun _ => True) := by
  unfold genUnregister
  apply hoare_bind _ (hoare_getGen k j _)
  intro o
  cases o with
  | none =>
    -- no such sub-source: nothing at index j
    refine hoare_pure _ (fun s h => ?_)
    obtain ⟨⟨hr, hl⟩, ho⟩ := h
    refine ⟨fun src hs i g hi hg => ?_, hl⟩
    by_cases hij : i = j
    · subst hij
      rw [hs] at ho
      simp [hg] at ho
    · exact hr src hs i g (by omega) hg
  | some g =>
    simp only
    apply hoare_bind (fun _ s => (Rel k j s ∧ Len k n s) ∧ (alookup s.srcs k).bind (·.gens[j]?) = some g)
    · intro s ⟨h, hg⟩
      rw [kDel_run]
      cases epDel s.k g.fd with
      | ok k' => exact ⟨h, hg.symm⟩
      | error io => trivial
    intro _
    intro s ⟨⟨hr, hl⟩, hg⟩
    obtain ⟨v, hv, hgj⟩ := bind_gens s k j g hg
    rw [modGen_run, hv]
    show Rel k (j + 1) { s with srcs := aset s.srcs k _ } ∧ Len k n { s with srcs := aset s.srcs k _ }
    refine ⟨fun src hs i g' hi hg' => ?_, fun src hs => ?_⟩
    · have hs' : alookup (aset s.srcs k { v with gens := v.gens.mapIdx (fun i x => if i == j then Gen.unregistered x else x) }) k = some src := hs
      rw [alookup_aset_self] at hs'
      injection hs' with e; subst e
      simp only [List.getElem?_mapIdx] at hg'
      by_cases hij : i = j
      · subst hij
        simp [hgj] at hg'
        subst hg'
        exact ⟨rfl, rfl⟩
      · have : (i == j) = false := by simpa using hij
        cases hgi : v.gens[i]? with
        | none => simp [hgi] at hg'
        | some x =>
          simp [hgi, this] at hg'
          subst hg'
          exact hr v hv i x (by omega) hgi
    · have hs' : alookup (aset s.srcs k { v with gens := v.gens.mapIdx (fun i x => if i == j then Gen.unregistered x else x) }) k = some src := hs
      rw [alookup_aset_self] at hs'
      injection hs' with e; subst e
      simp [hl v hv]

open Verif.Inv.Ctl in
theorem hoare_emit_rel (o : Obs) (P : St → Prop) (hP : ∀ s l, P s → P { s with log := l }) :
    Hoare P (emit o) (fun _ => P) (fun _ => True) := by
  unfold emit
  apply hoare_modify
  intro s h
  exact hP s _ h

theorem rel_log (k j n : Nat) (s : St) (l : List Obs) (h : Rel k j s ∧ Len k n s) :
    Rel k j { s with log := l } ∧ Len k n { s with log := l } := h

open Verif.Inv.Ctl in
/-- the unregistration walk over the sub-sources of a composite source: when it returns normally, every sub-source it
    walked over has been released -/
theorem hoare_customLoop_rel (k : Nat) (fail : Option Nat) (m : Nat) (n j : Nat) (f : Factory) :
    Hoare (fun s => Rel k j s ∧ Len k m s)
      (customLoop k .unregister fail (fun j f => do genUnregister k j; pure f) n j f)
      (fun _ s => Rel k (j + n) s ∧ Len k m s) (fun _ => True) := by
  induction n generalizing j f with
  | zero => unfold customLoop; exact hoare_pure _ (fun _ h => h)
  | succ n ih =>
    unfold customLoop
    split
    · apply hoare_bind (fun _ _ => True)
      · intro s _; trivial
      · intro _; exact hoare_throwErr _ (fun _ _ => trivial)
    · apply hoare_bind (fun r s => match r with | .ok _ => Rel k (j + 1) s ∧ Len k m s | .error _ => True)
      · have hbody : Hoare (fun s => Rel k j s ∧ Len k m s) (do genUnregister k j; pure f : M Factory)
            (fun _ s => Rel k (j + 1) s ∧ Len k m s) (fun _ => True) :=
          hoare_bind (fun _ s => Rel k (j + 1) s ∧ Len k m s) (hoare_genUnregister_rel k j m)
            (fun _ => hoare_pure _ (fun _ h => h))
        refine hoare_conseq (hoare_catchErr (E' := fun _ => True) hbody) (fun _ h => h) (fun a s h => ?_) (fun _ h => h)
        cases a <;> exact h
      intro r
      cases r with
      | ok f' =>
        simp only
        apply hoare_bind (fun _ s => Rel k (j + 1) s ∧ Len k m s)
        · exact hoare_emit_rel _ _ (fun s l h => rel_log k (j + 1) m s l h)
        · intro _
          have := ih (j + 1) f'
          have e : j + 1 + n = j + (n + 1) := by omega
          rw [e] at this
          exact this
      | error e =>
        simp only
        apply hoare_bind (fun _ _ => True)
        · intro s _; trivial
        · intro _; exact hoare_throwErr _ (fun _ _ => trivial)

/-- the shape `new*` gives a source object: composite sources have any number of sub-sources, ping / channel / generic
    sources one, timers none -/
def Shaped (k : Nat) (s : St) : Prop :=
  ∀ src, alookup s.srcs k = some src →
    (src.kind = .custom ∨ (src.kind = .timer ∧ src.gens = []) ∨ (src.kind ≠ .timer ∧ src.gens.length ≤ 1))

open Verif.Inv.Ctl in
/-- **From every state** (in which object `k` has the shape its constructor gave it): when the source-level
    unregistration of `k` returns normally, no sub-source of `k` holds the poller or a token any more. -/
theorem srcUnregister_releases (k : Nat) :
    Hoare (Shaped k) (srcUnregister k)
      (fun _ s => ∀ src, alookup s.srcs k = some src → ∀ g ∈ src.gens, g.poller = false ∧ g.token = none)
      (fun _ => True) := by
  unfold srcUnregister
  apply hoare_bind (fun a s => Shaped k s ∧ a = alookup s.srcs k)
  · intro s h; exact ⟨h, rfl⟩
  intro o
  cases o with
  | none => exact hoare_pure _ (fun s h src hs => by rw [← h.2] at hs; cases hs)
  | some v =>
    simp only
    have single : v.gens.length ≤ 1 →
        Hoare (fun s => Shaped k s ∧ some v = alookup s.srcs k) (genUnregister k 0)
          (fun _ s => ∀ src, alookup s.srcs k = some src → ∀ g ∈ src.gens, g.poller = false ∧ g.token = none) (fun _ => True) := by
      intro hlen
      refine hoare_conseq (hoare_genUnregister_rel k 0 v.gens.length) (fun s h => ⟨fun _ _ i _ hi _ => by omega, fun src hs => ?_⟩)
        (fun _ s h src hs g hg => ?_) (fun _ h => h)
      · rw [← h.2] at hs; injection hs with e; subst e; rfl
      · obtain ⟨i, hi⟩ := List.getElem?_of_mem hg
        have hl := h.2 src hs
        have : i < src.gens.length := (List.getElem?_eq_some_iff.mp hi).1
        exact h.1 src hs i g (by omega) hi
    have shape : ∀ s, Shaped k s ∧ some v = alookup s.srcs k →
        (v.kind = .custom ∨ (v.kind = .timer ∧ v.gens = []) ∨ (v.kind ≠ .timer ∧ v.gens.length ≤ 1)) :=
      fun s h => h.1 v h.2.symm
    cases hk : v.kind with
    | timer =>
      simp only
      -- a timer has no sub-sources; unregistering it touches the wheel and its own registration only
      intro s h
      have hsh := shape s h
      rw [hk] at hsh
      have hnil : v.gens = [] := by
        rcases hsh with h1 | h1 | h1
        · cases h1
        · exact h1.2
        · exact absurd rfl h1.1
      have hF := (ki_of_keeps (keeps_of_frameG (show FrameG (timerUnregister k) from by
        unfold timerUnregister
        intro c
        repeat (first
          | exact keeps_pure _ _
          | (apply keeps_modify; intro s h; exact h)
          | (refine fg_modSrc _ _ ?_ c; intro _; rfl)
          | (unfold getSrc?; apply keeps_bind; exact keeps_get _; intro _; exact keeps_pure _ _)
          | apply keeps_bind
          | intro _
          | split)) (fun c => c.2 k = some []))).h s (by simp [prG, gp, ← h.2, gpOf, hnil])
      cases hx : timerUnregister k s with
      | ok a s' =>
        rw [hx] at hF
        intro src hs g hg
        have : gp s' k = some [] := hF
        simp [gp, hs, gpOf] at this
        rw [this] at hg; cases hg
      | error e s' => cases e <;> trivial
    | custom =>
      simp only
      apply hoare_bind (fun _ s => ∀ src, alookup s.srcs k = some src → ∀ g ∈ src.gens, g.poller = false ∧ g.token = none)
      · refine hoare_conseq (hoare_customLoop_rel k v.plan.unregFail v.gens.length v.gens.length 0 (Factory.new default))
          (fun s h => ⟨fun _ _ i _ hi _ => by omega, fun src hs => ?_⟩) (fun _ s h src hs g hg => ?_) (fun _ h => h)
        · rw [← h.2] at hs; injection hs with e; subst e; rfl
        · obtain ⟨i, hi⟩ := List.getElem?_of_mem hg
          have hl := h.2 src hs
          have : i < src.gens.length := (List.getElem?_eq_some_iff.mp hi).1
          exact h.1 src hs i g (by omega) hi
      · intro _; exact hoare_pure _ (fun _ h => h)
    | ping =>
      simp only
      intro s h
      have hsh := shape s h
      rw [hk] at hsh
      have hlen : v.gens.length ≤ 1 := by
        rcases hsh with h1 | h1 | h1
        · cases h1
        · exact absurd h1.1 (by decide)
        · exact h1.2
      exact single hlen s h
    | chan =>
      simp only
      intro s h
      have hsh := shape s h
      rw [hk] at hsh
      have hlen : v.gens.length ≤ 1 := by
        rcases hsh with h1 | h1 | h1
        · cases h1
        · exact absurd h1.1 (by decide)
        · exact h1.2
      exact single hlen s h
    | gen =>
      simp only
      intro s h
      have hsh := shape s h
      rw [hk] at hsh
      have hlen : v.gens.length ≤ 1 := by
        rcases hsh with h1 | h1 | h1
        · cases h1
        · exact absurd h1.1 (by decide)
        · exact h1.2
      exact single hlen s h

end Verif.Inv.Release
