/-
A source object is never inserted while it already sits in a slot (Rust: `insert_source` consumes the value; the model:
the `owned` flag) — so the ghost flag `dupInsert` never rises, and the token and lifecycle theorems need not assume it.
-/
import Verif.Inv.TokInv

namespace Verif.Inv.OwnInv
open Verif.Loop Verif.Inv Verif.Kernel Verif.Slots Verif.Wheel Verif.Token Verif.Inv.TokInv

/-- who owns which source object: `some true` the user, `some false` the loop, `none` no such object -/
def om (s : St) : Nat → Option Bool := fun k => (alookup s.srcs k).map (·.owned)

/-- slot table, ownership, the flag -/
def prO (s : St) : Slots × (Nat → Option Bool) × Bool := (s.slots, om s, s.dupInsert)

theorem modSrc_run (k : Nat) (f : Src → Src) (s : St) :
    modSrc k f s = match alookup s.srcs k with
      | some v => .ok () { s with srcs := aset s.srcs k (f v) }
      | none => .ok () s := by
  unfold modSrc getSrc? setSrc
  simp only [bind, EStateM.bind, MonadState.get, getThe, MonadStateOf.get, EStateM.get, pure, EStateM.pure]
  cases alookup s.srcs k <;> rfl

theorem om_aset (s : St) (k : Nat) (v : Src) :
    om { s with srcs := aset s.srcs k v } = fun k' => if k' = k then some v.owned else om s k' := by
  funext k'
  unfold om
  by_cases h : k' = k
  · subst h; simp [alookup_aset_self]
  · simp [alookup_aset_other _ _ _ _ h, h]

theorem om_same (s : St) (k : Nat) (b : Bool) (h : om s k = some b) :
    (fun k' => if k' = k then some b else om s k') = om s := by
  funext k'
  by_cases hk : k' = k
  · subst hk; simp [h]
  · simp [hk]

abbrev FrameO {α} (x : M α) : Prop := ∀ c, Keeps x (fun s => prO s = c)

syntax "fo_lemma" : tactic
macro_rules | `(tactic| fo_lemma) => `(tactic| fail "no lemma applies")

macro "fo_step" : tactic => `(tactic| first
  | exact keeps_pure _ _
  | exact keeps_throw _ _
  | exact keeps_get _
  | fo_lemma
  | (apply keeps_modify; intro s h; exact h)
  | (apply keeps_emit; intro s h; exact h)
  | (apply keeps_bind)
  | (apply keeps_catchErr)
  | (apply keeps_forEachM)
  | (apply keeps_ite)
  | (intro _)
  | split)

macro "fo" : tactic => `(tactic| (intro c; repeat fo_step))

theorem fo_emit (o : Obs) : FrameO (emit o) := by intro c; apply keeps_emit; intro s h; exact h
macro_rules | `(tactic| fo_lemma) => `(tactic| with_reducible exact fo_emit _ _)
theorem fo_throwErr {α} (e : Err) : FrameO (throwErr e : M α) := by intro c; exact keeps_throw _ _
macro_rules | `(tactic| fo_lemma) => `(tactic| with_reducible exact fo_throwErr _ _)
theorem fo_throwPanic {α} (p : Panic) : FrameO (throwPanic p : M α) := by intro c; exact keeps_throw _ _
macro_rules | `(tactic| fo_lemma) => `(tactic| with_reducible exact fo_throwPanic _ _)

theorem fo_getSrc (k : Nat) : FrameO (getSrc? k) := by unfold getSrc?; fo
macro_rules | `(tactic| fo_lemma) => `(tactic| with_reducible exact fo_getSrc _ _)
theorem fo_modSrc (k : Nat) (f : Src → Src) (hf : ∀ v, (f v).owned = v.owned) : FrameO (modSrc k f) := by
  intro c
  constructor
  intro s hs
  unfold after
  rw [modSrc_run]
  cases hk : alookup s.srcs k with
  | none => exact hs
  | some v =>
    show prO { s with srcs := aset s.srcs k (f v) } = c
    rw [← hs]
    show (s.slots, om { s with srcs := aset s.srcs k (f v) }, s.dupInsert) = (s.slots, om s, s.dupInsert)
    rw [om_aset s k (f v), om_same s k ((f v).owned) (by simp [om, hk, hf v])]
macro_rules | `(tactic| fo_lemma) => `(tactic| (refine fo_modSrc _ _ ?_ _; intro _; first | rfl | (split <;> rfl) | (dsimp only; split <;> rfl)))
theorem fo_modGen (k j : Nat) (f : Gen → Gen) : FrameO (modGen k j f) := by unfold modGen; fo
macro_rules | `(tactic| fo_lemma) => `(tactic| with_reducible exact fo_modGen _ _ _ _)
theorem fo_getGen (k j : Nat) : FrameO (getGen? k j) := by unfold getGen?; fo
macro_rules | `(tactic| fo_lemma) => `(tactic| with_reducible exact fo_getGen _ _ _)
theorem fo_kAdd (e : EpEntry) : FrameO (kAdd e) := by unfold kAdd; fo
macro_rules | `(tactic| fo_lemma) => `(tactic| with_reducible exact fo_kAdd _ _)
theorem fo_kMod (e : EpEntry) : FrameO (kMod e) := by unfold kMod; fo
macro_rules | `(tactic| fo_lemma) => `(tactic| with_reducible exact fo_kMod _ _)
theorem fo_kDel (fd : Nat) : FrameO (kDel fd) := by unfold kDel; fo
macro_rules | `(tactic| fo_lemma) => `(tactic| with_reducible exact fo_kDel _ _)
theorem fo_kWrite (fd n : Nat) : FrameO (kWrite fd n) := by unfold kWrite; fo
macro_rules | `(tactic| fo_lemma) => `(tactic| with_reducible exact fo_kWrite _ _ _)
theorem fo_kRead (fd : Nat) : FrameO (kRead fd) := by unfold kRead; fo
macro_rules | `(tactic| fo_lemma) => `(tactic| with_reducible exact fo_kRead _ _)
theorem fo_takeToken (f : Factory) : FrameO (takeToken f) := by unfold takeToken; fo
macro_rules | `(tactic| fo_lemma) => `(tactic| with_reducible exact fo_takeToken _ _)
theorem fo_genRegister (k j : Nat) (f : Factory) : FrameO (genRegister k j f) := by unfold genRegister; fo
macro_rules | `(tactic| fo_lemma) => `(tactic| with_reducible exact fo_genRegister _ _ _ _)
theorem fo_genReregister (k j : Nat) (f : Factory) : FrameO (genReregister k j f) := by unfold genReregister; fo
macro_rules | `(tactic| fo_lemma) => `(tactic| with_reducible exact fo_genReregister _ _ _ _)
theorem fo_genUnregister (k j : Nat) : FrameO (genUnregister k j) := by unfold genUnregister; fo
macro_rules | `(tactic| fo_lemma) => `(tactic| with_reducible exact fo_genUnregister _ _ _)

theorem fo_customLoop (k : Nat) (kind : RegKind) (fail : Option Nat) (body : Nat → Factory → M Factory)
    (hb : ∀ j f, FrameO (body j f)) (n j : Nat) (f : Factory) : FrameO (customLoop k kind fail body n j f) := by
  induction n generalizing j f with
  | zero => unfold customLoop; fo
  | succ n ih =>
    unfold customLoop
    intro c
    repeat (first | exact ih _ _ c | exact hb _ _ c | fo_step)

theorem fo_customRollback (k j : Nat) : FrameO (customRollback k j) := by
  induction j with
  | zero => unfold customRollback; fo
  | succ j ih => unfold customRollback; intro c; repeat (first | exact ih c | fo_step)
macro_rules | `(tactic| fo_lemma) => `(tactic| with_reducible exact fo_customRollback _ _ _)

theorem fo_customRegister (k : Nat) (fail : Option Nat) (rb : Bool) (n j : Nat) (f : Factory) :
    FrameO (customRegister k fail rb n j f) := by
  induction n generalizing j f with
  | zero => unfold customRegister; fo
  | succ n ih => unfold customRegister; intro c; repeat (first | exact ih _ _ c | fo_step)
macro_rules | `(tactic| fo_lemma) => `(tactic| with_reducible exact fo_customRegister _ _ _ _ _ _ _)

theorem fo_timerUnregister (k : Nat) : FrameO (timerUnregister k) := by unfold timerUnregister; fo
macro_rules | `(tactic| fo_lemma) => `(tactic| with_reducible exact fo_timerUnregister _ _)
theorem fo_timerRegister (k : Nat) (f : Factory) : FrameO (timerRegister k f) := by unfold timerRegister; fo
macro_rules | `(tactic| fo_lemma) => `(tactic| with_reducible exact fo_timerRegister _ _ _)

theorem fo_srcRegister (k : Nat) (f : Factory) : FrameO (srcRegister k f) := by unfold srcRegister; fo
macro_rules | `(tactic| fo_lemma) => `(tactic| with_reducible exact fo_srcRegister _ _ _)

theorem fo_srcReregister (k : Nat) (f : Factory) : FrameO (srcReregister k f) := by
  unfold srcReregister
  intro c
  repeat (first | (apply fo_customLoop; intro j f; exact fo_genReregister _ _ _) | fo_step)
macro_rules | `(tactic| fo_lemma) => `(tactic| with_reducible exact fo_srcReregister _ _ _)

theorem fo_srcUnregister (k : Nat) : FrameO (srcUnregister k) := by
  unfold srcUnregister
  intro c
  repeat (first | (apply fo_customLoop; intro j f c; repeat fo_step) | fo_step)
macro_rules | `(tactic| fo_lemma) => `(tactic| with_reducible exact fo_srcUnregister _ _)

theorem fo_isLife (k : Nat) : FrameO (isLife k) := by unfold isLife; fo
macro_rules | `(tactic| fo_lemma) => `(tactic| with_reducible exact fo_isLife _ _)

theorem fo_dRegister (k : Nat) (tok : Tok) : FrameO (dRegister k tok) := by unfold dRegister; fo
macro_rules | `(tactic| fo_lemma) => `(tactic| with_reducible exact fo_dRegister _ _ _)
theorem fo_dReregister (k : Nat) (tok : Tok) : FrameO (dReregister k tok) := by unfold dReregister; fo
macro_rules | `(tactic| fo_lemma) => `(tactic| with_reducible exact fo_dReregister _ _ _)
theorem fo_dUnregister (k : Nat) (tok : Tok) : FrameO (dUnregister k tok) := by unfold dUnregister; fo
macro_rules | `(tactic| fo_lemma) => `(tactic| with_reducible exact fo_dUnregister _ _ _)

theorem fo_maybeDrop (k : Nat) : FrameO (maybeDrop k) := by unfold maybeDrop; fo
macro_rules | `(tactic| fo_lemma) => `(tactic| with_reducible exact fo_maybeDrop _ _)
theorem fo_userTok (k : Nat) : FrameO (userTok k) := by unfold userTok; fo
macro_rules | `(tactic| fo_lemma) => `(tactic| with_reducible exact fo_userTok _ _)


/-! ### the invariant -/

def Occ (ss : Slots) (k : Nat) : Prop := ∃ (j : Nat) (sl : Slot), ss[j]? = some sl ∧ sl.occ = some k

/-- no object was ever inserted twice, and whatever sits in a slot is not owned by the user -/
def OwnOkP (c : Slots × (Nat → Option Bool) × Bool) : Prop :=
  c.2.2 = false ∧ ∀ k, Occ c.1 k → c.2.1 k = some false

abbrev OwnOk : St → Prop := fun s => OwnOkP (prO s)

theorem keeps_of_frameO {α} {x : M α} (h : FrameO x) (R : Slots × (Nat → Option Bool) × Bool → Prop) :
    Keeps x (fun s => R (prO s)) := by
  constructor
  intro s hs
  have h1 : prO (after x s) = prO s := (h (prO s)).h s rfl
  show R (prO (after x s))
  rw [h1]; exact hs

theorem inSlot_false (s : St) (k : Nat) (h : ¬ Occ s.slots k) : inSlot s k = false := by
  cases hi : inSlot s k with
  | false => rfl
  | true =>
    exfalso
    obtain ⟨sl, hm, ho⟩ := List.any_eq_true.mp hi
    obtain ⟨j, hj⟩ := List.getElem?_of_mem hm
    exact h ⟨j, sl, hj, by simpa using ho⟩

theorem occ_vacate (ss : Slots) (i k : Nat) (h : Occ (setOcc ss i none) k) : Occ ss k := by
  obtain ⟨j, sl, hj, ho⟩ := h
  exact ⟨j, sl, (occ_of_setOcc_none ss i j sl k hj ho).1, ho⟩

theorem occ_vacantEntry (ss : Slots) (k : Nat) (h : Occ (vacantEntry bV ss).1 k) : Occ ss k := by
  obtain ⟨j, sl, hj, ho⟩ := h
  exact ⟨j, sl, occ_of_vacantEntry bV ss j sl k hj ho, ho⟩

theorem occ_churn (n : Nat) (ss : Slots) (k : Nat) (h : Occ (churnSlots n ss) k) : Occ ss k := by
  induction n generalizing ss with
  | zero => exact h
  | succ n ih => unfold churnSlots at h; exact occ_vacantEntry ss k (ih _ h)

theorem ownOk_vacate (s : St) (i : Nat) (h : OwnOk s) : OwnOk { s with slots := setOcc s.slots i none } :=
  ⟨h.1, fun k hk => h.2 k (occ_vacate _ _ _ hk)⟩

theorem ownOk_churn (s : St) (n : Nat) (h : OwnOk s) : OwnOk { s with slots := churnSlots n s.slots } :=
  ⟨h.1, fun k hk => h.2 k (occ_churn _ _ _ hk)⟩

/-! ### inserting -/

open Verif.Inv.Ctl in
theorem hoare_getSrc_own (k : Nat) :
    Hoare OwnOk (getSrc? k) (fun a s => OwnOk s ∧ a = alookup s.srcs k) OwnOk := by
  intro s hs
  exact ⟨hs, rfl⟩

theorem fo_doInsertTail0 (k : Nat) (e : Err) :
    FrameO (do
      maybeDrop k
      emit (.ins k (.err e)) : M Unit) := by
  intro c; repeat (first | fo_step | dsimp only)

open Verif.Inv.Ctl in
/-- from the point where the slot has been picked: the object went to the loop (`owned = false`) and sits in no slot -/
theorem hoare_doInsertAt_own (k : Nat) (src : Src) (ss0 : Slots) (hno : ¬ Occ ss0 k) :
    Hoare (fun s => OwnOk s ∧ s.slots = ss0 ∧ om s k = some false)
      (doInsertAt k src (vacantEntry bV ss0).1 (vacantEntry bV ss0).2
        (match (vacantEntry bV ss0).1[(vacantEntry bV ss0).2]? with | some sl => sl.tok | none => default))
      (fun _ => OwnOk) OwnOk := by
  unfold doInsertAt
  -- the only occupant the new table adds is `k`, in slot `i` alone
  have honly : ∀ d, Occ (setOcc (setOcc (vacantEntry bV ss0).1 (vacantEntry bV ss0).2 (some k)) (vacantEntry bV ss0).2 none) d →
      Occ ss0 d := by
    intro d ⟨j, sl, hj, ho⟩
    obtain ⟨h1, hne⟩ := occ_of_setOcc_none _ _ j sl d hj ho
    cases occ_of_occupy _ _ k j sl d h1 ho with
    | inl h => exact absurd h.1 hne
    | inr h => exact ⟨j, sl, occ_of_vacantEntry bV ss0 j sl d h.2 ho, ho⟩
  let Mid : Slots × (Nat → Option Bool) × Bool → Prop := fun c =>
    OwnOkP c ∧ c.1 = setOcc (vacantEntry bV ss0).1 (vacantEntry bV ss0).2 (some k) ∧ c.2.1 k = some false
  apply hoare_bind (fun _ s => Mid (prO s))
  · apply hoare_modify
    intro s ⟨hs, he, hk⟩
    subst he
    refine ⟨⟨?_, ?_⟩, rfl, hk⟩
    · show (s.dupInsert || inSlot s k) = false
      have h1 : s.dupInsert = false := hs.1
      rw [inSlot_false s k hno, h1]; rfl
    · intro d ⟨j, sl, hj, ho⟩
      cases occ_of_occupy _ _ k j sl d hj ho with
      | inl h => rw [h.2]; exact hk
      | inr h => exact hs.2 d ⟨j, sl, occ_of_vacantEntry bV s.slots j sl d h.2 ho, ho⟩
  intro _
  apply hoare_bind (fun _ s => Mid (prO s))
  · exact hoare_conseq (hoare_catchErr (E' := OwnOk) (hoare_of_keeps (keeps_of_frameO (fo_dRegister k _) Mid)))
      (fun _ h => h) (fun a s h => by cases a <;> exact h) (fun _ h => h)
  intro r
  cases r with
  | ok _ =>
    simp only
    apply hoare_bind (fun _ => OwnOk)
    · apply hoare_modify
      intro s h
      exact h.1
    · intro _
      exact hoare_of_keeps (keeps_of_frameO (fo_emit _) OwnOkP)
  | error e =>
    simp only
    -- the slot is vacated: `k` sits in no slot any more, so it may go back to the user
    apply hoare_bind (fun _ s => OwnOk s ∧ ¬ Occ s.slots k)
    · apply hoare_modify
      intro s ⟨hs, he, _⟩
      have he' : s.slots = setOcc (vacantEntry bV ss0).1 (vacantEntry bV ss0).2 (some k) := he
      refine ⟨ownOk_vacate s _ hs, ?_⟩
      show ¬ Occ (setOcc s.slots _ none) k
      rw [he']
      exact fun h => hno (honly k h)
    intro _
    split
    · apply hoare_bind (fun _ => OwnOk)
      · intro s ⟨hs, hnk⟩
        rw [modSrc_run]
        cases hk : alookup s.srcs k with
        | none => exact hs
        | some v =>
          show OwnOkP (s.slots, om { s with srcs := aset s.srcs k { v with owned := true } }, s.dupInsert)
          rw [om_aset]
          refine ⟨hs.1, fun d hd => ?_⟩
          have hdk : d ≠ k := fun e => hnk (e ▸ hd)
          simp only [hdk, if_false]
          exact hs.2 d hd
      · intro _
        exact hoare_of_keeps (keeps_of_frameO (fo_doInsertTail0 k e) OwnOkP)
    · exact hoare_conseq (hoare_of_keeps (keeps_of_frameO (fo_doInsertTail0 k e) OwnOkP)) (fun _ h => h.1) (fun _ _ h => h) (fun _ h => h)

/-! ### every statement of the model keeps the invariant -/

abbrev KeepsO {α} (x : M α) : Prop := KeepsI x OwnOk

syntax "ow_lemma" : tactic
macro_rules | `(tactic| ow_lemma) => `(tactic| fail "no lemma applies")

macro "ow_step" : tactic => `(tactic| first
  | exact ki_of_keeps (keeps_pure _ _)
  | exact ki_of_keeps (keeps_throw _ _)
  | exact ki_of_keeps (keeps_get _)
  | ow_lemma
  | (refine ki_of_keeps (keeps_of_frameO ?_ OwnOkP); intro _; fo_lemma)
  | (refine ki_of_keeps (keeps_modify _ _ ?_); intro s h; exact h)
  | (refine ki_of_keeps (keeps_modify _ _ ?_); intro s h; exact ownOk_vacate _ _ h)
  | (refine ki_of_keeps (keeps_modify _ _ ?_); intro s h; exact ownOk_churn _ _ h)
  | (refine ki_of_keeps (keeps_emit _ _ ?_); intro s h; exact h)
  | (apply ki_bind)
  | (apply ki_catchErr)
  | (apply ki_forEachM)
  | (apply ki_ite)
  | (intro _)
  | split)

macro "ow" : tactic => `(tactic| (repeat ow_step))

open Verif.Inv.Ctl in
theorem ow_doInsert (k : Nat) (keep : Bool) : KeepsO (doInsert k keep) := by
  constructor
  rw [doInsert_eq]
  apply hoare_bind _ (hoare_getSrc_own k)
  intro o
  split
  · exact hoare_conseq (hoare_of_keeps (keeps_of_frameO (fo_emit _) OwnOkP)) (fun _ h => h.1) (fun _ _ h => h) (fun _ h => h)
  · rename_i src
    split
    · exact hoare_conseq (hoare_of_keeps (keeps_of_frameO (fo_emit _) OwnOkP)) (fun _ h => h.1) (fun _ _ h => h) (fun _ h => h)
    · rename_i hown
      have hsrc : src.owned = true := by
        cases ho : src.owned with
        | true => rfl
        | false => simp [ho] at hown
      -- the object goes to the loop; it sat in no slot, because the user owned it
      apply hoare_bind (fun _ s => OwnOk s ∧ ¬ Occ s.slots k ∧ om s k = some false)
      · intro s ⟨hs, hk⟩
        rw [modSrc_run, ← hk]
        have hno : ¬ Occ s.slots k := by
          intro h
          have := hs.2 k h
          simp [prO, om, ← hk, hsrc] at this
        show OwnOkP (s.slots, om { s with srcs := aset s.srcs k _ }, s.dupInsert) ∧ _ ∧
          om { s with srcs := aset s.srcs k _ } k = some false
        rw [om_aset]
        refine ⟨⟨hs.1, fun d hd => ?_⟩, hno, by simp⟩
        have hdk : d ≠ k := fun e => hno (e ▸ hd)
        simp only [hdk, if_false]
        exact hs.2 d hd
      intro _
      apply hoare_bind (fun a s => (OwnOk s ∧ ¬ Occ s.slots k ∧ om s k = some false) ∧ a = s) hoare_get
      intro s0
      intro s ⟨⟨hs, hno, hk⟩, he⟩
      subst he
      exact hoare_doInsertAt_own k src s0.slots hno s0 ⟨hs, rfl, hk⟩
macro_rules | `(tactic| ow_lemma) => `(tactic| with_reducible exact ow_doInsert _ _)

theorem ow_doRemove (o : COp) (k : Nat) : KeepsO (doRemove o k) := by unfold doRemove; ow
macro_rules | `(tactic| ow_lemma) => `(tactic| with_reducible exact ow_doRemove _ _)

/-- a fresh id: the new object belongs to the user and sits in no slot -/
theorem ownOk_new (s : St) (k : Nat) (v : Src) (h : OwnOk s) (hk : alookup s.srcs k = none) :
    OwnOk { s with srcs := aset s.srcs k v } := by
  show OwnOkP (s.slots, om { s with srcs := aset s.srcs k v }, s.dupInsert)
  rw [om_aset]
  refine ⟨h.1, fun d hd => ?_⟩
  have hdk : d ≠ k := by
    intro e; subst e
    have := h.2 d hd
    simp [prO, om, hk] at this
  simp only [hdk, if_false]
  exact h.2 d hd

open Verif.Inv.Ctl in
theorem hoare_setSrc_new (k : Nat) (v : Src) :
    Hoare (fun s => OwnOk s ∧ alookup s.srcs k = none) (setSrc k v) (fun _ => OwnOk) OwnOk := by
  unfold setSrc
  apply hoare_modify
  intro s ⟨h, hk⟩
  exact ownOk_new s k v h hk

open Verif.Inv.Ctl in
/-- the operations that create an object, run on an id not in use -/
theorem hoare_new (o : COp) (k : Nat) (h : isNew o = some k) :
    Hoare (fun s => OwnOk s ∧ alookup s.srcs k = none) (execC' o) (fun _ => OwnOk) OwnOk := by
  cases o <;> simp only [isNew, Option.some.injEq, reduceCtorEq] at h <;> subst h <;> unfold execC'
  case newPing => exact hoare_setSrc_new _ _
  case newTimer => exact hoare_setSrc_new _ _
  case newChan => exact hoare_setSrc_new _ _
  case newSync => exact hoare_setSrc_new _ _
  case newGen =>
    apply hoare_bind (fun a s => (OwnOk s ∧ alookup s.srcs _ = none) ∧ a = s) hoare_get
    intro s0
    split
    · exact hoare_conseq (hoare_setSrc_new _ _) (fun _ h => h.1) (fun _ _ h => h) (fun _ h => h)
    · exact hoare_conseq (hoare_of_keeps (keeps_of_frameO (fo_emit _) OwnOkP)) (fun _ h => h.1.1) (fun _ _ h => h) (fun _ h => h)
  case newCustom =>
    apply hoare_bind (fun _ s => OwnOk s ∧ alookup s.srcs _ = none)
    · apply hoare_modify
      intro s h
      exact h
    · intro _
      exact hoare_setSrc_new _ _

theorem ow_tokenOp (o : COp) (k : Nat) (body : Nat → Tok → M Unit) (hb : ∀ d t, KeepsO (body d t)) :
    KeepsO (tokenOp o k body) := by
  unfold tokenOp
  repeat (first | exact hb _ _ | ow_step)

example (k : Nat) : FrameO (modSrc k fun s => if s.handles > 0 then { s with handles := s.handles + 1 } else s) := by
  intro c
  refine fo_modSrc _ _ ?_ _
  intro v
  split <;> rfl

theorem ow_execCore (o : COp) (h : isNew o = none) : KeepsO (execC' o) := by
  cases o <;> simp only [isNew, reduceCtorEq] at h <;> unfold execC' <;>
    repeat (first | (apply ow_tokenOp; intro d t) | ow_step)

open Verif.Inv.Ctl in
theorem ow_execC (o : COp) : KeepsO (execC o) := by
  unfold execC
  apply ki_bind (by ow)
  intro _
  cases hn : isNew o with
  | none => exact ow_execCore o hn
  | some k =>
    constructor
    simp only
    apply hoare_bind (fun a s => OwnOk s ∧ a = s) hoare_get
    intro s0
    split
    · exact hoare_conseq (hoare_of_keeps (keeps_of_frameO (fo_emit _) OwnOkP)) (fun _ h => h.1) (fun _ _ h => h) (fun _ h => h)
    · rename_i hnone
      apply hoare_bind (fun _ s => OwnOk s ∧ alookup s.srcs k = none)
      · apply hoare_modify
        intro s ⟨hs, he⟩
        subst he
        refine ⟨hs, ?_⟩
        show alookup s0.srcs k = none
        cases hl : alookup s0.srcs k with
        | none => rfl
        | some v => simp [hl] at hnone
      · intro _
        exact hoare_new o k hn
macro_rules | `(tactic| ow_lemma) => `(tactic| with_reducible exact ow_execC _)

theorem ow_runCb (k : Nat) (p : Payload) : KeepsO (runCb k p) := by unfold runCb; ow
macro_rules | `(tactic| ow_lemma) => `(tactic| with_reducible exact ow_runCb _ _)
theorem ow_retPA (r : Loop.Ret) : KeepsO (retPA r) := by cases r <;> unfold retPA <;> ow
macro_rules | `(tactic| ow_lemma) => `(tactic| with_reducible exact ow_retPA _)
theorem ow_genGate (k j : Nat) (ev : Event) : KeepsO (genGate k j ev) := by unfold genGate; ow
macro_rules | `(tactic| ow_lemma) => `(tactic| with_reducible exact ow_genGate _ _ _)

theorem ow_pingPE {α} (k : Nat) (ev : Event) (body : M α) (hb : KeepsO body) : KeepsO (pingPE k ev body) := by
  unfold pingPE; repeat (first | exact hb | ow_step)

theorem ow_chanDrain (k n : Nat) : KeepsO (chanDrain k n) := by
  induction n with
  | zero => unfold chanDrain; ow
  | succ n ih => unfold chanDrain; repeat (first | exact ih | ow_step)
macro_rules | `(tactic| ow_lemma) => `(tactic| with_reducible exact ow_chanDrain _ _)

theorem ow_customPE (k : Nat) (ev : Event) (n j : Nat) (acc : PA) : KeepsO (customPE k ev n j acc) := by
  induction n generalizing j acc with
  | zero => unfold customPE; ow
  | succ n ih => unfold customPE; repeat (first | exact ih _ _ | ow_step)
macro_rules | `(tactic| ow_lemma) => `(tactic| with_reducible exact ow_customPE _ _ _ _ _)

theorem ow_processEventsInner (k : Nat) (ev : Event) : KeepsO (processEventsInner k ev) := by
  unfold processEventsInner
  repeat (first
    | (apply ow_pingPE; first | exact ow_runCb _ _ | exact ow_chanDrain _ _)
    | ow_step)
macro_rules | `(tactic| ow_lemma) => `(tactic| with_reducible exact ow_processEventsInner _ _)

theorem ow_processEvents (k : Nat) (ev : Event) : KeepsO (processEvents k ev) := by
  constructor
  intro s hs
  have hs1 : OwnOk { s with running := some k, log := s.log ++ [.pe k] } := hs
  have hin := (ow_processEventsInner k ev).h _ hs1
  simp only [processEvents, bind, EStateM.bind, modify, modifyGet, MonadStateOf.modifyGet, EStateM.modifyGet, emit,
    tryCatch, tryCatchThe, MonadExceptOf.tryCatch, EStateM.tryCatch, pure, EStateM.pure]
  cases h : processEventsInner k ev { s with running := some k, log := s.log ++ [.pe k] } with
  | ok a s' =>
    rw [h] at hin
    simp only [EStateM.bind, EStateM.modifyGet, EStateM.pure]
    exact hin
  | error e s' =>
    rw [h] at hin
    cases e with
    | err e =>
      simp only [EStateM.bind, EStateM.modifyGet, throw, throwThe, MonadExceptOf.throw, EStateM.throw,
        EStateM.Backtrackable.restore, EStateM.dummyRestore]
      exact hin
    | panic p =>
      simp [EStateM.bind, EStateM.modifyGet, throw, throwThe, MonadExceptOf.throw, EStateM.throw,
        EStateM.Backtrackable.restore, EStateM.dummyRestore]
macro_rules | `(tactic| ow_lemma) => `(tactic| with_reducible exact ow_processEvents _ _)

theorem ow_beforeSleep (tok : Tok) : KeepsO (beforeSleep tok) := by unfold beforeSleep; ow
macro_rules | `(tactic| ow_lemma) => `(tactic| with_reducible exact ow_beforeSleep _)
theorem ow_beforeHandle (evs : List Event) (tok : Tok) : KeepsO (beforeHandle evs tok) := by unfold beforeHandle; ow
macro_rules | `(tactic| ow_lemma) => `(tactic| with_reducible exact ow_beforeHandle _ _)

theorem ow_processOne (ev : Event) : KeepsO (processOne ev) := by
  unfold processOne; repeat (first | ow_step | dsimp only)
macro_rules | `(tactic| ow_lemma) => `(tactic| with_reducible exact ow_processOne _)

theorem ow_batchLoop (l : List Event) (first : Option Err) : KeepsO (batchLoop l first) := by
  induction l generalizing first with
  | nil => unfold batchLoop; ow
  | cons ev rest ih => unfold batchLoop; repeat (first | exact ih _ | ow_step)
macro_rules | `(tactic| ow_lemma) => `(tactic| with_reducible exact ow_batchLoop _ _)

theorem ow_dispatchEvents : KeepsO dispatchEvents := by
  unfold dispatchEvents; repeat (first | ow_step | dsimp only)
theorem ow_runIdle (p : Nat × Nat) : KeepsO (runIdle p) := by unfold runIdle; ow
macro_rules | `(tactic| ow_lemma) => `(tactic| with_reducible exact ow_runIdle _)
theorem ow_dispatchIdles : KeepsO dispatchIdles := by unfold dispatchIdles; ow
theorem ow_dispatch : KeepsO dispatch := by
  unfold dispatch
  repeat (first | exact ow_dispatchEvents | exact ow_dispatchIdles | ow_step)
theorem ow_snapshot : KeepsO snapshot := by unfold snapshot; ow
theorem ow_execTop (o : Op) : KeepsO (execTop o) := by
  cases o <;> unfold execTop <;> repeat (first | exact ow_dispatch | exact ow_snapshot | ow_step)


theorem ow_step_ok (s : St) (o : Op) (h : OwnOk s ∨ s.aborted = true) : OwnOk (step s o) ∨ (step s o).aborted = true := by
  unfold step
  by_cases ha : s.aborted = true
  · rw [if_pos ha]; exact Or.inr ha
  · rw [if_neg ha]
    have hs : OwnOk s := by cases h with | inl h => exact h | inr h => exact absurd h ha
    have := (ow_execTop o).h s hs
    cases hx : execTop o s with
    | ok a s' => rw [hx] at this; exact Or.inl this
    | error e s' =>
      rw [hx] at this
      cases e with
      | err e => exact Or.inl this
      | panic p => exact Or.inr rfl


theorem run_ownOk (ops : List Op) : OwnOk (run ops) ∨ (run ops).aborted = true := by
  unfold run
  have : ∀ (l : List Op) (s : St), (OwnOk s ∨ s.aborted = true) → (OwnOk (l.foldl step s) ∨ (l.foldl step s).aborted = true) := by
    intro l
    induction l with
    | nil => intro s h; exact h
    | cons o l ih => intro s h; exact ih _ (ow_step_ok s o h)
  refine this ops {} (Or.inl ⟨rfl, ?_⟩)
  intro k ⟨j, sl, hj, _⟩
  simp [prO] at hj

/-- **After every history** that did not end in a panic: no source object was ever inserted while it already sat in a
    slot — the ghost flag `dupInsert` stays down, so the theorems that exclude it exclude nothing reachable. -/
theorem never_inserted_twice (ops : List Op) (hab : (run ops).aborted = false) : (run ops).dupInsert = false :=
  ((run_ownOk ops).resolve_right (by simp [hab])).1

/-- … and an object that sits in a slot is not in the user's hands -/
theorem occupant_not_owned (ops : List Op) (hab : (run ops).aborted = false) (k : Nat) (h : inSlot (run ops) k = true) :
    (alookup (run ops).srcs k).map (·.owned) = some false := by
  obtain ⟨sl, hm, ho⟩ := List.any_eq_true.mp h
  obtain ⟨j, hj⟩ := List.getElem?_of_mem hm
  exact ((run_ownOk ops).resolve_right (by simp [hab])).2 k ⟨j, sl, hj, by simpa using ho⟩

end Verif.Inv.OwnInv
