/-
Which statements of the loop model can change the slot table, the tokens handed to the user, or the
generation-wrap flag — and the invariant over the *whole* model that a registration token, once issued,
resolves to no source but its own (C06, C01), unless a generation wrapped (finding F12, `aliased`).
-/
import Verif.Inv.Ctl
import Verif.Inv.Slots

namespace Verif.Inv.TokInv
open Verif.Loop Verif.Inv Verif.Kernel Verif.Slots Verif.Wheel Verif.Token

/-- the slot table, the tokens the user holds, and whether one of the two events the invariants exclude has happened:
    a generation wrapped (`aliased`, finding F12) or a source object was inserted twice (`dupInsert`, impossible in Rust) -/
def prA (s : St) : Slots × List (Nat × Tok) × Bool := (s.slots, s.tokens, s.aliased || s.dupInsert)

abbrev FrameA {α} (x : M α) : Prop := ∀ c, Keeps x (fun s => prA s = c)

syntax "fa_lemma" : tactic
macro_rules | `(tactic| fa_lemma) => `(tactic| fail "no lemma applies")

macro "fa_step" : tactic => `(tactic| first
  | exact keeps_pure _ _
  | exact keeps_throw _ _
  | exact keeps_get _
  | fa_lemma
  | (apply keeps_modify; intro s h; exact h)
  | (apply keeps_emit; intro s h; exact h)
  | (apply keeps_bind)
  | (apply keeps_catchErr)
  | (apply keeps_forEachM)
  | (apply keeps_ite)
  | (intro _)
  | split)

macro "fa" : tactic => `(tactic| (intro c; repeat fa_step))

theorem fa_emit (o : Obs) : FrameA (emit o) := by intro c; apply keeps_emit; intro s h; exact h
macro_rules | `(tactic| fa_lemma) => `(tactic| with_reducible exact fa_emit _ _)
theorem fa_throwErr {α} (e : Err) : FrameA (throwErr e : M α) := by intro c; exact keeps_throw _ _
macro_rules | `(tactic| fa_lemma) => `(tactic| with_reducible exact fa_throwErr _ _)
theorem fa_throwPanic {α} (p : Panic) : FrameA (throwPanic p : M α) := by intro c; exact keeps_throw _ _
macro_rules | `(tactic| fa_lemma) => `(tactic| with_reducible exact fa_throwPanic _ _)

theorem fa_getSrc (k : Nat) : FrameA (getSrc? k) := by unfold getSrc?; fa
macro_rules | `(tactic| fa_lemma) => `(tactic| with_reducible exact fa_getSrc _ _)
theorem fa_setSrc (k : Nat) (v : Src) : FrameA (setSrc k v) := by unfold setSrc; fa
macro_rules | `(tactic| fa_lemma) => `(tactic| with_reducible exact fa_setSrc _ _ _)
theorem fa_modSrc (k : Nat) (f : Src → Src) : FrameA (modSrc k f) := by unfold modSrc; fa
macro_rules | `(tactic| fa_lemma) => `(tactic| with_reducible exact fa_modSrc _ _ _)
theorem fa_modGen (k j : Nat) (f : Gen → Gen) : FrameA (modGen k j f) := by unfold modGen; fa
macro_rules | `(tactic| fa_lemma) => `(tactic| with_reducible exact fa_modGen _ _ _ _)
theorem fa_getGen (k j : Nat) : FrameA (getGen? k j) := by unfold getGen?; fa
macro_rules | `(tactic| fa_lemma) => `(tactic| with_reducible exact fa_getGen _ _ _)
theorem fa_kAdd (e : EpEntry) : FrameA (kAdd e) := by unfold kAdd; fa
macro_rules | `(tactic| fa_lemma) => `(tactic| with_reducible exact fa_kAdd _ _)
theorem fa_kMod (e : EpEntry) : FrameA (kMod e) := by unfold kMod; fa
macro_rules | `(tactic| fa_lemma) => `(tactic| with_reducible exact fa_kMod _ _)
theorem fa_kDel (fd : Nat) : FrameA (kDel fd) := by unfold kDel; fa
macro_rules | `(tactic| fa_lemma) => `(tactic| with_reducible exact fa_kDel _ _)
theorem fa_kWrite (fd n : Nat) : FrameA (kWrite fd n) := by unfold kWrite; fa
macro_rules | `(tactic| fa_lemma) => `(tactic| with_reducible exact fa_kWrite _ _ _)
theorem fa_kRead (fd : Nat) : FrameA (kRead fd) := by unfold kRead; fa
macro_rules | `(tactic| fa_lemma) => `(tactic| with_reducible exact fa_kRead _ _)
theorem fa_takeToken (f : Factory) : FrameA (takeToken f) := by unfold takeToken; fa
macro_rules | `(tactic| fa_lemma) => `(tactic| with_reducible exact fa_takeToken _ _)
theorem fa_genRegister (k j : Nat) (f : Factory) : FrameA (genRegister k j f) := by unfold genRegister; fa
macro_rules | `(tactic| fa_lemma) => `(tactic| with_reducible exact fa_genRegister _ _ _ _)
theorem fa_genReregister (k j : Nat) (f : Factory) : FrameA (genReregister k j f) := by unfold genReregister; fa
macro_rules | `(tactic| fa_lemma) => `(tactic| with_reducible exact fa_genReregister _ _ _ _)
theorem fa_genUnregister (k j : Nat) : FrameA (genUnregister k j) := by unfold genUnregister; fa
macro_rules | `(tactic| fa_lemma) => `(tactic| with_reducible exact fa_genUnregister _ _ _)

theorem fa_customLoop (k : Nat) (kind : RegKind) (fail : Option Nat) (body : Nat → Factory → M Factory)
    (hb : ∀ j f, FrameA (body j f)) (n j : Nat) (f : Factory) : FrameA (customLoop k kind fail body n j f) := by
  induction n generalizing j f with
  | zero => unfold customLoop; fa
  | succ n ih =>
    unfold customLoop
    intro c
    repeat (first | exact ih _ _ c | exact hb _ _ c | fa_step)

theorem fa_customRollback (k j : Nat) : FrameA (customRollback k j) := by
  induction j with
  | zero => unfold customRollback; fa
  | succ j ih => unfold customRollback; intro c; repeat (first | exact ih c | fa_step)
macro_rules | `(tactic| fa_lemma) => `(tactic| with_reducible exact fa_customRollback _ _ _)

theorem fa_customRegister (k : Nat) (fail : Option Nat) (rb : Bool) (n j : Nat) (f : Factory) :
    FrameA (customRegister k fail rb n j f) := by
  induction n generalizing j f with
  | zero => unfold customRegister; fa
  | succ n ih => unfold customRegister; intro c; repeat (first | exact ih _ _ c | fa_step)
macro_rules | `(tactic| fa_lemma) => `(tactic| with_reducible exact fa_customRegister _ _ _ _ _ _ _)

theorem fa_timerUnregister (k : Nat) : FrameA (timerUnregister k) := by unfold timerUnregister; fa
macro_rules | `(tactic| fa_lemma) => `(tactic| with_reducible exact fa_timerUnregister _ _)
theorem fa_timerRegister (k : Nat) (f : Factory) : FrameA (timerRegister k f) := by unfold timerRegister; fa
macro_rules | `(tactic| fa_lemma) => `(tactic| with_reducible exact fa_timerRegister _ _ _)

theorem fa_srcRegister (k : Nat) (f : Factory) : FrameA (srcRegister k f) := by unfold srcRegister; fa
macro_rules | `(tactic| fa_lemma) => `(tactic| with_reducible exact fa_srcRegister _ _ _)

theorem fa_srcReregister (k : Nat) (f : Factory) : FrameA (srcReregister k f) := by
  unfold srcReregister
  intro c
  repeat (first | (apply fa_customLoop; intro j f; exact fa_genReregister _ _ _) | fa_step)
macro_rules | `(tactic| fa_lemma) => `(tactic| with_reducible exact fa_srcReregister _ _ _)

theorem fa_srcUnregister (k : Nat) : FrameA (srcUnregister k) := by
  unfold srcUnregister
  intro c
  repeat (first | (apply fa_customLoop; intro j f c; repeat fa_step) | fa_step)
macro_rules | `(tactic| fa_lemma) => `(tactic| with_reducible exact fa_srcUnregister _ _)

theorem fa_isLife (k : Nat) : FrameA (isLife k) := by unfold isLife; fa
macro_rules | `(tactic| fa_lemma) => `(tactic| with_reducible exact fa_isLife _ _)

theorem fa_dRegister (k : Nat) (tok : Tok) : FrameA (dRegister k tok) := by unfold dRegister; fa
macro_rules | `(tactic| fa_lemma) => `(tactic| with_reducible exact fa_dRegister _ _ _)
theorem fa_dReregister (k : Nat) (tok : Tok) : FrameA (dReregister k tok) := by unfold dReregister; fa
macro_rules | `(tactic| fa_lemma) => `(tactic| with_reducible exact fa_dReregister _ _ _)
theorem fa_dUnregister (k : Nat) (tok : Tok) : FrameA (dUnregister k tok) := by unfold dUnregister; fa
macro_rules | `(tactic| fa_lemma) => `(tactic| with_reducible exact fa_dUnregister _ _ _)

theorem fa_maybeDrop (k : Nat) : FrameA (maybeDrop k) := by unfold maybeDrop; fa
macro_rules | `(tactic| fa_lemma) => `(tactic| with_reducible exact fa_maybeDrop _ _)
theorem fa_userTok (k : Nat) : FrameA (userTok k) := by unfold userTok; fa
macro_rules | `(tactic| fa_lemma) => `(tactic| with_reducible exact fa_userTok _ _)

/-! ### the slot table on its own -/

/-- occupant of the slot a token resolves to -/
def disp (ss : Slots) (t : Tok) : Option Nat := (Slots.get ss t).bind (·.occ)

theorem slotDisp_eq (s : St) (t : Tok) : slotDisp s t = disp s.slots t := rfl

/-- every slot's own token carries the slot's index and sub-id 0 -/
def WFS (ss : Slots) : Prop := ∀ (i : Nat) (sl : Slot), ss[i]? = some sl → sl.tok.id = i ∧ sl.tok.sub = 0

theorem wfs_nil : WFS [] := by unfold WFS; intro i sl h; simp at h

theorem wfs_setOcc (ss : Slots) (i : Nat) (o : Option Nat) (h : WFS ss) : WFS (setOcc ss i o) := by
  unfold WFS at *
  intro j sl hj
  rw [Verif.Inv.Slots.setOcc_getElem] at hj
  split at hj
  · cases hs : ss[j]? with
    | none => simp [hs] at hj
    | some x => simp [hs] at hj; subst hj; exact h j x hs
  · exact h j sl hj

theorem wfs_bumpAt (bV : Nat) (ss : Slots) (i : Nat) (h : WFS ss) : WFS (bumpAt bV ss i) := by
  unfold WFS at *
  intro j sl hj
  rw [Verif.Inv.Slots.bumpAt_getElem] at hj
  split at hj
  · cases hs : ss[j]? with
    | none => simp [hs] at hj
    | some x =>
      simp [hs] at hj; subst hj
      exact ⟨(h j x hs).1, rfl⟩
  · exact h j sl hj

theorem wfs_vacantEntry (bV : Nat) (ss : Slots) (h : WFS ss) : WFS (vacantEntry bV ss).1 := by
  unfold vacantEntry
  cases hv : firstVacant ss with
  | some i => exact wfs_bumpAt bV ss i h
  | none =>
    unfold WFS at *
    intro j sl hj
    simp only at hj
    by_cases hlt : j < ss.length
    · rw [List.getElem?_append_left hlt] at hj; exact h j sl hj
    · have hge : ss.length ≤ j := Nat.le_of_not_lt hlt
      rw [List.getElem?_append_right hge] at hj
      cases hd : j - ss.length with
      | zero =>
        simp [hd] at hj; subst hj
        exact ⟨by simp only; omega, rfl⟩
      | succ n => simp [hd] at hj

theorem wfs_churn (n : Nat) (ss : Slots) (h : WFS ss) : WFS (churnSlots n ss) := by
  induction n generalizing ss with
  | zero => exact h
  | succ n ih => unfold churnSlots; exact ih _ (wfs_vacantEntry _ ss h)

/-- two tokens with sub-id 0 that name the same slot generation are the same token -/
theorem tok_eq_of_same (a b : Tok) (h : sameSource a b = true) (ha : a.sub = 0) (hb : b.sub = 0) : a = b := by
  simp only [sameSource, Bool.and_eq_true, beq_iff_eq] at h
  cases a; cases b; simp_all

/-- a vacant slot resolves to no occupant, before and after its version is bumped -/
theorem disp_vacant (ss : Slots) (t : Tok) (sl : Slot) (h : ss[t.id]? = some sl) (hv : sl.occ = none) : disp ss t = none := by
  unfold disp Slots.get
  rw [h]
  by_cases hs : sameSource sl.tok t = true <;> simp [hs, hv]

/-- handing out a vacant slot (bump or push) changes no token's occupant -/
theorem disp_vacantEntry (bV : Nat) (ss : Slots) (t : Tok) : disp (vacantEntry bV ss).1 t = disp ss t := by
  unfold vacantEntry
  cases hv : firstVacant ss with
  | some i =>
    simp only
    by_cases hi : t.id = i
    · obtain ⟨sl, h1, h2⟩ := Verif.Inv.Slots.firstVacant_spec ss i hv
      subst hi
      rw [disp_vacant ss t sl h1 h2]
      apply disp_vacant (bumpAt bV ss t.id) t { sl with tok := incVersion bV sl.tok }
      · rw [Verif.Inv.Slots.bumpAt_getElem, if_pos rfl, h1]; rfl
      · exact h2
    · unfold disp; rw [Verif.Inv.Slots.bump_other bV ss i t hi]
  | none =>
    simp only
    unfold disp Slots.get
    by_cases hlt : t.id < ss.length
    · rw [List.getElem?_append_left hlt]
    · have hge : ss.length ≤ t.id := Nat.le_of_not_lt hlt
      rw [List.getElem?_append_right hge]
      have : ss[t.id]? = none := List.getElem?_eq_none hge
      rw [this]
      cases hd : t.id - ss.length with
      | zero =>
        simp only [List.getElem?_cons_zero]
        by_cases hs : sameSource ({ id := ss.length, ver := 0, sub := 0 } : Tok) t = true <;> simp [hs]
      | succ n => simp

theorem disp_churn (n : Nat) (ss : Slots) (t : Tok) : disp (churnSlots n ss) t = disp ss t := by
  induction n generalizing ss with
  | zero => rfl
  | succ n ih => unfold churnSlots; rw [ih, disp_vacantEntry]

/-- vacating a slot can only take occupants away -/
theorem disp_vacate (ss : Slots) (i : Nat) (t : Tok) (d : Nat) (h : disp (setOcc ss i none) t = some d) : disp ss t = some d := by
  by_cases hi : t.id = i
  · exfalso
    unfold disp Slots.get at h
    rw [Verif.Inv.Slots.setOcc_getElem, if_pos hi.symm] at h
    cases hs : ss[t.id]? with
    | none => simp [hs] at h
    | some x => simp [hs] at h; split at h <;> simp at h
  · unfold disp at h ⊢; rwa [Verif.Inv.Slots.setOcc_other ss i none t hi] at h

/-- occupying the slot `i` whose own token is `tok`: any *other* sub-id-0 token resolves as before -/
theorem disp_occupy (ss : Slots) (i k : Nat) (sl : Slot) (t : Tok) (hw : WFS ss) (hs : ss[i]? = some sl)
    (ht0 : t.sub = 0) (hne : t ≠ sl.tok) : disp (setOcc ss i (some k)) t = disp ss t := by
  by_cases hi : t.id = i
  · have h0 := hw i sl hs
    have hns : sameSource sl.tok t = false := by
      cases hss : sameSource sl.tok t with
      | false => rfl
      | true => exact absurd (tok_eq_of_same sl.tok t hss h0.2 ht0).symm hne
    unfold disp Slots.get
    rw [Verif.Inv.Slots.setOcc_getElem, if_pos hi.symm, hi, hs]
    simp [hns]
  · unfold disp; rw [Verif.Inv.Slots.setOcc_other ss i (some k) t hi]

/-- … and the slot's own token now resolves to the new occupant -/
theorem disp_occupy_self (ss : Slots) (i k : Nat) (sl : Slot) (hw : WFS ss) (hs : ss[i]? = some sl) :
    disp (setOcc ss i (some k)) sl.tok = some k := by
  have h0 := hw i sl hs
  unfold disp Slots.get
  rw [Verif.Inv.Slots.setOcc_getElem, h0.1, if_pos rfl, hs]
  simp [sameSource]

/-! ### occupants -/

/-- no dispatcher sits in two slots -/
def U (ss : Slots) : Prop :=
  ∀ (i j : Nat) (a b : Slot) (d : Nat), ss[i]? = some a → ss[j]? = some b → a.occ = some d → b.occ = some d → i = j

/-- the token the user holds for the occupant of a slot is that slot's token — except, while an insertion is under way,
    for the slot `x` it has just occupied -/
def SP (ss : Slots) (toks : List (Nat × Tok)) (x : Option Nat) : Prop :=
  ∀ (i : Nat) (sl : Slot) (d : Nat), ss[i]? = some sl → sl.occ = some d → x ≠ some i → alookup toks d = some sl.tok

theorem occ_of_setOcc_none (ss : Slots) (i j : Nat) (sl : Slot) (d : Nat)
    (h : (setOcc ss i none)[j]? = some sl) (ho : sl.occ = some d) : ss[j]? = some sl ∧ i ≠ j := by
  rw [Verif.Inv.Slots.setOcc_getElem] at h
  by_cases hij : i = j
  · rw [if_pos hij] at h
    cases hs : ss[j]? with
    | none => simp [hs] at h
    | some x => simp [hs] at h; subst h; simp at ho
  · rw [if_neg hij] at h; exact ⟨h, hij⟩

theorem u_vacate (ss : Slots) (i : Nat) (h : U ss) : U (setOcc ss i none) := by
  intro a b sa sb d ha hb hoa hob
  exact h a b sa sb d (occ_of_setOcc_none ss i a sa d ha hoa).1 (occ_of_setOcc_none ss i b sb d hb hob).1 hoa hob

theorem sp_vacate (ss : Slots) (toks : List (Nat × Tok)) (x : Option Nat) (i : Nat) (h : SP ss toks x) :
    SP (setOcc ss i none) toks x := by
  intro a sa d ha hoa hx
  exact h a sa d (occ_of_setOcc_none ss i a sa d ha hoa).1 hoa hx

/-- vacating the excepted slot itself closes the exception -/
theorem sp_vacate_self (ss : Slots) (toks : List (Nat × Tok)) (i : Nat) (h : SP ss toks (some i)) :
    SP (setOcc ss i none) toks none := by
  intro a sa d ha hoa _
  have := occ_of_setOcc_none ss i a sa d ha hoa
  exact h a sa d this.1 hoa (by intro e; injection e with e; exact this.2 e)

/-- an occupied slot of the table after `vacant_entry` is the same occupied slot of the table before -/
theorem occ_of_vacantEntry (bV : Nat) (ss : Slots) (j : Nat) (sl : Slot) (d : Nat)
    (h : (vacantEntry bV ss).1[j]? = some sl) (ho : sl.occ = some d) : ss[j]? = some sl := by
  unfold vacantEntry at h
  cases hv : firstVacant ss with
  | some i =>
    simp only [hv] at h
    rw [Verif.Inv.Slots.bumpAt_getElem] at h
    by_cases hij : i = j
    · rw [if_pos hij] at h
      obtain ⟨v, h1, h2⟩ := Verif.Inv.Slots.firstVacant_spec ss i hv
      rw [← hij, h1] at h
      simp at h; subst h; simp [h2] at ho
    · rw [if_neg hij] at h; exact h
  | none =>
    simp only [hv] at h
    by_cases hlt : j < ss.length
    · rwa [List.getElem?_append_left hlt] at h
    · have hge : ss.length ≤ j := Nat.le_of_not_lt hlt
      rw [List.getElem?_append_right hge] at h
      cases hd : j - ss.length with
      | zero => simp [hd] at h; subst h; simp at ho
      | succ n => simp [hd] at h

theorem u_vacantEntry (bV : Nat) (ss : Slots) (h : U ss) : U (vacantEntry bV ss).1 := by
  intro a b sa sb d ha hb hoa hob
  exact h a b sa sb d (occ_of_vacantEntry bV ss a sa d ha hoa) (occ_of_vacantEntry bV ss b sb d hb hob) hoa hob

theorem sp_vacantEntry (bV : Nat) (ss : Slots) (toks : List (Nat × Tok)) (x : Option Nat) (h : SP ss toks x) :
    SP (vacantEntry bV ss).1 toks x := by
  intro a sa d ha hoa hx
  exact h a sa d (occ_of_vacantEntry bV ss a sa d ha hoa) hoa hx

theorem u_churn (n : Nat) (ss : Slots) (h : U ss) : U (churnSlots n ss) := by
  induction n generalizing ss with
  | zero => exact h
  | succ n ih => unfold churnSlots; exact ih _ (u_vacantEntry _ ss h)

theorem sp_churn (n : Nat) (ss : Slots) (toks : List (Nat × Tok)) (x : Option Nat) (h : SP ss toks x) :
    SP (churnSlots n ss) toks x := by
  induction n generalizing ss with
  | zero => exact h
  | succ n ih => unfold churnSlots; exact ih _ (sp_vacantEntry _ ss toks x h)

/-- an occupied slot of the table after `setOcc i (some k)`: slot `i` itself with occupant `k`, or an old one -/
theorem occ_of_occupy (ss : Slots) (i k j : Nat) (sl : Slot) (d : Nat)
    (h : (setOcc ss i (some k))[j]? = some sl) (ho : sl.occ = some d) :
    (i = j ∧ d = k) ∨ (i ≠ j ∧ ss[j]? = some sl) := by
  rw [Verif.Inv.Slots.setOcc_getElem] at h
  by_cases hij : i = j
  · rw [if_pos hij] at h
    cases hs : ss[j]? with
    | none => simp [hs] at h
    | some x =>
      simp [hs] at h; subst h
      simp at ho; exact Or.inl ⟨hij, ho.symm⟩
  · rw [if_neg hij] at h; exact Or.inr ⟨hij, h⟩

theorem u_occupy (ss : Slots) (i k : Nat) (h : U ss) (hk : ∀ (j : Nat) (sl : Slot), ss[j]? = some sl → sl.occ ≠ some k) :
    U (setOcc ss i (some k)) := by
  intro a b sa sb d ha hb hoa hob
  cases occ_of_occupy ss i k a sa d ha hoa with
  | inl h1 =>
    cases occ_of_occupy ss i k b sb d hb hob with
    | inl h2 => exact h1.1.symm.trans h2.1
    | inr h2 => exact absurd (h1.2 ▸ hob) (hk b sb h2.2)
  | inr h1 =>
    cases occ_of_occupy ss i k b sb d hb hob with
    | inl h2 => exact absurd (h2.2 ▸ hoa) (hk a sa h1.2)
    | inr h2 => exact h a b sa sb d h1.2 h2.2 hoa hob

theorem sp_occupy (ss : Slots) (toks : List (Nat × Tok)) (i k : Nat) (h : SP ss toks none) :
    SP (setOcc ss i (some k)) toks (some i) := by
  intro a sa d ha hoa hx
  cases occ_of_occupy ss i k a sa d ha hoa with
  | inl h1 => exact absurd (congrArg some h1.1) hx
  | inr h1 => exact h a sa d h1.2 hoa (by simp)

/-! ### the invariant -/

/-- slots well formed; user tokens have sub-id 0; and — unless a generation wrapped or an object was inserted twice —
    (1) a user's token resolves to no source but the one it was issued for, (2) no dispatcher sits in two slots,
    (3) the user's token for the occupant of a slot is that slot's token (outside the slot `x` being filled) -/
def TokMidP (x : Option Nat) (c : Slots × List (Nat × Tok) × Bool) : Prop :=
  WFS c.1 ∧ (∀ p ∈ c.2.1, p.2.sub = 0) ∧
  (c.2.2 = true ∨
    ((∀ (k : Nat) (tok : Tok) (d : Nat), alookup c.2.1 k = some tok → disp c.1 tok = some d → d = k) ∧
     U c.1 ∧ SP c.1 c.2.1 x))

abbrev TokOkP (c : Slots × List (Nat × Tok) × Bool) : Prop := TokMidP none c

abbrev TokOk : St → Prop := fun s => TokOkP (prA s)

theorem keeps_of_frameA {α} {x : M α} (h : FrameA x) (R : Slots × List (Nat × Tok) × Bool → Prop) :
    Keeps x (fun s => R (prA s)) := by
  constructor
  intro s hs
  have h1 : prA (after x s) = prA s := (h (prA s)).h s rfl
  show R (prA (after x s))
  rw [h1]; exact hs

theorem tokMid_vacate (x : Option Nat) (s : St) (i : Nat) (h : TokMidP x (prA s)) :
    TokMidP x (prA { s with slots := setOcc s.slots i none }) := by
  obtain ⟨h1, h2, h3⟩ := h
  refine ⟨wfs_setOcc _ _ _ h1, h2, ?_⟩
  cases h3 with
  | inl ha => exact Or.inl ha
  | inr hs =>
    exact Or.inr ⟨fun k tok d hk hd => hs.1 k tok d hk (disp_vacate _ _ _ _ hd), u_vacate _ _ hs.2.1, sp_vacate _ _ _ _ hs.2.2⟩

theorem tokOk_vacate (s : St) (i : Nat) (h : TokOk s) : TokOk { s with slots := setOcc s.slots i none } :=
  tokMid_vacate none s i h

theorem tokOk_churn (s : St) (n : Nat) (h : TokOk s) : TokOk { s with slots := churnSlots n s.slots } := by
  obtain ⟨h1, h2, h3⟩ := h
  refine ⟨wfs_churn _ _ h1, h2, ?_⟩
  cases h3 with
  | inl ha => exact Or.inl ha
  | inr hs =>
    exact Or.inr ⟨fun k tok d hk hd => hs.1 k tok d hk (by rw [← disp_churn n]; exact hd), u_churn _ _ hs.2.1, sp_churn _ _ _ _ hs.2.2⟩

/-! ### invariants that need not survive a panic (a panic aborts the case) -/

open Verif.Inv.Ctl in
/-- `P` is kept by every return and every `Err`; nothing is said about the state a panic leaves -/
structure KeepsI {α} (x : M α) (P : St → Prop) : Prop where
  h : Hoare P x (fun _ => P) P

open Verif.Inv.Ctl in
theorem ki_of_keeps {α} {x : M α} {P : St → Prop} (h : Keeps x P) : KeepsI x P := ⟨hoare_of_keeps h⟩

open Verif.Inv.Ctl in
theorem ki_bind {α β} {x : M α} {f : α → M β} {P : St → Prop} (hx : KeepsI x P) (hf : ∀ a, KeepsI (f a) P) :
    KeepsI (x >>= f) P := ⟨hoare_bind (fun _ => P) hx.h (fun a => (hf a).h)⟩

open Verif.Inv.Ctl in
theorem ki_catchErr {α} {x : M α} {P : St → Prop} (hx : KeepsI x P) : KeepsI (catchErr x) P :=
  ⟨hoare_conseq (hoare_catchErr (E' := P) hx.h) (fun _ h => h) (fun a s h => by cases a <;> exact h) (fun _ h => h)⟩

theorem ki_forEachM {α} (l : List α) (f : α → M Unit) (P : St → Prop) (hf : ∀ a, KeepsI (f a) P) :
    KeepsI (forEachM l f) P := by
  induction l with
  | nil => exact ki_of_keeps (keeps_pure _ _)
  | cons a as ih => exact ki_bind (hf a) (fun _ => ih)

theorem ki_ite {α} (c : Prop) [Decidable c] (x y : M α) (P : St → Prop) (hx : KeepsI x P) (hy : KeepsI y P) :
    KeepsI (if c then x else y) P := by
  split <;> assumption

/-! ### association lists -/

theorem alookup_mem {β} (l : List (Nat × β)) (k : Nat) (v : β) (h : alookup l k = some v) : (k, v) ∈ l := by
  unfold alookup at h
  cases hf : l.find? (·.1 == k) with
  | none => simp [hf] at h
  | some p =>
    simp [hf] at h
    have hm := List.mem_of_find?_eq_some hf
    have hk := List.find?_some hf
    simp at hk
    cases p with
    | mk a b => simp at h hk; subst h; subst hk; exact hm

theorem mem_aset {β} (l : List (Nat × β)) (k : Nat) (v : β) (p : Nat × β) (h : p ∈ aset l k v) : p ∈ l ∨ p = (k, v) := by
  unfold aset at h
  split at h
  · simp only [List.mem_map] at h
    obtain ⟨q, hq, rfl⟩ := h
    split
    · exact Or.inr rfl
    · exact Or.inl hq
  · simp only [List.mem_append, List.mem_singleton] at h
    exact h

theorem alookup_aset_self {β} (l : List (Nat × β)) (k : Nat) (v : β) : alookup (aset l k v) k = some v := by
  unfold aset alookup
  split
  · rename_i hany
    induction l with
    | nil => simp at hany
    | cons p ps ih =>
      simp only [List.map_cons]
      by_cases hp : p.1 == k
      · simp [hp, List.find?_cons]
      · have : ps.any (·.1 == k) = true := by simpa [List.any_cons, hp] using hany
        simp only [hp, Bool.false_eq_true, if_false, List.find?_cons]
        exact ih this
  · rename_i hany
    have : l.find? (·.1 == k) = none := by
      rw [List.find?_eq_none]; intro x hx hxx; exact hany (List.any_eq_true.mpr ⟨x, hx, hxx⟩)
    simp [List.find?_append, this]

theorem find_map_upd {β} (l : List (Nat × β)) (k k' : Nat) (v : β) (h : k' ≠ k) :
    (l.map (fun p => if p.1 == k then (k, v) else p)).find? (·.1 == k') = l.find? (·.1 == k') := by
  induction l with
  | nil => rfl
  | cons p ps ih =>
    simp only [List.map_cons, List.find?_cons]
    by_cases hp : (p.1 == k) = true
    · have hk : p.1 = k := by simpa using hp
      have h1 : (k == k') = false := by simp; exact fun e => h e.symm
      have h2 : (p.1 == k') = false := by rw [hk]; exact h1
      simp only [hp, if_true, h1, h2]
      exact ih
    · have hp' : (p.1 == k) = false := by simpa using hp
      simp only [hp', Bool.false_eq_true, if_false]
      cases hq : (p.1 == k') with
      | true => rfl
      | false => exact ih

theorem alookup_aset_other {β} (l : List (Nat × β)) (k k' : Nat) (v : β) (h : k' ≠ k) : alookup (aset l k v) k' = alookup l k' := by
  unfold aset alookup
  split
  · rw [find_map_upd l k k' v h]
  · have : (([(k, v)] : List (Nat × β)).find? (·.1 == k')) = none := by
      simp; exact fun e => h e.symm
    simp [List.find?_append, this]

end Verif.Inv.TokInv

namespace Verif.Loop
open Verif.Token Verif.Slots Verif.Wheel Verif.Kernel

/-- `doInsert` from the point where the slot has been picked -/
def doInsertAt (k : Nat) (src : Src) (slots' : Slots) (i : Nat) (tok : Tok) : M Unit := do
  modify fun s => { s with slots := setOcc slots' i (some k), aliased := s.aliased || s.tokens.any (·.2 == tok),
                           dupInsert := s.dupInsert || inSlot s k }
  let r ← catchErr (dRegister k tok)
  match r with
  | .ok _ =>
    modify fun s => { s with tokens := aset s.tokens k tok }
    emit (.ins k (.ok tok))
  | .error e =>
    modify fun s => { s with slots := setOcc s.slots i none }
    if src.kind == .custom then modSrc k fun s => { s with owned := true }
    maybeDrop k
    emit (.ins k (.err e))

theorem doInsert_eq (k : Nat) (keep : Bool) :
    doInsert k keep = (do
      match ← getSrc? k with
      | none => emit (.ins k .nosource)
      | some src =>
        if !src.owned || src.dropped then emit (.ins k .nosource) else
        modSrc k fun s => { s with owned := false, kept := keep && s.kind != .chan && s.kind != .custom }
        let s0 ← get
        doInsertAt k src (vacantEntry bV s0.slots).1 (vacantEntry bV s0.slots).2
          (match (vacantEntry bV s0.slots).1[(vacantEntry bV s0.slots).2]? with | some sl => sl.tok | none => default)) := by
  rfl
end Verif.Loop

namespace Verif.Inv.TokInv
open Verif.Loop Verif.Inv Verif.Kernel Verif.Slots Verif.Wheel Verif.Token

theorem not_inSlot (s : St) (k : Nat) (h : inSlot s k = false) (j : Nat) (sl : Slot) (hj : s.slots[j]? = some sl) :
    sl.occ ≠ some k := by
  intro ho
  have hm : sl ∈ s.slots := List.mem_of_getElem? hj
  have : inSlot s k = true := List.any_eq_true.mpr ⟨sl, hm, by simp [ho]⟩
  rw [h] at this; cases this

/-- picking a vacant slot, occupying it and flagging a re-issued token or a doubly inserted object keeps the invariant
    (with the new slot excepted from clause 3), and the new token resolves to the new occupant -/
theorem tokMid_occupy (s : St) (k : Nat) (sl : Slot) (h : TokOk s)
    (hsl : (vacantEntry bV s.slots).1[(vacantEntry bV s.slots).2]? = some sl) :
    let i := (vacantEntry bV s.slots).2
    let s1 : St := { s with slots := setOcc (vacantEntry bV s.slots).1 i (some k),
                            aliased := s.aliased || s.tokens.any (·.2 == sl.tok), dupInsert := s.dupInsert || inSlot s k }
    TokMidP (some i) (prA s1) ∧ s1.slots[i]? = some { sl with occ := some k } ∧ sl.tok.sub = 0 := by
  intro i s1
  obtain ⟨h1, h2, h3⟩ := h
  have hw' : WFS (vacantEntry bV s.slots).1 := wfs_vacantEntry bV s.slots h1
  have hsub : sl.tok.sub = 0 := (hw' _ sl hsl).2
  have hslot : s1.slots[i]? = some { sl with occ := some k } := by
    show (setOcc (vacantEntry bV s.slots).1 i (some k))[i]? = _
    rw [Verif.Inv.Slots.setOcc_getElem, if_pos rfl, hsl]; rfl
  refine ⟨⟨wfs_setOcc _ _ _ hw', h2, ?_⟩, hslot, hsub⟩
  show ((s.aliased || s.tokens.any (·.2 == sl.tok)) || (s.dupInsert || inSlot s k)) = true ∨ _
  cases ha : s.aliased with
  | true => exact Or.inl (by simp)
  | false =>
    cases hdp : s.dupInsert with
    | true => exact Or.inl (by simp)
    | false =>
      cases hany : s.tokens.any (·.2 == sl.tok) with
      | true => exact Or.inl (by simp)
      | false =>
        cases hin : inSlot s k with
        | true => exact Or.inl (by simp)
        | false =>
          have hs := h3.resolve_left (by simp [prA, ha, hdp])
          refine Or.inr ⟨fun k1 tok1 d hk hd => ?_, ?_, ?_⟩
          · have hmem := alookup_mem _ _ _ hk
            have hne : tok1 ≠ sl.tok := by
              intro e
              have : s.tokens.any (·.2 == sl.tok) = true := List.any_eq_true.mpr ⟨(k1, tok1), hmem, by simp [e]⟩
              rw [hany] at this; cases this
            have h0 : tok1.sub = 0 := h2 (k1, tok1) hmem
            have e1 : disp (setOcc (vacantEntry bV s.slots).1 i (some k)) tok1 = disp s.slots tok1 := by
              rw [disp_occupy _ _ k sl tok1 hw' hsl h0 hne, disp_vacantEntry]
            exact hs.1 k1 tok1 d hk (e1 ▸ hd)
          · apply u_occupy _ _ _ (u_vacantEntry _ _ hs.2.1)
            intro j slj hj ho
            exact not_inSlot s k hin j slj (occ_of_vacantEntry bV s.slots j slj k hj ho) ho
          · exact sp_occupy _ _ _ _ (sp_vacantEntry _ _ _ _ hs.2.2)

/-- the user is handed the token of the slot just filled: the exception closes -/
theorem tokOk_newToken (s : St) (i k : Nat) (sl : Slot) (h : TokMidP (some i) (prA s))
    (hslot : s.slots[i]? = some { sl with occ := some k }) (h0 : sl.tok.sub = 0) :
    TokOk { s with tokens := aset s.tokens k sl.tok } := by
  obtain ⟨h1, h2, h3⟩ := h
  have hdisp : disp s.slots sl.tok = some k := by
    have hid := (h1 i _ hslot).1
    unfold disp Slots.get
    have : s.slots[sl.tok.id]? = some { sl with occ := some k } := by
      have : sl.tok.id = i := hid
      rw [this]; exact hslot
    rw [this]; simp [sameSource]
  refine ⟨h1, ?_, ?_⟩
  · intro p hp
    cases mem_aset _ _ _ _ hp with
    | inl hm => exact h2 p hm
    | inr he => subst he; exact h0
  · cases h3 with
    | inl ha => exact Or.inl ha
    | inr hs =>
      refine Or.inr ⟨fun k1 tok1 d hk hd1 => ?_, hs.2.1, ?_⟩
      · by_cases hk1 : k1 = k
        · subst hk1
          have hk' : alookup (aset s.tokens k1 sl.tok) k1 = some tok1 := hk
          rw [alookup_aset_self] at hk'
          injection hk' with e; subst e
          have : disp s.slots sl.tok = some d := hd1
          rw [hdisp] at this; injection this with e; exact e.symm
        · have hk' : alookup (aset s.tokens k sl.tok) k1 = some tok1 := hk
          rw [alookup_aset_other _ _ _ _ hk1] at hk'
          exact hs.1 k1 tok1 d hk' hd1
      · intro j slj d hj ho _
        show alookup (aset s.tokens k sl.tok) d = some slj.tok
        by_cases hji : j = i
        · subst hji
          have hj' : s.slots[j]? = some slj := hj
          rw [hslot] at hj'; injection hj' with e; subst e
          simp at ho; subst ho
          exact alookup_aset_self _ _ _
        · by_cases hdk : d = k
          · subst hdk
            exact absurd (hs.2.1 j i slj _ d hj hslot ho rfl) hji
          · rw [alookup_aset_other _ _ _ _ hdk]
            exact hs.2.2 j slj d hj ho (by intro e; injection e with e; exact hji e.symm)

/-- the registration failed: the slot is vacated again and the exception closes -/
theorem tokOk_vacateNew (s : St) (i : Nat) (h : TokMidP (some i) (prA s)) :
    TokOk { s with slots := setOcc s.slots i none } := by
  obtain ⟨h1, h2, h3⟩ := h
  refine ⟨wfs_setOcc _ _ _ h1, h2, ?_⟩
  cases h3 with
  | inl ha => exact Or.inl ha
  | inr hs =>
    exact Or.inr ⟨fun k tok d hk hd => hs.1 k tok d hk (disp_vacate _ _ _ _ hd), u_vacate _ _ hs.2.1, sp_vacate_self _ _ _ hs.2.2⟩

theorem fa_doInsertTail (k : Nat) (src : Src) (e : Err) :
    FrameA (do
      if src.kind == .custom then modSrc k fun s => { s with owned := true }
      maybeDrop k
      emit (.ins k (.err e)) : M Unit) := by
  intro c; repeat (first | fa_step | dsimp only)

open Verif.Inv.Ctl in
theorem hoare_doInsertAt (k : Nat) (src : Src) (ss0 : Slots) :
    Hoare (fun s => TokOk s ∧ s.slots = ss0)
      (doInsertAt k src (vacantEntry bV ss0).1 (vacantEntry bV ss0).2
        (match (vacantEntry bV ss0).1[(vacantEntry bV ss0).2]? with | some sl => sl.tok | none => default))
      (fun _ => TokOk) TokOk := by
  obtain ⟨sl, hsl, _⟩ := Verif.Inv.Slots.vacantEntry_vacant bV ss0
  rw [hsl]
  simp only
  unfold doInsertAt
  -- the slot is occupied; a re-issued token or a doubly inserted object is flagged
  apply hoare_bind (fun _ s => TokMidP (some (vacantEntry bV ss0).2) (prA s) ∧
      s.slots[(vacantEntry bV ss0).2]? = some { sl with occ := some k } ∧ sl.tok.sub = 0)
  · apply hoare_modify
    intro s ⟨hs, he⟩
    subst he
    exact tokMid_occupy s k sl hs hsl
  intro _
  -- registration leaves the slot table and the user's tokens alone (a panic in it aborts the case)
  apply hoare_bind (fun _ s => TokMidP (some (vacantEntry bV ss0).2) (prA s) ∧
      s.slots[(vacantEntry bV ss0).2]? = some { sl with occ := some k } ∧ sl.tok.sub = 0)
  · exact hoare_conseq (hoare_catchErr (E' := TokOk) (hoare_of_keeps (keeps_of_frameA (fa_dRegister k sl.tok)
        (fun c => TokMidP (some (vacantEntry bV ss0).2) c ∧
          c.1[(vacantEntry bV ss0).2]? = some { sl with occ := some k } ∧ sl.tok.sub = 0))))
      (fun _ h => h) (fun a s h => by cases a <;> exact h) (fun _ h => h)
  intro r
  cases r with
  | ok _ =>
    simp only
    apply hoare_bind (fun _ => TokOk)
    · apply hoare_modify
      intro s ⟨hs, hd, h0⟩
      exact tokOk_newToken s _ k sl hs hd h0
    · intro _
      exact hoare_of_keeps (keeps_of_frameA (fa_emit _) TokOkP)
  | error e =>
    simp only
    apply hoare_bind (fun _ => TokOk)
    · apply hoare_modify
      intro s ⟨hs, _, _⟩
      exact tokOk_vacateNew s _ hs
    · intro _
      exact hoare_of_keeps (keeps_of_frameA (fa_doInsertTail k src e) TokOkP)

/-! ### every statement of the model keeps the invariant -/

abbrev KeepsT {α} (x : M α) : Prop := KeepsI x TokOk

syntax "tk_lemma" : tactic
macro_rules | `(tactic| tk_lemma) => `(tactic| fail "no lemma applies")

macro "tk_step" : tactic => `(tactic| first
  | exact ki_of_keeps (keeps_pure _ _)
  | exact ki_of_keeps (keeps_throw _ _)
  | exact ki_of_keeps (keeps_get _)
  | tk_lemma
  | (refine ki_of_keeps (keeps_of_frameA ?_ TokOkP); intro _; fa_lemma)
  | (refine ki_of_keeps (keeps_modify _ _ ?_); intro s h; exact h)
  | (refine ki_of_keeps (keeps_modify _ _ ?_); intro s h; exact tokOk_vacate _ _ h)
  | (refine ki_of_keeps (keeps_modify _ _ ?_); intro s h; exact tokOk_churn _ _ h)
  | (refine ki_of_keeps (keeps_emit _ _ ?_); intro s h; exact h)
  | (apply ki_bind)
  | (apply ki_catchErr)
  | (apply ki_forEachM)
  | (apply ki_ite)
  | (intro _)
  | split)

macro "tk" : tactic => `(tactic| (repeat tk_step))

open Verif.Inv.Ctl in
theorem tk_doInsert (k : Nat) (keep : Bool) : KeepsT (doInsert k keep) := by
  constructor
  rw [doInsert_eq]
  apply hoare_bind (fun _ => TokOk) (hoare_of_keeps (keeps_of_frameA (fa_getSrc k) TokOkP))
  intro o
  split
  · exact hoare_of_keeps (keeps_of_frameA (fa_emit _) TokOkP)
  · rename_i src
    split
    · exact hoare_of_keeps (keeps_of_frameA (fa_emit _) TokOkP)
    · apply hoare_bind (fun _ => TokOk) (hoare_of_keeps (keeps_of_frameA (fa_modSrc k _) TokOkP))
      intro _
      apply hoare_bind (fun a s => TokOk s ∧ a = s) hoare_get
      intro s0
      exact hoare_conseq (hoare_doInsertAt k src s0.slots) (fun s h => ⟨h.1, by rw [h.2]⟩) (fun _ _ h => h) (fun _ h => h)
macro_rules | `(tactic| tk_lemma) => `(tactic| with_reducible exact tk_doInsert _ _)

theorem tk_doRemove (o : COp) (k : Nat) : KeepsT (doRemove o k) := by unfold doRemove; tk
macro_rules | `(tactic| tk_lemma) => `(tactic| with_reducible exact tk_doRemove _ _)

theorem tk_tokenOp (o : COp) (k : Nat) (body : Nat → Tok → M Unit) (hb : ∀ d t, KeepsT (body d t)) :
    KeepsT (tokenOp o k body) := by
  unfold tokenOp
  repeat (first | exact hb _ _ | tk_step)

theorem tk_execCore (o : COp) : KeepsT (execC' o) := by
  cases o <;> unfold execC' <;>
    repeat (first | (apply tk_tokenOp; intro d t) | tk_step)
macro_rules | `(tactic| tk_lemma) => `(tactic| with_reducible exact tk_execCore _)

theorem tk_execC (o : COp) : KeepsT (execC o) := by unfold execC; tk
macro_rules | `(tactic| tk_lemma) => `(tactic| with_reducible exact tk_execC _)

theorem tk_runCb (k : Nat) (p : Payload) : KeepsT (runCb k p) := by unfold runCb; tk
macro_rules | `(tactic| tk_lemma) => `(tactic| with_reducible exact tk_runCb _ _)
theorem tk_retPA (r : Loop.Ret) : KeepsT (retPA r) := by cases r <;> unfold retPA <;> tk
macro_rules | `(tactic| tk_lemma) => `(tactic| with_reducible exact tk_retPA _)
theorem tk_genGate (k j : Nat) (ev : Event) : KeepsT (genGate k j ev) := by unfold genGate; tk
macro_rules | `(tactic| tk_lemma) => `(tactic| with_reducible exact tk_genGate _ _ _)

theorem tk_pingPE {α} (k : Nat) (ev : Event) (body : M α) (hb : KeepsT body) : KeepsT (pingPE k ev body) := by
  unfold pingPE; repeat (first | exact hb | tk_step)

theorem tk_chanDrain (k n : Nat) : KeepsT (chanDrain k n) := by
  induction n with
  | zero => unfold chanDrain; tk
  | succ n ih => unfold chanDrain; repeat (first | exact ih | tk_step)
macro_rules | `(tactic| tk_lemma) => `(tactic| with_reducible exact tk_chanDrain _ _)

theorem tk_customPE (k : Nat) (ev : Event) (n j : Nat) (acc : PA) : KeepsT (customPE k ev n j acc) := by
  induction n generalizing j acc with
  | zero => unfold customPE; tk
  | succ n ih => unfold customPE; repeat (first | exact ih _ _ | tk_step)
macro_rules | `(tactic| tk_lemma) => `(tactic| with_reducible exact tk_customPE _ _ _ _ _)

theorem tk_processEventsInner (k : Nat) (ev : Event) : KeepsT (processEventsInner k ev) := by
  unfold processEventsInner
  repeat (first
    | (apply tk_pingPE; first | exact tk_runCb _ _ | exact tk_chanDrain _ _)
    | tk_step)
macro_rules | `(tactic| tk_lemma) => `(tactic| with_reducible exact tk_processEventsInner _ _)

theorem tk_processEvents (k : Nat) (ev : Event) : KeepsT (processEvents k ev) := by
  constructor
  intro s hs
  have hs1 : TokOk { s with running := some k, log := s.log ++ [.pe k] } := hs
  have hin := (tk_processEventsInner k ev).h _ hs1
  simp only [processEvents, bind, EStateM.bind, modify, modifyGet, MonadStateOf.modifyGet, EStateM.modifyGet, emit,
    tryCatch, tryCatchThe, MonadExceptOf.tryCatch, EStateM.tryCatch, pure, EStateM.pure]
  cases h : processEventsInner k ev { s with running := some k, log := s.log ++ [.pe k] } with
  | ok a s' =>
    rw [h] at hin
    simp only [EStateM.bind, EStateM.modifyGet, EStateM.pure]
    exact hin
  | error e s' =>
    rw [h] at hin
    cases e with
    | err e =>
      simp only [EStateM.bind, EStateM.modifyGet, throw, throwThe, MonadExceptOf.throw, EStateM.throw,
        EStateM.Backtrackable.restore, EStateM.dummyRestore]
      exact hin
    | panic p =>
      simp [EStateM.bind, EStateM.modifyGet, throw, throwThe, MonadExceptOf.throw, EStateM.throw,
        EStateM.Backtrackable.restore, EStateM.dummyRestore]
macro_rules | `(tactic| tk_lemma) => `(tactic| with_reducible exact tk_processEvents _ _)

theorem tk_beforeSleep (tok : Tok) : KeepsT (beforeSleep tok) := by unfold beforeSleep; tk
macro_rules | `(tactic| tk_lemma) => `(tactic| with_reducible exact tk_beforeSleep _)
theorem tk_beforeHandle (evs : List Event) (tok : Tok) : KeepsT (beforeHandle evs tok) := by unfold beforeHandle; tk
macro_rules | `(tactic| tk_lemma) => `(tactic| with_reducible exact tk_beforeHandle _ _)

theorem tk_processOne (ev : Event) : KeepsT (processOne ev) := by
  unfold processOne; repeat (first | tk_step | dsimp only)
macro_rules | `(tactic| tk_lemma) => `(tactic| with_reducible exact tk_processOne _)

theorem tk_batchLoop (l : List Event) (first : Option Err) : KeepsT (batchLoop l first) := by
  induction l generalizing first with
  | nil => unfold batchLoop; tk
  | cons ev rest ih => unfold batchLoop; repeat (first | exact ih _ | tk_step)
macro_rules | `(tactic| tk_lemma) => `(tactic| with_reducible exact tk_batchLoop _ _)

theorem tk_dispatchEvents : KeepsT dispatchEvents := by
  unfold dispatchEvents; repeat (first | tk_step | dsimp only)
theorem tk_runIdle (p : Nat × Nat) : KeepsT (runIdle p) := by unfold runIdle; tk
macro_rules | `(tactic| tk_lemma) => `(tactic| with_reducible exact tk_runIdle _)
theorem tk_dispatchIdles : KeepsT dispatchIdles := by unfold dispatchIdles; tk
theorem tk_dispatch : KeepsT dispatch := by
  unfold dispatch
  repeat (first | exact tk_dispatchEvents | exact tk_dispatchIdles | tk_step)
theorem tk_snapshot : KeepsT snapshot := by unfold snapshot; tk
theorem tk_execTop (o : Op) : KeepsT (execTop o) := by
  cases o <;> unfold execTop <;> repeat (first | exact tk_dispatch | exact tk_snapshot | tk_step)


theorem tk_step_ok (s : St) (o : Op) (h : TokOk s ∨ s.aborted = true) : TokOk (step s o) ∨ (step s o).aborted = true := by
  unfold step
  by_cases ha : s.aborted = true
  · rw [if_pos ha]; exact Or.inr ha
  · rw [if_neg ha]
    have hs : TokOk s := by cases h with | inl h => exact h | inr h => exact absurd h ha
    have := (tk_execTop o).h s hs
    cases hx : execTop o s with
    | ok a s' => rw [hx] at this; exact Or.inl this
    | error e s' =>
      rw [hx] at this
      cases e with
      | err e => exact Or.inl this
      | panic p => exact Or.inr rfl

theorem run_tokOk (ops : List Op) : TokOk (run ops) ∨ (run ops).aborted = true := by
  unfold run
  have : ∀ (l : List Op) (s : St), (TokOk s ∨ s.aborted = true) → (TokOk (l.foldl step s) ∨ (l.foldl step s).aborted = true) := by
    intro l
    induction l with
    | nil => intro s h; exact h
    | cons o l ih => intro s h; exact ih _ (tk_step_ok s o h)
  refine this ops {} (Or.inl ⟨wfs_nil, by intro p hp; simp [prA] at hp, Or.inr ⟨?_, ?_, ?_⟩⟩)
  · intro k tok d hk; simp [prA, alookup] at hk
  · intro i j a b d ha; simp [prA] at ha
  · intro i sl d ha; simp [prA] at ha

/-- **After every history**: unless a generation wrapped on the way (`aliased`, finding F12) — or a source object was
    inserted while already inserted (`dupInsert`, which Rust's move semantics rule out) — every registration token the
    user was ever handed resolves, if it still resolves at all, to the source it was issued for and to no other … -/
theorem token_reaches_only_its_source (ops : List Op) (hab : (run ops).aborted = false)
    (hna : (run ops).aliased = false) (hnd : (run ops).dupInsert = false)
    (k : Nat) (tok : Tok) (d : Nat) (hk : alookup (run ops).tokens k = some tok) (hd : slotDisp (run ops) tok = some d) : d = k := by
  obtain ⟨_, _, h3⟩ := (run_tokOk ops).resolve_right (by simp [hab])
  cases h3 with
  | inl ha => simp [prA, hna, hnd] at ha
  | inr hs => exact hs.1 k tok d hk hd

/-- … no dispatcher sits in two slots, and the token the user holds for the occupant of a slot is that slot's token -/
theorem occupants_unique_and_known (ops : List Op) (hab : (run ops).aborted = false)
    (hna : (run ops).aliased = false) (hnd : (run ops).dupInsert = false) :
    U (run ops).slots ∧ SP (run ops).slots (run ops).tokens none := by
  obtain ⟨_, _, h3⟩ := (run_tokOk ops).resolve_right (by simp [hab])
  cases h3 with
  | inl ha => simp [prA, hna, hnd] at ha
  | inr hs => exact hs.2

end Verif.Inv.TokInv
