/-
C15, over the whole model and from every state: an insertion whose registration fails leaves the loop's own bookkeeping
— lifecycle set, timer wheel, tokens handed out, idle queue, pending action — exactly as it was, and the slot table
with as many occupants as before.
-/
import Verif.Inv.TokInv

namespace Verif.Inv.FailIns
open Verif.Loop Verif.Inv Verif.Kernel Verif.Slots Verif.Wheel Verif.Token Verif.Inv.TokInv

/-- the loop's own bookkeeping, apart from the slot table -/
def prF (s : St) : List Tok × Wheel × List (Nat × Tok) × List (Nat × Nat) × PA × List Event :=
  (s.life, s.wheel, s.tokens, s.idles, s.pending, s.synth)

abbrev FrameF {α} (x : M α) : Prop := ∀ c, Keeps x (fun s => prF s = c)

syntax "ff_lemma" : tactic
macro_rules | `(tactic| ff_lemma) => `(tactic| fail "no lemma applies")

macro "ff_step" : tactic => `(tactic| first
  | exact keeps_pure _ _
  | exact keeps_throw _ _
  | exact keeps_get _
  | ff_lemma
  | (apply keeps_modify; intro s h; exact h)
  | (apply keeps_emit; intro s h; exact h)
  | (apply keeps_bind)
  | (apply keeps_catchErr)
  | (apply keeps_forEachM)
  | (apply keeps_ite)
  | (intro _)
  | split)

macro "ff" : tactic => `(tactic| (intro c; repeat ff_step))

theorem ff_emit (o : Obs) : FrameF (emit o) := by intro c; apply keeps_emit; intro s h; exact h
macro_rules | `(tactic| ff_lemma) => `(tactic| with_reducible exact ff_emit _ _)
theorem ff_throwErr {α} (e : Err) : FrameF (throwErr e : M α) := by intro c; exact keeps_throw _ _
macro_rules | `(tactic| ff_lemma) => `(tactic| with_reducible exact ff_throwErr _ _)
theorem ff_throwPanic {α} (p : Panic) : FrameF (throwPanic p : M α) := by intro c; exact keeps_throw _ _
macro_rules | `(tactic| ff_lemma) => `(tactic| with_reducible exact ff_throwPanic _ _)

theorem ff_getSrc (k : Nat) : FrameF (getSrc? k) := by unfold getSrc?; ff
macro_rules | `(tactic| ff_lemma) => `(tactic| with_reducible exact ff_getSrc _ _)
theorem ff_setSrc (k : Nat) (v : Src) : FrameF (setSrc k v) := by unfold setSrc; ff
macro_rules | `(tactic| ff_lemma) => `(tactic| with_reducible exact ff_setSrc _ _ _)
theorem ff_modSrc (k : Nat) (f : Src → Src) : FrameF (modSrc k f) := by unfold modSrc; ff
macro_rules | `(tactic| ff_lemma) => `(tactic| with_reducible exact ff_modSrc _ _ _)
theorem ff_modGen (k j : Nat) (f : Gen → Gen) : FrameF (modGen k j f) := by unfold modGen; ff
macro_rules | `(tactic| ff_lemma) => `(tactic| with_reducible exact ff_modGen _ _ _ _)
theorem ff_getGen (k j : Nat) : FrameF (getGen? k j) := by unfold getGen?; ff
macro_rules | `(tactic| ff_lemma) => `(tactic| with_reducible exact ff_getGen _ _ _)
theorem ff_kAdd (e : EpEntry) : FrameF (kAdd e) := by unfold kAdd; ff
macro_rules | `(tactic| ff_lemma) => `(tactic| with_reducible exact ff_kAdd _ _)
theorem ff_kMod (e : EpEntry) : FrameF (kMod e) := by unfold kMod; ff
macro_rules | `(tactic| ff_lemma) => `(tactic| with_reducible exact ff_kMod _ _)
theorem ff_kDel (fd : Nat) : FrameF (kDel fd) := by unfold kDel; ff
macro_rules | `(tactic| ff_lemma) => `(tactic| with_reducible exact ff_kDel _ _)
theorem ff_kWrite (fd n : Nat) : FrameF (kWrite fd n) := by unfold kWrite; ff
macro_rules | `(tactic| ff_lemma) => `(tactic| with_reducible exact ff_kWrite _ _ _)
theorem ff_kRead (fd : Nat) : FrameF (kRead fd) := by unfold kRead; ff
macro_rules | `(tactic| ff_lemma) => `(tactic| with_reducible exact ff_kRead _ _)
theorem ff_takeToken (f : Factory) : FrameF (takeToken f) := by unfold takeToken; ff
macro_rules | `(tactic| ff_lemma) => `(tactic| with_reducible exact ff_takeToken _ _)
theorem ff_genRegister (k j : Nat) (f : Factory) : FrameF (genRegister k j f) := by unfold genRegister; ff
macro_rules | `(tactic| ff_lemma) => `(tactic| with_reducible exact ff_genRegister _ _ _ _)
theorem ff_genReregister (k j : Nat) (f : Factory) : FrameF (genReregister k j f) := by unfold genReregister; ff
macro_rules | `(tactic| ff_lemma) => `(tactic| with_reducible exact ff_genReregister _ _ _ _)
theorem ff_genUnregister (k j : Nat) : FrameF (genUnregister k j) := by unfold genUnregister; ff
macro_rules | `(tactic| ff_lemma) => `(tactic| with_reducible exact ff_genUnregister _ _ _)

theorem ff_customLoop (k : Nat) (kind : RegKind) (fail : Option Nat) (body : Nat → Factory → M Factory)
    (hb : ∀ j f, FrameF (body j f)) (n j : Nat) (f : Factory) : FrameF (customLoop k kind fail body n j f) := by
  induction n generalizing j f with
  | zero => unfold customLoop; ff
  | succ n ih =>
    unfold customLoop
    intro c
    repeat (first | exact ih _ _ c | exact hb _ _ c | ff_step)

theorem ff_customRollback (k j : Nat) : FrameF (customRollback k j) := by
  induction j with
  | zero => unfold customRollback; ff
  | succ j ih => unfold customRollback; intro c; repeat (first | exact ih c | ff_step)
macro_rules | `(tactic| ff_lemma) => `(tactic| with_reducible exact ff_customRollback _ _ _)

theorem ff_customRegister (k : Nat) (fail : Option Nat) (rb : Bool) (n j : Nat) (f : Factory) :
    FrameF (customRegister k fail rb n j f) := by
  induction n generalizing j f with
  | zero => unfold customRegister; ff
  | succ n ih => unfold customRegister; intro c; repeat (first | exact ih _ _ c | ff_step)
macro_rules | `(tactic| ff_lemma) => `(tactic| with_reducible exact ff_customRegister _ _ _ _ _ _ _)





theorem ff_isLife (k : Nat) : FrameF (isLife k) := by unfold isLife; ff
macro_rules | `(tactic| ff_lemma) => `(tactic| with_reducible exact ff_isLife _ _)


theorem ff_maybeDrop (k : Nat) : FrameF (maybeDrop k) := by unfold maybeDrop; ff
macro_rules | `(tactic| ff_lemma) => `(tactic| with_reducible exact ff_maybeDrop _ _)
theorem ff_userTok (k : Nat) : FrameF (userTok k) := by unfold userTok; ff
macro_rules | `(tactic| ff_lemma) => `(tactic| with_reducible exact ff_userTok _ _)

/-! ### statements that never end in an `Err` -/

structure NoErr {α} (x : M α) : Prop where
  h : ∀ s, match x s with | .error (.err _) _ => False | _ => True

theorem noerr_pure {α} (a : α) : NoErr (pure a : M α) := ⟨fun _ => True.intro⟩
theorem noerr_get : NoErr (MonadState.get : M St) := ⟨fun _ => True.intro⟩
theorem noerr_modify (f : St → St) : NoErr (modify f : M Unit) := ⟨fun _ => True.intro⟩
theorem noerr_throwPanic {α} (p : Panic) : NoErr (throwPanic p : M α) := ⟨fun _ => True.intro⟩
theorem noerr_bind {α β} {x : M α} {f : α → M β} (hx : NoErr x) (hf : ∀ a, NoErr (f a)) : NoErr (x >>= f) := by
  constructor
  intro s
  have h1 := hx.h s
  simp only [bind, EStateM.bind]
  cases hxs : x s with
  | ok a s' => exact (hf a).h s'
  | error e s' => rw [hxs] at h1; cases e <;> simp_all

macro "ne_step" : tactic => `(tactic| first
  | exact noerr_pure _
  | exact noerr_get
  | exact noerr_modify _
  | exact noerr_throwPanic _
  | (apply noerr_bind)
  | (intro _)
  | split)

theorem noerr_emit (o : Obs) : NoErr (emit o) := by unfold emit; repeat ne_step
theorem noerr_getSrc (k : Nat) : NoErr (getSrc? k) := by unfold getSrc?; repeat ne_step
theorem noerr_modSrc (k : Nat) (f : Src → Src) : NoErr (modSrc k f) := by
  unfold modSrc setSrc; repeat (first | exact noerr_getSrc _ | ne_step)
theorem noerr_takeToken (f : Factory) : NoErr (takeToken f) := by unfold takeToken; repeat ne_step
theorem noerr_timerRegister (k : Nat) (f : Factory) : NoErr (timerRegister k f) := by
  unfold timerRegister
  repeat (first | exact noerr_modSrc _ _ | exact noerr_getSrc _ | exact noerr_takeToken _ | ne_step)
theorem noerr_isLife (k : Nat) : NoErr (isLife k) := by unfold isLife; repeat ne_step

/-! ### what an `Err` exit leaves behind -/

open Verif.Inv.Ctl in
/-- `P` survives an `Err` exit of `x` (nothing is said about a normal return) -/
def ErrKeeps {α} (x : M α) (P : St → Prop) : Prop := Hoare P x (fun _ _ => True) P

open Verif.Inv.Ctl in
theorem ek_of_keeps {α} {x : M α} {P : St → Prop} (h : Keeps x P) : ErrKeeps x P :=
  hoare_conseq (hoare_of_keeps h) (fun _ h => h) (fun _ _ _ => True.intro) (fun _ h => h)

open Verif.Inv.Ctl in
theorem ek_of_noerr {α} {x : M α} {P : St → Prop} (h : NoErr x) : ErrKeeps x P := by
  intro s _
  have := h.h s
  cases hx : x s with
  | ok a s' => trivial
  | error e s' => rw [hx] at this; cases e with | err e => exact this.elim | panic p => trivial

open Verif.Inv.Ctl in
/-- a prefix that keeps `P` however it ends, then a statement whose `Err` exits keep `P` -/
theorem ek_bind_keeps {α β} {x : M α} {f : α → M β} {P : St → Prop} (hx : Keeps x P) (hf : ∀ a, ErrKeeps (f a) P) :
    ErrKeeps (x >>= f) P :=
  hoare_bind (fun _ => P) (hoare_of_keeps hx) hf

open Verif.Inv.Ctl in
/-- a statement whose `Err` exits keep `P`, then a tail that cannot end in an `Err` -/
theorem ek_bind_noerr {α β} {x : M α} {f : α → M β} {P : St → Prop} (hx : ErrKeeps x P) (hf : ∀ a, NoErr (f a)) :
    ErrKeeps (x >>= f) P := by
  intro s hs
  have h1 := hx s hs
  show match (x >>= f) s with
    | .ok _ _ => True
    | .error (.err _) s' => P s'
    | .error (.panic _) _ => True
  simp only [bind, EStateM.bind]
  cases hxs : x s with
  | ok a s' =>
    have h2 := (hf a).h s'
    simp only
    cases hfs : f a s' with
    | ok b s'' => trivial
    | error e s'' =>
      rw [hfs] at h2
      cases e with
      | err e => exact h2.elim
      | panic p => trivial
  | error e s' =>
    rw [hxs] at h1
    simp only
    cases e with
    | err e => exact h1
    | panic p => trivial

theorem keeps_and {α} {x : M α} {P Q : St → Prop} (hP : Keeps x P) (hQ : Keeps x Q) : Keeps x (fun s => P s ∧ Q s) :=
  ⟨fun s h => ⟨hP.h s h.1, hQ.h s h.2⟩⟩

theorem keeps_of_frameF {α} {x : M α} (h : FrameF x) (R : _ → Prop) : Keeps x (fun s => R (prF s)) := by
  constructor
  intro s hs
  have h1 : prF (after x s) = prF s := (h (prF s)).h s rfl
  show R (prF (after x s))
  rw [h1]; exact hs

theorem ek_srcRegister (k : Nat) (f : Factory) (c) : ErrKeeps (srcRegister k f) (fun s => prF s = c) := by
  unfold srcRegister
  apply ek_bind_keeps (ff_getSrc k c)
  intro o
  split
  · exact ek_of_keeps (keeps_pure _ _)
  · rename_i src
    split
    · exact ek_of_keeps (by repeat ff_step)
    · exact ek_of_keeps (by repeat ff_step)
    · exact ek_of_keeps (by repeat ff_step)
    · exact ek_of_noerr (noerr_timerRegister k f)
    · exact ek_of_keeps (ff_customRegister _ _ _ _ _ _ c)

open Verif.Inv.Ctl in
theorem ek_panic_bind {α β} (p : Panic) (f : α → M β) (P : St → Prop) : ErrKeeps ((throwPanic p : M α) >>= f) P := by
  intro s _
  show match ((throwPanic p : M α) >>= f) s with
    | .ok _ _ => True
    | .error (.err _) s' => P s'
    | .error (.panic _) _ => True
  simp [bind, EStateM.bind, throwPanic, throw, throwThe, MonadExceptOf.throw, EStateM.throw]

open Verif.Inv.Ctl in
/-- a registration that fails leaves lifecycle set, wheel, tokens, idle queue, pending action as they were -/
theorem ek_dRegister (k : Nat) (tok : Tok) (c) : ErrKeeps (dRegister k tok) (fun s => prF s = c) := by
  unfold dRegister
  apply ek_bind_keeps (keeps_get _)
  intro s0
  dsimp only
  have tail : ErrKeeps (do
      srcRegister k (Factory.new tok)
      if ← isLife k then modify fun s => { s with life := lifeRegister s.life (forgetSub tok) } : M Unit)
      (fun s => prF s = c) := by
    apply ek_bind_noerr (ek_srcRegister k _ c)
    intro _
    repeat (first | exact noerr_isLife _ | ne_step)
  split
  · exact ek_panic_bind _ _ _
  · exact tail

/-! ### the failed insertion -/

theorem getLast_snoc {α} (l : List α) (x : α) : (l ++ [x]).getLast? = some x := by simp

open Verif.Inv.Ctl in
theorem hoare_doInsertAt_fail (k : Nat) (src : Src) (ss0 : Slots) (c) :
    Hoare (fun s => prF s = c ∧ s.slots = ss0)
      (doInsertAt k src (vacantEntry bV ss0).1 (vacantEntry bV ss0).2
        (match (vacantEntry bV ss0).1[(vacantEntry bV ss0).2]? with | some sl => sl.tok | none => default))
      (fun _ s => ∀ e, s.log.getLast? = some (.ins k (.err e)) → prF s = c ∧ occupied s.slots = occupied ss0)
      (fun _ => True) := by
  generalize (match (vacantEntry bV ss0).1[(vacantEntry bV ss0).2]? with | some sl => sl.tok | none => default) = tok
  unfold doInsertAt
  let X := setOcc (vacantEntry bV ss0).1 (vacantEntry bV ss0).2 (some k)
  apply hoare_bind (fun _ s => prF s = c ∧ s.slots = X)
  · apply hoare_modify
    intro s ⟨h1, _⟩
    exact ⟨h1, rfl⟩
  intro _
  -- the registration: on an `Err` the bookkeeping is as before; the slot table is not touched either way
  apply hoare_bind (fun r s => s.slots = X ∧ (∀ e, r = .error e → prF s = c))
  · intro s ⟨h1, h2⟩
    have hA := (fa_dRegister k tok (prA s)).h s rfl
    have hE := ek_dRegister k tok c s h1
    simp only [catchErr, tryCatch, tryCatchThe, MonadExceptOf.tryCatch, EStateM.tryCatch, bind, EStateM.bind, pure, EStateM.pure]
    simp only [after] at hA
    cases hx : dRegister k tok s with
    | ok a s' =>
      rw [hx] at hA
      simp only [EStateM.bind, EStateM.pure]
      have : s'.slots = s.slots := congrArg Prod.fst hA
      exact ⟨by rw [this, h2], fun e he => by cases he⟩
    | error ex s' =>
      rw [hx] at hA hE
      have hs : s'.slots = s.slots := congrArg Prod.fst hA
      cases ex with
      | err e =>
        simp only [EStateM.Backtrackable.restore, EStateM.dummyRestore, EStateM.pure]
        exact ⟨by rw [hs, h2], fun _ _ => hE⟩
      | panic p =>
        simp [EStateM.Backtrackable.restore, EStateM.dummyRestore, throw, throwThe, MonadExceptOf.throw, EStateM.throw]
  intro r
  cases r with
  | ok _ =>
    simp only
    -- the insertion succeeded: the last line of the log says so
    intro s _
    simp only [bind, EStateM.bind, modify, modifyGet, MonadStateOf.modifyGet, EStateM.modifyGet, emit]
    intro e he
    simp at he
  | error e0 =>
    simp only
    apply hoare_bind (fun _ s => prF s = c ∧ occupied s.slots = occupied ss0)
    · apply hoare_modify
      intro s ⟨hs, hp⟩
      refine ⟨hp e0 rfl, ?_⟩
      show occupied (setOcc s.slots _ none) = _
      rw [hs]
      exact Verif.Inv.Slots.failed_insert_leaks_no_slot bV ss0 k
    intro _
    have hF : FrameF (do
        if src.kind == .custom then modSrc k fun s => { s with owned := true }
        maybeDrop k
        emit (.ins k (.err e0)) : M Unit) := by
      intro c'; repeat (first | ff_step | dsimp only)
    have hK := keeps_and (keeps_of_frameF hF (fun p => p = c))
      (keeps_of_frameA (fa_doInsertTail k src e0) (fun p => occupied p.1 = occupied ss0))
    exact hoare_conseq (hoare_of_keeps hK) (fun _ h => h) (fun _ _ h _ _ => h) (fun _ _ => True.intro)

open Verif.Inv.Ctl in
/-- **From every state**: an insertion whose registration fails (`insert_source` returns the error) leaves the
    lifecycle set, the timer wheel, the tokens handed out, the idle queue, the pending action and the synthetic events
    exactly as they were, and the slot table with as many occupants as before — whatever the source did while it
    failed (partial sub-registrations with or without roll-back included). -/
theorem failed_insert_restores (k : Nat) (keep : Bool) (s : St) :
    match doInsert k keep s with
    | .ok _ s' => ∀ e, s'.log.getLast? = some (.ins k (.err e)) → prF s' = prF s ∧ occupied s'.slots = occupied s.slots
    | .error _ _ => True := by
  have h : Hoare (fun s1 => s1 = s) (doInsert k keep)
      (fun _ s' => ∀ e, s'.log.getLast? = some (.ins k (.err e)) → prF s' = prF s ∧ occupied s'.slots = occupied s.slots)
      (fun _ => True) := by
    rw [doInsert_eq]
    apply hoare_bind (fun _ s1 => s1 = s)
    · intro s1 h1; exact h1
    intro o
    have hemit : ∀ (P : St → Prop), Hoare P (emit (.ins k .nosource))
        (fun _ s' => ∀ e, s'.log.getLast? = some (.ins k (.err e)) → prF s' = prF s ∧ occupied s'.slots = occupied s.slots)
        (fun _ => True) := by
      intro P s1 _
      show ∀ e, (s1.log ++ [Obs.ins k .nosource]).getLast? = some (.ins k (.err e)) → _
      intro e he
      simp at he
    split
    · exact hemit _
    · rename_i src
      split
      · exact hemit _
      · apply hoare_bind (fun _ s1 => prF s1 = prF s ∧ s1.slots = s.slots)
        · intro s1 h1
          subst h1
          have hF := (ff_modSrc k (fun v => { v with owned := false, kept := keep && v.kind != .chan && v.kind != .custom }) (prF s1)).h s1 rfl
          have hA := (fa_modSrc k (fun v => { v with owned := false, kept := keep && v.kind != .chan && v.kind != .custom }) (prA s1)).h s1 rfl
          simp only [after] at hF hA
          cases hx : modSrc k (fun v => { v with owned := false, kept := keep && v.kind != .chan && v.kind != .custom }) s1 with
          | ok a s2 => rw [hx] at hF hA; exact ⟨hF, congrArg Prod.fst hA⟩
          | error ex s2 => cases ex <;> trivial
        intro _
        apply hoare_bind (fun a s1 => (prF s1 = prF s ∧ s1.slots = s.slots) ∧ a = s1) hoare_get
        intro s0
        intro s1 ⟨⟨h1, h2⟩, he⟩
        subst he
        have hocc : occupied s0.slots = occupied s.slots := by rw [h2]
        exact hoare_conseq (hoare_doInsertAt_fail k src s0.slots (prF s)) (fun _ h => h)
          (fun _ s' h e he => ⟨(h e he).1, (h e he).2.trans hocc⟩) (fun _ h => h) s0 ⟨h1, rfl⟩
  have := h s rfl
  cases hx : doInsert k keep s with
  | ok a s' => rw [hx] at this; exact this
  | error e s' => trivial

end Verif.Inv.FailIns
