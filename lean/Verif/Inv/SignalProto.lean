/- The inductive invariant of `SignalProto` and its preservation by every action (C11). -/
import Verif.Model.SignalProto

namespace Verif.Inv.SignalProto
open Verif.SignalProto

def Inv (s : St) : Prop :=
  s.mode ≤ 1 ∧ s.stop ≤ 1 ∧ s.fready ≤ 1 ∧ s.notif ≤ 1 ∧ s.lp ≤ 9 ∧ s.result ≤ 2 ∧
  s.stopAfterReset ≤ 1 ∧ s.wakeAfterStop ≤ 1 ∧ s.wakesPending ≤ 1 ∧ s.futDone ≤ 1 ∧
  (s.lp = 0 → s.stopAfterReset = 0 ∧ s.wakeAfterStop = 0 ∧ s.result = 0 ∧ s.polls = 0 ∧ s.bwStore = 0 ∧ s.bwNotify = 0 ∧ s.wakesPending = 0) ∧
  (s.mode = 0 → s.lp ≠ 3 ∧ s.lp ≠ 9 ∧ s.bwStore = 0 ∧ s.bwNotify = 0 ∧ s.wakesPending = 0 ∧ s.result ≠ 1) ∧
  (s.stopAfterReset = 1 → s.stop = 1 ∧ s.lp ≥ 1) ∧
  (s.wakeAfterStop = 1 → s.stopAfterReset = 1 ∧ ((2 ≤ s.lp ∧ s.lp ≤ 5) ∨ s.lp = 9 → s.notif = 1)) ∧
  (s.result = 2 → s.stop = 1 ∧ s.lp = 8) ∧
  (s.result = 1 → s.futDone = 1 ∧ s.polls ≥ 1 ∧ s.lp = 8 ∧ s.mode = 1) ∧
  (s.lp = 8 → s.result ≥ 1) ∧ (s.result ≥ 1 → s.lp = 8) ∧
  (s.fready = 1 → s.mode = 1 ∧ (s.lp = 4 ∨ s.lp = 5 ∨ s.lp = 9 → s.notif = 1 ∨ s.bwNotify > 0)) ∧
  (s.wakesPending = 1 → s.fready = 1) ∧
  (s.mode = 1 → 4 ≤ s.lp → s.lp ≤ 7 ∨ s.lp = 9 → s.polls ≥ 1) ∧
  (s.mode = 1 → 1 ≤ s.lp → s.lp ≤ 3 → s.fready = 0 → s.polls ≥ 1)

theorem inv_init (mode : Nat) (h : mode ≤ 1) : Inv { mode := mode } := by
  simp [Inv]; omega

macro "closeArith" : tactic => `(tactic| first
  | omega
  | (simp only [true_or, or_true, true_and, and_true, true_implies, implies_true, ne_eq, not_true_eq_false, not_false_eq_true,
       false_or, or_false, false_and, and_false, false_implies] <;> omega)
  | (split <;> omega)
  | (simp <;> omega)
  | simp)

macro "stepInv" : tactic => `(tactic|
  (unfold Inv at *
   simp only [step] at *
   (repeat' split at *) <;> simp only [Option.some.injEq, reduceCtorEq] at * <;> (try subst_vars) <;> simp only <;>
   (refine ⟨?_, ?_, ?_, ?_, ?_, ?_, ?_, ?_, ?_, ?_, ?_, ?_, ?_, ?_, ?_, ?_, ?_, ?_, ?_, ?_, ?_, ?_⟩) <;> closeArith))

set_option maxHeartbeats 1600000 in
theorem inv_stopStart (s s' : St) (h : Inv s) (hs : step s .stopStart = some s') : Inv s' := by
  unfold Inv at h ⊢
  simp only [step] at hs
  (repeat' split at hs) <;> simp only [Option.some.injEq, reduceCtorEq] at hs <;> (try subst hs) <;> simp only <;>
  (refine ⟨?_, ?_, ?_, ?_, ?_, ?_, ?_, ?_, ?_, ?_, ?_, ?_, ?_, ?_, ?_, ?_, ?_, ?_, ?_, ?_, ?_, ?_⟩) <;> closeArith

set_option maxHeartbeats 1600000 in
theorem inv_stopStore (s s' : St) (h : Inv s) (hs : step s .stopStore = some s') : Inv s' := by
  unfold Inv at h ⊢
  simp only [step] at hs
  (repeat' split at hs) <;> simp only [Option.some.injEq, reduceCtorEq] at hs <;> (try subst hs) <;> simp only <;>
  (refine ⟨?_, ?_, ?_, ?_, ?_, ?_, ?_, ?_, ?_, ?_, ?_, ?_, ?_, ?_, ?_, ?_, ?_, ?_, ?_, ?_, ?_, ?_⟩) <;> closeArith

set_option maxHeartbeats 1600000 in
theorem inv_wakeupStart (s s' : St) (h : Inv s) (hs : step s .wakeupStart = some s') : Inv s' := by
  unfold Inv at h ⊢
  simp only [step] at hs
  (repeat' split at hs) <;> simp only [Option.some.injEq, reduceCtorEq] at hs <;> (try subst hs) <;> simp only <;>
  (refine ⟨?_, ?_, ?_, ?_, ?_, ?_, ?_, ?_, ?_, ?_, ?_, ?_, ?_, ?_, ?_, ?_, ?_, ?_, ?_, ?_, ?_, ?_⟩) <;> closeArith

set_option maxHeartbeats 1600000 in
theorem inv_wakeupNotify (s s' : St) (h : Inv s) (hs : step s .wakeupNotify = some s') : Inv s' := by
  unfold Inv at h ⊢
  simp only [step] at hs
  (repeat' split at hs) <;> simp only [Option.some.injEq, reduceCtorEq] at hs <;> (try subst hs) <;> simp only <;>
  (refine ⟨?_, ?_, ?_, ?_, ?_, ?_, ?_, ?_, ?_, ?_, ?_, ?_, ?_, ?_, ?_, ?_, ?_, ?_, ?_, ?_, ?_, ?_⟩) <;> closeArith

set_option maxHeartbeats 1600000 in
theorem inv_complete (s s' : St) (h : Inv s) (hs : step s .complete = some s') : Inv s' := by
  unfold Inv at h ⊢
  simp only [step] at hs
  (repeat' split at hs) <;> simp only [Option.some.injEq, reduceCtorEq] at hs <;> (try subst hs) <;> simp only <;>
  (refine ⟨?_, ?_, ?_, ?_, ?_, ?_, ?_, ?_, ?_, ?_, ?_, ?_, ?_, ?_, ?_, ?_, ?_, ?_, ?_, ?_, ?_, ?_⟩) <;> closeArith

set_option maxHeartbeats 1600000 in
theorem inv_wakerStart (s s' : St) (h : Inv s) (hs : step s .wakerStart = some s') : Inv s' := by
  unfold Inv at h ⊢
  simp only [step] at hs
  (repeat' split at hs) <;> simp only [Option.some.injEq, reduceCtorEq] at hs <;> (try subst hs) <;> simp only <;>
  (refine ⟨?_, ?_, ?_, ?_, ?_, ?_, ?_, ?_, ?_, ?_, ?_, ?_, ?_, ?_, ?_, ?_, ?_, ?_, ?_, ?_, ?_, ?_⟩) <;> closeArith

set_option maxHeartbeats 1600000 in
theorem inv_wakerStore (s s' : St) (h : Inv s) (hs : step s .wakerStore = some s') : Inv s' := by
  unfold Inv at h ⊢
  simp only [step] at hs
  (repeat' split at hs) <;> simp only [Option.some.injEq, reduceCtorEq] at hs <;> (try subst hs) <;> simp only <;>
  (refine ⟨?_, ?_, ?_, ?_, ?_, ?_, ?_, ?_, ?_, ?_, ?_, ?_, ?_, ?_, ?_, ?_, ?_, ?_, ?_, ?_, ?_, ?_⟩) <;> closeArith

set_option maxHeartbeats 1600000 in
theorem inv_wakerNotify (s s' : St) (h : Inv s) (hs : step s .wakerNotify = some s') : Inv s' := by
  unfold Inv at h ⊢
  simp only [step] at hs
  (repeat' split at hs) <;> simp only [Option.some.injEq, reduceCtorEq] at hs <;> (try subst hs) <;> simp only <;>
  (refine ⟨?_, ?_, ?_, ?_, ?_, ?_, ?_, ?_, ?_, ?_, ?_, ?_, ?_, ?_, ?_, ?_, ?_, ?_, ?_, ?_, ?_, ?_⟩) <;> closeArith

set_option maxHeartbeats 1600000 in
theorem inv_runStart (s s' : St) (h : Inv s) (hs : step s .runStart = some s') : Inv s' := by
  unfold Inv at h ⊢
  simp only [step] at hs
  (repeat' split at hs) <;> simp only [Option.some.injEq, reduceCtorEq] at hs <;> (try subst hs) <;> simp only <;>
  (refine ⟨?_, ?_, ?_, ?_, ?_, ?_, ?_, ?_, ?_, ?_, ?_, ?_, ?_, ?_, ?_, ?_, ?_, ?_, ?_, ?_, ?_, ?_⟩) <;> closeArith

set_option maxHeartbeats 1600000 in
theorem inv_check (s s' : St) (h : Inv s) (hs : step s .check = some s') : Inv s' := by
  unfold Inv at h ⊢
  simp only [step] at hs
  (repeat' split at hs) <;> simp only [Option.some.injEq, reduceCtorEq] at hs <;> (try subst hs) <;> simp only <;>
  (refine ⟨?_, ?_, ?_, ?_, ?_, ?_, ?_, ?_, ?_, ?_, ?_, ?_, ?_, ?_, ?_, ?_, ?_, ?_, ?_, ?_, ?_, ?_⟩) <;> closeArith

set_option maxHeartbeats 1600000 in
theorem inv_afterChecked (s s' : St) (h : Inv s) (hs : step s .afterChecked = some s') : Inv s' := by
  unfold Inv at h ⊢
  simp only [step] at hs
  split at hs <;> simp only [Option.some.injEq, reduceCtorEq] at hs
  subst hs
  by_cases hm : s.mode = 1
  · simp only [hm, if_true]
    (refine ⟨?_, ?_, ?_, ?_, ?_, ?_, ?_, ?_, ?_, ?_, ?_, ?_, ?_, ?_, ?_, ?_, ?_, ?_, ?_, ?_, ?_, ?_⟩) <;> closeArith
  · simp only [hm, if_false]
    (refine ⟨?_, ?_, ?_, ?_, ?_, ?_, ?_, ?_, ?_, ?_, ?_, ?_, ?_, ?_, ?_, ?_, ?_, ?_, ?_, ?_, ?_, ?_⟩) <;> closeArith

set_option maxHeartbeats 1600000 in
theorem inv_swap (s s' : St) (h : Inv s) (hs : step s .swap = some s') : Inv s' := by
  unfold Inv at h ⊢
  simp only [step] at hs
  (repeat' split at hs) <;> simp only [Option.some.injEq, reduceCtorEq] at hs <;> (try subst hs) <;> simp only <;>
  (refine ⟨?_, ?_, ?_, ?_, ?_, ?_, ?_, ?_, ?_, ?_, ?_, ?_, ?_, ?_, ?_, ?_, ?_, ?_, ?_, ?_, ?_, ?_⟩) <;> closeArith

set_option maxHeartbeats 1600000 in
theorem inv_pollEnd (s s' : St) (h : Inv s) (hs : step s .pollEnd = some s') : Inv s' := by
  unfold Inv at h ⊢
  simp only [step] at hs
  (repeat' split at hs) <;> simp only [Option.some.injEq, reduceCtorEq] at hs <;> (try subst hs) <;> simp only <;>
  (refine ⟨?_, ?_, ?_, ?_, ?_, ?_, ?_, ?_, ?_, ?_, ?_, ?_, ?_, ?_, ?_, ?_, ?_, ?_, ?_, ?_, ?_, ?_⟩) <;> closeArith

set_option maxHeartbeats 1600000 in
theorem inv_enterWait (s s' : St) (h : Inv s) (hs : step s .enterWait = some s') : Inv s' := by
  unfold Inv at h ⊢
  simp only [step] at hs
  (repeat' split at hs) <;> simp only [Option.some.injEq, reduceCtorEq] at hs <;> (try subst hs) <;> simp only <;>
  (refine ⟨?_, ?_, ?_, ?_, ?_, ?_, ?_, ?_, ?_, ?_, ?_, ?_, ?_, ?_, ?_, ?_, ?_, ?_, ?_, ?_, ?_, ?_⟩) <;> closeArith

set_option maxHeartbeats 1600000 in
theorem inv_waitReturn (s s' : St) (h : Inv s) (hs : step s .waitReturn = some s') : Inv s' := by
  unfold Inv at h ⊢
  simp only [step] at hs
  (repeat' split at hs) <;> simp only [Option.some.injEq, reduceCtorEq] at hs <;> (try subst hs) <;> simp only <;>
  (refine ⟨?_, ?_, ?_, ?_, ?_, ?_, ?_, ?_, ?_, ?_, ?_, ?_, ?_, ?_, ?_, ?_, ?_, ?_, ?_, ?_, ?_, ?_⟩) <;> closeArith

set_option maxHeartbeats 1600000 in
theorem inv_afterWait (s s' : St) (h : Inv s) (hs : step s .afterWait = some s') : Inv s' := by
  unfold Inv at h ⊢
  simp only [step] at hs
  (repeat' split at hs) <;> simp only [Option.some.injEq, reduceCtorEq] at hs <;> (try subst hs) <;> simp only <;>
  (refine ⟨?_, ?_, ?_, ?_, ?_, ?_, ?_, ?_, ?_, ?_, ?_, ?_, ?_, ?_, ?_, ?_, ?_, ?_, ?_, ?_, ?_, ?_⟩) <;> closeArith

theorem inv_step (s s' : St) (a : Act) (h : Inv s) (hs : step s a = some s') : Inv s' := by
  cases a
  · exact inv_stopStart s s' h hs
  · exact inv_stopStore s s' h hs
  · exact inv_wakeupStart s s' h hs
  · exact inv_wakeupNotify s s' h hs
  · exact inv_complete s s' h hs
  · exact inv_wakerStart s s' h hs
  · exact inv_wakerStore s s' h hs
  · exact inv_wakerNotify s s' h hs
  · exact inv_runStart s s' h hs
  · exact inv_check s s' h hs
  · exact inv_afterChecked s s' h hs
  · exact inv_swap s s' h hs
  · exact inv_pollEnd s s' h hs
  · exact inv_enterWait s s' h hs
  · exact inv_waitReturn s s' h hs
  · exact inv_afterWait s s' h hs

theorem inv_reach (mode : Nat) (hm : mode ≤ 1) (s : St) (h : Reach mode s) : Inv s := by
  induction h with
  | init => exact inv_init mode hm
  | step a _ hs ih => exact inv_step _ _ a ih hs


/-- the mode never changes -/
theorem mode_const (mode : Nat) (s : St) (h : Reach mode s) : s.mode = mode := by
  induction h with
  | init => rfl
  | step a _ hs ih =>
    cases a <;> simp only [step] at hs <;> (repeat' split at hs) <;>
      simp only [Option.some.injEq, reduceCtorEq] at hs <;> (try subst hs) <;> exact ih

end Verif.Inv.SignalProto
