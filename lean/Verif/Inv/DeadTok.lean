/-
C06, over the whole model: a source that was handed a token and has left its slot never sits in a slot again — so its
token, once dead, stays dead for the rest of every history (unless a generation wraps: finding F12).
-/
import Verif.Inv.OwnInv

namespace Verif.Inv.DeadTok
open Verif.Loop Verif.Inv Verif.Kernel Verif.Slots Verif.Wheel Verif.Token Verif.Inv.TokInv Verif.Inv.OwnInv

/-- slot table, ownership, tokens handed out -/
def prD (s : St) : Slots × (Nat → Option Bool) × List (Nat × Tok) := (s.slots, om s, s.tokens)

abbrev FrameD {α} (x : M α) : Prop := ∀ c, Keeps x (fun s => prD s = c)

syntax "fd_lemma" : tactic
macro_rules | `(tactic| fd_lemma) => `(tactic| fail "no lemma applies")

macro "fd_step" : tactic => `(tactic| first
  | exact keeps_pure _ _
  | exact keeps_throw _ _
  | exact keeps_get _
  | fd_lemma
  | (apply keeps_modify; intro s h; exact h)
  | (apply keeps_emit; intro s h; exact h)
  | (apply keeps_bind)
  | (apply keeps_catchErr)
  | (apply keeps_forEachM)
  | (apply keeps_ite)
  | (intro _)
  | split)

macro "fd" : tactic => `(tactic| (intro c; repeat fd_step))

theorem fd_emit (o : Obs) : FrameD (emit o) := by intro c; apply keeps_emit; intro s h; exact h
macro_rules | `(tactic| fd_lemma) => `(tactic| with_reducible exact fd_emit _ _)
theorem fd_throwErr {α} (e : Err) : FrameD (throwErr e : M α) := by intro c; exact keeps_throw _ _
macro_rules | `(tactic| fd_lemma) => `(tactic| with_reducible exact fd_throwErr _ _)
theorem fd_throwPanic {α} (p : Panic) : FrameD (throwPanic p : M α) := by intro c; exact keeps_throw _ _
macro_rules | `(tactic| fd_lemma) => `(tactic| with_reducible exact fd_throwPanic _ _)

theorem fd_getSrc (k : Nat) : FrameD (getSrc? k) := by unfold getSrc?; fd
macro_rules | `(tactic| fd_lemma) => `(tactic| with_reducible exact fd_getSrc _ _)
theorem fd_modSrc (k : Nat) (f : Src → Src) (hf : ∀ v, (f v).owned = v.owned) : FrameD (modSrc k f) := by
  intro c
  constructor
  intro s hs
  unfold after
  rw [modSrc_run]
  cases hk : alookup s.srcs k with
  | none => exact hs
  | some v =>
    show prD { s with srcs := aset s.srcs k (f v) } = c
    rw [← hs]
    show (s.slots, om { s with srcs := aset s.srcs k (f v) }, s.tokens) = (s.slots, om s, s.tokens)
    rw [om_aset s k (f v), om_same s k ((f v).owned) (by simp [om, hk, hf v])]
macro_rules | `(tactic| fd_lemma) => `(tactic| (refine fd_modSrc _ _ ?_ _; intro _; first | rfl | (split <;> rfl) | (dsimp only; split <;> rfl)))
theorem fd_modGen (k j : Nat) (f : Gen → Gen) : FrameD (modGen k j f) := by unfold modGen; fd
macro_rules | `(tactic| fd_lemma) => `(tactic| with_reducible exact fd_modGen _ _ _ _)
theorem fd_getGen (k j : Nat) : FrameD (getGen? k j) := by unfold getGen?; fd
macro_rules | `(tactic| fd_lemma) => `(tactic| with_reducible exact fd_getGen _ _ _)
theorem fd_kAdd (e : EpEntry) : FrameD (kAdd e) := by unfold kAdd; fd
macro_rules | `(tactic| fd_lemma) => `(tactic| with_reducible exact fd_kAdd _ _)
theorem fd_kMod (e : EpEntry) : FrameD (kMod e) := by unfold kMod; fd
macro_rules | `(tactic| fd_lemma) => `(tactic| with_reducible exact fd_kMod _ _)
theorem fd_kDel (fd : Nat) : FrameD (kDel fd) := by unfold kDel; fd
macro_rules | `(tactic| fd_lemma) => `(tactic| with_reducible exact fd_kDel _ _)
theorem fd_kWrite (fd n : Nat) : FrameD (kWrite fd n) := by unfold kWrite; fd
macro_rules | `(tactic| fd_lemma) => `(tactic| with_reducible exact fd_kWrite _ _ _)
theorem fd_kRead (fd : Nat) : FrameD (kRead fd) := by unfold kRead; fd
macro_rules | `(tactic| fd_lemma) => `(tactic| with_reducible exact fd_kRead _ _)
theorem fd_takeToken (f : Factory) : FrameD (takeToken f) := by unfold takeToken; fd
macro_rules | `(tactic| fd_lemma) => `(tactic| with_reducible exact fd_takeToken _ _)
theorem fd_genRegister (k j : Nat) (f : Factory) : FrameD (genRegister k j f) := by unfold genRegister; fd
macro_rules | `(tactic| fd_lemma) => `(tactic| with_reducible exact fd_genRegister _ _ _ _)
theorem fd_genReregister (k j : Nat) (f : Factory) : FrameD (genReregister k j f) := by unfold genReregister; fd
macro_rules | `(tactic| fd_lemma) => `(tactic| with_reducible exact fd_genReregister _ _ _ _)
theorem fd_genUnregister (k j : Nat) : FrameD (genUnregister k j) := by unfold genUnregister; fd
macro_rules | `(tactic| fd_lemma) => `(tactic| with_reducible exact fd_genUnregister _ _ _)

theorem fd_customLoop (k : Nat) (kind : RegKind) (fail : Option Nat) (body : Nat → Factory → M Factory)
    (hb : ∀ j f, FrameD (body j f)) (n j : Nat) (f : Factory) : FrameD (customLoop k kind fail body n j f) := by
  induction n generalizing j f with
  | zero => unfold customLoop; fd
  | succ n ih =>
    unfold customLoop
    intro c
    repeat (first | exact ih _ _ c | exact hb _ _ c | fd_step)

theorem fd_customRollback (k j : Nat) : FrameD (customRollback k j) := by
  induction j with
  | zero => unfold customRollback; fd
  | succ j ih => unfold customRollback; intro c; repeat (first | exact ih c | fd_step)
macro_rules | `(tactic| fd_lemma) => `(tactic| with_reducible exact fd_customRollback _ _ _)

theorem fd_customRegister (k : Nat) (fail : Option Nat) (rb : Bool) (n j : Nat) (f : Factory) :
    FrameD (customRegister k fail rb n j f) := by
  induction n generalizing j f with
  | zero => unfold customRegister; fd
  | succ n ih => unfold customRegister; intro c; repeat (first | exact ih _ _ c | fd_step)
macro_rules | `(tactic| fd_lemma) => `(tactic| with_reducible exact fd_customRegister _ _ _ _ _ _ _)

theorem fd_timerUnregister (k : Nat) : FrameD (timerUnregister k) := by unfold timerUnregister; fd
macro_rules | `(tactic| fd_lemma) => `(tactic| with_reducible exact fd_timerUnregister _ _)
theorem fd_timerRegister (k : Nat) (f : Factory) : FrameD (timerRegister k f) := by unfold timerRegister; fd
macro_rules | `(tactic| fd_lemma) => `(tactic| with_reducible exact fd_timerRegister _ _ _)

theorem fd_srcRegister (k : Nat) (f : Factory) : FrameD (srcRegister k f) := by unfold srcRegister; fd
macro_rules | `(tactic| fd_lemma) => `(tactic| with_reducible exact fd_srcRegister _ _ _)

theorem fd_srcReregister (k : Nat) (f : Factory) : FrameD (srcReregister k f) := by
  unfold srcReregister
  intro c
  repeat (first | (apply fd_customLoop; intro j f; exact fd_genReregister _ _ _) | fd_step)
macro_rules | `(tactic| fd_lemma) => `(tactic| with_reducible exact fd_srcReregister _ _ _)

theorem fd_srcUnregister (k : Nat) : FrameD (srcUnregister k) := by
  unfold srcUnregister
  intro c
  repeat (first | (apply fd_customLoop; intro j f c; repeat fd_step) | fd_step)
macro_rules | `(tactic| fd_lemma) => `(tactic| with_reducible exact fd_srcUnregister _ _)

theorem fd_isLife (k : Nat) : FrameD (isLife k) := by unfold isLife; fd
macro_rules | `(tactic| fd_lemma) => `(tactic| with_reducible exact fd_isLife _ _)

theorem fd_dRegister (k : Nat) (tok : Tok) : FrameD (dRegister k tok) := by unfold dRegister; fd
macro_rules | `(tactic| fd_lemma) => `(tactic| with_reducible exact fd_dRegister _ _ _)
theorem fd_dReregister (k : Nat) (tok : Tok) : FrameD (dReregister k tok) := by unfold dReregister; fd
macro_rules | `(tactic| fd_lemma) => `(tactic| with_reducible exact fd_dReregister _ _ _)
theorem fd_dUnregister (k : Nat) (tok : Tok) : FrameD (dUnregister k tok) := by unfold dUnregister; fd
macro_rules | `(tactic| fd_lemma) => `(tactic| with_reducible exact fd_dUnregister _ _ _)

theorem fd_maybeDrop (k : Nat) : FrameD (maybeDrop k) := by unfold maybeDrop; fd
macro_rules | `(tactic| fd_lemma) => `(tactic| with_reducible exact fd_maybeDrop _ _)
theorem fd_userTok (k : Nat) : FrameD (userTok k) := by unfold userTok; fd
macro_rules | `(tactic| fd_lemma) => `(tactic| with_reducible exact fd_userTok _ _)



/-! ### the invariant -/

abbrev DX := Option (Nat × Tok)
abbrev Proj := Slots × (Nat → Option Bool) × List (Nat × Tok)

/-- a source that holds a token is not in the user's hands -/
def Q (c : Proj) : Prop := ∀ k, (alookup c.2.2 k).isSome = true → c.2.1 k = some false

/-- the source under watch: it holds `tok`, the loop owns it, it sits in no slot -/
def D (x : DX) (c : Proj) : Prop :=
  match x with
  | none => True
  | some (k, tok) => alookup c.2.2 k = some tok ∧ c.2.1 k = some false ∧ ¬ Occ c.1 k

def IP (x : DX) (c : Proj) : Prop := Q c ∧ D x c
abbrev I (x : DX) : St → Prop := fun s => IP x (prD s)

theorem keeps_of_frameD {α} {x : M α} (h : FrameD x) (R : Proj → Prop) : Keeps x (fun s => R (prD s)) := by
  constructor
  intro s hs
  have h1 : prD (after x s) = prD s := (h (prD s)).h s rfl
  show R (prD (after x s))
  rw [h1]; exact hs

theorem d_slots (x : DX) (ss ss' : Slots) (o : Nat → Option Bool) (tk : List (Nat × Tok))
    (h : D x (ss, o, tk)) (hs : ∀ k, Occ ss' k → Occ ss k) : D x (ss', o, tk) := by
  cases x with
  | none => trivial
  | some p => obtain ⟨k, tok⟩ := p; exact ⟨h.1, h.2.1, fun ho => h.2.2 (hs k ho)⟩

theorem i_vacate (x : DX) (s : St) (i : Nat) (h : I x s) : I x { s with slots := setOcc s.slots i none } :=
  ⟨h.1, d_slots x _ _ _ _ h.2 (fun k hk => occ_vacate _ _ _ hk)⟩

theorem i_churn (x : DX) (s : St) (n : Nat) (h : I x s) : I x { s with slots := churnSlots n s.slots } :=
  ⟨h.1, d_slots x _ _ _ _ h.2 (fun k hk => occ_churn _ _ _ hk)⟩

/-- changing who owns `k'`, an object without a token that is not the one under watch -/
theorem ip_setOwned (x : DX) (ss : Slots) (o : Nat → Option Bool) (tk : List (Nat × Tok)) (k' : Nat) (b : Bool)
    (h : IP x (ss, o, tk)) (hnt : alookup tk k' = none) (hx : ∀ k tok, x = some (k, tok) → k ≠ k') :
    IP x (ss, (fun k => if k = k' then some b else o k), tk) := by
  refine ⟨fun k hk => ?_, ?_⟩
  · have hkk : k ≠ k' := by
      intro e; subst e
      have hk' : (alookup tk k).isSome = true := hk
      rw [hnt] at hk'; cases hk'
    show (if k = k' then some b else o k) = some false
    simp only [hkk, if_false]
    exact h.1 k hk
  · cases x with
    | none => trivial
    | some p =>
      obtain ⟨k, tok⟩ := p
      have hkk : k ≠ k' := hx k tok rfl
      obtain ⟨h1, h2, h3⟩ := h.2
      refine ⟨h1, ?_, h3⟩
      show (if k = k' then some b else o k) = some false
      simp only [hkk, if_false]
      exact h2

theorem i_setOwned (x : DX) (s : St) (k' : Nat) (v : Src) (h : I x s) (hnt : alookup s.tokens k' = none)
    (hx : ∀ k tok, x = some (k, tok) → k ≠ k') : I x { s with srcs := aset s.srcs k' v } := by
  show IP x (s.slots, om { s with srcs := aset s.srcs k' v }, s.tokens)
  rw [om_aset]
  exact ip_setOwned x s.slots (om s) s.tokens k' v.owned h hnt hx

/-! ### everything keeps it -/

abbrev KeepsD (x : DX) {α} (m : M α) : Prop := KeepsI m (I x)

syntax "dt_lemma" : tactic
macro_rules | `(tactic| dt_lemma) => `(tactic| fail "no lemma applies")

macro "dt_step" x:term:max : tactic => `(tactic| first
  | exact ki_of_keeps (keeps_pure _ _)
  | exact ki_of_keeps (keeps_throw _ _)
  | exact ki_of_keeps (keeps_get _)
  | dt_lemma
  | (refine ki_of_keeps (keeps_of_frameD ?_ (IP $x)); intro _; fd_lemma)
  | (refine ki_of_keeps (keeps_modify _ _ ?_); intro s h; exact h)
  | (refine ki_of_keeps (keeps_modify _ _ ?_); intro s h; exact i_vacate _ _ _ h)
  | (refine ki_of_keeps (keeps_modify _ _ ?_); intro s h; exact i_churn _ _ _ h)
  | (refine ki_of_keeps (keeps_emit _ _ ?_); intro s h; exact h)
  | (apply ki_bind)
  | (apply ki_catchErr)
  | (apply ki_forEachM)
  | (apply ki_ite)
  | (intro _)
  | split)

theorem fd_doInsertTail0 (k : Nat) (e : Err) :
    FrameD (do
      maybeDrop k
      emit (.ins k (.err e)) : M Unit) := by
  intro c; repeat (first | fd_step | dsimp only)

/-- what the insertion of `k'` knows once the object has gone to the loop -/
def Mid (x : DX) (k' : Nat) (c : Proj) : Prop :=
  IP x c ∧ alookup c.2.2 k' = none ∧ c.2.1 k' = some false ∧ (∀ k tok, x = some (k, tok) → k ≠ k')

theorem mid_slots (x : DX) (k' : Nat) (ss ss' : Slots) (o : Nat → Option Bool) (tk : List (Nat × Tok))
    (h : Mid x k' (ss, o, tk)) (hs : ∀ k, k ≠ k' → Occ ss' k → Occ ss k) : Mid x k' (ss', o, tk) := by
  obtain ⟨⟨hq, hd⟩, h2, h3, h4⟩ := h
  refine ⟨⟨hq, ?_⟩, h2, h3, h4⟩
  cases x with
  | none => trivial
  | some p =>
    obtain ⟨k, tok⟩ := p
    exact ⟨hd.1, hd.2.1, fun ho => hd.2.2 (hs k (h4 k tok rfl) ho)⟩

open Verif.Inv.Ctl in
theorem hoare_doInsertAt_d (x : DX) (k' : Nat) (src : Src) (ss' : Slots) (i : Nat) (tok' : Tok) (ss0 : Slots)
    (hss : ∀ k, Occ ss' k → Occ ss0 k) :
    Hoare (fun s => Mid x k' (prD s) ∧ s.slots = ss0) (doInsertAt k' src ss' i tok') (fun _ => I x) (I x) := by
  unfold doInsertAt
  apply hoare_bind (fun _ s => Mid x k' (prD s))
  · apply hoare_modify
    intro s ⟨h, he⟩
    subst he
    refine mid_slots x k' s.slots _ _ _ h (fun k hk ho => ?_)
    obtain ⟨j, sl, hj, hoc⟩ := ho
    cases occ_of_occupy _ _ k' j sl k hj hoc with
    | inl h1 => exact absurd h1.2 hk
    | inr h1 => exact hss k ⟨j, sl, h1.2, hoc⟩
  intro _
  apply hoare_bind (fun _ s => Mid x k' (prD s))
  · exact hoare_conseq (hoare_catchErr (E' := I x) (hoare_of_keeps (keeps_of_frameD (fd_dRegister k' tok') (Mid x k'))))
      (fun _ h => h) (fun a s h => by cases a <;> exact h) (fun _ h => h)
  intro r
  cases r with
  | ok _ =>
    simp only
    apply hoare_bind (fun _ => I x)
    · apply hoare_modify
      intro s ⟨⟨hq, hd⟩, _, hom, hx⟩
      show IP x (s.slots, om s, aset s.tokens k' tok')
      refine ⟨fun k hk => ?_, ?_⟩
      · by_cases hkk : k = k'
        · subst hkk; exact hom
        · have hk' : (alookup (aset s.tokens k' tok') k).isSome = true := hk
          rw [alookup_aset_other _ _ _ _ hkk] at hk'
          exact hq k hk'
      · cases x with
        | none => trivial
        | some p =>
          obtain ⟨k, tok⟩ := p
          have hkk : k ≠ k' := hx k tok rfl
          obtain ⟨h1, h2, h3⟩ := hd
          refine ⟨?_, h2, h3⟩
          show alookup (aset s.tokens k' tok') k = some tok
          rw [alookup_aset_other _ _ _ _ hkk]; exact h1
    · intro _
      exact hoare_of_keeps (keeps_of_frameD (fd_emit _) (IP x))
  | error e =>
    simp only
    apply hoare_bind (fun _ s => Mid x k' (prD s))
    · apply hoare_modify
      intro s h
      exact mid_slots x k' s.slots _ _ _ h (fun k _ ho => occ_vacate _ _ _ ho)
    intro _
    split
    · apply hoare_bind (fun _ => I x)
      · intro s ⟨hI, hnt, hom, hx⟩
        rw [modSrc_run]
        cases hk : alookup s.srcs k' with
        | none => exact hI
        | some v => exact i_setOwned x s k' _ hI hnt hx
      · intro _
        exact hoare_of_keeps (keeps_of_frameD (fd_doInsertTail0 k' e) (IP x))
    · exact hoare_conseq (hoare_of_keeps (keeps_of_frameD (fd_doInsertTail0 k' e) (IP x))) (fun _ h => h.1) (fun _ _ h => h) (fun _ h => h)

open Verif.Inv.Ctl in
theorem dt_doInsert (x : DX) (k' : Nat) (keep : Bool) : KeepsD x (doInsert k' keep) := by
  constructor
  rw [doInsert_eq]
  apply hoare_bind (fun a s => I x s ∧ a = alookup s.srcs k')
  · intro s hs; exact ⟨hs, rfl⟩
  intro o
  split
  · exact hoare_conseq (hoare_of_keeps (keeps_of_frameD (fd_emit _) (IP x))) (fun _ h => h.1) (fun _ _ h => h) (fun _ h => h)
  · rename_i src
    split
    · exact hoare_conseq (hoare_of_keeps (keeps_of_frameD (fd_emit _) (IP x))) (fun _ h => h.1) (fun _ _ h => h) (fun _ h => h)
    · rename_i hown
      have hsrc : src.owned = true := by
        cases ho : src.owned with
        | true => rfl
        | false => simp [ho] at hown
      -- the user owned the object: nobody holds a token for it, and it is not the one under watch
      apply hoare_bind (fun _ s => Mid x k' (prD s))
      · intro s ⟨hs, hk⟩
        have hom : om s k' = some true := by simp [om, ← hk, hsrc]
        have hnt : alookup s.tokens k' = none := by
          cases ht : alookup s.tokens k' with
          | none => rfl
          | some t =>
            have h' : om s k' = some false := hs.1 k' (by show (alookup s.tokens k').isSome = true; rw [ht]; rfl)
            rw [hom] at h'; cases h'
        have hx : ∀ k tok, x = some (k, tok) → k ≠ k' := by
          intro k tok hx e
          subst hx; subst e
          have h' : om s k = some false := hs.2.2.1
          rw [hom] at h'; cases h'
        rw [modSrc_run, ← hk]
        show Mid x k' (s.slots, om { s with srcs := aset s.srcs k' _ }, s.tokens)
        rw [om_aset]
        exact ⟨ip_setOwned x s.slots (om s) s.tokens k' false hs hnt hx, hnt, by simp, hx⟩
      intro _
      apply hoare_bind (fun a s => Mid x k' (prD s) ∧ a = s) hoare_get
      intro s0
      intro s ⟨hm, he⟩
      subst he
      exact hoare_doInsertAt_d x k' src _ _ _ s0.slots (fun k hk => occ_vacantEntry s0.slots k hk) s0 ⟨hm, rfl⟩
macro_rules | `(tactic| dt_lemma) => `(tactic| with_reducible exact dt_doInsert _ _ _)

theorem dt_doRemove (x : DX) (o : COp) (k : Nat) : KeepsD x (doRemove o k) := by unfold doRemove; repeat dt_step x
macro_rules | `(tactic| dt_lemma) => `(tactic| with_reducible exact dt_doRemove _ _ _)

/-- a fresh id: nobody holds a token for it, and it is not the object under watch -/
theorem i_new (x : DX) (s : St) (k : Nat) (v : Src) (h : I x s) (hk : alookup s.srcs k = none) :
    I x { s with srcs := aset s.srcs k v } := by
  have hom : om s k = none := by simp [om, hk]
  apply i_setOwned x s k v h
  · cases ht : alookup s.tokens k with
    | none => rfl
    | some t =>
      have h' : om s k = some false := h.1 k (by show (alookup s.tokens k).isSome = true; rw [ht]; rfl)
      rw [hom] at h'; cases h'
  · intro k0 tok0 hx e
    subst hx; subst e
    have h' : om s k0 = some false := h.2.2.1
    rw [hom] at h'; cases h'

open Verif.Inv.Ctl in
theorem hoare_setSrc_newd (x : DX) (k : Nat) (v : Src) :
    Hoare (fun s => I x s ∧ alookup s.srcs k = none) (setSrc k v) (fun _ => I x) (I x) := by
  unfold setSrc
  apply hoare_modify
  intro s ⟨h, hk⟩
  exact i_new x s k v h hk

open Verif.Inv.Ctl in
theorem hoare_newd (x : DX) (o : COp) (k : Nat) (h : isNew o = some k) :
    Hoare (fun s => I x s ∧ alookup s.srcs k = none) (execC' o) (fun _ => I x) (I x) := by
  cases o <;> simp only [isNew, Option.some.injEq, reduceCtorEq] at h <;> subst h <;> unfold execC'
  case newPing => exact hoare_setSrc_newd x _ _
  case newTimer => exact hoare_setSrc_newd x _ _
  case newChan => exact hoare_setSrc_newd x _ _
  case newSync => exact hoare_setSrc_newd x _ _
  case newGen =>
    apply hoare_bind (fun a s => (I x s ∧ alookup s.srcs _ = none) ∧ a = s) hoare_get
    intro s0
    split
    · exact hoare_conseq (hoare_setSrc_newd x _ _) (fun _ h => h.1) (fun _ _ h => h) (fun _ h => h)
    · exact hoare_conseq (hoare_of_keeps (keeps_of_frameD (fd_emit _) (IP x))) (fun _ h => h.1.1) (fun _ _ h => h) (fun _ h => h)
  case newCustom =>
    apply hoare_bind (fun _ s => I x s ∧ alookup s.srcs _ = none)
    · apply hoare_modify
      intro s h
      exact h
    · intro _
      exact hoare_setSrc_newd x _ _

theorem dt_tokenOp (x : DX) (o : COp) (k : Nat) (body : Nat → Tok → M Unit) (hb : ∀ d t, KeepsD x (body d t)) :
    KeepsD x (tokenOp o k body) := by
  unfold tokenOp
  repeat (first | exact hb _ _ | dt_step x)

theorem dt_execCore (x : DX) (o : COp) (h : isNew o = none) : KeepsD x (execC' o) := by
  cases o <;> simp only [isNew, reduceCtorEq] at h <;> unfold execC' <;>
    repeat (first | (apply dt_tokenOp; intro d t) | dt_step x)

open Verif.Inv.Ctl in
theorem dt_execC (x : DX) (o : COp) : KeepsD x (execC o) := by
  unfold execC
  apply ki_bind (by repeat dt_step x)
  intro _
  cases hn : isNew o with
  | none => exact dt_execCore x o hn
  | some k =>
    constructor
    simp only
    apply hoare_bind (fun a s => I x s ∧ a = s) hoare_get
    intro s0
    split
    · exact hoare_conseq (hoare_of_keeps (keeps_of_frameD (fd_emit _) (IP x))) (fun _ h => h.1) (fun _ _ h => h) (fun _ h => h)
    · rename_i hnone
      apply hoare_bind (fun _ s => I x s ∧ alookup s.srcs k = none)
      · apply hoare_modify
        intro s ⟨hs, he⟩
        subst he
        refine ⟨hs, ?_⟩
        show alookup s0.srcs k = none
        cases hl : alookup s0.srcs k with
        | none => rfl
        | some v => simp [hl] at hnone
      · intro _
        exact hoare_newd x o k hn
macro_rules | `(tactic| dt_lemma) => `(tactic| with_reducible exact dt_execC _ _)

theorem dt_runCb (x : DX) (k : Nat) (p : Payload) : KeepsD x (runCb k p) := by unfold runCb; repeat dt_step x
macro_rules | `(tactic| dt_lemma) => `(tactic| with_reducible exact dt_runCb _ _ _)
theorem dt_retPA (x : DX) (r : Loop.Ret) : KeepsD x (retPA r) := by cases r <;> unfold retPA <;> repeat dt_step x
macro_rules | `(tactic| dt_lemma) => `(tactic| with_reducible exact dt_retPA _ _)
theorem dt_genGate (x : DX) (k j : Nat) (ev : Event) : KeepsD x (genGate k j ev) := by unfold genGate; repeat dt_step x
macro_rules | `(tactic| dt_lemma) => `(tactic| with_reducible exact dt_genGate _ _ _ _)

theorem dt_pingPE (x : DX) {α} (k : Nat) (ev : Event) (body : M α) (hb : KeepsD x body) : KeepsD x (pingPE k ev body) := by
  unfold pingPE; repeat (first | exact hb | dt_step x)

theorem dt_chanDrain (x : DX) (k n : Nat) : KeepsD x (chanDrain k n) := by
  induction n with
  | zero => unfold chanDrain; repeat dt_step x
  | succ n ih => unfold chanDrain; repeat (first | exact ih | dt_step x)
macro_rules | `(tactic| dt_lemma) => `(tactic| with_reducible exact dt_chanDrain _ _ _)

theorem dt_customPE (x : DX) (k : Nat) (ev : Event) (n j : Nat) (acc : PA) : KeepsD x (customPE k ev n j acc) := by
  induction n generalizing j acc with
  | zero => unfold customPE; repeat dt_step x
  | succ n ih => unfold customPE; repeat (first | exact ih _ _ | dt_step x)
macro_rules | `(tactic| dt_lemma) => `(tactic| with_reducible exact dt_customPE _ _ _ _ _ _)

theorem dt_processEventsInner (x : DX) (k : Nat) (ev : Event) : KeepsD x (processEventsInner k ev) := by
  unfold processEventsInner
  repeat (first
    | (apply dt_pingPE; first | exact dt_runCb _ _ _ | exact dt_chanDrain _ _ _)
    | dt_step x)
macro_rules | `(tactic| dt_lemma) => `(tactic| with_reducible exact dt_processEventsInner _ _ _)

theorem dt_processEvents (x : DX) (k : Nat) (ev : Event) : KeepsD x (processEvents k ev) := by
  constructor
  intro s hs
  have hs1 : I x { s with running := some k, log := s.log ++ [.pe k] } := hs
  have hin := (dt_processEventsInner x k ev).h _ hs1
  simp only [processEvents, bind, EStateM.bind, modify, modifyGet, MonadStateOf.modifyGet, EStateM.modifyGet, emit,
    tryCatch, tryCatchThe, MonadExceptOf.tryCatch, EStateM.tryCatch, pure, EStateM.pure]
  cases h : processEventsInner k ev { s with running := some k, log := s.log ++ [.pe k] } with
  | ok a s' =>
    rw [h] at hin
    simp only [EStateM.bind, EStateM.modifyGet, EStateM.pure]
    exact hin
  | error e s' =>
    rw [h] at hin
    cases e with
    | err e =>
      simp only [EStateM.bind, EStateM.modifyGet, throw, throwThe, MonadExceptOf.throw, EStateM.throw,
        EStateM.Backtrackable.restore, EStateM.dummyRestore]
      exact hin
    | panic p =>
      simp [EStateM.bind, EStateM.modifyGet, throw, throwThe, MonadExceptOf.throw, EStateM.throw,
        EStateM.Backtrackable.restore, EStateM.dummyRestore]
macro_rules | `(tactic| dt_lemma) => `(tactic| with_reducible exact dt_processEvents _ _ _)

theorem dt_beforeSleep (x : DX) (tok : Tok) : KeepsD x (beforeSleep tok) := by unfold beforeSleep; repeat dt_step x
macro_rules | `(tactic| dt_lemma) => `(tactic| with_reducible exact dt_beforeSleep _ _)
theorem dt_beforeHandle (x : DX) (evs : List Event) (tok : Tok) : KeepsD x (beforeHandle evs tok) := by unfold beforeHandle; repeat dt_step x
macro_rules | `(tactic| dt_lemma) => `(tactic| with_reducible exact dt_beforeHandle _ _ _)

theorem dt_processOne (x : DX) (ev : Event) : KeepsD x (processOne ev) := by
  unfold processOne; repeat (first | dt_step x | dsimp only)
macro_rules | `(tactic| dt_lemma) => `(tactic| with_reducible exact dt_processOne _ _)

theorem dt_batchLoop (x : DX) (l : List Event) (first : Option Err) : KeepsD x (batchLoop l first) := by
  induction l generalizing first with
  | nil => unfold batchLoop; repeat dt_step x
  | cons ev rest ih => unfold batchLoop; repeat (first | exact ih _ | dt_step x)
macro_rules | `(tactic| dt_lemma) => `(tactic| with_reducible exact dt_batchLoop _ _ _)

theorem dt_dispatchEvents (x : DX) : KeepsD x dispatchEvents := by
  unfold dispatchEvents; repeat (first | dt_step x | dsimp only)
theorem dt_runIdle (x : DX) (p : Nat × Nat) : KeepsD x (runIdle p) := by unfold runIdle; repeat dt_step x
macro_rules | `(tactic| dt_lemma) => `(tactic| with_reducible exact dt_runIdle _ _)
theorem dt_dispatchIdles (x : DX) : KeepsD x dispatchIdles := by unfold dispatchIdles; repeat dt_step x
theorem dt_dispatch (x : DX) : KeepsD x dispatch := by
  unfold dispatch
  repeat (first | exact dt_dispatchEvents x | exact dt_dispatchIdles x | dt_step x)
theorem dt_snapshot (x : DX) : KeepsD x snapshot := by unfold snapshot; repeat dt_step x
theorem dt_execTop (x : DX) (o : Op) : KeepsD x (execTop o) := by
  cases o <;> unfold execTop <;> repeat (first | exact dt_dispatch x | exact dt_snapshot x | dt_step x)


theorem dt_step_ok (x : DX) (s : St) (o : Op) (h : I x s ∨ s.aborted = true) : I x (step s o) ∨ (step s o).aborted = true := by
  unfold step
  by_cases ha : s.aborted = true
  · rw [if_pos ha]; exact Or.inr ha
  · rw [if_neg ha]
    have hs : I x s := by cases h with | inl h => exact h | inr h => exact absurd h ha
    have := (dt_execTop x o).h s hs
    cases hx : execTop o s with
    | ok a s' => rw [hx] at this; exact Or.inl this
    | error e s' =>
      rw [hx] at this
      cases e with
      | err e => exact Or.inl this
      | panic p => exact Or.inr rfl



theorem run_I (ops : List Op) (s0 : St) (x : DX) (h : I x s0 ∨ s0.aborted = true) :
    I x (ops.foldl step s0) ∨ (ops.foldl step s0).aborted = true := by
  induction ops generalizing s0 with
  | nil => exact h
  | cons o l ih => exact ih _ (dt_step_ok x s0 o h)

theorem run_Q (ops : List Op) : I none (run ops) ∨ (run ops).aborted = true := by
  unfold run
  refine run_I ops {} none (Or.inl ⟨?_, trivial⟩)
  intro k hk
  simp [prD, alookup] at hk

theorem aborted_stays (l : List Op) (s : St) (h : s.aborted = true) : (l.foldl step s).aborted = true := by
  induction l generalizing s with
  | nil => exact h
  | cons o l ih => exact ih _ (by unfold step; rw [if_pos h]; exact h)

theorem run_append (ops ops' : List Op) : run (ops ++ ops') = ops'.foldl step (run ops) := by
  unfold run; rw [List.foldl_append]

/-- **After every history**: an object for which a token was handed out belongs to the loop, not to the user … -/
theorem token_holder_not_owned (ops : List Op) (hab : (run ops).aborted = false) (k : Nat) (tok : Tok)
    (hk : alookup (run ops).tokens k = some tok) : om (run ops) k = some false :=
  ((run_Q ops).resolve_right (by simp [hab])).1 k (by show (alookup (run ops).tokens k).isSome = true; rw [hk]; rfl)

/-- … so once it has left its slot it never sits in a slot again, however the history goes on, and its token stays … -/
theorem left_slot_for_good (ops ops' : List Op) (hab : (run (ops ++ ops')).aborted = false) (k : Nat) (tok : Tok)
    (hk : alookup (run ops).tokens k = some tok) (hout : ¬ Occ (run ops).slots k) :
    alookup (run (ops ++ ops')).tokens k = some tok ∧ ¬ Occ (run (ops ++ ops')).slots k := by
  have hab0 : (run ops).aborted = false := by
    cases h : (run ops).aborted with
    | false => rfl
    | true =>
      exfalso
      have h2 := aborted_stays ops' (run ops) h
      rw [← run_append] at h2
      rw [h2] at hab; cases hab
  have h0 : I (some (k, tok)) (run ops) :=
    ⟨((run_Q ops).resolve_right (by simp [hab0])).1, hk, token_holder_not_owned ops hab0 k tok hk, hout⟩
  have h1 := (run_I ops' (run ops) (some (k, tok)) (Or.inl h0)).resolve_right (by rw [← run_append]; simp [hab])
  rw [← run_append] at h1
  exact ⟨h1.2.1, h1.2.2.2⟩

/-- … **dead**: it resolves to nothing for the rest of the history, unless a generation wrapped (`aliased`, finding F12). -/
theorem dead_token_stays_dead (ops ops' : List Op) (hab : (run (ops ++ ops')).aborted = false)
    (hna : (run (ops ++ ops')).aliased = false) (k : Nat) (tok : Tok)
    (hk : alookup (run ops).tokens k = some tok) (hout : inSlot (run ops) k = false) :
    slotDisp (run (ops ++ ops')) tok = none := by
  have hout' : ¬ Occ (run ops).slots k := by
    intro ⟨j, sl, hj, ho⟩
    exact not_inSlot (run ops) k hout j sl hj ho
  obtain ⟨h1, h2⟩ := left_slot_for_good ops ops' hab k tok hk hout'
  cases hd : slotDisp (run (ops ++ ops')) tok with
  | none => rfl
  | some d =>
    exfalso
    have hdk := token_reaches_only_its_source (ops ++ ops') hab hna (never_inserted_twice (ops ++ ops') hab) k tok d h1 hd
    subst hdk
    apply h2
    unfold slotDisp at hd
    cases hg : Slots.get (run (ops ++ ops')).slots tok with
    | none => rw [hg] at hd; cases hd
    | some sl =>
      rw [hg] at hd
      have ho : sl.occ = some d := hd
      obtain ⟨hi, _⟩ := Verif.Inv.Slots.get_sound _ _ _ hg
      exact ⟨tok.id, sl, hi, ho⟩

end Verif.Inv.DeadTok
