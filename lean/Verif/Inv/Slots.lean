/- Lemmas about the slot table (`src/list.rs`): generation-checked lookup. -/
import Verif.Model.Slots
import Verif.Props.C20

namespace Verif.Inv.Slots
open Verif.Token Verif.Slots

theorem get_some_iff (ss : Slots) (t : Tok) (s : Slot) :
    Slots.get ss t = some s ↔ ss[t.id]? = some s ∧ sameSource s.tok t = true := by
  unfold Slots.get
  cases h : ss[t.id]? with
  | none => simp
  | some x =>
    by_cases hs : sameSource x.tok t = true
    · simp only [hs, if_true, Option.some.injEq]
      constructor
      · intro e; subst e; exact ⟨rfl, hs⟩
      · intro ⟨e, _⟩; exact e
    · simp only [hs, Option.some.injEq]
      constructor
      · intro e; simp at e
      · intro ⟨e, h2⟩; subst e; exact absurd h2 hs

/-- lookup never returns a slot of another index or generation -/
theorem get_sound (ss : Slots) (t : Tok) (s : Slot) (h : Slots.get ss t = some s) :
    ss[t.id]? = some s ∧ s.tok.id = t.id ∧ s.tok.ver = t.ver := by
  have := (get_some_iff ss t s).mp h
  refine ⟨this.1, ?_⟩
  simpa [sameSource] using this.2

theorem bumpAt_getElem (bV : Nat) (ss : Slots) (i j : Nat) :
    (bumpAt bV ss i)[j]? = if i = j then (ss[j]?).map (fun s => { s with tok := incVersion bV s.tok }) else ss[j]? := by
  induction ss generalizing i j with
  | nil => simp [bumpAt]
  | cons s ss ih =>
    cases i with
    | zero => cases j <;> simp [bumpAt]
    | succ i =>
      cases j with
      | zero => simp [bumpAt]
      | succ j => simp [bumpAt, ih]

theorem setOcc_getElem (ss : Slots) (i j : Nat) (o : Option Nat) :
    (setOcc ss i o)[j]? = if i = j then (ss[j]?).map (fun s => { s with occ := o }) else ss[j]? := by
  induction ss generalizing i j with
  | nil => simp [setOcc]
  | cons s ss ih =>
    cases i with
    | zero => cases j <;> simp [setOcc]
    | succ i =>
      cases j with
      | zero => simp [setOcc]
      | succ j => simp [setOcc, ih]

/-- A token of the previous generation of a slot is dead once the slot has been reused:
    the generation check of `get` rejects it. -/
theorem stale_after_bump (ss : Slots) (i : Nat) (t : Tok) (s : Slot)
    (hs : ss[i]? = some s) (ht : sameSource s.tok t = true) (hid : t.id = i)
    (hwf : s.tok.wf Verif.Bridge.Token.bV Verif.Bridge.Token.bS) :
    Slots.get (bumpAt Verif.Bridge.Token.bV ss i) t = none := by
  unfold Slots.get
  rw [hid, bumpAt_getElem, if_pos rfl, hs]
  simp only [Option.map]
  have hne := Verif.Props.C20.bump_lt_period_ne 1 s.tok hwf (by decide) (by decide)
  simp only [Verif.Props.C20.bumpN] at hne
  have : sameSource (incVersion Verif.Bridge.Token.bV s.tok) t = false := by
    simp only [sameSource, Bool.and_eq_true, beq_iff_eq] at ht hne ⊢
    rw [← ht.1, ← ht.2]; exact hne
  simp [this]

/-- other slots are not disturbed by a reuse -/
theorem bump_other (bV : Nat) (ss : Slots) (i : Nat) (t : Tok) (h : t.id ≠ i) :
    Slots.get (bumpAt bV ss i) t = Slots.get ss t := by
  unfold Slots.get
  rw [bumpAt_getElem, if_neg (fun e => h e.symm)]

theorem setOcc_other (ss : Slots) (i : Nat) (o : Option Nat) (t : Tok) (h : t.id ≠ i) :
    Slots.get (setOcc ss i o) t = Slots.get ss t := by
  unfold Slots.get
  rw [setOcc_getElem, if_neg (fun e => h e.symm)]

/-- after a removal the slot's own token still resolves to the slot, but the slot is vacant -/
theorem get_after_vacate (ss : Slots) (t : Tok) (s : Slot) (h : Slots.get ss t = some s) :
    Slots.get (setOcc ss t.id none) t = some { s with occ := none } := by
  have := (get_some_iff ss t s).mp h
  unfold Slots.get
  rw [setOcc_getElem, if_pos rfl, this.1]
  simp [this.2]

theorem firstVacant_spec (ss : Slots) (i : Nat) (h : firstVacant ss = some i) :
    ∃ s, ss[i]? = some s ∧ s.occ = none := by
  induction ss generalizing i with
  | nil => simp [firstVacant] at h
  | cons s ss ih =>
    simp only [firstVacant] at h
    split at h
    · injection h with h; subst h
      refine ⟨s, rfl, ?_⟩
      cases ho : s.occ <;> simp_all
    · cases hv : firstVacant ss with
      | none => simp [hv] at h
      | some j =>
        simp [hv] at h; subst h
        obtain ⟨s', h1, h2⟩ := ih j hv
        exact ⟨s', by simpa using h1, h2⟩

/-- `vacant_entry` only ever hands out a vacant slot: an occupied slot is never overwritten -/
theorem vacantEntry_vacant (bV : Nat) (ss : Slots) :
    ∃ s, (vacantEntry bV ss).1[(vacantEntry bV ss).2]? = some s ∧ s.occ = none := by
  unfold vacantEntry
  cases h : firstVacant ss with
  | some i =>
    obtain ⟨s, h1, h2⟩ := firstVacant_spec ss i h
    refine ⟨{ s with tok := incVersion bV s.tok }, ?_, h2⟩
    simp [bumpAt_getElem, h1]
  | none => exact ⟨{ tok := { id := ss.length, ver := 0, sub := 0 }, occ := none }, by simp, rfl⟩

theorem occupied_setOcc_roundtrip (ss : Slots) (i k : Nat) (s : Slot) (hs : ss[i]? = some s) (hv : s.occ = none) :
    occupied (setOcc (setOcc ss i (some k)) i none) = occupied ss := by
  induction ss generalizing i with
  | nil => simp at hs
  | cons x xs ih =>
    cases i with
    | zero =>
      simp only [List.getElem?_cons_zero, Option.some.injEq] at hs
      subst hs
      simp [setOcc, occupied, List.filter, hv]
    | succ i =>
      simp only [List.getElem?_cons_succ] at hs
      have := ih i hs
      simp only [setOcc, occupied, List.filter] at this ⊢
      split <;> simp_all

theorem occupied_bumpAt (bV : Nat) (ss : Slots) (i : Nat) : occupied (bumpAt bV ss i) = occupied ss := by
  induction ss generalizing i with
  | nil => rfl
  | cons x xs ih =>
    cases i with
    | zero => simp only [bumpAt, occupied, List.filter]; cases x.occ.isSome <;> simp
    | succ i =>
      have := ih i
      simp only [bumpAt, occupied, List.filter] at this ⊢
      split <;> simp_all

/-- a failed insertion (slot handed out, then vacated) leaves the occupied count as it was -/
theorem failed_insert_leaks_no_slot (bV : Nat) (ss : Slots) (k : Nat) :
    let r := vacantEntry bV ss
    occupied (setOcc (setOcc r.1 r.2 (some k)) r.2 none) = occupied ss := by
  obtain ⟨s, h1, h2⟩ := vacantEntry_vacant bV ss
  simp only
  rw [occupied_setOcc_roundtrip _ _ k s h1 h2]
  unfold vacantEntry
  cases firstVacant ss with
  | some i => exact occupied_bumpAt bV ss i
  | none => simp [occupied, List.filter_append, List.filter]


end Verif.Inv.Slots
