/- Lemmas about the epoll / eventfd model (`Verif.Kernel`) and the lifecycle set. -/
import Verif.Model.Kernel
import Verif.Model.Loop

namespace Verif.Inv.Kernel
open Verif.Kernel Verif.Token

theorem entry?_some_mem (k : Kernel) (fd : Nat) (e : EpEntry) (h : entry? k fd = some e) :
    e ∈ k.ep ∧ e.fd = fd := by
  unfold entry? at h
  have := List.find?_some h
  exact ⟨List.mem_of_find?_eq_some h, by simpa using this⟩

theorem entry?_none_iff (k : Kernel) (fd : Nat) : entry? k fd = none ↔ ∀ e ∈ k.ep, e.fd ≠ fd := by
  unfold entry?
  simp [List.find?_eq_none]

/-- registering an fd that already is in the table fails (EEXIST) and changes nothing -/
theorem epAdd_eexist (k : Kernel) (e x : EpEntry) (h : entry? k e.fd = some x) :
    epAdd k e = .error .eexist := by
  simp [epAdd, h]

/-- a successful registration adds exactly this entry -/
theorem epAdd_ok (k k' : Kernel) (e : EpEntry) (h : epAdd k e = .ok k') :
    entry? k e.fd = none ∧ k'.ep = k.ep ++ [e] := by
  unfold epAdd at h
  cases hent : entry? k e.fd with
  | some x => simp [hent] at h
  | none =>
    simp only [hent] at h
    refine ⟨rfl, ?_⟩
    split at h <;> (injection h with h; subst h) <;> simp [enqueue] <;> split <;> rfl

/-- modifying or deleting an fd that is not registered fails (ENOENT) -/
theorem epMod_enoent (k : Kernel) (e : EpEntry) (h : entry? k e.fd = none) : epMod k e = .error .enoent := by
  simp [epMod, h]

theorem epDel_enoent (k : Kernel) (fd : Nat) (h : entry? k fd = none) : epDel k fd = .error .enoent := by
  simp [epDel, h]

/-- after a successful delete the fd is gone from the table *and* from the ready list: no ghost events -/
theorem epDel_ok (k k' : Kernel) (fd : Nat) (h : epDel k fd = .ok k') :
    entry? k' fd = none ∧ fd ∉ k'.rdl ∧ (∀ e ∈ k.ep, e.fd ≠ fd → e ∈ k'.ep) ∧ (∀ e ∈ k'.ep, e ∈ k.ep) := by
  unfold epDel at h
  cases hent : entry? k fd with
  | none => simp [hent] at h
  | some x =>
    simp only [hent] at h
    injection h with h; subst h
    refine ⟨?_, ?_, ?_, ?_⟩
    · rw [entry?_none_iff]; intro e he; simp only [List.mem_filter, bne_iff_ne] at he; exact he.2
    · simp [List.mem_filter]
    · intro e he hne; simp only [List.mem_filter, bne_iff_ne]; exact ⟨he, hne⟩
    · intro e he; simp only [List.mem_filter] at he; exact he.1

/-- `epoll_wait` only ever reports fds that are registered, with their registered key, and only
    readiness the entry asked for -/
theorem waitLoop_sound (q : List Nat) (k : Kernel) :
    ∀ ev ∈ (waitLoop k q).1, ∃ e ∈ k.ep, e.key = ev.key ∧ (ev.r = true → e.r = true) ∧ (ev.w = true → e.w = true) := by
  induction q generalizing k with
  | nil => simp [waitLoop]
  | cons fd rest ih =>
    intro ev hev
    simp only [waitLoop] at hev
    cases hent : entry? k fd with
    | none => simp only [hent] at hev; exact ih k ev hev
    | some e =>
      simp only [hent] at hev
      have hmem := (entry?_some_mem k fd e hent).1
      split at hev
      · rename_i hready
        simp only [List.mem_cons] at hev
        cases hev with
        | inl h =>
          subst h
          refine ⟨e, hmem, rfl, ?_, ?_⟩
          · simp only [readyNow]; intro h; simp at h; exact h.1
          · simp only [readyNow]; intro h; exact h
        | inr h =>
          -- the remaining events come from a kernel whose entries have the same keys and no wider interest
          have key : ∀ k2 : Kernel, (∀ x ∈ k2.ep, ∃ y ∈ k.ep, y.key = x.key ∧ (x.r = true → y.r = true) ∧ (x.w = true → y.w = true)) →
              ∀ ev ∈ (waitLoop k2 rest).1, ∃ e ∈ k.ep, e.key = ev.key ∧ (ev.r = true → e.r = true) ∧ (ev.w = true → e.w = true) := by
            intro k2 hk2 ev2 hev2
            obtain ⟨x, hx, h1, h2, h3⟩ := ih k2 ev2 hev2
            obtain ⟨y, hy, g1, g2, g3⟩ := hk2 x hx
            exact ⟨y, hy, by rw [g1, h1], fun h => g2 (h2 h), fun h => g3 (h3 h)⟩
          cases hmode : e.mode with
          | level =>
            simp only [hmode] at h
            exact key { k with rdl := k.rdl ++ [fd] } (fun x hx => ⟨x, hx, rfl, id, id⟩) ev h
          | edge =>
            simp only [hmode] at h
            exact key _ (fun x hx => ⟨x, hx, rfl, id, id⟩) ev h
          | oneshot =>
            simp only [hmode] at h
            apply key _ _ ev h
            intro x hx
            simp only [List.mem_map] at hx
            obtain ⟨y, hy, rfl⟩ := hx
            refine ⟨y, hy, ?_, ?_, ?_⟩ <;> split <;> simp
      · exact ih k ev hev

theorem epWait_sound (k : Kernel) :
    ∀ ev ∈ (epWait k).1, ∃ e ∈ k.ep, e.key = ev.key ∧ (ev.r = true → e.r = true) ∧ (ev.w = true → e.w = true) := by
  intro ev hev
  exact waitLoop_sound k.rdl { k with rdl := [] } ev hev

/-- a level-triggered entry that is queued and ready is reported, and goes back on the ready list:
    it will be reported again by the next wait as long as it stays ready (no lost level events) -/
theorem level_reported_and_requeued (k : Kernel) (fd : Nat) (e : EpEntry) (rest : List Nat)
    (hent : entry? k fd = some e) (hmode : e.mode = .level)
    (hready : (readyNow k e).1 = true ∨ (readyNow k e).2 = true) :
    ∃ evs k', waitLoop k (fd :: rest) = (⟨e.key, (readyNow k e).1, (readyNow k e).2⟩ :: evs, k') := by
  simp only [waitLoop, hent, hmode]
  have : ((readyNow k e).1 || (readyNow k e).2) = true := by
    cases hready with
    | inl h => simp [h]
    | inr h => simp [h]
  simp only [this, if_true]
  exact ⟨_, _, rfl⟩

/-! ### the additional-lifecycle set -/

open Verif.Loop in
theorem lifeRegister_nodup (l : List Tok) (t : Tok) (h : l.Nodup) : (lifeRegister l t).Nodup := by
  unfold lifeRegister
  split
  · exact h
  · rename_i hc
    rw [List.nodup_append]
    refine ⟨h, by simp, ?_⟩
    intro a ha b hb
    simp only [List.mem_singleton] at hb
    subst hb
    intro hab; subst hab
    exact hc (by simpa using ha)

open Verif.Loop in
theorem lifeRegister_mem (l : List Tok) (t x : Tok) : x ∈ lifeRegister l t ↔ x ∈ l ∨ x = t := by
  unfold lifeRegister
  split
  · rename_i hc
    constructor
    · exact Or.inl
    · intro h; cases h with
      | inl h => exact h
      | inr h => subst h; simpa using hc
  · simp

open Verif.Loop in
/-- registering twice is the same as registering once (finding F1 was the absence of this) -/
theorem lifeRegister_idem (l : List Tok) (t : Tok) : lifeRegister (lifeRegister l t) t = lifeRegister l t := by
  have hm : t ∈ lifeRegister l t := (lifeRegister_mem l t t).mpr (Or.inr rfl)
  have : (lifeRegister l t).contains t = true := by simpa using hm
  generalize hl : lifeRegister l t = l' at *
  unfold lifeRegister
  simp [hm]

open Verif.Loop in
theorem lifeUnregister_mem (l : List Tok) (t x : Tok) : x ∈ lifeUnregister l t ↔ x ∈ l ∧ x ≠ t := by
  simp [lifeUnregister]

open Verif.Loop in
theorem lifeUnregister_nodup (l : List Tok) (t : Tok) (h : l.Nodup) : (lifeUnregister l t).Nodup := by
  unfold lifeUnregister
  exact List.Pairwise.sublist List.filter_sublist h

end Verif.Inv.Kernel
