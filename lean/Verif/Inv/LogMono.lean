/-
The observation log only grows (every write to it is an append), so an observation once made stays: the basis for
"this dispatch entered `process_events` of source k" statements (C02).
-/
import Verif.Inv.ReadyQ

namespace Verif.Inv.LogMono
open Verif.Loop Verif.Inv Verif.Kernel Verif.Slots Verif.Wheel Verif.Token Verif.Inv.TokInv Verif.Inv.OwnInv Verif.Inv.GhostFree

/-! ## the loop -/

/-- the log has grown from `l0` -/
def Grown (l0 : List Obs) : St → Prop := fun s => l0 <+: s.log
abbrev KeepsL (l0 : List Obs) {α} (x : M α) : Prop := KeepsI x (Grown l0)

theorem grown_emit (l0 : List Obs) (s : St) (o : Obs) (h : Grown l0 s) : Grown l0 { s with log := s.log ++ [o] } :=
  List.IsPrefix.trans h (List.prefix_append _ _)

theorem kk_kAdd (l0 : List Obs) (e : EpEntry) : Keeps (kAdd e) (Grown l0) := by
  constructor; intro s hs; unfold after; rw [kAdd_run]
  cases h : epAdd s.k e <;> exact hs

theorem kk_kMod (l0 : List Obs) (e : EpEntry) : Keeps (kMod e) (Grown l0) := by
  constructor; intro s hs; unfold after; rw [kMod_run]
  cases h : epMod s.k e <;> exact hs

theorem kk_kDel (l0 : List Obs) (fd : Nat) : Keeps (kDel fd) (Grown l0) := by
  constructor; intro s hs; unfold after; rw [kDel_run]
  cases h : epDel s.k fd <;> exact hs

theorem kk_kWrite (l0 : List Obs) (fd n : Nat) : Keeps (kWrite fd n) (Grown l0) := by
  unfold kWrite; apply keeps_modify; intro s hs; exact hs

theorem kk_kRead (l0 : List Obs) (fd : Nat) : Keeps (kRead fd) (Grown l0) := by
  constructor; intro s hs
  have : after (kRead fd) s = { s with k := (efdRead s.k fd).2 } := rfl
  rw [this]; exact hs

theorem kk_modSrc (l0 : List Obs) (k : Nat) (f : Src → Src) : Keeps (modSrc k f) (Grown l0) := by
  constructor; intro s hs; unfold after; rw [modSrc_run]
  cases alookup s.srcs k <;> exact hs

theorem kk_modGen (l0 : List Obs) (k j : Nat) (f : Gen → Gen) : Keeps (modGen k j f) (Grown l0) := by
  unfold modGen; exact kk_modSrc _ _ _

theorem kk_getGen (l0 : List Obs) (k j : Nat) : Keeps (getGen? k j) (Grown l0) := by
  constructor; intro s hs; unfold after; rw [getGen_run]; exact hs

theorem kk_takeToken (l0 : List Obs) (f : Factory) : Keeps (takeToken f) (Grown l0) := by
  unfold takeToken; split
  · exact keeps_pure _ _
  · exact keeps_throw _ _

syntax "kl_lemma" : tactic
macro_rules | `(tactic| kl_lemma) => `(tactic| fail "no lemma applies")
macro_rules | `(tactic| kl_lemma) => `(tactic| with_reducible exact ki_of_keeps (kk_kAdd _ _))
macro_rules | `(tactic| kl_lemma) => `(tactic| with_reducible exact ki_of_keeps (kk_kMod _ _))
macro_rules | `(tactic| kl_lemma) => `(tactic| with_reducible exact ki_of_keeps (kk_kDel _ _))
macro_rules | `(tactic| kl_lemma) => `(tactic| with_reducible exact ki_of_keeps (kk_kWrite _ _ _))
macro_rules | `(tactic| kl_lemma) => `(tactic| with_reducible exact ki_of_keeps (kk_kRead _ _))
macro_rules | `(tactic| kl_lemma) => `(tactic| with_reducible exact ki_of_keeps (kk_modSrc _ _ _))
macro_rules | `(tactic| kl_lemma) => `(tactic| with_reducible exact ki_of_keeps (kk_modGen _ _ _ _))
macro_rules | `(tactic| kl_lemma) => `(tactic| with_reducible exact ki_of_keeps (kk_getGen _ _ _))
macro_rules | `(tactic| kl_lemma) => `(tactic| with_reducible exact ki_of_keeps (kk_takeToken _ _))

macro "kl_step" : tactic => `(tactic| first
  | exact ki_of_keeps (keeps_pure _ _)
  | exact ki_of_keeps (keeps_throw _ _)
  | exact ki_of_keeps (keeps_get _)
  | kl_lemma
  | (refine ki_of_keeps (keeps_modify _ _ ?_); intro s h; exact h)
  | (refine ki_of_keeps (keeps_emit _ _ ?_); intro s h; exact grown_emit _ _ _ h)
  | (apply ki_bind)
  | (apply ki_catchErr)
  | (apply ki_forEachM)
  | (apply ki_ite)
  | (intro _)
  | split)

macro "kl" : tactic => `(tactic| (repeat kl_step))

theorem kl_genRegister (l0 : List Obs) (k j : Nat) (f : Factory) : KeepsL l0 (genRegister k j f) := by unfold genRegister; kl
macro_rules | `(tactic| kl_lemma) => `(tactic| with_reducible exact kl_genRegister _ _ _ _)
theorem kl_genReregister (l0 : List Obs) (k j : Nat) (f : Factory) : KeepsL l0 (genReregister k j f) := by unfold genReregister; kl
macro_rules | `(tactic| kl_lemma) => `(tactic| with_reducible exact kl_genReregister _ _ _ _)
theorem kl_genUnregister (l0 : List Obs) (k j : Nat) : KeepsL l0 (genUnregister k j) := by unfold genUnregister; kl
macro_rules | `(tactic| kl_lemma) => `(tactic| with_reducible exact kl_genUnregister _ _ _)
theorem kl_maybeDrop (l0 : List Obs) (k : Nat) : KeepsL l0 (maybeDrop k) := by unfold maybeDrop; kl
macro_rules | `(tactic| kl_lemma) => `(tactic| with_reducible exact kl_maybeDrop _ _)

theorem kl_getSrc (l0 : List Obs) (k : Nat) : KeepsL l0 (getSrc? k) := by unfold getSrc?; kl
macro_rules | `(tactic| kl_lemma) => `(tactic| with_reducible exact kl_getSrc _ _)

theorem kl_emit (l0 : List Obs) (o : Obs) : KeepsL l0 (emit o) := by refine ki_of_keeps (keeps_emit _ _ ?_); intro s h; exact grown_emit _ _ _ h
macro_rules | `(tactic| kl_lemma) => `(tactic| with_reducible exact kl_emit _ _)
theorem kl_throwErr (l0 : List Obs) {α} (e : Err) : KeepsL l0 (throwErr e : M α) := ki_of_keeps (keeps_throw _ _)
macro_rules | `(tactic| kl_lemma) => `(tactic| with_reducible exact kl_throwErr _ _)
theorem kl_throwPanic (l0 : List Obs) {α} (p : Panic) : KeepsL l0 (throwPanic p : M α) := ki_of_keeps (keeps_throw _ _)
macro_rules | `(tactic| kl_lemma) => `(tactic| with_reducible exact kl_throwPanic _ _)


theorem kl_customLoop (l0 : List Obs) (k : Nat) (kind : RegKind) (fail : Option Nat) (body : Nat → Factory → M Factory)
    (hb : ∀ j f, KeepsL l0 (body j f)) (n j : Nat) (f : Factory) : KeepsL l0 (customLoop k kind fail body n j f) := by
  induction n generalizing j f with
  | zero => unfold customLoop; kl
  | succ n ih =>
    unfold customLoop
    repeat (first | exact ih _ _ | exact hb _ _ | kl_step)

theorem kl_customRollback (l0 : List Obs) (k j : Nat) : KeepsL l0 (customRollback k j) := by
  induction j with
  | zero => unfold customRollback; kl
  | succ j ih => unfold customRollback; repeat (first | exact ih | kl_step)
macro_rules | `(tactic| kl_lemma) => `(tactic| with_reducible exact kl_customRollback _ _ _)

theorem kl_customRegister (l0 : List Obs) (k : Nat) (fail : Option Nat) (rb : Bool) (n j : Nat) (f : Factory) :
    KeepsL l0 (customRegister k fail rb n j f) := by
  induction n generalizing j f with
  | zero => unfold customRegister; kl
  | succ n ih => unfold customRegister; repeat (first | exact ih _ _ | kl_step)
macro_rules | `(tactic| kl_lemma) => `(tactic| with_reducible exact kl_customRegister _ _ _ _ _ _ _)

theorem kl_timerUnregister (l0 : List Obs) (k : Nat) : KeepsL l0 (timerUnregister k) := by unfold timerUnregister; kl
macro_rules | `(tactic| kl_lemma) => `(tactic| with_reducible exact kl_timerUnregister _ _)
theorem kl_timerRegister (l0 : List Obs) (k : Nat) (f : Factory) : KeepsL l0 (timerRegister k f) := by unfold timerRegister; kl
macro_rules | `(tactic| kl_lemma) => `(tactic| with_reducible exact kl_timerRegister _ _ _)

theorem kl_srcRegister (l0 : List Obs) (k : Nat) (f : Factory) : KeepsL l0 (srcRegister k f) := by unfold srcRegister; kl
macro_rules | `(tactic| kl_lemma) => `(tactic| with_reducible exact kl_srcRegister _ _ _)

theorem kl_srcReregister (l0 : List Obs) (k : Nat) (f : Factory) : KeepsL l0 (srcReregister k f) := by
  unfold srcReregister
  repeat (first | (apply kl_customLoop _; intro j f; exact kl_genReregister _ _ _ _) | kl_step)
macro_rules | `(tactic| kl_lemma) => `(tactic| with_reducible exact kl_srcReregister _ _ _)

theorem kl_srcUnregister (l0 : List Obs) (k : Nat) : KeepsL l0 (srcUnregister k) := by
  unfold srcUnregister
  repeat (first | (apply kl_customLoop _; intro j f; repeat kl_step) | kl_step)
macro_rules | `(tactic| kl_lemma) => `(tactic| with_reducible exact kl_srcUnregister _ _)

theorem kl_isLife (l0 : List Obs) (k : Nat) : KeepsL l0 (isLife k) := by unfold isLife; kl
macro_rules | `(tactic| kl_lemma) => `(tactic| with_reducible exact kl_isLife _ _)

theorem kl_dRegister (l0 : List Obs) (k : Nat) (tok : Tok) : KeepsL l0 (dRegister k tok) := by unfold dRegister; kl
macro_rules | `(tactic| kl_lemma) => `(tactic| with_reducible exact kl_dRegister _ _ _)
theorem kl_dReregister (l0 : List Obs) (k : Nat) (tok : Tok) : KeepsL l0 (dReregister k tok) := by unfold dReregister; kl
macro_rules | `(tactic| kl_lemma) => `(tactic| with_reducible exact kl_dReregister _ _ _)
theorem kl_dUnregister (l0 : List Obs) (k : Nat) (tok : Tok) : KeepsL l0 (dUnregister k tok) := by unfold dUnregister; kl
macro_rules | `(tactic| kl_lemma) => `(tactic| with_reducible exact kl_dUnregister _ _ _)

theorem kl_userTok (l0 : List Obs) (k : Nat) : KeepsL l0 (userTok k) := by unfold userTok; kl
macro_rules | `(tactic| kl_lemma) => `(tactic| with_reducible exact kl_userTok _ _)
theorem kl_doInsert (l0 : List Obs) (k : Nat) (keep : Bool) : KeepsL l0 (doInsert k keep) := by unfold doInsert; kl
macro_rules | `(tactic| kl_lemma) => `(tactic| with_reducible exact kl_doInsert _ _ _)
theorem kl_doRemove (l0 : List Obs) (o : COp) (k : Nat) : KeepsL l0 (doRemove o k) := by unfold doRemove; kl
macro_rules | `(tactic| kl_lemma) => `(tactic| with_reducible exact kl_doRemove _ _ _)
theorem kl_chanFd (l0 : List Obs) (k : Nat) : KeepsL l0 (chanFd k) := by unfold chanFd; kl
macro_rules | `(tactic| kl_lemma) => `(tactic| with_reducible exact kl_chanFd _ _)


/-! ### user operations, event processing, dispatch: everything keeps the set duplicate-free -/

theorem kl_tokenOp (l0 : List Obs) (o : COp) (k : Nat) (body : Nat → Tok → M Unit) (hb : ∀ d t, KeepsL l0 (body d t)) :
    KeepsL l0 (tokenOp o k body) := by
  unfold tokenOp
  repeat (first | exact hb _ _ | kl_step)




theorem kl_execCore (l0 : List Obs) (o : COp) : KeepsL l0 (execC' o) := by
  cases o <;> unfold execC' <;>
    repeat (first | (apply kl_tokenOp _; intro d t) | kl_step)

theorem kl_execC (l0 : List Obs) (o : COp) : KeepsL l0 (execC o) := by
  unfold execC
  repeat (first | exact kl_execCore _ _ | kl_step)
macro_rules | `(tactic| kl_lemma) => `(tactic| with_reducible exact kl_execC _ _)

theorem kl_runCb (l0 : List Obs) (k : Nat) (p : Payload) : KeepsL l0 (runCb k p) := by unfold runCb; kl
macro_rules | `(tactic| kl_lemma) => `(tactic| with_reducible exact kl_runCb _ _ _)
theorem kl_retPA (l0 : List Obs) (r : Loop.Ret) : KeepsL l0 (retPA r) := by cases r <;> unfold retPA <;> kl
macro_rules | `(tactic| kl_lemma) => `(tactic| with_reducible exact kl_retPA _ _)
theorem kl_genGate (l0 : List Obs) (k j : Nat) (ev : Event) : KeepsL l0 (genGate k j ev) := by unfold genGate; kl
macro_rules | `(tactic| kl_lemma) => `(tactic| with_reducible exact kl_genGate _ _ _ _)

theorem kl_pingPE (l0 : List Obs) {α} (k : Nat) (ev : Event) (body : M α) (hb : KeepsL l0 body) : KeepsL l0 (pingPE k ev body) := by
  unfold pingPE; repeat (first | exact hb | kl_step)

theorem kl_chanDrain (l0 : List Obs) (k n : Nat) : KeepsL l0 (chanDrain k n) := by
  induction n with
  | zero => unfold chanDrain; kl
  | succ n ih => unfold chanDrain; repeat (first | exact ih | kl_step)
macro_rules | `(tactic| kl_lemma) => `(tactic| with_reducible exact kl_chanDrain _ _ _)

theorem kl_customPE (l0 : List Obs) (k : Nat) (ev : Event) (n j : Nat) (acc : PA) : KeepsL l0 (customPE k ev n j acc) := by
  induction n generalizing j acc with
  | zero => unfold customPE; kl
  | succ n ih => unfold customPE; repeat (first | exact ih _ _ | kl_step)
macro_rules | `(tactic| kl_lemma) => `(tactic| with_reducible exact kl_customPE _ _ _ _ _ _)

theorem kl_processEventsInner (l0 : List Obs) (k : Nat) (ev : Event) : KeepsL l0 (processEventsInner k ev) := by
  unfold processEventsInner
  repeat (first
    | (apply kl_pingPE _; first | exact kl_runCb _ _ _ | exact kl_chanDrain _ _ _)
    | kl_step)
macro_rules | `(tactic| kl_lemma) => `(tactic| with_reducible exact kl_processEventsInner _ _ _)



open Verif.Inv.Ctl in
theorem kl_processEvents (l0 : List Obs) (k : Nat) (ev : Event) : KeepsL l0 (processEvents k ev) := by
  constructor
  intro s hs
  have hs1 : Grown l0 { s with running := some k, log := s.log ++ [.pe k] } := grown_emit l0 { s with running := some k } (.pe k) hs
  have hin := (kl_processEventsInner l0 k ev).h _ hs1
  simp only [processEvents, bind, EStateM.bind, modify, modifyGet, MonadStateOf.modifyGet, EStateM.modifyGet, emit,
    tryCatch, tryCatchThe, MonadExceptOf.tryCatch, EStateM.tryCatch, pure, EStateM.pure]
  cases h : processEventsInner k ev { s with running := some k, log := s.log ++ [.pe k] } with
  | ok a s' =>
    rw [h] at hin
    simp only [EStateM.bind, EStateM.modifyGet, EStateM.pure]
    have hin' : Grown l0 s' := hin
    exact List.IsPrefix.trans hin' (List.prefix_append _ _)
  | error e s' =>
    rw [h] at hin
    cases e with
    | err e =>
      simp only [EStateM.bind, EStateM.modifyGet, throw, throwThe, MonadExceptOf.throw, EStateM.throw,
        EStateM.Backtrackable.restore, EStateM.dummyRestore]
      have hin' : Grown l0 s' := hin
      exact List.IsPrefix.trans hin' (List.prefix_append _ _)
    | panic p =>
      simp [EStateM.bind, EStateM.modifyGet, throw, throwThe, MonadExceptOf.throw, EStateM.throw,
        EStateM.Backtrackable.restore, EStateM.dummyRestore]
macro_rules | `(tactic| kl_lemma) => `(tactic| with_reducible exact kl_processEvents _ _ _)

theorem kl_beforeSleep (l0 : List Obs) (tok : Tok) : KeepsL l0 (beforeSleep tok) := by unfold beforeSleep; kl
macro_rules | `(tactic| kl_lemma) => `(tactic| with_reducible exact kl_beforeSleep _ _)
theorem kl_beforeHandle (l0 : List Obs) (evs : List Event) (tok : Tok) : KeepsL l0 (beforeHandle evs tok) := by unfold beforeHandle; kl
macro_rules | `(tactic| kl_lemma) => `(tactic| with_reducible exact kl_beforeHandle _ _ _)

theorem kl_processOne (l0 : List Obs) (ev : Event) : KeepsL l0 (processOne ev) := by
  unfold processOne; repeat (first | kl_step | dsimp only)
macro_rules | `(tactic| kl_lemma) => `(tactic| with_reducible exact kl_processOne _ _)

theorem kl_batchLoop (l0 : List Obs) (l : List Event) (first : Option Err) : KeepsL l0 (batchLoop l first) := by
  induction l generalizing first with
  | nil => unfold batchLoop; kl
  | cons ev rest ih => unfold batchLoop; repeat (first | exact ih _ | kl_step)
macro_rules | `(tactic| kl_lemma) => `(tactic| with_reducible exact kl_batchLoop _ _ _)


theorem kl_dispatchEvents (l0 : List Obs) : KeepsL l0 dispatchEvents := by
  unfold dispatchEvents
  repeat (first
    | kl_step | dsimp only)
theorem kl_runIdle (l0 : List Obs) (p : Nat × Nat) : KeepsL l0 (runIdle p) := by unfold runIdle; kl
macro_rules | `(tactic| kl_lemma) => `(tactic| with_reducible exact kl_runIdle _ _)
theorem kl_dispatchIdles (l0 : List Obs) : KeepsL l0 dispatchIdles := by unfold dispatchIdles; kl
theorem kl_dispatch (l0 : List Obs) : KeepsL l0 dispatch := by
  unfold dispatch
  repeat (first | exact kl_dispatchEvents _ | exact kl_dispatchIdles _ | kl_step)
theorem kl_snapshot (l0 : List Obs) : KeepsL l0 snapshot := by unfold snapshot; kl
theorem kl_execTop (l0 : List Obs) (o : Op) : KeepsL l0 (execTop o) := by
  cases o <;> unfold execTop <;> repeat (first | exact kl_dispatch _ | exact kl_snapshot _ | kl_step)



/-! ### one event of the batch: `process_events` of the source its token resolves to is entered -/

theorem kl_poTail (l0 : List Obs) (k : Nat) (reg : Tok) (r : Except Err PA) : KeepsL l0 (poTail k reg r) := by
  unfold poTail poApply; repeat (first | kl_step | dsimp only)

open Verif.Inv.Ctl in
/-- `process_events` logs its entry first; nothing after it takes that back -/
theorem hoare_processEvents_enters (k : Nat) (ev : Event) (l : List Obs) :
    Hoare (fun s => s.log = l) (processEvents k ev) (fun _ => Grown (l ++ [.pe k])) (Grown (l ++ [.pe k])) := by
  intro s hs
  subst hs
  have hs1 : Grown (s.log ++ [.pe k]) { s with running := some k, log := s.log ++ [.pe k] } := List.prefix_rfl
  have hin := (kl_processEventsInner (s.log ++ [.pe k]) k ev).h _ hs1
  simp only [processEvents, bind, EStateM.bind, modify, modifyGet, MonadStateOf.modifyGet, EStateM.modifyGet, emit,
    tryCatch, tryCatchThe, MonadExceptOf.tryCatch, EStateM.tryCatch, pure, EStateM.pure]
  cases h : processEventsInner k ev { s with running := some k, log := s.log ++ [.pe k] } with
  | ok a s' =>
    rw [h] at hin
    simp only [EStateM.bind, EStateM.modifyGet, EStateM.pure]
    have hin' : Grown (s.log ++ [.pe k]) s' := hin
    exact List.IsPrefix.trans hin' (List.prefix_append _ _)
  | error e s' =>
    rw [h] at hin
    cases e with
    | err e =>
      simp only [EStateM.bind, EStateM.modifyGet, throw, throwThe, MonadExceptOf.throw, EStateM.throw,
        EStateM.Backtrackable.restore, EStateM.dummyRestore]
      have hin' : Grown (s.log ++ [.pe k]) s' := hin
      exact List.IsPrefix.trans hin' (List.prefix_append _ _)
    | panic p =>
      simp [EStateM.bind, EStateM.modifyGet, throw, throwThe, MonadExceptOf.throw, EStateM.throw,
        EStateM.Backtrackable.restore, EStateM.dummyRestore]

open Verif.Inv.Ctl in
/-- **From every state**: an event whose token resolves to the source in slot `k` makes the loop enter that source's
    `process_events` — whatever the callback then does (remove itself or others, fail, re-insert), `pe k` is the
    next observation and stays. -/
theorem processOne_enters (ev : Event) (k : Nat) (l : List Obs) :
    Hoare (fun s => slotDisp s (forgetSub ev.key) = some k ∧ s.log = l) (processOne ev)
      (fun _ => Grown (l ++ [.pe k])) (Grown (l ++ [.pe k])) := by
  rw [processOne_eq]
  apply hoare_bind (fun a s => (slotDisp s (forgetSub ev.key) = some k ∧ s.log = l) ∧ a = s) hoare_get
  intro s0
  cases hd : slotDisp s0 (forgetSub ev.key) with
  | none =>
    intro s ⟨⟨h1, _⟩, h2⟩
    subst h2
    rw [hd] at h1; cases h1
  | some k' =>
    simp only
    apply hoare_bind (fun _ s => k' = k ∧ s.log = l)
    · apply hoare_modify
      intro s ⟨⟨h1, h2⟩, h3⟩
      subst h3
      rw [hd] at h1
      injection h1 with h1
      exact ⟨h1, h2⟩
    intro _
    apply hoare_bind (fun _ => Grown (l ++ [.pe k]))
    · intro s ⟨hk, hl⟩
      subst hk
      have hc : Hoare (fun s => s.log = l) (catchErr (processEvents k' ev)) (fun _ => Grown (l ++ [.pe k'])) (Grown (l ++ [.pe k'])) :=
        hoare_conseq (hoare_catchErr (E' := Grown (l ++ [.pe k'])) (hoare_processEvents_enters k' ev l)) (fun _ h => h)
          (fun a s h => by cases a <;> exact h) (fun _ h => h)
      exact hc s hl
    intro r
    exact (kl_poTail _ k' _ r).h

open Verif.Inv.Ctl in
/-- **The whole batch, from every state**: when the batch loop returns, every event of the batch either found its
    token dead at its turn (the state `si` in which its turn began: the source was removed, or the slot re-used, by
    an earlier callback of the same batch or before) or entered `process_events` of the source the token resolved to —
    `pe k` directly after the log as it stood at that turn.  No event is skipped, errors or not. -/
theorem batch_enters_each (evs : List Event) : ∀ (first : Option Err) (s : St),
    match batchLoop evs first s with
    | .ok _ s' => ∀ (i : Nat) (hi : i < evs.length), ∃ si : St, si.log <+: s'.log ∧
        (slotDisp si (forgetSub evs[i].key) = none ∨
         ∃ k, slotDisp si (forgetSub evs[i].key) = some k ∧ si.log ++ [.pe k] <+: s'.log)
    | .error _ _ => True := by
  induction evs with
  | nil =>
    intro first s
    show match (pure first : M (Option Err)) s with | .ok _ s' => _ | .error _ _ => True
    simp only [pure, EStateM.pure]
    intro i hi
    cases hi
  | cons ev rest ih =>
    intro first s
    show match (processOne ev >>= fun e => batchLoop rest (if first.isNone then e else first)) s with
      | .ok _ s' => _ | .error _ _ => True
    simp only [bind, EStateM.bind]
    cases h1 : processOne ev s with
    | error e s1 => trivial
    | ok e s1 =>
      simp only
      have ih' := ih (if first.isNone then e else first) s1
      cases h2 : batchLoop rest (if first.isNone then e else first) s1 with
      | error e2 s2 => trivial
      | ok r s' =>
        rw [h2] at ih'
        simp only at ih' ⊢
        have g1 : s.log <+: s1.log := by
          have a := (kl_processOne s.log ev).h s List.prefix_rfl
          rw [h1] at a; exact a
        have g2 : s1.log <+: s'.log := by
          have b := (kl_batchLoop s1.log rest (if first.isNone then e else first)).h s1 List.prefix_rfl
          rw [h2] at b; exact b
        intro i hi
        cases i with
        | zero =>
          refine ⟨s, g1.trans g2, ?_⟩
          simp only [List.getElem_cons_zero]
          cases hd : slotDisp s (forgetSub ev.key) with
          | none => exact Or.inl rfl
          | some k =>
            refine Or.inr ⟨k, rfl, ?_⟩
            have a := processOne_enters ev k s.log s ⟨hd, rfl⟩
            rw [h1] at a
            exact List.IsPrefix.trans a g2
        | succ j =>
          have hj : j < rest.length := by simpa using hi
          obtain ⟨si, p1, p2⟩ := ih' j hj
          refine ⟨si, p1, ?_⟩
          simpa only [List.getElem_cons_succ] using p2

end Verif.Inv.LogMono
