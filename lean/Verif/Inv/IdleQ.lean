/-
The idle queue over the *whole* loop model: every queued idle callback carries an instance number that
is fresh (below the loop's counter) and occurs once — after any history (C13: an idle callback is
queued, hence run, at most once; `dispatch_idles` empties the queue before it runs anything).
-/
import Verif.Inv.Ctl

namespace Verif.Inv.IdleQ
open Verif.Loop Verif.Inv Verif.Kernel Verif.Slots Verif.Wheel Verif.Token

/-- queued instances are pairwise distinct and below the instance counter -/
abbrev IdleOk : St → Prop := fun s => (s.idles.map (·.2)).Nodup ∧ ∀ p ∈ s.idles, p.2 < s.idleSeq

abbrev KeepsQ {α} (x : M α) : Prop := Keeps x IdleOk

theorem idleOk_push (s : St) (i : Nat) (h : IdleOk s) :
    IdleOk { s with idles := s.idles ++ [(i, s.idleSeq)], idleHandles := aset s.idleHandles i s.idleSeq, idleSeq := s.idleSeq + 1 } := by
  obtain ⟨hn, hlt⟩ := h
  refine ⟨?_, ?_⟩
  · show ((s.idles ++ [(i, s.idleSeq)]).map (·.2)).Nodup
    rw [List.map_append, List.nodup_append]
    refine ⟨hn, by simp, ?_⟩
    intro a ha b hb
    simp only [List.map_cons, List.map_nil, List.mem_singleton] at hb
    subst hb
    simp only [List.mem_map] at ha
    obtain ⟨p, hp, rfl⟩ := ha
    exact Nat.ne_of_lt (hlt p hp)
  · intro p hp
    show p.2 < s.idleSeq + 1
    simp only [List.mem_append, List.mem_singleton] at hp
    cases hp with
    | inl h => exact Nat.lt_succ_of_lt (hlt p h)
    | inr h => subst h; exact Nat.lt_succ_self _

theorem idleOk_clear (s : St) (_h : IdleOk s) : IdleOk { s with idles := [] } := by
  refine ⟨by simp, ?_⟩
  intro p hp; simp at hp

syntax "idq_lemma" : tactic
macro_rules | `(tactic| idq_lemma) => `(tactic| fail "no lemma applies")

macro "idq_step" : tactic => `(tactic| first
  | exact keeps_pure _ _
  | exact keeps_throw _ _
  | exact keeps_get _
  | idq_lemma
  | (apply keeps_modify; intro s h; exact h)
  | (apply keeps_modify; intro s h; exact idleOk_push _ _ h)
  | (apply keeps_modify; intro s h; exact idleOk_clear _ h)
  | (apply keeps_emit; intro s h; exact h)
  | (apply keeps_bind)
  | (apply keeps_catchErr)
  | (apply keeps_forEachM)
  | (apply keeps_ite)
  | (intro _)
  | split)

macro "idq" : tactic => `(tactic| (repeat idq_step))

theorem idq_emit (o : Obs) : KeepsQ (emit o) := by apply keeps_emit; intro s h; exact h
macro_rules | `(tactic| idq_lemma) => `(tactic| with_reducible exact idq_emit _)
theorem idq_throwErr {α} (e : Err) : KeepsQ (throwErr e : M α) := by exact keeps_throw _ _
macro_rules | `(tactic| idq_lemma) => `(tactic| with_reducible exact idq_throwErr _)
theorem idq_throwPanic {α} (p : Panic) : KeepsQ (throwPanic p : M α) := by exact keeps_throw _ _
macro_rules | `(tactic| idq_lemma) => `(tactic| with_reducible exact idq_throwPanic _)

theorem idq_getSrc (k : Nat) : KeepsQ (getSrc? k) := by unfold getSrc?; idq
macro_rules | `(tactic| idq_lemma) => `(tactic| with_reducible exact idq_getSrc _)
theorem idq_setSrc (k : Nat) (v : Src) : KeepsQ (setSrc k v) := by unfold setSrc; idq
macro_rules | `(tactic| idq_lemma) => `(tactic| with_reducible exact idq_setSrc _ _)
theorem idq_modSrc (k : Nat) (f : Src → Src) : KeepsQ (modSrc k f) := by unfold modSrc; idq
macro_rules | `(tactic| idq_lemma) => `(tactic| with_reducible exact idq_modSrc _ _)
theorem idq_modGen (k j : Nat) (f : Gen → Gen) : KeepsQ (modGen k j f) := by unfold modGen; idq
macro_rules | `(tactic| idq_lemma) => `(tactic| with_reducible exact idq_modGen _ _ _)
theorem idq_getGen (k j : Nat) : KeepsQ (getGen? k j) := by unfold getGen?; idq
macro_rules | `(tactic| idq_lemma) => `(tactic| with_reducible exact idq_getGen _ _)
theorem idq_kAdd (e : EpEntry) : KeepsQ (kAdd e) := by unfold kAdd; idq
macro_rules | `(tactic| idq_lemma) => `(tactic| with_reducible exact idq_kAdd _)
theorem idq_kMod (e : EpEntry) : KeepsQ (kMod e) := by unfold kMod; idq
macro_rules | `(tactic| idq_lemma) => `(tactic| with_reducible exact idq_kMod _)
theorem idq_kDel (fd : Nat) : KeepsQ (kDel fd) := by unfold kDel; idq
macro_rules | `(tactic| idq_lemma) => `(tactic| with_reducible exact idq_kDel _)
theorem idq_kWrite (fd n : Nat) : KeepsQ (kWrite fd n) := by unfold kWrite; idq
macro_rules | `(tactic| idq_lemma) => `(tactic| with_reducible exact idq_kWrite _ _)
theorem idq_kRead (fd : Nat) : KeepsQ (kRead fd) := by unfold kRead; idq
macro_rules | `(tactic| idq_lemma) => `(tactic| with_reducible exact idq_kRead _)
theorem idq_takeToken (f : Factory) : KeepsQ (takeToken f) := by unfold takeToken; idq
macro_rules | `(tactic| idq_lemma) => `(tactic| with_reducible exact idq_takeToken _)
theorem idq_genRegister (k j : Nat) (f : Factory) : KeepsQ (genRegister k j f) := by unfold genRegister; idq
macro_rules | `(tactic| idq_lemma) => `(tactic| with_reducible exact idq_genRegister _ _ _)
theorem idq_genReregister (k j : Nat) (f : Factory) : KeepsQ (genReregister k j f) := by unfold genReregister; idq
macro_rules | `(tactic| idq_lemma) => `(tactic| with_reducible exact idq_genReregister _ _ _)
theorem idq_genUnregister (k j : Nat) : KeepsQ (genUnregister k j) := by unfold genUnregister; idq
macro_rules | `(tactic| idq_lemma) => `(tactic| with_reducible exact idq_genUnregister _ _)

theorem idq_customLoop (k : Nat) (kind : RegKind) (fail : Option Nat) (body : Nat → Factory → M Factory)
    (hb : ∀ j f, KeepsQ (body j f)) (n j : Nat) (f : Factory) : KeepsQ (customLoop k kind fail body n j f) := by
  induction n generalizing j f with
  | zero => unfold customLoop; idq
  | succ n ih =>
    unfold customLoop
    repeat (first | exact ih _ _ | exact hb _ _ | idq_step)

theorem idq_customRollback (k j : Nat) : KeepsQ (customRollback k j) := by
  induction j with
  | zero => unfold customRollback; idq
  | succ j ih => unfold customRollback; repeat (first | exact ih | idq_step)
macro_rules | `(tactic| idq_lemma) => `(tactic| with_reducible exact idq_customRollback _ _)

theorem idq_customRegister (k : Nat) (fail : Option Nat) (rb : Bool) (n j : Nat) (f : Factory) :
    KeepsQ (customRegister k fail rb n j f) := by
  induction n generalizing j f with
  | zero => unfold customRegister; idq
  | succ n ih => unfold customRegister; repeat (first | exact ih _ _ | idq_step)
macro_rules | `(tactic| idq_lemma) => `(tactic| with_reducible exact idq_customRegister _ _ _ _ _ _)

theorem idq_timerUnregister (k : Nat) : KeepsQ (timerUnregister k) := by unfold timerUnregister; idq
macro_rules | `(tactic| idq_lemma) => `(tactic| with_reducible exact idq_timerUnregister _)
theorem idq_timerRegister (k : Nat) (f : Factory) : KeepsQ (timerRegister k f) := by unfold timerRegister; idq
macro_rules | `(tactic| idq_lemma) => `(tactic| with_reducible exact idq_timerRegister _ _)

theorem idq_srcRegister (k : Nat) (f : Factory) : KeepsQ (srcRegister k f) := by unfold srcRegister; idq
macro_rules | `(tactic| idq_lemma) => `(tactic| with_reducible exact idq_srcRegister _ _)

theorem idq_srcReregister (k : Nat) (f : Factory) : KeepsQ (srcReregister k f) := by
  unfold srcReregister
  repeat (first | (apply idq_customLoop; intro j f; exact idq_genReregister _ _ _) | idq_step)
macro_rules | `(tactic| idq_lemma) => `(tactic| with_reducible exact idq_srcReregister _ _)

theorem idq_srcUnregister (k : Nat) : KeepsQ (srcUnregister k) := by
  unfold srcUnregister
  repeat (first | (apply idq_customLoop; intro j f; repeat idq_step) | idq_step)
macro_rules | `(tactic| idq_lemma) => `(tactic| with_reducible exact idq_srcUnregister _)

theorem idq_isLife (k : Nat) : KeepsQ (isLife k) := by unfold isLife; idq
macro_rules | `(tactic| idq_lemma) => `(tactic| with_reducible exact idq_isLife _)

theorem idq_dRegister (k : Nat) (tok : Tok) : KeepsQ (dRegister k tok) := by unfold dRegister; idq
macro_rules | `(tactic| idq_lemma) => `(tactic| with_reducible exact idq_dRegister _ _)
theorem idq_dReregister (k : Nat) (tok : Tok) : KeepsQ (dReregister k tok) := by unfold dReregister; idq
macro_rules | `(tactic| idq_lemma) => `(tactic| with_reducible exact idq_dReregister _ _)
theorem idq_dUnregister (k : Nat) (tok : Tok) : KeepsQ (dUnregister k tok) := by unfold dUnregister; idq
macro_rules | `(tactic| idq_lemma) => `(tactic| with_reducible exact idq_dUnregister _ _)

theorem idq_maybeDrop (k : Nat) : KeepsQ (maybeDrop k) := by unfold maybeDrop; idq
macro_rules | `(tactic| idq_lemma) => `(tactic| with_reducible exact idq_maybeDrop _)
theorem idq_userTok (k : Nat) : KeepsQ (userTok k) := by unfold userTok; idq
macro_rules | `(tactic| idq_lemma) => `(tactic| with_reducible exact idq_userTok _)
theorem idq_doInsert (k : Nat) (keep : Bool) : KeepsQ (doInsert k keep) := by unfold doInsert; idq
macro_rules | `(tactic| idq_lemma) => `(tactic| with_reducible exact idq_doInsert _ _)
theorem idq_doRemove (o : COp) (k : Nat) : KeepsQ (doRemove o k) := by unfold doRemove; idq
macro_rules | `(tactic| idq_lemma) => `(tactic| with_reducible exact idq_doRemove _ _)
theorem idq_chanFd (k : Nat) : KeepsQ (chanFd k) := by unfold chanFd; idq
macro_rules | `(tactic| idq_lemma) => `(tactic| with_reducible exact idq_chanFd _)


/-! ### user operations, event processing, dispatch: everything keeps the set duplicate-free -/

theorem idq_tokenOp (o : COp) (k : Nat) (body : Nat → Tok → M Unit) (hb : ∀ d t, KeepsQ (body d t)) :
    KeepsQ (tokenOp o k body) := by
  unfold tokenOp
  repeat (first | exact hb _ _ | idq_step)

theorem idq_execCore (o : COp) : KeepsQ (execC' o) := by
  cases o <;> unfold execC' <;>
    repeat (first | (apply idq_tokenOp; intro d t) | idq_step)
macro_rules | `(tactic| idq_lemma) => `(tactic| with_reducible exact idq_execCore _)

theorem idq_execC (o : COp) : KeepsQ (execC o) := by unfold execC; idq
macro_rules | `(tactic| idq_lemma) => `(tactic| with_reducible exact idq_execC _)

theorem idq_runCb (k : Nat) (p : Payload) : KeepsQ (runCb k p) := by unfold runCb; idq
macro_rules | `(tactic| idq_lemma) => `(tactic| with_reducible exact idq_runCb _ _)
theorem idq_retPA (r : Loop.Ret) : KeepsQ (retPA r) := by cases r <;> unfold retPA <;> idq
macro_rules | `(tactic| idq_lemma) => `(tactic| with_reducible exact idq_retPA _)
theorem idq_genGate (k j : Nat) (ev : Event) : KeepsQ (genGate k j ev) := by unfold genGate; idq
macro_rules | `(tactic| idq_lemma) => `(tactic| with_reducible exact idq_genGate _ _ _)

theorem idq_pingPE {α} (k : Nat) (ev : Event) (body : M α) (hb : KeepsQ body) : KeepsQ (pingPE k ev body) := by
  unfold pingPE; repeat (first | exact hb | idq_step)

theorem idq_chanDrain (k n : Nat) : KeepsQ (chanDrain k n) := by
  induction n with
  | zero => unfold chanDrain; idq
  | succ n ih => unfold chanDrain; repeat (first | exact ih | idq_step)
macro_rules | `(tactic| idq_lemma) => `(tactic| with_reducible exact idq_chanDrain _ _)

theorem idq_customPE (k : Nat) (ev : Event) (n j : Nat) (acc : PA) : KeepsQ (customPE k ev n j acc) := by
  induction n generalizing j acc with
  | zero => unfold customPE; idq
  | succ n ih => unfold customPE; repeat (first | exact ih _ _ | idq_step)
macro_rules | `(tactic| idq_lemma) => `(tactic| with_reducible exact idq_customPE _ _ _ _ _)

theorem idq_processEventsInner (k : Nat) (ev : Event) : KeepsQ (processEventsInner k ev) := by
  unfold processEventsInner
  repeat (first
    | (apply idq_pingPE; first | exact idq_runCb _ _ | exact idq_chanDrain _ _)
    | idq_step)
macro_rules | `(tactic| idq_lemma) => `(tactic| with_reducible exact idq_processEventsInner _ _)

theorem idq_processEvents (k : Nat) (ev : Event) : KeepsQ (processEvents k ev) := by
  unfold processEvents
  repeat (first | (apply keeps_tryCatch) | idq_step)
macro_rules | `(tactic| idq_lemma) => `(tactic| with_reducible exact idq_processEvents _ _)

theorem idq_beforeSleep (tok : Tok) : KeepsQ (beforeSleep tok) := by unfold beforeSleep; idq
macro_rules | `(tactic| idq_lemma) => `(tactic| with_reducible exact idq_beforeSleep _)
theorem idq_beforeHandle (evs : List Event) (tok : Tok) : KeepsQ (beforeHandle evs tok) := by unfold beforeHandle; idq
macro_rules | `(tactic| idq_lemma) => `(tactic| with_reducible exact idq_beforeHandle _ _)

theorem idq_processOne (ev : Event) : KeepsQ (processOne ev) := by
  unfold processOne; repeat (first | idq_step | dsimp only)
macro_rules | `(tactic| idq_lemma) => `(tactic| with_reducible exact idq_processOne _)

theorem idq_batchLoop (l : List Event) (first : Option Err) : KeepsQ (batchLoop l first) := by
  induction l generalizing first with
  | nil => unfold batchLoop; idq
  | cons ev rest ih => unfold batchLoop; repeat (first | exact ih _ | idq_step)
macro_rules | `(tactic| idq_lemma) => `(tactic| with_reducible exact idq_batchLoop _ _)

theorem idq_dispatchEvents : KeepsQ dispatchEvents := by
  unfold dispatchEvents; repeat (first | idq_step | dsimp only)
theorem idq_runIdle (p : Nat × Nat) : KeepsQ (runIdle p) := by unfold runIdle; idq
macro_rules | `(tactic| idq_lemma) => `(tactic| with_reducible exact idq_runIdle _)
theorem idq_dispatchIdles : KeepsQ dispatchIdles := by unfold dispatchIdles; idq
theorem idq_dispatch : KeepsQ dispatch := by
  unfold dispatch
  repeat (first | exact idq_dispatchEvents | exact idq_dispatchIdles | idq_step)
theorem idq_snapshot : KeepsQ snapshot := by unfold snapshot; idq
theorem idq_execTop (o : Op) : KeepsQ (execTop o) := by
  cases o <;> unfold execTop <;> repeat (first | exact idq_dispatch | exact idq_snapshot | idq_step)

theorem idq_step_ok (s : St) (o : Op) (h : IdleOk s) : IdleOk (step s o) := by
  unfold step
  by_cases ha : s.aborted = true
  · rw [if_pos ha]; exact h
  · rw [if_neg ha]
    have := (idq_execTop o).h s h
    simp only [after] at this
    cases hx : execTop o s with
    | ok a s' => rw [hx] at this; exact this
    | error e s' =>
      rw [hx] at this
      cases e with
      | err e => exact this
      | panic p => exact this

/-- **After every history** the queued idle callbacks are pairwise distinct instances, each numbered below the
    loop's instance counter: nothing is ever queued twice, and nothing that ran can come back. -/
theorem run_idle_queue_fresh (ops : List Op) :
    ((run ops).idles.map (·.2)).Nodup ∧ ∀ p ∈ (run ops).idles, p.2 < (run ops).idleSeq := by
  unfold run
  have : ∀ (l : List Op) (s : St), IdleOk s → IdleOk (l.foldl step s) := by
    intro l
    induction l with
    | nil => intro s h; exact h
    | cons o l ih => intro s h; exact ih _ (idq_step_ok s o h)
  exact this ops {} ⟨by simp, by intro p hp; simp at hp⟩

end Verif.Inv.IdleQ
