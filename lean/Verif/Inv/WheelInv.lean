/-
The timer wheel over the whole loop model: the counters of the entries in the wheel are pairwise distinct, and every
entry is the current arming of some timer source — no residue (C05, C12) — unless a timer that still held a
registration was registered again (`reEnabled`: `enable` of a source that is not disabled).
-/
import Verif.Inv.OwnInv
import Verif.Inv.Wheel

namespace Verif.Inv.WheelInv
open Verif.Loop Verif.Inv Verif.Kernel Verif.Slots Verif.Wheel Verif.Token Verif.Inv.TokInv Verif.Inv.OwnInv

/-- the registration each timer object holds: `none` no such object, `some none` not registered -/
def tm (s : St) : Nat → Option (Option (Tok × Nat)) := fun k => (alookup s.srcs k).map (·.treg)

/-- the wheel, the registrations, the ghost flag, whose cell is borrowed -/
def prW (s : St) : Wheel × (Nat → Option (Option (Tok × Nat))) × Bool × Option Nat := (s.wheel, tm s, s.reEnabled, s.running)

theorem tm_aset (s : St) (k : Nat) (v : Src) :
    tm { s with srcs := aset s.srcs k v } = fun k' => if k' = k then some v.treg else tm s k' := by
  funext k'
  unfold tm
  by_cases h : k' = k
  · subst h; simp [alookup_aset_self]
  · simp [alookup_aset_other _ _ _ _ h, h]

theorem tm_same (s : St) (k : Nat) (b : Option (Tok × Nat)) (h : tm s k = some b) :
    (fun k' => if k' = k then some b else tm s k') = tm s := by
  funext k'
  by_cases hk : k' = k
  · subst hk; simp [h]
  · simp [hk]

abbrev FrameW {α} (x : M α) : Prop := ∀ c, Keeps x (fun s => prW s = c)

syntax "fw_lemma" : tactic
macro_rules | `(tactic| fw_lemma) => `(tactic| fail "no lemma applies")

macro "fw_step" : tactic => `(tactic| first
  | exact keeps_pure _ _
  | exact keeps_throw _ _
  | exact keeps_get _
  | fw_lemma
  | (apply keeps_modify; intro s h; exact h)
  | (apply keeps_emit; intro s h; exact h)
  | (apply keeps_bind)
  | (apply keeps_catchErr)
  | (apply keeps_forEachM)
  | (apply keeps_ite)
  | (intro _)
  | split)

macro "fw" : tactic => `(tactic| (intro c; repeat fw_step))

theorem fw_emit (o : Obs) : FrameW (emit o) := by intro c; apply keeps_emit; intro s h; exact h
macro_rules | `(tactic| fw_lemma) => `(tactic| with_reducible exact fw_emit _ _)
theorem fw_throwErr {α} (e : Err) : FrameW (throwErr e : M α) := by intro c; exact keeps_throw _ _
macro_rules | `(tactic| fw_lemma) => `(tactic| with_reducible exact fw_throwErr _ _)
theorem fw_throwPanic {α} (p : Panic) : FrameW (throwPanic p : M α) := by intro c; exact keeps_throw _ _
macro_rules | `(tactic| fw_lemma) => `(tactic| with_reducible exact fw_throwPanic _ _)

theorem fw_getSrc (k : Nat) : FrameW (getSrc? k) := by unfold getSrc?; fw
macro_rules | `(tactic| fw_lemma) => `(tactic| with_reducible exact fw_getSrc _ _)
theorem fw_modSrc (k : Nat) (f : Src → Src) (hf : ∀ v, (f v).treg = v.treg) : FrameW (modSrc k f) := by
  intro c
  constructor
  intro s hs
  unfold after
  rw [modSrc_run]
  cases hk : alookup s.srcs k with
  | none => exact hs
  | some v =>
    show prW { s with srcs := aset s.srcs k (f v) } = c
    rw [← hs]
    show (s.wheel, tm { s with srcs := aset s.srcs k (f v) }, s.reEnabled, s.running) = (s.wheel, tm s, s.reEnabled, s.running)
    rw [tm_aset s k (f v), tm_same s k ((f v).treg) (by simp [tm, hk, hf v])]
macro_rules | `(tactic| fw_lemma) => `(tactic| (refine fw_modSrc _ _ ?_ _; intro _; first | rfl | (split <;> rfl) | (dsimp only; split <;> rfl)))
theorem fw_modGen (k j : Nat) (f : Gen → Gen) : FrameW (modGen k j f) := by unfold modGen; fw
macro_rules | `(tactic| fw_lemma) => `(tactic| with_reducible exact fw_modGen _ _ _ _)
theorem fw_getGen (k j : Nat) : FrameW (getGen? k j) := by unfold getGen?; fw
macro_rules | `(tactic| fw_lemma) => `(tactic| with_reducible exact fw_getGen _ _ _)
theorem fw_kAdd (e : EpEntry) : FrameW (kAdd e) := by unfold kAdd; fw
macro_rules | `(tactic| fw_lemma) => `(tactic| with_reducible exact fw_kAdd _ _)
theorem fw_kMod (e : EpEntry) : FrameW (kMod e) := by unfold kMod; fw
macro_rules | `(tactic| fw_lemma) => `(tactic| with_reducible exact fw_kMod _ _)
theorem fw_kDel (fd : Nat) : FrameW (kDel fd) := by unfold kDel; fw
macro_rules | `(tactic| fw_lemma) => `(tactic| with_reducible exact fw_kDel _ _)
theorem fw_kWrite (fd n : Nat) : FrameW (kWrite fd n) := by unfold kWrite; fw
macro_rules | `(tactic| fw_lemma) => `(tactic| with_reducible exact fw_kWrite _ _ _)
theorem fw_kRead (fd : Nat) : FrameW (kRead fd) := by unfold kRead; fw
macro_rules | `(tactic| fw_lemma) => `(tactic| with_reducible exact fw_kRead _ _)
theorem fw_takeToken (f : Factory) : FrameW (takeToken f) := by unfold takeToken; fw
macro_rules | `(tactic| fw_lemma) => `(tactic| with_reducible exact fw_takeToken _ _)
theorem fw_genRegister (k j : Nat) (f : Factory) : FrameW (genRegister k j f) := by unfold genRegister; fw
macro_rules | `(tactic| fw_lemma) => `(tactic| with_reducible exact fw_genRegister _ _ _ _)
theorem fw_genReregister (k j : Nat) (f : Factory) : FrameW (genReregister k j f) := by unfold genReregister; fw
macro_rules | `(tactic| fw_lemma) => `(tactic| with_reducible exact fw_genReregister _ _ _ _)
theorem fw_genUnregister (k j : Nat) : FrameW (genUnregister k j) := by unfold genUnregister; fw
macro_rules | `(tactic| fw_lemma) => `(tactic| with_reducible exact fw_genUnregister _ _ _)

theorem fw_customLoop (k : Nat) (kind : RegKind) (fail : Option Nat) (body : Nat → Factory → M Factory)
    (hb : ∀ j f, FrameW (body j f)) (n j : Nat) (f : Factory) : FrameW (customLoop k kind fail body n j f) := by
  induction n generalizing j f with
  | zero => unfold customLoop; fw
  | succ n ih =>
    unfold customLoop
    intro c
    repeat (first | exact ih _ _ c | exact hb _ _ c | fw_step)

theorem fw_customRollback (k j : Nat) : FrameW (customRollback k j) := by
  induction j with
  | zero => unfold customRollback; fw
  | succ j ih => unfold customRollback; intro c; repeat (first | exact ih c | fw_step)
macro_rules | `(tactic| fw_lemma) => `(tactic| with_reducible exact fw_customRollback _ _ _)

theorem fw_customRegister (k : Nat) (fail : Option Nat) (rb : Bool) (n j : Nat) (f : Factory) :
    FrameW (customRegister k fail rb n j f) := by
  induction n generalizing j f with
  | zero => unfold customRegister; fw
  | succ n ih => unfold customRegister; intro c; repeat (first | exact ih _ _ c | fw_step)
macro_rules | `(tactic| fw_lemma) => `(tactic| with_reducible exact fw_customRegister _ _ _ _ _ _ _)





theorem fw_isLife (k : Nat) : FrameW (isLife k) := by unfold isLife; fw
macro_rules | `(tactic| fw_lemma) => `(tactic| with_reducible exact fw_isLife _ _)


theorem fw_maybeDrop (k : Nat) : FrameW (maybeDrop k) := by unfold maybeDrop; fw
macro_rules | `(tactic| fw_lemma) => `(tactic| with_reducible exact fw_maybeDrop _ _)
theorem fw_userTok (k : Nat) : FrameW (userTok k) := by unfold userTok; fw
macro_rules | `(tactic| fw_lemma) => `(tactic| with_reducible exact fw_userTok _ _)



/-! ### the wheel on its own -/

theorem cancel_sublist (w : Wheel) (c : Nat) : (cancel w c).heap.Sublist w.heap ∧ (cancel w c).counter = w.counter := by
  unfold cancel
  cases minIdx w.heap with
  | none => exact ⟨List.Sublist.refl _, rfl⟩
  | some i =>
    simp only
    cases w.heap[i]? with
    | none => exact ⟨List.Sublist.refl _, rfl⟩
    | some e =>
      simp only
      split
      · exact ⟨List.eraseIdx_sublist _ _, rfl⟩
      · exact ⟨List.filter_sublist, rfl⟩

theorem nextExpired_sublist (w : Wheel) (now : Int) (e : Entry) (w' : Wheel) (h : nextExpired w now = some (e, w')) :
    w'.heap.Sublist w.heap ∧ w'.counter = w.counter := by
  unfold nextExpired at h
  cases hm : minIdx w.heap with
  | none => simp [hm] at h
  | some i =>
    simp only [hm] at h
    cases hg : w.heap[i]? with
    | none => simp [hg] at h
    | some x =>
      simp only [hg] at h
      split at h
      · injection h with h; injection h with _ h2; subst h2
        exact ⟨List.eraseIdx_sublist _ _, rfl⟩
      · cases h

theorem popExpired_sublist (w : Wheel) (now : Int) (fuel : Nat) :
    (popExpired w now fuel).2.heap.Sublist w.heap ∧ (popExpired w now fuel).2.counter = w.counter := by
  induction fuel generalizing w with
  | zero => exact ⟨List.Sublist.refl _, rfl⟩
  | succ n ih =>
    unfold popExpired
    cases hn : nextExpired w now with
    | none => exact ⟨List.Sublist.refl _, rfl⟩
    | some p =>
      obtain ⟨e, w'⟩ := p
      simp only
      obtain ⟨h1, h2⟩ := nextExpired_sublist w now e w' hn
      obtain ⟨h3, h4⟩ := ih w'
      exact ⟨h3.trans h1, h4.trans h2⟩

/-! ### the invariant -/

abbrev Reg := Nat → Option (Option (Tok × Nat))
abbrev CbX := Option (Nat × Tok × Nat)

/-- registered counters were issued; the counters in the wheel are pairwise distinct; every entry is the current
    arming of some timer object -/
def Good (w : Wheel) (tm : Reg) : Prop :=
  (∀ k t n, tm k = some (some (t, n)) → n < w.counter) ∧
  w.heap.Pairwise (fun a b => a.counter ≠ b.counter) ∧
  (∀ e ∈ w.heap, ∃ k, tm k = some (some (e.tok, e.counter)))

/-- while the callback of timer `k0` runs (its entry has been popped): its cell is borrowed, its registration stays,
    and its counter is not in the wheel -/
def Hold (x : CbX) (w : Wheel) (tm : Reg) (run : Option Nat) : Prop :=
  match x with
  | none => True
  | some (k0, t, n) => run = some k0 ∧ tm k0 = some (some (t, n)) ∧ ∀ e ∈ w.heap, e.counter ≠ n

def WCbP (x : CbX) (c : Wheel × Reg × Bool × Option Nat) : Prop :=
  c.2.2.1 = true ∨ (Good c.1 c.2.1 ∧ Hold x c.1 c.2.1 c.2.2.2)

abbrev WCb (x : CbX) : St → Prop := fun s => WCbP x (prW s)
abbrev WOk : St → Prop := WCb none

/-- … and the dispatcher `k` about to be (un)registered is not the one whose cell is borrowed -/
def WKP (x : CbX) (k : Nat) (c : Wheel × Reg × Bool × Option Nat) : Prop := WCbP x c ∧ c.2.2.2 ≠ some k
abbrev WK (x : CbX) (k : Nat) : St → Prop := fun s => WKP x k (prW s)

theorem keeps_of_frameW {α} {x : M α} (h : FrameW x) (R : Wheel × Reg × Bool × Option Nat → Prop) :
    Keeps x (fun s => R (prW s)) := by
  constructor
  intro s hs
  have h1 : prW (after x s) = prW s := (h (prW s)).h s rfl
  show R (prW (after x s))
  rw [h1]; exact hs

theorem hold_sub (x : CbX) (w w' : Wheel) (tm : Reg) (run : Option Nat) (h : Hold x w tm run)
    (hs : ∀ e ∈ w'.heap, e ∈ w.heap) : Hold x w' tm run := by
  cases x with
  | none => trivial
  | some p => obtain ⟨k0, t, n⟩ := p; exact ⟨h.1, h.2.1, fun e he => h.2.2 e (hs e he)⟩

/-- taking entries out of the wheel keeps everything -/
theorem good_sub (w w' : Wheel) (tm : Reg) (h : Good w tm) (hs : w'.heap.Sublist w.heap) (hc : w'.counter = w.counter) :
    Good w' tm :=
  ⟨fun k t n hk => hc ▸ h.1 k t n hk, h.2.1.sublist hs, fun e he => h.2.2 e (hs.subset he)⟩

open Verif.Inv.Ctl in
theorem hoare_getSrc_w (k : Nat) (P : St → Prop) {E : St → Prop} :
    Hoare P (getSrc? k) (fun a s => P s ∧ a = alookup s.srcs k) E := by
  intro s hs
  exact ⟨hs, rfl⟩

open Verif.Inv.Ctl in
theorem hoare_throwPanic {α} {P : St → Prop} (p : Panic) {R : α → St → Prop} {E : St → Prop} :
    Hoare P (throwPanic p : M α) R E := fun _ _ => True.intro

/-- what `modSrc` does to a state in which the object exists -/
theorem modSrc_some (k : Nat) (f : Src → Src) (s : St) (v : Src) (h : alookup s.srcs k = some v) :
    modSrc k f s = .ok () { s with srcs := aset s.srcs k (f v) } := by
  rw [modSrc_run, h]

theorem tm_some (s : St) (k : Nat) (v : Src) (h : alookup s.srcs k = some v) : tm s k = some v.treg := by
  simp [tm, h]

theorem tm_exists (s : St) (k : Nat) (r : Option (Tok × Nat)) (h : tm s k = some r) :
    ∃ v, alookup s.srcs k = some v ∧ v.treg = r := by
  unfold tm at h
  cases hl : alookup s.srcs k with
  | none => simp [hl] at h
  | some v => exact ⟨v, rfl, by simpa [hl] using h⟩

theorem modSrc_flag (k : Nat) (f : Src → Src) (s : St) :
    ∃ s', modSrc k f s = .ok () s' ∧ s'.reEnabled = s.reEnabled ∧ s'.running = s.running := by
  rw [modSrc_run]
  cases alookup s.srcs k with
  | none => exact ⟨s, rfl, rfl, rfl⟩
  | some v => exact ⟨_, rfl, rfl, rfl⟩

/-! ### unregistering and registering a timer -/

open Verif.Inv.Ctl in
theorem ki_timerUnregister (x : CbX) (k : Nat) : KeepsI (timerUnregister k) (WK x k) := by
  constructor
  unfold timerUnregister
  apply hoare_bind (fun _ => WK x k) (hoare_of_keeps (keeps_of_frameW (by intro c; fw_lemma) (WKP x k)))
  intro _
  apply hoare_bind _ (hoare_getSrc_w k (WK x k))
  intro o
  cases o with
  | none => exact hoare_pure _ (fun _ h => h.1)
  | some v =>
    simp only
    cases hreg : v.treg with
    | none => exact hoare_pure _ (fun _ h => h.1)
    | some p =>
      obtain ⟨t, c⟩ := p
      simp only
      -- the arming is taken out of the wheel
      apply hoare_bind (fun _ s => WK x k s ∧ tm s k = some (some (t, c)) ∧
          (s.reEnabled = true ∨ ∀ e ∈ s.wheel.heap, e.counter ≠ c))
      · apply hoare_modify
        intro s ⟨⟨hw, hr⟩, hv⟩
        have htm : tm s k = some (some (t, c)) := by rw [tm_some s k v hv.symm, hreg]
        obtain ⟨hsub, hcnt⟩ := cancel_sublist s.wheel c
        refine ⟨⟨?_, hr⟩, htm, ?_⟩
        · cases hw with
          | inl hf => exact Or.inl hf
          | inr hg => exact Or.inr ⟨good_sub _ _ _ hg.1 hsub hcnt, hold_sub x _ _ _ _ hg.2 (fun e he => hsub.subset he)⟩
        · cases hw with
          | inl hf => exact Or.inl hf
          | inr hg => exact Or.inr (Verif.Inv.Wheel.cancel_removes s.wheel c hg.1.2.1)
      intro _
      -- … and the object forgets it
      intro s ⟨⟨hw, hr⟩, htm, hno⟩
      obtain ⟨v', hv', hreg'⟩ := tm_exists s k _ htm
      rw [modSrc_some k _ s v' hv']
      show WKP x k (s.wheel, tm { s with srcs := aset s.srcs k { v' with treg := none } }, s.reEnabled, s.running)
      rw [tm_aset]
      refine ⟨?_, hr⟩
      cases hw with
      | inl hf => exact Or.inl hf
      | inr hg =>
        cases hno with
        | inl hf => exact Or.inl hf
        | inr hno =>
          refine Or.inr ⟨⟨fun k' t' n' hk' => ?_, hg.1.2.1, fun e he => ?_⟩, ?_⟩
          · by_cases hkk : k' = k
            · subst hkk; simp at hk'
            · simp only [hkk, if_false] at hk'; exact hg.1.1 k' t' n' hk'
          · obtain ⟨k', hk'⟩ := hg.1.2.2 e he
            have hk' : tm s k' = some (some (e.tok, e.counter)) := hk'
            have hkk : k' ≠ k := by
              intro e'; subst e'
              rw [htm] at hk'
              injection hk' with hk'; injection hk' with hk'; injection hk' with _ h2
              exact hno e he h2.symm
            exact ⟨k', by simp only [hkk, if_false]; exact hk'⟩
          · cases x with
            | none => trivial
            | some p =>
              obtain ⟨k0, t0, n0⟩ := p
              obtain ⟨h1, h2, h3⟩ := hg.2
              have hkk : k0 ≠ k := by
                intro e'; subst e'
                exact hr h1
              exact ⟨h1, by simp only [hkk, if_false]; exact h2, h3⟩

open Verif.Inv.Ctl in
theorem ki_timerRegister (x : CbX) (k : Nat) (f : Factory) : KeepsI (timerRegister k f) (WK x k) := by
  constructor
  unfold timerRegister
  apply hoare_bind (fun _ => WK x k) (hoare_of_keeps (keeps_of_frameW (by intro c; fw_lemma) (WKP x k)))
  intro _
  apply hoare_bind _ (hoare_getSrc_w k (WK x k))
  intro o
  cases o with
  | none => exact hoare_pure _ (fun _ h => h.1)
  | some v =>
    simp only
    cases hdl : v.deadline with
    | none => exact hoare_pure _ (fun _ h => h.1)
    | some d =>
      simp only
      apply hoare_bind (fun _ s => WK x k s ∧ tm s k = some v.treg)
      · exact hoare_conseq (hoare_of_keeps (keeps_of_frameW (fw_takeToken f) (fun c => WKP x k c ∧ c.2.1 k = some v.treg)))
          (fun s h => ⟨h.1, tm_some s k v h.2.symm⟩) (fun _ _ h => h) (fun _ h => h.1)
      intro p
      obtain ⟨tk, f'⟩ := p
      simp only
      apply hoare_bind (fun a s => (WK x k s ∧ tm s k = some v.treg) ∧ a = s) hoare_get
      intro s0
      -- the new arming goes into the wheel (a timer that still holds one: the flag rises) …
      apply hoare_bind (fun _ s => s.running ≠ some k ∧ (s.reEnabled = true ∨
          (tm s k = some none ∧ ∃ w0, Good w0 (tm s) ∧ Hold x w0 (tm s) s.running ∧ s.wheel = (insert w0 d tk).1 ∧
            (insert s0.wheel d tk).2 = w0.counter)))
      · apply hoare_modify
        intro s ⟨⟨⟨hw, hr⟩, htm⟩, he⟩
        subst he
        refine ⟨hr, ?_⟩
        show (s0.reEnabled || v.treg.isSome) = true ∨ _
        cases hw with
        | inl hf => exact Or.inl (by rw [show s0.reEnabled = true from hf]; rfl)
        | inr hg =>
          cases hv : v.treg with
          | some r => exact Or.inl (by simp)
          | none => exact Or.inr ⟨show tm s0 k = some none by rw [htm, hv], s0.wheel, hg.1, hg.2, rfl, rfl⟩
      intro _
      -- … and the object remembers it
      intro s ⟨hr, h⟩
      cases h with
      | inl hf =>
        obtain ⟨s', hm, h1, h2⟩ := modSrc_flag k (fun s => { s with treg := some (tk, (insert s0.wheel d tk).2) }) s
        rw [hm]
        show WK x k s'
        exact ⟨Or.inl (show s'.reEnabled = true by rw [h1]; exact hf), show s'.running ≠ some k by rw [h2]; exact hr⟩
      | inr h =>
        obtain ⟨htm, w0, hg, hh, hwh, hc⟩ := h
        obtain ⟨v', hv', _⟩ := tm_exists s k _ htm
        rw [modSrc_some k _ s v' hv']
        show WKP x k (s.wheel, tm { s with srcs := aset s.srcs k { v' with treg := some (tk, (insert s0.wheel d tk).2) } },
          s.reEnabled, s.running)
        rw [tm_aset, hwh, hc]
        refine ⟨Or.inr ⟨⟨fun k' t' n' hk' => ?_, ?_, fun e he => ?_⟩, ?_⟩, hr⟩
        · show n' < w0.counter + 1
          by_cases hkk : k' = k
          · subst hkk; simp at hk'; omega
          · simp only [hkk, if_false] at hk'; have := hg.1 k' t' n' hk'; omega
        · show (w0.heap ++ [(⟨d, tk, w0.counter⟩ : Entry)]).Pairwise _
          rw [List.pairwise_append]
          refine ⟨hg.2.1, List.pairwise_singleton _ _, fun a ha b hb => ?_⟩
          simp at hb; subst hb
          obtain ⟨k', hk'⟩ := hg.2.2 a ha
          have := hg.1 k' _ _ hk'
          show a.counter ≠ w0.counter
          omega
        · have he' : e ∈ w0.heap ++ [(⟨d, tk, w0.counter⟩ : Entry)] := he
          rw [List.mem_append] at he'
          cases he' with
          | inl ho =>
            obtain ⟨k', hk'⟩ := hg.2.2 e ho
            have hkk : k' ≠ k := by intro e'; subst e'; rw [htm] at hk'; simp at hk'
            exact ⟨k', by simp only [hkk, if_false]; exact hk'⟩
          | inr hn =>
            simp at hn; subst hn
            exact ⟨k, by simp⟩
        · cases x with
          | none => trivial
          | some p =>
            obtain ⟨k0, t0, n0⟩ := p
            obtain ⟨h1, h2, h3⟩ := hh
            have hkk : k0 ≠ k := by intro e'; subst e'; exact hr h1
            refine ⟨h1, by simp only [hkk, if_false]; exact h2, fun e he => ?_⟩
            have he' : e ∈ w0.heap ++ [(⟨d, tk, w0.counter⟩ : Entry)] := he
            rw [List.mem_append] at he'
            cases he' with
            | inl ho => exact h3 e ho
            | inr hn =>
              simp at hn; subst hn
              have := hg.1 k0 t0 n0 h2
              show w0.counter ≠ n0
              omega

/-! ### source- and dispatcher-level registration -/

macro "wk_step" x:term:max k:term:max : tactic => `(tactic| first
  | exact ki_of_keeps (keeps_pure _ _)
  | exact ki_of_keeps (keeps_throw _ _)
  | exact ki_of_keeps (keeps_get _)
  | exact ki_timerRegister $x $k _
  | exact ki_timerUnregister $x $k
  | (refine ki_of_keeps (keeps_of_frameW ?_ (WKP $x $k)); intro _; fw_lemma)
  | (refine ki_of_keeps (keeps_of_frameW ?_ (WKP $x $k)); apply fw_customLoop; intro j f; exact fw_genReregister _ _ _)
  | (refine ki_of_keeps (keeps_of_frameW ?_ (WKP $x $k)); apply fw_customLoop; intro j f c; repeat fw_step)
  | (apply ki_bind)
  | (apply ki_catchErr)
  | (apply ki_ite)
  | (intro _)
  | split)

macro "wc0_step" x:term:max : tactic => `(tactic| first
  | exact ki_of_keeps (keeps_pure _ _)
  | exact ki_of_keeps (keeps_throw _ _)
  | exact ki_of_keeps (keeps_get _)
  | (refine ki_of_keeps (keeps_of_frameW ?_ (WCbP $x)); intro _; fw_lemma)
  | (refine ki_of_keeps (keeps_modify _ _ ?_); intro s h; exact h)
  | (refine ki_of_keeps (keeps_emit _ _ ?_); intro s h; exact h)
  | (apply ki_bind)
  | (apply ki_catchErr)
  | (apply ki_ite)
  | (intro _)
  | split)

theorem ki_srcRegister (x : CbX) (k : Nat) (f : Factory) : KeepsI (srcRegister k f) (WK x k) := by
  unfold srcRegister; repeat wk_step x k
theorem ki_srcReregister (x : CbX) (k : Nat) (f : Factory) : KeepsI (srcReregister k f) (WK x k) := by
  unfold srcReregister; repeat wk_step x k
theorem ki_srcUnregister (x : CbX) (k : Nat) : KeepsI (srcUnregister k) (WK x k) := by
  unfold srcUnregister; repeat wk_step x k

open Verif.Inv.Ctl in
theorem wc_dRegister (x : CbX) (k : Nat) (tok : Tok) : KeepsI (dRegister k tok) (WCb x) := by
  constructor
  unfold dRegister
  apply hoare_bind (fun a s => WCb x s ∧ a = s) hoare_get
  intro s0
  dsimp only
  split
  · apply hoare_bind (fun _ _ => False) (hoare_throwPanic _)
    intro _ s h; exact h.elim
  · rename_i hrun
    have hne : s0.running ≠ some k := by simpa using hrun
    apply hoare_bind (fun _ => WCb x)
    · exact hoare_conseq (ki_srcRegister x k _).h (fun s h => ⟨h.1, by rw [← h.2]; exact hne⟩) (fun _ _ h => h.1) (fun _ h => h.1)
    intro _
    exact (show KeepsI _ (WCb x) by repeat wc0_step x).h

open Verif.Inv.Ctl in
theorem wc_dReregister (x : CbX) (k : Nat) (tok : Tok) : KeepsI (dReregister k tok) (WCb x) := by
  constructor
  unfold dReregister
  apply hoare_bind (fun a s => WCb x s ∧ a = s) hoare_get
  intro s0
  dsimp only
  split
  · exact hoare_pure _ (fun _ h => h.1)
  · rename_i hrun
    have hne : s0.running ≠ some k := by simpa using hrun
    apply hoare_bind (fun _ => WCb x)
    · exact hoare_conseq (ki_srcReregister x k _).h (fun s h => ⟨h.1, by rw [← h.2]; exact hne⟩) (fun _ _ h => h.1) (fun _ h => h.1)
    intro _
    exact (show KeepsI _ (WCb x) by repeat wc0_step x).h

open Verif.Inv.Ctl in
theorem wc_dUnregister (x : CbX) (k : Nat) (tok : Tok) : KeepsI (dUnregister k tok) (WCb x) := by
  constructor
  unfold dUnregister
  apply hoare_bind (fun a s => WCb x s ∧ a = s) hoare_get
  intro s0
  dsimp only
  split
  · exact hoare_pure _ (fun _ h => h.1)
  · rename_i hrun
    have hne : s0.running ≠ some k := by simpa using hrun
    apply hoare_bind (fun _ => WCb x)
    · exact hoare_conseq (ki_catchErr (ki_srcUnregister x k)).h (fun s h => ⟨h.1, by rw [← h.2]; exact hne⟩) (fun _ _ h => h.1) (fun _ h => h.1)
    intro _
    exact (show KeepsI _ (WCb x) by repeat wc0_step x).h

/-! ### everything a callback can do keeps the invariant (`x`: the timer whose callback is running, if any) -/

abbrev KeepsW (x : CbX) {α} (m : M α) : Prop := KeepsI m (WCb x)

syntax "wc_lemma" : tactic
macro_rules | `(tactic| wc_lemma) => `(tactic| fail "no lemma applies")
macro_rules | `(tactic| wc_lemma) => `(tactic| with_reducible exact wc_dRegister _ _ _)
macro_rules | `(tactic| wc_lemma) => `(tactic| with_reducible exact wc_dReregister _ _ _)
macro_rules | `(tactic| wc_lemma) => `(tactic| with_reducible exact wc_dUnregister _ _ _)

macro "wc_step" x:term:max : tactic => `(tactic| first
  | exact ki_of_keeps (keeps_pure _ _)
  | exact ki_of_keeps (keeps_throw _ _)
  | exact ki_of_keeps (keeps_get _)
  | wc_lemma
  | (refine ki_of_keeps (keeps_of_frameW ?_ (WCbP $x)); intro _; fw_lemma)
  | (refine ki_of_keeps (keeps_modify _ _ ?_); intro s h; exact h)
  | (refine ki_of_keeps (keeps_emit _ _ ?_); intro s h; exact h)
  | (apply ki_bind)
  | (apply ki_catchErr)
  | (apply ki_forEachM)
  | (apply ki_ite)
  | (intro _)
  | split)

theorem wc_doInsert (x : CbX) (k : Nat) (keep : Bool) : KeepsW x (doInsert k keep) := by unfold doInsert; repeat wc_step x
macro_rules | `(tactic| wc_lemma) => `(tactic| with_reducible exact wc_doInsert _ _ _)

theorem wc_doRemove (x : CbX) (o : COp) (k : Nat) : KeepsW x (doRemove o k) := by unfold doRemove; repeat wc_step x
macro_rules | `(tactic| wc_lemma) => `(tactic| with_reducible exact wc_doRemove _ _ _)

/-- a fresh id: the new object holds no registration -/
theorem wcb_new (x : CbX) (s : St) (k : Nat) (v : Src) (hv : v.treg = none) (h : WCb x s) (hk : alookup s.srcs k = none) :
    WCb x { s with srcs := aset s.srcs k v } := by
  show WCbP x (s.wheel, tm { s with srcs := aset s.srcs k v }, s.reEnabled, s.running)
  rw [tm_aset]
  have hnone : tm s k = none := by simp [tm, hk]
  cases h with
  | inl hf => exact Or.inl hf
  | inr hg =>
    have hg : Good s.wheel (tm s) ∧ Hold x s.wheel (tm s) s.running := hg
    refine Or.inr ⟨⟨fun k' t' n' hk' => ?_, hg.1.2.1, fun e he => ?_⟩, ?_⟩
    · by_cases hkk : k' = k
      · subst hkk; simp [hv] at hk'
      · simp only [hkk, if_false] at hk'; exact hg.1.1 k' t' n' hk'
    · obtain ⟨k', hk'⟩ := hg.1.2.2 e he
      have hkk : k' ≠ k := by intro e'; subst e'; rw [hnone] at hk'; cases hk'
      exact ⟨k', by simp only [hkk, if_false]; exact hk'⟩
    · cases x with
      | none => trivial
      | some p =>
        obtain ⟨k0, t0, n0⟩ := p
        obtain ⟨h1, h2, h3⟩ := hg.2
        have hkk : k0 ≠ k := by intro e'; subst e'; rw [hnone] at h2; cases h2
        exact ⟨h1, by simp only [hkk, if_false]; exact h2, h3⟩

open Verif.Inv.Ctl in
theorem hoare_setSrc_neww (x : CbX) (k : Nat) (v : Src) (hv : v.treg = none) :
    Hoare (fun s => WCb x s ∧ alookup s.srcs k = none) (setSrc k v) (fun _ => WCb x) (WCb x) := by
  unfold setSrc
  apply hoare_modify
  intro s ⟨h, hk⟩
  exact wcb_new x s k v hv h hk

open Verif.Inv.Ctl in
theorem hoare_neww (x : CbX) (o : COp) (k : Nat) (h : isNew o = some k) :
    Hoare (fun s => WCb x s ∧ alookup s.srcs k = none) (execC' o) (fun _ => WCb x) (WCb x) := by
  cases o <;> simp only [isNew, Option.some.injEq, reduceCtorEq] at h <;> subst h <;> unfold execC'
  case newPing => exact hoare_setSrc_neww x _ _ rfl
  case newTimer => exact hoare_setSrc_neww x _ _ rfl
  case newChan => exact hoare_setSrc_neww x _ _ rfl
  case newSync => exact hoare_setSrc_neww x _ _ rfl
  case newGen =>
    apply hoare_bind (fun a s => (WCb x s ∧ alookup s.srcs _ = none) ∧ a = s) hoare_get
    intro s0
    split
    · exact hoare_conseq (hoare_setSrc_neww x _ _ rfl) (fun _ h => h.1) (fun _ _ h => h) (fun _ h => h)
    · exact hoare_conseq (hoare_of_keeps (keeps_of_frameW (fw_emit _) (WCbP x))) (fun _ h => h.1.1) (fun _ _ h => h) (fun _ h => h)
  case newCustom =>
    apply hoare_bind (fun _ s => WCb x s ∧ alookup s.srcs _ = none)
    · apply hoare_modify
      intro s h
      exact h
    · intro _
      exact hoare_setSrc_neww x _ _ rfl

theorem wc_tokenOp (x : CbX) (o : COp) (k : Nat) (body : Nat → Tok → M Unit) (hb : ∀ d t, KeepsW x (body d t)) :
    KeepsW x (tokenOp o k body) := by
  unfold tokenOp
  repeat (first | exact hb _ _ | wc_step x)

theorem wc_execCore (x : CbX) (o : COp) (h : isNew o = none) : KeepsW x (execC' o) := by
  cases o <;> simp only [isNew, reduceCtorEq] at h <;> unfold execC' <;>
    repeat (first | (apply wc_tokenOp; intro d t) | wc_step x)

open Verif.Inv.Ctl in
theorem wc_execC (x : CbX) (o : COp) : KeepsW x (execC o) := by
  unfold execC
  apply ki_bind (by repeat wc_step x)
  intro _
  cases hn : isNew o with
  | none => exact wc_execCore x o hn
  | some k =>
    constructor
    simp only
    apply hoare_bind (fun a s => WCb x s ∧ a = s) hoare_get
    intro s0
    split
    · exact hoare_conseq (hoare_of_keeps (keeps_of_frameW (fw_emit _) (WCbP x))) (fun _ h => h.1) (fun _ _ h => h) (fun _ h => h)
    · rename_i hnone
      apply hoare_bind (fun _ s => WCb x s ∧ alookup s.srcs k = none)
      · apply hoare_modify
        intro s ⟨hs, he⟩
        subst he
        refine ⟨hs, ?_⟩
        show alookup s0.srcs k = none
        cases hl : alookup s0.srcs k with
        | none => rfl
        | some v => simp [hl] at hnone
      · intro _
        exact hoare_neww x o k hn
macro_rules | `(tactic| wc_lemma) => `(tactic| with_reducible exact wc_execC _ _)

theorem wc_runCb (x : CbX) (k : Nat) (p : Payload) : KeepsW x (runCb k p) := by unfold runCb; repeat wc_step x
macro_rules | `(tactic| wc_lemma) => `(tactic| with_reducible exact wc_runCb _ _ _)
theorem wc_retPA (x : CbX) (r : Loop.Ret) : KeepsW x (retPA r) := by cases r <;> unfold retPA <;> repeat wc_step x
macro_rules | `(tactic| wc_lemma) => `(tactic| with_reducible exact wc_retPA _ _)
theorem wc_genGate (x : CbX) (k j : Nat) (ev : Event) : KeepsW x (genGate k j ev) := by unfold genGate; repeat wc_step x
macro_rules | `(tactic| wc_lemma) => `(tactic| with_reducible exact wc_genGate _ _ _ _)

theorem wc_pingPE (x : CbX) {α} (k : Nat) (ev : Event) (body : M α) (hb : KeepsW x body) : KeepsW x (pingPE k ev body) := by
  unfold pingPE; repeat (first | exact hb | wc_step x)

theorem wc_chanDrain (x : CbX) (k n : Nat) : KeepsW x (chanDrain k n) := by
  induction n with
  | zero => unfold chanDrain; repeat wc_step x
  | succ n ih => unfold chanDrain; repeat (first | exact ih | wc_step x)
macro_rules | `(tactic| wc_lemma) => `(tactic| with_reducible exact wc_chanDrain _ _ _)

theorem wc_customPE (x : CbX) (k : Nat) (ev : Event) (n j : Nat) (acc : PA) : KeepsW x (customPE k ev n j acc) := by
  induction n generalizing j acc with
  | zero => unfold customPE; repeat wc_step x
  | succ n ih => unfold customPE; repeat (first | exact ih _ _ | wc_step x)
macro_rules | `(tactic| wc_lemma) => `(tactic| with_reducible exact wc_customPE _ _ _ _ _ _)

/-! ### a timer fires -/

theorem timerFires_some (src : Src) (key : Tok) (w : Wheel) (t : Tok) (c : Nat) (d : Int)
    (h : timerFires src key w = some (t, c, d)) : src.treg = some (t, c) ∧ ∀ e ∈ w.heap, e.counter ≠ c := by
  unfold timerFires at h
  split at h
  · rename_i t' c' d' hr hd
    split at h
    · cases h
    · split at h
      · cases h
      · rename_i hany
        injection h with h
        injection h with h1 h2
        injection h2 with h2 h3
        subst h1; subst h2
        refine ⟨hr, fun e he hc => hany ?_⟩
        exact List.any_eq_true.mpr ⟨e, he, by simp [hc]⟩
  · cases h

theorem wcb_weaken (x : CbX) (s : St) (h : WCb x s) : WOk s := by
  cases h with
  | inl hf => exact Or.inl hf
  | inr hg => exact Or.inr ⟨hg.1, trivial⟩

/-- the popped counter goes back into the wheel (`insert_reuse`): still the arming of the timer that fired -/
theorem wok_reinsert (s : St) (k : Nat) (t : Tok) (c : Nat) (i : Int) (h : WCb (some (k, t, c)) s) :
    WOk { s with wheel := insertReuse s.wheel c i t } := by
  cases h with
  | inl hf => exact Or.inl hf
  | inr hg =>
    have hg : Good s.wheel (tm s) ∧ Hold (some (k, t, c)) s.wheel (tm s) s.running := hg
    obtain ⟨_, h2, h3⟩ := hg.2
    refine Or.inr ⟨⟨hg.1.1, ?_, fun e he => ?_⟩, trivial⟩
    · show (s.wheel.heap ++ [(⟨i, t, c⟩ : Entry)]).Pairwise _
      rw [List.pairwise_append]
      refine ⟨hg.1.2.1, List.pairwise_singleton _ _, fun a ha b hb => ?_⟩
      simp at hb; subst hb
      exact h3 a ha
    · have he' : e ∈ s.wheel.heap ++ [(⟨i, t, c⟩ : Entry)] := he
      rw [List.mem_append] at he'
      cases he' with
      | inl ho => exact hg.1.2.2 e ho
      | inr hn => simp at hn; subst hn; exact ⟨k, h2⟩

open Verif.Inv.Ctl in
theorem hoare_processEventsInner (k : Nat) (ev : Event) :
    Hoare (fun s => WOk s ∧ s.running = some k) (processEventsInner k ev) (fun _ => WOk) WOk := by
  unfold processEventsInner
  apply hoare_bind _ (hoare_getSrc_w k _)
  intro o
  cases o with
  | none => exact hoare_pure _ (fun _ h => h.1.1)
  | some src =>
    simp only
    cases hkind : src.kind <;> simp only
    case timer =>
      apply hoare_bind (fun a s => ((WOk s ∧ s.running = some k) ∧ some src = alookup s.srcs k) ∧ a = s) hoare_get
      intro s0
      cases hf : timerFires src ev.key s0.wheel with
      | none => exact hoare_pure _ (fun _ h => h.1.1.1)
      | some p =>
        obtain ⟨t, c, d⟩ := p
        simp only
        obtain ⟨hreg, hno⟩ := timerFires_some src ev.key s0.wheel t c d hf
        apply hoare_bind (fun _ => WCb (some (k, t, c)))
        · refine hoare_conseq (wc_runCb (some (k, t, c)) k _).h (fun s h => ?_) (fun _ _ h => h) (fun s h => wcb_weaken _ s h)
          obtain ⟨⟨⟨hw, hr⟩, hsrc⟩, he⟩ := h
          subst he
          cases hw with
          | inl hfl => exact Or.inl hfl
          | inr hg => exact Or.inr ⟨hg.1, hr, show tm s0 k = _ by rw [tm_some s0 k src hsrc.symm, hreg], hno⟩
        intro r
        split
        · apply hoare_bind (fun _ => WOk)
          · apply hoare_modify
            intro s h
            exact wok_reinsert s k t c _ h
          intro _
          exact (show KeepsI _ WOk by repeat wc_step none).h
        · exact hoare_conseq (show KeepsI _ (WCb (some (k, t, c))) by repeat wc_step (some (k, t, c))).h (fun _ h => h)
            (fun _ s h => wcb_weaken _ s h) (fun s h => wcb_weaken _ s h)
        · exact hoare_pure _ (fun s h => wcb_weaken _ s h)
    all_goals
      exact hoare_conseq (KeepsI.h (P := WOk) (by
        repeat (first
          | (apply wc_pingPE; first | exact wc_runCb _ _ _ | exact wc_chanDrain _ _ _)
          | wc_step none))) (fun _ h => h.1.1) (fun _ _ h => h) (fun _ h => h)

/-! ### the dispatch machinery -/

open Verif.Inv.Ctl in
theorem wc_processEvents (k : Nat) (ev : Event) : KeepsW none (processEvents k ev) := by
  constructor
  intro s hs
  have hs1 : WOk { s with running := some k, log := s.log ++ [.pe k] } ∧
      ({ s with running := some k, log := s.log ++ [.pe k] } : St).running = some k := ⟨hs, rfl⟩
  have hin := hoare_processEventsInner k ev _ hs1
  simp only [processEvents, bind, EStateM.bind, modify, modifyGet, MonadStateOf.modifyGet, EStateM.modifyGet, emit,
    tryCatch, tryCatchThe, MonadExceptOf.tryCatch, EStateM.tryCatch, pure, EStateM.pure]
  cases h : processEventsInner k ev { s with running := some k, log := s.log ++ [.pe k] } with
  | ok a s' =>
    rw [h] at hin
    simp only [EStateM.bind, EStateM.modifyGet, EStateM.pure]
    exact hin
  | error e s' =>
    rw [h] at hin
    cases e with
    | err e =>
      simp only [EStateM.bind, EStateM.modifyGet, throw, throwThe, MonadExceptOf.throw, EStateM.throw,
        EStateM.Backtrackable.restore, EStateM.dummyRestore]
      exact hin
    | panic p =>
      simp [EStateM.bind, EStateM.modifyGet, throw, throwThe, MonadExceptOf.throw, EStateM.throw,
        EStateM.Backtrackable.restore, EStateM.dummyRestore]
macro_rules | `(tactic| wc_lemma) => `(tactic| with_reducible exact wc_processEvents _ _)

theorem wc_beforeSleep (tok : Tok) : KeepsW none (beforeSleep tok) := by unfold beforeSleep; repeat wc_step none
macro_rules | `(tactic| wc_lemma) => `(tactic| with_reducible exact wc_beforeSleep _)
theorem wc_beforeHandle (evs : List Event) (tok : Tok) : KeepsW none (beforeHandle evs tok) := by unfold beforeHandle; repeat wc_step none
macro_rules | `(tactic| wc_lemma) => `(tactic| with_reducible exact wc_beforeHandle _ _)

theorem wc_processOne (ev : Event) : KeepsW none (processOne ev) := by
  unfold processOne; repeat (first | wc_step none | dsimp only)
macro_rules | `(tactic| wc_lemma) => `(tactic| with_reducible exact wc_processOne _)

theorem wc_batchLoop (l : List Event) (first : Option Err) : KeepsW none (batchLoop l first) := by
  induction l generalizing first with
  | nil => unfold batchLoop; repeat wc_step none
  | cons ev rest ih => unfold batchLoop; repeat (first | exact ih _ | wc_step none)
macro_rules | `(tactic| wc_lemma) => `(tactic| with_reducible exact wc_batchLoop _ _)

theorem wok_pop (s : St) (now : Int) (n : Nat) (h : WOk s) : WOk { s with wheel := (popExpired s.wheel now n).2 } := by
  cases h with
  | inl hf => exact Or.inl hf
  | inr hg =>
    obtain ⟨h1, h2⟩ := popExpired_sublist s.wheel now n
    exact Or.inr ⟨good_sub _ _ _ hg.1 h1 h2, trivial⟩

theorem wc_dispatchEvents : KeepsW none dispatchEvents := by
  unfold dispatchEvents
  repeat (first
    | (refine ki_of_keeps (keeps_modify _ _ ?_); intro s h; exact wok_pop s _ _ h)
    | wc_step none | dsimp only)
theorem wc_runIdle (p : Nat × Nat) : KeepsW none (runIdle p) := by unfold runIdle; repeat wc_step none
macro_rules | `(tactic| wc_lemma) => `(tactic| with_reducible exact wc_runIdle _)
theorem wc_dispatchIdles : KeepsW none dispatchIdles := by unfold dispatchIdles; repeat wc_step none
theorem wc_dispatch : KeepsW none dispatch := by
  unfold dispatch
  repeat (first | exact wc_dispatchEvents | exact wc_dispatchIdles | wc_step none)
theorem wc_snapshot : KeepsW none snapshot := by unfold snapshot; repeat wc_step none
theorem wc_execTop (o : Op) : KeepsW none (execTop o) := by
  cases o <;> unfold execTop <;> repeat (first | exact wc_dispatch | exact wc_snapshot | wc_step none)


theorem wc_step_ok (s : St) (o : Op) (h : WOk s ∨ s.aborted = true) : WOk (step s o) ∨ (step s o).aborted = true := by
  unfold step
  by_cases ha : s.aborted = true
  · rw [if_pos ha]; exact Or.inr ha
  · rw [if_neg ha]
    have hs : WOk s := by cases h with | inl h => exact h | inr h => exact absurd h ha
    have := (wc_execTop o).h s hs
    cases hx : execTop o s with
    | ok a s' => rw [hx] at this; exact Or.inl this
    | error e s' =>
      rw [hx] at this
      cases e with
      | err e => exact Or.inl this
      | panic p => exact Or.inr rfl



theorem run_wOk (ops : List Op) : WOk (run ops) ∨ (run ops).aborted = true := by
  unfold run
  have : ∀ (l : List Op) (s : St), (WOk s ∨ s.aborted = true) → (WOk (l.foldl step s) ∨ (l.foldl step s).aborted = true) := by
    intro l
    induction l with
    | nil => intro s h; exact h
    | cons o l ih => intro s h; exact ih _ (wc_step_ok s o h)
  refine this ops {} (Or.inl (Or.inr ⟨⟨?_, List.Pairwise.nil, ?_⟩, trivial⟩))
  · intro k t n hk; simp [prW, tm, alookup] at hk
  · intro e he; simp [prW] at he

/-- **After every history** of operations, callback programs, failures and dispatches that was not aborted by a panic and
    in which no timer still holding a registration was registered again (`reEnabled`: `enable` of a timer that is not
    disabled): the counters of the entries in the wheel are pairwise distinct — the hypothesis of `cancel_final` … -/
theorem wheel_counters_distinct (ops : List Op) (hab : (run ops).aborted = false) (hre : (run ops).reEnabled = false) :
    (run ops).wheel.heap.Pairwise (fun a b => a.counter ≠ b.counter) := by
  cases (run_wOk ops).resolve_right (by simp [hab]) with
  | inl hf => simp [prW, hre] at hf
  | inr hg => exact hg.1.2.1

/-- … and every entry in the wheel is the current arming of some timer object: cancelled, fired and replaced armings
    leave nothing behind (no residue that accumulates with use). -/
theorem wheel_has_no_residue (ops : List Op) (hab : (run ops).aborted = false) (hre : (run ops).reEnabled = false) :
    ∀ e ∈ (run ops).wheel.heap, ∃ k src, alookup (run ops).srcs k = some src ∧ src.treg = some (e.tok, e.counter) := by
  intro e he
  cases (run_wOk ops).resolve_right (by simp [hab]) with
  | inl hf => simp [prW, hre] at hf
  | inr hg =>
    obtain ⟨k, hk⟩ := hg.1.2.2 e he
    obtain ⟨v, hv, hr⟩ := tm_exists (run ops) k _ hk
    exact ⟨k, v, hv, hr⟩

/-- two entries of the wheel never belong to the same timer object -/
theorem one_entry_per_timer (ops : List Op) (hab : (run ops).aborted = false) (hre : (run ops).reEnabled = false)
    (i j : Nat) (a b : Entry) (k : Nat) (src : Src)
    (ha : (run ops).wheel.heap[i]? = some a) (hb : (run ops).wheel.heap[j]? = some b)
    (hk : alookup (run ops).srcs k = some src)
    (hra : src.treg = some (a.tok, a.counter)) (hrb : src.treg = some (b.tok, b.counter)) : i = j := by
  have hp := wheel_counters_distinct ops hab hre
  have hc : a.counter = b.counter := by
    rw [hra] at hrb; injection hrb with h; injection h
  by_cases hne : i = j
  · exact hne
  exfalso
  rcases Nat.lt_or_gt_of_ne hne with hlt | hgt
  · have := List.pairwise_iff_getElem.mp hp i j (List.getElem?_eq_some_iff.mp ha).1 (List.getElem?_eq_some_iff.mp hb).1 hlt
    rw [(List.getElem?_eq_some_iff.mp ha).2, (List.getElem?_eq_some_iff.mp hb).2] at this
    exact this hc
  · have := List.pairwise_iff_getElem.mp hp j i (List.getElem?_eq_some_iff.mp hb).1 (List.getElem?_eq_some_iff.mp ha).1 hgt
    rw [(List.getElem?_eq_some_iff.mp ha).2, (List.getElem?_eq_some_iff.mp hb).2] at this
    exact this hc.symm

end Verif.Inv.WheelInv
