/- Inductive invariants of `ExecProto` (C10): the arithmetic wake invariant and the per-task list invariant. -/
import Verif.Model.ExecProto

namespace Verif.Inv.ExecProto
open Verif.ExecProto

/-- a wake-up of the loop is pending -/
def W (s : St) : Prop :=
  s.counter ≥ 2 ∨ s.toWake > 0 ∨ s.loop = 1 ∨ s.loop = 2

def InvA (s : St) : Prop :=
  s.qlen = s.queue.length ∧
  s.notified ≤ 1 ∧ s.reg ≤ 1 ∧ s.loop ≤ 4 ∧ s.clear ≤ 1 ∧ s.alive ≤ 1 ∧ s.budget ≥ 1 ∧
  (s.notified = 1 → W s) ∧
  (s.reg = 1 → s.qlen > 0 → s.swp > 0 ∨ W s ∨ s.loop = 3 ∨ (s.loop = 4 ∧ s.clear = 0)) ∧
  s.nSched = s.qlen + s.enq.length ∧
  (s.loop ≠ 0 → s.reg = 1) ∧
  (s.alive = 0 → s.qlen = 0 ∧ s.reg = 0 ∧ s.enq.length = 0) ∧
  (s.reg = 0 → s.alive = 0) ∧
  (s.loop = 3 → s.clear = 0)

macro "closeArith" : tactic => `(tactic| first
  | omega
  | (simp only [true_or, or_true, true_and, and_true, true_implies, implies_true, ne_eq, not_true_eq_false, not_false_eq_true,
       false_or, or_false, false_and, and_false, false_implies, List.length_nil, List.length_cons, List.length_append] <;> omega)
  | (split <;> omega)
  | (simp <;> omega)
  | simp)

theorem invA_init (b : Nat) (hb : b ≥ 1) : InvA { budget := b } := by
  simp [InvA, W]; omega

set_option maxHeartbeats 800000 in
theorem invA_wakeWrite (s s' : St) (h : InvA s) (hs : step s (.wakeWrite) = some s') : InvA s' := by
  unfold InvA W at h ⊢
  simp only [step] at hs
  (repeat' split at hs) <;> simp only [Option.some.injEq, reduceCtorEq] at hs <;> (try subst hs) <;>
  simp only [List.length_append, List.length_cons, List.length_nil] <;>
  (refine ⟨?_, ?_, ?_, ?_, ?_, ?_, ?_, ?_, ?_, ?_, ?_, ?_, ?_, ?_⟩) <;> closeArith

set_option maxHeartbeats 800000 in
theorem invA_swapFlag (s s' : St) (h : InvA s) (hs : step s (.swapFlag) = some s') : InvA s' := by
  unfold InvA W at h ⊢
  simp only [step] at hs
  (repeat' split at hs) <;> simp only [Option.some.injEq, reduceCtorEq] at hs <;> (try subst hs) <;>
  simp only [List.length_append, List.length_cons, List.length_nil] <;>
  (refine ⟨?_, ?_, ?_, ?_, ?_, ?_, ?_, ?_, ?_, ?_, ?_, ?_, ?_, ?_⟩) <;> closeArith

set_option maxHeartbeats 800000 in
theorem invA_loopPoll (s s' : St) (h : InvA s) (hs : step s (.loopPoll) = some s') : InvA s' := by
  unfold InvA W at h ⊢
  simp only [step] at hs
  (repeat' split at hs) <;> simp only [Option.some.injEq, reduceCtorEq] at hs <;> (try subst hs) <;>
  simp only [List.length_append, List.length_cons, List.length_nil] <;>
  (refine ⟨?_, ?_, ?_, ?_, ?_, ?_, ?_, ?_, ?_, ?_, ?_, ?_, ?_, ?_⟩) <;> closeArith

set_option maxHeartbeats 800000 in
theorem invA_loopDrain (s s' : St) (h : InvA s) (hs : step s (.loopDrain) = some s') : InvA s' := by
  unfold InvA W at h ⊢
  simp only [step] at hs
  (repeat' split at hs) <;> simp only [Option.some.injEq, reduceCtorEq] at hs <;> (try subst hs) <;>
  simp only [List.length_append, List.length_cons, List.length_nil] <;>
  (refine ⟨?_, ?_, ?_, ?_, ?_, ?_, ?_, ?_, ?_, ?_, ?_, ?_, ?_, ?_⟩) <;> closeArith

set_option maxHeartbeats 800000 in
theorem invA_loopClear (s s' : St) (h : InvA s) (hs : step s (.loopClear) = some s') : InvA s' := by
  unfold InvA W at h ⊢
  simp only [step] at hs
  (repeat' split at hs) <;> simp only [Option.some.injEq, reduceCtorEq] at hs <;> (try subst hs) <;>
  simp only [List.length_append, List.length_cons, List.length_nil] <;>
  (refine ⟨?_, ?_, ?_, ?_, ?_, ?_, ?_, ?_, ?_, ?_, ?_, ?_, ?_, ?_⟩) <;> closeArith

set_option maxHeartbeats 800000 in
theorem invA_loopBudgetOut (s s' : St) (h : InvA s) (hs : step s (.loopBudgetOut) = some s') : InvA s' := by
  unfold InvA W at h ⊢
  simp only [step] at hs
  (repeat' split at hs) <;> simp only [Option.some.injEq, reduceCtorEq] at hs <;> (try subst hs) <;>
  simp only [List.length_append, List.length_cons, List.length_nil] <;>
  (refine ⟨?_, ?_, ?_, ?_, ?_, ?_, ?_, ?_, ?_, ?_, ?_, ?_, ?_, ?_⟩) <;> closeArith

set_option maxHeartbeats 800000 in
theorem invA_loopPost (s s' : St) (h : InvA s) (hs : step s (.loopPost) = some s') : InvA s' := by
  unfold InvA W at h ⊢
  simp only [step] at hs
  (repeat' split at hs) <;> simp only [Option.some.injEq, reduceCtorEq] at hs <;> (try subst hs) <;>
  simp only [List.length_append, List.length_cons, List.length_nil] <;>
  (refine ⟨?_, ?_, ?_, ?_, ?_, ?_, ?_, ?_, ?_, ?_, ?_, ?_, ?_, ?_⟩) <;> closeArith

set_option maxHeartbeats 800000 in
theorem invA_schedule (s s' : St) (h : InvA s) (hs : step s (.schedule) = some s') : InvA s' := by
  unfold InvA W at h ⊢
  simp only [step] at hs
  (repeat' split at hs) <;> simp only [Option.some.injEq, reduceCtorEq] at hs <;> (try subst hs) <;>
  simp only [List.length_append, List.length_cons, List.length_nil] <;>
  (refine ⟨?_, ?_, ?_, ?_, ?_, ?_, ?_, ?_, ?_, ?_, ?_, ?_, ?_, ?_⟩) <;> closeArith

set_option maxHeartbeats 800000 in
theorem invA_wake (s s' : St) (t : Nat) (h : InvA s) (hs : step s (.wake t) = some s') : InvA s' := by
  unfold InvA W at h ⊢
  simp only [step] at hs
  (repeat' split at hs) <;> simp only [Option.some.injEq, reduceCtorEq] at hs <;> (try subst hs) <;>
  simp only [List.length_append, List.length_cons, List.length_nil] <;>
  (refine ⟨?_, ?_, ?_, ?_, ?_, ?_, ?_, ?_, ?_, ?_, ?_, ?_, ?_, ?_⟩) <;> closeArith

set_option maxHeartbeats 800000 in
theorem invA_enqueue (s s' : St) (t : Nat) (h : InvA s) (hs : step s (.enqueue t) = some s') : InvA s' := by
  unfold InvA W at h ⊢
  simp only [step] at hs
  split at hs <;> simp only [Option.some.injEq, reduceCtorEq] at hs
  rename_i hc
  subst hs
  have hlen := List.length_erase_of_mem hc
  have hpos : 0 < s.enq.length := List.length_pos_of_mem hc
  simp only [List.length_append, List.length_cons, List.length_nil, hlen]
  (refine ⟨?_, ?_, ?_, ?_, ?_, ?_, ?_, ?_, ?_, ?_, ?_, ?_, ?_, ?_⟩) <;> closeArith

set_option maxHeartbeats 800000 in
theorem invA_loopDequeue (s s' : St) (r : Bool) (h : InvA s) (hs : step s (.loopDequeue r) = some s') : InvA s' := by
  unfold InvA W at h ⊢
  simp only [step] at hs
  split at hs
  · cases hq : s.queue with
    | cons t rest =>
      simp only [hq, Option.some.injEq] at hs
      subst hs
      have hl : s.queue.length = rest.length + 1 := by rw [hq]; rfl
      simp only [List.length_append, List.length_cons, List.length_nil]
      (refine ⟨?_, ?_, ?_, ?_, ?_, ?_, ?_, ?_, ?_, ?_, ?_, ?_, ?_, ?_⟩) <;> closeArith
    | nil =>
      have hl : s.queue.length = 0 := by rw [hq]; rfl
      simp only [hq, Option.some.injEq] at hs
      subst hs
      simp only [List.length_append, List.length_cons, List.length_nil]
      (refine ⟨?_, ?_, ?_, ?_, ?_, ?_, ?_, ?_, ?_, ?_, ?_, ?_, ?_, ?_⟩) <;> closeArith
  · simp at hs

set_option maxHeartbeats 800000 in
theorem invA_dropExecutor (s s' : St) (h : InvA s) (hs : step s .dropExecutor = some s') : InvA s' := by
  unfold InvA W at h ⊢
  simp only [step] at hs
  split at hs <;> simp only [Option.some.injEq, reduceCtorEq] at hs
  rename_i hc
  subst hs
  have he : s.enq.length = 0 := by rw [hc.2.2]; rfl
  simp only [List.length_append, List.length_cons, List.length_nil]
  (refine ⟨?_, ?_, ?_, ?_, ?_, ?_, ?_, ?_, ?_, ?_, ?_, ?_, ?_, ?_⟩) <;> closeArith

theorem invA_step (s s' : St) (a : Act) (h : InvA s) (hs : step s a = some s') : InvA s' := by
  cases a with
  | schedule => exact invA_schedule s s' h hs
  | wake t => exact invA_wake s s' t h hs
  | enqueue t => exact invA_enqueue s s' t h hs
  | swapFlag => exact invA_swapFlag s s' h hs
  | wakeWrite => exact invA_wakeWrite s s' h hs
  | loopPoll => exact invA_loopPoll s s' h hs
  | loopDrain => exact invA_loopDrain s s' h hs
  | loopClear => exact invA_loopClear s s' h hs
  | loopDequeue r => exact invA_loopDequeue s s' r h hs
  | loopBudgetOut => exact invA_loopBudgetOut s s' h hs
  | loopPost => exact invA_loopPost s s' h hs
  | dropExecutor => exact invA_dropExecutor s s' h hs

theorem invA_reach (b : Nat) (hb : b ≥ 1) (s : St) (h : Reach b s) : InvA s := by
  induction h with
  | init => exact invA_init b hb
  | step a _ hs ih => exact invA_step _ _ a ih hs

end Verif.Inv.ExecProto
