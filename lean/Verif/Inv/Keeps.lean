/-
A small invariant-preservation calculus for the model's monad `M = EStateM Exc St`:
`Keeps x P` — running `x` from a state satisfying `P` ends (normally or by an exception, the state
persists either way) in a state satisfying `P`.
-/
import Verif.Model.Loop

namespace Verif.Inv
open Verif.Loop

/-- the state after running `x` from `s`, whether it returned or threw -/
def after {α} (x : M α) (s : St) : St :=
  match x s with
  | .ok _ s' => s'
  | .error _ s' => s'

structure Keeps {α} (x : M α) (P : St → Prop) : Prop where
  h : ∀ s, P s → P (after x s)

theorem keeps_pure {α} (a : α) (P : St → Prop) : Keeps (pure a : M α) P := ⟨fun _ h => h⟩

theorem keeps_throw {α} (e : Exc) (P : St → Prop) : Keeps (throw e : M α) P := ⟨fun _ h => h⟩

theorem keeps_get (P : St → Prop) : Keeps (get : M St) P := ⟨fun _ h => h⟩

theorem keeps_modify (f : St → St) (P : St → Prop) (hf : ∀ s, P s → P (f s)) :
    Keeps (modify f : M Unit) P := ⟨fun s h => hf s h⟩

theorem keeps_bind {α β} (x : M α) (f : α → M β) (P : St → Prop)
    (hx : Keeps x P) (hf : ∀ a, Keeps (f a) P) : Keeps (x >>= f) P := by
  constructor
  intro s h
  have h1 := hx.h s h
  simp only [after, bind, EStateM.bind] at *
  cases hxs : x s with
  | ok a s' =>
    rw [hxs] at h1
    have := (hf a).h s' h1
    simpa [after] using this
  | error e s' => rw [hxs] at h1; exact h1

theorem keeps_tryCatch {α} (x : M α) (hnd : Exc → M α) (P : St → Prop)
    (hx : Keeps x P) (hh : ∀ e, Keeps (hnd e) P) : Keeps (tryCatch x hnd) P := by
  constructor
  intro s h
  have h1 := hx.h s h
  simp only [after, tryCatch, tryCatchThe, MonadExceptOf.tryCatch, EStateM.tryCatch] at *
  cases hxs : x s with
  | ok a s' => rw [hxs] at h1; simpa using h1
  | error e s' =>
    rw [hxs] at h1
    have := (hh e).h s' h1
    simpa [after, EStateM.Backtrackable.restore, EStateM.dummyRestore] using this

theorem keeps_ite {α} (c : Prop) [Decidable c] (x y : M α) (P : St → Prop)
    (hx : Keeps x P) (hy : Keeps y P) : Keeps (if c then x else y) P := by
  split <;> assumption

theorem keeps_emit (o : Obs) (P : St → Prop) (h : ∀ s, P s → P { s with log := s.log ++ [o] }) :
    Keeps (emit o) P := keeps_modify _ _ h

theorem keeps_forEachM {α} (l : List α) (f : α → M Unit) (P : St → Prop) (hf : ∀ a, Keeps (f a) P) :
    Keeps (forEachM l f) P := by
  induction l with
  | nil => exact keeps_pure _ _
  | cons a as ih => exact keeps_bind _ _ _ (hf a) (fun _ => ih)

theorem keeps_catchErr {α} (x : M α) (P : St → Prop) (hx : Keeps x P) : Keeps (catchErr x) P := by
  unfold catchErr
  apply keeps_tryCatch
  · exact keeps_bind _ _ _ hx (fun _ => keeps_pure _ _)
  · intro e; cases e <;> first | exact keeps_pure _ _ | exact keeps_throw _ _

end Verif.Inv
