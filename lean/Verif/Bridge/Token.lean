/-
Bridge: the definitions regenerated from `src/token.rs` on this run
(`Verif.Generated.TokenSrc`) compute the same functions as the hand-written
model `Verif.Token` that the theorems are about.  If the Rust arithmetic is
changed so that it no longer is a pack/unpack of three fields of widths
(32, BITS_VERSION, BITS_SUBID), one of these lemmas stops checking.
-/
import Verif.Model.Token
import Verif.Generated.TokenSrc

namespace Verif.Bridge.Token
open Verif.Token
open Verif.Generated

abbrev bV : Nat := TokenSrc.BITS_VERSION
abbrev bS : Nat := TokenSrc.BITS_SUBID

def toGen (t : Tok) : TokenSrc.TokenInner := { id := t.id, version := t.ver, sub_id := t.sub }
def ofGen (t : TokenSrc.TokenInner) : Tok := { id := t.id, ver := t.version, sub := t.sub_id }

@[simp] theorem ofGen_toGen (t : Tok) : ofGen (toGen t) = t := rfl
@[simp] theorem toGen_ofGen (t : TokenSrc.TokenInner) : toGen (ofGen t) = t := rfl

/-- The field widths fit the Rust field types and the 64-bit key. -/
theorem widths_ok :
    bV ≤ TokenSrc.FIELD_BITS_VERSION ∧ bS ≤ TokenSrc.FIELD_BITS_SUBID ∧
    TokenSrc.FIELD_BITS_ID = 32 ∧ 32 + bV + bS ≤ 64 := by decide

theorem mask_version : TokenSrc.MASK_VERSION = 2 ^ bV - 1 := by decide
theorem mask_subid : TokenSrc.MASK_SUBID = 2 ^ bS - 1 := by decide

private theorem tok_eq {a b c a' b' c' : Nat} (h1 : a = a') (h2 : b = b') (h3 : c = c') :
    Tok.mk a b c = Tok.mk a' b' c' := by subst h1 h2 h3; rfl

private theorem and_mask (n k : Nat) : n &&& (2 ^ k - 1) = n % 2 ^ k :=
  Nat.and_two_pow_sub_one_eq_mod n k

theorem from_usize_eq (k : Nat) : ofGen (TokenSrc.from_usize k) = unpack bV bS k := by
  have h1 : TokenSrc.MASK_SUBID = 2 ^ 16 - 1 := by decide
  have h2 : TokenSrc.MASK_VERSION = 2 ^ 16 - 1 := by decide
  simp only [TokenSrc.from_usize, ofGen, unpack, h1, h2, and_mask, Nat.shiftRight_eq_div_pow,
    bV, bS, TokenSrc.BITS_VERSION, TokenSrc.BITS_SUBID]
  apply tok_eq <;> omega

theorem to_usize_eq (t : Tok) (h : t.wf bV bS) : TokenSrc.to_usize (toGen t) = pack bV bS t := by
  obtain ⟨h1, h2, h3⟩ := h
  simp only [bV, bS, TokenSrc.BITS_VERSION, TokenSrc.BITS_SUBID] at h2 h3
  simp only [TokenSrc.to_usize, toGen, pack, Nat.shiftLeft_eq, bV, bS,
    TokenSrc.BITS_VERSION, TokenSrc.BITS_SUBID]
  omega

theorem increment_version_eq (t : Tok) :
    ofGen (TokenSrc.increment_version (toGen t)) = incVersion bV t := by
  have h2 : TokenSrc.MASK_VERSION % 2 ^ 16 = 2 ^ 16 - 1 := by decide
  simp only [TokenSrc.increment_version, toGen, ofGen, incVersion, h2, and_mask,
    bV, TokenSrc.BITS_VERSION]
  apply tok_eq <;> omega

theorem increment_sub_id_eq (t : Tok) (h : t.wf bV bS) :
    (TokenSrc.increment_sub_id (toGen t)).map ofGen = incSubId? bS t := by
  have h2 : TokenSrc.MASK_SUBID % 2 ^ 16 = 65535 := by decide
  obtain ⟨_, _, h3⟩ := h
  simp only [bS, TokenSrc.BITS_SUBID] at h3
  simp [TokenSrc.increment_sub_id, toGen, incSubId?, h2, bS, TokenSrc.BITS_SUBID, ofGen]
  by_cases hc : t.sub + 1 < 65536
  · have : t.sub ≤ 65534 := by omega
    simp [hc, this]
  · have : ¬ t.sub ≤ 65534 := by omega
    simp [hc, this]

theorem forget_sub_id_eq (t : Tok) : ofGen (TokenSrc.forget_sub_id (toGen t)) = forgetSub t := rfl

theorem same_source_as_eq (a b : Tok) :
    TokenSrc.same_source_as (toGen a) (toGen b) = sameSource a b := rfl

theorem new_eq (id : Nat) : (TokenSrc.new id).map ofGen = new? id := by
  simp only [TokenSrc.new, new?]
  split <;> rfl

end Verif.Bridge.Token
