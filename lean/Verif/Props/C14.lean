/-
C14 — before_sleep / before_handle_events: once per dispatch, in order, right events.

Mechanism theorems about the additional-lifecycle set (a list walked once per hook and per
dispatch): registration is idempotent and keeps the list duplicate-free (finding F1 was the
absence of this), unregistration removes the token and nothing else; synthetic events carry the
source's own key; `before_handle_events` is given polled events of the source only.
-/
import Verif.Inv.Kernel
import Verif.Model.Loop
import Verif.Inv.Life
import Verif.Inv.LifeInv
import Verif.Inv.OwnInv

namespace Verif.Props.C14
open Verif.Loop Verif.Token Verif.Kernel

theorem register_idempotent (l : List Tok) (t : Tok) : lifeRegister (lifeRegister l t) t = lifeRegister l t :=
  Verif.Inv.Kernel.lifeRegister_idem l t

theorem register_keeps_nodup (l : List Tok) (t : Tok) (h : l.Nodup) : (lifeRegister l t).Nodup :=
  Verif.Inv.Kernel.lifeRegister_nodup l t h

theorem register_mem (l : List Tok) (t x : Tok) : x ∈ lifeRegister l t ↔ x ∈ l ∨ x = t :=
  Verif.Inv.Kernel.lifeRegister_mem l t x

theorem unregister_mem (l : List Tok) (t x : Tok) : x ∈ lifeUnregister l t ↔ x ∈ l ∧ x ≠ t :=
  Verif.Inv.Kernel.lifeUnregister_mem l t x

theorem unregister_keeps_nodup (l : List Tok) (t : Tok) (h : l.Nodup) : (lifeUnregister l t).Nodup :=
  Verif.Inv.Kernel.lifeUnregister_nodup l t h

/-- a duplicate-free list is walked once per token: each hook is called exactly once per listed source -/
theorem walk_once (l : List Tok) (h : l.Nodup) (t : Tok) (ht : t ∈ l) : l.count t = 1 := by
  induction l with
  | nil => simp at ht
  | cons a as ih =>
    rw [List.nodup_cons] at h
    by_cases hat : a = t
    · subst hat
      have : as.count a = 0 := List.count_eq_zero.mpr h.1
      simp [this]
    · have hmem : t ∈ as := by
        cases ht with
        | head => exact absurd rfl hat
        | tail _ h' => exact h'
      have hne : (a == t) = false := by simpa using hat
      simp [List.count_cons, hne, ih h.2 hmem]

/-- `before_handle_events` sees only events whose key belongs to the source (`same_source_as`) -/
theorem bhe_filter_own (evs : List Event) (tok : Tok) :
    ∀ e ∈ evs.filter (fun e => sameSource e.key tok), sameSource e.key tok = true := by
  intro e he; simp only [List.mem_filter] at he; exact he.2

/-! ### the whole loop -/

/-- **After every history** of operations (top level, callbacks, idle callbacks), failed registrations, removals, slot
    reuse and dispatches, the additional-lifecycle set holds every token at most once (finding F1 was a second entry) … -/
theorem lifecycle_set_duplicate_free (ops : List Op) : (run ops).life.Nodup := Verif.Inv.Life.run_life_nodup ops

/-- … so the walk over it in `dispatch_events` calls `before_sleep` / `before_handle_events` exactly once for each
    listed source -/
theorem hooks_once_per_listed_source (ops : List Op) (t : Tok) (ht : t ∈ (run ops).life) : (run ops).life.count t = 1 :=
  walk_once _ (lifecycle_set_duplicate_free ops) t ht

/-! ### the whole loop: no stale lifecycle entry -/

open Verif.Loop in
/-- **After every history** — callbacks removing, disabling, re-inserting (also into the slot just vacated), failing
    registrations, errors — not aborted by a panic, no generation wrapped: every token in the
    additional-lifecycle set resolves to an occupied slot whose source has lifecycle hooks … -/
theorem lifecycle_tokens_resolve (ops : List Op) (hab : (run ops).aborted = false)
    (hna : (run ops).aliased = false) :
    ∀ t ∈ (run ops).life, ∃ k, slotDisp (run ops) t = some k ∧ lifeFlag (run ops) k = true :=
  Verif.Inv.LifeInv.lifecycle_tokens_resolve ops hab hna (Verif.Inv.OwnInv.never_inserted_twice ops hab)

open Verif.Loop in
/-- … so the `before_sleep` walk that opens the next dispatch cannot reach `unreachable!()` … -/
theorem next_dispatch_before_sleep_does_not_panic (ops : List Op) (hab : (run ops).aborted = false)
    (hna : (run ops).aliased = false) :
    ¬ Verif.Inv.LifeInv.isUnreachable (forEachM (run ops).life beforeSleep (run ops)) :=
  Verif.Inv.LifeInv.next_before_sleep_walk_fine ops hab hna (Verif.Inv.OwnInv.never_inserted_twice ops hab)

open Verif.Loop in
/-- … nor can the `before_handle_events` walk, whatever the poll returned -/
theorem next_dispatch_before_handle_does_not_panic (ops : List Op) (evs : List Verif.Kernel.Event)
    (hab : (run ops).aborted = false) (hna : (run ops).aliased = false) :
    ¬ Verif.Inv.LifeInv.isUnreachable (forEachM (run ops).life (beforeHandle evs) (run ops)) :=
  Verif.Inv.LifeInv.next_before_handle_walk_fine ops evs hab hna (Verif.Inv.OwnInv.never_inserted_twice ops hab)

end Verif.Props.C14
