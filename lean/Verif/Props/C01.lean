/-
C01 — callbacks fire only for their own live registration and a real cause.

Mechanism theorems (for every slot table, token, kernel state): the generation-checked lookup of
the slot table never resolves a token of a previous generation or another slot; a slot that is
handed out for reuse is vacant; the poller only reports registered keys with requested readiness;
the `Generic` gate rejects every token but the one the source registered with.  The trace clauses
(callback only while inserted and enabled, payload = the real cause) are Spec.Core's C01 clauses,
evaluated on the real loop.
-/
import Verif.Inv.Slots
import Verif.Inv.Kernel
import Verif.Model.Loop
import Verif.Inv.TokInv
import Verif.Inv.OwnInv

namespace Verif.Props.C01
open Verif.Token Verif.Slots Verif.Kernel Verif.Loop

/-- an event is only ever routed to the slot whose index and generation its key carries -/
theorem lookup_sound (ss : Slots) (t : Tok) (s : Slot) (h : Slots.get ss t = some s) :
    ss[t.id]? = some s ∧ s.tok.id = t.id ∧ s.tok.ver = t.ver := Verif.Inv.Slots.get_sound ss t s h

/-- immediate reuse of a freed slot: keys of the previous occupant no longer resolve -/
theorem stale_key_unroutable (ss : Slots) (i : Nat) (t : Tok) (s : Slot)
    (hs : ss[i]? = some s) (ht : sameSource s.tok t = true) (hid : t.id = i)
    (hwf : s.tok.wf Verif.Bridge.Token.bV Verif.Bridge.Token.bS) :
    Slots.get (bumpAt Verif.Bridge.Token.bV ss i) t = none :=
  Verif.Inv.Slots.stale_after_bump ss i t s hs ht hid hwf

/-- reuse of one slot does not change how keys of other slots resolve -/
theorem reuse_frame (bV : Nat) (ss : Slots) (i : Nat) (t : Tok) (h : t.id ≠ i) :
    Slots.get (bumpAt bV ss i) t = Slots.get ss t := Verif.Inv.Slots.bump_other bV ss i t h

/-- only vacant slots are handed out for insertion -/
theorem insertion_slot_vacant (bV : Nat) (ss : Slots) :
    ∃ s, (vacantEntry bV ss).1[(vacantEntry bV ss).2]? = some s ∧ s.occ = none :=
  Verif.Inv.Slots.vacantEntry_vacant bV ss

/-- the poller reports only keys that are registered, and only readiness that was asked for -/
theorem poller_reports_registered (k : Kernel) :
    ∀ ev ∈ (epWait k).1, ∃ e ∈ k.ep, e.key = ev.key ∧ (ev.r = true → e.r = true) ∧ (ev.w = true → e.w = true) :=
  Verif.Inv.Kernel.epWait_sound k

/-- the `Generic` gate: an event whose token is not the one this source last registered with is dropped -/
theorem gate_own_token_only (g : Gen) (key : Tok) (h : g.gate key = true) : g.token = some key := by
  simpa [Gen.gate] using h

/-- sub-tokens of one source are told apart: the gate of sub-source `i` rejects the token of `j ≠ i` -/
theorem gate_rejects_sibling (g : Gen) (t : Tok) (i j : Nat) (hg : g.token = some { t with sub := i }) (hij : i ≠ j) :
    g.gate { t with sub := j } = false := by
  simp [Gen.gate, hg, hij]

/-! ### the whole loop -/

/-- **After every history** of operations, callback programs and dispatches — not aborted by a panic, no generation
    wrapped on the way (`aliased`, finding F12) —
    a registration token the user was handed resolves, if it resolves at all, to the source it was issued for. -/
theorem token_reaches_only_its_source (ops : List Verif.Loop.Op) (hab : (Verif.Loop.run ops).aborted = false)
    (hna : (Verif.Loop.run ops).aliased = false)
    (k : Nat) (tok : Verif.Token.Tok) (d : Nat) (hk : Verif.Loop.alookup (Verif.Loop.run ops).tokens k = some tok)
    (hd : Verif.Loop.slotDisp (Verif.Loop.run ops) tok = some d) : d = k :=
  Verif.Inv.TokInv.token_reaches_only_its_source ops hab hna (Verif.Inv.OwnInv.never_inserted_twice ops hab) k tok d hk hd

/-- … no dispatcher sits in two slots, and the user's token for the occupant of a slot is that slot's own token -/
theorem occupants_unique_and_known (ops : List Verif.Loop.Op) (hab : (Verif.Loop.run ops).aborted = false)
    (hna : (Verif.Loop.run ops).aliased = false) :
    Verif.Inv.TokInv.U (Verif.Loop.run ops).slots ∧
    Verif.Inv.TokInv.SP (Verif.Loop.run ops).slots (Verif.Loop.run ops).tokens none :=
  Verif.Inv.TokInv.occupants_unique_and_known ops hab hna (Verif.Inv.OwnInv.never_inserted_twice ops hab)

end Verif.Props.C01
