/-
C05 — timers: never early, deadline order, exactly once per arming, cancel is final.

Theorems about the timer wheel model (`Verif.Wheel`, mirror of `TimerWheel`): what one poll pops is
sorted, due, and complete; cancel removes the arming and nothing else; counters are fresh.  Over the
whole loop model (`Verif.Inv.WheelInv`): after every history the counters in the wheel are distinct and
every entry is the current arming of a timer — no residue.  The remaining per-arming clauses over whole
histories are decided by Spec.Core's C05 clauses on the real loop.
-/
import Verif.Inv.Wheel
import Verif.Inv.WheelInv

namespace Verif.Props.C05
open Verif.Wheel

/-- never early, in deadline order, nothing due left behind — for every wheel and every instant -/
theorem poll_pops_exactly_the_due_in_order (w : Wheel) (now : Int) :
    let r := popExpired w now w.heap.length
    (∀ e ∈ r.1, e.deadline ≤ now) ∧
    r.1.Pairwise (fun a b => a.deadline ≤ b.deadline) ∧
    (∀ x ∈ r.2.heap, now < x.deadline) := by
  have := Verif.Inv.Wheel.popExpired_spec w now w.heap.length
  exact ⟨this.1, this.2.1, this.2.2.2 (Nat.le_refl _)⟩

theorem next_expired_never_early (w : Wheel) (now : Int) (e : Entry) (w' : Wheel)
    (h : nextExpired w now = some (e, w')) : e.deadline ≤ now :=
  (Verif.Inv.Wheel.nextExpired_due w now e w' h).1

theorem next_expired_earliest (w : Wheel) (now : Int) (e : Entry) (w' : Wheel)
    (h : nextExpired w now = some (e, w')) : ∀ x ∈ w.heap, e.deadline ≤ x.deadline :=
  (Verif.Inv.Wheel.nextExpired_due w now e w' h).2.2.1

theorem nothing_due_when_none (w : Wheel) (now : Int) (h : nextExpired w now = none) :
    ∀ x ∈ w.heap, now < x.deadline := Verif.Inv.Wheel.nextExpired_none w now h

/-- a poll neither duplicates nor loses an arming: what it pops together with what it leaves is the heap it found -/
theorem poll_conserves_armings (w : Wheel) (now : Int) (fuel : Nat) :
    ((popExpired w now fuel).1 ++ (popExpired w now fuel).2.heap).Perm w.heap :=
  Verif.Inv.Wheel.popExpired_perm w now fuel

/-- exactly once per arming, for one poll: with distinct counters in the heap (true after every history:
    `wheel_counters_distinct`) no arming is popped twice and no popped arming is still in the heap afterwards -/
theorem poll_fires_each_arming_once (w : Wheel) (now : Int) (fuel : Nat)
    (huniq : w.heap.Pairwise (fun a b => a.counter ≠ b.counter)) :
    (popExpired w now fuel).1.Pairwise (fun a b => a.counter ≠ b.counter) ∧
    ∀ e ∈ (popExpired w now fuel).1, ∀ x ∈ (popExpired w now fuel).2.heap, e.counter ≠ x.counter := by
  have hp := (poll_conserves_armings w now fuel).symm
  have hsym : ∀ {a b : Entry}, a.counter ≠ b.counter → b.counter ≠ a.counter := fun h => Ne.symm h
  have := (hp.pairwise_iff (R := fun a b : Entry => a.counter ≠ b.counter) hsym).mp huniq
  rw [List.pairwise_append] at this
  exact ⟨this.1, this.2.2⟩

/-- "in the first dispatch that polls at or after the deadline": every arming that is due is popped by this poll … -/
theorem poll_pops_every_due_arming (w : Wheel) (now : Int) (x : Entry) (hx : x ∈ w.heap) (hd : x.deadline ≤ now) :
    x ∈ (popExpired w now w.heap.length).1 := by
  have hm := (poll_conserves_armings w now w.heap.length).symm.subset hx
  rcases List.mem_append.mp hm with h | h
  · exact h
  · have := (poll_pops_exactly_the_due_in_order w now).2.2 x h
    omega

/-- … and an arming that is not yet due stays armed -/
theorem poll_keeps_every_future_arming (w : Wheel) (now : Int) (fuel : Nat) (x : Entry) (hx : x ∈ w.heap) (hd : now < x.deadline) :
    x ∈ (popExpired w now fuel).2.heap := by
  have hm := (poll_conserves_armings w now fuel).symm.subset hx
  rcases List.mem_append.mp hm with h | h
  · have := (Verif.Inv.Wheel.popExpired_spec w now fuel).1 x h
    omega
  · exact h

/-- non-vacuity: three armings, two due (popped in deadline order), one kept -/
example : ((popExpired { heap := [⟨30, ⟨0, 0, 0⟩, 0⟩, ⟨90, ⟨1, 0, 0⟩, 1⟩, ⟨10, ⟨2, 0, 0⟩, 2⟩], counter := 3 } 50 3).1.map (·.counter) = [2, 0]) ∧
    ((popExpired { heap := [⟨30, ⟨0, 0, 0⟩, 0⟩, ⟨90, ⟨1, 0, 0⟩, 1⟩, ⟨10, ⟨2, 0, 0⟩, 2⟩], counter := 3 } 50 3).2.heap.map (·.counter) = [1]) := by decide

/-- cancel is final: no entry of the cancelled arming remains … -/
theorem cancel_final (w : Wheel) (c : Nat) (huniq : w.heap.Pairwise (fun a b => a.counter ≠ b.counter)) :
    ∀ x ∈ (cancel w c).heap, x.counter ≠ c := Verif.Inv.Wheel.cancel_removes w c huniq

/-- … and no other timer's arming is disturbed -/
theorem cancel_frame (w : Wheel) (c : Nat) (x : Entry) (hx : x ∈ w.heap) (hc : x.counter ≠ c) :
    x ∈ (cancel w c).heap := Verif.Inv.Wheel.cancel_keeps_others w c x hx hc

/-- … each as often as before: with distinct counters the wheel after `cancel c` is, as a multiset, the wheel
    without the entries of arming `c` — cancel neither duplicates nor drops another timer's arming -/
theorem cancel_exact (w : Wheel) (c : Nat) (huniq : w.heap.Pairwise (fun a b => a.counter ≠ b.counter)) :
    (cancel w c).heap.Perm (w.heap.filter (fun x => decide (x.counter ≠ c))) :=
  Verif.Inv.Wheel.cancel_perm w c huniq

theorem counters_fresh (w : Wheel) (d : Int) (t : Verif.Token.Tok) :
    (insert w d t).2 = w.counter ∧ (insert w d t).1.counter = w.counter + 1 := ⟨rfl, rfl⟩

/-- non-vacuity: a concrete wheel with an early and a late deadline -/
example : (popExpired { heap := [⟨5, default, 0⟩, ⟨1, default, 1⟩, ⟨9, default, 2⟩], counter := 3 } 6 3).1.map (·.deadline)
    = [1, 5] := by decide

/-! ### the whole loop -/

open Verif.Loop in
/-- **After every history** of operations, callback programs (re-arming with `ToInstant`, cancelling, removing,
    re-inserting …), failures and dispatches — not aborted by a panic, and in which `enable` was never applied to a
    timer that still held a registration (`reEnabled`, outside `enable`'s contract: see `enable_twice_leaves_residue`) —
    the counters of the armings in the wheel are pairwise distinct … -/
theorem wheel_counters_distinct (ops : List Op) (hab : (run ops).aborted = false) (hre : (run ops).reEnabled = false) :
    (run ops).wheel.heap.Pairwise (fun a b => a.counter ≠ b.counter) :=
  Verif.Inv.WheelInv.wheel_counters_distinct ops hab hre

open Verif.Loop in
/-- … so after every history, whenever the next poll happens, it pops each arming at most once and leaves none of
    the popped armings in the wheel (the hypothesis of `poll_fires_each_arming_once` holds) … -/
theorem poll_fires_once_in_every_reachable_state (ops : List Op) (hab : (run ops).aborted = false)
    (hre : (run ops).reEnabled = false) (now : Int) (fuel : Nat) :
    (popExpired (run ops).wheel now fuel).1.Pairwise (fun a b => a.counter ≠ b.counter) ∧
    ∀ e ∈ (popExpired (run ops).wheel now fuel).1, ∀ x ∈ (popExpired (run ops).wheel now fuel).2.heap, e.counter ≠ x.counter :=
  poll_fires_each_arming_once _ now fuel (wheel_counters_distinct ops hab hre)

open Verif.Loop in
/-- … and a cancellation in any reachable state leaves exactly the other armings -/
theorem cancel_exact_in_every_reachable_state (ops : List Op) (hab : (run ops).aborted = false)
    (hre : (run ops).reEnabled = false) (c : Nat) :
    (cancel (run ops).wheel c).heap.Perm ((run ops).wheel.heap.filter (fun x => decide (x.counter ≠ c))) :=
  cancel_exact _ c (wheel_counters_distinct ops hab hre)

open Verif.Loop in
/-- … so in every reachable state a cancellation is final (the hypothesis of `cancel_final` holds) … -/
theorem cancel_final_in_every_reachable_state (ops : List Op) (hab : (run ops).aborted = false)
    (hre : (run ops).reEnabled = false) (c : Nat) : ∀ x ∈ (cancel (run ops).wheel c).heap, x.counter ≠ c :=
  cancel_final _ c (wheel_counters_distinct ops hab hre)

open Verif.Loop in
/-- … every entry in the wheel is the current arming of some timer object: armings that were cancelled (remove,
    disable, re-registration), fired or replaced leave nothing behind … -/
theorem wheel_has_no_residue (ops : List Op) (hab : (run ops).aborted = false) (hre : (run ops).reEnabled = false) :
    ∀ e ∈ (run ops).wheel.heap, ∃ k src, alookup (run ops).srcs k = some src ∧ src.treg = some (e.tok, e.counter) :=
  Verif.Inv.WheelInv.wheel_has_no_residue ops hab hre

open Verif.Loop in
/-- … so whatever the next poll pops from the wheel reached by any history is due *and* is the current arming of a
    timer object that exists: a cancelled, fired or replaced arming cannot be what a later expiry comes from … -/
theorem poll_pops_only_live_due_armings (ops : List Op) (hab : (run ops).aborted = false)
    (hre : (run ops).reEnabled = false) (now : Int) (fuel : Nat) :
    ∀ e ∈ (popExpired (run ops).wheel now fuel).1, e.deadline ≤ now ∧
      ∃ k src, alookup (run ops).srcs k = some src ∧ src.treg = some (e.tok, e.counter) := by
  intro e he
  have hmem : e ∈ (run ops).wheel.heap :=
    (poll_conserves_armings (run ops).wheel now fuel).subset (List.mem_append_left _ he)
  exact ⟨(Verif.Inv.Wheel.popExpired_spec _ now fuel).1 e he, wheel_has_no_residue ops hab hre e hmem⟩

open Verif.Loop in
/-- … and no timer object has two entries: the wheel never grows beyond one entry per registered timer. -/
theorem one_entry_per_timer (ops : List Op) (hab : (run ops).aborted = false) (hre : (run ops).reEnabled = false)
    (i j : Nat) (a b : Entry) (k : Nat) (src : Src)
    (ha : (run ops).wheel.heap[i]? = some a) (hb : (run ops).wheel.heap[j]? = some b)
    (hk : alookup (run ops).srcs k = some src)
    (hra : src.treg = some (a.tok, a.counter)) (hrb : src.treg = some (b.tok, b.counter)) : i = j :=
  Verif.Inv.WheelInv.one_entry_per_timer ops hab hre i j a b k src ha hb hk hra hrb

open Verif.Loop in
/-- non-vacuity: two timers; the first re-arms itself from its callback (`ToInstant`), is disabled, re-enabled,
    re-deadlined with `update`; the second is removed before it fires.  The hypotheses hold, one entry is left. -/
def rearmCancelHistory : List Op :=
  [.c (.newTimer 1 (some 5)), .c (.insertd 1), .c (.newTimer 2 (some 50)), .c (.insert 2),
   .script 1 1 { ret := .toInstant 20 },
   .c (.advance 6), .dispatch,
   .c (.disable 1), .c (.enable 1), .c (.setDeadline 1 (some 30)), .c (.update 1),
   .c (.remove 2), .c (.advance 10), .dispatch]

open Verif.Loop in
example : (run rearmCancelHistory).aborted = false ∧ (run rearmCancelHistory).reEnabled = false ∧
    (run rearmCancelHistory).wheel.heap.length = 1 ∧
    (run rearmCancelHistory).log.contains (.cb 1 (.deadline 5)) = true := by decide +kernel

open Verif.Loop in
/-- why the hypothesis is there: `enable` of a timer that is not disabled registers it a second time (model and
    implementation agree, see DESIGN.md) — the first arming stays in the wheel. -/
def enableTwice : List Op := [.c (.newTimer 1 (some 5)), .c (.insertd 1), .c (.enable 1)]

open Verif.Loop in
theorem enable_twice_leaves_residue : (run enableTwice).reEnabled = true ∧ (run enableTwice).wheel.heap.length = 2 := by
  decide +kernel

end Verif.Props.C05
