/-
C05 — timers: never early, deadline order, exactly once per arming, cancel is final.

Theorems about the timer wheel model (`Verif.Wheel`, mirror of `TimerWheel`): what one poll pops is
sorted, due, and complete; cancel removes the arming and nothing else; counters are fresh.  The
per-arming clauses over whole histories are decided by Spec.Core's C05 clauses on the real loop.
-/
import Verif.Inv.Wheel

namespace Verif.Props.C05
open Verif.Wheel

/-- never early, in deadline order, nothing due left behind — for every wheel and every instant -/
theorem poll_pops_exactly_the_due_in_order (w : Wheel) (now : Int) :
    let r := popExpired w now w.heap.length
    (∀ e ∈ r.1, e.deadline ≤ now) ∧
    r.1.Pairwise (fun a b => a.deadline ≤ b.deadline) ∧
    (∀ x ∈ r.2.heap, now < x.deadline) := by
  have := Verif.Inv.Wheel.popExpired_spec w now w.heap.length
  exact ⟨this.1, this.2.1, this.2.2.2 (Nat.le_refl _)⟩

theorem next_expired_never_early (w : Wheel) (now : Int) (e : Entry) (w' : Wheel)
    (h : nextExpired w now = some (e, w')) : e.deadline ≤ now :=
  (Verif.Inv.Wheel.nextExpired_due w now e w' h).1

theorem next_expired_earliest (w : Wheel) (now : Int) (e : Entry) (w' : Wheel)
    (h : nextExpired w now = some (e, w')) : ∀ x ∈ w.heap, e.deadline ≤ x.deadline :=
  (Verif.Inv.Wheel.nextExpired_due w now e w' h).2.2.1

theorem nothing_due_when_none (w : Wheel) (now : Int) (h : nextExpired w now = none) :
    ∀ x ∈ w.heap, now < x.deadline := Verif.Inv.Wheel.nextExpired_none w now h

/-- cancel is final: no entry of the cancelled arming remains … -/
theorem cancel_final (w : Wheel) (c : Nat) (huniq : w.heap.Pairwise (fun a b => a.counter ≠ b.counter)) :
    ∀ x ∈ (cancel w c).heap, x.counter ≠ c := Verif.Inv.Wheel.cancel_removes w c huniq

/-- … and no other timer's arming is disturbed -/
theorem cancel_frame (w : Wheel) (c : Nat) (x : Entry) (hx : x ∈ w.heap) (hc : x.counter ≠ c) :
    x ∈ (cancel w c).heap := Verif.Inv.Wheel.cancel_keeps_others w c x hx hc

theorem counters_fresh (w : Wheel) (d : Int) (t : Verif.Token.Tok) :
    (insert w d t).2 = w.counter ∧ (insert w d t).1.counter = w.counter + 1 := ⟨rfl, rfl⟩

/-- non-vacuity: a concrete wheel with an early and a late deadline -/
example : (popExpired { heap := [⟨5, default, 0⟩, ⟨1, default, 1⟩, ⟨9, default, 2⟩], counter := 3 } 6 3).1.map (·.deadline)
    = [1, 5] := by decide

end Verif.Props.C05
