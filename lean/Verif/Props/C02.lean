/-
C02 — pending readiness is always dispatched (no lost or starved events).

Mechanism theorems about the poller model and the timer wheel: readiness that exists when an fd is
registered, or arrives later, puts the entry on the ready list; a ready level-triggered entry is
reported and goes back on the list (reported on every wait while ready); `Poll::poll` leaves no
expired timer behind; the channel's per-dispatch budget is never zero.  Over the whole loop model
(`Inv/ReadyQ.lean`, `Inv/LogMono.lean`): after every history every ready registration that is not
edge-triggered is reported by the next wait, and from every state an event whose token resolves
enters its source's `process_events`.  "Every source with a pending cause was called back by an Ok
dispatch" is Spec.Core's C02 clause on the real loop.
-/
import Verif.Inv.Kernel
import Verif.Inv.Wheel
import Verif.Generated.Consts
import Verif.Model.Loop
import Verif.Inv.LogMono

namespace Verif.Props.C02
open Verif.Kernel Verif.Wheel Verif.Token

/-- readiness that precedes registration is not lost: ADD of a readable fd queues it -/
theorem add_ready_is_queued (k k' : Kernel) (e : EpEntry) (h : epAdd k e = .ok k')
    (hr : e.r = true) (hc : counter k e.fd > 0) : e.fd ∈ k'.rdl := by
  unfold epAdd at h
  cases hent : entry? k e.fd with
  | some x => simp [hent] at h
  | none =>
    simp only [hent] at h
    have hready : (readyNow { k with ep := k.ep ++ [e] } e).1 = true := by
      simp only [readyNow, hr, Bool.true_and, decide_eq_true_eq]
      simpa [counter] using hc
    simp only [hready, Bool.true_or, if_true] at h
    injection h with h; subst h
    unfold enqueue
    split
    · rename_i hc'; simpa using hc'
    · simp

/-- a write to a registered, read-interested eventfd queues its entry -/
theorem write_queues (k : Kernel) (fd n : Nat) (e : EpEntry)
    (hent : entry? (setCounter k fd (counter k fd + n)) fd = some e) (hr : e.r = true) :
    fd ∈ (efdWrite k fd n).rdl := by
  simp only [efdWrite, hent, hr, if_true]
  unfold enqueue
  split
  · rename_i hc'; simpa using hc'
  · simp

/-- a queued, ready level entry is reported and stays queued for the next wait -/
theorem level_reported_every_wait (k : Kernel) (fd : Nat) (e : EpEntry) (rest : List Nat)
    (hent : entry? k fd = some e) (hmode : e.mode = .level)
    (hready : (readyNow k e).1 = true ∨ (readyNow k e).2 = true) :
    ∃ evs k', waitLoop k (fd :: rest) = (⟨e.key, (readyNow k e).1, (readyNow k e).2⟩ :: evs, k') :=
  Verif.Inv.Kernel.level_reported_and_requeued k fd e rest hent hmode hready

/-- no expired timer is left behind by a poll -/
theorem no_expired_timer_left (w : Wheel) (now : Int) :
    ∀ x ∈ (popExpired w now w.heap.length).2.heap, now < x.deadline :=
  (Verif.Inv.Wheel.popExpired_spec w now w.heap.length).2.2.2 (Nat.le_refl _)

/-- the channel's drain budget is at least one message for every capacity, and at most the batch limit -/
theorem channel_budget_bounds (cap : Nat) :
    1 ≤ Verif.Generated.Consts.channelBudget cap ∧
    Verif.Generated.Consts.channelBudget cap ≤ Verif.Generated.Consts.MAX_EVENTS_CHECK := by
  simp only [Verif.Generated.Consts.channelBudget, Verif.Generated.Consts.MAX_EVENTS_CHECK, Nat.min_def]
  constructor <;> split <;> split <;> omega

/-- an exhausted budget is reported as "neither empty nor closed", which is what makes the source
    ping itself again (`Channel::process_events`: "Re-notify the ping source so we can try again") -/
theorem drain_budget_exhausted (k : Nat) (s : Verif.Loop.St) :
    Verif.Loop.chanDrain k 0 s = .ok (false, false) s := rfl


/-! ### the whole loop -/

open Verif.Loop in
/-- **After every history** not aborted by a panic — registrations, re-registrations, disables, removals, failing
    calls, callbacks doing any of these — every entry of the poller table that is level-triggered or one-shot and ready
    for an interest it was registered with is reported by the next wait, with that readiness: between the moment
    readiness arises (or the registration, if readiness came first) and the next `epoll_wait`, nothing forgets it. -/
theorem ready_registration_is_reported (ops : List Op) (hab : (run ops).aborted = false) (e : EpEntry)
    (he : e ∈ (run ops).k.ep) (hm : e.mode ≠ .edge) (hr : Verif.Inv.ReadyQ.rdy (run ops).k e = true) :
    (⟨e.key, (readyNow (run ops).k e).1, (readyNow (run ops).k e).2⟩ : Event) ∈ (epWait (run ops).k).1 :=
  Verif.Inv.ReadyQ.ready_registration_is_reported ops hab e he hm hr

open Verif.Loop in
/-- the poller table never holds two entries for one fd -/
theorem one_entry_per_fd (ops : List Op) (hab : (run ops).aborted = false) : ((run ops).k.ep.map (·.fd)).Nodup :=
  Verif.Inv.ReadyQ.one_entry_per_fd ops hab

open Verif.Loop Verif.Inv.Ctl in
/-- **From every state**: an event of the batch whose token resolves, at its turn, to the source in slot `k` enters
    that source's `process_events` (observation `pe k`, appended to the log as it stood and never taken back) —
    whatever that callback and the post-processing then do.  With `C15.batch_processes_every_event` (the batch loop
    visits every event, errors or not) this is the dispatch half of "readiness reported is readiness dispatched". -/
theorem reported_event_enters_process_events (ev : Event) (k : Nat) (l : List Obs) :
    Hoare (fun s => slotDisp s (forgetSub ev.key) = some k ∧ s.log = l) (processOne ev)
      (fun _ s' => l ++ [.pe k] <+: s'.log) (fun s' => l ++ [.pe k] <+: s'.log) :=
  Verif.Inv.LogMono.processOne_enters ev k l

open Verif.Loop in
/-- **The whole batch, from every state**: when the batch loop returns (it returns errors as values; only a panic
    aborts it), every event of the batch either found its token dead at its turn — in the state `si` in which its turn
    began — or entered `process_events` of the source the token resolved to, `pe k` directly after the log as it stood
    then.  No event of the batch is skipped. -/
theorem every_event_of_the_batch_is_dispatched (evs : List Event) (first : Option Err) (s : St) :
    match batchLoop evs first s with
    | .ok _ s' => ∀ (i : Nat) (hi : i < evs.length), ∃ si : St, si.log <+: s'.log ∧
        (slotDisp si (forgetSub evs[i].key) = none ∨
         ∃ k, slotDisp si (forgetSub evs[i].key) = some k ∧ si.log ++ [.pe k] <+: s'.log)
    | .error _ _ => True :=
  Verif.Inv.LogMono.batch_enters_each evs first s

/-- non-vacuity: a ping source pinged while disabled and enabled again, a level generic source over a written fd —
    both sit ready in the table before the dispatch, and the wait reports two events -/
def readyHistory : List Verif.Loop.Op :=
  [.c (.newPing 1), .c (.insert 1), .c (.disable 1), .c (.ping 1), .c (.enable 1),
   .c (.fd 7), .c (.newGen 2 7 true false .level), .c (.insert 2), .c (.write 7 3)]

example : (Verif.Loop.run readyHistory).aborted = false ∧
    ((Verif.Loop.run readyHistory).k.ep.filter fun e => e.mode != .edge && Verif.Inv.ReadyQ.rdy (Verif.Loop.run readyHistory).k e).length = 2 ∧
    (epWait (Verif.Loop.run readyHistory).k).1.length = 2 := by decide +kernel

/-- why edge-triggered entries are outside the statement: reported once, then ready but no longer queued -/
example : let s := Verif.Loop.run [.c (.fd 7), .c (.newGen 2 7 true false .edge), .c (.insert 2), .c (.write 7 3), .dispatch]
    s.aborted = false ∧ (s.k.ep.filter fun e => Verif.Inv.ReadyQ.rdy s.k e).length = 1 ∧ (epWait s.k).1.length = 0 := by decide +kernel

end Verif.Props.C02
