/-
C02 — pending readiness is always dispatched (no lost or starved events).

Mechanism theorems about the poller model and the timer wheel: readiness that exists when an fd is
registered, or arrives later, puts the entry on the ready list; a ready level-triggered entry is
reported and goes back on the list (reported on every wait while ready); `Poll::poll` leaves no
expired timer behind; the channel's per-dispatch budget is never zero.  "Every source with a pending
cause was called back by an Ok dispatch" is Spec.Core's C02 clause on the real loop.
-/
import Verif.Inv.Kernel
import Verif.Inv.Wheel
import Verif.Generated.Consts
import Verif.Model.Loop

namespace Verif.Props.C02
open Verif.Kernel Verif.Wheel Verif.Token

/-- readiness that precedes registration is not lost: ADD of a readable fd queues it -/
theorem add_ready_is_queued (k k' : Kernel) (e : EpEntry) (h : epAdd k e = .ok k')
    (hr : e.r = true) (hc : counter k e.fd > 0) : e.fd ∈ k'.rdl := by
  unfold epAdd at h
  cases hent : entry? k e.fd with
  | some x => simp [hent] at h
  | none =>
    simp only [hent] at h
    have hready : (readyNow { k with ep := k.ep ++ [e] } e).1 = true := by
      simp only [readyNow, hr, Bool.true_and, decide_eq_true_eq]
      simpa [counter] using hc
    simp only [hready, Bool.true_or, if_true] at h
    injection h with h; subst h
    unfold enqueue
    split
    · rename_i hc'; simpa using hc'
    · simp

/-- a write to a registered, read-interested eventfd queues its entry -/
theorem write_queues (k : Kernel) (fd n : Nat) (e : EpEntry)
    (hent : entry? (setCounter k fd (counter k fd + n)) fd = some e) (hr : e.r = true) :
    fd ∈ (efdWrite k fd n).rdl := by
  simp only [efdWrite, hent, hr, if_true]
  unfold enqueue
  split
  · rename_i hc'; simpa using hc'
  · simp

/-- a queued, ready level entry is reported and stays queued for the next wait -/
theorem level_reported_every_wait (k : Kernel) (fd : Nat) (e : EpEntry) (rest : List Nat)
    (hent : entry? k fd = some e) (hmode : e.mode = .level)
    (hready : (readyNow k e).1 = true ∨ (readyNow k e).2 = true) :
    ∃ evs k', waitLoop k (fd :: rest) = (⟨e.key, (readyNow k e).1, (readyNow k e).2⟩ :: evs, k') :=
  Verif.Inv.Kernel.level_reported_and_requeued k fd e rest hent hmode hready

/-- no expired timer is left behind by a poll -/
theorem no_expired_timer_left (w : Wheel) (now : Int) :
    ∀ x ∈ (popExpired w now w.heap.length).2.heap, now < x.deadline :=
  (Verif.Inv.Wheel.popExpired_spec w now w.heap.length).2.2.2 (Nat.le_refl _)

/-- the channel's drain budget is at least one message for every capacity, and at most the batch limit -/
theorem channel_budget_bounds (cap : Nat) :
    1 ≤ Verif.Generated.Consts.channelBudget cap ∧
    Verif.Generated.Consts.channelBudget cap ≤ Verif.Generated.Consts.MAX_EVENTS_CHECK := by
  simp only [Verif.Generated.Consts.channelBudget, Verif.Generated.Consts.MAX_EVENTS_CHECK, Nat.min_def]
  constructor <;> split <;> split <;> omega

/-- an exhausted budget is reported as "neither empty nor closed", which is what makes the source
    ping itself again (`Channel::process_events`: "Re-notify the ping source so we can try again") -/
theorem drain_budget_exhausted (k : Nat) (s : Verif.Loop.St) :
    Verif.Loop.chanDrain k 0 s = .ok (false, false) s := rfl

end Verif.Props.C02
