/-
C19 — signals: signal-mask bookkeeping is exact; each pending signal reported once.

Theorems about `SigMask` for every sequence of new/add/remove/set/drop/raise/dispatch operations over
arbitrary sets of signals (the caller's initial mask is taken empty; signals are numbers).
-/
import Verif.Model.SigMask

namespace Verif.Props.C19
open Verif.SigMask

/-- bookkeeping invariant: with a live source exactly the configured signals are blocked and watched;
    without one nothing is blocked; a pending signal is always a blocked one -/
def Inv (st : St) : Prop :=
  (st.alive = true → ∀ s, st.blocked s = st.mask s ∧ st.sfd s = st.mask s) ∧
  (st.alive = false → ∀ s, st.blocked s = false) ∧
  (∀ s, st.pending s = true → st.blocked s = true)

theorem inv_init : Inv {} := by
  simp [Inv, SSet.empty]

/-- a `Signals` value is created once per history; `new` on a live source is not an operation -/
def wfOp (st : St) : Op → Prop
  | .new _ => st.alive = false
  | _ => True

theorem inv_step (bound : Nat) (st : St) (o : Op) (h : Inv st) (hw : wfOp st o) : Inv (step bound st o) := by
  obtain ⟨h1, h2, h3⟩ := h
  cases o with
  | new l =>
    have ha : st.alive = false := hw
    have hb := h2 ha
    refine ⟨fun _ s => ?_, fun hf => by simp [step, block] at hf, fun s hp => ?_⟩
    · simp [step, block, SSet.union, hb s]
    · have := h3 s (by simpa [step, block] using hp)
      simp [hb s] at this
  | add l =>
    by_cases ha : st.alive = true
    · have hb := h1 ha
      refine ⟨fun _ s => ?_, fun hf => by simp [step, ha, block] at hf, fun s hp => ?_⟩
      · simp only [step, ha, block, SSet.union, Bool.not_true, Bool.false_eq_true, if_false, (hb s).1]
        cases st.mask s <;> simp
      · have := h3 s (by simpa [step, ha, block] using hp)
        simp [step, ha, block, SSet.union, this]
    · have ha' : st.alive = false := by simpa using ha
      have e : step bound st (.add l) = st := by simp [step, ha']
      rw [e]; exact ⟨h1, h2, h3⟩
  | remove l =>
    by_cases ha : st.alive = true
    · have hb := h1 ha
      refine ⟨fun _ s => ?_, fun hf => by simp [step, ha, unblock] at hf, fun s hp => ?_⟩
      · simp [step, ha, unblock, SSet.diff, (hb s).1]
      · simp only [step, ha, unblock, SSet.diff, Bool.not_true, Bool.false_eq_true, if_false] at hp ⊢
        split at hp
        · simp at hp
        · rename_i hc
          have := h3 s hp
          simp only [this, Bool.and_true, Bool.not_eq_true] at hc
          simp [this, hc]
    · have ha' : st.alive = false := by simpa using ha
      have e : step bound st (.remove l) = st := by simp [step, ha']
      rw [e]; exact ⟨h1, h2, h3⟩
  | set l =>
    by_cases ha : st.alive = true
    · have hb := h1 ha
      refine ⟨fun _ s => ?_, fun hf => by simp [step, ha, unblock, block] at hf, fun s hp => ?_⟩
      · simp only [step, ha, unblock, block, SSet.diff, SSet.union, Bool.not_true, Bool.false_eq_true, if_false, (hb s).1]
        cases st.mask s <;> cases SSet.ofList l s <;> simp
      · simp only [step, ha, unblock, block, SSet.diff, SSet.union, Bool.not_true, Bool.false_eq_true, if_false] at hp ⊢
        split at hp
        · simp at hp
        · rename_i hc
          have hbl := h3 s hp
          simp only [hbl, Bool.true_or, Bool.and_true, Bool.and_eq_true, Bool.not_eq_true', not_and, Bool.not_eq_false] at hc
          cases hm : st.mask s <;> cases hl : SSet.ofList l s <;> simp_all
    · have ha' : st.alive = false := by simpa using ha
      have e : step bound st (.set l) = st := by simp [step, ha']
      rw [e]; exact ⟨h1, h2, h3⟩
  | dropSrc =>
    by_cases ha : st.alive = true
    · have hb := h1 ha
      refine ⟨fun hf => by simp [step, ha, unblock] at hf, fun _ s => ?_, fun s hp => ?_⟩
      · simp [step, ha, unblock, SSet.diff, (hb s).1]
      · simp only [step, ha, unblock, SSet.diff, Bool.not_true, Bool.false_eq_true, if_false] at hp ⊢
        split at hp
        · simp at hp
        · rename_i hc
          have hbl := h3 s hp
          simp only [hbl, Bool.and_true, Bool.not_eq_true] at hc
          have := (hb s).1
          simp_all
    · have ha' : st.alive = false := by simpa using ha
      have e : step bound st (.dropSrc) = st := by simp [step, ha']
      rw [e]; exact ⟨h1, h2, h3⟩
  | raise sig =>
    by_cases hbk : st.blocked sig = true
    · have e : step bound st (.raise sig) = { st with pending := fun x => if x == sig then true else st.pending x } := by
        simp [step, hbk]
      rw [e]
      refine ⟨fun ha s => h1 ha s, fun ha s => h2 ha s, fun s hp => ?_⟩
      simp only at hp ⊢
      split at hp
      · rename_i he; have : s = sig := by simpa using he
        subst this; exact hbk
      · exact h3 s hp
    · have hbk' : st.blocked sig = false := by simpa using hbk
      have e : step bound st (.raise sig) = { st with handled := fun x => if x == sig then st.handled x + 1 else st.handled x } := by
        simp [step, hbk']
      rw [e]
      exact ⟨fun ha s => h1 ha s, fun ha s => h2 ha s, fun s hp => h3 s hp⟩
  | raiseT sig =>
    by_cases hbk : st.blocked sig = true
    · have e : step bound st (.raiseT sig) = { st with pendingT := fun x => if x == sig then true else st.pendingT x } := by
        simp [step, hbk]
      rw [e]
      exact ⟨fun ha s => h1 ha s, fun ha s => h2 ha s, fun s hp => h3 s hp⟩
    · have hbk' : st.blocked sig = false := by simpa using hbk
      have e : step bound st (.raiseT sig) = { st with handled := fun x => if x == sig then st.handled x + 1 else st.handled x } := by
        simp [step, hbk']
      rw [e]
      exact ⟨fun ha s => h1 ha s, fun ha s => h2 ha s, fun s hp => h3 s hp⟩
  | dispatch =>
    by_cases ha : st.alive = true
    · refine ⟨fun _ s => by simpa [step, ha] using h1 ha s, fun hf => by simp [step, ha] at hf, fun s hp => ?_⟩
      simp only [step, ha, Bool.not_true, Bool.false_eq_true, if_false] at hp ⊢
      split at hp
      · simp at hp
      · exact h3 s hp
    · have ha' : st.alive = false := by simpa using ha
      have e : step bound st (.dispatch) = st := by simp [step, ha']
      rw [e]; exact ⟨h1, h2, h3⟩

/-- histories: one `new` at most while no source is alive -/
def WF (st : St) : List Op → Prop
  | [] => True
  | o :: os => wfOp st o ∧ ∀ bound, WF (step bound st o) os

theorem inv_run (bound : Nat) (st : St) (ops : List Op) (h : Inv st) (hw : WF st ops) : Inv (run bound st ops) := by
  induction ops generalizing st with
  | nil => exact h
  | cons o os ih =>
    simp only [run, List.foldl]
    exact ih (step bound st o) (inv_step bound st o h hw.1) (hw.2 bound)

/-- **Mask bookkeeping is exact** after any sequence of new/add/remove/set/raise/dispatch/drop: while
    the source lives, exactly the configured signals are blocked for the thread and watched by the
    signalfd; once it is dropped nothing stays blocked. -/
theorem mask_exact (bound : Nat) (ops : List Op) (hw : WF {} ops) :
    let st := run bound {} ops
    (st.alive = true → ∀ s, st.blocked s = st.mask s ∧ st.sfd s = st.mask s) ∧
    (st.alive = false → ∀ s, st.blocked s = false) := by
  have := inv_run bound {} ops inv_init hw
  exact ⟨this.1, this.2.1⟩

/-- **A pending instance of a signal that stays configured is kept** (not handed to the process
    handler, not lost) by every mask operation — `set_signals` included (finding F8's fix). -/
theorem pending_kept (bound : Nat) (st : St) (o : Op) (s : Nat) (ha : st.alive = true)
    (ho : (∃ l, o = .add l) ∨ (∃ l, o = .set l ∧ SSet.ofList l s = true) ∨ (∃ l, o = .remove l ∧ SSet.ofList l s = false))
    (hp : st.pending s = true) (hm : st.mask s = true) :
    (step bound st o).pending s = true ∧ (step bound st o).handled s = st.handled s := by
  rcases ho with ⟨l, rfl⟩ | ⟨l, rfl, hl⟩ | ⟨l, rfl, hl⟩
  · simp [step, ha, block, hp]
  · simp [step, ha, block, unblock, SSet.diff, hp, hl]
  · simp [step, ha, unblock, hp, hl]

/-- **Every pending instance of a configured signal is reported exactly once by a dispatch** — the instances queued
    for the thread first, then those queued for the process, each in ascending order; a signal pending in both queues
    is reported twice (two instances) — and none of them is pending afterwards. -/
theorem dispatch_reports_pending_once (bound : Nat) (st : St) (ha : st.alive = true) :
    let st' := step bound st .dispatch
    st'.reported = st.reported ++ readable st bound ∧
    (readable st bound = ((List.range bound).filter fun s => st.pendingT s && st.sfd s) ++
                          ((List.range bound).filter fun s => st.pending s && st.sfd s)) ∧
    ((List.range bound).filter fun s => st.pendingT s && st.sfd s).Nodup ∧
    ((List.range bound).filter fun s => st.pending s && st.sfd s).Nodup ∧
    (∀ s, (readable st bound).count s = (if s < bound ∧ st.pendingT s = true ∧ st.sfd s = true then 1 else 0) +
                                         (if s < bound ∧ st.pending s = true ∧ st.sfd s = true then 1 else 0)) ∧
    (∀ s, s ∈ readable st bound → st'.pending s = false ∧ st'.pendingT s = false) := by
  have hnd : ∀ (p : Nat → Bool), ((List.range bound).filter p).Nodup :=
    fun p => List.Pairwise.sublist List.filter_sublist List.nodup_range
  have hcount : ∀ (p : Nat → Bool) (s : Nat), ((List.range bound).filter p).count s = if s < bound ∧ p s = true then 1 else 0 := by
    intro p s
    rw [(hnd p).count]
    simp [List.mem_filter, List.mem_range]
  refine ⟨by simp [step, ha], rfl, hnd _, hnd _, ?_, ?_⟩
  · intro s
    unfold readable
    rw [List.count_append, hcount, hcount]
    simp [Bool.and_eq_true]
  · intro s hs
    simp [step, ha, hs]

/-- nothing but pending signals of the signalfd's mask is ever reported -/
theorem reports_only_configured (bound : Nat) (st : St) (o : Op) (s : Nat)
    (h : s ∈ (step bound st o).reported) : s ∈ st.reported ∨ ((st.pending s = true ∨ st.pendingT s = true) ∧ st.sfd s = true) := by
  cases o <;> simp only [step] at h
  case dispatch =>
    split at h
    · exact Or.inl h
    · simp only [List.mem_append] at h
      cases h with
      | inl h => exact Or.inl h
      | inr h =>
        right
        simp [readable, List.mem_filter] at h
        rcases h with h | h
        · exact ⟨Or.inr h.2.1, h.2.2⟩
        · exact ⟨Or.inl h.2.1, h.2.2⟩
  all_goals first
    | exact Or.inl h
    | (split at h <;> exact Or.inl h)
    | (repeat' split at h) <;> exact Or.inl h

/-- **Unconfigured signals keep their normal disposition**: raising a signal that is not blocked runs
    the process handler at once; it never becomes pending and is never reported. -/
theorem unconfigured_untouched (bound : Nat) (st : St) (s : Nat) (h : st.blocked s = false) :
    (step bound st (.raise s)).handled s = st.handled s + 1 ∧
    (step bound st (.raise s)).pending = st.pending ∧ (step bound st (.raise s)).reported = st.reported := by
  simp [step, h]

/-- raising a configured (blocked) signal makes it pending and does not run the handler; a second
    raise before the dispatch coalesces -/
theorem configured_becomes_pending (bound : Nat) (st : St) (s : Nat) (h : st.blocked s = true) :
    (step bound st (.raise s)).pending s = true ∧ (step bound st (.raise s)).handled s = st.handled s := by
  simp [step, h]

/-- a signal raised for the thread and for the process while it is configured is pending twice — two instances, both
    reported by the next dispatch -/
theorem two_routes_two_instances (bound : Nat) (st : St) (s : Nat) (ha : st.alive = true) (hb : st.blocked s = true)
    (hs : st.sfd s = true) (hlt : s < bound) :
    (readable (step bound (step bound st (.raise s)) (.raiseT s)) bound).count s = 2 := by
  have h := (dispatch_reports_pending_once bound (step bound (step bound st (.raise s)) (.raiseT s)) (by simp [step, hb, ha])).2.2.2.2.1 s
  rw [h]
  simp [step, hb, hs, hlt]

/-- dropping the source unblocks everything it had configured -/
theorem drop_unblocks (bound : Nat) (ops : List Op) (hw : WF {} ops)
    (ha : (run bound {} ops).alive = true) :
    ∀ s, (step bound (run bound {} ops) .dropSrc).blocked s = false := by
  have hi := inv_run bound {} ops inv_init hw
  intro s
  simp [step, ha, unblock, SSet.diff, (hi.1 ha s).1]

/-! ### non-vacuity -/

example : (run 64 {} [.new [10], .raise 10, .raise 10, .set [10, 12], .raise 12, .raise 17, .dispatch]).reported = [10, 12] := by
  decide

example : (run 64 {} [.new [10], .raise 10, .set [10, 12], .dispatch]).handled 10 = 0 := by decide

/-! ### signals the source was never told about -/

/-- does the operation name signal `x`? -/
def mentions (x : Nat) : Op → Bool
  | .new l | .add l | .remove l | .set l => l.contains x
  | .raise s | .raiseT s => s == x
  | _ => false

/-- **A signal no operation names is left exactly as it was** — blocked by the application, by another `Signals`
    source, or not at all: no step changes whether the thread blocks it, and it never becomes configured. -/
theorem foreign_step (bound : Nat) (st : St) (o : Op) (x : Nat) (hm : st.mask x = false) (hn : mentions x o = false) :
    (step bound st o).blocked x = st.blocked x ∧ (step bound st o).mask x = false := by
  cases o with
  | new l =>
    have : SSet.ofList l x = false := by simpa [mentions, SSet.ofList] using hn
    simp [step, block, SSet.union, this]
  | add l =>
    have : SSet.ofList l x = false := by simpa [mentions, SSet.ofList] using hn
    by_cases ha : st.alive = true <;> simp [step, ha, block, SSet.union, this, hm]
  | remove l =>
    have : SSet.ofList l x = false := by simpa [mentions, SSet.ofList] using hn
    by_cases ha : st.alive = true <;> simp [step, ha, unblock, SSet.diff, this, hm]
  | set l =>
    have : SSet.ofList l x = false := by simpa [mentions, SSet.ofList] using hn
    by_cases ha : st.alive = true <;> simp [step, ha, unblock, block, SSet.diff, SSet.union, this, hm]
  | dropSrc =>
    by_cases ha : st.alive = true <;> simp [step, ha, unblock, SSet.diff, SSet.empty, hm]
  | raise s =>
    by_cases hb : st.blocked s = true <;> simp [step, hb, hm]
  | raiseT s =>
    by_cases hb : st.blocked s = true <;> simp [step, hb, hm]
  | dispatch =>
    by_cases ha : st.alive = true <;> simp [step, ha, hm]

theorem foreign_untouched (bound : Nat) (ops : List Op) (st : St) (x : Nat) (hm : st.mask x = false)
    (hn : ∀ o ∈ ops, mentions x o = false) :
    (run bound st ops).blocked x = st.blocked x ∧ (run bound st ops).mask x = false := by
  induction ops generalizing st with
  | nil => exact ⟨rfl, hm⟩
  | cons o os ih =>
    have h1 := foreign_step bound st o x hm (hn o (List.mem_cons_self))
    have h2 := ih (step bound st o) h1.2 (fun o' ho' => hn o' (List.mem_cons_of_mem _ ho'))
    simp only [run, List.foldl] at h2 ⊢
    exact ⟨h2.1.trans h1.1, h2.2⟩

example : (run 64 { blocked := fun s => s == 23 } [.new [10, 12], .set [12], .remove [12], .dropSrc]).blocked 23 = true := by decide

end Verif.Props.C19
