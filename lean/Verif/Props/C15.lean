/-
C15 — failed registrations and failing sources leave the loop intact.

Mechanism theorems: handing out a slot and vacating it again leaves the number of occupied slots
unchanged and no other slot disturbed; the lifecycle set is only extended after a successful
source registration and is left even when unregistration fails (findings F2, F13); the batch loop
processes every event and reports the first error (finding F4's fix).  No-panic and "as if the call
had not been made" over whole histories are Spec.Core's C15 / C08 clauses on the real loop.
-/
import Verif.Inv.Slots
import Verif.Model.Loop
import Verif.Inv.LifeInv
import Verif.Inv.OwnInv
import Verif.Inv.FailIns

namespace Verif.Props.C15
open Verif.Token Verif.Slots Verif.Loop

theorem occupied_setOcc_roundtrip (ss : Slots) (i k : Nat) (s : Slot) (hs : ss[i]? = some s) (hv : s.occ = none) :
    occupied (setOcc (setOcc ss i (some k)) i none) = occupied ss :=
  Verif.Inv.Slots.occupied_setOcc_roundtrip ss i k s hs hv

theorem occupied_bumpAt (bV : Nat) (ss : Slots) (i : Nat) : occupied (bumpAt bV ss i) = occupied ss :=
  Verif.Inv.Slots.occupied_bumpAt bV ss i

/-- a failed insertion (slot handed out, then vacated) leaves the occupied count as it was -/
theorem failed_insert_leaks_no_slot (bV : Nat) (ss : Slots) (k : Nat) :
    let r := vacantEntry bV ss
    occupied (setOcc (setOcc r.1 r.2 (some k)) r.2 none) = occupied ss :=
  Verif.Inv.Slots.failed_insert_leaks_no_slot bV ss k

/-- … and does not disturb the lookup of any other slot -/
theorem failed_insert_frame (bV : Nat) (ss : Slots) (k : Nat) (t : Tok)
    (h : t.id ≠ (vacantEntry bV ss).2) (hlt : t.id < ss.length) :
    Slots.get (setOcc (setOcc (vacantEntry bV ss).1 (vacantEntry bV ss).2 (some k)) (vacantEntry bV ss).2 none) t
      = Slots.get ss t := by
  rw [Verif.Inv.Slots.setOcc_other _ _ _ _ h, Verif.Inv.Slots.setOcc_other _ _ _ _ h]
  unfold vacantEntry at h ⊢
  cases hv : firstVacant ss with
  | some i => simp only [hv] at h ⊢; exact Verif.Inv.Slots.bump_other bV ss i t h
  | none =>
    simp only [hv] at h ⊢
    unfold Slots.get
    rw [List.getElem?_append_left hlt]

/-- the batch loop goes through the whole batch whatever happens: its recursion does not look at errors -/
theorem batch_processes_every_event (ev : Verif.Kernel.Event) (rest : List Verif.Kernel.Event) (first : Option Err) :
    batchLoop (ev :: rest) first = (do
      let e ← processOne ev
      batchLoop rest (if first.isNone then e else first)) := rfl

/-- the first error is the one reported -/
theorem first_error_kept (e1 : Err) (e2 : Option Err) :
    (if (some e1).isNone then e2 else some e1) = some e1 := rfl

/-! ### the whole loop: no stale lifecycle entry -/

open Verif.Loop in
/-- **After every history** — callbacks removing, disabling, re-inserting (also into the slot just vacated), failing
    registrations, errors — not aborted by a panic, no generation wrapped: every token in the
    additional-lifecycle set resolves to an occupied slot whose source has lifecycle hooks … -/
theorem lifecycle_tokens_resolve (ops : List Op) (hab : (run ops).aborted = false)
    (hna : (run ops).aliased = false) :
    ∀ t ∈ (run ops).life, ∃ k, slotDisp (run ops) t = some k ∧ lifeFlag (run ops) k = true :=
  Verif.Inv.LifeInv.lifecycle_tokens_resolve ops hab hna (Verif.Inv.OwnInv.never_inserted_twice ops hab)

open Verif.Loop in
/-- … so the `before_sleep` walk that opens the next dispatch cannot reach `unreachable!()` … -/
theorem next_dispatch_before_sleep_does_not_panic (ops : List Op) (hab : (run ops).aborted = false)
    (hna : (run ops).aliased = false) :
    ¬ Verif.Inv.LifeInv.isUnreachable (forEachM (run ops).life beforeSleep (run ops)) :=
  Verif.Inv.LifeInv.next_before_sleep_walk_fine ops hab hna (Verif.Inv.OwnInv.never_inserted_twice ops hab)

open Verif.Loop in
/-- … nor can the `before_handle_events` walk, whatever the poll returned -/
theorem next_dispatch_before_handle_does_not_panic (ops : List Op) (evs : List Verif.Kernel.Event)
    (hab : (run ops).aborted = false) (hna : (run ops).aliased = false) :
    ¬ Verif.Inv.LifeInv.isUnreachable (forEachM (run ops).life (beforeHandle evs) (run ops)) :=
  Verif.Inv.LifeInv.next_before_handle_walk_fine ops evs hab hna (Verif.Inv.OwnInv.never_inserted_twice ops hab)

/-! ### a failed insertion, from every state -/

open Verif.Loop in
/-- **From every state of the model** (reachable or not) and for every source: an insertion whose registration fails
    leaves the lifecycle set, the timer wheel, the tokens handed out, the idle queue, the pending action and the
    synthetic events exactly as they were, and as many slots occupied as before — whatever the source did while it
    failed (partial sub-registrations, with or without roll-back). -/
theorem failed_insert_restores (k : Nat) (keep : Bool) (s : St) :
    match doInsert k keep s with
    | .ok _ s' => ∀ e, s'.log.getLast? = some (.ins k (.err e)) →
        (s'.life, s'.wheel, s'.tokens, s'.idles, s'.pending, s'.synth) = (s.life, s.wheel, s.tokens, s.idles, s.pending, s.synth) ∧
        occupied s'.slots = occupied s.slots
    | .error _ _ => True :=
  Verif.Inv.FailIns.failed_insert_restores k keep s

open Verif.Loop in
/-- non-vacuity: a lifecycle source with three sub-sources whose second registration fails and which does not roll
    back, inserted into a loop that already holds a lifecycle source, a timer and a queued idle -/
def beforeFailedInsert : List Op :=
  [.c (.newCustom 1 1 true), .c (.insert 1), .c (.newTimer 2 (some 9)), .c (.insert 2), .c (.idle 1),
   .c (.newCustom 3 3 true), .c (.plan 3 { regFail := some 1, rollback := false })]

open Verif.Loop in
def failedInsertWitness : Bool :=
  match doInsert 3 false (run beforeFailedInsert) with
  | .ok _ s' =>
    (match s'.log.getLast? with | some (.ins 3 (.err _)) => true | _ => false) &&
    s'.life.length == 1 && s'.wheel.heap.length == 1 && s'.idles.length == 1 && occupied s'.slots == 2 &&
    (run beforeFailedInsert).life.length == 1 && occupied (run beforeFailedInsert).slots == 2
  | .error _ _ => false

example : failedInsertWitness = true := by decide +kernel

end Verif.Props.C15
