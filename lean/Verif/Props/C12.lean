/-
C12 — dispatch() waits exactly as long as it should: no spinning, no oversleeping.

The *computed* wait is decided here for every timeout, deadline and instant; the bridge lemma ties
it to the `match (timeout, next_timeout)` of `Poll::poll` regenerated from src/sys.rs on this run.
The actual sleep is the kernel's: it is measured, not proved (see tools/props/c12.py).
-/
import Verif.Model.Timeout
import Verif.Generated.PollSrc
import Verif.Inv.Wheel
import Verif.Inv.WheelInv

namespace Verif.Props.C12
open Verif.Timeout

/-- bridge: the regenerated Rust expression is the model's function -/
theorem bridge (u n : Option Nat) : Verif.Generated.PollSrc.effective_timeout u n = effTimeout u n := by
  cases u <;> cases n <;> rfl

/-- with a timeout and an armed timer the wait is the smaller of the two -/
theorem eff_min (t d now : Nat) : waitFor (some t) false (some d) now = some (min t (d - now)) := rfl

/-- it never exceeds the user's timeout … -/
theorem eff_le_user (t : Nat) (s : Bool) (e : Option Nat) (now : Nat) :
    ∃ w, waitFor (some t) s e now = some w ∧ w ≤ t := by
  cases s <;> cases e <;> simp [waitFor, effTimeout, withSynthetic, nextTimeout] <;> omega

/-- … nor the time left to the earliest armed deadline: the timer is not overslept -/
theorem eff_le_deadline (u : Option Nat) (s : Bool) (d now : Nat) :
    ∃ w, waitFor u s (some d) now = some w ∧ now + w ≤ max d now := by
  cases u <;> cases s <;> simp [waitFor, effTimeout, withSynthetic, nextTimeout, untilDeadline] <;> omega

/-- no spinning: with nothing else going on the wait is at least min(timeout, time to the deadline) -/
theorem eff_ge_min (t d now : Nat) (w : Nat) (h : waitFor (some t) false (some d) now = some w) :
    min t (d - now) ≤ w := by
  simp [waitFor, effTimeout, withSynthetic, nextTimeout, untilDeadline] at h; omega

/-- timeout None and no armed timer: wait without limit (until an event or wake-up) -/
theorem eff_none_none (now : Nat) : waitFor none false none now = none := rfl

/-- `none` is returned *only* then: any timeout or any armed timer bounds the wait -/
theorem eff_none_iff (u : Option Nat) (s : Bool) (e : Option Nat) (now : Nat) :
    waitFor u s e now = none ↔ (u = none ∧ s = false ∧ e = none) := by
  cases u <;> cases s <;> cases e <;> simp [waitFor, effTimeout, withSynthetic, nextTimeout]

/-- a zero timeout never blocks -/
theorem eff_zero (s : Bool) (e : Option Nat) (now : Nat) : waitFor (some 0) s e now = some 0 := by
  cases s <;> cases e <;> simp [waitFor, effTimeout, withSynthetic, nextTimeout]

/-- an already expired timer makes the wait zero -/
theorem expired_zero (u : Option Nat) (s : Bool) (d now : Nat) (h : d ≤ now) : waitFor u s (some d) now = some 0 := by
  cases u <;> cases s <;> simp [waitFor, effTimeout, withSynthetic, nextTimeout, untilDeadline] <;> omega

/-- a synthetic event forces a non-blocking wait -/
theorem synthetic_zero (u : Option Nat) (e : Option Nat) (now : Nat) : waitFor u true e now = some 0 := by
  cases u <;> cases e <;> simp [waitFor, effTimeout, withSynthetic, nextTimeout]

example : waitFor (some 20) false (some 130) 100 = some 20 ∧ waitFor (some 50) false (some 130) 100 = some 30 ∧
    waitFor none false (some 130) 100 = some 30 := by decide

/-! ### The wait computed from the timer wheel itself

`Poll::poll` does not receive "the earliest deadline" as a number: it asks `TimerWheel::next_deadline()`.
The theorems above take that number as a parameter; these tie it to the heap (`Verif.Wheel`, the model
the correspondence check of C05 runs against the real wheel), for every heap, timeout and instant. -/

open Verif.Wheel in
/-- the wait of one dispatch, from the user's timeout, the synthetic flag and the wheel as it is -/
def waitFromWheel (u : Option Nat) (s : Bool) (w : Wheel) (now : Nat) : Option Nat :=
  waitFor u s ((nextDeadline w).map Int.toNat) now

open Verif.Wheel in
/-- no oversleeping, against *every* armed timer: whatever is in the heap, the wait ends no later than its deadline
(or at once if that is already past) -/
theorem wheel_wait_le_every_armed_deadline (u : Option Nat) (s : Bool) (w : Wheel) (now : Nat) (x : Entry) (hx : x ∈ w.heap) :
    ∃ wt, waitFromWheel u s w now = some wt ∧ now + wt ≤ max x.deadline.toNat now := by
  cases hn : nextDeadline w with
  | none => rw [(Verif.Inv.Wheel.nextDeadline_none_iff w).mp hn] at hx; cases hx
  | some d =>
    have hmin := (Verif.Inv.Wheel.nextDeadline_spec w d hn).2 x hx
    obtain ⟨wt, h1, h2⟩ := eff_le_deadline u s d.toNat now
    refine ⟨wt, by simpa [waitFromWheel, hn] using h1, ?_⟩
    have : d.toNat ≤ x.deadline.toNat := Int.toNat_le_toNat hmin
    omega

open Verif.Wheel in
/-- an unbounded wait is asked for only with timeout None, no synthetic event and an *empty* heap -/
theorem wheel_wait_none_iff (u : Option Nat) (s : Bool) (w : Wheel) (now : Nat) :
    waitFromWheel u s w now = none ↔ (u = none ∧ s = false ∧ w.heap = []) := by
  unfold waitFromWheel
  rw [eff_none_iff, Option.map_eq_none_iff, Verif.Inv.Wheel.nextDeadline_none_iff]

open Verif.Wheel in
/-- no spinning: with a timeout and no synthetic event the wait is at least min(timeout, time to the earliest armed
deadline), the earliest being an entry of the heap that no other entry precedes -/
theorem wheel_wait_ge_min (t : Nat) (w : Wheel) (now wt : Nat) (h : waitFromWheel (some t) false w now = some wt) :
    (w.heap = [] ∧ wt = t) ∨
    ∃ e ∈ w.heap, (∀ x ∈ w.heap, e.deadline ≤ x.deadline) ∧ min t (e.deadline.toNat - now) ≤ wt := by
  cases hn : nextDeadline w with
  | none =>
    left
    refine ⟨(Verif.Inv.Wheel.nextDeadline_none_iff w).mp hn, ?_⟩
    simp [waitFromWheel, hn, waitFor, effTimeout, withSynthetic, nextTimeout] at h
    omega
  | some d =>
    right
    obtain ⟨⟨e, he, hed⟩, hmin⟩ := Verif.Inv.Wheel.nextDeadline_spec w d hn
    refine ⟨e, he, fun x hx => hed ▸ hmin x hx, ?_⟩
    have := eff_ge_min t d.toNat now wt (by simpa [waitFromWheel, hn] using h)
    rw [hed]; exact this

/-- arming one more timer never lengthens the wait -/
theorem wheel_wait_insert_le (u : Option Nat) (s : Bool) (w : Verif.Wheel.Wheel) (now : Nat) (d : Int) (tk : Verif.Token.Tok)
    (wt : Nat) (h : waitFromWheel u s w now = some wt) :
    ∃ wt', waitFromWheel u s (Verif.Wheel.insert w d tk).1 now = some wt' ∧ wt' ≤ wt := by
  obtain ⟨d', hd', _, hle⟩ := Verif.Inv.Wheel.nextDeadline_insert_le w d tk
  cases hn : Verif.Wheel.nextDeadline w with
  | none =>
    cases u <;> cases s <;>
      simp [waitFromWheel, hn, hd', waitFor, effTimeout, withSynthetic, nextTimeout, untilDeadline] at h ⊢ <;> omega
  | some d0 =>
    have h0 := hle d0 hn
    have : d'.toNat ≤ d0.toNat := Int.toNat_le_toNat h0
    cases u <;> cases s <;>
      simp [waitFromWheel, hn, hd', waitFor, effTimeout, withSynthetic, nextTimeout, untilDeadline] at h ⊢ <;> omega

/-- a timer that re-arms itself from its callback (`ToInstant d`) is waited for: the next wait ends by `d` -/
theorem wheel_wait_rearm_le (u : Option Nat) (s : Bool) (w : Verif.Wheel.Wheel) (now : Nat) (c : Nat) (d : Int) (tk : Verif.Token.Tok) :
    ∃ wt, waitFromWheel u s (Verif.Wheel.insertReuse w c d tk) now = some wt ∧ now + wt ≤ max d.toNat now :=
  wheel_wait_le_every_armed_deadline u s _ now ⟨d, tk, c⟩ (by simp [Verif.Wheel.insertReuse])

/-- cancelling an arming (remove, disable, re-arm, Drop) never shortens the wait -/
theorem wheel_wait_cancel_ge (u : Option Nat) (s : Bool) (w : Verif.Wheel.Wheel) (now : Nat) (c : Nat)
    (wt' : Nat) (h : waitFromWheel u s (Verif.Wheel.cancel w c) now = some wt') :
    ∃ wt, waitFromWheel u s w now = some wt ∧ wt ≤ wt' := by
  cases hn : Verif.Wheel.nextDeadline (Verif.Wheel.cancel w c) with
  | none =>
    cases hw : Verif.Wheel.nextDeadline w with
    | none => exact ⟨wt', by simpa [waitFromWheel, hn, hw] using h, Nat.le_refl _⟩
    | some d =>
      cases u <;> cases s <;>
        simp [waitFromWheel, hn, hw, waitFor, effTimeout, withSynthetic, nextTimeout, untilDeadline] at h ⊢ <;> omega
  | some d' =>
    obtain ⟨d, hd, hle⟩ := Verif.Inv.Wheel.nextDeadline_cancel_ge w c d' hn
    have : d.toNat ≤ d'.toNat := Int.toNat_le_toNat hle
    cases u <;> cases s <;>
      simp [waitFromWheel, hn, hd, waitFor, effTimeout, withSynthetic, nextTimeout, untilDeadline] at h ⊢ <;> omega

/-- no spinning after a poll: once `Poll::poll` has popped what was due at `now`, a wait computed at that instant is
zero only if the user asked for zero (or a synthetic event forces it) — never because of a timer left in the heap -/
theorem wheel_wait_after_poll_zero_only_on_request (u : Option Nat) (w : Verif.Wheel.Wheel) (now : Nat)
    (h : waitFromWheel u false (Verif.Wheel.popExpired w (now : Int) w.heap.length).2 now = some 0) : u = some 0 := by
  cases hn : Verif.Wheel.nextDeadline (Verif.Wheel.popExpired w (now : Int) w.heap.length).2 with
  | none =>
    cases u <;> simp [waitFromWheel, hn, waitFor, effTimeout, withSynthetic, nextTimeout] at h ⊢
    exact h
  | some d =>
    have hlt := Verif.Inv.Wheel.nextDeadline_after_poll w now d hn
    cases u <;> simp [waitFromWheel, hn, waitFor, effTimeout, withSynthetic, nextTimeout, untilDeadline] at h ⊢ <;> omega

open Verif.Loop in
/-- over the WHOLE loop model: after every history (not aborted, `enable` within its contract) the limit of the wait is
the deadline of the *current arming of a timer object that exists* — never of a cancelled, fired or replaced arming
(`wheel_has_no_residue`); so the loop does not wake early for a timer that is no longer armed -/
theorem loop_wait_limited_only_by_a_live_arming (ops : List Op) (hab : (run ops).aborted = false)
    (hre : (run ops).reEnabled = false) (t now wt : Nat)
    (h : waitFromWheel (some t) false (run ops).wheel now = some wt) :
    ((run ops).wheel.heap = [] ∧ wt = t) ∨
    ∃ e ∈ (run ops).wheel.heap, (∃ k src, alookup (run ops).srcs k = some src ∧ src.treg = some (e.tok, e.counter)) ∧
      min t (e.deadline.toNat - now) ≤ wt := by
  rcases wheel_wait_ge_min t _ now wt h with h0 | ⟨e, he, _, hmin⟩
  · exact Or.inl h0
  · exact Or.inr ⟨e, he, Verif.Inv.WheelInv.wheel_has_no_residue ops hab hre e he, hmin⟩

open Verif.Loop in
/-- non-vacuity of the whole-loop statement: a history with re-arming, cancel, re-enable and a removal that ends with
one timer armed — the hypotheses hold and the wait is limited by that arming -/
def armedHistory : List Op :=
  [.c (.newTimer 1 (some 5)), .c (.insertd 1), .c (.newTimer 2 (some 50)), .c (.insert 2),
   .script 1 1 { ret := .toInstant 20 },
   .c (.advance 6), .dispatch,
   .c (.disable 1), .c (.enable 1), .c (.setDeadline 1 (some 30)), .c (.update 1),
   .c (.remove 2), .c (.advance 10), .dispatch]

open Verif.Loop in
example : (run armedHistory).aborted = false ∧ (run armedHistory).reEnabled = false ∧
    waitFromWheel (some 100) false (run armedHistory).wheel 16 = some 14 ∧
    waitFromWheel none false (run armedHistory).wheel 16 = some 14 := by decide +kernel

/-- non-vacuity: a heap with three armings (not in deadline order), one of them already past -/
example : waitFromWheel (some 50) false { heap := [⟨130, ⟨0, 0, 0⟩, 0⟩, ⟨110, ⟨1, 0, 0⟩, 1⟩, ⟨400, ⟨2, 0, 0⟩, 2⟩], counter := 3 } 100 = some 10 ∧
    waitFromWheel none false { heap := [⟨130, ⟨0, 0, 0⟩, 0⟩, ⟨-5, ⟨1, 0, 0⟩, 1⟩], counter := 2 } 100 = some 0 ∧
    waitFromWheel none false {} 100 = none := by decide

end Verif.Props.C12
