/-
C12 — dispatch() waits exactly as long as it should: no spinning, no oversleeping.

The *computed* wait is decided here for every timeout, deadline and instant; the bridge lemma ties
it to the `match (timeout, next_timeout)` of `Poll::poll` regenerated from src/sys.rs on this run.
The actual sleep is the kernel's: it is measured, not proved (see tools/props/c12.py).
-/
import Verif.Model.Timeout
import Verif.Generated.PollSrc

namespace Verif.Props.C12
open Verif.Timeout

/-- bridge: the regenerated Rust expression is the model's function -/
theorem bridge (u n : Option Nat) : Verif.Generated.PollSrc.effective_timeout u n = effTimeout u n := by
  cases u <;> cases n <;> rfl

/-- with a timeout and an armed timer the wait is the smaller of the two -/
theorem eff_min (t d now : Nat) : waitFor (some t) false (some d) now = some (min t (d - now)) := rfl

/-- it never exceeds the user's timeout … -/
theorem eff_le_user (t : Nat) (s : Bool) (e : Option Nat) (now : Nat) :
    ∃ w, waitFor (some t) s e now = some w ∧ w ≤ t := by
  cases s <;> cases e <;> simp [waitFor, effTimeout, withSynthetic, nextTimeout] <;> omega

/-- … nor the time left to the earliest armed deadline: the timer is not overslept -/
theorem eff_le_deadline (u : Option Nat) (s : Bool) (d now : Nat) :
    ∃ w, waitFor u s (some d) now = some w ∧ now + w ≤ max d now := by
  cases u <;> cases s <;> simp [waitFor, effTimeout, withSynthetic, nextTimeout, untilDeadline] <;> omega

/-- no spinning: with nothing else going on the wait is at least min(timeout, time to the deadline) -/
theorem eff_ge_min (t d now : Nat) (w : Nat) (h : waitFor (some t) false (some d) now = some w) :
    min t (d - now) ≤ w := by
  simp [waitFor, effTimeout, withSynthetic, nextTimeout, untilDeadline] at h; omega

/-- timeout None and no armed timer: wait without limit (until an event or wake-up) -/
theorem eff_none_none (now : Nat) : waitFor none false none now = none := rfl

/-- `none` is returned *only* then: any timeout or any armed timer bounds the wait -/
theorem eff_none_iff (u : Option Nat) (s : Bool) (e : Option Nat) (now : Nat) :
    waitFor u s e now = none ↔ (u = none ∧ s = false ∧ e = none) := by
  cases u <;> cases s <;> cases e <;> simp [waitFor, effTimeout, withSynthetic, nextTimeout]

/-- a zero timeout never blocks -/
theorem eff_zero (s : Bool) (e : Option Nat) (now : Nat) : waitFor (some 0) s e now = some 0 := by
  cases s <;> cases e <;> simp [waitFor, effTimeout, withSynthetic, nextTimeout]

/-- an already expired timer makes the wait zero -/
theorem expired_zero (u : Option Nat) (s : Bool) (d now : Nat) (h : d ≤ now) : waitFor u s (some d) now = some 0 := by
  cases u <;> cases s <;> simp [waitFor, effTimeout, withSynthetic, nextTimeout, untilDeadline] <;> omega

/-- a synthetic event forces a non-blocking wait -/
theorem synthetic_zero (u : Option Nat) (e : Option Nat) (now : Nat) : waitFor u true e now = some 0 := by
  cases u <;> cases e <;> simp [waitFor, effTimeout, withSynthetic, nextTimeout]

example : waitFor (some 20) false (some 130) 100 = some 20 ∧ waitFor (some 50) false (some 130) 100 = some 30 ∧
    waitFor none false (some 130) 100 = some 30 := by decide

end Verif.Props.C12
