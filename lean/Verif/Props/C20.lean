/-
C20 — Poller keys encode (slot, generation, sub-source) injectively and reversibly.

Every theorem is about `Verif.Token` (M1) instantiated at the field widths read
from `src/token.rs` on this run, plus source-level corollaries about the
regenerated Rust arithmetic itself (`Verif.Generated.TokenSrc`) through the
bridge lemmas.  All statements quantify over *every* value, not a sample.
-/
import Verif.Model.Token
import Verif.Generated.TokenSrc
import Verif.Bridge.Token

namespace Verif.Props.C20
open Verif.Token
open Verif.Generated
open Verif.Bridge.Token (bV bS toGen ofGen)

private theorem bV_eq : bV = 16 := rfl
private theorem bS_eq : bS = 16 := rfl

/-- decode ∘ encode = id on every representable triple -/
theorem unpack_pack (t : Tok) (h : t.wf bV bS) : unpack bV bS (pack bV bS t) = t := by
  obtain ⟨h1, h2, h3⟩ := h
  rw [bV_eq] at h2; rw [bS_eq] at h3
  cases t with | mk i v s =>
  simp only [unpack, pack, bV_eq, bS_eq, Tok.mk.injEq] at *
  refine ⟨?_, ?_, ?_⟩ <;> omega

/-- encode ∘ decode = id on every 64-bit key -/
theorem pack_unpack (k : Nat) (h : k < 2 ^ 64) : pack bV bS (unpack bV bS k) = k := by
  simp only [unpack, pack, bV_eq, bS_eq]
  omega

/-- the key is unique to the triple -/
theorem pack_inj (a b : Tok) (ha : a.wf bV bS) (hb : b.wf bV bS)
    (h : pack bV bS a = pack bV bS b) : a = b := by
  rw [← unpack_pack a ha, ← unpack_pack b hb, h]

/-- the key fits the machine word (so the `+` of the Rust never overflows) -/
theorem pack_lt_word (t : Tok) (h : t.wf bV bS) : pack bV bS t < 2 ^ 64 := by
  obtain ⟨h1, h2, h3⟩ := h
  rw [bV_eq] at h2; rw [bS_eq] at h3
  simp only [pack, bV_eq, bS_eq]
  omega

/-- decoded fields are always in range -/
theorem unpack_wf (k : Nat) : (unpack bV bS k).wf bV bS := by
  simp only [Tok.wf, unpack, bV_eq, bS_eq]
  refine ⟨?_, ?_, ?_⟩ <;> omega

/-- no slot index below 2^32 − 1 can produce the poller's reserved notification key -/
theorem pack_ne_notify (t : Tok) (h : t.wf bV bS) (hid : t.id < 2 ^ 32 - 1) :
    pack bV bS t ≠ notifyKey := by
  obtain ⟨h1, h2, h3⟩ := h
  rw [bV_eq] at h2; rw [bS_eq] at h3
  simp only [pack, notifyKey, bV_eq, bS_eq]
  omega

/-- …and the bound is tight: slot 2^32 − 1 with the last generation and sub-id *is* that key. -/
theorem pack_eq_notify_at_max :
    pack bV bS { id := 2 ^ 32 - 1, ver := 2 ^ 16 - 1, sub := 2 ^ 16 - 1 } = notifyKey := by decide

/-- distinct triples of one source (same id, version) get distinct keys, and the key keeps the
    source: `sameSource` of the decoded keys. -/
theorem sub_keys_distinct (t : Tok) (i j : Nat) (h : t.wf bV bS) (hi : i < 2 ^ bS) (hj : j < 2 ^ bS)
    (hij : i ≠ j) : pack bV bS { t with sub := i } ≠ pack bV bS { t with sub := j } := by
  intro hp
  have := pack_inj { t with sub := i } { t with sub := j } ⟨h.1, h.2.1, hi⟩ ⟨h.1, h.2.1, hj⟩ hp
  simp only [Tok.mk.injEq] at this
  exact hij this.2.2

/-! ### generations -/

/-- `n` reuses of a slot: `vacant_entry` bumps the version each time -/
def bumpN : Nat → Tok → Tok
  | 0, t => t
  | n + 1, t => bumpN n (incVersion bV t)

theorem bumpN_ver (n : Nat) (t : Tok) (h : t.ver < 2 ^ bV) :
    (bumpN n t).ver = (t.ver + n) % 2 ^ bV ∧ (bumpN n t).id = t.id := by
  induction n generalizing t with
  | zero => simp only [bumpN, Nat.add_zero]; exact ⟨(Nat.mod_eq_of_lt h).symm, trivial⟩
  | succ n ih =>
    have hlt : (incVersion bV t).ver < 2 ^ bV := Nat.mod_lt _ (Nat.two_pow_pos _)
    have := ih (incVersion bV t) hlt
    simp only [bumpN] at this ⊢
    refine ⟨?_, this.2⟩
    rw [this.1]
    simp only [incVersion, bV_eq]
    omega

/-- A slot generation comes back exactly after a multiple of 2^BITS_VERSION reuses — the
    "fewer than 65536 reuses" clause of C01/C06 is precisely this period. -/
theorem bumpN_same_iff (n : Nat) (t : Tok) (h : t.wf bV bS) :
    sameSource (bumpN n t) t = true ↔ 2 ^ bV ∣ n := by
  have hv := bumpN_ver n t h.2.1
  have h2 := h.2.1
  rw [bV_eq] at h2
  simp only [sameSource, Bool.and_eq_true, beq_iff_eq, hv.1, hv.2, true_and, bV_eq] at *
  constructor
  · intro hh; omega
  · intro hh; omega

theorem bump_lt_period_ne (n : Nat) (t : Tok) (h : t.wf bV bS) (h0 : 0 < n) (hn : n < 2 ^ bV) :
    sameSource (bumpN n t) t = false := by
  have := bumpN_same_iff n t h
  cases hs : sameSource (bumpN n t) t with
  | false => rfl
  | true =>
    have hd := this.mp hs
    have := Nat.le_of_dvd h0 hd
    omega

/-! ### token factories -/

theorem take_ok (t : Tok) (n : Nat) (hn : t.sub + n < 2 ^ bS) :
    Factory.take? bS n ⟨t⟩ =
      some ((List.range n).map (fun i => { t with sub := t.sub + i }), ⟨{ t with sub := t.sub + n }⟩) := by
  induction n generalizing t with
  | zero => simp [Factory.take?]
  | succ n ih =>
    have h1 : t.sub + 1 < 2 ^ bS := by omega
    have := ih { t with sub := t.sub + 1 } (by simp only; omega)
    simp only [Factory.take?, Factory.token?, incSubId?, if_pos h1, this]
    simp only [List.range_succ_eq_map, List.map_cons, List.map_map, Nat.add_zero, Option.some.injEq,
      Prod.mk.injEq, List.cons.injEq, true_and]
    refine ⟨?_, ?_⟩
    · apply List.map_congr_left
      intro i _
      simp only [Function.comp, Tok.mk.injEq, true_and]
      omega
    · simp only [Factory.mk.injEq, Tok.mk.injEq, true_and]; omega

/-- A fresh factory for slot token `t` hands out sub-ids 0, 1, …, n−1 of `t`'s source, for every
    n up to 2^BITS_SUBID − 1. -/
theorem factory_tokens (t : Tok) (n : Nat) (hn : n < 2 ^ bS) :
    (Factory.take? bS n (Factory.new t)).map Prod.fst =
      some ((List.range n).map (fun i => { id := t.id, ver := t.ver, sub := i })) := by
  have := take_ok (forgetSub t) n (by simp only [forgetSub]; omega)
  simp only [forgetSub, Nat.zero_add] at this
  simp only [Factory.new, forgetSub, this, Option.map]

theorem factory_all_same_source (t : Tok) (n : Nat) (hn : n < 2 ^ bS) (ts : List Tok)
    (h : (Factory.take? bS n (Factory.new t)).map Prod.fst = some ts) :
    ∀ x ∈ ts, sameSource x t = true ∧ forgetSub x = forgetSub t := by
  rw [factory_tokens t n hn] at h
  injection h with h
  subst h
  intro x hx
  simp only [List.mem_map, List.mem_range] at hx
  obtain ⟨i, _, rfl⟩ := hx
  simp [sameSource, forgetSub]

theorem factory_pairwise_distinct (t : Tok) (n : Nat) (hn : n < 2 ^ bS) (ts : List Tok)
    (h : (Factory.take? bS n (Factory.new t)).map Prod.fst = some ts) :
    ts.Pairwise (· ≠ ·) := by
  rw [factory_tokens t n hn] at h
  injection h with h
  subst h
  rw [List.pairwise_map]
  apply List.Pairwise.imp _ (List.pairwise_lt_range (n := n))
  intro a b hab heq
  simp only [Tok.mk.injEq, true_and] at heq
  omega

/-- Keys of the sub-tokens of one source are pairwise distinct (what the poller sees). -/
theorem factory_keys_distinct (t : Tok) (n : Nat) (ht : t.wf bV bS) (hn : n < 2 ^ bS) (ts : List Tok)
    (h : (Factory.take? bS n (Factory.new t)).map Prod.fst = some ts) :
    (ts.map (pack bV bS)).Pairwise (· ≠ ·) := by
  rw [factory_tokens t n hn] at h
  injection h with h
  subst h
  rw [List.pairwise_map, List.pairwise_map]
  apply List.Pairwise.imp_of_mem _ (List.pairwise_lt_range (n := n))
  intro a b ha hb hab heq
  rw [List.mem_range] at ha hb
  exact sub_keys_distinct t a b ht (by omega) (by omega) (by omega) heq

/-- Requesting more sub-tokens than are representable fails loudly: the request number
    2^BITS_SUBID panics (`none`), nothing wraps around. -/
theorem take_overflow (t : Tok) (n : Nat) (ht : t.sub < 2 ^ bS) (hn : 2 ^ bS ≤ t.sub + n) :
    Factory.take? bS n ⟨t⟩ = none := by
  induction n generalizing t with
  | zero => omega
  | succ n ih =>
    simp only [Factory.take?, Factory.token?, incSubId?]
    by_cases h1 : t.sub + 1 < 2 ^ bS
    · rw [if_pos h1]
      have := ih { t with sub := t.sub + 1 } h1 (by simp only; omega)
      simp only [this]
    · rw [if_neg h1]

theorem factory_overflow (t : Tok) (n : Nat) (hn : 2 ^ bS ≤ n) :
    Factory.take? bS n (Factory.new t) = none :=
  take_overflow (forgetSub t) n (Nat.two_pow_pos _) (by simp only [forgetSub]; omega)

/-- The last token a factory can hand out has sub-id 2^BITS_SUBID − 2; together with
    `factory_overflow` this pins the capacity at exactly 2^BITS_SUBID − 1 tokens. -/
theorem factory_capacity (t : Tok) :
    (∃ ts, (Factory.take? bS (2 ^ bS - 1) (Factory.new t)).map Prod.fst = some ts) ∧
    Factory.take? bS (2 ^ bS) (Factory.new t) = none :=
  ⟨⟨_, factory_tokens t (2 ^ bS - 1) (Nat.sub_lt (Nat.two_pow_pos _) Nat.one_pos)⟩,
   factory_overflow t _ (Nat.le_refl _)⟩

/-! ### the same facts about the regenerated Rust arithmetic itself -/

/-- `TokenInner::from(usize::from(tok)) == tok` for every representable token. -/
theorem src_roundtrip (g : TokenSrc.TokenInner) (h : (ofGen g).wf bV bS) :
    TokenSrc.from_usize (TokenSrc.to_usize g) = g := by
  have h1 := Verif.Bridge.Token.to_usize_eq (ofGen g) h
  rw [Verif.Bridge.Token.toGen_ofGen] at h1
  have h2 : ofGen (TokenSrc.from_usize (TokenSrc.to_usize g)) = ofGen g := by
    rw [Verif.Bridge.Token.from_usize_eq, h1, unpack_pack _ h]
  have := congrArg toGen h2
  rw [Verif.Bridge.Token.toGen_ofGen, Verif.Bridge.Token.toGen_ofGen] at this
  exact this

/-- `usize::from(TokenInner::from(k)) == k` for every 64-bit key. -/
theorem src_roundtrip_key (k : Nat) (h : k < 2 ^ 64) :
    TokenSrc.to_usize (TokenSrc.from_usize k) = k := by
  have h2 := Verif.Bridge.Token.from_usize_eq k
  have h1 := Verif.Bridge.Token.to_usize_eq (ofGen (TokenSrc.from_usize k)) (h2 ▸ unpack_wf k)
  rw [Verif.Bridge.Token.toGen_ofGen] at h1
  rw [h1, h2, pack_unpack k h]

/-- the Rust `+` in `From<TokenInner> for usize` cannot overflow -/
theorem src_key_lt_word (g : TokenSrc.TokenInner) (h : (ofGen g).wf bV bS) :
    TokenSrc.to_usize g < 2 ^ 64 := by
  have h1 := Verif.Bridge.Token.to_usize_eq (ofGen g) h
  rw [Verif.Bridge.Token.toGen_ofGen] at h1
  rw [h1]; exact pack_lt_word _ h

/-! ### non-vacuity: concrete tokens meet the hypotheses -/

example : ({ id := 7, ver := 65535, sub := 65534 } : Tok).wf bV bS := by decide
example : unpack bV bS (pack bV bS { id := 4294967295, ver := 65535, sub := 65535 }) =
    { id := 4294967295, ver := 65535, sub := 65535 } := by decide
example : sameSource (bumpN 3 { id := 1, ver := 65534, sub := 0 }) { id := 1, ver := 1, sub := 0 } = true := by
  decide

end Verif.Props.C20
