/-
C13 — idle callbacks run exactly once, after the events, in order, unless cancelled.

Mechanism theorems about `dispatch_idles`: the queue is taken (emptied) before the first callback
runs, so an idle inserted by an idle lands in the next dispatch's queue; the taken queue is walked
in order, each entry once; a cancelled entry is a no-op.  The trace property itself (exactly once,
after all source callbacks of the first Ok dispatch, insertion order) is Spec.Core's C13 clauses.
-/
import Verif.Model.Loop
import Verif.Inv.IdleQ
import Verif.Inv.IdleLate

namespace Verif.Props.C13
open Verif.Loop

/-- the queue that is walked is the snapshot taken at the start, and the live queue is emptied first -/
theorem idles_snapshot (s : St) :
    dispatchIdles s = forEachM s.idles runIdle { s with idles := [] } := by
  simp [dispatchIdles, bind, EStateM.bind, get, getThe, MonadStateOf.get, EStateM.get, modify, modifyGet,
    MonadStateOf.modifyGet, EStateM.modifyGet]

/-- a cancelled idle never runs: its turn changes nothing and prints nothing -/
theorem cancelled_never_runs (p : Nat × Nat) (s : St) (h : s.cancelled.contains p.2 = true) :
    runIdle p s = .ok () s := by
  have h' : p.2 ∈ s.cancelled := by simpa using h
  simp [runIdle, h', bind, EStateM.bind, get, getThe, MonadStateOf.get, EStateM.get, pure, EStateM.pure]

/-- the walk visits the snapshot in order: head first, then the rest -/
theorem walk_in_order (p : Nat × Nat) (ps : List (Nat × Nat)) :
    forEachM (p :: ps) runIdle = (do runIdle p; forEachM ps runIdle) := rfl

theorem walk_empty : forEachM ([] : List (Nat × Nat)) runIdle = pure () := rfl

/-- inserting an idle appends it to the live queue (insertion order is kept) -/
theorem insert_appends (i : Nat) (s : St) :
    ∃ s', execC' (.idle i) s = .ok () s' ∧ s'.idles = s.idles ++ [(i, s.idleSeq)] ∧ s'.cancelled = s.cancelled := by
  refine ⟨_, rfl, rfl, rfl⟩

/-- dropping the `Idle` handle does not cancel the callback -/
theorem drop_handle_keeps_queue (i : Nat) (s : St) :
    ∃ s', execC' (.dropIdle i) s = .ok () s' ∧ s'.idles = s.idles ∧ s'.cancelled = s.cancelled := by
  refine ⟨_, rfl, rfl, rfl⟩

/-! ### the whole loop -/

/-- **After every history** the queued idle callbacks are pairwise distinct instances, all numbered below the loop's
    instance counter: an idle callback is never queued twice, and since `dispatch_idles` empties the queue before it
    runs anything (`idles_snapshot`) and new instances get new numbers, one that ran cannot come back. -/
theorem idle_queue_fresh (ops : List Verif.Loop.Op) :
    ((Verif.Loop.run ops).idles.map (·.2)).Nodup ∧ ∀ p ∈ (Verif.Loop.run ops).idles, p.2 < (Verif.Loop.run ops).idleSeq :=
  Verif.Inv.IdleQ.run_idle_queue_fresh ops

/-- **After every history**, let the idle phase of the next dispatch run (whatever its callbacks do: insert idles, cancel,
    insert and remove sources, fail, panic): everything queued when it ends is strictly younger than every idle the
    phase took — an idle inserted by an idle callback runs in the following dispatch, never in the same one, and none
    that ran is queued again. -/
theorem idle_inserted_by_idle_waits (ops : List Verif.Loop.Op) :
    ∀ p ∈ (Verif.Inv.after Verif.Loop.dispatchIdles (Verif.Loop.run ops)).idles,
      ∀ r ∈ (Verif.Loop.run ops).idles, r.2 < p.2 :=
  Verif.Inv.IdleLate.idle_inserted_by_idle_waits ops

/-- non-vacuity: two idles are queued; the first one's callback inserts two more -/
def idleInsertsIdles : List Verif.Loop.Op :=
  [.idleScript 1 { ops := [.idle 3, .idle 1] }, .c (.idle 1), .c (.idle 2)]

example : (Verif.Loop.run idleInsertsIdles).idles.length = 2 ∧
    ((Verif.Inv.after Verif.Loop.dispatchIdles (Verif.Loop.run idleInsertsIdles)).idles.map (·.1)) = [3, 1] ∧
    (Verif.Inv.after Verif.Loop.dispatchIdles (Verif.Loop.run idleInsertsIdles)).aborted = false := by decide +kernel

end Verif.Props.C13
