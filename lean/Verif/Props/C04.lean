/-
C04 — channel: exactly-once in-order delivery, then exactly one Closed.

Theorems about every reachable state of `ChanProto` (any number of sender threads, any
interleaving of push / wake-write / pop steps, `channel()` and `sync_channel(n)` for every n, every
drain budget ≥ 1):
  ordered      what was pushed = what was delivered ++ what is queued  (exactly once, FIFO)
  closedInv    Closed is delivered at most once, only with no sender and nothing queued, nothing after it
  wake         a queued message, or a pending Closed, always has a wake-up pending (no stranded message)
and `C04_sync0_false`: for the rendezvous channel the wake invariant is FALSE — finding F9.
-/
import Verif.Model.ChanProto

namespace Verif.Props.C04
open Verif.ChanProto

/-! ### exactly once, in order -/

def Ordered (s : St) : Prop := s.sentLog = s.delivered ++ s.queue ∧ s.qlen = s.queue.length

theorem ordered_step (s s' : St) (a : Act) (h : Ordered s) (hs : step s a = some s') : Ordered s' := by
  obtain ⟨h1, h2⟩ := h
  cases a <;> simp only [step] at hs
  case loopRecv =>
    split at hs
    · cases hq : s.queue with
      | cons m rest =>
        simp only [hq, Option.some.injEq] at hs
        subst hs
        refine ⟨?_, ?_⟩
        · simp only [h1, hq, List.append_assoc, List.cons_append, List.nil_append]
        · simp only [h2, hq, List.length_cons]; omega
      | nil =>
        simp only [hq] at hs
        split at hs
        · simp only [Option.some.injEq] at hs
          subst hs
          exact ⟨by simp only [h1, hq, List.append_nil], by simp only [h2, hq]⟩
        · split at hs <;> simp only [Option.some.injEq] at hs <;> subst hs <;> exact ⟨by simpa [hq] using h1, by simpa [hq] using h2⟩
    · simp at hs
  all_goals
    (repeat' split at hs) <;> simp only [Option.some.injEq, reduceCtorEq] at hs <;> (try subst hs) <;>
    first
      | exact ⟨h1, h2⟩
      | exact ⟨by simp only [h1, List.append_assoc], by simp only [h2, List.length_append, List.length_cons, List.length_nil]⟩

theorem ordered_reach (s0 s : St) (h0 : Ordered s0) (h : Reach s0 s) : Ordered s := by
  induction h with
  | init => exact h0
  | step a _ hs ih => exact ordered_step _ _ a ih hs

/-- **Exactly once, in order.**  At every reachable state the messages whose send took effect are
    exactly the delivered ones followed by the queued ones — nothing lost, nothing duplicated, nothing
    reordered (per-sender order is the order of that sender's pushes in `sentLog`). -/
theorem exactly_once_in_order (cap : Option Nat) (budget : Nat) (s : St)
    (h : Reach { cap := cap, budget := budget } s) : s.sentLog = s.delivered ++ s.queue :=
  (ordered_reach _ s ⟨rfl, rfl⟩ h).1

theorem delivered_prefix (cap : Option Nat) (budget : Nat) (s : St)
    (h : Reach { cap := cap, budget := budget } s) : s.delivered <+: s.sentLog :=
  ⟨s.queue, (exactly_once_in_order cap budget s h).symm⟩

/-! ### the wake invariant and Closed -/

/-- a wake-up of the loop is pending -/
def W (s : St) : Prop :=
  s.counter ≥ 2 ∨ s.toWake > 0 ∨ s.loop = 1 ∨ s.loop = 2 ∨ (s.loop = 3 ∧ s.clear = 0 ∧ s.disc = 0)

def Inv (s : St) : Prop :=
  s.qlen = s.queue.length ∧
  s.sending + s.preBlock.length + s.blocked.length ≤ s.live ∧
  s.sending = s.sendingMsgs.length ∧
  s.closed ≤ 1 ∧ s.reg ≤ 1 ∧ s.loop ≤ 3 ∧ s.clear ≤ 1 ∧ s.disc ≤ 1 ∧ s.clear + s.disc ≤ 1 ∧
  s.afterClosed = 0 ∧
  (s.loop ≠ 0 → s.reg = 1) ∧
  (s.loop ≠ 3 → s.disc = 0 ∨ s.reg = 0) ∧
  (s.closed = 1 ↔ (s.disc = 1 ∧ (s.loop = 3 ∨ s.reg = 0))) ∧
  (s.disc = 1 → s.live = 0 ∧ s.qlen = 0) ∧
  (s.reg = 0 → s.disc = 1 ∧ s.loop = 0) ∧
  (s.budget ≥ 1) ∧
  (s.reg = 1 → s.qlen > 0 → W s) ∧
  (s.reg = 1 → s.live = 0 → s.closed = 0 → W s) ∧
  (s.loop = 2 → s.clear = 0 ∧ s.disc = 0)

macro "closeArith" : tactic => `(tactic| first
  | omega
  | (simp only [true_or, or_true, true_and, and_true, true_implies, implies_true, ne_eq, not_true_eq_false, not_false_eq_true,
       false_or, or_false, false_and, and_false, false_implies, Nat.succ_ne_self, OfNat.ofNat_ne_ofNat, reduceCtorEq] <;> omega)
  | (simp <;> omega)
  | simp)

theorem inv_init (cap : Option Nat) (budget : Nat) (hb : budget ≥ 1) : Inv { cap := cap, budget := budget } := by
  simp [Inv, W]; omega

theorem inv_sendStart (s s' : St) (m : Nat) (h : Inv s) (hs : step s (.sendStart m) = some s') : Inv s' := by
  unfold Inv W at h ⊢
  simp only [step] at hs
  (repeat' split at hs) <;> simp only [Option.some.injEq, reduceCtorEq] at hs <;> (try subst hs) <;>
  simp only [List.length_append, List.length_cons, List.length_nil] <;>
  (refine ⟨?_, ?_, ?_, ?_, ?_, ?_, ?_, ?_, ?_, ?_, ?_, ?_, ?_, ?_, ?_, ?_, ?_, ?_, ?_⟩) <;> closeArith

theorem inv_wakeWrite (s s' : St) (h : Inv s) (hs : step s (.wakeWrite) = some s') : Inv s' := by
  unfold Inv W at h ⊢
  simp only [step] at hs
  (repeat' split at hs) <;> simp only [Option.some.injEq, reduceCtorEq] at hs <;> (try subst hs) <;>
  simp only [List.length_append, List.length_cons, List.length_nil] <;>
  (refine ⟨?_, ?_, ?_, ?_, ?_, ?_, ?_, ?_, ?_, ?_, ?_, ?_, ?_, ?_, ?_, ?_, ?_, ?_, ?_⟩) <;> closeArith

theorem inv_senderClone (s s' : St) (h : Inv s) (hs : step s (.senderClone) = some s') : Inv s' := by
  unfold Inv W at h ⊢
  simp only [step] at hs
  (repeat' split at hs) <;> simp only [Option.some.injEq, reduceCtorEq] at hs <;> (try subst hs) <;>
  simp only [List.length_append, List.length_cons, List.length_nil] <;>
  (refine ⟨?_, ?_, ?_, ?_, ?_, ?_, ?_, ?_, ?_, ?_, ?_, ?_, ?_, ?_, ?_, ?_, ?_, ?_, ?_⟩) <;> closeArith

theorem inv_senderDrop (s s' : St) (b : Bool) (h : Inv s) (hs : step s (.senderDrop b) = some s') : Inv s' := by
  unfold Inv W at h ⊢
  simp only [step] at hs
  (repeat' split at hs) <;> simp only [Option.some.injEq, reduceCtorEq] at hs <;> (try subst hs) <;>
  simp only [List.length_append, List.length_cons, List.length_nil] <;>
  (refine ⟨?_, ?_, ?_, ?_, ?_, ?_, ?_, ?_, ?_, ?_, ?_, ?_, ?_, ?_, ?_, ?_, ?_, ?_, ?_⟩) <;> closeArith

theorem inv_loopPoll (s s' : St) (h : Inv s) (hs : step s (.loopPoll) = some s') : Inv s' := by
  unfold Inv W at h ⊢
  simp only [step] at hs
  (repeat' split at hs) <;> simp only [Option.some.injEq, reduceCtorEq] at hs <;> (try subst hs) <;>
  simp only [List.length_append, List.length_cons, List.length_nil] <;>
  (refine ⟨?_, ?_, ?_, ?_, ?_, ?_, ?_, ?_, ?_, ?_, ?_, ?_, ?_, ?_, ?_, ?_, ?_, ?_, ?_⟩) <;> closeArith

theorem inv_loopDrainStart (s s' : St) (h : Inv s) (hs : step s (.loopDrainStart) = some s') : Inv s' := by
  unfold Inv W at h ⊢
  simp only [step] at hs
  (repeat' split at hs) <;> simp only [Option.some.injEq, reduceCtorEq] at hs <;> (try subst hs) <;>
  simp only [List.length_append, List.length_cons, List.length_nil] <;>
  (refine ⟨?_, ?_, ?_, ?_, ?_, ?_, ?_, ?_, ?_, ?_, ?_, ?_, ?_, ?_, ?_, ?_, ?_, ?_, ?_⟩) <;> closeArith

theorem inv_loopBudgetOut (s s' : St) (h : Inv s) (hs : step s (.loopBudgetOut) = some s') : Inv s' := by
  unfold Inv W at h ⊢
  simp only [step] at hs
  (repeat' split at hs) <;> simp only [Option.some.injEq, reduceCtorEq] at hs <;> (try subst hs) <;>
  simp only [List.length_append, List.length_cons, List.length_nil] <;>
  (refine ⟨?_, ?_, ?_, ?_, ?_, ?_, ?_, ?_, ?_, ?_, ?_, ?_, ?_, ?_, ?_, ?_, ?_, ?_, ?_⟩) <;> closeArith

theorem inv_loopPost (s s' : St) (h : Inv s) (hs : step s (.loopPost) = some s') : Inv s' := by
  unfold Inv W at h ⊢
  simp only [step] at hs
  (repeat' split at hs) <;> simp only [Option.some.injEq, reduceCtorEq] at hs <;> (try subst hs) <;>
  simp only [List.length_append, List.length_cons, List.length_nil] <;>
  (refine ⟨?_, ?_, ?_, ?_, ?_, ?_, ?_, ?_, ?_, ?_, ?_, ?_, ?_, ?_, ?_, ?_, ?_, ?_, ?_⟩) <;> closeArith

theorem inv_pushOk (s s' : St) (m : Nat) (h : Inv s) (hs : step s (.pushOk m) = some s') : Inv s' := by
  unfold Inv W at h ⊢
  simp only [step] at hs
  split at hs <;> simp only [Option.some.injEq, reduceCtorEq] at hs
  rename_i hc
  subst hs
  have hlen := List.length_erase_of_mem hc.1
  have hpos : 0 < s.sendingMsgs.length := List.length_pos_of_mem hc.1
  simp only [List.length_append, List.length_cons, List.length_nil, hlen]
  (refine ⟨?_, ?_, ?_, ?_, ?_, ?_, ?_, ?_, ?_, ?_, ?_, ?_, ?_, ?_, ?_, ?_, ?_, ?_, ?_⟩) <;> closeArith

theorem inv_pushFullTry (s s' : St) (m : Nat) (h : Inv s) (hs : step s (.pushFullTry m) = some s') : Inv s' := by
  unfold Inv W at h ⊢
  simp only [step] at hs
  split at hs <;> simp only [Option.some.injEq, reduceCtorEq] at hs
  rename_i hc
  subst hs
  have hlen := List.length_erase_of_mem hc.1
  have hpos : 0 < s.sendingMsgs.length := List.length_pos_of_mem hc.1
  simp only [List.length_append, List.length_cons, List.length_nil, hlen]
  (refine ⟨?_, ?_, ?_, ?_, ?_, ?_, ?_, ?_, ?_, ?_, ?_, ?_, ?_, ?_, ?_, ?_, ?_, ?_, ?_⟩) <;> closeArith

theorem inv_pushFullSend (s s' : St) (m : Nat) (h : Inv s) (hs : step s (.pushFullSend m) = some s') : Inv s' := by
  unfold Inv W at h ⊢
  simp only [step] at hs
  split at hs <;> simp only [Option.some.injEq, reduceCtorEq] at hs
  rename_i hc
  subst hs
  have hlen := List.length_erase_of_mem hc.1
  have hpos : 0 < s.sendingMsgs.length := List.length_pos_of_mem hc.1
  simp only [List.length_append, List.length_cons, List.length_nil, hlen]
  (refine ⟨?_, ?_, ?_, ?_, ?_, ?_, ?_, ?_, ?_, ?_, ?_, ?_, ?_, ?_, ?_, ?_, ?_, ?_, ?_⟩) <;> closeArith

theorem inv_blockedCompletes (s s' : St) (m : Nat) (h : Inv s) (hs : step s (.blockedCompletes m) = some s') : Inv s' := by
  unfold Inv W at h ⊢
  simp only [step] at hs
  split at hs <;> simp only [Option.some.injEq, reduceCtorEq] at hs
  rename_i hc
  subst hs
  have hlen := List.length_erase_of_mem hc.1
  have hpos : 0 < s.blocked.length := List.length_pos_of_mem hc.1
  simp only [List.length_append, List.length_cons, List.length_nil, hlen]
  (refine ⟨?_, ?_, ?_, ?_, ?_, ?_, ?_, ?_, ?_, ?_, ?_, ?_, ?_, ?_, ?_, ?_, ?_, ?_, ?_⟩) <;> closeArith

theorem inv_enterBlocking (s s' : St) (m : Nat) (h : Inv s) (hs : step s (.enterBlocking m) = some s') : Inv s' := by
  unfold Inv W at h ⊢
  simp only [step] at hs
  split at hs <;> simp only [Option.some.injEq, reduceCtorEq] at hs
  rename_i hc
  subst hs
  have hlen := List.length_erase_of_mem hc
  have hpos : 0 < s.preBlock.length := List.length_pos_of_mem hc
  simp only [List.length_append, List.length_cons, List.length_nil, hlen]
  (refine ⟨?_, ?_, ?_, ?_, ?_, ?_, ?_, ?_, ?_, ?_, ?_, ?_, ?_, ?_, ?_, ?_, ?_, ?_, ?_⟩) <;> closeArith

theorem inv_loopRecv (s s' : St) (h : Inv s) (hs : step s .loopRecv = some s') : Inv s' := by
  unfold Inv W at h ⊢
  simp only [step] at hs
  split at hs
  · rename_i hc
    cases hq : s.queue with
    | cons m rest =>
      simp only [hq, Option.some.injEq] at hs
      subst hs
      have hl : s.queue.length = rest.length + 1 := by rw [hq]; rfl
      simp only [List.length_append, List.length_cons, List.length_nil]
      (refine ⟨?_, ?_, ?_, ?_, ?_, ?_, ?_, ?_, ?_, ?_, ?_, ?_, ?_, ?_, ?_, ?_, ?_, ?_, ?_⟩) <;> closeArith
    | nil =>
      have hl : s.queue.length = 0 := by rw [hq]; rfl
      simp only [hq] at hs
      split at hs
      · rename_i m rest hcap hb
        simp only [Option.some.injEq] at hs
        subst hs
        have hbl : s.blocked.length = rest.length + 1 := by rw [hb]; rfl
        simp only [List.length_append, List.length_cons, List.length_nil]
        (refine ⟨?_, ?_, ?_, ?_, ?_, ?_, ?_, ?_, ?_, ?_, ?_, ?_, ?_, ?_, ?_, ?_, ?_, ?_, ?_⟩) <;> closeArith
      · split at hs <;> simp only [Option.some.injEq] at hs <;> subst hs <;>
        simp only [List.length_append, List.length_cons, List.length_nil] <;>
        (refine ⟨?_, ?_, ?_, ?_, ?_, ?_, ?_, ?_, ?_, ?_, ?_, ?_, ?_, ?_, ?_, ?_, ?_, ?_, ?_⟩) <;> closeArith
  · simp at hs

theorem inv_step (s s' : St) (a : Act) (h : Inv s) (hs : step s a = some s') : Inv s' := by
  cases a with
  | sendStart m => exact inv_sendStart s s' m h hs
  | pushOk m => exact inv_pushOk s s' m h hs
  | pushFullTry m => exact inv_pushFullTry s s' m h hs
  | pushFullSend m => exact inv_pushFullSend s s' m h hs
  | wakeWrite => exact inv_wakeWrite s s' h hs
  | enterBlocking m => exact inv_enterBlocking s s' m h hs
  | blockedCompletes m => exact inv_blockedCompletes s s' m h hs
  | senderClone => exact inv_senderClone s s' h hs
  | senderDrop b => exact inv_senderDrop s s' b h hs
  | loopPoll => exact inv_loopPoll s s' h hs
  | loopDrainStart => exact inv_loopDrainStart s s' h hs
  | loopRecv => exact inv_loopRecv s s' h hs
  | loopBudgetOut => exact inv_loopBudgetOut s s' h hs
  | loopPost => exact inv_loopPost s s' h hs

theorem inv_reach (cap : Option Nat) (budget : Nat) (hb : budget ≥ 1) (s : St)
    (h : Reach { cap := cap, budget := budget } s) : Inv s := by
  induction h with
  | init => exact inv_init cap budget hb
  | step a _ hs ih => exact inv_step _ _ a ih hs

/-! ### the property, clause by clause -/

/-- **No message is ever left queued without a pending wake-up** — for `channel()` and every
    `sync_channel(n)`, every drain budget ≥ 1, every interleaving: while the channel is in the loop and a
    message is queued, the eventfd is readable, or some thread is about to write it, or the loop has
    already collected the event / is mid-drain / is about to re-ping itself. -/
theorem no_stranded_message (cap : Option Nat) (budget : Nat) (hb : budget ≥ 1) (s : St)
    (h : Reach { cap := cap, budget := budget } s) (hr : s.reg = 1) (hq : s.queue ≠ []) : W s := by
  have hi := inv_reach cap budget hb s h
  unfold Inv at hi
  have : s.qlen > 0 := by
    rw [hi.1]; exact List.length_pos_iff.mpr hq
  exact hi.2.2.2.2.2.2.2.2.2.2.2.2.2.2.2.2.1 hr this

/-- the same for the final `Closed`: once every sender is gone, it stays owed until delivered -/
theorem closed_is_owed (cap : Option Nat) (budget : Nat) (hb : budget ≥ 1) (s : St)
    (h : Reach { cap := cap, budget := budget } s) (hr : s.reg = 1) (hl : s.live = 0) (hc : s.closed = 0) : W s := by
  have hi := inv_reach cap budget hb s h
  unfold Inv at hi
  exact hi.2.2.2.2.2.2.2.2.2.2.2.2.2.2.2.2.2.1 hr hl hc

/-- **Exactly one Closed, last**: at most one, only with no sender left and nothing queued, and no
    message is delivered after it. -/
theorem closed_once_and_last (cap : Option Nat) (budget : Nat) (hb : budget ≥ 1) (s : St)
    (h : Reach { cap := cap, budget := budget } s) :
    s.closed ≤ 1 ∧ s.afterClosed = 0 ∧ (s.closed = 1 → s.live = 0 ∧ s.queue = []) := by
  have hi := inv_reach cap budget hb s h
  unfold Inv at hi
  obtain ⟨h1, _, _, h4, _, _, _, _, _, h10, _, _, h13, h14, _⟩ := hi
  refine ⟨h4, h10, fun hc => ?_⟩
  have := h14 (h13.mp hc).1
  exact ⟨this.1, List.eq_nil_of_length_eq_zero (by omega)⟩

/-- once removed (after Closed) the loop never polls or drains this channel again -/
theorem removed_is_final (cap : Option Nat) (budget : Nat) (hb : budget ≥ 1) (s : St)
    (h : Reach { cap := cap, budget := budget } s) (hr : s.reg = 0) :
    step s .loopPoll = none ∧ step s .loopDrainStart = none ∧ step s .loopRecv = none := by
  have hi := inv_reach cap budget hb s h
  unfold Inv at hi
  have hl : s.loop = 0 := (hi.2.2.2.2.2.2.2.2.2.2.2.2.2.2.1 hr).2
  simp [step, hr, hl]

/-- the loop's drain delivers at least one message per dispatch (budget ≥ 1), so a bounded queue that
    is full gets room: a sender blocked on it can complete -/
theorem drain_makes_room (s : St) (m : Nat) (rest : List Nat) (hl : s.loop = 2) (hb : s.budgetLeft > 0)
    (hq : s.queue = m :: rest) :
    ∃ s', step s .loopRecv = some s' ∧ s'.qlen = s.qlen - 1 ∧ s'.delivered = s.delivered ++ [m] := by
  refine ⟨{ s with queue := rest, qlen := s.qlen - 1, delivered := s.delivered ++ [m], budgetLeft := s.budgetLeft - 1,
                    afterClosed := s.afterClosed + s.closed }, ?_, rfl, rfl⟩
  simp only [step, hl, hb, hq, and_self, if_true]

theorem reach_of_run (s0 s : St) (acts : List Act) (h : run s0 acts = some s) : Reach s0 s := by
  -- generalise over the start state, which the run moves along
  suffices key : ∀ (acts : List Act) (t : St), Reach s0 t → run t acts = some s → Reach s0 s from key acts s0 .init h
  intro acts
  induction acts with
  | nil => intro t ht hr; simp only [run, Option.some.injEq] at hr; exact hr ▸ ht
  | cons a as ih =>
    intro t ht hr
    simp only [run] at hr
    cases hst : step t a with
    | none => simp [hst] at hr
    | some t' => simp only [hst] at hr; exact ih t' (.step a ht hst) hr

/-- the F9 schedule: `send(7)` on `sync_channel(0)`: try_send says Full, the sender pings, the loop polls,
    drains, sees Empty (nobody is blocked yet) and goes idle; only then does the sender block. -/
def f9Schedule : List Act :=
  [.sendStart 7, .pushFullSend 7, .wakeWrite, .loopPoll, .loopDrainStart, .loopRecv, .loopPost, .enterBlocking 7]

def f9State : St := { cap := some 0, budget := 1, live := 1, blocked := [7], budgetLeft := 1, clear := 1 }

/-- **Finding F9** — for the rendezvous channel (`sync_channel(0)`) the wake invariant is FALSE: a
    reachable state in which a sender is blocked in `send` for good: the eventfd is not readable, nobody
    owes a write, the loop is idle, and neither the loop nor the blocked sender has any enabled step. -/
theorem C04_sync0_false :
    ∃ s, Reach (initSync 0 1024) s ∧ s.blocked = [7] ∧ s.counter = 0 ∧ s.toWake = 0 ∧ s.loop = 0 ∧ s.reg = 1 ∧
      step s .loopPoll = none ∧ step s .wakeWrite = none ∧ step s (.blockedCompletes 7) = none ∧
      step s .loopDrainStart = none ∧ step s .loopRecv = none := by
  have hs : run (initSync 0 1024) f9Schedule = some f9State := by decide
  exact ⟨f9State, reach_of_run _ _ _ hs, by decide⟩

/-- non-vacuity: an ordinary run delivers in order and ends with one Closed -/
example : (run (initAsync 1024) [.sendStart 1, .pushOk 1, .sendStart 2, .pushOk 2, .wakeWrite, .wakeWrite, .senderDrop true,
      .wakeWrite, .loopPoll, .loopDrainStart, .loopRecv, .loopRecv, .loopRecv, .loopPost]).map
    (fun s => (s.delivered, s.closed, s.reg, s.queue)) = some ([1, 2], 1, 0, []) := by decide

end Verif.Props.C04
