/-
C11 — LoopSignal, run() and block_on(): wake-ups and stop requests are never lost.

Every reachable state of `SignalProto` (any number of stopping / waking threads, every interleaving
of flag accesses, `notify`, entering and leaving the wait): the inductive invariant lives in
`Verif.Inv.SignalProto`; here are the clauses of the property derived from it.
-/
import Verif.Inv.SignalProto

namespace Verif.Props.C11
open Verif.SignalProto Verif.Inv.SignalProto

/-! ### the property, clause by clause -/

/-- `run()` / `block_on()` never report a stop that was not requested -/
theorem stopped_only_if_requested (mode : Nat) (hm : mode ≤ 1) (s : St) (h : Reach mode s) (hr : s.result = 2) :
    s.stop = 1 := by
  have := inv_reach mode hm s h; unfold Verif.Inv.SignalProto.Inv at this; omega

/-- **stop() bounds the run**: once a `stop()` has completed after the loop began, the very next flag
    check exits — at most the iteration in progress is finished. -/
theorem stop_then_next_check_exits (mode : Nat) (hm : mode ≤ 1) (s : St) (h : Reach mode s)
    (hs : s.stopAfterReset = 1) (hl : s.lp = 1 ∨ s.lp = 7) :
    ∃ s', step s .check = some s' ∧ s'.lp = 8 ∧ s'.result = 2 := by
  have hi := inv_reach mode hm s h; unfold Verif.Inv.SignalProto.Inv at hi
  have hstop : s.stop = 1 := by omega
  exact ⟨{ s with lp := 8, result := 2 }, by simp only [step, hl, hstop, if_true], rfl, rfl⟩

/-- **stop() then wakeup() never leaves the loop blocked**: between its flag check and the end of its
    wait the notification is pending, so the wait returns (and the next check exits). -/
theorem stop_wakeup_wait_returns (mode : Nat) (hm : mode ≤ 1) (s : St) (h : Reach mode s)
    (hw : s.wakeAfterStop = 1) (hl : s.lp = 5) : ∃ s', step s .waitReturn = some s' ∧ s'.lp = 6 := by
  have hi := inv_reach mode hm s h; unfold Verif.Inv.SignalProto.Inv at hi
  have hn : s.notif = 1 := by omega
  exact ⟨{ s with lp := 6, notif := 0 }, by simp only [step, hl, hn, and_self, if_true], rfl⟩

/-- **A wake-up is sticky**: while it is pending a waiting loop can return … -/
theorem wakeup_makes_wait_return (s : St) (hn : s.notif = 1) (hl : s.lp = 5) :
    ∃ s', step s .waitReturn = some s' ∧ s'.lp = 6 :=
  ⟨{ s with lp := 6, notif := 0 }, by simp only [step, hl, hn, and_self, if_true], rfl⟩

/-- … and nothing but a returning wait consumes it: a wake-up issued before the loop blocks is not lost -/
theorem only_wait_return_consumes_wakeup (s s' : St) (a : Act) (ha : a ≠ .waitReturn) (hn : s.notif ≤ 1)
    (hs : step s a = some s') : s.notif ≤ s'.notif := by
  cases a <;> simp only [step] at hs <;> (try exact absurd rfl ha) <;>
    (repeat' split at hs) <;> simp only [Option.some.injEq, reduceCtorEq] at hs <;> (try subst hs) <;> simp only <;>
    first | omega | exact Nat.le_refl _

/-- **block_on polls initially**: by the time it first waits, the future has been polled -/
theorem block_on_polls_initially (s : St) (h : Reach 1 s) (hl : 4 ≤ s.lp ∧ s.lp ≤ 7) : s.polls ≥ 1 := by
  have hi := inv_reach 1 (Nat.le_refl _) s h; unfold Verif.Inv.SignalProto.Inv at hi
  have hm : s.mode = 1 := mode_const 1 s h
  omega

/-- **A wake of the block_on waker is not lost**: while `future_ready` is set and the loop is about to
    wait or waiting, the notification is pending or the waker is about to send it — the wait returns,
    and the flag stays set until the swap that polls the future. -/
theorem block_on_wake_not_lost (s : St) (h : Reach 1 s) (hf : s.fready = 1) (hl : s.lp = 4 ∨ s.lp = 5 ∨ s.lp = 9) :
    s.notif = 1 ∨ s.bwNotify > 0 := by
  have hi := inv_reach 1 (Nat.le_refl _) s h; unfold Verif.Inv.SignalProto.Inv at hi; omega

theorem block_on_wake_keeps_flag (s : St) (h : Reach 1 s) (hw : s.wakesPending = 1) : s.fready = 1 := by
  have hi := inv_reach 1 (Nat.le_refl _) s h; unfold Verif.Inv.SignalProto.Inv at hi; omega

/-- a set flag is turned into a poll by the next swap -/
theorem swap_polls (s : St) (hl : s.lp = 3) (hf : s.fready = 1) :
    ∃ s', step s .swap = some s' ∧ s'.polls = s.polls + 1 ∧ s'.wakesPending = 0 ∧ s'.lp = 9 :=
  ⟨{ s with fready := 0, polls := s.polls + 1, wakesPending := 0, lp := 9 },
    by simp only [step, hl, hf, if_true], rfl, rfl, rfl⟩

/-- **A wake that lands while the future is being polled is not lost** (another thread's, or the future
    waking itself): when that poll returns Pending the flag is still set and the notification is pending
    or about to be sent, so the coming wait returns and the next swap polls again. -/
theorem wake_during_poll_not_lost (s : St) (h : Reach 1 s) (hl : s.lp = 9) (hw : s.wakesPending = 1) :
    ∃ s', step s .pollEnd = some s' ∧
      (s'.lp = 8 ∨ (s'.lp = 4 ∧ s'.fready = 1 ∧ s'.wakesPending = 1 ∧ (s'.notif = 1 ∨ s'.bwNotify > 0))) := by
  have hi := inv_reach 1 (Nat.le_refl _) s h; unfold Verif.Inv.SignalProto.Inv at hi
  by_cases hd : s.futDone = 1
  · exact ⟨{ s with lp := 8, result := 1 }, by simp only [step, hl, hd, if_true], Or.inl rfl⟩
  · refine ⟨{ s with lp := 4 }, by simp only [step, hl, hd, if_true, if_false], Or.inr ⟨rfl, ?_, hw, ?_⟩⟩
    · show s.fready = 1; omega
    · show s.notif = 1 ∨ s.bwNotify > 0; omega

/-- **Some(output) exactly when the future completed, None exactly when stop came first** -/
theorem block_on_result (s : St) (h : Reach 1 s) :
    (s.result = 1 → s.futDone = 1 ∧ s.polls ≥ 1) ∧ (s.result = 2 → s.stop = 1) := by
  have hi := inv_reach 1 (Nat.le_refl _) s h; unfold Verif.Inv.SignalProto.Inv at hi; omega

/-! ### non-vacuity -/

/-- a wake-up issued *before* the loop starts to wait: the wait returns at once -/
example : (run { mode := 0 } [.runStart, .check, .afterChecked, .wakeupStart, .wakeupNotify, .enterWait, .waitReturn]).map (·.lp) = some 6 := by
  decide

/-- stop + wakeup while the loop waits: it finishes the iteration and returns -/
example : (run { mode := 0 } [.runStart, .check, .afterChecked, .enterWait, .stopStart, .stopStore, .wakeupStart, .wakeupNotify,
    .waitReturn, .afterWait, .check]).map (fun s => (s.lp, s.result, s.iters)) = some (8, 2, 1) := by decide

/-- block_on: the future is woken from another thread between the swap and the wait -/
example : (run { mode := 1 } [.runStart, .check, .afterChecked, .swap, .pollEnd, .wakerStart, .complete, .wakerStore, .enterWait, .wakerNotify,
    .waitReturn, .afterWait, .check, .afterChecked, .swap, .pollEnd]).map (fun s => (s.result, s.polls)) = some (1, 2) := by decide

/-- block_on: the wake lands *while the future is being polled*; the poll returns Pending, the wait returns at once, the future is polled again -/
example : (run { mode := 1 } [.runStart, .check, .afterChecked, .swap, .pollEnd, .enterWait, .wakerStart, .wakerStore, .wakerNotify, .waitReturn, .afterWait,
    .check, .afterChecked, .swap, .wakerStart, .wakerStore, .wakerNotify, .pollEnd, .enterWait, .waitReturn, .afterWait, .check, .afterChecked, .swap]).map
    (fun s => (s.lp, s.polls)) = some (9, 3) := by decide

end Verif.Props.C11
