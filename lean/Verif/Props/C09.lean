/-
C09 — a post-action is applied once, to the source that asked for it, and to no other.

Algebra: the `|` / `|=` tables are proved for all 16 pairs about the definitions regenerated from
`src/sources/mod.rs` on this run.  Resolution: the model's `resolve` (what `dispatch_events` does with
the returned action and the deferred request).  The whole-loop clauses (applied exactly once, never
carried over, never to another source) are decided by Spec.Core's C09 clauses on the traces of the
real loop, tied to this model by the correspondence.
-/
import Verif.Generated.PostActionSrc
import Verif.Model.Loop

namespace Verif.Props.C09
open Verif.Generated.PostActionSrc
open Verif.Loop (resolve)

/-- `a | b` is the common value when both are equal and `Reregister` otherwise — all 16 pairs -/
theorem bitor_table : ∀ a b : PostAction, bitor a b = if a = b then a else .Reregister := by
  intro a b; cases a <;> cases b <;> rfl

/-- `a |= b` leaves the same value in `a` as `a | b` — all 16 pairs -/
theorem bitor_assign_table : ∀ a b : PostAction, bitor_assign a b = if a = b then a else .Reregister := by
  intro a b; cases a <;> cases b <;> rfl

theorem bitor_eq_assign : ∀ a b : PostAction, bitor a b = bitor_assign a b := by
  intro a b; cases a <;> cases b <;> rfl
theorem bitor_comm : ∀ a b : PostAction, bitor a b = bitor b a := by
  intro a b; cases a <;> cases b <;> rfl
theorem bitor_idem : ∀ a : PostAction, bitor a a = a := by
  intro a; cases a <;> rfl
theorem bitor_assoc : ∀ a b c : PostAction, bitor (bitor a b) c = bitor a (bitor b c) := by
  intro a b c; cases a <;> cases b <;> cases c <;> rfl

/-- all four variants exist and are distinct (the translator read them in declaration order) -/
theorem variants_complete : ∀ a : PostAction, a ∈ variants := by
  intro a; cases a <;> simp [variants]

/-- an explicit non-Continue return takes precedence over a deferred request … -/
theorem resolve_explicit (ret pending : PostAction) (h : ret ≠ .Continue) : resolve ret pending = ret := by
  cases ret <;> simp_all [resolve]

/-- … and `Continue` lets the deferred request (or `Continue`) through -/
theorem resolve_continue (pending : PostAction) : resolve .Continue pending = pending := by
  simp [resolve]

theorem resolve_table : ∀ r p : PostAction, resolve r p = if r = .Continue then p else r := by
  intro r p; cases r <;> cases p <;> rfl

end Verif.Props.C09
