/-
C09 — a post-action is applied once, to the source that asked for it, and to no other.

Algebra: the `|` / `|=` tables are proved for all 16 pairs about the definitions regenerated from
`src/sources/mod.rs` on this run.  Resolution: the model's `resolve` (what `dispatch_events` does with
the returned action and the deferred request).  "Never carried over to a later event — including when
event processing returns an error" is a theorem about the *whole* loop model (`Verif.Inv.Ctl`): for every
event, whatever its callbacks do, and for every history of operations.  Applied exactly once / never to
another source are decided by Spec.Core's C09 clauses on the traces of the real loop, tied to this model
by the correspondence (which also compares the `pending_action` cell after every operation).
-/
import Verif.Generated.PostActionSrc
import Verif.Model.Loop
import Verif.Inv.Ctl

namespace Verif.Props.C09
open Verif.Generated.PostActionSrc
open Verif.Loop (resolve)

/-- `a | b` is the common value when both are equal and `Reregister` otherwise — all 16 pairs -/
theorem bitor_table : ∀ a b : PostAction, bitor a b = if a = b then a else .Reregister := by
  intro a b; cases a <;> cases b <;> rfl

/-- `a |= b` leaves the same value in `a` as `a | b` — all 16 pairs -/
theorem bitor_assign_table : ∀ a b : PostAction, bitor_assign a b = if a = b then a else .Reregister := by
  intro a b; cases a <;> cases b <;> rfl

theorem bitor_eq_assign : ∀ a b : PostAction, bitor a b = bitor_assign a b := by
  intro a b; cases a <;> cases b <;> rfl
theorem bitor_comm : ∀ a b : PostAction, bitor a b = bitor b a := by
  intro a b; cases a <;> cases b <;> rfl
theorem bitor_idem : ∀ a : PostAction, bitor a a = a := by
  intro a; cases a <;> rfl
theorem bitor_assoc : ∀ a b c : PostAction, bitor (bitor a b) c = bitor a (bitor b c) := by
  intro a b c; cases a <;> cases b <;> cases c <;> rfl

/-- all four variants exist and are distinct (the translator read them in declaration order) -/
theorem variants_complete : ∀ a : PostAction, a ∈ variants := by
  intro a; cases a <;> simp [variants]

/-- an explicit non-Continue return takes precedence over a deferred request … -/
theorem resolve_explicit (ret pending : PostAction) (h : ret ≠ .Continue) : resolve ret pending = ret := by
  cases ret <;> simp_all [resolve]

/-- … and `Continue` lets the deferred request (or `Continue`) through -/
theorem resolve_continue (pending : PostAction) : resolve .Continue pending = pending := by
  simp [resolve]

theorem resolve_table : ∀ r p : PostAction, resolve r p = if r = .Continue then p else r := by
  intro r p; cases r <;> cases p <;> rfl

/-! ### the whole loop: a deferred action never outlives the event it was requested in -/

open Verif.Loop Verif.Inv.Ctl in
/-- **Between events.** Start one iteration of `dispatch_events` with nothing deferred and nothing borrowed: for
    every event, every state of the loop and every callback program (any operations, from any source, including
    `disable`/`update` on the running source, removal, insertion into the vacated slot, errors) the iteration ends —
    normally or with the event's error — with `pending_action = Continue`, no dispatcher borrowed and none held. -/
theorem pending_clear_after_every_event (ev : Verif.Kernel.Event) :
    Hoare (Top none) (processOne ev) (fun _ => Top none) (Top none) := hoare_processOne ev

open Verif.Loop Verif.Inv.Ctl in
/-- **After every history.** Whatever sequence of operations, scripts and dispatches has run, unless a panic
    aborted it: nothing is deferred, nothing borrowed, nothing held. -/
theorem pending_clear_after_every_history (ops : List Op) (h : (run ops).aborted = false) :
    (run ops).pending = .Continue ∧ (run ops).running = none ∧ (run ops).inflight = none := by
  cases run_top ops with
  | inl ht =>
    have h' : ctl (run ops) = (.Continue, none, none) := ht
    simp only [ctl, Prod.mk.injEq] at h'
    exact h'
  | inr ha => rw [ha] at h; cases h

open Verif.Loop Verif.Inv.Ctl in
/-- outside event processing, `disable` / `update` act at once and leave nothing behind (idle callbacks, top level) -/
theorem top_level_requests_are_immediate (o : COp) : Verif.Inv.Keeps (execC o) (Top none) := keeps_top_execC o none

/-! ### non-vacuity -/

open Verif.Loop in
/-- a ping source whose callback asks `disable` and then `update` on itself (both deferred) and returns `Continue`:
    the history runs to its end without a panic, the requests were accepted, and nothing is left deferred -/
def selfDeferring : List Op :=
  [.c (.newPing 1), .c (.insert 1), .script 1 0 { ops := [.disable 1, .update 1], ret := .unit },
   .c (.ping 1), .dispatch, .c (.newPing 2), .c (.insert 2), .c (.ping 2), .dispatch]

open Verif.Loop in
example : (run selfDeferring).aborted = false ∧ (run selfDeferring).pending = .Continue ∧
    (run selfDeferring).log.contains (.opRes (.disable 1) .ok) = true ∧
    (run selfDeferring).log.contains (.cb 2 .unit) = true := by decide +kernel

end Verif.Props.C09
