/-
C16 — the OS poller holds exactly the fds of enabled sources, nothing stale.

Theorems about the poller model: ADD adds exactly the entry and fails on a present fd, MOD/DEL fail
on an absent fd, DEL removes the entry and its ready-list node and nothing else, dropping a source
removes every fd it still had registered.  The table itself is compared with the kernel's
(/proc/self/fdinfo) after every operation of every history by the correspondence check.
-/
import Verif.Inv.Kernel
import Verif.Model.Loop

namespace Verif.Props.C16
open Verif.Kernel Verif.Loop

theorem add_exact (k k' : Kernel) (e : EpEntry) (h : epAdd k e = .ok k') :
    entry? k e.fd = none ∧ k'.ep = k.ep ++ [e] := Verif.Inv.Kernel.epAdd_ok k k' e h

theorem add_twice_fails (k : Kernel) (e x : EpEntry) (h : entry? k e.fd = some x) :
    epAdd k e = .error .eexist := Verif.Inv.Kernel.epAdd_eexist k e x h

theorem delete_exact (k k' : Kernel) (fd : Nat) (h : epDel k fd = .ok k') :
    entry? k' fd = none ∧ fd ∉ k'.rdl ∧ (∀ e ∈ k.ep, e.fd ≠ fd → e ∈ k'.ep) ∧ (∀ e ∈ k'.ep, e ∈ k.ep) :=
  Verif.Inv.Kernel.epDel_ok k k' fd h

theorem modify_absent_fails (k : Kernel) (e : EpEntry) (h : entry? k e.fd = none) :
    epMod k e = .error .enoent := Verif.Inv.Kernel.epMod_enoent k e h

theorem delete_absent_fails (k : Kernel) (fd : Nat) (h : entry? k fd = none) :
    epDel k fd = .error .enoent := Verif.Inv.Kernel.epDel_enoent k fd h

/-- after delete, the same fd can be registered again (re-insertion works) -/
theorem reinsert_after_delete (k k' : Kernel) (e : EpEntry) (h : epDel k e.fd = .ok k') :
    ∃ k'', epAdd k' e = .ok k'' := by
  have := (Verif.Inv.Kernel.epDel_ok k k' e.fd h).1
  simp only [epAdd, this]
  exact ⟨_, rfl⟩

/-- `Generic::drop`: every fd the dropped source still had registered leaves the poller -/
theorem drop_releases_fds (gs : List Gen) (k : Kernel) :
    ∀ g ∈ gs, g.poller = true → entry? (dropGens k gs) g.fd = none := by
  induction gs generalizing k with
  | nil => simp
  | cons g gs ih =>
    intro x hx hp
    -- deleting never re-adds: once absent, absent for the rest of the walk
    have stay : ∀ (l : List Gen) (kk : Kernel) (fd : Nat), entry? kk fd = none → entry? (dropGens kk l) fd = none := by
      intro l
      induction l with
      | nil => intro kk fd h; simpa [dropGens] using h
      | cons y ys ihy =>
        intro kk fd h
        simp only [dropGens]
        split
        · cases hd : epDel kk y.fd with
          | error e => simp only; exact ihy kk fd h
          | ok k2 =>
            simp only
            apply ihy
            rw [Verif.Inv.Kernel.entry?_none_iff] at h ⊢
            intro e he
            exact h e ((Verif.Inv.Kernel.epDel_ok kk k2 y.fd hd).2.2.2 e he)
        · exact ihy kk fd h
    simp only [List.mem_cons] at hx
    simp only [dropGens]
    cases hx with
    | inl h =>
      subst h
      simp only [hp, if_true]
      cases hd : epDel k x.fd with
      | error e =>
        simp only
        apply stay
        unfold epDel at hd
        cases hent : entry? k x.fd with
        | none => rfl
        | some y => simp [hent] at hd
      | ok k2 =>
        simp only
        exact stay gs k2 x.fd (Verif.Inv.Kernel.epDel_ok k k2 x.fd hd).1
    | inr h =>
      split
      · cases hd : epDel k g.fd with
        | error e => simp only; exact ih k x h hp
        | ok k2 => simp only; exact ih k2 x h hp
      · exact ih k x h hp

end Verif.Props.C16
