/-
C16 — the OS poller holds exactly the fds of enabled sources, nothing stale.

Theorems about the poller model: ADD adds exactly the entry and fails on a present fd, MOD/DEL fail
on an absent fd, DEL removes the entry and its ready-list node and nothing else, dropping a source
removes every fd it still had registered.  The table itself is compared with the kernel's
(/proc/self/fdinfo) after every operation of every history by the correspondence check.
-/
import Verif.Inv.Kernel
import Verif.Model.Loop
import Verif.Inv.GhostFree
import Verif.Inv.RegOk

namespace Verif.Props.C16
open Verif.Kernel Verif.Loop

theorem add_exact (k k' : Kernel) (e : EpEntry) (h : epAdd k e = .ok k') :
    entry? k e.fd = none ∧ k'.ep = k.ep ++ [e] := Verif.Inv.Kernel.epAdd_ok k k' e h

theorem add_twice_fails (k : Kernel) (e x : EpEntry) (h : entry? k e.fd = some x) :
    epAdd k e = .error .eexist := Verif.Inv.Kernel.epAdd_eexist k e x h

theorem delete_exact (k k' : Kernel) (fd : Nat) (h : epDel k fd = .ok k') :
    entry? k' fd = none ∧ fd ∉ k'.rdl ∧ (∀ e ∈ k.ep, e.fd ≠ fd → e ∈ k'.ep) ∧ (∀ e ∈ k'.ep, e ∈ k.ep) :=
  Verif.Inv.Kernel.epDel_ok k k' fd h

theorem modify_absent_fails (k : Kernel) (e : EpEntry) (h : entry? k e.fd = none) :
    epMod k e = .error .enoent := Verif.Inv.Kernel.epMod_enoent k e h

theorem delete_absent_fails (k : Kernel) (fd : Nat) (h : entry? k fd = none) :
    epDel k fd = .error .enoent := Verif.Inv.Kernel.epDel_enoent k fd h

/-- after delete, the same fd can be registered again (re-insertion works) -/
theorem reinsert_after_delete (k k' : Kernel) (e : EpEntry) (h : epDel k e.fd = .ok k') :
    ∃ k'', epAdd k' e = .ok k'' := by
  have := (Verif.Inv.Kernel.epDel_ok k k' e.fd h).1
  simp only [epAdd, this]
  exact ⟨_, rfl⟩

/-- `Generic::drop`: every fd the dropped source still had registered leaves the poller -/
theorem drop_releases_fds (gs : List Gen) (k : Kernel) :
    ∀ g ∈ gs, g.poller = true → entry? (dropGens k gs) g.fd = none := by
  induction gs generalizing k with
  | nil => simp
  | cons g gs ih =>
    intro x hx hp
    -- deleting never re-adds: once absent, absent for the rest of the walk
    have stay : ∀ (l : List Gen) (kk : Kernel) (fd : Nat), entry? kk fd = none → entry? (dropGens kk l) fd = none := by
      intro l
      induction l with
      | nil => intro kk fd h; simpa [dropGens] using h
      | cons y ys ihy =>
        intro kk fd h
        simp only [dropGens]
        split
        · cases hd : epDel kk y.fd with
          | error e => simp only; exact ihy kk fd h
          | ok k2 =>
            simp only
            apply ihy
            rw [Verif.Inv.Kernel.entry?_none_iff] at h ⊢
            intro e he
            exact h e ((Verif.Inv.Kernel.epDel_ok kk k2 y.fd hd).2.2.2 e he)
        · exact ihy kk fd h
    simp only [List.mem_cons] at hx
    simp only [dropGens]
    cases hx with
    | inl h =>
      subst h
      simp only [hp, if_true]
      cases hd : epDel k x.fd with
      | error e =>
        simp only
        apply stay
        unfold epDel at hd
        cases hent : entry? k x.fd with
        | none => rfl
        | some y => simp [hent] at hd
      | ok k2 =>
        simp only
        exact stay gs k2 x.fd (Verif.Inv.Kernel.epDel_ok k k2 x.fd hd).1
    | inr h =>
      split
      · cases hd : epDel k g.fd with
        | error e => simp only; exact ih k x h hp
        | ok k2 => simp only; exact ih k2 x h hp
      · exact ih k x h hp

/-! ### the whole loop -/

/-- **After every history** of operations, callback programs, failures and dispatches that was not aborted by a panic —
    registrations failing half-way with or without roll-back, failing unregistrations, sources removed or disabled from
    inside callbacks, dispatchers dropped while registered, two sources over one fd (finding F15) — every entry of the
    kernel's poller table belongs to a live sub-source that holds its poller reference: **no ghost registration**. -/
theorem no_ghost_registration (ops : List Verif.Loop.Op) (hab : (Verif.Loop.run ops).aborted = false) :
    ∀ e ∈ (Verif.Loop.run ops).k.ep, ∃ k src g, Verif.Loop.alookup (Verif.Loop.run ops).srcs k = some src ∧
      g ∈ src.gens ∧ g.fd = e.fd ∧ g.poller = true :=
  Verif.Inv.GhostFree.no_ghost_registration ops hab

/-- … so an fd all of whose sub-sources have let go of the poller (unregistered, or dropped: `Generic::drop`) is not in
    the table: it can be inserted again and no ghost event arrives for it. -/
theorem released_fd_not_registered (ops : List Verif.Loop.Op) (hab : (Verif.Loop.run ops).aborted = false) (fd : Nat)
    (hrel : ∀ k src g, Verif.Loop.alookup (Verif.Loop.run ops).srcs k = some src → g ∈ src.gens → g.fd = fd → g.poller = false) :
    fd ∉ (Verif.Loop.run ops).k.ep.map (·.fd) :=
  Verif.Inv.GhostFree.released_fd_not_registered ops hab fd hrel

/-- non-vacuity: a composite source whose third registration fails and which does not roll back (two entries stay in
    the table, owned by the object handed back to the user), a ping source inserted, disabled and removed, a generic
    source over a user fd inserted twice (the second insertion is refused) -/
def ghostHistory : List Verif.Loop.Op :=
  [.c (.newCustom 1 3 false), .c (.plan 1 { regFail := some 2, rollback := false }), .c (.insert 1),
   .c (.newPing 2), .c (.insert 2), .c (.disable 2), .c (.remove 2),
   .c (.fd 7), .c (.newGen 3 7 true false .level), .c (.insert 3), .c (.newGen 4 7 true false .level), .c (.insert 4),
   .dispatch]

example : (Verif.Loop.run ghostHistory).aborted = false ∧
    ((Verif.Loop.run ghostHistory).k.ep.map (·.fd)) = [1000, 1001, 7] := by decide +kernel


/-- **After every history** not aborted by a panic and in which no source object was created over an fd that an earlier
    object watches or watched (ghost flag `fdClash`: two sources over one fd is the situation of finding F15; re-use of
    an fd after release is outside this theorem, `released_fd_not_registered` covers the release side): every sub-source
    of a source object that has not been dropped and that holds a registration token is in the kernel's poller table
    under exactly that token — failed registrations with or without roll-back, failed unregistrations, one-shot
    disarming, removal from inside callbacks included.  With `no_ghost_registration`: the table and the loop's own
    bookkeeping agree in both directions. -/
theorem registered_is_in_the_table (ops : List Verif.Loop.Op) (hab : (Verif.Loop.run ops).aborted = false)
    (hfc : (Verif.Loop.run ops).fdClash = false) (k : Nat) (src : Verif.Loop.Src) (g : Verif.Loop.Gen) (t : Verif.Token.Tok)
    (hk : Verif.Loop.alookup (Verif.Loop.run ops).srcs k = some src) (hd : src.dropped = false)
    (hg : g ∈ src.gens) (ht : g.token = some t) :
    ∃ e ∈ (Verif.Loop.run ops).k.ep, e.fd = g.fd ∧ e.key = t :=
  Verif.Inv.RegOk.registered_is_in_the_table ops hab hfc k src g t hk hd hg ht

/-- non-vacuity: a composite source whose third registration fails without roll-back (two sub-sources stay registered),
    a ping source, a one-shot generic source that fires and is re-armed by `update`, a source disabled and enabled -/
def registeredHistory : List Verif.Loop.Op :=
  [.c (.newCustom 1 3 false), .c (.plan 1 { regFail := some 2, rollback := false }), .c (.insert 1),
   .c (.newPing 2), .c (.insert 2), .c (.disable 2), .c (.enable 2),
   .c (.fd 7), .c (.newGen 3 7 true false .oneshot), .c (.insertd 3), .c (.write 7 1), .dispatch, .c (.update 3), .dispatch]

def tokensHeld (s : Verif.Loop.St) : Nat :=
  (s.srcs.map fun p => if p.2.dropped then 0 else (p.2.gens.filter (·.token.isSome)).length).foldl (· + ·) 0

example : (Verif.Loop.run registeredHistory).aborted = false ∧ (Verif.Loop.run registeredHistory).fdClash = false ∧
    tokensHeld (Verif.Loop.run registeredHistory) = 4 ∧ (Verif.Loop.run registeredHistory).k.ep.length = 4 := by decide +kernel

/-- why the hypothesis is there: the second of two sources over one fd raises the flag -/
example : (Verif.Loop.run ghostHistory).fdClash = true := by decide +kernel

end Verif.Props.C16
