/-
C10 — Executor / StreamSource: no lost wake, results and items delivered exactly once.

Every reachable state of `ExecProto` (any number of waker threads, every interleaving of enqueue /
flag swap / eventfd write / flag clear / dequeue steps, every batch limit ≥ 1):
  the arithmetic wake invariant (`Verif.Inv.ExecProto.InvA`) and the per-task invariant `InvL` below.
-/
import Verif.Inv.ExecProto
import Verif.Model.StreamSrc
import Verif.Inv.ExecFifo

namespace Verif.Props.C10
open Verif.ExecProto Verif.Inv.ExecProto

/-- per-task bookkeeping: a runnable exists (queued or about to be pushed) exactly for scheduled
    tasks, at most once per task; delivered results belong to completed tasks, once each -/
def InvL (s : St) : Prop :=
  (∀ t ∈ s.queue ++ s.enq, s.tasks[t]? = some 1) ∧
  (s.queue ++ s.enq).Nodup ∧
  (∀ t ∈ s.delivered, s.tasks[t]? = some 2) ∧
  s.delivered.Nodup

theorem invL_init (b : Nat) : InvL { budget := b } := by simp [InvL]

theorem getElem?_setAt (l : List Nat) (i j v : Nat) : (setAt l i v)[j]? = if i = j then (l[j]?).map (fun _ => v) else l[j]? := by
  simp only [setAt, List.getElem?_set]
  by_cases h : i = j
  · subst h; simp only [if_true]
    by_cases hl : i < l.length
    · simp [hl]
    · simp [hl]
  · simp [h]

theorem invL_step (s s' : St) (a : Act) (h : InvL s) (hs : step s a = some s') : InvL s' := by
  obtain ⟨h1, h2, h3, h4⟩ := h
  cases a with
  | schedule =>
    simp only [step] at hs
    split at hs <;> simp only [Option.some.injEq, reduceCtorEq] at hs
    subst hs
    have hlt : ∀ t ∈ s.queue ++ s.enq, t < s.tasks.length := by
      intro t ht
      have := h1 t ht
      exact (List.getElem?_eq_some_iff.mp this).1
    refine ⟨?_, ?_, ?_, h4⟩
    · intro t ht
      simp only [← List.append_assoc, List.mem_append, List.mem_singleton] at ht
      cases ht with
      | inl ht' =>
        have hin : t ∈ s.queue ++ s.enq := List.mem_append.mpr ht'
        rw [List.getElem?_append_left (hlt t hin)]; exact h1 t hin
      | inr ht' => subst ht'; simp
    · rw [← List.append_assoc, List.nodup_append]
      refine ⟨h2, by simp, ?_⟩
      intro a ha b hb
      simp only [List.mem_singleton] at hb
      subst hb
      have := hlt a ha
      omega
    · intro t ht
      have := h3 t ht
      have hl := (List.getElem?_eq_some_iff.mp this).1
      rw [List.getElem?_append_left hl]; exact this
  | wake t =>
    simp only [step] at hs
    split at hs <;> simp only [Option.some.injEq, reduceCtorEq] at hs
    rename_i hc
    subst hs
    have hnot : t ∉ s.queue ++ s.enq := fun hin => by have := h1 t hin; rw [hc.1] at this; simp at this
    refine ⟨?_, ?_, ?_, h4⟩
    · intro u hu
      simp only [← List.append_assoc, List.mem_append, List.mem_singleton] at hu
      rw [getElem?_setAt]
      cases hu with
      | inl hu' =>
        have hin : u ∈ s.queue ++ s.enq := List.mem_append.mpr hu'
        have hne : t ≠ u := fun e => hnot (e ▸ hin)
        simp only [hne, if_false]; exact h1 u hin
      | inr hu' => subst hu'; simp [hc.1]
    · rw [← List.append_assoc, List.nodup_append]
      refine ⟨h2, by simp, ?_⟩
      intro a ha b hb
      simp only [List.mem_singleton] at hb
      subst hb
      exact fun e => hnot (e ▸ ha)
    · intro u hu
      rw [getElem?_setAt]
      have := h3 u hu
      have hne : t ≠ u := fun e => by subst e; rw [hc.1] at this; simp at this
      simp only [hne, if_false]; exact this
  | enqueue t =>
    simp only [step] at hs
    split at hs <;> simp only [Option.some.injEq, reduceCtorEq] at hs
    rename_i hc
    subst hs
    have hperm : ((s.queue ++ [t]) ++ s.enq.erase t).Perm (s.queue ++ s.enq) := by
      rw [List.append_assoc]
      apply List.Perm.append_left
      exact (List.perm_cons_erase hc).symm
    refine ⟨?_, ?_, h3, h4⟩
    · intro u hu; exact h1 u (hperm.mem_iff.mp hu)
    · exact hperm.nodup_iff.mpr h2
  | swapFlag =>
    simp only [step] at hs
    (repeat' split at hs) <;> simp only [Option.some.injEq, reduceCtorEq] at hs <;> subst hs <;> exact ⟨h1, h2, h3, h4⟩
  | wakeWrite =>
    simp only [step] at hs
    split at hs <;> simp only [Option.some.injEq, reduceCtorEq] at hs; subst hs; exact ⟨h1, h2, h3, h4⟩
  | loopPoll =>
    simp only [step] at hs
    split at hs <;> simp only [Option.some.injEq, reduceCtorEq] at hs; subst hs; exact ⟨h1, h2, h3, h4⟩
  | loopDrain =>
    simp only [step] at hs
    split at hs <;> simp only [Option.some.injEq, reduceCtorEq] at hs; subst hs; exact ⟨h1, h2, h3, h4⟩
  | loopClear =>
    simp only [step] at hs
    split at hs <;> simp only [Option.some.injEq, reduceCtorEq] at hs; subst hs; exact ⟨h1, h2, h3, h4⟩
  | loopBudgetOut =>
    simp only [step] at hs
    split at hs <;> simp only [Option.some.injEq, reduceCtorEq] at hs; subst hs; exact ⟨h1, h2, h3, h4⟩
  | loopPost =>
    simp only [step] at hs
    (repeat' split at hs) <;> simp only [Option.some.injEq, reduceCtorEq] at hs <;> subst hs <;> exact ⟨h1, h2, h3, h4⟩
  | loopDequeue r =>
    simp only [step] at hs
    split at hs
    · cases hq : s.queue with
      | nil => simp only [hq, Option.some.injEq] at hs; subst hs; rw [hq] at h1 h2; exact ⟨h1, h2, h3, h4⟩
      | cons t rest =>
        simp only [hq, Option.some.injEq] at hs
        subst hs
        rw [hq] at h1 h2
        have ht1 : s.tasks[t]? = some 1 := h1 t (by simp)
        have hnd : t ∉ rest ++ s.enq := (List.nodup_cons.mp (by simpa using h2)).1
        have hnd2 : (rest ++ s.enq).Nodup := (List.nodup_cons.mp (by simpa using h2)).2
        have htd : t ∉ s.delivered := fun hin => by have := h3 t hin; rw [ht1] at this; simp at this
        refine ⟨?_, hnd2, ?_, ?_⟩
        · intro u hu
          rw [getElem?_setAt]
          have hne : t ≠ u := fun e => hnd (e ▸ hu)
          simp only [hne, if_false]
          exact h1 u (by simp only [List.cons_append, List.mem_cons]; exact Or.inr hu)
        · intro u hu
          rw [getElem?_setAt]
          cases r with
          | false =>
            simp only [Bool.false_eq_true, if_false] at hu ⊢
            have hne : t ≠ u := fun e => htd (e ▸ hu)
            simp only [hne, if_false]; exact h3 u hu
          | true =>
            simp only [if_true, List.mem_append, List.mem_singleton] at hu ⊢
            cases hu with
            | inl hu' =>
              have hne : t ≠ u := fun e => htd (e ▸ hu')
              simp only [hne, if_false]; exact h3 u hu'
            | inr hu' => subst hu'; simp [ht1]
        · cases r with
          | false => simpa using h4
          | true =>
            simp only [if_true]
            rw [List.nodup_append]
            exact ⟨h4, by simp, fun a ha b hb => by simp only [List.mem_singleton] at hb; subst hb; exact fun e => htd (e ▸ ha)⟩
    · simp at hs
  | dropExecutor =>
    simp only [step] at hs
    split at hs <;> simp only [Option.some.injEq, reduceCtorEq] at hs
    rename_i hc
    subst hs
    refine ⟨by simp [hc.2.2], by simp [hc.2.2], ?_, h4⟩
    intro u hu
    have := h3 u hu
    simp only [List.getElem?_map, this, Option.map_some, if_true]

theorem invL_reach (b : Nat) (s : St) (h : Reach b s) : InvL s := by
  induction h with
  | init => exact invL_init b
  | step a _ hs ih => exact invL_step _ _ a ih hs

/-! ### the property, clause by clause -/

/-- **No lost wake**: while a runnable is queued (and the executor is in the loop) a wake-up is
    pending: a thread is about to swap the flag, or the eventfd is readable / about to be written, or
    the loop has collected the event, is mid-batch, or is about to re-ping itself. -/
theorem no_lost_wake (b : Nat) (hb : b ≥ 1) (s : St) (h : Reach b s) (hr : s.reg = 1) (hq : s.queue ≠ []) :
    s.swp > 0 ∨ W s ∨ s.loop = 3 ∨ (s.loop = 4 ∧ s.clear = 0) := by
  have hi := invA_reach b hb s h
  unfold InvA at hi
  have : s.qlen > 0 := by rw [hi.1]; exact List.length_pos_iff.mpr hq
  exact hi.2.2.2.2.2.2.2.2.1 hr this

/-- **The `notified` flag is sound**: while it is set, a wake-up is in flight that the executor has not yet
    consumed past its flag clear — which is why a sender that finds it set may skip the ping. -/
theorem flag_sound (b : Nat) (hb : b ≥ 1) (s : St) (h : Reach b s) (hn : s.notified = 1) : W s := by
  have hi := invA_reach b hb s h
  unfold InvA at hi
  exact hi.2.2.2.2.2.2.2.1 hn

/-- every scheduled task has exactly one runnable, queued or about to be pushed; together with
    `no_lost_wake` it will be polled — after being scheduled and after every wake that found it idle -/
theorem scheduled_has_runnable (b : Nat) (hb : b ≥ 1) (s : St) (h : Reach b s) :
    s.nSched = s.queue.length + s.enq.length ∧ (∀ t ∈ s.queue ++ s.enq, s.tasks[t]? = some 1) ∧ (s.queue ++ s.enq).Nodup := by
  have hi := invA_reach b hb s h
  have hl := invL_reach b s h
  unfold InvA at hi
  exact ⟨by rw [← hi.1]; exact hi.2.2.2.2.2.2.2.2.2.1, hl.1, hl.2.1⟩

/-- **A bounded batch never strands the remainder**: when the budget runs out the executor re-pings itself -/
theorem batch_never_strands (s : St) (hl : s.loop = 3) (hb : s.budgetLeft = 0) (hc : s.clear = 0) :
    ∃ s1 s2, step s .loopBudgetOut = some s1 ∧ step s1 .loopPost = some s2 ∧ s2.counter = s.counter + 2 ∧ s2.loop = 0 := by
  refine ⟨{ s with loop := 4 }, { s with loop := 0, counter := s.counter + 2 }, ?_, ?_, rfl, rfl⟩
  · simp only [step, hl, hb, and_self, if_true]
  · simp only [step, hc, if_true]; simp

/-- **Results are delivered exactly once**, to completed tasks only -/
theorem result_once (b : Nat) (s : St) (h : Reach b s) :
    s.delivered.Nodup ∧ ∀ t ∈ s.delivered, s.tasks[t]? = some 2 :=
  ⟨(invL_reach b s h).2.2.2, (invL_reach b s h).2.2.1⟩

/-- a completed task is never scheduled or polled again -/
theorem completed_is_final (b : Nat) (s : St) (h : Reach b s) (t : Nat) (hc : s.tasks[t]? = some 2) :
    step s (.wake t) = none ∧ t ∉ s.queue ++ s.enq := by
  have hl := invL_reach b s h
  refine ⟨by simp [step, hc], fun hin => ?_⟩
  have := hl.1 t hin
  rw [hc] at this; simp at this

/-- futures are polled by the loop only: no action of another thread changes a poll count or delivers a result -/
theorem polled_on_loop_only (s s' : St) (a : Act) (hs : step s a = some s')
    (ha : ∀ r, a ≠ .loopDequeue r) (hne : a ≠ .schedule) : s'.polls = s.polls ∧ s'.delivered = s.delivered := by
  cases a <;> simp only [step] at hs <;> (try exact absurd rfl (ha _)) <;> (try exact absurd rfl hne) <;>
    (repeat' split at hs) <;> simp only [Option.some.injEq, reduceCtorEq] at hs <;> (try subst hs) <;> exact ⟨rfl, rfl⟩

/-- **After the executor is dropped** every future is gone (completed earlier, or dropped now) and
    `schedule` answers ExecutorDestroyed -/
theorem drop_drops_all (s s' : St) (hs : step s .dropExecutor = some s') :
    (∀ st ∈ s'.tasks, st = 2 ∨ st = 3) ∧ s'.queue = [] ∧ step s' .schedule = none := by
  simp only [step] at hs
  split at hs <;> simp only [Option.some.injEq, reduceCtorEq] at hs
  subst hs
  refine ⟨?_, rfl, by simp [step]⟩
  intro st hst
  simp only [List.mem_map] at hst
  obtain ⟨x, _, rfl⟩ := hst
  split <;> simp_all

/-! ### non-vacuity -/

/-- a task is woken from another thread while the executor is mid-batch: the flag protocol re-wakes the loop -/
example : (run { budget := 1024 } [.schedule, .enqueue 0, .swapFlag, .wakeWrite, .loopPoll, .loopDrain, .loopClear,
    .loopDequeue false, .wake 0, .enqueue 0, .loopDequeue true, .swapFlag, .loopDequeue false, .loopPost]).map
    (fun s => (s.delivered, s.polls, s.toWake, s.notified)) = some ([0], [2], 1, 1) := by decide


/-! ### StreamSource -/

namespace Stream
open Verif.StreamSrc

theorem dispatch_item (v : Nat) (r : List Step) (o : List (Option Nat)) :
    dispatch { rest := .item v :: r, out := o, removed := false } = dispatch { rest := r, out := o ++ [some v], removed := false } := by
  simp [dispatch, drain, List.append_assoc]

/-- **Every item in order exactly once, then a single `None`, then the source removes itself** — for every stream (every
    pattern of ready items and `Pending` answers) and whatever was delivered before: once the source has been woken
    once more than the stream answered `Pending`, the callback has received exactly the stream's remaining items in the
    stream's order, then one `None`, and the source has asked to be removed. -/
theorem stream_items_in_order_then_none (l : List Step) (o : List (Option Nat)) :
    iter (pendings l + 1) { rest := l, out := o, removed := false } =
      { rest := [], out := o ++ (values l).map some ++ [none], removed := true } := by
  induction l generalizing o with
  | nil => simp [iter, dispatch, drain, pendings, values]
  | cons s r ih =>
    cases s with
    | item v =>
      show iter (pendings r) (dispatch { rest := .item v :: r, out := o, removed := false }) = _
      rw [dispatch_item]
      have := ih (o ++ [some v])
      simp only [iter] at this
      rw [this]
      simp [values, List.append_assoc]
    | pending =>
      show iter (pendings r + 1) (dispatch { rest := .pending :: r, out := o, removed := false }) = _
      have hd : dispatch { rest := .pending :: r, out := o, removed := false } = { rest := r, out := o, removed := false } := by
        simp [dispatch, drain]
      rw [hd, ih o]
      simp [values]

/-- … and after that nothing more is delivered, however often the loop dispatches -/
theorem removed_is_final (s : SS) (h : s.removed = true) (n : Nat) : iter n s = s := by
  induction n generalizing s with
  | zero => rfl
  | succ n ih =>
    have : dispatch s = s := by simp [dispatch, h]
    simp only [iter, this]; exact ih s h

example : (iter 3 { rest := [.item 4, .pending, .item 5, .item 6, .pending] }).out = [some 4, some 5, some 6, none] := by decide

end Stream

end Verif.Props.C10

/-! ### the executor as a FIFO of runnables: single-threaded histories of schedule / complete / wake / dispatch / drop
    (`Verif.ExecFifo`, tied to the real executor by the `slab` queries of `vh execcb`) -/
namespace Verif.Props.C10.Fifo
open Verif.ExecFifo Verif.Inv.ExecFifo

/-- an output is delivered at most once, in every history (task ids name tasks: each is scheduled once) -/
theorem delivered_at_most_once (ops : List Op) (hnd : (scheduledIds ops).Nodup) : (run ops).done.Nodup :=
  (run_inv ops hnd).base.dnd

/-- only outputs of tasks that were scheduled and have completed are delivered -/
theorem delivered_only_completed (ops : List Op) (hnd : (scheduledIds ops).Nodup) :
    ∀ i ∈ (run ops).done, i ∈ (run ops).flags ∧ i ∈ (run ops).sched :=
  (run_inv ops hnd).base.df

/-- no lost output: while the executor lives, every scheduled task that has completed — before or after its first
    poll, woken once or many times — is delivered by the end of the next dispatch at the latest -/
theorem completed_is_delivered_by_the_next_dispatch (ops : List Op) (hnd : (scheduledIds ops).Nodup)
    (halive : (run ops).dead = false) :
    ∀ i ∈ (run ops).sched, i ∈ (run ops).flags → i ∈ (step (run ops) .disp).done := by
  intro i hs hf
  have h := step_inv (run ops) .disp (run_inv ops hnd) (by intro j hj; cases hj)
  have e : step (run ops) .disp =
      { (run ops) with queued := [], done := (run ops).done ++ (run ops).queued.filter (fun i => (run ops).flags.contains i),
                       polled := (run ops).polled ++ (run ops).queued.filter (fun i => !(run ops).flags.contains i),
                       dropped := (run ops).dropped ++ (run ops).queued.filter (fun i => (run ops).flags.contains i) } := by
    simp only [step]; rw [fold_poll]
  have hl := h.live
  rw [e] at hl ⊢
  cases hl halive i hs with
  | inl a => exact a
  | inr a =>
    cases a with
    | inl a => cases a
    | inr a => exact absurd hf a.2

/-- a delivered future has been dropped -/
theorem delivered_future_is_dropped (ops : List Op) (hnd : (scheduledIds ops).Nodup) :
    ∀ i ∈ (run ops).done, i ∈ (run ops).dropped :=
  (run_inv ops hnd).base.dd

/-- once the executor has been dropped, every future it was ever given has been dropped — pending ones too, whoever
    else holds their wakers -/
theorem executor_drop_drops_every_future (ops : List Op) (hnd : (scheduledIds ops).Nodup) (hd : (run ops).dead = true) :
    ∀ i ∈ (run ops).sched, i ∈ (run ops).dropped :=
  ((run_inv ops hnd).base.deadq hd).2

/-- non-vacuity: tasks complete out of scheduling order, one is woken without being complete, the executor goes with a
    task pending -/
example : let s := run [.sch 0, .sch 1, .sch 2, .disp, .cpl 1, .wk 2, .disp, .sch 3, .cpl 0, .cpl 3, .disp, .drop, .cpl 2, .disp]
    s.done = [1, 3, 0] ∧ s.dead = true ∧ (List.range 4).all s.dropped.contains = true := by decide

end Verif.Props.C10.Fifo
