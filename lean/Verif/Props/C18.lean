/-
C18 — TransientSource keeps its child's registration in step with its state.

`C18_partial`: for EVERY sequence of wrapper operations (any length) from both `From<T>` and
`Default`, if no child answers `PostAction::Disable`, Spec_C18 never flags a violation while the
documented protocol is being followed.  `C18_full_false`: with a child answering `Disable` the
property is false of the model — and of the pinned code (finding F7, replayed by the check).
-/
import Verif.Model.Transient
import Verif.Spec.C18

namespace Verif.Props.C18
open Verif.Transient
open Verif.Spec.C18

def regdOf (c : Child) : List Nat := if c.reg then [c.id] else []

def Rel (ts : TS) (m : Mon) : Prop :=
  m.enabled = true ∧
  match ts with
  | .keep c => m.cur = some c.id ∧ m.holding = true ∧ c.reg = m.parentReg ∧ m.regd = regdOf c ∧ c.id ∈ m.seen
  | .register c => m.cur = some c.id ∧ m.holding = true ∧ c.reg = false ∧ m.regd = [] ∧ m.parentReg = false ∧ c.id ∈ m.seen
  | .disable _ => False
  | .remove c => m.cur = none ∧ m.holding = true ∧ m.regd = regdOf c ∧ c.reg = m.parentReg ∧
      (m.parentReg = true → m.dirty = true) ∧ c.id ∈ m.seen
  | .replace n o => m.cur = some n.id ∧ m.holding = true ∧ n.reg = false ∧ m.regd = regdOf o ∧
      o.reg = m.parentReg ∧ (m.parentReg = true → m.dirty = true) ∧ n.id ≠ o.id ∧ n.id ∈ m.seen
  | .none => m.cur = none ∧ m.holding = false ∧ m.regd = []

def R (ts : TS) (m : Mon) : Prop := m.bad = none ∧ (m.inProto = true → Rel ts m)

def noDisable : Op → Bool
  | .pe .disable => false
  | _ => true

theorem monitor_cons (m : Mon) (x : Obs) (xs : List Obs) : monitor m (x :: xs) = monitor (onObs m x) xs := rfl
theorem monitor_nil (m : Mon) : monitor m [] = m := rfl

theorem monitor_frozen (m : Mon) (xs : List Obs) (h : m.inProto = false) : monitor m xs = m := by
  induction xs with
  | nil => rfl
  | cons x xs ih => rw [monitor_cons]; simp only [onObs, h]; exact ih

attribute [local simp] R Rel regdOf step monitor_cons monitor_nil onObs onObsIn onOp protoOk processEvents
    Transient.register reregister unregister tsRemove tsReplace tsMap dropObs
    Child.register Child.reregister Child.unregister
    Mon.flag Mon.forwards Mon.expectedRegd noDisable

theorem step_R (ts : TS) (m : Mon) (o : Op) (h : R ts m) (hd : noDisable o = true) :
    R (step ts o).1 (monitor m (step ts o).2) := by
  obtain ⟨regd, seen, cur, holding, enabled, parentReg, dirty, pending, fwd, inProto, bad, everDisabled, bwd⟩ := m
  obtain ⟨hb, hrel⟩ := h
  simp only at hb; subst hb
  cases inProto with
  | false => rw [monitor_frozen _ _ rfl]; simp [R]
  | true =>
    replace hrel := hrel rfl
    cases ts with
    | none =>
      simp only [Rel] at hrel
      obtain ⟨he, hc, hh, hr⟩ := hrel
      subst he hc hh hr
      cases o with
      | pe r => cases r <;> cases parentReg <;> cases dirty <;> simp
      | tsReplace c => cases parentReg <;> cases dirty <;> by_cases hs : c ∈ seen <;> simp [hs]
      | _ => cases parentReg <;> cases dirty <;> simp
    | keep c =>
      obtain ⟨cid, creg⟩ := c
      simp only [Rel] at hrel
      obtain ⟨he, hc, hh, hr, hrg, hseen⟩ := hrel
      subst he hc hh hr hrg
      cases o with
      | pe r => cases r <;> cases creg <;> cases dirty <;> simp_all
      | tsReplace c => cases creg <;> cases dirty <;> by_cases hs : c ∈ seen <;> simp_all <;> (intro h; subst h; contradiction)
      | _ => cases creg <;> cases dirty <;> simp_all
    | register c =>
      obtain ⟨cid, creg⟩ := c
      simp only [Rel] at hrel
      obtain ⟨he, hc, hh, hr, hrg, hp, hseen⟩ := hrel
      subst he hc hh hr hrg hp
      cases o with
      | pe r => cases r <;> cases dirty <;> simp_all
      | tsReplace c => cases dirty <;> by_cases hs : c ∈ seen <;> simp_all <;> (intro h; subst h; contradiction)
      | _ => cases dirty <;> simp_all
    | disable c => simp [Rel] at hrel
    | remove c =>
      obtain ⟨cid, creg⟩ := c
      simp only [Rel] at hrel
      obtain ⟨he, hc, hh, hr, hrg, hdirty, hseen⟩ := hrel
      subst he hc hh hr hrg
      cases o with
      | pe r => cases r <;> cases creg <;> cases dirty <;> simp_all
      | tsReplace c => cases creg <;> cases dirty <;> by_cases hs : c ∈ seen <;> simp_all <;> (intro h; subst h; contradiction)
      | _ => cases creg <;> cases dirty <;> simp_all
    | replace n o' =>
      obtain ⟨nid, nreg⟩ := n
      obtain ⟨oid, oreg⟩ := o'
      simp only [Rel] at hrel
      obtain ⟨he, hc, hh, hnr, hr, hrg, hdirty, hne, hseen⟩ := hrel
      subst he hc hh hr hrg hnr
      cases o with
      | pe r => cases r <;> cases oreg <;> cases dirty <;> simp_all
      | tsReplace c => cases oreg <;> cases dirty <;> by_cases hs : c ∈ seen <;> simp_all <;> (intro h; subst h; contradiction)
      | _ =>
        have h1 : (oid == nid) = false := by simp; exact fun h => hne h.symm
        have h2 : (nid == oid) = false := by simp [hne]
        have h3 : ¬ oid = nid := fun h => hne h.symm
        cases oreg <;> cases dirty <;> simp [h1, h2, h3, hne, hseen] at hdirty ⊢

theorem monitor_append (m : Mon) (xs ys : List Obs) : monitor m (xs ++ ys) = monitor (monitor m xs) ys := by
  simp only [monitor, List.foldl_append]

/-- The relation is an invariant of every run without a `Disable` answer. -/
theorem run_R (ts : TS) (m : Mon) (ops : List Op) (h : R ts m) (hd : ops.all noDisable = true) :
    R (final ts ops) (monitor m (run ts ops)) := by
  induction ops generalizing ts m with
  | nil => exact h
  | cons o os ih =>
    simp only [List.all_cons, Bool.and_eq_true] at hd
    simp only [run, final, monitor_append]
    exact ih _ _ (step_R ts m o h hd.1) hd.2

theorem R_initFrom (c : Nat) : R (initFrom c) (Mon.initFrom c) := by
  simp [R, Rel, initFrom, Mon.initFrom]

theorem R_initDefault : R initDefault Mon.initDefault := by
  simp [R, Rel, initDefault, Mon.initDefault]

/-- **C18 (partial)** — for every operation sequence of any length, starting from `From<T>` (with
    any child) or from `Default`, in which no child answers `PostAction::Disable`: Spec_C18 flags no
    violation on any protocol-following prefix.  That is: no child is registered while registered
    or unregistered while unregistered, no child is dropped before it is unregistered, events are
    forwarded to the current child only, the wrapper returns only Continue / Reregister, and after
    each parent (re/un)registration the registered children are exactly the current kept child of
    a registered parent. -/
theorem C18_partial (ops : List Op) (hd : ops.all noDisable = true) (c0 : Nat) :
    (∀ b w, verdict (monitor (Mon.initFrom c0) (run (initFrom c0) ops)) ≠ .violated b w) ∧
    (∀ b w, verdict (monitor Mon.initDefault (run initDefault ops)) ≠ .violated b w) := by
  have h1 := (run_R _ _ ops (R_initFrom c0) hd).1
  have h2 := (run_R _ _ ops R_initDefault hd).1
  constructor <;> intro b w <;> simp [verdict, h1, h2] <;> split <;> simp

/-- The full statement (no restriction on the children's answers) is FALSE of the model, which
    mirrors the pinned code: finding F7.  The child answers `Disable`, the parent re-registers
    (child unregistered), and a further parent re-registration unregisters the child again. -/
theorem C18_full_false :
    ∃ ops : List Op,
      (monitor (Mon.initFrom 0) (run (initFrom 0) ops)).inProto = true ∧
      verdict (monitor (Mon.initFrom 0) (run (initFrom 0) ops)) = .violated .unregisterUnregistered true :=
  ⟨[.pRegister, .pe .disable, .pReregister, .pReregister], by decide⟩

/-- The wrapper only ever answers Continue or Reregister, in every state, whatever the child says. -/
theorem ret_cont_or_rereg (ts : TS) (r : PA) :
    ∀ x ∈ (processEvents ts r).2, ∀ p, x = .ret (.pa p) → p = .cont ∨ p = .rereg := by
  cases ts <;> cases r <;> simp [processEvents]

/-- Processing events on an empty wrapper is a no-op. -/
theorem empty_noop (r : PA) : processEvents .none r = (.none, [.ret (.pa .cont)]) := rfl

/-- Events are forwarded in the `Keep` state only, and to the kept child. -/
theorem forward_keep_only (ts : TS) (r : PA) (c : Nat) (h : Obs.pe c ∈ (processEvents ts r).2) :
    ∃ k, ts = .keep k ∧ k.id = c := by
  cases ts <;> cases r <;> simp_all [processEvents]

/-! ### non-vacuity: protocol-following runs with real registration traffic exist -/

example :
    let ops : List Op := [.pRegister, .pe .cont, .tsReplace 1, .pReregister, .pe .remove, .pReregister,
                          .pUnregister, .pRegister]
    let m := monitor (Mon.initFrom 0) (run (initFrom 0) ops)
    m.inProto = true ∧ verdict m = .ok ∧ ops.all noDisable = true := by decide

example :
    let ops : List Op := [.tsReplace 1, .pRegister, .pe .rereg, .pReregister, .tsRemove, .pReregister]
    let m := monitor Mon.initDefault (run initDefault ops)
    m.inProto = true ∧ verdict m = .ok := by decide

end Verif.Props.C18
