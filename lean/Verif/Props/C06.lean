/-
C06 — removed sources are gone for good; their tokens die; everything is released once.

Mechanism theorems: after the slot is vacated its own token resolves to a vacant slot (so
enable/disable/update answer InvalidToken and remove is a no-op); after the slot is reused the old
token does not resolve at all; the generation only comes back after 2^16 reuses (finding F12 is
exactly that wrap).  Release-once and "never called again" are Spec.Core's C06 clauses on the real loop.
-/
import Verif.Inv.Slots
import Verif.Props.C20
import Verif.Model.Loop
import Verif.Inv.TokInv
import Verif.Inv.OwnInv
import Verif.Inv.DeadTok

namespace Verif.Props.C06
open Verif.Token Verif.Slots Verif.Loop

/-- removal: the token still names the slot, but the slot is vacant — `slotDisp` finds no dispatcher -/
theorem token_dead_after_removal (ss : Slots) (t : Tok) (s : Slot) (h : Slots.get ss t = some s) :
    (Slots.get (setOcc ss t.id none) t).bind (·.occ) = none := by
  rw [Verif.Inv.Slots.get_after_vacate ss t s h]; rfl

/-- reuse: the old token no longer resolves, so it cannot touch the newcomer -/
theorem token_dead_after_reuse (ss : Slots) (i : Nat) (t : Tok) (s : Slot)
    (hs : ss[i]? = some s) (ht : sameSource s.tok t = true) (hid : t.id = i)
    (hwf : s.tok.wf Verif.Bridge.Token.bV Verif.Bridge.Token.bS) :
    Slots.get (bumpAt Verif.Bridge.Token.bV ss i) t = none :=
  Verif.Inv.Slots.stale_after_bump ss i t s hs ht hid hwf

/-- … for any number of reuses below the generation period -/
theorem token_dead_below_period (n : Nat) (t : Tok) (h : t.wf Verif.Bridge.Token.bV Verif.Bridge.Token.bS)
    (h0 : 0 < n) (hn : n < 2 ^ Verif.Bridge.Token.bV) :
    sameSource (Verif.Props.C20.bumpN n t) t = false := Verif.Props.C20.bump_lt_period_ne n t h h0 hn

/-- The unrestricted "permanently dead" is FALSE of the model and of the code (finding F12): after
    exactly 2^16 reuses of the slot the first token is valid again. -/
theorem C06_wrap_false :
    ∃ t : Tok, t.wf Verif.Bridge.Token.bV Verif.Bridge.Token.bS ∧
      sameSource (Verif.Props.C20.bumpN (2 ^ Verif.Bridge.Token.bV) t) t = true :=
  ⟨⟨0, 0, 0⟩, by decide, (Verif.Props.C20.bumpN_same_iff _ _ (by decide)).mpr (Nat.dvd_refl _)⟩

/-- removing one source leaves every other slot's lookup untouched -/
theorem removal_frame (ss : Slots) (i : Nat) (t : Tok) (h : t.id ≠ i) :
    Slots.get (setOcc ss i none) t = Slots.get ss t := Verif.Inv.Slots.setOcc_other ss i none t h

/-! ### the whole loop -/

/-- **After every history** of operations, callback programs and dispatches — not aborted by a panic, no generation
    wrapped on the way (`aliased`, finding F12) —
    a registration token the user was handed resolves, if it resolves at all, to the source it was issued for. -/
theorem token_reaches_only_its_source (ops : List Verif.Loop.Op) (hab : (Verif.Loop.run ops).aborted = false)
    (hna : (Verif.Loop.run ops).aliased = false)
    (k : Nat) (tok : Verif.Token.Tok) (d : Nat) (hk : Verif.Loop.alookup (Verif.Loop.run ops).tokens k = some tok)
    (hd : Verif.Loop.slotDisp (Verif.Loop.run ops) tok = some d) : d = k :=
  Verif.Inv.TokInv.token_reaches_only_its_source ops hab hna (Verif.Inv.OwnInv.never_inserted_twice ops hab) k tok d hk hd

/-- … no dispatcher sits in two slots, and the user's token for the occupant of a slot is that slot's own token -/
theorem occupants_unique_and_known (ops : List Verif.Loop.Op) (hab : (Verif.Loop.run ops).aborted = false)
    (hna : (Verif.Loop.run ops).aliased = false) :
    Verif.Inv.TokInv.U (Verif.Loop.run ops).slots ∧
    Verif.Inv.TokInv.SP (Verif.Loop.run ops).slots (Verif.Loop.run ops).tokens none :=
  Verif.Inv.TokInv.occupants_unique_and_known ops hab hna (Verif.Inv.OwnInv.never_inserted_twice ops hab)

/-- **After every history** not aborted by a panic: no source object was ever inserted while it already sat in a slot
    (Rust: `insert_source` consumes the value; the model: the `owned` flag) — which is why the theorems above need no
    hypothesis about it — and whatever sits in a slot is out of the user's hands. -/
theorem never_inserted_twice (ops : List Verif.Loop.Op) (hab : (Verif.Loop.run ops).aborted = false) :
    (Verif.Loop.run ops).dupInsert = false ∧
    ∀ k, Verif.Loop.inSlot (Verif.Loop.run ops) k = true →
      (Verif.Loop.alookup (Verif.Loop.run ops).srcs k).map (·.owned) = some false :=
  ⟨Verif.Inv.OwnInv.never_inserted_twice ops hab, fun k h => Verif.Inv.OwnInv.occupant_not_owned ops hab k h⟩

/-- **For every history and every continuation of it**: a source that was handed a token and has left its slot (removed
    from outside, removed by its own callback, by a `Remove` post action, by a failed …) never sits in a slot again, and
    its token resolves to nothing for the rest of the history — whatever is inserted into the vacated slot meanwhile —
    unless a generation wraps (`aliased`: finding F12, then `C06_wrap_false` applies). -/
theorem dead_token_stays_dead (ops ops' : List Verif.Loop.Op)
    (hab : (Verif.Loop.run (ops ++ ops')).aborted = false) (hna : (Verif.Loop.run (ops ++ ops')).aliased = false)
    (k : Nat) (tok : Verif.Token.Tok)
    (hk : Verif.Loop.alookup (Verif.Loop.run ops).tokens k = some tok)
    (hout : Verif.Loop.inSlot (Verif.Loop.run ops) k = false) :
    Verif.Loop.slotDisp (Verif.Loop.run (ops ++ ops')) tok = none :=
  Verif.Inv.DeadTok.dead_token_stays_dead ops ops' hab hna k tok hk hout

/-- non-vacuity: source 1 is removed; its slot is reused twice afterwards, sources come and go, the loop dispatches -/
def removedThenReused : List Verif.Loop.Op × List Verif.Loop.Op :=
  ([.c (.newPing 1), .c (.insert 1), .c (.remove 1)],
   [.c (.newPing 2), .c (.insert 2), .c (.newPing 3), .c (.insert 3), .c (.remove 2), .c (.newTimer 4 (some 3)),
    .c (.insert 4), .c (.ping 3), .dispatch])

example :
    (Verif.Loop.alookup (Verif.Loop.run removedThenReused.1).tokens 1).isSome = true ∧
    Verif.Loop.inSlot (Verif.Loop.run removedThenReused.1) 1 = false ∧
    (Verif.Loop.run (removedThenReused.1 ++ removedThenReused.2)).aborted = false ∧
    (Verif.Loop.run (removedThenReused.1 ++ removedThenReused.2)).aliased = false ∧
    Verif.Slots.occupied (Verif.Loop.run (removedThenReused.1 ++ removedThenReused.2)).slots = 2 := by decide +kernel

end Verif.Props.C06
