/-
C03 — ping wake-ups are never lost across threads; they coalesce; close is clean.

All theorems are about every reachable state of `PingProto` — any number of pinging threads and
handle clones, any interleaving at the granularity of single eventfd writes / the loop's read —
by induction over `Reach`; every step obligation is linear arithmetic (`omega`).
-/
import Verif.Model.PingProto

namespace Verif.Props.C03
open Verif.PingProto

def Inv (s : St) : Prop :=
  s.counter = 2 * s.unc + s.closeP ∧
  s.closeP ≤ 1 ∧ s.closes ≤ 1 ∧ s.inDrop ≤ 1 ∧ s.closeP ≤ s.closes ∧ s.pend ≤ 1 ∧ s.reg ≤ 1 ∧ s.loop ≤ 3 ∧
  (s.inDrop = 1 → s.holders = 0 ∧ s.inPing = 0 ∧ s.closes = 0) ∧
  (s.closes = 1 → s.holders = 0 ∧ s.inPing = 0 ∧ s.inDrop = 0) ∧
  (s.owed > 0 → s.unc > 0 ∨ s.pend = 1) ∧
  s.cbs + s.pend + s.unc ≤ s.written ∧
  (s.loop = 1 → s.counter > 0) ∧
  (s.loop ≠ 0 → s.reg = 1) ∧
  (s.loop = 2 → (s.pend = 1 ↔ s.lc ≥ 2)) ∧
  (s.loop ≠ 2 → s.pend = 0) ∧
  ((s.loop = 2 ∨ s.loop = 3) → s.lc % 2 = 1 → s.closes = 1 ∧ s.closeP = 0 ∧ s.unc = 0) ∧
  (s.loop = 3 → s.lc % 2 = 1 → s.owed = 0) ∧
  (s.reg = 0 → s.closes = 1 ∧ s.closeP = 0 ∧ s.owed = 0 ∧ s.unc = 0)

theorem inv_init (n : Nat) : Inv { holders := n } := by
  simp [Inv]

theorem inv_pingStart (s s' : St) (h : Inv s) (hs : step s .pingStart = some s') : Inv s' := by
  unfold Inv at h ⊢
  simp only [step] at hs
  (repeat' split at hs) <;>
    simp only [Option.some.injEq, reduceCtorEq] at hs <;>
    (try subst hs) <;> simp only <;>
    (refine ⟨?_, ?_, ?_, ?_, ?_, ?_, ?_, ?_, ?_, ?_, ?_, ?_, ?_, ?_, ?_, ?_, ?_, ?_, ?_⟩) <;>
    (first
      | omega
      | (simp only [true_and, and_true, true_implies, implies_true, forall_const] <;> omega)
      | (split <;> omega)
      | (split <;> simp only [true_and, and_true, true_implies, implies_true, forall_const] <;> omega)
      | (simp only [true_and, and_true, true_implies, implies_true, forall_const, or_true, true_or, true_iff, iff_true] <;> omega)
      | (simp <;> omega))

theorem inv_pingWrite (s s' : St) (h : Inv s) (hs : step s .pingWrite = some s') : Inv s' := by
  unfold Inv at h ⊢
  simp only [step] at hs
  (repeat' split at hs) <;>
    simp only [Option.some.injEq, reduceCtorEq] at hs <;>
    (try subst hs) <;> simp only <;>
    (refine ⟨?_, ?_, ?_, ?_, ?_, ?_, ?_, ?_, ?_, ?_, ?_, ?_, ?_, ?_, ?_, ?_, ?_, ?_, ?_⟩) <;>
    (first
      | omega
      | (simp only [true_and, and_true, true_implies, implies_true, forall_const] <;> omega)
      | (split <;> omega)
      | (split <;> simp only [true_and, and_true, true_implies, implies_true, forall_const] <;> omega)
      | (simp only [true_and, and_true, true_implies, implies_true, forall_const, or_true, true_or, true_iff, iff_true] <;> omega)
      | (simp <;> omega))

theorem inv_clone (s s' : St) (h : Inv s) (hs : step s .clone = some s') : Inv s' := by
  unfold Inv at h ⊢
  simp only [step] at hs
  (repeat' split at hs) <;>
    simp only [Option.some.injEq, reduceCtorEq] at hs <;>
    (try subst hs) <;> simp only <;>
    (refine ⟨?_, ?_, ?_, ?_, ?_, ?_, ?_, ?_, ?_, ?_, ?_, ?_, ?_, ?_, ?_, ?_, ?_, ?_, ?_⟩) <;>
    (first
      | omega
      | (simp only [true_and, and_true, true_implies, implies_true, forall_const] <;> omega)
      | (split <;> omega)
      | (split <;> simp only [true_and, and_true, true_implies, implies_true, forall_const] <;> omega)
      | (simp only [true_and, and_true, true_implies, implies_true, forall_const, or_true, true_or, true_iff, iff_true] <;> omega)
      | (simp <;> omega))

theorem inv_dropStart (s s' : St) (h : Inv s) (hs : step s .dropStart = some s') : Inv s' := by
  unfold Inv at h ⊢
  simp only [step] at hs
  (repeat' split at hs) <;>
    simp only [Option.some.injEq, reduceCtorEq] at hs <;>
    (try subst hs) <;> simp only <;>
    (refine ⟨?_, ?_, ?_, ?_, ?_, ?_, ?_, ?_, ?_, ?_, ?_, ?_, ?_, ?_, ?_, ?_, ?_, ?_, ?_⟩) <;>
    (first
      | omega
      | (simp only [true_and, and_true, true_implies, implies_true, forall_const] <;> omega)
      | (split <;> omega)
      | (split <;> simp only [true_and, and_true, true_implies, implies_true, forall_const] <;> omega)
      | (simp only [true_and, and_true, true_implies, implies_true, forall_const, or_true, true_or, true_iff, iff_true] <;> omega)
      | (simp <;> omega))

theorem inv_dropWrite (s s' : St) (h : Inv s) (hs : step s .dropWrite = some s') : Inv s' := by
  unfold Inv at h ⊢
  simp only [step] at hs
  (repeat' split at hs) <;>
    simp only [Option.some.injEq, reduceCtorEq] at hs <;>
    (try subst hs) <;> simp only <;>
    (refine ⟨?_, ?_, ?_, ?_, ?_, ?_, ?_, ?_, ?_, ?_, ?_, ?_, ?_, ?_, ?_, ?_, ?_, ?_, ?_⟩) <;>
    (first
      | omega
      | (simp only [true_and, and_true, true_implies, implies_true, forall_const] <;> omega)
      | (split <;> omega)
      | (split <;> simp only [true_and, and_true, true_implies, implies_true, forall_const] <;> omega)
      | (simp only [true_and, and_true, true_implies, implies_true, forall_const, or_true, true_or, true_iff, iff_true] <;> omega)
      | (simp <;> omega))

theorem inv_loopPoll (s s' : St) (h : Inv s) (hs : step s .loopPoll = some s') : Inv s' := by
  unfold Inv at h ⊢
  simp only [step] at hs
  (repeat' split at hs) <;>
    simp only [Option.some.injEq, reduceCtorEq] at hs <;>
    (try subst hs) <;> simp only <;>
    (refine ⟨?_, ?_, ?_, ?_, ?_, ?_, ?_, ?_, ?_, ?_, ?_, ?_, ?_, ?_, ?_, ?_, ?_, ?_, ?_⟩) <;>
    (first
      | omega
      | (simp only [true_and, and_true, true_implies, implies_true, forall_const] <;> omega)
      | (split <;> omega)
      | (split <;> simp only [true_and, and_true, true_implies, implies_true, forall_const] <;> omega)
      | (simp only [true_and, and_true, true_implies, implies_true, forall_const, or_true, true_or, true_iff, iff_true] <;> omega)
      | (simp <;> omega))

theorem inv_loopDrain (s s' : St) (h : Inv s) (hs : step s .loopDrain = some s') : Inv s' := by
  unfold Inv at h ⊢
  simp only [step] at hs
  (repeat' split at hs) <;>
    simp only [Option.some.injEq, reduceCtorEq] at hs <;>
    (try subst hs) <;> simp only <;>
    (refine ⟨?_, ?_, ?_, ?_, ?_, ?_, ?_, ?_, ?_, ?_, ?_, ?_, ?_, ?_, ?_, ?_, ?_, ?_, ?_⟩) <;>
    (first
      | omega
      | (simp only [true_and, and_true, true_implies, implies_true, forall_const] <;> omega)
      | (split <;> omega)
      | (split <;> simp only [true_and, and_true, true_implies, implies_true, forall_const] <;> omega)
      | (simp only [true_and, and_true, true_implies, implies_true, forall_const, or_true, true_or, true_iff, iff_true] <;> omega)
      | (simp <;> omega))

theorem inv_loopCallback (s s' : St) (h : Inv s) (hs : step s .loopCallback = some s') : Inv s' := by
  unfold Inv at h ⊢
  simp only [step] at hs
  (repeat' split at hs) <;>
    simp only [Option.some.injEq, reduceCtorEq] at hs <;>
    (try subst hs) <;> simp only <;>
    (refine ⟨?_, ?_, ?_, ?_, ?_, ?_, ?_, ?_, ?_, ?_, ?_, ?_, ?_, ?_, ?_, ?_, ?_, ?_, ?_⟩) <;>
    (first
      | omega
      | (simp only [true_and, and_true, true_implies, implies_true, forall_const] <;> omega)
      | (split <;> omega)
      | (split <;> simp only [true_and, and_true, true_implies, implies_true, forall_const] <;> omega)
      | (simp only [true_and, and_true, true_implies, implies_true, forall_const, or_true, true_or, true_iff, iff_true] <;> omega)
      | (simp <;> omega))

theorem inv_loopPost (s s' : St) (h : Inv s) (hs : step s .loopPost = some s') : Inv s' := by
  unfold Inv at h ⊢
  simp only [step] at hs
  (repeat' split at hs) <;>
    simp only [Option.some.injEq, reduceCtorEq] at hs <;>
    (try subst hs) <;> simp only <;>
    (refine ⟨?_, ?_, ?_, ?_, ?_, ?_, ?_, ?_, ?_, ?_, ?_, ?_, ?_, ?_, ?_, ?_, ?_, ?_, ?_⟩) <;>
    (first
      | omega
      | (simp only [true_and, and_true, true_implies, implies_true, forall_const] <;> omega)
      | (split <;> omega)
      | (split <;> simp only [true_and, and_true, true_implies, implies_true, forall_const] <;> omega)
      | (simp only [true_and, and_true, true_implies, implies_true, forall_const, or_true, true_or, true_iff, iff_true] <;> omega)
      | (simp <;> omega))

theorem inv_step (s s' : St) (a : Act) (h : Inv s) (hs : step s a = some s') : Inv s' := by
  cases a
  · exact inv_pingStart s s' h hs
  · exact inv_pingWrite s s' h hs
  · exact inv_clone s s' h hs
  · exact inv_dropStart s s' h hs
  · exact inv_dropWrite s s' h hs
  · exact inv_loopPoll s s' h hs
  · exact inv_loopDrain s s' h hs
  · exact inv_loopCallback s s' h hs
  · exact inv_loopPost s s' h hs

theorem inv_reach (n : Nat) (s : St) (h : Reach n s) : Inv s := by
  induction h with
  | init => exact inv_init n
  | step a _ hs ih => exact inv_step _ _ a ih hs

/-! ### the property, clause by clause (every reachable state, any number of threads) -/

/-- **No lost wake-up.**  While a completed `ping()` has not yet been followed by a callback start,
    the source is still in the loop and either the eventfd is readable with the ping bits set (the
    level-triggered poll must report it) or the loop has already read such a value and the callback
    is the very next step. -/
theorem no_lost_wakeup (n : Nat) (s : St) (h : Reach n s) (ho : s.owed > 0) :
    s.reg = 1 ∧ (s.counter ≥ 2 ∨ (s.loop = 2 ∧ s.lc ≥ 2)) := by
  have := inv_reach n s h
  unfold Inv at this
  omega

/-- … so an idle loop that polls does get the event, -/
theorem poll_sees_owed (n : Nat) (s : St) (h : Reach n s) (ho : s.owed > 0) (hl : s.loop = 0) :
    ∃ s', step s .loopPoll = some s' ∧ s'.loop = 1 := by
  have := no_lost_wakeup n s h ho
  refine ⟨{ s with loop := 1 }, ?_, rfl⟩
  simp only [step]
  rw [if_pos]
  omega

/-- … the drain that follows reads the ping bits (whatever other threads did in between), -/
theorem drain_reads_ping (n : Nat) (s : St) (h : Reach n s) (ho : s.owed > 0) (hl : s.loop = 1) :
    ∃ s', step s .loopDrain = some s' ∧ s'.loop = 2 ∧ s'.lc ≥ 2 ∧ s'.counter = 0 := by
  have := no_lost_wakeup n s h ho
  refine ⟨{ s with loop := 2, lc := s.counter, counter := 0, unc := 0, closeP := 0,
                    pend := if s.counter ≥ 2 then 1 else 0 }, ?_, rfl, ?_, rfl⟩
  · simp only [step, hl, if_true]
  · simp only; omega

/-- … and the callback runs, covering every ping completed so far. -/
theorem callback_covers (s : St) (hl : s.loop = 2) (hc : s.lc ≥ 2) :
    ∃ s', step s .loopCallback = some s' ∧ s'.cbs = s.cbs + 1 ∧ s'.owed = 0 := by
  refine ⟨{ s with loop := 3, cbs := s.cbs + 1, owed := 0, pend := 0 }, ?_, rfl, rfl⟩
  simp only [step, hl, hc, if_true]

/-- No action of a pinging thread can take readiness away or disturb the loop's progress. -/
theorem env_monotone (s s' : St) (a : Act)
    (ha : a = .pingStart ∨ a = .pingWrite ∨ a = .clone ∨ a = .dropStart ∨ a = .dropWrite)
    (hs : step s a = some s') :
    s'.counter ≥ s.counter ∧ s'.loop = s.loop ∧ s'.lc = s.lc ∧ s'.reg = s.reg ∧ s'.cbs = s.cbs ∧ s'.owed ≥ s.owed := by
  rcases ha with rfl | rfl | rfl | rfl | rfl <;> simp only [step] at hs <;>
    (repeat' split at hs) <;> simp only [Option.some.injEq, reduceCtorEq] at hs <;>
    (try subst hs) <;> (refine ⟨?_, ?_, ?_, ?_, ?_, ?_⟩) <;> simp only <;> first | rfl | omega

/-- **No callback without a ping**, and pings coalesce: callbacks never outnumber the pings drained. -/
theorem no_spurious (n : Nat) (s : St) (h : Reach n s) : s.cbs + s.pend + s.unc ≤ s.written := by
  have := inv_reach n s h
  unfold Inv at this
  omega

/-- one drain absorbs every completed ping, and yields at most one callback -/
theorem coalesce (s s' : St) (hs : step s .loopDrain = some s') : s'.unc = 0 ∧ s'.pend ≤ 1 := by
  simp only [step] at hs
  split at hs <;> simp only [Option.some.injEq, reduceCtorEq] at hs
  subst hs
  simp only
  constructor
  · trivial
  · split <;> omega

/-- the eventfd counter is exactly twice the undrained pings plus the undrained close -/
theorem counter_shape (n : Nat) (s : St) (h : Reach n s) : s.counter = 2 * s.unc + s.closeP ∧ s.closeP ≤ 1 := by
  have := inv_reach n s h
  unfold Inv at this
  omega

/-- **Clean close.**  The close is written at most once, only when no handle is left, -/
theorem close_once (n : Nat) (s : St) (h : Reach n s) :
    s.closes ≤ 1 ∧ (s.closes = 1 → s.holders = 0 ∧ s.inPing = 0 ∧ s.inDrop = 0) := by
  have := inv_reach n s h
  unfold Inv at this
  omega

/-- … an outstanding ping is still delivered by the dispatch that sees the close, which then removes
    the source, -/
theorem outstanding_ping_then_removal (s : St) (hl : s.loop = 2) (hc : s.lc ≥ 2) (hodd : s.lc % 2 = 1) :
    ∃ s1 s2, step s .loopCallback = some s1 ∧ step s1 .loopPost = some s2 ∧
      s2.cbs = s.cbs + 1 ∧ s2.reg = 0 ∧ s2.loop = 0 := by
  refine ⟨{ s with loop := 3, cbs := s.cbs + 1, owed := 0, pend := 0 },
          { s with loop := 0, cbs := s.cbs + 1, owed := 0, pend := 0, reg := 0 }, ?_, ?_, rfl, rfl, rfl⟩
  · simp only [step, hl, hc, if_true]
  · simp only [step, hodd, if_true]

/-- … and once removed nothing at all is enabled any more: no thread can write, the loop never
    polls this source again — it cannot keep the loop spinning. -/
theorem removed_is_quiescent (n : Nat) (s : St) (h : Reach n s) (hr : s.reg = 0) :
    ∀ a, step s a = none := by
  have := inv_reach n s h
  unfold Inv at this
  intro a
  cases a <;> simp only [step] <;> (try split) <;> (try split) <;> first | rfl | omega

/-- a removed source has nothing left in the eventfd -/
theorem removed_counter_zero (n : Nat) (s : St) (h : Reach n s) (hr : s.reg = 0) : s.counter = 0 := by
  have := inv_reach n s h
  unfold Inv at this
  omega

/-! ### non-vacuity: concrete schedules -/

/-- two threads ping concurrently, the loop drains once: one callback covers both -/
example : (run { holders := 2 } [.pingStart, .pingStart, .pingWrite, .loopPoll, .pingWrite, .loopDrain, .loopCallback, .loopPost]).map
    (fun s => (s.cbs, s.owed, s.counter, s.reg)) = some (1, 0, 0, 1) := by decide

/-- ping, then the last handle is dropped before the loop runs: the ping is delivered, then the source removed -/
example : (run { holders := 1 } [.pingStart, .pingWrite, .dropStart, .dropWrite, .loopPoll, .loopDrain, .loopCallback, .loopPost]).map
    (fun s => (s.cbs, s.reg, s.counter)) = some (1, 0, 0) := by decide

example : Reach 2 { holders := 1, inPing := 1 } := Reach.step .pingStart Reach.init rfl

end Verif.Props.C03
