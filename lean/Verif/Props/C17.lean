/-
C17 — Async adapter: byte-exact I/O, tasks always woken, blocking mode restored.

Every reachable state of `AsyncProto` (any chunking of the peer's writes and of the task's reads,
any placement of the loop's reports between them).  The byte *transport* is the kernel's (a FIFO);
what is decided here is the bookkeeping: conservation, the wake obligation, the fd flags.
-/
import Verif.Model.AsyncProto

namespace Verif.Props.C17
open Verif.AsyncProto

def Inv (s : St) : Prop :=
  s.got + s.avail = s.sent ∧
  s.armed ≤ 1 ∧ s.queued ≤ 1 ∧ s.waiting ≤ 1 ∧ s.wantArm ≤ 1 ∧ s.woken ≤ 1 ∧ s.alive ≤ 1 ∧ s.nonblock ≤ 1 ∧ s.wasNonblock ≤ 1 ∧
  s.stale ≤ 1 ∧ (s.waiting = 1 → s.stale = 0) ∧
  (s.waiting = 1 → s.armed = 1) ∧
  (s.waiting = 1 → s.avail ≥ 1 → s.queued = 1) ∧
  s.waiting + s.wantArm + s.woken ≤ 1 ∧
  (s.alive = 1 → s.nonblock = 1) ∧
  (s.alive = 0 → s.nonblock = s.wasNonblock ∧ s.armed = 0 ∧ s.queued = 0)

macro "closeArith" : tactic => `(tactic| first
  | omega
  | (simp only [true_or, or_true, true_and, and_true, true_implies, implies_true, ne_eq, not_true_eq_false, not_false_eq_true,
       false_or, or_false, false_and, and_false, false_implies] <;> omega)
  | (split <;> omega)
  | (split <;> split <;> omega)
  | (simp <;> omega)
  | simp)

theorem inv_init (was : Nat) (h : was ≤ 1) : Inv { wasNonblock := was } := by
  simp [Inv]; omega

theorem inv_step (s s' : St) (a : Act) (h : Inv s) (hs : step s a = some s') : Inv s' := by
  unfold Inv at h ⊢
  cases a <;> simp only [step] at hs <;>
  (repeat' split at hs) <;> simp only [Option.some.injEq, reduceCtorEq] at hs <;> (try subst hs) <;> simp only <;>
  (refine ⟨?_, ?_, ?_, ?_, ?_, ?_, ?_, ?_, ?_, ?_, ?_, ?_, ?_, ?_, ?_, ?_⟩) <;> closeArith

theorem inv_reach (was : Nat) (hw : was ≤ 1) (s : St) (h : Reach was s) : Inv s := by
  induction h with
  | init => exact inv_init was hw
  | step a _ hs ih => exact inv_step _ _ a ih hs

/-- **Conservation**: what the task has read plus what the kernel still holds is exactly what the peer
    wrote — for every chunking of writes and reads (no byte invented, dropped or read twice). -/
theorem conservation (was : Nat) (hw : was ≤ 1) (s : St) (h : Reach was s) : s.got + s.avail = s.sent := by
  have := inv_reach was hw s h; unfold Inv at this; omega

/-- **The task is always woken**: while it is parked and the fd is ready, the one-shot registration is
    armed and sits on the poller's ready list — the next wait reports it and wakes the task.  In
    particular progress of the peer made between the task's WouldBlock and its arming is not lost
    (the MOD re-evaluates readiness). -/
theorem no_lost_wake (was : Nat) (hw : was ≤ 1) (s : St) (h : Reach was s) (hwait : s.waiting = 1) (hr : s.avail ≥ 1) :
    s.armed = 1 ∧ s.queued = 1 ∧ ∃ s', step s .loopReport = some s' ∧ s'.woken = 1 := by
  have hi := inv_reach was hw s h; unfold Inv at hi
  have ha : s.armed = 1 := by omega
  have hq : s.queued = 1 := by omega
  have hal : s.alive = 1 := by omega
  have hst : s.stale = 0 := by omega
  refine ⟨ha, hq, { s with queued := 0, armed := 0, stale := 0, woken := 1, waiting := 0 }, ?_, rfl⟩
  simp only [step, hal, hq, ha, hr, hwait, hst, and_self, if_true]

/-- **The waker that is woken is the last one the operation was polled with**: while the task is parked,
    the waker stored in the dispatcher is its own — also when the same wait was polled under another
    waker first (`probeArm`) and the fd was not ready in between. -/
theorem parked_waker_is_current (was : Nat) (hw : was ≤ 1) (s : St) (h : Reach was s) (hwait : s.waiting = 1) :
    s.stale = 0 := by
  have hi := inv_reach was hw s h; unfold Inv at hi; omega

/-- a parked task is always armed (so later progress of the peer queues the registration) -/
theorem parked_is_armed (was : Nat) (hw : was ≤ 1) (s : St) (h : Reach was s) (hwait : s.waiting = 1) :
    s.armed = 1 ∧ ∀ n, n ≥ 1 → ∃ s', step s (.peerWrite n) = some s' ∧ s'.queued = 1 := by
  have hi := inv_reach was hw s h; unfold Inv at hi
  have ha : s.armed = 1 := by omega
  refine ⟨ha, fun n hn => ⟨{ s with avail := s.avail + n, sent := s.sent + n, queued := (if s.armed = 1 then 1 else s.queued) }, ?_, ?_⟩⟩
  · simp only [step, hn, if_true]
  · simp only [ha, if_true]

/-- the task is in exactly one place: parked, between WouldBlock and arming, woken, or running -/
theorem task_state_exclusive (was : Nat) (hw : was ≤ 1) (s : St) (h : Reach was s) :
    s.waiting + s.wantArm + s.woken ≤ 1 := by
  have := inv_reach was hw s h; unfold Inv at this; omega

/-- **Blocking mode**: the fd is non-blocking while the adapter lives and has its previous mode back
    after drop / into_inner; the poller no longer holds it (finding F5's fix). -/
theorem flags_and_registration (was : Nat) (hw : was ≤ 1) (s : St) (h : Reach was s) :
    (s.alive = 1 → s.nonblock = 1) ∧ (s.alive = 0 → s.nonblock = s.wasNonblock ∧ s.armed = 0 ∧ s.queued = 0) := by
  have := inv_reach was hw s h; unfold Inv at this; omega

/-! ### non-vacuity -/

/-- the peer writes between the task's WouldBlock and its arming: the MOD queues the registration -/
example : (run { wasNonblock := 0 } [.taskRun, .taskBlock, .peerWrite 5, .taskArm, .loopReport, .taskRun, .taskRead 3, .taskRead 3]).map
    (fun s => (s.got, s.avail, s.sent, s.woken)) = some (5, 0, 5, 0) := by decide

/-- the wait is polled under a throw-away waker, then under the task's own: the peer's progress wakes the task -/
example : (run { wasNonblock := 0 } [.taskRun, .taskBlock, .probeArm, .taskArm, .peerWrite 2, .loopReport]).map
    (fun s => (s.woken, s.stale, s.waiting)) = some (1, 0, 0) := by decide

example : (run { wasNonblock := 0 } [.taskRun, .taskBlock, .taskArm, .dropAdapter]).map (fun s => (s.nonblock, s.armed)) = some (0, 0) := by
  decide

end Verif.Props.C17
