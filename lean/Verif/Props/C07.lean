/-
C07 — disable() silences a source until enable(); readiness survives the gap.

Mechanism theorems: a `Generic` that has been unregistered forgets its token, so its gate rejects
every event — including those already collected in the current batch; a timer without a
registration, or whose current arming is still in the wheel (re-armed after the event was
collected), does not fire; unregistering an fd removes it from the ready list as well.
-/
import Verif.Inv.Kernel
import Verif.Model.Loop
import Verif.Inv.Ctl
import Verif.Inv.Release

namespace Verif.Props.C07
open Verif.Token Verif.Kernel Verif.Loop Verif.Wheel

/-- after unregistration no event passes the gate, whatever its token -/
theorem unregistered_gate_closed (g : Gen) (key : Tok) : g.unregistered.gate key = false := by
  simp [Gen.unregistered, Gen.gate]

/-- a timer with no registration (disabled) never fires, whatever event arrives -/
theorem disabled_timer_silent (s : Src) (key : Tok) (w : Wheel) (h : s.treg = none) :
    timerFires s key w = none := by
  simp [timerFires, h]

/-- a timer whose current arming still waits in the wheel ignores a collected expiry (finding F10's fix) -/
theorem stale_expiry_ignored (s : Src) (key : Tok) (w : Wheel) (t : Tok) (c : Nat)
    (h : s.treg = some (t, c)) (hw : w.heap.any (·.counter == c) = true) :
    timerFires s key w = none := by
  unfold timerFires
  rw [h]
  cases s.deadline with
  | none => rfl
  | some d => simp only; split <;> simp_all

/-- unregistering an fd also takes it off the poller's ready list: no ghost event after disable -/
theorem unregister_clears_ready (k k' : Kernel) (fd : Nat) (h : epDel k fd = .ok k') :
    entry? k' fd = none ∧ fd ∉ k'.rdl :=
  ⟨(Verif.Inv.Kernel.epDel_ok k k' fd h).1, (Verif.Inv.Kernel.epDel_ok k k' fd h).2.1⟩

/-- disabling one fd leaves every other registration in place -/
theorem unregister_frame (k k' : Kernel) (fd : Nat) (h : epDel k fd = .ok k') :
    ∀ e ∈ k.ep, e.fd ≠ fd → e ∈ k'.ep := (Verif.Inv.Kernel.epDel_ok k k' fd h).2.2.1

/-- readiness survives: disabling does not consume the eventfd counter -/
theorem readiness_survives (k k' : Kernel) (fd other : Nat) (h : epDel k fd = .ok k') :
    counter k' other = counter k other := by
  unfold epDel at h
  cases hent : entry? k fd with
  | none => simp [hent] at h
  | some x => simp only [hent] at h; injection h with h; subst h; rfl

/-! ### the whole loop: when a disable takes effect, and that it reaches nobody else -/

/-- a disable a source requested on itself (deferred: `pending_action = Disable`) and a `Continue` return:
    when its event processing has finished, exactly the `unregister` of that source is carried out -/
theorem deferred_disable_applied (k : Nat) (reg : Tok) :
    poApply k reg (.ok .Continue) .Disable = (do let _ ← dUnregister k reg) := rfl

/-- … and an explicit `Disable` return does the same whatever was deferred -/
theorem explicit_disable_applied (k : Nat) (reg : Tok) (p : PA) :
    poApply k reg (.ok .Disable) p = (do let _ ← dUnregister k reg) := rfl

/-- outside event processing (top level, idle callbacks) `disable` acts at once: nothing stays deferred that a
    later event of *another* source could pick up -/
theorem disable_outside_processing_is_immediate (k : Nat) :
    Verif.Inv.Keeps (execC (.disable k)) (Verif.Inv.Ctl.Top none) := Verif.Inv.Ctl.keeps_top_execC _ none

/-- and whatever was deferred during one event is gone when the next event starts (see `Verif.Props.C09`) -/
theorem nothing_deferred_reaches_the_next_event (ev : Verif.Kernel.Event) :
    Verif.Inv.Ctl.Hoare (Verif.Inv.Ctl.Top none) (processOne ev) (fun _ => Verif.Inv.Ctl.Top none) (Verif.Inv.Ctl.Top none) :=
  Verif.Inv.Ctl.hoare_processOne ev


/-! ### what a successful unregistration leaves behind -/

open Verif.Loop in
/-- **From every state** in which object `k` has the shape its constructor gave it: when the source-level unregistration
    that `disable`, `remove`, a `Disable` / `Remove` post action and the clean-up of a self-removed source all perform
    returns normally, no sub-source of `k` holds the poller or a token any more.  With `C16.released_fd_not_registered`:
    its fds are gone from the kernel's table (unless another source holds them), so no event can reach it while it is
    disabled. -/
theorem unregistration_releases_every_sub_source (k : Nat) (s : St) (hs : Verif.Inv.Release.Shaped k s) :
    match srcUnregister k s with
    | .ok _ s' => ∀ src, alookup s'.srcs k = some src → ∀ g ∈ src.gens, g.poller = false ∧ g.token = none
    | .error _ _ => True := by
  have := Verif.Inv.Release.srcUnregister_releases k s hs
  cases hx : srcUnregister k s with
  | ok a s' => rw [hx] at this; exact this
  | error e s' => trivial

open Verif.Loop in
/-- non-vacuity: a composite source with three registered sub-sources -/
def releaseWitness : Bool :=
  let s := run [.c (.newCustom 1 3 false), .c (.insert 1)]
  (match alookup s.srcs 1 with | some src => src.gens.all (·.poller) | none => false) &&
  (match srcUnregister 1 s with
   | .ok _ s' => (match alookup s'.srcs 1 with | some src => src.gens.all (fun g => !g.poller && g.token.isNone) && src.gens.length == 3 | none => false)
   | .error _ _ => false)

example : releaseWitness = true := by decide +kernel

end Verif.Props.C07
