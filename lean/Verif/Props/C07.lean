/-
C07 — disable() silences a source until enable(); readiness survives the gap.

Mechanism theorems: a `Generic` that has been unregistered forgets its token, so its gate rejects
every event — including those already collected in the current batch; a timer without a
registration, or whose current arming is still in the wheel (re-armed after the event was
collected), does not fire; unregistering an fd removes it from the ready list as well.
-/
import Verif.Inv.Kernel
import Verif.Model.Loop

namespace Verif.Props.C07
open Verif.Token Verif.Kernel Verif.Loop Verif.Wheel

/-- after unregistration no event passes the gate, whatever its token -/
theorem unregistered_gate_closed (g : Gen) (key : Tok) : g.unregistered.gate key = false := by
  simp [Gen.unregistered, Gen.gate]

/-- a timer with no registration (disabled) never fires, whatever event arrives -/
theorem disabled_timer_silent (s : Src) (key : Tok) (w : Wheel) (h : s.treg = none) :
    timerFires s key w = none := by
  simp [timerFires, h]

/-- a timer whose current arming still waits in the wheel ignores a collected expiry (finding F10's fix) -/
theorem stale_expiry_ignored (s : Src) (key : Tok) (w : Wheel) (t : Tok) (c : Nat)
    (h : s.treg = some (t, c)) (hw : w.heap.any (·.counter == c) = true) :
    timerFires s key w = none := by
  unfold timerFires
  rw [h]
  cases s.deadline with
  | none => rfl
  | some d => simp only; split <;> simp_all

/-- unregistering an fd also takes it off the poller's ready list: no ghost event after disable -/
theorem unregister_clears_ready (k k' : Kernel) (fd : Nat) (h : epDel k fd = .ok k') :
    entry? k' fd = none ∧ fd ∉ k'.rdl :=
  ⟨(Verif.Inv.Kernel.epDel_ok k k' fd h).1, (Verif.Inv.Kernel.epDel_ok k k' fd h).2.1⟩

/-- disabling one fd leaves every other registration in place -/
theorem unregister_frame (k k' : Kernel) (fd : Nat) (h : epDel k fd = .ok k') :
    ∀ e ∈ k.ep, e.fd ≠ fd → e ∈ k'.ep := (Verif.Inv.Kernel.epDel_ok k k' fd h).2.2.1

/-- readiness survives: disabling does not consume the eventfd counter -/
theorem readiness_survives (k k' : Kernel) (fd other : Nat) (h : epDel k fd = .ok k') :
    counter k' other = counter k other := by
  unfold epDel at h
  cases hent : entry? k fd with
  | none => simp [hent] at h
  | some x => simp only [hent] at h; injection h with h; subst h; rfl

end Verif.Props.C07
