/-
C08 — loop and source handles are safely re-entrant from inside callbacks.

Mechanism theorems about the dispatcher cell (`RefCell<DispatcherInner>`): while a source runs
(`running = some k`), a disable/update aimed at it does not touch the cell — it answers "deferred"
and changes nothing — so it can never be a double borrow; the only operation that does borrow the
running cell unconditionally is `register` (enable), which is exactly the documented exclusion.
The absence of any panic over whole histories is Spec.Core's C08 clause on the real loop.
-/
import Verif.Model.Loop

namespace Verif.Props.C08
open Verif.Loop Verif.Token

/-- disable() of the running source: deferred, state untouched, no panic -/
theorem unregister_of_running_is_deferred (k : Nat) (tok : Tok) (s : St) (h : s.running = some k) :
    dUnregister k tok s = .ok false s := by
  simp [dUnregister, h, bind, EStateM.bind, get, getThe, MonadStateOf.get, EStateM.get, pure, EStateM.pure]

/-- update() of the running source: deferred, state untouched, no panic -/
theorem reregister_of_running_is_deferred (k : Nat) (tok : Tok) (s : St) (h : s.running = some k) :
    dReregister k tok s = .ok false s := by
  simp [dReregister, h, bind, EStateM.bind, get, getThe, MonadStateOf.get, EStateM.get, pure, EStateM.pure]

/-- enable() of the running source is the documented exclusion: it is the one call that panics -/
theorem register_of_running_panics (k : Nat) (tok : Tok) (s : St) (h : s.running = some k) :
    dRegister k tok s = .error (.panic .borrow) s := by
  simp [dRegister, h, bind, EStateM.bind, get, getThe, MonadStateOf.get, EStateM.get, throwPanic, throw,
    throwThe, MonadExceptOf.throw, EStateM.throw]

/-- an operation aimed at another source than the running one does not take the deferred path -/
theorem other_source_not_deferred (k k' : Nat) (s : St) (h : s.running = some k') (hne : k ≠ k') :
    (s.running == some k) = false := by
  simp [h, Ne.symm hne]

end Verif.Props.C08
