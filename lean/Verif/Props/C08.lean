/-
C08 — loop and source handles are safely re-entrant from inside callbacks.

Mechanism theorems about the dispatcher cell (`RefCell<DispatcherInner>`): while a source runs
(`running = some k`), a disable/update aimed at it does not touch the cell — it answers "deferred"
and changes nothing — so it can never be a double borrow; the only operation that does borrow the
running cell unconditionally is `register` (enable), which is exactly the documented exclusion.
The absence of any panic over whole histories is Spec.Core's C08 clause on the real loop.
-/
import Verif.Model.Loop
import Verif.Inv.LifeInv
import Verif.Inv.OwnInv

namespace Verif.Props.C08
open Verif.Loop Verif.Token

/-- disable() of the running source: deferred, state untouched, no panic -/
theorem unregister_of_running_is_deferred (k : Nat) (tok : Tok) (s : St) (h : s.running = some k) :
    dUnregister k tok s = .ok false s := by
  simp [dUnregister, h, bind, EStateM.bind, get, getThe, MonadStateOf.get, EStateM.get, pure, EStateM.pure]

/-- update() of the running source: deferred, state untouched, no panic -/
theorem reregister_of_running_is_deferred (k : Nat) (tok : Tok) (s : St) (h : s.running = some k) :
    dReregister k tok s = .ok false s := by
  simp [dReregister, h, bind, EStateM.bind, get, getThe, MonadStateOf.get, EStateM.get, pure, EStateM.pure]

/-- enable() of the running source is the documented exclusion: it is the one call that panics -/
theorem register_of_running_panics (k : Nat) (tok : Tok) (s : St) (h : s.running = some k) :
    dRegister k tok s = .error (.panic .borrow) s := by
  simp [dRegister, h, bind, EStateM.bind, get, getThe, MonadStateOf.get, EStateM.get, throwPanic, throw,
    throwThe, MonadExceptOf.throw, EStateM.throw]

/-- an operation aimed at another source than the running one does not take the deferred path -/
theorem other_source_not_deferred (k k' : Nat) (s : St) (h : s.running = some k') (hne : k ≠ k') :
    (s.running == some k) = false := by
  simp [h, Ne.symm hne]

/-! ### the whole loop: no stale lifecycle entry -/

open Verif.Loop in
/-- **After every history** — callbacks removing, disabling, re-inserting (also into the slot just vacated), failing
    registrations, errors — not aborted by a panic, no generation wrapped: every token in the
    additional-lifecycle set resolves to an occupied slot whose source has lifecycle hooks … -/
theorem lifecycle_tokens_resolve (ops : List Op) (hab : (run ops).aborted = false)
    (hna : (run ops).aliased = false) :
    ∀ t ∈ (run ops).life, ∃ k, slotDisp (run ops) t = some k ∧ lifeFlag (run ops) k = true :=
  Verif.Inv.LifeInv.lifecycle_tokens_resolve ops hab hna (Verif.Inv.OwnInv.never_inserted_twice ops hab)

open Verif.Loop in
/-- … so the `before_sleep` walk that opens the next dispatch cannot reach `unreachable!()` … -/
theorem next_dispatch_before_sleep_does_not_panic (ops : List Op) (hab : (run ops).aborted = false)
    (hna : (run ops).aliased = false) :
    ¬ Verif.Inv.LifeInv.isUnreachable (forEachM (run ops).life beforeSleep (run ops)) :=
  Verif.Inv.LifeInv.next_before_sleep_walk_fine ops hab hna (Verif.Inv.OwnInv.never_inserted_twice ops hab)

open Verif.Loop in
/-- … nor can the `before_handle_events` walk, whatever the poll returned -/
theorem next_dispatch_before_handle_does_not_panic (ops : List Op) (evs : List Verif.Kernel.Event)
    (hab : (run ops).aborted = false) (hna : (run ops).aliased = false) :
    ¬ Verif.Inv.LifeInv.isUnreachable (forEachM (run ops).life (beforeHandle evs) (run ops)) :=
  Verif.Inv.LifeInv.next_before_handle_walk_fine ops evs hab hna (Verif.Inv.OwnInv.never_inserted_twice ops hab)

open Verif.Loop in
/-- non-vacuity: a lifecycle source that, on an event of its second sub-source, removes itself and inserts another
    lifecycle source into the slot it has just vacated; the hypotheses hold and the set has exactly the new entry -/
def selfRemoveAndReuse : List Op :=
  [.c (.newCustom 1 2 true), .c (.insert 1), .c (.newCustom 2 1 true),
   .script 1 0 { ops := [.remove 1, .insert 2], ret := .cont },
   .c (.write 1001 1), .dispatch, .c (.write 2000 1), .dispatch, .dispatch]

open Verif.Loop in
example : (run selfRemoveAndReuse).aborted = false ∧ (run selfRemoveAndReuse).aliased = false ∧
    (run selfRemoveAndReuse).dupInsert = false ∧ (run selfRemoveAndReuse).life.length = 1 ∧
    (run selfRemoveAndReuse).log.contains (.cb 2 (.sub 0)) = true := by decide +kernel

end Verif.Props.C08
