/-
Spec_C18 — the observable reading of property C18 as a monitor over the observation stream of a
`TransientSource` (calls made on the wrapper, registration calls reaching the children, forwarded
events, drops).  It keeps only an abstract view: which child is current, whether it is kept
(enabled), whether the parent is registered, which children are registered with the poller.

The same function is (1) proved to accept every protocol-following run of the model
(`Verif.Props.C18`) and (2) evaluated on traces of the real `TransientSource` by the check.
Import-free.
-/
import Verif.Model.Transient

namespace Verif.Spec.C18
open Verif.Transient

/-- Why a trace is rejected. -/
inductive Bad
  | doubleRegister        -- a child registered while registered
  | unregisterUnregistered -- a child unregistered while not registered
  | reregisterUnregistered
  | dropRegistered        -- a child dropped before it was unregistered
  | wrongForward          -- an event forwarded to anything but the current, kept child
  | badReturn             -- the wrapper returned something else than Continue / Reregister
  | quiescentMismatch     -- after a parent (re/un)registration: registered ≠ current kept child of a registered parent
  | errorInProtocol       -- a parent registration call failed although the protocol was followed
  deriving DecidableEq, Repr

structure Mon where
  regd      : List Nat := []       -- children registered with the poller (by successful calls)
  seen      : List Nat := []       -- every child id that ever appeared
  cur       : Option Nat := none   -- the current child
  holding   : Bool := false        -- the wrapper is not empty
  enabled   : Bool := true         -- the current child is kept (did not ask to be disabled)
  parentReg : Bool := false
  dirty     : Bool := false        -- a change awaits the parent's re-registration
  pending   : Option Op := none    -- the call in progress
  fwd       : Option Nat := none   -- the child an event of the call in progress may be forwarded to
  inProto   : Bool := true         -- the documented protocol has been followed so far
  bad       : Option Bad := none   -- first violated clause
  /-- children that asked to be disabled at some point -/
  everDisabled : List Nat := []
  /-- context of the first violation: did it concern a child that had asked to be disabled (finding F7) -/
  badWhileDisabled : Bool := false
  deriving Repr

def Mon.initFrom (c : Nat) : Mon := { cur := some c, holding := true, seen := [c] }
def Mon.initDefault : Mon := {}

def Mon.flag (m : Mon) (b : Bool) (why : Bad) (child : Option Nat := none) : Mon :=
  if b && m.inProto && m.bad.isNone then
    { m with bad := some why,
             badWhileDisabled := match child with | some c => m.everDisabled.contains c | none => false }
  else m

/-- The protocol side of a call on the wrapper (C18: "a re-registration is requested after each
    change", "the parent's own register and unregister calls alternate").  The parent may be unregistered at any
    time while it is registered — also with a change pending (the enclosing source was disabled or removed in the
    same turn): unregistration then settles the change. -/
def protoOk (m : Mon) (o : Op) : Bool :=
  match o with
  | .pRegister => !m.parentReg
  | .pUnregister => m.parentReg
  | .pReregister => m.parentReg
  | .pe _ => m.parentReg && (!m.dirty || m.cur.isNone)   -- (with no current child left there is nothing to forward to, change pending or not)
  | .tsRemove => !m.dirty
  | .tsReplace c => !m.dirty && !m.seen.contains c
  | .map | .isNone => true

/-- Is an event forwarded to the current child by a `process_events` issued now? -/
def Mon.forwards (m : Mon) : Option Nat :=
  if m.enabled && m.parentReg then m.cur else none

def onOp (m : Mon) (o : Op) : Mon :=
  let m := { m with inProto := m.inProto && protoOk m o, pending := some o,
                    fwd := match o with | .pe _ => m.forwards | _ => none }
  match o with
  | .pe r =>
    match m.forwards, r with
    | some _, .cont    => m
    | some _, .rereg   => { m with dirty := true }
    | some c, .disable => { m with enabled := false, dirty := true, everDisabled := c :: m.everDisabled }
    | some _, .remove  => { m with cur := none, dirty := true }
    | none, _ => m
  | .tsRemove => if m.holding then { m with cur := none, dirty := m.parentReg } else m
  | .tsReplace c =>
    let m := { m with seen := c :: m.seen }
    if m.holding then { m with cur := some c, enabled := true, dirty := m.parentReg } else m
  | .pRegister   => { m with parentReg := true, enabled := true, dirty := false }
  | .pReregister => { m with dirty := false }
  | .pUnregister => { m with parentReg := false, dirty := false }
  | .map | .isNone => m

/-- registered children must be exactly: the current kept child of a registered parent -/
def Mon.expectedRegd (m : Mon) : List Nat :=
  if m.parentReg && m.enabled then m.cur.toList else []

def onObsIn (m : Mon) (x : Obs) : Mon :=
  match x with
  | .op o => onOp m o
  | .reg c k ok =>
    match k with
    | .register =>
      let m := m.flag (m.regd.contains c) .doubleRegister (some c)
      if ok then { m with regd := c :: m.regd } else m
    | .reregister => m.flag (!m.regd.contains c) .reregisterUnregistered (some c)
    | .unregister =>
      let m := m.flag (!m.regd.contains c) .unregisterUnregistered (some c)
      if ok then { m with regd := m.regd.filter (· != c) } else m
  | .pe c => m.flag (m.fwd != some c) .wrongForward
  | .drop c wasReg => m.flag (wasReg || m.regd.contains c) .dropRegistered (some c)
  | .ret r =>
    let m' :=
      match m.pending, r with
      | some (.pe _), .pa .cont => m
      | some (.pe _), .pa .rereg => m
      | some (.pe _), _ => m.flag true .badReturn
      | some .pRegister, .ok | some .pReregister, .ok | some .pUnregister, .ok =>
        let m1 := if m.cur.isNone then { m with holding := false } else m
        m1.flag (m1.regd != m1.expectedRegd) .quiescentMismatch
      | some .pRegister, .err | some .pReregister, .err | some .pUnregister, .err =>
        m.flag true .errorInProtocol
      | _, _ => m
    { m' with pending := none }

/-- Once the protocol has been left the monitor is frozen: it judges protocol-following prefixes only. -/
def onObs (m : Mon) (x : Obs) : Mon := if m.inProto then onObsIn m x else m

def monitor (m : Mon) (xs : List Obs) : Mon := xs.foldl onObs m

/-- verdict of a whole trace -/
inductive Verdict | outOfProtocol | ok | violated (b : Bad) (whileDisabled : Bool)
  deriving DecidableEq, Repr

def verdict (m : Mon) : Verdict :=
  match m.bad with
  | some b => .violated b m.badWhileDisabled
  | none => if m.inProto then .ok else .outOfProtocol

end Verif.Spec.C18
