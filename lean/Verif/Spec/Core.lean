/-
Observable spec monitors for the single-threaded loop properties (C01, C02, C05, C06, C07, C08, C09,
C13, C14, C15, C16).  One small abstract tracker reads the observation stream (operation echoes,
results, callback brackets, registration calls of instrumented sources, hooks, idles, drops,
statistics and kernel-table snapshots) and keeps only what the English properties talk about:

  * per source: absent / enabled / disabled, a self-directed request deferred while it runs,
    its simple pending causes (pings, queued messages, deadline, fd counters), drop count;
  * the idle queue; the sources that opted into lifecycle hooks; logical time.

It knows nothing of slots, versions, the timer wheel, the ready list or `pending_action`.  Each
clause that fails is reported with the property it belongs to.  The same function judges traces
of the real crate (check) and is what the theorems in `Verif/Props` are stated about.
-/
import Verif.Model.Loop

namespace Verif.Spec.Core
open Verif.Loop Verif.Token Verif.Kernel

inductive Status | absent | enabled | disabled
  deriving DecidableEq, Repr

inductive PropId | C01 | C02 | C05 | C06 | C07 | C08 | C09 | C13 | C14 | C15 | C16
  deriving DecidableEq, Repr

structure ASrc where
  kind : Kind
  life : Bool := false
  nsub : Nat := 1
  fd : Nat := 0                          -- gen: the fd it watches
  ir : Bool := true                      -- gen: interest / mode as configured by the user
  iw : Bool := false
  mode : Mode := .level
  rr : Bool := true                      -- … as last (re)registered
  rw : Bool := false
  rmode : Mode := .level
  disarmed : Bool := false               -- one-shot registration that has fired
  status : Status := .absent
  tok : Option Tok := none               -- registration token while inserted
  kept : Bool := false
  drops : Nat := 0
  unknown : Bool := false                -- a (re/un)registration of this source failed midway: its state is not judged any more
  dirty : Bool := false                  -- a parameter was changed and `update` has not been called yet
  everInserted : Bool := false
  pings : Nat := 0                       -- pings since the last drain
  closeReq : Bool := false               -- every `Ping` handle dropped
  handles : Nat := 0
  sent : List Nat := []                  -- messages sent and not yet delivered
  senders : Nat := 0
  sync : Bool := false
  cap : Nat := 0
  closedSeen : Bool := false
  deadline : Option Int := none
  armed : Bool := false                  -- an arming exists that has not fired or been cancelled
  armedInDisp : Bool := false            -- the current arming was created after the current dispatch's wait
  goneOutside : Bool := false            -- it was removed / disabled while it was *not* processing events itself
  touched : Bool := false                -- removed / disabled / re-registered during the current dispatch
  dueAtBegin : Bool := false             -- had a pending cause when the current dispatch began waiting
  cbThisDispatch : Nat := 0
  bsSeen : Nat := 0
  synthSeen : Bool := false              -- its before_sleep produced a synthetic event in the current dispatch
  bheSeen : Nat := 0
  lifeDue : Bool := false                -- lifecycle hooks expected in the current dispatch
  lifeOff : Bool := false                -- certainly not in the lifecycle set in the current dispatch (no hooks, or not enabled)
  removedByPost : Bool := false          -- its own event processing returned Remove (explicit: nothing deferred may override it)
  lifeMaybe : Bool := false              -- a successful `update` of a source that is not enabled (its registration survived a failed
                                         -- unregistration) re-listed it: whether it has hooks is not judged until it is disabled or removed
  lastRet : Option Ret := none           -- what the user's callback returned last (in the current event processing)
  deriving Repr

structure Viol where
  prop : PropId
  why : String
  pos : Nat
  deriving Repr

structure T where
  srcs : List (Nat × ASrc) := []
  counters : List (Nat × Nat) := []      -- eventfd counters the user can touch (`fd`, sub-sources)
  hot : List Nat := []                   -- fds that were readable when the current wait began, or written since
  now : Int := 0
  running : Option Nat := none
  deferred : Option PA := none
  pendingOp : Option COp := none         -- last echoed operation (its result line follows)
  postStrict : Bool := false             -- the post action just resolved is a Disable / Reregister of a source still in its slot: its failure is the dispatch's
  afterPeret : Bool := false             -- the registration calls that follow are the loop carrying out a post action
  postRegFailed : Bool := false          -- one of them failed in this dispatch: the dispatch must report an error
  inDispatch : Bool := false
  sawPe : Bool := false                  -- some `process_events` ran in this dispatch
  bsFailed : Bool := false
  hooksDone : Bool := false
  idleQ : List (Nat × Nat) := []         -- pending idles (name, instance)
  idleHandles : List (Nat × Nat) := []
  idleCancelled : List Nat := []
  idleSeq : Nat := 0
  idleDue : Option (List (Nat × Nat)) := none   -- snapshot taken when the idle phase starts
  idlePhase : Bool := false
  runningIdle : Option Nat := none
  lastDeadlineCb : Option Int := none    -- C05 order inside one dispatch
  expectRegs : Option (Nat × List (RegKind × Nat)) := none  -- C09: registration calls expected next from a composite source
  lastSt : Option Stats := none
  stBeforeInsert : Option Stats := none
  insFailed : Option Nat := none         -- a top-level insertion just failed (C15: compare the statistics)
  regFailed : Bool := false              -- a registration step failed: C16 speaks of histories without such failures
  issued : List Tok := []                -- every registration token handed out so far
  f12 : Bool := false                    -- known finding F12 triggered: a registration token was handed out a second time (generation wrap)
  handouts : Nat := 0                    -- slots handed out so far (insertions, successful or not, and churned ones)
  f15 : Bool := false                    -- known finding F15 triggered (see onExec): later C16 clauses are attributed to it
  disablers : List Nat := []             -- sources that were disabled / enabled at some point (C07: nobody else is disturbed)
  postActors : List Nat := []            -- sources that had a non-Continue post action or a deferred request (C09: applied to no other)
  anyFailure : Bool := false             -- an insertion, a handle operation or an event processing failed (C15: the rest keeps working)
  ended : Bool := false                  -- the case is over: the loop itself is being dropped
  wf : Bool := true                      -- documented exclusions respected so far
  idx : Nat := 0
  viols : List Viol := []
  deriving Repr

def T.src (t : T) (k : Nat) : Option ASrc := alookup t.srcs k
def T.setSrc (t : T) (k : Nat) (a : ASrc) : T := { t with srcs := aset t.srcs k a }
def T.modSrc (t : T) (k : Nat) (f : ASrc → ASrc) : T :=
  match t.src k with | some a => t.setSrc k (f a) | none => t

def T.flag (t : T) (p : PropId) (why : String) : T :=
  -- once finding F15 has been triggered, what the poller then lacks / delivers is attributed to it
  let why := if t.f15 && (p == .C16 || p == .C02 || p == .C01 || p == .C07) then "[F15] " ++ why else why
  let why := if t.f12 then "[F12] " ++ why else why
  if t.wf then { t with viols := t.viols ++ [⟨p, why, t.idx⟩] } else t

def T.flagIf (t : T) (c : Bool) (p : PropId) (why : String) : T := if c then t.flag p why else t

/-- A source `j` that nobody touched was disturbed (lost an event, lost its registration, or was called
    back without a cause).  Besides the clause that noticed it, this breaks
    C07 "disabling or enabling one source never disturbs any other" when another source was disabled/enabled,
    C09 "no post-action is ever applied to a different source … or carried over to a later event" when
        another source had a post action, and
    C15 "every other source keeps working and loses none of its events" / "behaves as if the call had not
        been made" when something failed earlier.
    (F15 is a disturbance through a shared fd by a handle call; it is not a post action nor a failure.) -/
def T.disturbed (t : T) (j : Nat) (what : String) : T :=
  let t := t.flagIf (t.disablers.any (· != j)) .C07 s!"{what} — after other sources ({t.disablers.filter (· != j)}) were disabled/enabled: a source nobody touched was disturbed"
  let t := t.flagIf (t.postActors.any (· != j) && !t.f15) .C09 s!"{what} — after post actions of other sources ({t.postActors.filter (· != j)}): a post action reached a source that did not ask for it"
  t.flagIf (t.anyFailure && !t.f15) .C15 s!"{what} — after a failed insertion / operation / event processing: the failure did not leave the other sources intact"

def addActor (l : List Nat) (k : Nat) : List Nat := if l.contains k then l else l ++ [k]

def T.counter (t : T) (fd : Nat) : Nat := (alookup t.counters fd).getD 0

/-- does source `a` have a pending cause the next wait must report? (simple causes only) -/
def pendingCause (t : T) (k : Nat) (a : ASrc) : Bool :=
  match a.kind with
  | .ping => a.pings > 0 || a.closeReq
  | .chan => !a.sent.isEmpty || (a.senders == 0 && !a.closedSeen)
  | .timer => a.armed && (match a.deadline with | some d => d ≤ t.now | none => false)
  | .gen => a.rmode == .level && !a.disarmed && ((a.rr && t.counter a.fd > 0) || a.rw)
  | .custom => (List.range a.nsub).any fun j => t.counter (1000 * k + j) > 0

/-- the status change of a completed (not deferred) removal / disable -/
def T.markGone (t : T) (k : Nat) (st : Status) : T :=
  t.modSrc k fun a => { a with status := st, touched := true, goneOutside := a.goneOutside || t.running != some k,
                               armed := false, tok := if st == .absent then none else a.tok, lifeMaybe := false }

/-- resolve and apply what `k` asked for when its event processing finishes (C09) -/
def T.applyPost (t : T) (k : Nat) (r : Option PA) : T :=
  let deferred := t.deferred
  let t := { t with deferred := none, running := none }
  match r with
  | none => { t with anyFailure := true, postStrict := false }       -- an error applies nothing
  | some ret =>
    let resolved := if ret == .Continue then deferred.getD .Continue else ret
    let t := if resolved != .Continue || deferred.isSome then { t with postActors := addActor t.postActors k } else t
    let t := if resolved == .Disable then { t with disablers := addActor t.disablers k } else t
    let nsub := match t.src k with | some a => if a.kind == .custom then a.nsub else 0 | none => 0
    let gone := match t.src k with | some a => a.status == .absent | none => true
    -- (the clean-up of a source that removed itself, and of a `Remove`, only logs a failing unregistration)
    let t := { t with postStrict := (resolved == .Disable || resolved == .Reregister) && !gone }
    let subs := List.range nsub
    match resolved with
    | .Continue =>
      -- a source removed from inside its own callback is unregistered once its processing ends
      if gone && nsub > 0 then { t with expectRegs := some (k, subs.map fun j => (.unregister, j)) } else t
    | .Reregister =>
      -- (a source that is not enabled gets events only if its unregistration had failed; a re-registration that then
      -- succeeds lists it again, like a successful `update`: whether it has hooks is not judged until it is disabled again)
      let t := t.modSrc k fun a => { a with lifeMaybe := a.lifeMaybe || a.status != .enabled }
      let t := t.modSrc k fun a => { a with touched := true, dirty := false, rr := a.ir, rw := a.iw, rmode := a.mode, disarmed := false,
                                            armed := (if a.kind == .timer && a.status == .enabled then a.deadline.isSome else a.armed),
                                            armedInDisp := if a.kind == .timer && a.status == .enabled then t.inDispatch else a.armedInDisp }
      if nsub > 0 then
        { t with expectRegs := some (k, (subs.map fun j => (.reregister, j)) ++
                                        (if gone then subs.map fun j => (.unregister, j) else [])) }
      else t
    | .Disable =>
      let t := if gone then t else t.markGone k .disabled
      if nsub > 0 then { t with expectRegs := some (k, subs.map fun j => (.unregister, j)) } else t
    | .Remove =>
      let t := t.markGone k .absent
      let t := t.modSrc k fun a => { a with removedByPost := true }
      if nsub > 0 then { t with expectRegs := some (k, subs.map fun j => (.unregister, j)) } else t

def isTokenOp : COp → Option Nat
  | .remove k | .disable k | .enable k | .update k => some k
  | _ => none

/-- effects of an operation echo (`> op`): causes and handles; results come with `opRes` / `ins` -/
def onExec (t : T) (o : COp) : T :=
  let t := { t with pendingOp := some o }
  -- finding F15: disable()/update()/remove() of an fd source that is not registered acts on whatever
  -- registration its fd currently has, i.e. on another source watching the same fd
  let t := match o with
    | .disable k | .update k | .remove k =>
      match t.src k with
      | some a =>
        if a.kind == .gen && a.status == .disabled &&
           t.srcs.any (fun (p : Nat × ASrc) => p.1 != k && p.2.kind == .gen && p.2.fd == a.fd && p.2.status == .enabled)
        then { t with f15 := true } else t
      | none => t
    | _ => t
  match o with
  | .newPing k => if (t.src k).isSome then t else t.setSrc k { kind := .ping, handles := 1 }
  | .newTimer k d => if (t.src k).isSome then t else t.setSrc k { kind := .timer, deadline := d }
  | .newChan k => if (t.src k).isSome then t else t.setSrc k { kind := .chan, senders := 1 }
  | .newSync k n => if (t.src k).isSome then t else t.setSrc k { kind := .chan, senders := 1, sync := true, cap := n }
  | .newGen k fd r w m =>
    if (t.src k).isSome || !(t.counters.any (·.1 == fd)) then t
    else t.setSrc k { kind := .gen, fd := fd, ir := r, iw := w, mode := m }
  | .newCustom k n l =>
    if (t.src k).isSome then t
    else { (t.setSrc k { kind := .custom, life := l, nsub := n }) with
             counters := (List.range n).foldl (fun c j => aset c (1000 * k + j) 0) t.counters }
  | .fd f => if t.counters.any (·.1 == f) then t else { t with counters := aset t.counters f 0 }
  | .ping k => t.modSrc k fun a => if a.handles > 0 then { a with pings := a.pings + 1 } else a
  | .clonePing k => t.modSrc k fun a => if a.handles > 0 then { a with handles := a.handles + 1 } else a
  | .dropPing k => t.modSrc k fun a =>
      if a.handles > 0 then { a with handles := a.handles - 1, closeReq := a.closeReq || a.handles == 1 } else a
  | .cloneSender k => t.modSrc k fun a => if a.senders > 0 then { a with senders := a.senders + 1 } else a
  | .dropSender k => t.modSrc k fun a => if a.senders > 0 then { a with senders := a.senders - 1 } else a
  | .write f n =>
    if t.counters.any (·.1 == f) then { t with counters := aset t.counters f (t.counter f + n), hot := f :: t.hot } else t
  | .read f => if t.counters.any (·.1 == f) then { t with counters := aset t.counters f 0 } else t
  | .advance n => { t with now := t.now + n }
  | .setDeadline k d => t.modSrc k fun a =>
      if a.kind == .timer && a.kept && t.running != some k then { a with deadline := d, dirty := true } else a
  | .setInterest k r w m => t.modSrc k fun a =>
      if a.kind == .gen && a.kept && t.running != some k then { a with ir := r, iw := w, mode := m, dirty := true } else a
  | .dropDisp k => t.modSrc k fun a => { a with kept := false }
  | .idle i =>
    { t with idleQ := t.idleQ ++ [(i, t.idleSeq)], idleHandles := aset t.idleHandles i t.idleSeq, idleSeq := t.idleSeq + 1 }
  | .cancelIdle i =>
    match alookup t.idleHandles i with
    | some inst =>
      let t := { t with idleHandles := t.idleHandles.filter (·.1 != i), idleCancelled := inst :: t.idleCancelled }
      -- cancelling the idle that is running is not one of the operations C08 covers
      if t.runningIdle == some inst then { t with wf := false } else t
    | none => t
  | .dropIdle i => { t with idleHandles := t.idleHandles.filter (·.1 != i) }
  | .enable k =>
    -- documented: only a disabled source may be enabled, and never the one that is running.  One case beside it is
    -- judged: `enable` of an enabled source that sits on a single fd of its own (ping, channel, fd source) — the poller
    -- refuses the second registration of the fd, the call fails, and a failed call leaves the source as it was
    match t.src k with
    | some a =>
      let refused := a.status == .enabled && t.running != some k &&
        (a.kind == .ping || a.kind == .chan ||
          (a.kind == .gen && !t.srcs.any (fun (p : Nat × ASrc) => p.1 != k && p.2.kind == .gen && p.2.fd == a.fd)))
      if refused then t
      else if a.status != .disabled || t.running == some k then { t with wf := false } else t
    | none => t
  | .insertd k =>
    -- (the dispatcher is kept once the insertion is attempted — `ins … ok/err` —, not when the call finds no source object)
    if t.inDispatch then t else { t with stBeforeInsert := t.lastSt }
  | .insert _ => if t.inDispatch then t else { t with stBeforeInsert := t.lastSt }
  | _ => t

def onOpRes (t : T) (o : COp) (r : OpRes) : T :=
  let t := match r, isTokenOp o with
    | .err (.io _), some k | .err .other, some k =>
      -- a composite source may be left half (un)registered by a failing call: its state is not judged any more;
      -- a single-registration source is simply left as it was
      { (t.modSrc k fun a => { a with unknown := a.unknown || a.kind == .custom }) with regFailed := true, anyFailure := true }
    | .err (.io _), none => { t with regFailed := true, anyFailure := true }
    | _, _ => t
  match o, r with
  | .send k _, .ok => t.modSrc k fun a => a   -- the value is recorded below (needs the payload)
  | .remove k, .ok =>
    match t.src k with
    | some a => if a.status == .absent then t else t.markGone k .absent
    | none => t
  | .disable k, .ok =>
    match t.src k with
    | some a =>
      if a.status == .absent then t.flag .C06 s!"disable of removed source {k} returned Ok"
      else if t.running == some k then { t with deferred := some .Disable }
      else { (t.markGone k .disabled) with disablers := addActor t.disablers k }
    | none => t
  | .enable k, .ok =>
    match t.src k with
    | some a =>
      if a.status == .absent then t.flag .C06 s!"enable of removed source {k} returned Ok"
      else
        let t := t.modSrc k fun a => { a with status := .enabled, goneOutside := false, dirty := false, touched := true, rr := a.ir, rw := a.iw, rmode := a.mode,
                                              disarmed := false, armed := (if a.kind == .timer then a.deadline.isSome else a.armed),
                                              armedInDisp := if a.kind == .timer then t.inDispatch else a.armedInDisp }
        { t with disablers := addActor t.disablers k }
    | none => t
  | .update k, .ok =>
    match t.src k with
    | some a =>
      if a.status == .absent then t.flag .C06 s!"update of removed source {k} returned Ok"
      else if t.running == some k then { t with deferred := some .Reregister }
      else t.modSrc k fun a => { a with lifeMaybe := a.lifeMaybe || a.status != .enabled,
                                        touched := true, dirty := false, rr := a.ir, rw := a.iw, rmode := a.mode, disarmed := false,
                                        armed := (if a.kind == .timer && a.status == .enabled then a.deadline.isSome else a.armed),
                                        armedInDisp := if a.kind == .timer && a.status == .enabled then t.inDispatch else a.armedInDisp }
    | none => t
  | .disable k, .err .invalidToken | .enable k, .err .invalidToken | .update k, .err .invalidToken =>
    match t.src k with
    | some a => t.flagIf (a.status != .absent) .C06 s!"token of inserted source {k} reported InvalidToken"
    | none => t
  | _, _ => t

def sendValue : COp → Option (Nat × Nat)
  | .send k v => some (k, v)
  | _ => none

/-- C13: an idle callback starts -/
def onIdle (t : T) (i : Nat) : T :=
  let t := t.flagIf (!t.inDispatch) .C13 s!"idle {i} ran outside a dispatch"
  let due := match t.idleDue with | some d => d | none => t.idleQ
  let t := if t.idleDue.isNone then { t with idleDue := some due, idleQ := [], idlePhase := true } else t
  -- the next due idle that has not been cancelled
  let live := due.dropWhile fun ((_, inst) : Nat × Nat) => t.idleCancelled.contains inst
  match live with
  | (j, inst) :: rest =>
    if j == i then { t with idleDue := some rest, runningIdle := some inst }
    else (t.flag .C13 s!"idle {i} ran but idle {j} was due first")
  | [] => t.flag .C13 s!"idle {i} ran but no idle was due (already run, cancelled, or inserted by an idle of this dispatch)"

def expectReg (t : T) (k : Nat) (kind : RegKind) (sub : Nat) : T :=
  match t.expectRegs with
  | some (k', (kind', sub') :: rest) =>
    if k' == k && kind' == kind && sub' == sub then { t with expectRegs := if rest.isEmpty then none else some (k', rest) }
    else t.flag .C09 s!"registration call on source {k} sub {sub} where source {k'} sub {sub'} was due its post action"
  | _ => t

def onObs (t : T) (x : Obs) : T :=
  let t := { t with idx := t.idx + 1 }
  -- C09: the registration calls a post action owes come before anything else happens
  let t := match x, t.expectRegs with
    | .reg _ _ _ _, _ => t
    | _, some (k, (_, sub) :: _) =>
      { (t.flag .C09 s!"post action of composite source {k}: registration call for sub {sub} missing") with expectRegs := none }
    | _, _ => t
  match x with
  | .exec o =>
    let t := { t with afterPeret := false }
    let t := match o with | .churn n => { t with handouts := t.handouts + n } | _ => t
    onExec t o
  | .top (.dispatch) =>
    let srcs := t.srcs.map fun (k, a) =>
      (k, { a with touched := false, armedInDisp := false, cbThisDispatch := 0, bsSeen := 0, synthSeen := false, bheSeen := 0,
                   lifeDue := a.life && a.status == .enabled && !a.unknown,
                   lifeOff := !a.life || (a.status != .enabled && !a.lifeMaybe),
                   dueAtBegin := a.status == .enabled && !a.unknown && pendingCause t k a })
    -- documented: a changed parameter takes effect through `update`; dispatching in between is not judged
    let t := if t.srcs.any (fun (p : Nat × ASrc) => p.2.dirty && p.2.status == .enabled) then { t with wf := false } else t
    let t := { t with hot := (t.counters.filter fun (p : Nat × Nat) => p.2 > 0).map fun (p : Nat × Nat) => p.1 }
    { t with srcs := srcs, inDispatch := true, sawPe := false, bsFailed := false, hooksDone := false,
             idleDue := none, idlePhase := false, lastDeadlineCb := none }
  | .top _ => t
  | .opRes o r =>
    let t := onOpRes t o r
    match sendValue o, r with
    | some (k, v), .ok => t.modSrc k fun a => { a with sent := a.sent ++ [v] }
    | _, _ => t
  | .ins k (.ok tok) =>
    let t := { t with handouts := t.handouts + 1 }
    let t := if t.pendingOp == some (.insertd k) then t.modSrc k fun a => { a with kept := a.kind != .chan && a.kind != .custom } else t
    -- a token handed out a second time: finding F12 when a generation can have wrapped (65536 reuses of one slot),
    -- otherwise the list lost a slot's generation
    let t := if t.issued.contains tok then
        (if t.handouts ≥ 65537 then { t with f12 := true }
         else
           let t := t.flag .C06 s!"the registration token {tok.id}.{tok.ver} was handed out a second time after only {t.handouts} slot hand-outs (no generation wrap): the first holder's token is valid again"
           t.flag .C01 s!"the registration token {tok.id}.{tok.ver} was handed out a second time after only {t.handouts} slot hand-outs: two sources answer to one token")
      else { t with issued := tok :: t.issued }
    t.modSrc k fun a => { a with status := .enabled, goneOutside := false, tok := some tok, touched := true, everInserted := true, dirty := false, rr := a.ir, rw := a.iw,
                                 rmode := a.mode, disarmed := false, armed := a.kind == .timer && a.deadline.isSome,
                                 armedInDisp := t.inDispatch }
  | .ins k (.err _) =>
    let t := { t with handouts := t.handouts + 1 }
    let t := if t.pendingOp == some (.insertd k) then t.modSrc k fun a => { a with kept := a.kind != .chan && a.kind != .custom } else t
    let t := if t.inDispatch then t else { t with insFailed := some k }
    let t := { t with regFailed := true, anyFailure := true }
    t.modSrc k fun a => { a with status := .absent, tok := none }
  | .ins _ .nosource => t
  | .pe k =>
    let t := { t with afterPeret := false }
    let t := t.modSrc k fun a => { a with lastRet := none }
    let t := t.flagIf t.idlePhase .C13 s!"source {k} processed events after an idle callback of the same dispatch"
    -- C06 / C01: a source that has been removed (by itself on an earlier event of this batch, or by another source) is not
    -- handed the events that were already collected for it
    let t := match t.src k with
      | some (a : ASrc) =>
        let gone : Bool := a.status == Status.absent && a.everInserted
        let t := t.flagIf gone .C06 s!"process_events of source {k} was called after the source had been removed"
        t.flagIf gone .C01 s!"an event was dispatched to source {k}, which is not inserted any more"
      | none => t
    -- C14: every due lifecycle source had its hooks before any event processing
    let t := t.srcs.foldl (fun (t : T) ((j, a) : Nat × ASrc) =>
      if a.lifeDue && !t.bsFailed && (a.bsSeen != 1 || a.bheSeen != 1) && !t.hooksDone then
        t.flag .C14 s!"lifecycle source {j}: before_sleep x{a.bsSeen}, before_handle_events x{a.bheSeen} before event processing"
      else t) t
    { t with running := some k, deferred := none, sawPe := true, hooksDone := true }
  | .peret k r =>
    -- For a timer the user does not return a PostAction but a TimeoutAction: re-arming (ToInstant / ToDuration) means
    -- "go on" — a request deferred in the same callback (disable / update on itself) must then win —, everything else
    -- means the timer is dropped.  What `Timer::process_events` hands to the loop internally is not trusted for that.
    let r' : Option PA := match t.src k, r with
      | some a, some _ =>
        if a.kind == .timer then
          match a.lastRet with
          | some (.toInstant _) => some .Continue
          | some _ => some .Remove
          | none => r                       -- no callback ran (stale or foreign event)
        else r
      | _, _ => r
    let t' := (t.applyPost k r').modSrc k fun a => { a with lastRet := none }
    { t' with afterPeret := t'.postStrict }
  | .cb k p =>
    match t.src k with
    | none => t.flag .C01 s!"callback of unknown source {k}"
    | some a =>
      -- a parameter changed without `update`: outside the documented protocol, not judged
      let t := if a.dirty then { t with wf := false } else t
      -- the only latitude: a source that removed / disabled itself during its current event processing
      let own := t.running == some k && !a.goneOutside
      let t := t.flagIf (a.status == .absent && !own && !a.unknown) .C06 s!"callback of removed source {k}"
      let t := t.flagIf (a.status == .disabled && !own && !a.unknown) .C07 s!"callback of disabled source {k}"
      let t := t.flagIf (a.status != .enabled && !own && !a.unknown) .C01
        s!"callback of source {k} while it is not inserted and enabled (and it is not finishing its own batch)"
      let t := t.flagIf (!t.inDispatch) .C01 s!"callback of source {k} outside a dispatch"
      let t := t.modSrc k fun a => { a with cbThisDispatch := a.cbThisDispatch + 1 }
      match p with
      | .unit =>
        let spurious := a.kind == .ping && a.pings == 0
        let t := t.flagIf spurious .C01 s!"ping source {k} called back without a ping"
        let t := if spurious then t.disturbed k s!"ping source {k} called back without a ping" else t
        t.modSrc k fun a => { a with pings := 0 }
      | .msg v =>
        match a.sent with
        | w :: rest =>
          let t := t.flagIf (v != w) .C01 s!"channel {k} delivered {v} but {w} was sent first"
          let t := t.flagIf a.closedSeen .C01 s!"channel {k} delivered a message after Closed"
          t.modSrc k fun a => { a with sent := rest }
        | [] => (t.flag .C01 s!"channel {k} delivered {v} which was never sent or already delivered").disturbed k
                  s!"channel {k} delivered {v} which was never sent or already delivered"
      | .closed =>
        let t := t.flagIf (a.senders > 0 || !a.sent.isEmpty) .C01 s!"channel {k} reported Closed with senders or messages left"
        let t := t.flagIf a.closedSeen .C01 s!"channel {k} reported Closed twice"
        t.modSrc k fun a => { a with closedSeen := true }
      | .deadline d =>
        let t := t.flagIf (a.deadline != some d) .C05 s!"timer {k} fired with deadline {d}, its current deadline is {repr a.deadline}"
        let t := t.flagIf (d > t.now) .C05 s!"timer {k} fired at {t.now}, before its deadline {d}"
        let t := t.flagIf (!a.armed) .C05 s!"timer {k} fired without a fresh arming (fired twice, or after being cancelled)"
        -- the cause of a timer callback is an arming whose deadline has been reached
        let t := t.flagIf (d > t.now || !a.armed) .C01
          s!"timer {k} was called back without a cause: at {t.now}, deadline {d}, {if a.armed then "armed" else "holding no arming"}"
        let t := t.flagIf (a.armed && a.armedInDisp) .C01
          s!"timer {k} was called back for an expiry collected before its current arming was made: the arming that expired had been cancelled"
        let t := t.flagIf (a.armed && a.armedInDisp) .C05
          s!"timer {k} fired in the dispatch whose wait ended before its current arming was made: the expiry belongs to an arming that was cancelled"
        let t := match t.lastDeadlineCb with
          | some prev => t.flagIf (d < prev) .C05 s!"timer {k} (deadline {d}) fired after a timer with deadline {prev} in the same dispatch"
          | none => t
        { (t.modSrc k fun a => { a with armed := false }) with lastDeadlineCb := some d }
      | .ready r _ =>
        let spurious := r && !t.hot.contains a.fd
        let t := t.flagIf spurious .C01 s!"fd source {k} reported readable although its fd had nothing to read since the wait began"
        let t := if spurious then t.disturbed k s!"fd source {k} reported readable although its fd had nothing to read" else t
        -- a one-shot registration is spent by the event — unless the source was re-registered after the
        -- event had been collected (the callback then sees the earlier registration's event)
        t.modSrc k fun a => if a.rmode == .oneshot && !a.touched then { a with disarmed := true } else a
      | .sub j =>
        let t := t.flagIf (j ≥ a.nsub) .C01 s!"composite source {k} called back for sub-source {j} it does not have"
        let spurious := j < a.nsub && !t.hot.contains (1000 * k + j) && !a.synthSeen
        let t := t.flagIf spurious .C01 s!"composite source {k} called back for sub-source {j} whose fd had nothing to read since the wait began"
        if spurious then t.disturbed k s!"composite source {k} called back for sub-source {j} without a cause" else t
  | .cbret k r =>
    let t := t.modSrc k fun a => { a with lastRet := some r }
    match t.src k, r with
    | some a, .toInstant d => if a.kind == .timer then t.modSrc k fun a => { a with deadline := some d, armed := true, armedInDisp := true } else t
    | some a, .overflow => if a.kind == .timer then t.modSrc k fun a => { a with deadline := none } else t
    | _, _ => t
  | .reg k kind sub ok =>
    if ok then expectReg t k kind sub
    else
      let post := t.postRegFailed || (t.afterPeret && t.inDispatch)
      { (t.modSrc k fun a => { a with unknown := true }) with regFailed := true, anyFailure := true, expectRegs := none, postRegFailed := post }
  | .bs k b =>
    match t.src k with
    | none => t
    | some a =>
      let t := t.flagIf (!a.lifeDue && (!a.unknown || a.lifeOff)) .C14 s!"before_sleep called on source {k} which is not an inserted, enabled lifecycle source"
      let t := t.flagIf (a.bsSeen ≥ 1) .C14 s!"before_sleep called twice on source {k} in one dispatch"
      let t := t.flagIf t.sawPe .C14 s!"before_sleep of source {k} after event processing began"
      let t := t.modSrc k fun a => { a with bsSeen := a.bsSeen + 1, synthSeen := a.synthSeen || (match b with | .synth _ => true | _ => false) }
      if b == .err then { t with bsFailed := true, anyFailure := true } else t
  | .bhe k evs =>
    match t.src k with
    | none => t
    | some a =>
      let t := t.flagIf (!a.lifeDue && (!a.unknown || a.lifeOff)) .C14 s!"before_handle_events called on source {k} which is not an inserted, enabled lifecycle source"
      let t := t.flagIf (a.bheSeen ≥ 1) .C14 s!"before_handle_events called twice on source {k} in one dispatch"
      let t := t.flagIf (a.bsSeen != 1 && !a.unknown) .C14 s!"before_handle_events of source {k} without its before_sleep"
      let t := t.flagIf t.sawPe .C14 s!"before_handle_events of source {k} after event processing began"
      -- only real events of this source: its token, and something to read on that sub-source
      let t := evs.foldl (fun (t : T) (e : Event) =>
        let own := match a.tok with | some tk => sameSource e.key tk | none => false
        let t := t.flagIf (!own) .C14 s!"before_handle_events of source {k} was given an event of another source"
        t.flagIf (own && t.counter (1000 * k + e.key.sub) == 0) .C14
          s!"before_handle_events of source {k} was given an event for sub-source {e.key.sub} that has nothing to read (synthetic?)") t
      t.modSrc k fun a => { a with bheSeen := a.bheSeen + 1 }
  | .idle i => onIdle t i
  | .idleret _ => { t with runningIdle := none }
  | .drop k =>
    match t.src k with
    | none => t
    | some a =>
      let t := t.flagIf (a.drops ≥ 1) .C06 s!"source {k} dropped twice"
      let removing := match t.pendingOp with | some (.remove k') => k' == k | _ => false
      let t := t.flagIf (a.status != .absent && a.tok.isSome && !t.ended && !removing) .C06 s!"source {k} dropped while still inserted"
      t.modSrc k fun a => { a with drops := a.drops + 1 }
  | .dispatchBegin => t
  | .dispatchEnd e =>
    let t := match e with
      | none =>
        -- C15: "a failing … disable returns its error": a post action the loop could not carry out fails the dispatch
        let t := t.flagIf t.postRegFailed .C15 "a (un)registration the loop carried out for a post action failed, but the dispatch returned Ok"
        -- C13: every due, not cancelled idle has run
        let due : List (Nat × Nat) := match t.idleDue with | some d => d | none => t.idleQ
        let left := due.filter fun ((_, inst) : Nat × Nat) => !t.idleCancelled.contains inst
        let t := if t.idleDue.isNone then { t with idleQ := [] } else t
        let t := t.flagIf (!left.isEmpty) .C13 s!"dispatch returned Ok but idle {(left.head?.map (fun (p : Nat × Nat) => p.1)).getD 0} did not run"
        -- C14: hooks of the dispatch
        let t := t.srcs.foldl (fun (t : T) ((j, a) : Nat × ASrc) =>
          if a.lifeDue && (a.bsSeen != 1 || a.bheSeen != 1) then
            t.flag .C14 s!"lifecycle source {j}: before_sleep x{a.bsSeen}, before_handle_events x{a.bheSeen} in a dispatch that returned Ok"
          else t) t
        -- C02: whoever had a pending cause when the wait began was called back
        t.srcs.foldl (fun (t : T) ((j, a) : Nat × ASrc) =>
          -- (a source whose (un)registration failed half-way during this dispatch is not judged any more)
          -- (nor is one whose parameters were changed during this dispatch without `update`: outside the documented protocol)
          if a.dueAtBegin && !a.touched && !a.unknown && !a.dirty && a.cbThisDispatch == 0 then
            (t.flag .C02 s!"source {j} had a pending cause when the dispatch began and was not called back").disturbed j
              s!"source {j} had a pending cause when the dispatch began and was not called back"
          else t) t
      | some _ =>
        -- C13: idles run after the events of a dispatch that returns Ok — never in one that fails
        let t := t.flagIf t.idlePhase .C13 "idle callbacks ran in a dispatch that returned an error"
        { t with anyFailure := true }
    { t with inDispatch := false, idleDue := none, idlePhase := false, running := none, afterPeret := false, postRegFailed := false }
  | .st s =>
    -- C06: a removed source that nobody else holds is released by the end of the operation / dispatch
    let t := t.srcs.foldl (fun (t : T) ((j, a) : Nat × ASrc) =>
      if a.everInserted && a.status == .absent && !a.kept && a.drops == 0 then
        let t := t.flag .C06 s!"source {j} was removed but not released by the end of the operation"
        -- C09: an explicit Remove takes precedence over whatever was deferred during the callback
        t.flagIf a.removedByPost .C09 s!"source {j} returned Remove from its event processing but is still held by the loop: the explicit post action was not applied (overridden by a deferred request?)"
      else t) t
    -- C06 / C09: the slot table holds exactly the sources that are inserted (enabled or disabled)
    let inserted := (t.srcs.filter fun (p : Nat × ASrc) => p.2.everInserted && p.2.status != .absent).length
    let t := if s.occ != inserted && !t.inDispatch then
        let t := t.flag .C06 s!"{s.occ} slots are occupied but {inserted} sources are inserted: a removed source still occupies its slot (or an inserted one lost it)"
        t.flagIf (t.srcs.any fun (p : Nat × ASrc) => p.2.removedByPost && p.2.drops == 0 && !p.2.kept) .C09
          s!"{s.occ} slots are occupied but {inserted} sources are inserted, and a source that returned Remove has not been released: the explicit post action was not applied"
      else t
    -- C15: a failed insertion leaves the bookkeeping as it was (a vacant slot may remain)
    let t := match t.insFailed, t.stBeforeInsert with
      | some k, some b =>
        t.flagIf (s.occ != b.occ || s.life != b.life || s.heap != b.heap || s.idles != b.idles ||
                  s.pend != b.pend || s.synth != b.synth) .C15
          s!"failed insertion of source {k} changed the loop's bookkeeping"
      | _, _ => t
    -- C05: "leaves no residue": the wheel holds exactly one entry per armed timer of an enabled source
    let armedN := (t.srcs.filter fun (p : Nat × ASrc) => p.2.kind == .timer && p.2.status == .enabled && p.2.armed).length
    let judged := !(t.srcs.any fun (p : Nat × ASrc) => p.2.kind == .timer && (p.2.unknown || p.2.dirty))
    let t := t.flagIf (judged && !t.inDispatch && s.heap != armedN) .C05
      s!"the timer wheel holds {s.heap} entries but {armedN} timers are armed: a cancelled or fired arming left residue (or an arming is missing)"
    -- C09 / C07: between operations nothing is deferred (Verif.Props.C09.pending_clear_after_every_history)
    let t := if s.pend != .Continue then
        (t.flag .C09 s!"pending_action is {repr s.pend} between two operations: a deferred post action outlived the event it was requested in").flag
          .C07 s!"pending_action is {repr s.pend} between two operations: a deferred disable/update is waiting for some other source's event"
      else t
    { t with lastSt := some s, insFailed := none }
  | .ep es =>
    if t.regFailed then t else
    -- C16: the kernel table holds exactly the registrations of enabled sources
    let expected : List (Tok × Bool × Bool × Mode) := t.srcs.foldl (fun (acc : List (Tok × Bool × Bool × Mode)) ((k, a) : Nat × ASrc) =>
      match a.status, a.tok with
      | .enabled, some tk =>
        match a.kind with
        | .ping | .chan => acc ++ [({ tk with sub := 0 }, true, false, Mode.level)]
        | .gen => acc ++ [({ tk with sub := 0 }, a.rr && !a.disarmed, a.rw && !a.disarmed, a.rmode)]
        | .custom => acc ++ (List.range a.nsub).map fun j => ({ tk with sub := j }, true, false, Mode.level)
        | .timer => acc
      | _, _ => acc) []
    let actual := es.map fun e => (e.key, e.r, e.w, e.mode)
    let missing := expected.filter fun x => !actual.contains x
    let extra := actual.filter fun x => !expected.contains x
    let tag := ""
    let t := match missing.head? with
      | some (tk, _, _, _) =>
        let t := t.flag .C16 s!"{tag}the poller lacks the registration {tk.id}.{tk.ver}.{tk.sub} of an enabled source (or holds it with another interest/mode)"
        let owner := t.srcs.find? fun (p : Nat × ASrc) => match p.2.tok with | some o => o.id == tk.id && o.ver == tk.ver && p.2.status == .enabled | none => false
        match owner with
        | some (j, _) => t.disturbed j s!"the poller lacks the registration {tk.id}.{tk.ver}.{tk.sub} of enabled source {j}"
        | none => t
      | none => t
    match extra.head? with
    | some (tk, _, _, _) =>
      let t := t.flag .C16 s!"{tag}the poller holds a stale or unexpected registration {tk.id}.{tk.ver}.{tk.sub}"
      -- C06: a registration whose token no inserted source holds belongs to a source that has been removed
      let ownerAlive := t.srcs.any fun (p : Nat × ASrc) => match p.2.tok with | some o => o.id == tk.id && o.ver == tk.ver | none => false
      t.flagIf (!ownerAlive && !t.f15) .C06
        s!"the poller still holds the registration {tk.id}.{tk.ver}.{tk.sub} of a source that has been removed: the removal did not release everything"
    | none => t
  | .panic p =>
    let t := t.flag .C08 s!"panic {repr p}"
    -- `unreachable!()` is what a hook walk hits on a lifecycle-set token that resolves to no source: the set held
    -- an entry of a source that is gone
    if p == .unreachable then
      let t := t.flag .C14 "a lifecycle hook walk met a token of a source that is gone (unreachable!())"
      t.flagIf (t.anyFailure && !t.f15) .C15 "after a failure the lifecycle set kept a token of a source that is gone (unreachable!())"
    else t
  | .caseEnd => { t with ended := true }
  | .abort | .loopDropped => t

def monitor (xs : List Obs) : T := xs.foldl onObs {}

end Verif.Spec.Core
