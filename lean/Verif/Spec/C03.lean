/-
Spec_C03 — the observable reading of C03 on a controlled-schedule trace of the real ping source:
one record per scheduling step (thread, yield label reached, eventfd counter, callbacks so far,
whether the source is still registered).  Import-free.

Clauses (each mirrors a theorem of `Verif.Props.C03`):
  shape     after every step the eventfd counter is 2·(pings completed and not drained) + (close completed and not drained)
  report    a poll made while a completed ping is undrained (and the source registered) reports the source
  callback  a drain runs the callback exactly when it read a completed ping — one callback per drain
  close     a drain that reads the close removes the source; a removed source is never polled again
  followed  every `ping()` that has returned is followed by a callback that started after the ping began: the loop
            never finds the eventfd empty while such a callback is still owed (the property's own wording — it does
            not look at how, or whether, the ping wrote to the eventfd)
-/
namespace Verif.Spec.C03

structure Rec where
  thread : Nat
  label : String
  counter : Nat
  cbs : Nat
  reg : Nat
  deriving Repr

structure Mon where
  unc : Nat := 0               -- pings completed, not yet drained
  closeP : Nat := 0
  lastPinger : List (Nat × String) := []   -- last label of each pinger thread
  loopLast : String := ""
  expectCb : Option Nat := none           -- cbs expected after the drain step
  cbs : Nat := 0
  pollHadPing : Bool := false
  closeRead : Bool := false               -- the drain whose callback is running read the close
  began : List (Nat × Nat) := []          -- per pinger: callbacks started when its current ping began
  owedMin : Nat := 0                      -- callbacks that must have started by the next quiet poll
  bad : Option String := none
  deriving Repr

def Mon.flag (m : Mon) (c : Bool) (why : String) : Mon :=
  if c && m.bad.isNone then { m with bad := some why } else m

def lookup (l : List (Nat × String)) (k : Nat) : String :=
  match l.find? (·.1 == k) with | some (_, v) => v | none => "start"

def setL (l : List (Nat × String)) (k : Nat) (v : String) : List (Nat × String) :=
  (k, v) :: l.filter (·.1 != k)

def lookupN (l : List (Nat × Nat)) (k : Nat) : Option Nat := (l.find? (·.1 == k)).map (·.2)
def setN (l : List (Nat × Nat)) (k v : Nat) : List (Nat × Nat) := (k, v) :: l.filter (·.1 != k)

def onRec (m : Mon) (r : Rec) : Mon :=
  if r.label == "skip" then m else
  let m :=
    if r.thread == 0 then
      -- the loop thread
      let prev := m.loopLast
      let m := { m with loopLast := r.label }
      let m :=
        if prev == "efd.drain" then
          -- this step performed the read, the callback and the post action
          let hadPing := m.unc > 0
          let hadClose := m.closeP > 0
          let m := m.flag (r.cbs != m.cbs + (if hadPing then 1 else 0))
            s!"a drain that read {m.unc} completed ping(s) changed the callback count from {m.cbs} to {r.cbs}"
          -- the post action follows the callback: if the thread is now parked inside the callback it is still to come
          let m := if r.label == "ping.cb" then { m with closeRead := hadClose } else
            let m := m.flag (hadClose && r.reg != 0) "the drain read the close but the source is still registered"
            m.flag (!hadClose && r.reg != 1) "the source was removed although no close had been written"
          { m with unc := 0, closeP := 0, cbs := r.cbs }
        else if prev == "ping.cb" then
          let m := m.flag (r.cbs != m.cbs) "the callback count changed outside a drain"
          let m := m.flag (m.closeRead && r.reg != 0) "the drain read the close but the source is still registered"
          let m := m.flag (!m.closeRead && r.reg != 1) "the source was removed although no close had been written"
          { m with closeRead := false }
        else m.flag (r.cbs != m.cbs) "the callback count changed outside a drain"
      let m :=
        if prev == "loop.poll" then { m with pollHadPing := (m.unc > 0 || m.closeP > 0) && r.reg == 1 } else m
      -- followed: a quiet poll (nothing to read) while a returned ping has not been followed by a callback start
      let m := m.flag (r.label == "loop.polled" && r.counter == 0 && r.reg == 1 && m.cbs < m.owedMin)
        s!"a ping() has returned and no callback has started since it began ({m.cbs} so far, {m.owedMin} needed), yet the loop polls and finds the eventfd empty"
      if prev == "loop.polled" then
        let m := m.flag (m.pollHadPing && r.label != "efd.drain")
          "a poll made while a completed ping/close was undrained did not report the source"
        m.flag (!m.pollHadPing && r.label == "efd.drain" && r.reg == 0) "a removed source was polled again"
      else m
    else
      let prev := lookup m.lastPinger r.thread
      let m := { m with lastPinger := setL m.lastPinger r.thread r.label }
      let m := m.flag (r.cbs != m.cbs) "the callback count changed during a pinger step"
      -- a ping begins in the step that reaches `efd.ping` — or `ping.returned` directly, if it never wrote
      let m := if r.label == "efd.ping" || (r.label == "ping.returned" && prev != "efd.written")
               then { m with began := setN m.began r.thread m.cbs } else m
      let m := if r.label == "ping.returned" then
          { m with owedMin := Nat.max m.owedMin ((lookupN m.began r.thread).getD m.cbs + 1) } else m
      if r.label == "efd.written" then
        if prev == "efd.ping" then { m with unc := m.unc + 1 }
        else if prev == "efd.close" then { m with closeP := m.closeP + 1 }
        else m.flag true "efd.written without a preceding write yield"
      else m
  m.flag (r.counter != 2 * m.unc + m.closeP)
    s!"eventfd counter is {r.counter}, expected 2*{m.unc}+{m.closeP}"

def monitor (rs : List Rec) : Mon := rs.foldl onRec {}

end Verif.Spec.C03
