/-
M6 `AsyncProto` — the `Async<F>` adapter (`src/io.rs`) for one direction of one fd: a task that
reads through the adapter, the fd's one-shot registration in the poller, and a peer that writes.
(The write direction is the same system with "bytes available" replaced by "room available".)

  `avail`   bytes the kernel holds for the reader (for a writer: free room)
  `armed`   1 while the one-shot registration is armed with the interest the task waits for
  `queued`  1 while the registration sits on the poller's ready list
  `waiting` 1 while the task is parked with its waker stored in the dispatcher
  `wantArm` 1 between the task's WouldBlock and its `register_waker` (the MOD re-evaluates readiness)
  `woken`   1 while the task has been woken and not yet run
  `stale`   1 while the waker stored in the dispatcher is not the one the task is (or is about to be) parked
            with: an operation may be polled under one waker and, before the fd is ready, again under another
            (a `now_or_never` probe, a `select!` arm, a hand-over between tasks) — the *last* one must be woken
Ghosts: `sent` bytes the peer wrote, `got` bytes the task read, `nonblock` / `wasNonblock` / `alive`.
Kernel rules as in `Verif.Kernel`: MOD queues the entry if the fd is ready; a write to an armed
fd queues it; a reported one-shot entry is disarmed.  Numbers only (linear arithmetic).
-/
namespace Verif.AsyncProto

structure St where
  avail : Nat := 0
  armed : Nat := 0
  queued : Nat := 0
  waiting : Nat := 0
  wantArm : Nat := 0
  woken : Nat := 1          -- the task is scheduled initially
  stale : Nat := 0
  sent : Nat := 0
  got : Nat := 0
  alive : Nat := 1          -- the adapter exists
  nonblock : Nat := 1       -- O_NONBLOCK of the fd (set by `Async::new`)
  wasNonblock : Nat := 0    -- what it was before
  deriving DecidableEq, Repr

inductive Act
  | peerWrite (n : Nat)     -- the peer makes progress (n ≥ 1 bytes / frees n ≥ 1 bytes of room)
  | taskRead (k : Nat)      -- the running task reads up to k ≥ 1 bytes and gets some
  | taskBlock               -- the running task's read says WouldBlock
  | probeArm                -- the operation is polled under a throw-away waker first: `register_waker(other)`
  | taskArm                 -- `register_waker`: store the waker, MOD the registration (one-shot, its interest)
  | loopReport              -- the poller reports the registration; `process_events` wakes the stored waker
  | taskRun                 -- the executor runs the woken task
  | dropAdapter             -- drop / into_inner: registration removed, blocking mode restored
  deriving DecidableEq, Repr

def step (s : St) : Act → Option St
  | .peerWrite n =>
    if n ≥ 1 then some { s with avail := s.avail + n, sent := s.sent + n, queued := (if s.armed = 1 then 1 else s.queued) }
    else none
  | .taskRead k =>
    -- the task is running: not waiting, not woken-but-unrun, not between WouldBlock and arming
    if s.alive = 1 ∧ s.waiting = 0 ∧ s.woken = 0 ∧ s.wantArm = 0 ∧ k ≥ 1 ∧ s.avail ≥ 1 then
      some { s with avail := s.avail - min k s.avail, got := s.got + min k s.avail }
    else none
  | .taskBlock =>
    if s.alive = 1 ∧ s.waiting = 0 ∧ s.woken = 0 ∧ s.wantArm = 0 ∧ s.avail = 0 then some { s with wantArm := 1 } else none
  | .probeArm =>
    -- the waker stored is not the task's; the task goes on to poll again under its own waker
    if s.alive = 1 ∧ s.wantArm = 1 then
      some { s with armed := 1, stale := 1, queued := (if s.avail ≥ 1 then 1 else s.queued) }
    else none
  | .taskArm =>
    -- `disp.waker = Some(waker)` replaces whatever waker was stored
    if s.alive = 1 ∧ s.wantArm = 1 then
      some { s with wantArm := 0, waiting := 1, armed := 1, stale := 0, queued := (if s.avail ≥ 1 then 1 else s.queued) }
    else none
  | .loopReport =>
    if s.alive = 1 ∧ s.queued = 1 then
      if s.armed = 1 ∧ s.avail ≥ 1 then
        -- `process_events` takes the stored waker and wakes it: the task only if that waker is its own
        some { s with queued := 0, armed := 0, stale := 0,
                      woken := (if s.waiting = 1 ∧ s.stale = 0 then 1 else s.woken),
                      waiting := (if s.stale = 0 then 0 else s.waiting) }
      else some { s with queued := 0 }
    else none
  | .taskRun => if s.alive = 1 ∧ s.woken = 1 then some { s with woken := 0 } else none
  | .dropAdapter =>
    if s.alive = 1 then
      some { s with alive := 0, armed := 0, queued := 0, waiting := 0, woken := 0, wantArm := 0, stale := 0, nonblock := s.wasNonblock }
    else none

inductive Reach (was : Nat) : St → Prop
  | init : Reach was { wasNonblock := was }
  | step {s s'} (a : Act) : Reach was s → step s a = some s' → Reach was s'

def run (s : St) : List Act → Option St
  | [] => some s
  | a :: as => match step s a with
    | some s' => run s' as
    | none => none

end Verif.AsyncProto
