/-
M3 `ExecProto` — the futures executor (`src/sources/futures.rs`): waker threads and the loop thread
around the `incoming` queue, the `notified` flag and the wake eventfd, at the granularity of
enqueue / flag swap / eventfd write / flag clear / dequeue steps.

`async_task` is modelled by its contract: a task that is idle (pending, not scheduled) becomes
scheduled when woken and its runnable goes to the schedule function; waking a scheduled or completed
task does nothing; running a task polls it once; a completed task is never scheduled again.
Task states: 0 idle · 1 scheduled · 2 completed (result delivered) · 3 dropped.
Loop: 0 idle · 1 polled · 2 eventfd drained (flag not yet cleared) · 3 dequeuing · 4 post.
-/
namespace Verif.ExecProto

structure St where
  tasks : List Nat := []          -- state per task id
  queue : List Nat := []          -- `incoming`: runnables (task ids)
  qlen : Nat := 0
  enq : List Nat := []            -- runnables in the hands of threads about to push them (at `exec.enqueue`)
  swp : Nat := 0                  -- threads that have pushed and are about to swap `notified`
  toWake : Nat := 0               -- threads that owe the eventfd write
  notified : Nat := 0
  counter : Nat := 0
  reg : Nat := 1
  alive : Nat := 1                -- the executor has not been dropped
  loop : Nat := 0
  budget : Nat := 1024
  budgetLeft : Nat := 0
  clear : Nat := 0
  -- ghosts
  polls : List Nat := []          -- polls per task
  delivered : List Nat := []      -- results handed to the callback, in order
  nSched : Nat := 0               -- tasks currently scheduled
  deriving DecidableEq, Repr

def setAt (l : List Nat) (i v : Nat) : List Nat := l.set i v
def incAt (l : List Nat) (i : Nat) : List Nat := l.set i (l.getD i 0 + 1)

inductive Act
  | schedule                 -- `Scheduler::schedule(fut)`: a new task, scheduled at once
  | wake (t : Nat)           -- a waker of idle task `t` is woken (from any thread)
  | enqueue (t : Nat)        -- `sender.send(runnable)`
  | swapFlag                 -- `notified.swap(true)`: ping only if it was false
  | wakeWrite
  | loopPoll | loopDrain | loopClear
  | loopDequeue (ready : Bool)   -- one `try_recv` + `runnable.run()`; `ready`: the future completes
  | loopBudgetOut | loopPost
  | dropExecutor
  deriving DecidableEq, Repr

def step (s : St) : Act → Option St
  | .schedule =>
    if s.alive = 1 then
      some { s with tasks := s.tasks ++ [1], polls := s.polls ++ [0], enq := s.enq ++ [s.tasks.length], nSched := s.nSched + 1 }
    else none
  | .wake t =>
    if s.tasks[t]? = some 0 ∧ s.alive = 1 then
      some { s with tasks := setAt s.tasks t 1, enq := s.enq ++ [t], nSched := s.nSched + 1 }
    else none
  | .enqueue t =>
    if t ∈ s.enq then
      some { s with enq := s.enq.erase t, queue := s.queue ++ [t], qlen := s.qlen + 1, swp := s.swp + 1 }
    else none
  | .swapFlag =>
    if s.swp > 0 then
      if s.notified = 1 then some { s with swp := s.swp - 1 }
      else some { s with swp := s.swp - 1, notified := 1, toWake := s.toWake + 1 }
    else none
  | .wakeWrite => if s.toWake > 0 then some { s with toWake := s.toWake - 1, counter := s.counter + 2 } else none
  | .loopPoll => if s.loop = 0 ∧ s.reg = 1 ∧ s.counter > 0 then some { s with loop := 1 } else none
  | .loopDrain => if s.loop = 1 then some { s with loop := 2, counter := 0 } else none
  | .loopClear => if s.loop = 2 then some { s with loop := 3, notified := 0, budgetLeft := s.budget, clear := 0 } else none
  | .loopDequeue ready =>
    if s.loop = 3 ∧ s.budgetLeft > 0 then
      match s.queue with
      | t :: rest =>
        some { s with queue := rest, qlen := s.qlen - 1, budgetLeft := s.budgetLeft - 1, nSched := s.nSched - 1,
                      polls := incAt s.polls t,
                      tasks := setAt s.tasks t (if ready then 2 else 0),
                      delivered := if ready then s.delivered ++ [t] else s.delivered }
      | [] => some { s with loop := 4, clear := 1 }
    else none
  | .loopBudgetOut => if s.loop = 3 ∧ s.budgetLeft = 0 then some { s with loop := 4 } else none
  | .loopPost =>
    if s.loop = 4 then
      if s.clear = 1 then some { s with loop := 0 } else some { s with loop := 0, counter := s.counter + 2 }
    else none
  | .dropExecutor =>
    -- `Executor::drop` (loop thread, outside a dispatch): every task is woken so that its runnable can be
    -- destroyed, the queue is drained, all futures are dropped; `schedule` answers ExecutorDestroyed from now on
    if s.loop = 0 ∧ s.alive = 1 ∧ s.enq = [] then
      some { s with alive := 0, reg := 0, queue := [], qlen := 0, nSched := 0,
                    tasks := s.tasks.map fun st => if st = 2 then 2 else 3 }
    else none

inductive Reach (budget : Nat) : St → Prop
  | init : Reach budget { budget := budget }
  | step {s s'} (a : Act) : Reach budget s → step s a = some s' → Reach budget s'

def run (s : St) : List Act → Option St
  | [] => some s
  | a :: as => match step s a with
    | some s' => run s' as
    | none => none

end Verif.ExecProto
