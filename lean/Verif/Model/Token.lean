/-
M1 — poller keys (`src/token.rs`), the `TokenFactory` of `src/sys.rs`, and the
version bump of `src/list.rs`.

Import-free and executable.  All functions are parametric in the two field
widths `bV` (BITS_VERSION) and `bS` (BITS_SUBID); the values used by the
theorems come from `Verif.Generated.TokenSrc`, which is regenerated from the
Rust source on every run.
-/
namespace Verif.Token

/-- `TokenInner { id: u32, version: u16, sub_id: u16 }` with unbounded fields;
    `wf` states the ranges the Rust types enforce. -/
structure Tok where
  id  : Nat
  ver : Nat
  sub : Nat
  deriving DecidableEq, Repr, Inhabited

def Tok.wf (bV bS : Nat) (t : Tok) : Prop :=
  t.id < 2 ^ 32 ∧ t.ver < 2 ^ bV ∧ t.sub < 2 ^ bS

instance (bV bS : Nat) (t : Tok) : Decidable (t.wf bV bS) := by
  unfold Tok.wf; exact inferInstance

/-- `impl From<TokenInner> for usize` -/
def pack (bV bS : Nat) (t : Tok) : Nat :=
  t.id * 2 ^ (bS + bV) + t.ver * 2 ^ bS + t.sub

/-- `impl From<usize> for TokenInner` -/
def unpack (bV bS : Nat) (k : Nat) : Tok :=
  { id := k / 2 ^ (bS + bV) % 2 ^ 32, ver := k / 2 ^ bS % 2 ^ bV, sub := k % 2 ^ bS }

/-- `TokenInner::new(id)`: `Err(())` when the index does not fit a `u32`. -/
def new? (id : Nat) : Option Tok :=
  if id < 2 ^ 32 then some { id := id, ver := 0, sub := 0 } else none

/-- `increment_version`: wrapping add on the version, sub-id reset. -/
def incVersion (bV : Nat) (t : Tok) : Tok :=
  { id := t.id, ver := (t.ver + 1) % 2 ^ bV, sub := 0 }

/-- `increment_sub_id`: `none` is the `panic!("Maximum number of sub-ids reached …")`. -/
def incSubId? (bS : Nat) (t : Tok) : Option Tok :=
  if t.sub + 1 < 2 ^ bS then some { t with sub := t.sub + 1 } else none

def forgetSub (t : Tok) : Tok := { t with sub := 0 }

def sameSource (a b : Tok) : Bool := a.id == b.id && a.ver == b.ver

/-- `TokenFactory { next_token }` -/
structure Factory where
  next : Tok
  deriving DecidableEq, Repr

def Factory.new (t : Tok) : Factory := ⟨forgetSub t⟩

def Factory.registrationToken (f : Factory) : Tok := forgetSub f.next

/-- `TokenFactory::token`: returns the current token and advances; `none` = panic. -/
def Factory.token? (bS : Nat) (f : Factory) : Option (Tok × Factory) :=
  match incSubId? bS f.next with
  | some n => some (f.next, ⟨n⟩)
  | none   => none

/-- Ask a factory for `n` tokens in a row; `none` as soon as one request panics. -/
def Factory.take? (bS : Nat) : Nat → Factory → Option (List Tok × Factory)
  | 0,     f => some ([], f)
  | n + 1, f =>
    match f.token? bS with
    | none => none
    | some (t, f') =>
      match Factory.take? bS n f' with
      | none => none
      | some (ts, f'') => some (t :: ts, f'')

/-- The poller's reserved notification key (`usize::MAX`). -/
def notifyKey : Nat := 2 ^ 64 - 1

end Verif.Token
