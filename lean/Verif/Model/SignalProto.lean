/-
M3 `SignalProto` — `LoopSignal::stop / wakeup`, `EventLoop::run` and `EventLoop::block_on`
(`src/loop_logic.rs`) against any number of stopping / waking threads, at the granularity of every
atomic flag access, the poller's `notify` and the entry to / return from the wait.

`Poller::notify` is modelled by its contract: it sets a sticky flag (`notif`) that makes the current
or the next `wait` return, and only a returning wait clears it.  The loop waits without a timeout and
no source fires (the worst case for a lost wake-up).  Control states are numbers (linear arithmetic):
`lp` = 0 not started · 1 reset done · 2 stop checked (was false) · 3 block_on: about to swap
`future_ready` · 9 block_on: flag swapped (it was set), the future is being polled · 4 about to wait ·
5 waiting · 6 wait returned · 7 iteration finished · 8 returned.  The swap and the poll are separate steps:
wakers run while the future is being polled (another thread, or the future waking itself).
`mode` 0 = run, 1 = block_on.  `result` 0 none · 1 Some(output) · 2 stopped (run: Ok(()), block_on: None).
-/
namespace Verif.SignalProto

structure St where
  mode : Nat := 0
  stop : Nat := 0
  fready : Nat := 0
  notif : Nat := 0
  lp : Nat := 0
  futDone : Nat := 0
  result : Nat := 0
  -- threads by control state
  stopPend : Nat := 0      -- inside `stop()`, store not yet done
  wakePend : Nat := 0      -- inside `wakeup()`, notify not yet done
  bwStore : Nat := 0       -- block_on waker: before the `future_ready` store
  bwNotify : Nat := 0      -- block_on waker: store done, notify not yet done
  -- ghosts
  stopAfterReset : Nat := 0   -- a stop() completed after run()/block_on() began
  wakeAfterStop : Nat := 0    -- a wakeup() completed after such a stop()
  wakesPending : Nat := 0     -- a waker's store not yet followed by a poll of the future
  polls : Nat := 0
  iters : Nat := 0
  deriving DecidableEq, Repr

inductive Act
  | stopStart | stopStore | wakeupStart | wakeupNotify | complete
  | wakerStart | wakerStore | wakerNotify
  | runStart | check | afterChecked | swap | pollEnd | enterWait | waitReturn | afterWait
  deriving DecidableEq, Repr

def step (s : St) : Act → Option St
  | .stopStart => some { s with stopPend := s.stopPend + 1 }
  | .stopStore =>
    if s.stopPend > 0 then
      some { s with stopPend := s.stopPend - 1, stop := 1, stopAfterReset := if s.lp ≥ 1 then 1 else s.stopAfterReset }
    else none
  | .wakeupStart => some { s with wakePend := s.wakePend + 1 }
  | .wakeupNotify =>
    if s.wakePend > 0 then
      some { s with wakePend := s.wakePend - 1, notif := 1, wakeAfterStop := if s.stopAfterReset = 1 then 1 else s.wakeAfterStop }
    else none
  | .complete => some { s with futDone := 1 }
  | .wakerStart => if s.mode = 1 ∧ s.lp ≥ 1 then some { s with bwStore := s.bwStore + 1 } else none
  | .wakerStore =>
    if s.bwStore > 0 then some { s with bwStore := s.bwStore - 1, bwNotify := s.bwNotify + 1, fready := 1, wakesPending := 1 } else none
  | .wakerNotify => if s.bwNotify > 0 then some { s with bwNotify := s.bwNotify - 1, notif := 1 } else none
  | .runStart =>
    if s.lp = 0 then some { s with lp := 1, stop := 0, fready := if s.mode = 1 then 1 else s.fready } else none
  | .check =>
    if s.lp = 1 ∨ s.lp = 7 then
      if s.stop = 1 then some { s with lp := 8, result := 2 } else some { s with lp := 2 }
    else none
  | .afterChecked => if s.lp = 2 then some { s with lp := if s.mode = 1 then 3 else 4 } else none
  | .swap =>
    -- `future_ready.swap(false)`; if it was set the future's poll begins (its waker is registered, the poll is counted)
    if s.lp = 3 then
      if s.fready = 1 then some { s with fready := 0, polls := s.polls + 1, wakesPending := 0, lp := 9 }
      else some { s with lp := 4 }
    else none
  | .pollEnd =>
    -- the poll looks at the future's state and returns Ready or Pending
    if s.lp = 9 then
      if s.futDone = 1 then some { s with lp := 8, result := 1 } else some { s with lp := 4 }
    else none
  | .enterWait => if s.lp = 4 then some { s with lp := 5 } else none
  | .waitReturn => if s.lp = 5 ∧ s.notif = 1 then some { s with lp := 6, notif := 0 } else none
  | .afterWait => if s.lp = 6 then some { s with lp := 7, iters := s.iters + 1 } else none

inductive Reach (mode : Nat) : St → Prop
  | init : Reach mode { mode := mode }
  | step {s s'} (a : Act) : Reach mode s → step s a = some s' → Reach mode s'

def run (s : St) : List Act → Option St
  | [] => some s
  | a :: as => match step s a with
    | some s' => run s' as
    | none => none

end Verif.SignalProto
