/-
M4 — `TransientSource<T>` (`src/sources/transient.rs`), arm for arm.

The wrapped child is an fd-backed source (a `Generic` over an eventfd, which is what ping, channel,
executor and signal sources are): registering it twice fails with EEXIST, re-registering or
unregistering it while unregistered fails with ENOENT, errors propagate with `?` exactly where the
Rust has one, and dropping it removes it from the poller if it still is registered
(`Generic::drop`).  Import-free and executable.
-/
namespace Verif.Transient

inductive PA | cont | rereg | disable | remove
  deriving DecidableEq, Repr

inductive RegKind | register | reregister | unregister
  deriving DecidableEq, Repr

structure Child where
  id  : Nat
  reg : Bool            -- present in the poller
  deriving DecidableEq, Repr

/-- `TransientSourceState<T>` -/
inductive TS
  | keep (c : Child)
  | register (c : Child)
  | disable (c : Child)
  | remove (c : Child)
  | replace (new old : Child)
  | none
  deriving DecidableEq, Repr

inductive Op
  | pe (ret : PA)        -- `process_events`; `ret` is what the child returns if it is asked
  | tsRemove             -- `TransientSource::remove`
  | tsReplace (c : Nat)  -- `TransientSource::replace(new)`, `c` the id of the new child
  | pRegister | pReregister | pUnregister
  | map | isNone
  deriving DecidableEq, Repr

inductive Ret
  | pa (p : PA) | ok | err | mapSome (c : Nat) | mapNone | isNone (b : Bool) | unit
  deriving DecidableEq, Repr

inductive Obs
  | op (o : Op)                                  -- the call made on the wrapper
  | reg (c : Nat) (k : RegKind) (ok : Bool)      -- a registration call reaching child `c`, and its result
  | pe (c : Nat)                                 -- `process_events` forwarded to child `c`
  | drop (c : Nat) (wasReg : Bool)               -- child dropped; was it still in the poller
  | ret (r : Ret)                                -- what the wrapper's call returned
  deriving DecidableEq, Repr

/-! ### the child (a `Generic` over an fd) -/

def Child.register (c : Child) : Child × Bool :=
  if c.reg then (c, false) else ({ c with reg := true }, true)

def Child.reregister (c : Child) : Child × Bool := (c, c.reg)

def Child.unregister (c : Child) : Child × Bool :=
  if c.reg then ({ c with reg := false }, true) else (c, false)

def dropObs (c : Child) : Obs := .drop c.id c.reg

/-! ### the wrapper -/

/-- `process_events` -/
def processEvents (ts : TS) (r : PA) : TS × List Obs :=
  match ts with
  | .keep c =>
    match r with
    | .cont    => (.keep c,    [.pe c.id, .ret (.pa .cont)])
    | .rereg   => (.keep c,    [.pe c.id, .ret (.pa .rereg)])
    | .disable => (.disable c, [.pe c.id, .ret (.pa .rereg)])
    | .remove  => (.remove c,  [.pe c.id, .ret (.pa .rereg)])
  | ts => (ts, [.ret (.pa .cont)])

/-- `register` -/
def register (ts : TS) : TS × List Obs :=
  match ts with
  | .keep c =>
    let (c', ok) := c.register
    (.keep c', [.reg c.id .register ok, .ret (if ok then .ok else .err)])
  | .register c =>
    let (c', ok) := c.register
    if ok then (.keep c', [.reg c.id .register true, .ret .ok])
    else (.register c', [.reg c.id .register false, .ret .err])
  | .disable c =>
    let (c', ok) := c.register
    if ok then (.keep c', [.reg c.id .register true, .ret .ok])
    else (.disable c', [.reg c.id .register false, .ret .err])
  | .replace n o =>
    let (n', ok) := n.register
    if ok then (.keep n', [.reg n.id .register true, dropObs o, .ret .ok])
    else (.replace n' o, [.reg n.id .register false, .ret .err])
  | .remove c => (.none, [dropObs c, .ret .ok])
  | .none => (.none, [.ret .ok])

/-- `reregister` -/
def reregister (ts : TS) : TS × List Obs :=
  match ts with
  | .keep c =>
    let (c', ok) := c.reregister
    (.keep c', [.reg c.id .reregister ok, .ret (if ok then .ok else .err)])
  | .register c =>
    let (c', ok) := c.register
    if ok then (.keep c', [.reg c.id .register true, .ret .ok])
    else (.register c', [.reg c.id .register false, .ret .err])
  | .disable c =>
    let (c', ok) := c.unregister
    (.disable c', [.reg c.id .unregister ok, .ret (if ok then .ok else .err)])
  | .remove c =>
    let (c', ok) := c.unregister
    if ok then (.none, [.reg c.id .unregister true, dropObs c', .ret .ok])
    else (.remove c', [.reg c.id .unregister false, .ret .err])
  | .replace n o =>
    let (o', ok) := o.unregister
    if ok then
      let (n', ok2) := n.register
      if ok2 then (.keep n', [.reg o.id .unregister true, .reg n.id .register true, dropObs o', .ret .ok])
      else (.replace n' o', [.reg o.id .unregister true, .reg n.id .register false, .ret .err])
    else (.replace n o', [.reg o.id .unregister false, .ret .err])
  | .none => (.none, [.ret .ok])

/-- `unregister` -/
def unregister (ts : TS) : TS × List Obs :=
  match ts with
  | .keep c =>
    let (c', ok) := c.unregister
    (.keep c', [.reg c.id .unregister ok, .ret (if ok then .ok else .err)])
  | .register c =>
    let (c', ok) := c.unregister
    (.register c', [.reg c.id .unregister ok, .ret (if ok then .ok else .err)])
  | .disable c =>
    let (c', ok) := c.unregister
    (.disable c', [.reg c.id .unregister ok, .ret (if ok then .ok else .err)])
  | .remove c =>
    let (c', ok) := c.unregister
    if ok then (.none, [.reg c.id .unregister true, dropObs c', .ret .ok])
    else (.remove c', [.reg c.id .unregister false, .ret .err])
  | .replace n o =>
    -- only the old child was ever registered (fix of finding F16); the new one waits for the next registration
    let (o', ok) := o.unregister
    if ok then (.register n, [.reg o.id .unregister true, dropObs o', .ret .ok])
    else (.replace n o', [.reg o.id .unregister false, .ret .err])
  | .none => (.none, [.ret .ok])

/-- `TransientSource::remove` (`replace_state(Remove)`): the `old` of a pending replacement is
    dropped on the spot. -/
def tsRemove (ts : TS) : TS × List Obs :=
  match ts with
  | .keep c | .register c | .disable c | .remove c => (.remove c, [.ret .unit])
  | .replace n o => (.remove n, [dropObs o, .ret .unit])
  | .none => (.none, [.ret .unit])

/-- `TransientSource::replace(new)`; on an empty wrapper the new source is simply dropped. -/
def tsReplace (ts : TS) (n : Child) : TS × List Obs :=
  match ts with
  | .keep c | .register c | .disable c | .remove c => (.replace n c, [.ret .unit])
  | .replace n0 o => (.replace n n0, [dropObs o, .ret .unit])
  | .none => (.none, [dropObs n, .ret .unit])

def tsMap (ts : TS) : Ret :=
  match ts with
  | .keep c | .register c | .disable c => .mapSome c.id
  | .replace n _ => .mapSome n.id
  | .remove _ | .none => .mapNone

def step (ts : TS) (o : Op) : TS × List Obs :=
  let (ts', obs) :=
    match o with
    | .pe r => processEvents ts r
    | .tsRemove => tsRemove ts
    | .tsReplace c => tsReplace ts ⟨c, false⟩
    | .pRegister => register ts
    | .pReregister => reregister ts
    | .pUnregister => unregister ts
    | .map => (ts, [.ret (tsMap ts)])
    | .isNone => (ts, [.ret (.isNone (ts == .none))])
  (ts', .op o :: obs)

def run : TS → List Op → List Obs
  | _, [] => []
  | ts, o :: os => (step ts o).2 ++ run (step ts o).1 os

def final : TS → List Op → TS
  | ts, [] => ts
  | ts, o :: os => final (step ts o).1 os

/-- Dropping the wrapper drops what it holds (`new` before `old`: field order). -/
def dropAll : TS → List Obs
  | .keep c | .register c | .disable c | .remove c => [dropObs c]
  | .replace n o => [dropObs n, dropObs o]
  | .none => []

/-- `From<T>` / `Default` -/
def initFrom (c : Nat) : TS := .register ⟨c, false⟩
def initDefault : TS := .none

end Verif.Transient
