/-
The kernel objects the loop talks to, as used through `polling` 3.x on Linux: eventfds and one
epoll instance.  Modelled, not verified (DESIGN.md §3) — the correspondence check compares this
model's epoll table with /proc/self/fdinfo of the real process after every operation and the order
of reported events with the real order of callbacks.

epoll (fs/eventpoll.c): a registration table plus a FIFO ready list.  An entry is queued when it is
added/modified while ready, or when the file's wait queue is woken with an event the entry is
interested in (eventfd: write wakes EPOLLIN, a successful read wakes EPOLLOUT).  `wait` takes the
queued entries in order, re-evaluates their readiness, reports those still ready; a level entry
goes back to the tail of the ready list, an edge entry does not, a one-shot entry is disarmed.
-/
import Verif.Model.Token

namespace Verif.Kernel
open Verif.Token

inductive Mode | level | edge | oneshot
  deriving DecidableEq, Repr

inductive IoErr | eexist | enoent | ebadf | other
  deriving DecidableEq, Repr

structure EpEntry where
  fd   : Nat
  key  : Tok
  r    : Bool
  w    : Bool
  mode : Mode
  deriving DecidableEq, Repr

structure Event where
  key : Tok
  r   : Bool
  w   : Bool
  deriving DecidableEq, Repr

structure Kernel where
  counters : List (Nat × Nat) := []   -- eventfd ↦ counter
  ep  : List EpEntry := []            -- epoll interest table
  rdl : List Nat := []                -- epoll ready list (fds, queue order)
  deriving Repr

def counter (k : Kernel) (fd : Nat) : Nat :=
  match k.counters.find? (·.1 == fd) with
  | some (_, c) => c
  | none => 0

def setCounter (k : Kernel) (fd c : Nat) : Kernel :=
  { k with counters := (fd, c) :: k.counters.filter (·.1 != fd) }

def entry? (k : Kernel) (fd : Nat) : Option EpEntry := k.ep.find? (·.fd == fd)

/-- an eventfd is readable iff its counter is non-zero, and (below the cap) always writable -/
def readyNow (k : Kernel) (e : EpEntry) : Bool × Bool :=
  (e.r && counter k e.fd > 0, e.w)

def enqueue (k : Kernel) (fd : Nat) : Kernel :=
  if k.rdl.contains fd then k else { k with rdl := k.rdl ++ [fd] }

/-- `EPOLL_CTL_ADD` -/
def epAdd (k : Kernel) (e : EpEntry) : Except IoErr Kernel :=
  match entry? k e.fd with
  | some _ => .error .eexist
  | none =>
    let k := { k with ep := k.ep ++ [e] }
    let (r, w) := readyNow k e
    .ok (if r || w then enqueue k e.fd else k)

/-- `EPOLL_CTL_MOD` -/
def epMod (k : Kernel) (e : EpEntry) : Except IoErr Kernel :=
  match entry? k e.fd with
  | none => .error .enoent
  | some _ =>
    let k := { k with ep := k.ep.map (fun x => if x.fd == e.fd then e else x) }
    let (r, w) := readyNow k e
    .ok (if r || w then enqueue k e.fd else k)

/-- `EPOLL_CTL_DEL` -/
def epDel (k : Kernel) (fd : Nat) : Except IoErr Kernel :=
  match entry? k fd with
  | none => .error .enoent
  | some _ => .ok { k with ep := k.ep.filter (·.fd != fd), rdl := k.rdl.filter (· != fd) }

/-- `write(eventfd, n)` with n > 0: add and wake readers -/
def efdWrite (k : Kernel) (fd n : Nat) : Kernel :=
  let k := setCounter k fd (counter k fd + n)
  match entry? k fd with
  | some e => if e.r then enqueue k fd else k
  | none => k

/-- `read(eventfd)`: `none` = EAGAIN; otherwise the counter, reset to zero, writers woken -/
def efdRead (k : Kernel) (fd : Nat) : Option Nat × Kernel :=
  let c := counter k fd
  if c = 0 then (none, k)
  else
    let k := setCounter k fd 0
    match entry? k fd with
    | some e => (some c, if e.w then enqueue k fd else k)
    | none => (some c, k)

/-- one pass of `epoll_wait` over the queued entries -/
def waitLoop (k : Kernel) : List Nat → List Event × Kernel
  | [] => ([], k)
  | fd :: rest =>
    match entry? k fd with
    | none => waitLoop k rest
    | some e =>
      let (r, w) := readyNow k e
      if r || w then
        let k' := match e.mode with
          | .level => { k with rdl := k.rdl ++ [fd] }
          | .edge => k
          | .oneshot => { k with ep := k.ep.map (fun x => if x.fd == fd then { x with r := false, w := false } else x) }
        let (evs, k'') := waitLoop k' rest
        (⟨e.key, r, w⟩ :: evs, k'')
      else waitLoop k rest

def epWait (k : Kernel) : List Event × Kernel :=
  let q := k.rdl
  waitLoop { k with rdl := [] } q

end Verif.Kernel
