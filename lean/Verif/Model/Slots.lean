/-
`SourceList` (`src/list.rs`): the slot table with generation-checked lookup.
Import-free (besides the token model), executable.
-/
import Verif.Model.Token

namespace Verif.Slots
open Verif.Token

/-- `SourceEntry { token, source }`; `occ` is the identity of the dispatcher in the slot. -/
structure Slot where
  tok : Tok
  occ : Option Nat
  deriving DecidableEq, Repr

abbrev Slots := List Slot

/-- index of the first vacant slot (`position(|slot| slot.source.is_none())`) -/
def firstVacant : Slots → Option Nat
  | [] => none
  | s :: ss => if s.occ.isNone then some 0 else (firstVacant ss).map (· + 1)

def bumpAt (bV : Nat) : Slots → Nat → Slots
  | [], _ => []
  | s :: ss, 0 => { s with tok := incVersion bV s.tok } :: ss
  | s :: ss, i + 1 => s :: bumpAt bV ss i

/-- `vacant_entry`: reuse the first vacant slot (bumping its version) or push a new slot.
    Returns the new table and the index of the entry.  (The `expect` on `TokenInner::new` for more
    than 2^32 slots is not modelled: no history reaches it.) -/
def vacantEntry (bV : Nat) (ss : Slots) : Slots × Nat :=
  match firstVacant ss with
  | some i => (bumpAt bV ss i, i)
  | none => (ss ++ [{ tok := { id := ss.length, ver := 0, sub := 0 }, occ := none }], ss.length)

/-- `SourceList::get` / `get_mut`: by index, then `same_source_as`. -/
def get (ss : Slots) (t : Tok) : Option Slot :=
  match ss[t.id]? with
  | some s => if sameSource s.tok t then some s else none
  | none => none

def setOcc : Slots → Nat → Option Nat → Slots
  | [], _, _ => []
  | s :: ss, 0, o => { s with occ := o } :: ss
  | s :: ss, i + 1, o => s :: setOcc ss i o

def occupied (ss : Slots) : Nat := (ss.filter (·.occ.isSome)).length

end Verif.Slots
