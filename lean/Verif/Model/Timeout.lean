/-
M7 `Timeout` — how long `dispatch(timeout)` asks the OS to wait (`Poll::poll` in `src/sys.rs`,
`dispatch_events` in `src/loop_logic.rs`): the user's timeout, the time to the earliest timer
deadline (saturating at zero), a synthetic event forcing zero.  Durations and instants are naturals.
-/
namespace Verif.Timeout

/-- `deadline.saturating_duration_since(now)` -/
def untilDeadline (deadline now : Nat) : Nat := deadline - now

/-- `next_deadline().map(|d| d.saturating_duration_since(Instant::now()))` -/
def nextTimeout (earliest : Option Nat) (now : Nat) : Option Nat := earliest.map (untilDeadline · now)

/-- the timeout handed to the poller -/
def effTimeout (user next : Option Nat) : Option Nat :=
  match user, next with
  | some t, some n => some (min t n)
  | some t, none => some t
  | none, some n => some n
  | none, none => none

/-- `dispatch_events`: a synthetic event from `before_sleep` forces a non-blocking wait -/
def withSynthetic (user : Option Nat) (synthetic : Bool) : Option Nat := if synthetic then some 0 else user

/-- the whole computation for one dispatch -/
def waitFor (user : Option Nat) (synthetic : Bool) (earliest : Option Nat) (now : Nat) : Option Nat :=
  effTimeout (withSynthetic user synthetic) (nextTimeout earliest now)

end Verif.Timeout
