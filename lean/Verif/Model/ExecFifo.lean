/-
The executor as a single-threaded user sees it (futures.rs: `Scheduler::schedule`, `Executor::process_events`,
`impl Drop for Executor`), for histories of schedule / complete / wake / dispatch / drop over manual futures (a future
is `Ready(i)` once its flag is set and stores its waker otherwise; it never wakes itself).  The executor is a FIFO of
runnables: scheduling queues the task; a wake queues a task that has been polled, is not done and is not queued; a
dispatch polls the queued tasks in order and delivers the outputs of those whose flag is set (such a future is dropped
on completion); when the executor is dropped every future it still holds is dropped, whoever else holds a waker.
The wake protocol across threads is `ExecProto`; this model is tied to the real executor by `vh execcb` / `drv execcb`
(`slab` queries).
-/
namespace Verif.ExecFifo

inductive Op | sch (i : Nat) | cpl (i : Nat) | wk (i : Nat) | disp | drop
  deriving DecidableEq, Repr

structure St where
  flags : List Nat := []
  queued : List Nat := []
  polled : List Nat := []
  done : List Nat := []       -- outputs delivered, in order
  sched : List Nat := []
  dropped : List Nat := []    -- futures that have been dropped
  dead : Bool := false        -- the executor has been removed from the loop and dropped
  deriving Repr

def wake (s : St) (i : Nat) : St :=
  if s.polled.contains i && !s.done.contains i && !s.queued.contains i && !s.dead then { s with queued := s.queued ++ [i] } else s

/-- one runnable of the batch -/
def poll (s : St) (i : Nat) : St :=
  if s.flags.contains i then { s with done := s.done ++ [i], dropped := s.dropped ++ [i] }
  else { s with polled := s.polled ++ [i] }

def step (s : St) : Op → St
  | .sch i => if s.dead then s else { s with queued := s.queued ++ [i], sched := s.sched ++ [i] }
  | .cpl i => wake { s with flags := s.flags ++ [i] } i
  | .wk i => wake s i
  | .drop => { s with dead := true, queued := [], dropped := s.dropped ++ s.sched }
  | .disp => s.queued.foldl poll { s with queued := [] }

def run (ops : List Op) : St := ops.foldl step {}

/-- every task id is scheduled at most once (ids name tasks) -/
def scheduledIds : List Op → List Nat
  | [] => []
  | .sch i :: r => i :: scheduledIds r
  | _ :: r => scheduledIds r

end Verif.ExecFifo
