/-
M3 `PingProto` — the eventfd ping protocol (`src/sources/ping/eventfd.rs`) as a labelled transition
system over *any number* of pinging threads and handle clones, against one dispatching loop.

Threads are counted, not named (the protocol is symmetric in them): `holders` handle instances are
idle, `inPing` are between the start of `ping()` and the completion of its eventfd write, `inDrop`
is the thread (at most one) running `FlagOnDrop::drop` after the last handle went away.  The loop
side is split at every point where another thread can interleave: poll, drain (the 8-byte read
that zeroes the counter), callback, post action.  Control states are numbers so that every
invariant is linear arithmetic:  `loop` = 0 idle · 1 polled (the wait reported this source) ·
2 drained (`lc` is the value read) · 3 called (callback done, post action next);  `reg` = 1 while
the source is inserted and enabled.

Ghosts: `unc` completed pings not yet drained, `closeP` a completed close write not yet drained,
`owed` completed pings not yet followed by a callback start, `pend` 1 while a drained value with
ping bits awaits its callback, `written`, `cbs`, `closes`.  Import-free, executable.
-/
namespace Verif.PingProto

structure St where
  counter : Nat := 0
  holders : Nat := 1
  inPing  : Nat := 0
  inDrop  : Nat := 0
  reg     : Nat := 1
  loop    : Nat := 0
  lc      : Nat := 0
  unc     : Nat := 0
  closeP  : Nat := 0
  owed    : Nat := 0
  pend    : Nat := 0
  written : Nat := 0
  cbs     : Nat := 0
  closes  : Nat := 0
  deriving DecidableEq, Repr

inductive Act
  | pingStart      -- some idle holder calls `ping()`
  | pingWrite      -- … its `write(fd, 2)` completes
  | clone          -- some holder clones its handle
  | dropStart      -- some idle holder drops its handle (the last one enters `FlagOnDrop::drop`)
  | dropWrite      -- `write(fd, 1)` of the close completes
  | loopPoll       -- the loop's wait: reports this source iff it is registered and the fd readable
  | loopDrain      -- `drain_ping`: read the counter, which resets it
  | loopCallback   -- "if ping { callback() }"
  | loopPost       -- "if close { Remove } else { Continue }" applied by the loop
  deriving DecidableEq, Repr

def step (s : St) : Act → Option St
  | .pingStart => if s.holders > 0 then some { s with holders := s.holders - 1, inPing := s.inPing + 1 } else none
  | .pingWrite =>
    if s.inPing > 0 then
      some { s with inPing := s.inPing - 1, holders := s.holders + 1, counter := s.counter + 2,
                    unc := s.unc + 1, owed := s.owed + 1, written := s.written + 1 }
    else none
  | .clone => if s.holders + s.inPing > 0 then some { s with holders := s.holders + 1 } else none
  | .dropStart =>
    if s.holders > 0 then
      if s.holders + s.inPing = 1 then some { s with holders := 0, inDrop := 1 }
      else some { s with holders := s.holders - 1 }
    else none
  | .dropWrite =>
    if s.inDrop > 0 then some { s with inDrop := 0, counter := s.counter + 1, closeP := 1, closes := s.closes + 1 }
    else none
  | .loopPoll =>
    if s.loop = 0 ∧ s.reg = 1 ∧ s.counter > 0 then some { s with loop := 1 } else none
  | .loopDrain =>
    if s.loop = 1 then
      some { s with loop := 2, lc := s.counter, counter := 0, unc := 0, closeP := 0,
                    pend := if s.counter ≥ 2 then 1 else 0 }
    else none
  | .loopCallback =>
    if s.loop = 2 then
      if s.lc ≥ 2 then some { s with loop := 3, cbs := s.cbs + 1, owed := 0, pend := 0 }
      else some { s with loop := 3 }
    else none
  | .loopPost =>
    if s.loop = 3 then some { s with loop := 0, reg := if s.lc % 2 = 1 then 0 else s.reg } else none

/-- reachable states, from `n` initial handle instances -/
inductive Reach (n : Nat) : St → Prop
  | init : Reach n { holders := n }
  | step {s s'} (a : Act) : Reach n s → step s a = some s' → Reach n s'

def run (s : St) : List Act → Option St
  | [] => some s
  | a :: as => match step s a with
    | some s' => run s' as
    | none => none

end Verif.PingProto
