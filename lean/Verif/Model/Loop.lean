/-
M2 `LoopCore` — the single-threaded event loop: `loop_logic.rs` (handle operations, `dispatch_events`,
`dispatch_idles`), `list.rs` (through `Verif.Slots`), `sources/mod.rs` (dispatcher-level
register / reregister / unregister, the additional-lifecycle set, post actions), `sys.rs`
(`Poll::poll`: epoll report then expired timers), `generic.rs`, `timer.rs` (through `Verif.Wheel`),
`ping/eventfd.rs`, `channel.rs` (single-threaded view of the mpsc queue), and an instrumented
composite source (n `Generic`s over eventfds, optional lifecycle hooks, scripted failures).

Executable; mirrors the Rust statement by statement, including where a `RefCell` is borrowed
(`running`), where `?` returns early, and when the last `Rc` of a dispatcher goes away (`maybeDrop`).
Callback programs are data (`scripts`), so "for all callback programs" is "for all op lists".
-/
import Verif.Model.Token
import Verif.Model.Slots
import Verif.Model.Wheel
import Verif.Model.Kernel
import Verif.Generated.TokenSrc
import Verif.Generated.Consts
import Verif.Generated.PostActionSrc

namespace Verif.Loop
open Verif.Token Verif.Slots Verif.Wheel Verif.Kernel

abbrev PA := Verif.Generated.PostActionSrc.PostAction
def bV : Nat := Verif.Generated.TokenSrc.BITS_VERSION
def bS : Nat := Verif.Generated.TokenSrc.BITS_SUBID

inductive Err | invalidToken | io (e : IoErr) | other
  deriving DecidableEq, Repr

inductive Panic | borrow | unreachable | subIdOverflow
  deriving DecidableEq, Repr

inductive Exc | err (e : Err) | panic (p : Panic)
  deriving DecidableEq, Repr

inductive Kind | ping | timer | chan | gen | custom
  deriving DecidableEq, Repr

/-- a `Generic<F>` over an eventfd -/
structure Gen where
  fd : Nat
  r : Bool
  w : Bool
  mode : Mode
  token : Option Tok := none
  poller : Bool := false
  deriving DecidableEq, Repr

/-- `Generic::unregister` on success: the source forgets its token and its poller back-reference -/
def Gen.unregistered (g : Gen) : Gen := { g with poller := false, token := none }

/-- `Generic::process_events`: "If the token is invalid or not ours, skip processing." -/
def Gen.gate (g : Gen) (key : Tok) : Bool := g.token == some key

inductive Bs | none | synth (j : Nat) | err
  deriving DecidableEq, Repr

structure Plan where
  regFail : Option Nat := none
  reregFail : Option Nat := none
  unregFail : Option Nat := none
  bs : Bs := .none
  rollback : Bool := true       -- `rb=0`: a failing `register` leaves the earlier sub-registrations in place
  deriving DecidableEq, Repr

/-- what a callback program returns (interpreted per source kind) -/
inductive Ret | unit | cont | rereg | disable | remove | err | drop | toInstant (d : Int) | overflow
  deriving DecidableEq, Repr

/-- a source object `K` with its dispatcher (`Rc<RefCell<DispatcherInner<S, F>>>`) -/
structure Src where
  kind : Kind
  gens : List Gen := []
  deadline : Option Int := none
  treg : Option (Tok × Nat) := none      -- `Timer.registration`: token and wheel counter
  tregd : Bool := false                  -- `Timer.registered`
  queue : List Nat := []                 -- mpsc queue
  senders : Nat := 0                     -- live sender handles
  sync : Bool := false                   -- `SyncSender` (one shared ping-on-drop) vs `Sender`
  cap : Nat := 0                         -- `Channel.capacity` (usize::MAX for `channel()`)
  handles : Nat := 0                     -- live `Ping` handles held by the user
  life : Bool := false                   -- NEEDS_EXTRA_LIFECYCLE_EVENTS
  plan : Plan := {}
  owned : Bool := true                   -- the user still owns the object (not inserted / handed back)
  kept : Bool := false                   -- the user keeps a `Dispatcher` clone
  dropped : Bool := false
  deriving DecidableEq, Repr

inductive Payload | unit | msg (v : Nat) | closed | deadline (d : Int) | ready (r w : Bool) | sub (j : Nat)
  deriving DecidableEq, Repr

/-- operations that may be issued between dispatches *and* from inside callbacks -/
inductive COp
  | newPing (k : Nat) | newTimer (k : Nat) (d : Option Int) | newChan (k : Nat) | newSync (k n : Nat)
  | newGen (k fd : Nat) (r w : Bool) (m : Mode) | newCustom (k nsub : Nat) (life : Bool)
  | fd (f : Nat) | plan (k : Nat) (p : Plan)
  | insert (k : Nat) | insertd (k : Nat)
  | remove (k : Nat) | disable (k : Nat) | enable (k : Nat) | update (k : Nat)
  | ping (k : Nat) | clonePing (k : Nat) | dropPing (k : Nat)
  | send (k v : Nat) | cloneSender (k : Nat) | dropSender (k : Nat)
  | write (f n : Nat) | read (f : Nat) | advance (n : Nat)
  | setDeadline (k : Nat) (d : Option Int) | setInterest (k : Nat) (r w : Bool) (m : Mode) | dropDisp (k : Nat)
  | idle (i : Nat) | cancelIdle (i : Nat) | dropIdle (i : Nat)
  | churn (n : Nat)                      -- n times: insert a source without fds, remove it again
  deriving DecidableEq, Repr

structure Script where
  ops : List COp := []
  ret : Ret := .unit
  deriving DecidableEq, Repr

inductive Op
  | c (o : COp)
  | script (k n : Nat) (s : Script)        -- n = 0: every invocation; n > 0: the n-th
  | idleScript (i : Nat) (s : Script)
  | dispatch
  deriving DecidableEq, Repr

inductive OpRes | ok | err (e : Err) | notoken | nohandle | fail | nofd | nodisp | borrowed | exists
  deriving DecidableEq, Repr

inductive InsRes | ok (t : Tok) | err (e : Err) | nosource
  deriving DecidableEq, Repr

inductive RegKind | register | reregister | unregister
  deriving DecidableEq, Repr

structure Stats where
  slots : Nat
  occ : Nat
  life : Nat
  heap : Nat
  idles : Nat
  pend : PA
  synth : Nat
  deriving DecidableEq, Repr

inductive Obs
  | exec (o : COp)                         -- echo of an operation about to be executed (`> …`)
  | top (o : Op)                           -- echo of `script` / `idlescript` / `dispatch`
  | pe (k : Nat)                           -- `process_events` of source `k` begins
  | peret (k : Nat) (r : Option PA)        -- … and returns (`none` = `Err`)
  | opRes (o : COp) (r : OpRes)
  | ins (k : Nat) (r : InsRes)
  | cb (k : Nat) (p : Payload)
  | cbret (k : Nat) (r : Ret)
  | reg (k : Nat) (kind : RegKind) (sub : Nat) (ok : Bool)
  | bs (k : Nat) (b : Bs)
  | bhe (k : Nat) (evs : List Event)
  | idle (i : Nat)
  | idleret (i : Nat)
  | drop (k : Nat)
  | dispatchBegin
  | dispatchEnd (e : Option Err)
  | st (s : Stats)
  | ep (es : List EpEntry)
  | panic (p : Panic)
  | abort
  | caseEnd
  | loopDropped
  deriving DecidableEq, Repr

structure St where
  slots : Slots := []
  srcs : List (Nat × Src) := []
  tokens : List (Nat × Tok) := []          -- registration tokens held by the user, by source
  life : List Tok := []                    -- `sources_with_additional_lifecycle_events`
  idles : List (Nat × Nat) := []           -- queued idle callbacks: (name, instance)
  idleHandles : List (Nat × Nat) := []     -- `Idle` handles the user still holds: name ↦ instance
  cancelled : List Nat := []               -- cancelled instances
  idleSeq : Nat := 0
  pending : PA := .Continue                -- `pending_action`
  synth : List Event := []                 -- `synthetic_events`
  k : Kernel := {}
  wheel : Wheel := {}
  now : Int := 0
  scripts : List ((Nat × Nat) × Script) := []
  idleScripts : List (Nat × Script) := []
  invs : List (Nat × Nat) := []            -- callback invocation counters
  running : Option Nat := none             -- dispatcher whose cell is mutably borrowed (in `process_events`)
  inflight : Option Nat := none            -- dispatcher whose `Rc` clone the dispatch loop holds
  runningIdle : Option Nat := none
  aborted : Bool := false
  log : List Obs := []
  lifeFlags : List (Nat × Bool) := []      -- `NEEDS_EXTRA_LIFECYCLE_EVENTS` of each source type: fixed at creation
  -- ghosts (never read by the model's behaviour)
  aliased : Bool := false                  -- a slot handed out a token equal to one issued before (generation wrap, F12)
  dupInsert : Bool := false                -- a source object was inserted while it already sat in a slot (ruled out by
                                           -- Rust's move semantics; in the model by the `owned` flag)
  reEnabled : Bool := false                -- a timer that still held a registration was registered again (`enable` of
                                           -- a source that is not disabled: outside `enable`'s contract)
  fdClash : Bool := false                  -- a source object was created over an fd that an earlier object watches or
                                           -- watched (two sources over one fd: the situation of finding F15)
  deriving Repr

abbrev M := EStateM Exc St

def emit (o : Obs) : M Unit := modify fun s => { s with log := s.log ++ [o] }

def throwErr {α} (e : Err) : M α := throw (.err e)
def throwPanic {α} (p : Panic) : M α := throw (.panic p)

/-- run `x`; an `Err` becomes a value, a panic keeps propagating -/
def catchErr {α} (x : M α) : M (Except Err α) :=
  tryCatch (do let a ← x; pure (.ok a)) (fun e => match e with
    | .err e => pure (.error e)
    | .panic p => throw (.panic p))

/-- explicit list iteration (instead of `for … in`, to keep induction over the model simple) -/
def forEachM {α} : List α → (α → M Unit) → M Unit
  | [], _ => pure ()
  | a :: as, f => do f a; forEachM as f

/-! ### association-list helpers -/

def alookup {β} (l : List (Nat × β)) (k : Nat) : Option β := (l.find? (·.1 == k)).map (·.2)
def aset {β} (l : List (Nat × β)) (k : Nat) (v : β) : List (Nat × β) :=
  if l.any (·.1 == k) then l.map (fun p => if p.1 == k then (k, v) else p) else l ++ [(k, v)]

def getSrc? (k : Nat) : M (Option Src) := do return alookup (← get).srcs k
def setSrc (k : Nat) (v : Src) : M Unit := modify fun s => { s with srcs := aset s.srcs k v }
def modSrc (k : Nat) (f : Src → Src) : M Unit := do
  match ← getSrc? k with
  | some v => setSrc k (f v)
  | none => pure ()

def modGen (k j : Nat) (f : Gen → Gen) : M Unit :=
  modSrc k fun s => { s with gens := s.gens.mapIdx (fun i g => if i == j then f g else g) }

def getGen? (k j : Nat) : M (Option Gen) := do
  match ← getSrc? k with
  | some s => return s.gens[j]?
  | none => return none

/-! ### kernel calls -/

def kAdd (e : EpEntry) : M Unit := do
  match epAdd (← get).k e with
  | .ok k' => modify fun s => { s with k := k' }
  | .error io => throwErr (.io io)

def kMod (e : EpEntry) : M Unit := do
  match epMod (← get).k e with
  | .ok k' => modify fun s => { s with k := k' }
  | .error io => throwErr (.io io)

def kDel (fd : Nat) : M Unit := do
  match epDel (← get).k fd with
  | .ok k' => modify fun s => { s with k := k' }
  | .error io => throwErr (.io io)

def kWrite (fd n : Nat) : M Unit := modify fun s => { s with k := efdWrite s.k fd n }

def kRead (fd : Nat) : M (Option Nat) := do
  let (c, k') := efdRead (← get).k fd
  modify fun s => { s with k := k' }
  return c

/-! ### `Generic` (generic.rs) -/

def takeToken (f : Factory) : M (Tok × Factory) :=
  match f.token? bS with
  | some r => pure r
  | none => throwPanic .subIdOverflow

def genRegister (k j : Nat) (f : Factory) : M Factory := do
  let (t, f') ← takeToken f
  match ← getGen? k j with
  | none => pure f'
  | some g =>
    kAdd { fd := g.fd, key := t, r := g.r, w := g.w, mode := g.mode }
    modGen k j fun g => { g with poller := true, token := some t }
    pure f'

def genReregister (k j : Nat) (f : Factory) : M Factory := do
  let (t, f') ← takeToken f
  match ← getGen? k j with
  | none => pure f'
  | some g =>
    kMod { fd := g.fd, key := t, r := g.r, w := g.w, mode := g.mode }
    modGen k j fun g => { g with token := some t }
    pure f'

def genUnregister (k j : Nat) : M Unit := do
  match ← getGen? k j with
  | none => pure ()
  | some g =>
    kDel g.fd
    modGen k j Gen.unregistered

/-! ### source-level registration, by kind -/

def customLoop (k : Nat) (kind : RegKind) (fail : Option Nat) (body : Nat → Factory → M Factory) :
    Nat → Nat → Factory → M Factory
  | 0, _, f => pure f
  | n + 1, j, f => do
    if fail == some j then
      emit (.reg k kind j false)
      throwErr (.io .other)
    let r ← catchErr (body j f)
    match r with
    | .ok f' =>
      emit (.reg k kind j true)
      customLoop k kind fail body n (j + 1) f'
    | .error e =>
      emit (.reg k kind j false)
      throwErr e

/-- roll back sub-registrations `j-1 … 0` (results logged, errors ignored) -/
def customRollback (k : Nat) : Nat → M Unit
  | 0 => pure ()
  | j + 1 => do
    let r ← catchErr (genUnregister k j)
    emit (.reg k .unregister j (match r with | .ok _ => true | .error _ => false))
    customRollback k j

/-- `register` of the instrumented composite source: a failing sub-registration rolls the earlier ones
    back, unless the source is of the `?`-propagating kind (`rb = false`) -/
def customRegister (k : Nat) (fail : Option Nat) (rb : Bool) : Nat → Nat → Factory → M Unit
  | 0, _, _ => pure ()
  | n + 1, j, f => do
    let r ← (if fail == some j then pure (Except.error (Err.io .other)) else catchErr (genRegister k j f))
    match r with
    | .ok f' =>
      emit (.reg k .register j true)
      customRegister k fail rb n (j + 1) f'
    | .error e =>
      emit (.reg k .register j false)
      if rb then customRollback k j
      throwErr e

def timerUnregister (k : Nat) : M Unit := do
  modSrc k fun s => { s with tregd := false }
  match ← getSrc? k with
  | some s =>
    match s.treg with
    | some (_, c) =>
      modify fun st => { st with wheel := cancel st.wheel c }
      modSrc k fun s => { s with treg := none }
    | none => pure ()
  | none => pure ()

def timerRegister (k : Nat) (f : Factory) : M Unit := do
  modSrc k fun s => { s with tregd := true }
  match ← getSrc? k with
  | some s =>
    match s.deadline with
    | some d =>
      let (t, _) ← takeToken f
      let (w', c) := insert (← get).wheel d t
      modify fun st => { st with wheel := w', reEnabled := st.reEnabled || s.treg.isSome }
      modSrc k fun s => { s with treg := some (t, c) }
    | none => pure ()
  | none => pure ()

def srcRegister (k : Nat) (f : Factory) : M Unit := do
  match ← getSrc? k with
  | none => pure ()
  | some s =>
    match s.kind with
    | .ping | .chan | .gen => do let _ ← genRegister k 0 f
    | .timer => timerRegister k f
    | .custom => customRegister k s.plan.regFail s.plan.rollback s.gens.length 0 f

def srcReregister (k : Nat) (f : Factory) : M Unit := do
  match ← getSrc? k with
  | none => pure ()
  | some s =>
    match s.kind with
    | .ping | .chan | .gen => do let _ ← genReregister k 0 f
    | .timer => if s.tregd then do timerUnregister k; timerRegister k f else pure ()
    | .custom => do let _ ← customLoop k .reregister s.plan.reregFail (genReregister k) s.gens.length 0 f

def srcUnregister (k : Nat) : M Unit := do
  match ← getSrc? k with
  | none => pure ()
  | some s =>
    match s.kind with
    | .ping | .chan | .gen => genUnregister k 0
    | .timer => timerUnregister k
    | .custom => do
      let _ ← customLoop k .unregister s.plan.unregFail (fun j f => do genUnregister k j; pure f)
        s.gens.length 0 (Factory.new default)

/-! ### dispatcher-level registration (`EventDispatcher for RefCell<DispatcherInner>`) -/

/-- the lifecycle flag (`NEEDS_EXTRA_LIFECYCLE_EVENTS`) as the type-level constant it is: recorded once, when the
    source object is created, and never changed -/
def lifeFlag (s : St) (k : Nat) : Bool := (alookup s.lifeFlags k).getD false

def isLife (k : Nat) : M Bool := do return lifeFlag (← get) k

/-- `AdditionalLifecycleEventsSet::register` (idempotent) / `unregister` -/
def lifeRegister (l : List Tok) (t : Tok) : List Tok := if l.contains t then l else l ++ [t]
def lifeUnregister (l : List Tok) (t : Tok) : List Tok := l.filter (· != t)

/-- `register`: `borrow_mut()` panics when the dispatcher is running (documented: no `enable` of the
    running source) -/
def dRegister (k : Nat) (tok : Tok) : M Unit := do
  if (← get).running == some k then throwPanic .borrow
  srcRegister k (Factory.new tok)
  if ← isLife k then modify fun s => { s with life := lifeRegister s.life (forgetSub tok) }

/-- `reregister`: `Ok(false)` when the dispatcher is running (deferred) -/
def dReregister (k : Nat) (tok : Tok) : M Bool := do
  if (← get).running == some k then return false
  srcReregister k (Factory.new tok)
  if ← isLife k then modify fun s => { s with life := lifeRegister s.life (forgetSub tok) }
  return true

/-- `unregister`: `Ok(false)` when the dispatcher is running (deferred) -/
def dUnregister (k : Nat) (tok : Tok) : M Bool := do
  if (← get).running == some k then return false
  let r ← catchErr (srcUnregister k)
  -- the lifecycle entry goes even when the source failed to unregister cleanly
  if ← isLife k then modify fun s => { s with life := lifeUnregister s.life tok }
  match r with
  | .ok _ => return true
  | .error e => throwErr e

/-! ### reference counting of dispatchers: who still holds an `Rc` -/

def inSlot (s : St) (k : Nat) : Bool := s.slots.any (·.occ == some k)

/-- `Generic::drop` of every `Generic` a source owns: a still-registered fd leaves the poller (errors ignored) -/
def dropGens (k : Kernel) : List Gen → Kernel
  | [] => k
  | g :: gs =>
    if g.poller then
      match epDel k g.fd with
      | .ok k' => dropGens k' gs
      | .error _ => dropGens k gs
    else dropGens k gs

/-- Drop `k` if nobody holds it any more: `Generic::drop` removes a still-registered fd from the
    poller; `Timer` has no `Drop`. -/
def maybeDrop (k : Nat) : M Unit := do
  let s ← get
  match alookup s.srcs k with
  | none => pure ()
  | some src =>
    if src.dropped || src.owned || src.kept || inSlot s k || s.inflight == some k then pure ()
    else
      emit (.drop k)
      modify fun s => { s with k := dropGens s.k src.gens }
      modSrc k fun s => { s with dropped := true, gens := s.gens.map fun g => { g with poller := false } }

/-! ### handle operations (`LoopHandle`) and environment operations -/

def userTok (k : Nat) : M (Option Tok) := do return alookup (← get).tokens k

def slotDisp (s : St) (t : Tok) : Option Nat := (Slots.get s.slots t).bind (·.occ)

def doInsert (k : Nat) (keep : Bool) : M Unit := do
  match ← getSrc? k with
  | none => emit (.ins k .nosource)
  | some src =>
    if !src.owned || src.dropped then emit (.ins k .nosource) else
    modSrc k fun s => { s with owned := false, kept := keep && s.kind != .chan && s.kind != .custom }
    let (slots', i) := vacantEntry bV (← get).slots
    let tok := match slots'[i]? with | some sl => sl.tok | none => default
    modify fun s => { s with slots := setOcc slots' i (some k), aliased := s.aliased || s.tokens.any (·.2 == tok),
                             dupInsert := s.dupInsert || inSlot s k }
    let r ← catchErr (dRegister k tok)
    match r with
    | .ok _ =>
      modify fun s => { s with tokens := aset s.tokens k tok }
      emit (.ins k (.ok tok))
    | .error e =>
      modify fun s => { s with slots := setOcc s.slots i none }
      -- `insert_source` hands the source back; the harness keeps composite sources for a retry
      if src.kind == .custom then modSrc k fun s => { s with owned := true }
      maybeDrop k
      emit (.ins k (.err e))

def doRemove (o : COp) (k : Nat) : M Unit := do
  match ← userTok k with
  | none => emit (.opRes o .notoken)
  | some tok =>
    let s ← get
    match Slots.get s.slots tok with
    | none => pure ()
    | some slot =>
      match slot.occ with
      | none => pure ()
      | some d =>
        modify fun s => { s with slots := setOcc s.slots tok.id none }
        let _ ← catchErr (dUnregister d tok)
        maybeDrop d
    emit (.opRes o .ok)

def tokenOp (o : COp) (k : Nat) (body : Nat → Tok → M Unit) : M Unit := do
  match ← userTok k with
  | none => emit (.opRes o .notoken)
  | some tok =>
    let s ← get
    match slotDisp s tok with
    | none => emit (.opRes o (.err .invalidToken))
    | some d =>
      -- (the slot's own token and the user's token agree: same id and version, sub-id 0)
      let r ← catchErr (body d tok)
      match r with
      | .ok _ => emit (.opRes o .ok)
      | .error e => emit (.opRes o (.err e))

def chanFd (k : Nat) : M Nat := do
  match ← getGen? k 0 with
  | some g => return g.fd
  | none => return 0

/-- `n` insert/remove cycles of a source that registers nothing: the first vacant slot is handed out
    (generation bumped, or a new slot pushed) and vacated again -/
def churnSlots : Nat → Slots → Slots
  | 0, ss => ss
  | n + 1, ss => churnSlots n (vacantEntry bV ss).1

def isNew (o : COp) : Option Nat :=
  match o with
  | .newPing k | .newTimer k _ | .newChan k | .newSync k _ | .newGen k _ _ _ _ | .newCustom k _ _ => some k
  | _ => none

def execC' (o : COp) : M Unit := do
  match o with
  | .newPing k => setSrc k { kind := .ping, gens := [{ fd := 100000 + k, r := true, w := false, mode := .level }], handles := 1 }
  | .newTimer k d => setSrc k { kind := .timer, deadline := d }
  | .newChan k => setSrc k { kind := .chan, gens := [{ fd := 100000 + k, r := true, w := false, mode := .level }],
                             senders := 1, cap := Verif.Generated.Consts.UNBOUNDED_CAPACITY }
  | .newSync k n => setSrc k { kind := .chan, gens := [{ fd := 100000 + k, r := true, w := false, mode := .level }],
                               senders := 1, sync := true, cap := n }
  | .newGen k fd r w m =>
    if (← get).k.counters.any (·.1 == fd) then
      setSrc k { kind := .gen, gens := [{ fd := fd, r := r, w := w, mode := m }] }
    else emit (.opRes o .nofd)
  | .newCustom k nsub life =>
    modify fun s => { s with k := (List.range nsub).foldl (fun kk j => setCounter kk (1000 * k + j) 0) s.k,
                             lifeFlags := if (alookup s.lifeFlags k).isSome then s.lifeFlags else s.lifeFlags ++ [(k, life)] }
    setSrc k { kind := .custom, life := life,
               gens := (List.range nsub).map fun j => { fd := 1000 * k + j, r := true, w := false, mode := .level } }
  | .fd f =>
    if (← get).k.counters.any (·.1 == f) then emit (.opRes o .exists)
    else modify fun s => { s with k := setCounter s.k f 0 }
  | .plan k p => modSrc k fun s => { s with plan := p }
  | .insert k => doInsert k false
  | .insertd k => doInsert k true
  | .remove k => doRemove o k
  | .disable k => tokenOp o k fun d tok => do
      if !(← dUnregister d tok) then modify fun s => { s with pending := .Disable }
  | .enable k => tokenOp o k fun d tok => dRegister d tok
  | .update k => tokenOp o k fun d tok => do
      if !(← dReregister d tok) then modify fun s => { s with pending := .Reregister }
  | .ping k =>
    match ← getSrc? k with
    | some s => if s.handles > 0 then kWrite (100000 + k) Verif.Generated.Consts.INCREMENT_PING
                else emit (.opRes o .nohandle)
    | none => emit (.opRes o .nohandle)
  | .clonePing k => modSrc k fun s => if s.handles > 0 then { s with handles := s.handles + 1 } else s
  | .dropPing k =>
    match ← getSrc? k with
    | some s =>
      if s.handles > 0 then
        modSrc k fun s => { s with handles := s.handles - 1 }
        if s.handles == 1 then kWrite (100000 + k) Verif.Generated.Consts.INCREMENT_CLOSE
    | none => pure ()
  | .send k v =>
    match ← getSrc? k with
    | some s =>
      if s.kind != .chan || s.senders == 0 then emit (.opRes o .nohandle)
      else if s.dropped then emit (.opRes o .fail)
      else if !s.sync || s.queue.length < s.cap then
        modSrc k fun s => { s with queue := s.queue ++ [v] }
        kWrite (← chanFd k) Verif.Generated.Consts.INCREMENT_PING
        emit (.opRes o .ok)
      else
        -- `try_send` on a full queue still pings
        kWrite (← chanFd k) Verif.Generated.Consts.INCREMENT_PING
        emit (.opRes o .fail)
    | none => emit (.opRes o .nohandle)
  | .cloneSender k => modSrc k fun s => if s.senders > 0 then { s with senders := s.senders + 1 } else s
  | .dropSender k =>
    match ← getSrc? k with
    | some s =>
      if s.kind == .chan && s.senders > 0 then
        modSrc k fun s => { s with senders := s.senders - 1 }
        -- `Sender`: every handle pings when dropped; `SyncSender`: the shared ping-on-drop goes last
        if !s.sync || s.senders == 1 then kWrite (← chanFd k) Verif.Generated.Consts.INCREMENT_PING
    | none => pure ()
  | .write f n => if (← get).k.counters.any (·.1 == f) then kWrite f n else pure ()
  | .read f => if (← get).k.counters.any (·.1 == f) then do let _ ← kRead f else pure ()
  | .advance n => modify fun s => { s with now := s.now + n }
  | .setDeadline k d =>
    match ← getSrc? k with
    | some s =>
      if s.kind == .timer && s.kept then
        if (← get).running == some k then emit (.opRes o .borrowed)
        else modSrc k fun s => { s with deadline := d }
      else emit (.opRes o .nodisp)
    | none => emit (.opRes o .nodisp)
  | .setInterest k r w m =>
    match ← getSrc? k with
    | some s =>
      if s.kind == .gen && s.kept then
        if (← get).running == some k then emit (.opRes o .borrowed)
        else modGen k 0 fun g => { g with r := r, w := w, mode := m }
      else emit (.opRes o .nodisp)
    | none => emit (.opRes o .nodisp)
  | .dropDisp k => do
    modSrc k fun s => { s with kept := false }
    maybeDrop k
  | .idle i => modify fun s =>
      { s with idles := s.idles ++ [(i, s.idleSeq)], idleHandles := aset s.idleHandles i s.idleSeq,
               idleSeq := s.idleSeq + 1 }
  | .cancelIdle i => do
    let s ← get
    match alookup s.idleHandles i with
    | some inst =>
      modify fun s => { s with idleHandles := s.idleHandles.filter (·.1 != i) }
      -- `Idle::cancel` borrows the callback cell, which `dispatch_idles` holds while the idle runs
      if s.runningIdle == some inst then throwPanic .borrow
      modify fun s => { s with cancelled := inst :: s.cancelled }
    | none => pure ()
  | .dropIdle i => modify fun s => { s with idleHandles := s.idleHandles.filter (·.1 != i) }
  | .churn n => modify fun s => { s with slots := churnSlots n s.slots }

/-- the fds of the sub-sources a `new*` operation creates -/
def newFds : COp → List Nat
  | .newPing k | .newChan k | .newSync k _ => [100000 + k]
  | .newGen _ fd _ _ _ => [fd]
  | .newCustom k nsub _ => (List.range nsub).map fun j => 1000 * k + j
  | _ => []

/-- the fds of the sub-sources of every source object created so far (dropped ones included) -/
def allFds (s : St) : List Nat := s.srcs.flatMap fun p => p.2.gens.map (·.fd)

/-- a source id names one object for the whole case -/
def execC (o : COp) : M Unit := do
  emit (.exec o)
  match isNew o with
  | some k =>
    if (alookup (← get).srcs k).isSome then emit (.opRes o .exists) else
      -- ghost: does the new object share an fd with an earlier one (or with itself)?
      modify fun s => { s with fdClash := s.fdClash || !(newFds o).Nodup || (newFds o).any (allFds s).contains }
      execC' o
  | none => execC' o

/-! ### callbacks -/

def scriptFor (s : St) (k n : Nat) : Script :=
  match s.scripts.find? (·.1 == (k, n)) with
  | some (_, sc) => sc
  | none => match s.scripts.find? (·.1 == (k, 0)) with
    | some (_, sc) => sc
    | none => {}

def runCb (k : Nat) (p : Payload) : M Ret := do
  emit (.cb k p)
  let n := ((alookup (← get).invs k).getD 0) + 1
  modify fun s => { s with invs := aset s.invs k n }
  let sc := scriptFor (← get) k n
  forEachM sc.ops execC
  emit (.cbret k sc.ret)
  return sc.ret

def retPA : Ret → M PA
  | .rereg => pure .Reregister
  | .disable => pure .Disable
  | .remove => pure .Remove
  | .err => throwErr .other
  | _ => pure .Continue

/-! ### `process_events`, by kind -/

/-- `Timer::process_events`: does this event fire the callback?  It needs a registration with this
    token, a deadline, and must not be stale (the current arming still waiting in the wheel). -/
def timerFires (s : Src) (key : Tok) (w : Wheel) : Option (Tok × Nat × Int) :=
  match s.treg, s.deadline with
  | some (t, c), some d =>
    if t != key then none
    else if w.heap.any (·.counter == c) then none
    else some (t, c, d)
  | _, _ => none

/-- `Generic::process_events` gate: the event's token must be the one the source registered with -/
def genGate (k j : Nat) (ev : Event) : M Bool := do
  match ← getGen? k j with
  | some g => return g.gate ev.key
  | none => return false

/-- `PingSource::process_events` around a callback body; the body's result is returned when it ran -/
def pingPE {α} (k : Nat) (ev : Event) (body : M α) : M (PA × Option α) := do
  if !(← genGate k 0 ev) then return (.Continue, none)
  let fd ← chanFd k
  match ← kRead fd with
  | none => throwErr .other                      -- EAGAIN from `drain_ping`
  | some c =>
    let r ← (if Verif.Generated.Consts.pingBits c != 0 then do let a ← body; pure (some a) else pure none)
    if Verif.Generated.Consts.closeBits c != 0 then return (.Remove, r) else return (.Continue, r)

/-- the bounded drain of `Channel::process_events`; returns (clear_readiness, disconnected) -/
def chanDrain (k : Nat) : Nat → M (Bool × Bool)
  | 0 => pure (false, false)
  | budget + 1 => do
    match ← getSrc? k with
    | none => pure (true, false)
    | some s =>
      match s.queue with
      | v :: rest =>
        modSrc k fun s => { s with queue := s.queue.tail }
        let _ ← runCb k (.msg v)
        chanDrain k budget
      | [] =>
        if s.senders == 0 then
          let _ ← runCb k .closed
          pure (false, true)
        else pure (true, false)

def customPE (k : Nat) (ev : Event) : Nat → Nat → PA → M PA
  | 0, _, acc => pure acc
  | n + 1, j, acc => do
    let a ← (do
      if ← genGate k j ev then
        let r ← runCb k (.sub j)
        retPA r
      else pure (.Continue : PA))
    customPE k ev n (j + 1) (Verif.Generated.PostActionSrc.bitor_assign acc a)

def processEventsInner (k : Nat) (ev : Event) : M PA := do
  match ← getSrc? k with
  | none => pure .Continue
  | some s =>
    match s.kind with
    | .ping => do let (a, _) ← pingPE k ev (runCb k .unit); pure a
    | .chan => do
      let budget := Verif.Generated.Consts.channelBudget s.cap
      let (action, seen) ← pingPE k ev (chanDrain k budget)
      -- (clear_readiness, disconnected) stay false when the closure did not run
      let (clear, disc) := seen.getD (false, false)
      if disc then pure .Remove
      else if clear then pure action
      else
        kWrite (← chanFd k) Verif.Generated.Consts.INCREMENT_PING
        pure .Continue
    | .timer =>
      match timerFires s ev.key (← get).wheel with
      | some (t, c, d) => do
          let r ← runCb k (.deadline d)
          match r with
          | .toInstant i =>
            modify fun st => { st with wheel := insertReuse st.wheel c i t }
            modSrc k fun s => { s with deadline := some i }
            pure .Continue
          | .overflow =>
            modSrc k fun s => { s with deadline := none }
            pure .Remove
          | _ => pure .Remove
      | none => pure .Continue
    | .gen => do
      if ← genGate k 0 ev then
        let r ← runCb k (.ready ev.r ev.w)
        retPA r
      else pure .Continue
    | .custom => customPE k ev s.gens.length 0 .Continue

/-- `RefCell<DispatcherInner>::process_events`: the cell is mutably borrowed for the duration -/
def processEvents (k : Nat) (ev : Event) : M PA := do
  modify fun s => { s with running := some k }
  emit (.pe k)
  let r ← tryCatch (do let a ← processEventsInner k ev; pure (Except.ok a))
            (fun e => do
              modify (fun s => { s with running := none })
              match e with
              | .err _ => emit (.peret k none)
              | .panic _ => pure ()
              throw e)
  modify fun s => { s with running := none }
  match r with
  | .ok a => do emit (.peret k (some a)); pure a
  | .error (e : Exc) => throw e

/-! ### `dispatch_events` / `dispatch_idles` -/

def beforeSleep (tok : Tok) : M Unit := do
  let s ← get
  match slotDisp s tok with
  | none => throwPanic .unreachable
  | some k =>
    match alookup s.srcs k with
    | none => pure ()
    | some src =>
      match src.plan.bs with
      | .none => emit (.bs k .none)
      | .err => do emit (.bs k .err); throwErr (.io .other)
      | .synth j =>
        emit (.bs k (.synth j))
        modify fun s => { s with synth := s.synth ++ [{ key := { tok with sub := j }, r := true, w := false }] }

def beforeHandle (evs : List Event) (tok : Tok) : M Unit := do
  let s ← get
  match slotDisp s tok with
  | none => throwPanic .unreachable
  | some k => emit (.bhe k (evs.filter fun e => sameSource e.key tok))

/-- "if the returned PostAction is Continue, it may be overwritten by a user-specified pending action" -/
def resolve (ret pending : PA) : PA := if ret == .Continue then pending else ret

/-- one iteration of the event loop of `dispatch_events`; returns the error of this event, if any
    (the batch goes on, the first error is reported at the end) -/
def processOne (ev : Event) : M (Option Err) := do
  let reg := forgetSub ev.key
  match slotDisp (← get) reg with
  | none => pure none
  | some k =>
    modify fun s => { s with inflight := some k }
    let r ← catchErr (processEvents k ev)
    -- the pending action is consumed whatever the outcome
    let p := (← get).pending
    modify fun s => { s with pending := .Continue }
    let outcome ← catchErr (do
      match r with
      | .error e => throwErr e
      | .ok ret0 =>
        let ret := resolve ret0 p
        match ret with
        | .Reregister => do let _ ← dReregister k reg
        | .Disable => do let _ ← dUnregister k reg
        | .Remove =>
          if (Slots.get (← get).slots reg).isSome then
            modify fun s => { s with slots := setOcc s.slots reg.id none }
        | .Continue => pure ())
    -- the source has been removed from within its callback: unregister it (always checked)
    let gone := match Slots.get (← get).slots reg with
      | some sl => sl.occ.isNone
      | none => true
    if gone then do let _ ← catchErr (dUnregister k reg)
    modify fun s => { s with inflight := none }
    maybeDrop k
    match outcome with
    | .ok _ => pure none
    | .error e => pure (some e)

/-- the event loop of `dispatch_events`: the whole batch is processed, the first error is kept -/
def batchLoop : List Event → Option Err → M (Option Err)
  | [], first => pure first
  | ev :: rest, first => do
    let e ← processOne ev
    batchLoop rest (if first.isNone then e else first)

def dispatchEvents : M Unit := do
  forEachM (← get).life beforeSleep
  -- `Poll::poll`: the poller's report, then every expired timer in pop order
  let evs := (epWait (← get).k).1
  modify fun s => { s with k := (epWait s.k).2 }
  let exp := (popExpired (← get).wheel (← get).now (← get).wheel.heap.length).1
  modify fun s => { s with wheel := (popExpired s.wheel s.now s.wheel.heap.length).2 }
  let polled := evs ++ exp.map fun e => { key := e.tok, r := true, w := false }
  forEachM (← get).life (beforeHandle polled)
  let batch := (← get).synth ++ polled
  modify fun s => { s with synth := [] }
  match ← batchLoop batch none with
  | some e => throwErr e
  | none => pure ()

def runIdle (p : Nat × Nat) : M Unit := do
  if !(← get).cancelled.contains p.2 then
    emit (.idle p.1)
    modify fun s => { s with runningIdle := some p.2 }
    let sc := (alookup (← get).idleScripts p.1).getD {}
    forEachM sc.ops execC
    modify fun s => { s with runningIdle := none }
    emit (.idleret p.1)

/-- `dispatch_idles`: the queue is taken, then every callback that was not cancelled runs once -/
def dispatchIdles : M Unit := do
  let q := (← get).idles
  modify fun s => { s with idles := [] }
  forEachM q runIdle

def dispatch : M Unit := do
  emit .dispatchBegin
  let r ← catchErr dispatchEvents
  match r with
  | .ok _ => do dispatchIdles; emit (.dispatchEnd none)
  | .error e => emit (.dispatchEnd (some e))

/-! ### top level -/

def stats (s : St) : Stats :=
  { slots := s.slots.length, occ := occupied s.slots, life := s.life.length, heap := s.wheel.heap.length,
    idles := s.idles.length, pend := s.pending, synth := s.synth.length }

def snapshot : M Unit := do
  let s ← get
  emit (.st (stats s))
  emit (.ep s.k.ep)

def execTop (o : Op) : M Unit := do
  match o with
  | .script k n sc => do
    emit (.top o)
    modify fun s => { s with scripts := ((k, n), sc) :: s.scripts.filter (·.1 != (k, n)) }
  | .idleScript i sc => do
    emit (.top o)
    modify fun s => { s with idleScripts := aset s.idleScripts i sc }
  | .c o => do execC o; snapshot
  | .dispatch => do emit (.top o); dispatch; snapshot

/-- One top-level operation; a panic aborts the case (the harness leaks the loop). -/
def step (s : St) (o : Op) : St :=
  if s.aborted then s else
  match execTop o s with
  | .ok _ s' => s'
  | .error (.panic p) s' => { s' with aborted := true, log := s'.log ++ [.panic p, .abort] }
  | .error (.err _) s' => s'      -- not reachable: every `Err` is caught at the operation level

def run (ops : List Op) : St := ops.foldl step {}

/-- End of case: the loop is dropped (slots in order), then what the harness itself still holds. -/
def endCase (s : St) : List Obs × List Nat :=
  if s.aborted then ([], []) else
  let inLoop := s.slots.filterMap (·.occ)
  let dropsLoop := inLoop.filter fun k =>
    match alookup s.srcs k with
    | some src => !src.kept && !src.dropped
    | none => false
  -- (the harness only wraps a source in its drop-logging wrapper when it inserts it; composite
  -- sources log their own drop)
  let rest := (s.srcs.filter fun (k, src) =>
    !src.dropped && !dropsLoop.contains k &&
      ((src.owned && src.kind == .custom) || (src.kept && !src.owned))).map (·.1)
  ([.caseEnd] ++ dropsLoop.map .drop ++ [.loopDropped], rest)

end Verif.Loop
