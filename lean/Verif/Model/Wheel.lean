/-
`TimerWheel` (`src/sources/timer.rs`): a min-heap of `(deadline, token, counter)`.
The heap is modelled as a list in insertion order; `pop` takes a minimum-deadline entry (the first
such entry in insertion order — among equal deadlines the real `BinaryHeap` order is unspecified).
-/
import Verif.Model.Token

namespace Verif.Wheel
open Verif.Token

structure Entry where
  deadline : Int
  tok : Tok
  counter : Nat
  deriving DecidableEq, Repr

structure Wheel where
  heap : List Entry := []
  counter : Nat := 0
  deriving Repr

/-- index of a minimum-deadline entry -/
def minIdx : List Entry → Option Nat
  | [] => none
  | e :: es =>
    match minIdx es with
    | none => some 0
    | some j => match es[j]? with
      | some m => if e.deadline ≤ m.deadline then some 0 else some (j + 1)
      | none => some 0

def peek (w : Wheel) : Option Entry :=
  match minIdx w.heap with
  | some i => w.heap[i]?
  | none => none

def insert (w : Wheel) (d : Int) (t : Tok) : Wheel × Nat :=
  ({ heap := w.heap ++ [⟨d, t, w.counter⟩], counter := w.counter + 1 }, w.counter)

def insertReuse (w : Wheel) (c : Nat) (d : Int) (t : Tok) : Wheel :=
  { w with heap := w.heap ++ [⟨d, t, c⟩] }

/-- `cancel`: the fast path pops the top if it has the counter (one entry), else `retain`. -/
def cancel (w : Wheel) (c : Nat) : Wheel :=
  match minIdx w.heap with
  | some i =>
    match w.heap[i]? with
    | some e => if e.counter = c then { w with heap := w.heap.eraseIdx i }
                else { w with heap := w.heap.filter (·.counter ≠ c) }
    | none => w
  | none => w

/-- `next_expired(now)` -/
def nextExpired (w : Wheel) (now : Int) : Option (Entry × Wheel) :=
  match minIdx w.heap with
  | some i =>
    match w.heap[i]? with
    | some e => if e.deadline ≤ now then some (e, { w with heap := w.heap.eraseIdx i }) else none
    | none => none
  | none => none

def nextDeadline (w : Wheel) : Option Int := (peek w).map (·.deadline)

/-- pop every expired entry, in pop order (`while let Some(..) = timers.next_expired(now)`) -/
def popExpired (w : Wheel) (now : Int) : Nat → List Entry × Wheel
  | 0 => ([], w)
  | fuel + 1 =>
    match nextExpired w now with
    | some (e, w') => let (es, w'') := popExpired w' now fuel; (e :: es, w'')
    | none => ([], w)

end Verif.Wheel
