/-
`StreamSource` (src/sources/stream.rs): a ping-driven source over a `Stream`.  Each time it is woken it polls the stream
until `Pending`; every `Ready(Some v)` goes to the callback, `Ready(None)` goes to the callback once and the source
asks to be removed.  A stream is modelled by what its successive polls answer.  Import-free.
-/
namespace Verif.StreamSrc

inductive Step | item (v : Nat) | pending
  deriving DecidableEq, Repr

structure SS where
  rest : List Step            -- what the polls still to come will answer (after the last entry: `Ready(None)`)
  out : List (Option Nat) := []
  removed : Bool := false
  deriving Repr

/-- one `process_events`: poll until `Pending` or the end -/
def drain : List Step → List (Option Nat) × List Step × Bool
  | [] => ([none], [], true)
  | .item v :: r => let (o, r', e) := drain r; (some v :: o, r', e)
  | .pending :: r => ([], r, false)

/-- a dispatch in which the source is woken (the initial ping, or the stream's waker) -/
def dispatch (s : SS) : SS :=
  if s.removed then s else
  let (o, r, e) := drain s.rest
  { rest := r, out := s.out ++ o, removed := e }

def values : List Step → List Nat
  | [] => []
  | .item v :: r => v :: values r
  | .pending :: r => values r

def pendings : List Step → Nat
  | [] => 0
  | .item _ :: r => pendings r
  | .pending :: r => pendings r + 1

def iter : Nat → SS → SS
  | 0, s => s
  | n + 1, s => iter n (dispatch s)

end Verif.StreamSrc
