/-
M5 `SigMask` — `src/sources/signals.rs`: the thread signal mask, the signalfd mask and the pending
set of standard signals, as manipulated by `Signals::new / add_signals / remove_signals /
set_signals / Drop`, with `kill(self)` and the source's event processing.

Kernel rules (modelled, not verified): a raised signal that is blocked becomes pending (standard
signals coalesce: at most one pending instance), otherwise the process handler runs at once;
unblocking a pending signal delivers it to the handler; reading the signalfd dequeues the pending
signals of its mask, lowest number first.  Sets are predicates `Nat → Bool`.  Import-free, executable.
-/
namespace Verif.SigMask

abbrev SSet := Nat → Bool

def SSet.union (a b : SSet) : SSet := fun s => a s || b s
def SSet.diff (a b : SSet) : SSet := fun s => a s && !b s
def SSet.empty : SSet := fun _ => false
def SSet.ofList (l : List Nat) : SSet := fun s => l.contains s

structure St where
  alive   : Bool := false          -- a `Signals` source exists
  mask    : SSet := SSet.empty     -- `Signals.mask`
  blocked : SSet := SSet.empty     -- the thread's signal mask
  sfd     : SSet := SSet.empty     -- the signalfd's mask
  pending : SSet := SSet.empty     -- pending for the process (`kill`)
  pendingT : SSet := SSet.empty    -- pending for the thread (`raise`, `pthread_kill`): a queue of its own
  handled : Nat → Nat := fun _ => 0     -- process-handler invocations per signal
  reported : List Nat := []             -- events delivered by the source, in order

inductive Op
  | new (s : List Nat) | add (s : List Nat) | remove (s : List Nat) | set (s : List Nat)
  | dropSrc | raise (sig : Nat) | raiseT (sig : Nat) | dispatch
  deriving Repr

/-- unblock the signals of `u`: pending ones go to the process handler -/
def unblock (st : St) (u : SSet) : St :=
  { st with
    blocked := st.blocked.diff u,
    handled := fun s => if u s && st.blocked s then st.handled s + (if st.pending s then 1 else 0) + (if st.pendingT s then 1 else 0)
                        else st.handled s,
    pending := fun s => if u s && st.blocked s then false else st.pending s,
    pendingT := fun s => if u s && st.blocked s then false else st.pendingT s }

def block (st : St) (b : SSet) : St := { st with blocked := st.blocked.union b }

/-- the signals a read of the signalfd returns: the thread's own queue first, then the process's, each ascending,
    below `bound` (a signal pending in both queues is returned twice: two instances) -/
def readable (st : St) (bound : Nat) : List Nat :=
  ((List.range bound).filter fun s => st.pendingT s && st.sfd s) ++ ((List.range bound).filter fun s => st.pending s && st.sfd s)

def step (bound : Nat) (st : St) : Op → St
  | .new l =>
    let m := SSet.ofList l
    { (block st m) with alive := true, mask := m, sfd := m }
  | .add l =>
    if !st.alive then st else
    let m := st.mask.union (SSet.ofList l)
    { (block st m) with mask := m, sfd := m }
  | .remove l =>
    if !st.alive then st else
    let r := SSet.ofList l
    let m := st.mask.diff r
    { (unblock st r) with mask := m, sfd := m }
  | .set l =>
    if !st.alive then st else
    let m := SSet.ofList l
    -- block the new set first, then unblock only what is no longer configured
    { (unblock (block st m) (st.mask.diff m)) with mask := m, sfd := m }
  | .dropSrc =>
    if !st.alive then st else
    { (unblock st st.mask) with alive := false, mask := SSet.empty, sfd := SSet.empty }
  | .raise s =>
    if st.blocked s then { st with pending := fun x => if x == s then true else st.pending x }
    else { st with handled := fun x => if x == s then st.handled x + 1 else st.handled x }
  | .raiseT s =>
    if st.blocked s then { st with pendingT := fun x => if x == s then true else st.pendingT x }
    else { st with handled := fun x => if x == s then st.handled x + 1 else st.handled x }
  | .dispatch =>
    if !st.alive then st else
    let r := readable st bound
    { st with reported := st.reported ++ r, pending := fun s => if r.contains s then false else st.pending s,
              pendingT := fun s => if r.contains s then false else st.pendingT s }

def run (bound : Nat) (st : St) (ops : List Op) : St := ops.foldl (step bound) st

end Verif.SigMask
