/-
M3 `ChanProto` — `channel()` / `sync_channel(n)` (`src/sources/channel.rs`) as a labelled transition
system: any number of sender threads (send, try_send, clone, drop) against the dispatching loop,
at the granularity of queue-push / wake-write / queue-pop steps.

mpsc is modelled as a linearizable FIFO (`queue`), `try_recv` = Empty vs Disconnected only when
the queue is empty and every sender is gone; a bounded channel refuses a push when full; a
rendezvous channel (`cap = some 0`) hands a message over only to a sender already blocked in `send`.
The wake eventfd is the embedded ping protocol: the channel keeps its own handle, so no close bit.

Threads are counted by control state:
  `sending`   past the `send`/`try_send` entry, before the mpsc push attempt (they hold a live handle)
  `toWake`    have pushed, or got Full, or dropped a sender, and still owe the eventfd write
  `preBlock`  (sync `send`) got Full, have pinged, about to call the blocking `send`   (messages kept)
  `blocked`   (sync `send`) inside the blocking `send`, waiting for room / for a receiver (messages kept)
Loop:  `loop` = 0 idle · 1 polled · 2 draining (`budgetLeft` try_recv's to go) · 3 after the drain
(`clear` = saw Empty, `disc` = saw Disconnected; neither = budget exhausted ⇒ re-ping itself).
`qlen` mirrors `queue.length` so that the wake invariant is linear arithmetic.
-/
namespace Verif.ChanProto

structure St where
  cap : Option Nat := none        -- `none` = `channel()`, `some n` = `sync_channel(n)`
  budget : Nat := 1024            -- per-dispatch drain budget, min(capacity + 1, MAX_EVENTS_CHECK) ≥ 1
  queue : List Nat := []
  qlen : Nat := 0
  sentLog : List Nat := []        -- ghost: messages in the order their push took effect
  delivered : List Nat := []      -- ghost: messages handed to the callback, in order
  live : Nat := 1                 -- live sender handles
  sending : Nat := 0
  sendingMsgs : List Nat := []    -- the messages those threads carry
  toWake : Nat := 0
  preBlock : List Nat := []
  blocked : List Nat := []
  counter : Nat := 0
  reg : Nat := 1
  loop : Nat := 0
  budgetLeft : Nat := 0
  clear : Nat := 0
  disc : Nat := 0
  closed : Nat := 0               -- ghost: `Closed` events delivered
  afterClosed : Nat := 0          -- ghost: messages delivered after `Closed`
  deriving DecidableEq, Repr

def full (s : St) : Bool :=
  match s.cap with
  | none => false
  | some n => s.qlen ≥ n

inductive Act
  | sendStart (m : Nat)      -- a thread holding a sender enters `send(m)` / `try_send(m)`
  | pushOk (m : Nat)         -- the mpsc push of the thread carrying `m` succeeds
  | pushFullTry (m : Nat)    -- `try_send`: Full — it pings and returns the message to the caller
  | pushFullSend (m : Nat)   -- `SyncSender::send`: `try_send` said Full — it pings, then will block
  | wakeWrite                -- some thread's `write(eventfd, 2)` completes
  | enterBlocking (m : Nat)  -- the `preBlock` thread carrying `m` calls the blocking `send`
  | blockedCompletes (m : Nat) -- a blocked `send` finds room (bounded channel): pushes, will ping
  | senderClone
  | senderDrop (lastPings : Bool) -- a sender handle is dropped; `lastPings`: its ping-on-drop fires
                                  -- (always for `Sender`; for `SyncSender` only when the shared one goes)
  | loopPoll
  | loopDrainStart           -- the eventfd read (resets the counter)
  | loopRecv                 -- one `try_recv` of the bounded drain, with its callback
  | loopBudgetOut
  | loopPost                 -- Remove / Continue / re-ping
  deriving DecidableEq, Repr

def step (s : St) : Act → Option St
  | .sendStart m =>
    -- the thread uses a handle that no other thread is using
    if s.live > s.sending + s.preBlock.length + s.blocked.length then
      some { s with sending := s.sending + 1, sendingMsgs := s.sendingMsgs ++ [m] }
    else none
  | .pushOk m =>
    if m ∈ s.sendingMsgs ∧ s.sending > 0 ∧ full s = false ∧ s.cap ≠ some 0 then
      some { s with sending := s.sending - 1, sendingMsgs := s.sendingMsgs.erase m, queue := s.queue ++ [m],
                    qlen := s.qlen + 1, sentLog := s.sentLog ++ [m], toWake := s.toWake + 1 }
    else none
  | .pushFullTry m =>
    if m ∈ s.sendingMsgs ∧ s.sending > 0 ∧ (full s = true ∨ s.cap = some 0) then
      some { s with sending := s.sending - 1, sendingMsgs := s.sendingMsgs.erase m, toWake := s.toWake + 1 }
    else none
  | .pushFullSend m =>
    if m ∈ s.sendingMsgs ∧ s.sending > 0 ∧ (full s = true ∨ s.cap = some 0) then
      some { s with sending := s.sending - 1, sendingMsgs := s.sendingMsgs.erase m, toWake := s.toWake + 1,
                    preBlock := s.preBlock ++ [m] }
    else none
  | .wakeWrite => if s.toWake > 0 then some { s with toWake := s.toWake - 1, counter := s.counter + 2 } else none
  | .enterBlocking m =>
    if m ∈ s.preBlock then some { s with preBlock := s.preBlock.erase m, blocked := s.blocked ++ [m] } else none
  | .blockedCompletes m =>
    if m ∈ s.blocked ∧ full s = false ∧ s.cap ≠ some 0 then
      some { s with blocked := s.blocked.erase m, queue := s.queue ++ [m], qlen := s.qlen + 1,
                    sentLog := s.sentLog ++ [m], toWake := s.toWake + 1 }
    else none
  | .senderClone => if s.live > 0 then some { s with live := s.live + 1 } else none
  | .senderDrop lastPings =>
    -- a thread can only drop a handle it is not using: handles in use are those of `sending`,
    -- `preBlock` and `blocked` threads
    if s.live > s.sending + s.preBlock.length + s.blocked.length then
      some { s with live := s.live - 1, toWake := s.toWake + (if lastPings ∨ s.live = 1 then 1 else 0) }
    else none
  | .loopPoll => if s.loop = 0 ∧ s.reg = 1 ∧ s.counter > 0 then some { s with loop := 1 } else none
  | .loopDrainStart =>
    if s.loop = 1 then some { s with loop := 2, counter := 0, budgetLeft := s.budget, clear := 0, disc := 0 } else none
  | .loopRecv =>
    if s.loop = 2 ∧ s.budgetLeft > 0 then
      match s.queue with
      | m :: rest =>
        some { s with queue := rest, qlen := s.qlen - 1, delivered := s.delivered ++ [m], budgetLeft := s.budgetLeft - 1,
                      afterClosed := s.afterClosed + s.closed }
      | [] =>
        match s.cap, s.blocked with
        | some 0, m :: rest =>
          -- rendezvous: a sender already blocked in `send` hands its message over and returns (then pings)
          some { s with blocked := rest, sentLog := s.sentLog ++ [m], delivered := s.delivered ++ [m],
                        budgetLeft := s.budgetLeft - 1, toWake := s.toWake + 1, afterClosed := s.afterClosed + s.closed }
        | _, _ =>
          if s.live = 0 then some { s with loop := 3, disc := 1, closed := s.closed + 1 }
          else some { s with loop := 3, clear := 1 }
    else none
  | .loopBudgetOut => if s.loop = 2 ∧ s.budgetLeft = 0 then some { s with loop := 3 } else none
  | .loopPost =>
    if s.loop = 3 then
      if s.disc = 1 then some { s with loop := 0, reg := 0 }
      else if s.clear = 1 then some { s with loop := 0 }
      else some { s with loop := 0, counter := s.counter + 2 }
    else none

inductive Reach (s0 : St) : St → Prop
  | init : Reach s0 s0
  | step {s s'} (a : Act) : Reach s0 s → step s a = some s' → Reach s0 s'

def run (s : St) : List Act → Option St
  | [] => some s
  | a :: as => match step s a with
    | some s' => run s' as
    | none => none

/-- initial states: `channel()` and `sync_channel(n)` with their drain budget (≥ 1) -/
def initAsync (batch : Nat) : St := { cap := none, budget := batch }
def initSync (n batch : Nat) : St := { cap := some n, budget := Nat.min (n + 1) batch }

end Verif.ChanProto
