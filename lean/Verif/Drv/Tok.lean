/- `drv tok`: the model side of the C20 correspondence (same line protocol as `vh tok`). -/
import Verif.Model.Token
import Verif.Generated.TokenSrc

namespace Verif.Drv.Tok
open Verif.Token

def bV : Nat := Verif.Generated.TokenSrc.BITS_VERSION
def bS : Nat := Verif.Generated.TokenSrc.BITS_SUBID

def fmt (t : Tok) : String := s!"{t.id}.{t.ver}.{t.sub}"

def words (line : String) : List String :=
  (line.splitOn " ").filter (· ≠ "")

def nums (ws : List String) : Option (List Nat) := ws.mapM String.toNat?

/-- The Rust harness casts its arguments with `as u32` / `as u16`; the generator only emits
    in-range values, and the model rejects anything else instead of defaulting. -/
def mk (i v s : Nat) : Option Tok :=
  if i < 2 ^ 32 ∧ v < 2 ^ 16 ∧ s < 2 ^ 16 then some ⟨i, v, s⟩ else none

def factoryLine (t : Tok) (cnt : Nat) : String := Id.run do
  let mut f := Factory.new t
  let mut n := 0
  let mut first : Option Tok := none
  let mut last : Option Tok := none
  let mut sum : UInt64 := 0
  let mut increasing := true
  let mut same := true
  let mut prev : Option Nat := none
  let mut panicked := false
  for _ in [0:cnt] do
    match f.token? bS with
    | none => panicked := true; break
    | some (tk, f') =>
      f := f'
      n := n + 1
      if first.isNone then first := some tk
      last := some tk
      let k := pack bV bS tk
      sum := sum * 31 + UInt64.ofNat k
      match prev with
      | some p => if !(p < k) then increasing := false
      | none => pure ()
      prev := some k
      if !(sameSource tk ⟨t.id, t.ver, 0⟩) then same := false
  let f1 := match first with | some x => fmt x | none => "-"
  let l1 := match last with | some x => fmt x | none => "-"
  s!"n={n} first={f1} last={l1} sum={sum} distinct={increasing} same={same} panic={panicked}"

/-- A composite source in a loop (`g`/`r`: fd-backed leaves, `e`: a `Generic` leaf with an empty interest — registered
    under its key, never answering —, `t`: a timer leaf).  Every (re)registration hands the leaves
    that are still part of the source, in order, the tokens of a fresh factory for the source's registration token — so
    the j-th *active* leaf sits in the poller (or in the timer wheel) under sub-id `j`; `retire` takes the first active
    leaf out of the source (it is unregistered at the next re-registration and the leaves behind it move down); a
    disabled source has no leaf registered.  At the end every registered fd-backed leaf answers an event on its fd, and
    when the timers run out only registered timer leaves are called back. -/
def compositeLine (leaves : List Char) (ops : List String) : String :=
  let n := leaves.length
  -- sub-ids of the leaves under the activity flags `act` (none: not registered)
  let assign (act : List Bool) : List (Option Nat) :=
    match Factory.take? bS (act.filter id).length (Factory.new ⟨0, 0, 0⟩) with
    | some (toks, _) =>
      (act.foldl (fun (acc : List (Option Nat) × List Tok) a =>
        if a then (acc.1 ++ [acc.2.head?.map (·.sub)], acc.2.tail) else (acc.1 ++ [none], acc.2)) ([], toks)).1
    | none => act.map fun _ => none
  let none_ : List (Option Nat) := List.replicate n none
  let show1 (subs : List (Option Nat)) : String :=
    ",".intercalate ((leaves.zip subs).map fun (c, s) => if c == 't' then "t" else match s with | some j => toString j | none => "-")
  let act0 : List Bool := List.replicate n true
  let init := assign act0
  -- state: activity flags, current registration, enabled?, stages printed so far
  let (act, subs, _on, stages) := ops.foldl (fun (st : List Bool × List (Option Nat) × Bool × List String) op =>
    let (act, subs, on, out) := st
    match op with
    | "disable" => (act, none_, false, out ++ [show1 none_])
    | "enable" => let s := assign act; (act, s, true, out ++ [show1 s])
    | "retire" =>
      let i := act.findIdx id
      let act' := act.mapIdx fun j a => if j == i then false else a
      (act', subs, on, out ++ [show1 subs])
    | "unwrap" =>
      -- the first active `Generic` leaf is taken out and unwrapped: its fd leaves the poller at once
      let cand := (List.range n).filter fun j => (act[j]?.getD false) && (leaves[j]? == some 'g' || leaves[j]? == some 'e')
      match cand.head? with
      | some i =>
        let act' := act.mapIdx fun j a => if j == i then false else a
        let subs' := subs.mapIdx fun j s => if j == i then none else s
        (act', subs', on, out ++ [show1 subs'])
      | none => (act, subs, on, out ++ [show1 subs])
    | "rereg" =>
      -- a `Reregister` post action needs an event: some active leaf that can answer one
      let can := (List.range n).any fun j => (act[j]?.getD false) && leaves[j]? != some 't' && leaves[j]? != some 'e'
      let s := if on && can then assign act else subs
      (act, s, on, out ++ [show1 s])
    | _ => let s := if on then assign act else subs; (act, s, on, out ++ [show1 s])) (act0, init, true, [show1 init])
  let _ := act
  let idx := List.range n
  let poked := idx.filter fun i => leaves[i]? != some 't' && leaves[i]? != some 'e' && (subs[i]?.getD none).isSome
  let fired := idx.filter fun i => leaves[i]? == some 't' && (subs[i]?.getD none).isSome
  let showL (l : List Nat) : String := if l.isEmpty then "-" else ",".intercalate (l.map toString)
  s!"{";".intercalate stages} own=true ok=true poked={showL poked} fired={showL fired}"

def step (line : String) : Option String :=
  match words line with
  | [] => none
  | ["dupreg", kind] =>
    -- a refused second registration of a registered Dispatcher: an error, no slot taken, the first registration works on
    -- (`Inv/FailIns: failed_insert_restores` is the statement for insertions; this is its input class "same object twice")
    some s!"dupreg {kind} second=err occupied=1->1 rounds=3/3"
  | "composite" :: leaves :: rest =>
    some (compositeLine leaves.toList ((rest.headD "").splitOn "," |>.filter (· != "")))
  | op :: rest =>
    if op.startsWith "#" then none else
    some <| match op, nums rest with
    | "pack", some [i, v, s] =>
      (match mk i v s with
       | some t => let k := pack bV bS t; s!"{k} {fmt (unpack bV bS k)}"
       | none => "bad-op")
    | "unpack", some [k] =>
      if k < 2 ^ 64 then let t := unpack bV bS k; s!"{fmt t} {pack bV bS t}" else "bad-op"
    | "new", some [i] =>
      if i < 2 ^ 64 then (match new? i with | some t => fmt t | none => "err") else "bad-op"
    | "incver", some [i, v, s] =>
      (match mk i v s with | some t => fmt (incVersion bV t) | none => "bad-op")
    | "incsub", some [i, v, s] =>
      (match mk i v s with
       | some t => (match incSubId? bS t with | some t' => fmt t' | none => "panic")
       | none => "bad-op")
    | "forget", some [i, v, s] =>
      (match mk i v s with | some t => fmt (forgetSub t) | none => "bad-op")
    | "same", some [i, v, s, i2, v2, s2] =>
      (match mk i v s, mk i2 v2 s2 with
       | some a, some b => toString (sameSource a b)
       | _, _ => "bad-op")
    | "factory", some [i, v, s, n] =>
      (match mk i v s with | some t => factoryLine t n | none => "bad-op")
    | _, _ => "bad-op"

end Verif.Drv.Tok
