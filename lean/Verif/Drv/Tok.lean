/- `drv tok`: the model side of the C20 correspondence (same line protocol as `vh tok`). -/
import Verif.Model.Token
import Verif.Generated.TokenSrc

namespace Verif.Drv.Tok
open Verif.Token

def bV : Nat := Verif.Generated.TokenSrc.BITS_VERSION
def bS : Nat := Verif.Generated.TokenSrc.BITS_SUBID

def fmt (t : Tok) : String := s!"{t.id}.{t.ver}.{t.sub}"

def words (line : String) : List String :=
  (line.splitOn " ").filter (· ≠ "")

def nums (ws : List String) : Option (List Nat) := ws.mapM String.toNat?

/-- The Rust harness casts its arguments with `as u32` / `as u16`; the generator only emits
    in-range values, and the model rejects anything else instead of defaulting. -/
def mk (i v s : Nat) : Option Tok :=
  if i < 2 ^ 32 ∧ v < 2 ^ 16 ∧ s < 2 ^ 16 then some ⟨i, v, s⟩ else none

def factoryLine (t : Tok) (cnt : Nat) : String := Id.run do
  let mut f := Factory.new t
  let mut n := 0
  let mut first : Option Tok := none
  let mut last : Option Tok := none
  let mut sum : UInt64 := 0
  let mut increasing := true
  let mut same := true
  let mut prev : Option Nat := none
  let mut panicked := false
  for _ in [0:cnt] do
    match f.token? bS with
    | none => panicked := true; break
    | some (tk, f') =>
      f := f'
      n := n + 1
      if first.isNone then first := some tk
      last := some tk
      let k := pack bV bS tk
      sum := sum * 31 + UInt64.ofNat k
      match prev with
      | some p => if !(p < k) then increasing := false
      | none => pure ()
      prev := some k
      if !(sameSource tk ⟨t.id, t.ver, 0⟩) then same := false
  let f1 := match first with | some x => fmt x | none => "-"
  let l1 := match last with | some x => fmt x | none => "-"
  s!"n={n} first={f1} last={l1} sum={sum} distinct={increasing} same={same} panic={panicked}"

/-- A composite source in a loop (`g`/`r`: fd-backed leaves, `t`: a timer leaf): every (re)registration hands the leaves,
    in order, the tokens of a fresh factory for the source's registration token — so leaf `j` sits in the poller (or
    in the timer wheel) under sub-id `j`; a disabled source has no leaf registered.  (`update`, a `Reregister` post
    action and `enable` all re-run the factory.)  When the timers run out, only timer leaves of an enabled source are
    called back. -/
def compositeLine (leaves : List Char) (ops : List String) : String :=
  let n := leaves.length
  let show1 (on : Bool) : String :=
    match Factory.take? bS n (Factory.new ⟨0, 0, 0⟩) with
    | some (toks, _) =>
      ",".intercalate ((leaves.zip toks).map fun (c, t) => if c == 't' then "t" else if on then toString t.sub else "-")
    | none => "panic"
  let r := show1 true
  let unreg := show1 false
  let (stages, on) := ops.foldl (fun (acc : List String × Bool) op =>
    let (out, on) := acc
    match op with
    | "disable" => (out ++ [unreg], false)
    | "enable" => (out ++ [r], true)
    | _ => (out ++ [if on then r else unreg], on)) ([r], true)
  let timers := (List.range n).filter fun i => leaves[i]? == some 't'
  let fired := if on && !timers.isEmpty then ",".intercalate (timers.map toString) else "-"
  s!"{";".intercalate stages} own=true ok=true fired={fired}"

def step (line : String) : Option String :=
  match words line with
  | [] => none
  | "composite" :: leaves :: rest =>
    some (compositeLine leaves.toList ((rest.headD "").splitOn "," |>.filter (· != "")))
  | op :: rest =>
    if op.startsWith "#" then none else
    some <| match op, nums rest with
    | "pack", some [i, v, s] =>
      (match mk i v s with
       | some t => let k := pack bV bS t; s!"{k} {fmt (unpack bV bS k)}"
       | none => "bad-op")
    | "unpack", some [k] =>
      if k < 2 ^ 64 then let t := unpack bV bS k; s!"{fmt t} {pack bV bS t}" else "bad-op"
    | "new", some [i] =>
      if i < 2 ^ 64 then (match new? i with | some t => fmt t | none => "err") else "bad-op"
    | "incver", some [i, v, s] =>
      (match mk i v s with | some t => fmt (incVersion bV t) | none => "bad-op")
    | "incsub", some [i, v, s] =>
      (match mk i v s with
       | some t => (match incSubId? bS t with | some t' => fmt t' | none => "panic")
       | none => "bad-op")
    | "forget", some [i, v, s] =>
      (match mk i v s with | some t => fmt (forgetSub t) | none => "bad-op")
    | "same", some [i, v, s, i2, v2, s2] =>
      (match mk i v s, mk i2 v2 s2 with
       | some a, some b => toString (sameSource a b)
       | _, _ => "bad-op")
    | "factory", some [i, v, s, n] =>
      (match mk i v s with | some t => factoryLine t n | none => "bad-op")
    | _, _ => "bad-op"

end Verif.Drv.Tok
