/- `drv sig`: the model side of the C19 correspondence (same case format and lines as `vh sig`). -/
import Verif.Model.SigMask

namespace Verif.Drv.Sig
open Verif.SigMask

def sigs : List Nat := [10, 12, 28, 29, 17]
/-- a signal the application blocks itself and the source is never told about (SIGURG) -/
def foreignSig : Nat := 23

def words (line : String) : List String := (line.splitOn " ").filter (· ≠ "")

def parseOp (ws : List String) : Option Op :=
  match ws with
  | "new" :: l => some (.new (l.filterMap String.toNat? |>.filter sigs.contains))
  | "add" :: l => some (.add (l.filterMap String.toNat? |>.filter sigs.contains))
  | "remove" :: l => some (.remove (l.filterMap String.toNat? |>.filter sigs.contains))
  | "set" :: l => some (.set (l.filterMap String.toNat? |>.filter sigs.contains))
  | ["drop"] => some .dropSrc
  | ["raise", s] => s.toNat?.map .raise
  | ["raiset", s] => s.toNat?.map .raiseT
  | ["dispatch"] => some .dispatch
  | _ => none

def join (l : List Nat) : String := String.intercalate "," (l.map toString)

def snapshot (st : St) : String :=
  s!"blocked=[{join ((sigs ++ [foreignSig]).filter st.blocked)}] handled=[{join (sigs.map st.handled)}] reported=[{join st.reported}]"

def stepLine (st : Option St) (line : String) : Option St × List String :=
  match words line with
  | "case" :: _ => (some {}, [line])
  | ["end"] =>
    match st with
    | some s =>
      let s' := step 64 s .dropSrc
      (none, [s!"end blocked=[{join ((sigs ++ [foreignSig]).filter s'.blocked)}]"])
    | none => (none, [])
  | ["appblock"] =>
    -- the application blocks a signal of its own (`pthread_sigmask`), outside the source
    match st with
    | some s =>
      let s' := { s with blocked := fun x => x == foreignSig || s.blocked x }
      (some s', [s!"op {line} -> {snapshot s'}"])
    | none => (st, ["bad-op " ++ line])
  | ws =>
    match st, parseOp ws with
    | some s, some o =>
      -- `new` on a live source is ignored by the harness
      let s' := match o with
        | .new _ => if s.alive then s else step 64 s o
        | _ => step 64 s o
      (some s', [s!"op {line} -> {snapshot s'}"])
    | _, _ => (st, ["bad-op " ++ line])

end Verif.Drv.Sig
