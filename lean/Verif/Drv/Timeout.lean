/- `drv timeout`: lines `eff USER NEXT` (nanoseconds or `none`) → the model's effective timeout,
   computed both by `Verif.Timeout.effTimeout` and by the definition regenerated from src/sys.rs. -/
import Verif.Model.Timeout
import Verif.Generated.PollSrc

namespace Verif.Drv.Timeout

def parseOpt (s : String) : Option (Option Nat) := if s == "none" then some none else s.toNat?.map some
def showOpt : Option Nat → String | some n => toString n | none => "none"

def step (line : String) : Option String :=
  match (line.splitOn " ").filter (· ≠ "") with
  | ["eff", u, n] =>
    match parseOpt u, parseOpt n with
    | some u, some n =>
      some s!"{showOpt (Verif.Timeout.effTimeout u n)} {showOpt (Verif.Generated.PollSrc.effective_timeout u n)}"
    | _, _ => some "bad-op"
  | [] => none
  | _ => some "bad-op"

end Verif.Drv.Timeout
