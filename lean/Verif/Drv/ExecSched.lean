/- `drv execsched`: replays a thread schedule in `ExecProto` (same case format and `step` lines as
   `vh execsched`). -/
import Verif.Model.ExecProto

namespace Verif.Drv.ExecSched
open Verif.ExecProto

inductive XOp | schedule (t : Nat) | dispatch | wake (t : Nat) | complete (t : Nat)
  deriving DecidableEq, Repr

/-- where a thread is inside `Sender::send` -/
inductive SendMid | none | atEnqueue (t : Nat) | atSwap | atPing | atWritten
  deriving DecidableEq, Repr

inductive LMid | none | atPoll | atPolled (ev : Bool) | atDrain | atClear | atDequeue | rePing | reWritten
  deriving DecidableEq, Repr

structure Thread where
  ops : List XOp := []
  send : SendMid := .none
  deriving Repr

structure World where
  s : St := {}
  threads : List Thread := []          -- index 0 = the loop thread
  lmid : LMid := .none
  complete : List Nat := []            -- tasks whose `complete` flag is set
  loopDone : Bool := false
  deriving Repr

def act (w : World) (a : Act) : World :=
  match step w.s a with
  | some s' => { w with s := s' }
  | none => w

/-- progress inside `Sender::send`; `none` = the send is over -/
def sendStep (w : World) (m : SendMid) : Option (World × SendMid × String) :=
  match m with
  | .atEnqueue t => some (act w (.enqueue t), .atSwap, "exec.swap")
  | .atSwap =>
    let before := w.s.toWake
    let w' := act w .swapFlag
    if w'.s.toWake > before then some (w', .atPing, "efd.ping") else none
  | .atPing => some (act w .wakeWrite, .atWritten, "efd.written")
  | .atWritten => none
  | .none => none

def loopDispatchStep (w : World) : Nat → World × Option String
  | 0 => (w, some "fuel")
  | fuel + 1 =>
    match w.lmid with
    | .none => (w, none)
    | .atPoll =>
      let ev := w.s.reg == 1 && w.s.counter > 0 && w.s.loop == 0
      let w := if ev then act w .loopPoll else w
      ({ w with lmid := .atPolled ev }, some "loop.polled")
    | .atPolled ev =>
      if ev then ({ w with lmid := .atDrain }, some "efd.drain") else ({ w with lmid := .none }, none)
    | .atDrain => ({ (act w .loopDrain) with lmid := .atClear }, some "exec.clear")
    | .atClear => ({ (act w .loopClear) with lmid := .atDequeue }, some "exec.dequeue")
    | .atDequeue =>
      let ready := match w.s.queue with | t :: _ => w.complete.contains t | [] => false
      let w := act w (.loopDequeue ready)
      if w.s.loop == 3 then
        if w.s.budgetLeft > 0 then (w, some "exec.dequeue")
        else ({ (act w .loopBudgetOut) with lmid := .rePing }, some "efd.ping")
      else ({ (act w .loopPost) with lmid := .none }, none)
    | .rePing => ({ (act w .loopPost) with lmid := .reWritten }, some "efd.written")
    | .reWritten => ({ w with lmid := .none }, none)

/-- run thread `i` up to its next yield point -/
def threadStep (w : World) (i : Nat) : Nat → World × String
  | 0 => (w, "fuel")
  | fuel + 1 =>
    match w.threads[i]? with
    | none => (w, "skip")
    | some th =>
      -- inside a send?
      match th.send with
      | .none =>
        -- inside a dispatch? (loop thread only)
        if i == 0 && w.lmid != .none then
          match loopDispatchStep w 10 with
          | (w', some l) => (w', l)
          | (w', none) => threadStep w' i fuel
        else
        match th.ops with
        | [] => (w, "done")
        | .complete t :: rest =>
          threadStep { w with complete := t :: w.complete, threads := w.threads.set i { th with ops := rest } } i fuel
        | .dispatch :: rest =>
          ({ w with lmid := .atPoll, threads := w.threads.set i { th with ops := rest } }, "loop.poll")
        | .schedule _ :: rest =>
          let t := w.s.tasks.length
          ({ (act w .schedule) with threads := w.threads.set i { th with ops := rest, send := .atEnqueue t } }, "exec.enqueue")
        | .wake t :: rest =>
          if w.s.tasks[t]? == some 0 && w.s.alive == 1 then
            ({ (act w (.wake t)) with threads := w.threads.set i { th with ops := rest, send := .atEnqueue t } }, "exec.enqueue")
          else threadStep { w with threads := w.threads.set i { th with ops := rest } } i fuel
      | m =>
        match sendStep w m with
        | some (w', m', l) => ({ w' with threads := w'.threads.set i { th with send := m' } }, l)
        | none =>
          -- the send is over (for `atSwap` the swap itself happened inside `sendStep`'s computation)
          let w' := if m == .atSwap then act w .swapFlag else w
          threadStep { w' with threads := w'.threads.set i { th with send := .none } } i fuel

def join (l : List Nat) : String := String.intercalate "," (l.map toString)

def snapshot (w : World) : String :=
  s!"counter={w.s.counter} polls=[{join w.s.polls}] delivered=[{join w.s.delivered}] loopthread=1"

structure RunSt where
  w : World
  finished : List Nat := []

def stepThread (r : RunSt) (t n : Nat) : RunSt × String :=
  if t > n || r.finished.contains t then (r, "skip") else
  let (w', l) := threadStep r.w t 200
  ({ w := w', finished := if l == "done" then t :: r.finished else r.finished }, l)

def words (line : String) : List String := (line.splitOn " ").filter (· ≠ "")

def parseProg (body : String) : List XOp :=
  (body.splitOn ";").filterMap fun x =>
    match words x with
    | ["schedule", t] => t.toNat?.map .schedule
    | ["dispatch"] => some .dispatch
    | ["wake", t] => t.toNat?.map .wake
    | ["complete", t] => t.toNat?.map .complete
    | _ => none

structure Case where
  name : String := ""
  ntasks : Nat := 0
  loopOps : List XOp := []
  progs : List (List XOp) := []
  sched : List Nat := []

def runCase (c : Case) (batch : Nat) : List String :=
  let n := c.progs.length
  let w0 : World := { s := { budget := batch, polls := [] },
                      threads := ({ ops := c.loopOps } : Thread) :: c.progs.map fun p => { ops := p } }
  let (_, lines) := c.sched.foldl (fun (acc : RunSt × List String) t =>
    let (r', l) := stepThread acc.1 t n
    -- polls are printed for every task slot of the case, scheduled or not
    let polls := (List.range c.ntasks).map fun i => r'.w.s.polls.getD i 0
    (r', acc.2 ++ [s!"step {t} {l} counter={r'.w.s.counter} polls=[{join polls}] delivered=[{join r'.w.s.delivered}] loopthread=1"]))
    (({ w := w0 } : RunSt), [])
  [s!"case {c.name}"] ++ lines ++ ["final loopthread=1"]

def stepLine (batch : Nat) (c : Case) (line : String) : Case × List String :=
  match words line with
  | "case" :: nm :: _ => ({ name := nm }, [])
  | ["tasks", k] => ({ c with ntasks := k.toNat?.getD 0 }, [])
  | ["threads", n] => ({ c with progs := List.replicate (n.toNat?.getD 0) [] }, [])
  | "loop:" :: _ => ({ c with loopOps := parseProg (String.intercalate ":" ((line.splitOn ":").drop 1)) }, [])
  | "thread" :: i :: _ =>
    let idx := ((i.dropEnd 1).toString.toNat?).getD 0
    let body := String.intercalate ":" ((line.splitOn ":").drop 1)
    if idx ≥ 1 && idx ≤ c.progs.length then ({ c with progs := c.progs.set (idx - 1) (parseProg body) }, []) else (c, [])
  | "sched" :: ts => ({ c with sched := ts.filterMap String.toNat? }, [])
  | ["end"] => (c, runCase c batch)
  | _ => (c, [])

end Verif.Drv.ExecSched
