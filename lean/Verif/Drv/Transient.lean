/- `drv transient` (model run) and `drv c18mon` (Spec_C18 on an observation stream). -/
import Verif.Model.Transient
import Verif.Spec.C18

namespace Verif.Drv.Transient
open Verif.Transient

def words (line : String) : List String := (line.splitOn " ").filter (· ≠ "")

def paName : PA → String
  | .cont => "cont" | .rereg => "rereg" | .disable => "disable" | .remove => "remove"

def parsePA : String → Option PA
  | "cont" => some .cont | "rereg" => some .rereg | "disable" => some .disable | "remove" => some .remove
  | _ => none

def kindName : RegKind → String
  | .register => "register" | .reregister => "reregister" | .unregister => "unregister"

def parseKind : String → Option RegKind
  | "register" => some .register | "reregister" => some .reregister | "unregister" => some .unregister
  | _ => none

def opText : Op → String
  | .pe r => s!"pe {paName r}"
  | .tsRemove => "remove"
  | .tsReplace c => s!"replace {c}"
  | .pRegister => "register"
  | .pReregister => "reregister"
  | .pUnregister => "unregister"
  | .map => "map"
  | .isNone => "isnone"

def parseOp (ws : List String) : Option Op :=
  match ws with
  | ["pe", r] => (parsePA r).map .pe
  | ["remove"] => some .tsRemove
  | ["replace", c] => c.toNat?.map .tsReplace
  | ["register"] => some .pRegister
  | ["reregister"] => some .pReregister
  | ["unregister"] => some .pUnregister
  | ["map"] => some .map
  | ["isnone"] => some .isNone
  | _ => none

def b01 (b : Bool) : String := if b then "1" else "0"

def retText : Ret → String
  | .pa p => paName p
  | .ok => "ok" | .err => "err"
  | .mapSome c => s!"some {c}" | .mapNone => "none"
  | .isNone b => toString b
  | .unit => "unit"

def obsText : Obs → String
  | .op o => s!"op {opText o}"
  | .reg c k ok => s!"reg {c} {kindName k} {if ok then "ok" else "err"}"
  | .pe c => s!"pe {c}"
  | .drop c w => s!"drop {c} {b01 w}"
  | .ret r => s!"ret {retText r}"

def parseObs (ws : List String) : Option Obs :=
  match ws with
  | "op" :: rest => (parseOp rest).map .op
  | ["reg", c, k, r] =>
    match c.toNat?, parseKind k, r with
    | some c, some k, "ok" => some (.reg c k true)
    | some c, some k, "err" => some (.reg c k false)
    | _, _, _ => none
  | ["pe", c] => c.toNat?.map .pe
  | ["drop", c, w] =>
    match c.toNat?, w with
    | some c, "1" => some (.drop c true)
    | some c, "0" => some (.drop c false)
    | _, _ => none
  | ["ret", "some", c] => c.toNat?.map (fun c => .ret (.mapSome c))
  | ["ret", r] =>
    match r with
    | "ok" => some (.ret .ok) | "err" => some (.ret .err) | "none" => some (.ret .mapNone)
    | "true" => some (.ret (.isNone true)) | "false" => some (.ret (.isNone false))
    | "unit" => some (.ret .unit)
    | r => (parsePA r).map (fun p => .ret (.pa p))
  | _ => none

/-- how many children the kernel's epoll table holds -/
def epollCount : TS → Nat
  | .keep c | .register c | .disable c | .remove c => if c.reg then 1 else 0
  | .replace n o => (if n.reg then 1 else 0) + (if o.reg then 1 else 0)
  | .none => 0

/-- model run: state is the wrapper (or `none` before the first `case`) -/
def stepModel (st : Option TS) (line : String) : Option TS × List String :=
  match words line with
  | [] => (st, [])
  | ["case", "from", c] =>
    match c.toNat? with
    | some c => (some (initFrom c), [line])
    | none => (st, ["bad-op"])
  | ["case", "default"] => (some initDefault, [line])
  | ["end"] =>
    match st with
    | some ts => (none, "end" :: (dropAll ts).map obsText ++ ["epoll 0"])
    | none => (st, ["bad-op"])
  | ws =>
    match st, parseOp ws with
    | some ts, some o =>
      let (ts', obs) := step ts o
      (some ts', obs.map obsText ++ [s!"epoll {epollCount ts'}"])
    | _, _ => (st, ["bad-op"])

open Verif.Spec.C18 in
def badName : Bad → String
  | .doubleRegister => "doubleRegister" | .unregisterUnregistered => "unregisterUnregistered"
  | .reregisterUnregistered => "reregisterUnregistered" | .dropRegistered => "dropRegistered"
  | .wrongForward => "wrongForward" | .badReturn => "badReturn"
  | .quiescentMismatch => "quiescentMismatch" | .errorInProtocol => "errorInProtocol"

open Verif.Spec.C18 in
structure MonSt where
  m : Option Mon := none
  idx : Nat := 0
  badAt : Option Nat := none
  active : Bool := false

open Verif.Spec.C18 in
/-- monitor run over an observation stream; one verdict line per case (at its `end`) -/
def stepMon (st : MonSt) (line : String) : MonSt × List String :=
  match words line with
  | [] => (st, [])
  | ["case", "from", c] =>
    match c.toNat? with
    | some c => ({ m := some (Mon.initFrom c), idx := 0, badAt := none, active := true }, [])
    | none => (st, ["bad-obs"])
  | ["case", "default"] => ({ m := some Mon.initDefault, idx := 0, badAt := none, active := true }, [])
  | ["end"] =>
    match st.m, st.active with
    | some m, true =>
      let v := match verdict m with
        | .ok => "ok"
        | .outOfProtocol => "out"
        | .violated b d => s!"bad {badName b} disabled={d} at={st.badAt.getD 0}"
      ({ st with active := false }, [v])
    | _, _ => (st, [])
  | "epoll" :: _ => (st, [])        -- kernel-table snapshots are compared by the correspondence only
  | ws =>
    match st.m, st.active, parseObs ws with
    | some m, true, some x =>
      let m' := onObs m x
      let badAt := if st.badAt.isNone && m'.bad.isSome then some st.idx else st.badAt
      ({ st with m := some m', idx := st.idx + 1, badAt := badAt }, [])
    | _, false, _ => (st, [])       -- lines after `end` (final drops) are not part of the judged trace
    | _, _, _ => (st, ["bad-obs " ++ line])

end Verif.Drv.Transient
