/- `drv core`: parser of the op-file language, printer of observation lines, case runner for
   `Verif.Loop` (same line protocol as `vh core`). -/
import Verif.Model.Loop
import Verif.Spec.Core

namespace Verif.Drv.Core
open Verif.Loop Verif.Token Verif.Kernel

def words (line : String) : List String := (line.splitOn " ").filter (· ≠ "")

def parseInt (s : String) : Option Int :=
  if s.startsWith "-" then (s.drop 1).toString.toNat?.map (fun n => -(n : Int)) else s.toNat?.map (fun n => (n : Int))

def parseInterest : String → Option (Bool × Bool)
  | "r" => some (true, false) | "w" => some (false, true) | "rw" => some (true, true) | "-" => some (false, false)
  | _ => none

def parseMode : String → Option Mode
  | "level" => some .level | "edge" => some .edge | "oneshot" => some .oneshot | _ => none

def interestText (r w : Bool) : String :=
  match r, w with | true, false => "r" | false, true => "w" | true, true => "rw" | false, false => "-"

def modeText : Mode → String | .level => "level" | .edge => "edge" | .oneshot => "oneshot"

def optNat (s : String) : Option (Option Nat) :=
  if s == "-" then some none else s.toNat?.map some

def parsePlan (ws : List String) : Option Plan :=
  ws.foldlM (fun (p : Plan) kv =>
    match kv.splitOn "=" with
    | ["reg", v] => (optNat v).map fun x => { p with regFail := x }
    | ["rereg", v] => (optNat v).map fun x => { p with reregFail := x }
    | ["unreg", v] => (optNat v).map fun x => { p with unregFail := x }
    | ["rb", v] => if v == "0" then some { p with rollback := false } else if v == "1" then some { p with rollback := true } else none
    | ["bs", v] =>
      if v == "none" then some { p with bs := .none }
      else if v == "err" then some { p with bs := .err }
      else if v.startsWith "synth" then (v.drop 5).toString.toNat?.map fun j => { p with bs := .synth j }
      else none
    | _ => none) {}

def planText (p : Plan) : String :=
  let o : Option Nat → String := fun x => match x with | some j => toString j | none => "-"
  let bs := match p.bs with | .none => "none" | .err => "err" | .synth j => s!"synth{j}"
  s!"reg={o p.regFail} rereg={o p.reregFail} unreg={o p.unregFail} bs={bs}" ++ (if p.rollback then "" else " rb=0")

def parseCOp (ws : List String) : Option COp :=
  match ws with
  | ["new", k, "ping"] => k.toNat?.map .newPing
  | ["new", k, "timer", "none"] => k.toNat?.map fun k => .newTimer k none
  | ["new", k, "timer", d] => do let k ← k.toNat?; let d ← parseInt d; pure (.newTimer k (some d))
  | ["new", k, "chan"] => k.toNat?.map .newChan
  | ["new", k, "sync", n] => do let k ← k.toNat?; let n ← n.toNat?; pure (.newSync k n)
  | ["new", k, "gen", f, i, m] => do
    let k ← k.toNat?; let f ← f.toNat?; let (r, w) ← parseInterest i; let m ← parseMode m
    pure (.newGen k f r w m)
  | ["new", k, "custom", n, l] => do
    let k ← k.toNat?; let n ← n.toNat?
    if l == "1" then pure (.newCustom k n true) else if l == "0" then pure (.newCustom k n false) else none
  | ["fd", f] => f.toNat?.map .fd
  | "plan" :: k :: rest => do let k ← k.toNat?; let p ← parsePlan rest; pure (.plan k p)
  | ["insert", k] => k.toNat?.map .insert
  | ["insertd", k] => k.toNat?.map .insertd
  | ["remove", k] => k.toNat?.map .remove
  | ["disable", k] => k.toNat?.map .disable
  | ["enable", k] => k.toNat?.map .enable
  | ["update", k] => k.toNat?.map .update
  | ["ping", k] => k.toNat?.map .ping
  | ["cloneping", k] => k.toNat?.map .clonePing
  | ["dropping", k] => k.toNat?.map .dropPing
  | ["send", k, v] => do let k ← k.toNat?; let v ← v.toNat?; pure (.send k v)
  | ["clonesender", k] => k.toNat?.map .cloneSender
  | ["dropsender", k] => k.toNat?.map .dropSender
  | ["write", f, n] => do let f ← f.toNat?; let n ← n.toNat?; pure (.write f n)
  | ["read", f] => f.toNat?.map .read
  | ["advance", n] => n.toNat?.map .advance
  | ["setdeadline", k, "none"] => do let k ← k.toNat?; pure (.setDeadline k none)
  | ["setdeadline", k, d] => do let k ← k.toNat?; let d ← parseInt d; pure (.setDeadline k (some d))
  | ["setinterest", k, i, m] => do
    let k ← k.toNat?; let (r, w) ← parseInterest i; let m ← parseMode m; pure (.setInterest k r w m)
  | ["dropdisp", k] => k.toNat?.map .dropDisp
  | ["idle", i] => i.toNat?.map .idle
  | ["cancelidle", i] => i.toNat?.map .cancelIdle
  | ["dropidle", i] => i.toNat?.map .dropIdle
  | ["churn", n] => n.toNat?.map .churn
  | _ => none

def copText : COp → String
  | .newPing k => s!"new {k} ping"
  | .newTimer k none => s!"new {k} timer none"
  | .newTimer k (some d) => s!"new {k} timer {d}"
  | .newChan k => s!"new {k} chan"
  | .newSync k n => s!"new {k} sync {n}"
  | .newGen k f r w m => s!"new {k} gen {f} {interestText r w} {modeText m}"
  | .newCustom k n l => s!"new {k} custom {n} {if l then 1 else 0}"
  | .fd f => s!"fd {f}"
  | .plan k p => s!"plan {k} {planText p}"
  | .insert k => s!"insert {k}" | .insertd k => s!"insertd {k}"
  | .remove k => s!"remove {k}" | .disable k => s!"disable {k}" | .enable k => s!"enable {k}"
  | .update k => s!"update {k}"
  | .ping k => s!"ping {k}" | .clonePing k => s!"cloneping {k}" | .dropPing k => s!"dropping {k}"
  | .send k v => s!"send {k} {v}" | .cloneSender k => s!"clonesender {k}" | .dropSender k => s!"dropsender {k}"
  | .write f n => s!"write {f} {n}" | .read f => s!"read {f}" | .advance n => s!"advance {n}"
  | .setDeadline k (some d) => s!"setdeadline {k} {d}"
  | .setDeadline k none => s!"setdeadline {k} none"
  | .setInterest k r w m => s!"setinterest {k} {interestText r w} {modeText m}"
  | .dropDisp k => s!"dropdisp {k}"
  | .idle i => s!"idle {i}" | .cancelIdle i => s!"cancelidle {i}" | .dropIdle i => s!"dropidle {i}"
  | .churn n => s!"churn {n}"

def parseRet (ws : List String) : Option Ret :=
  match ws with
  | ["unit"] => some .unit | ["cont"] => some .cont | ["rereg"] => some .rereg
  | ["disable"] => some .disable | ["remove"] => some .remove | ["err"] => some .err
  | ["drop"] => some .drop | ["overflow"] => some .overflow
  | ["toinstant", d] => (parseInt d).map .toInstant
  | _ => none

def retText : Ret → String
  | .unit => "unit" | .cont => "cont" | .rereg => "rereg" | .disable => "disable" | .remove => "remove"
  | .err => "err" | .drop => "drop" | .overflow => "overflow" | .toInstant d => s!"toinstant {d}"

/-- `op ; op ; … ; ret R` -/
def parseScript (body : String) : Option Script :=
  (body.splitOn ";").foldlM (fun (sc : Script) part =>
    match words part with
    | [] => some sc
    | "ret" :: r => (parseRet r).map fun r => { sc with ret := r }
    | ws => (parseCOp ws).map fun o => { sc with ops := sc.ops ++ [o] }) {}

def parseOp (line : String) : Option Op :=
  match words line with
  | ["dispatch"] => some .dispatch
  | "script" :: k :: n :: ":" :: _ => do
    let k ← k.toNat?
    let n ← if n == "*" then some 0 else n.toNat?
    let body := (line.splitOn ":").drop 1 |> String.intercalate ":"
    let sc ← parseScript body
    pure (.script k n sc)
  | "idlescript" :: i :: ":" :: _ => do
    let i ← i.toNat?
    let body := (line.splitOn ":").drop 1 |> String.intercalate ":"
    let sc ← parseScript body
    pure (.idleScript i sc)
  | ws => (parseCOp ws).map .c

def errText : Err → String
  | .invalidToken => "InvalidToken"
  | .io .eexist => "Io:EEXIST" | .io .enoent => "Io:ENOENT" | .io .ebadf => "Io:EBADF" | .io .other => "Io:other"
  | .other => "Other"

def tokText (t : Tok) : String := s!"{t.id}.{t.ver}.{t.sub}"
def b01 (b : Bool) : String := if b then "1" else "0"

def paNum : PA → Nat
  | .Continue => 0 | .Reregister => 1 | .Disable => 2 | .Remove => 3

def tokLt (a b : Tok) : Bool :=
  a.id < b.id || (a.id == b.id && (a.ver < b.ver || (a.ver == b.ver && a.sub < b.sub)))

def insertSorted (e : EpEntry) : List EpEntry → List EpEntry
  | [] => [e]
  | x :: xs => if tokLt e.key x.key then e :: x :: xs else x :: insertSorted e xs

def scriptText (sc : Script) : String :=
  String.intercalate " ; " (sc.ops.map copText ++ ["ret " ++ retText sc.ret])

def idleScriptText (sc : Script) : String :=
  String.intercalate " ; " (sc.ops.map copText)

def paText : PA → String
  | .Continue => "cont" | .Reregister => "rereg" | .Disable => "disable" | .Remove => "remove"

def obsText : Obs → String
  | .exec o => "> " ++ copText o
  | .top (.script k n sc) => s!"> script {k} {if n == 0 then "*" else toString n} : {scriptText sc}"
  | .top (.idleScript i sc) => s!"> idlescript {i} : {idleScriptText sc}"
  | .top .dispatch => "> dispatch"
  | .top (.c o) => "> " ++ copText o
  | .pe k => s!"pe {k}"
  | .peret k (some a) => s!"peret {k} {paText a}"
  | .peret k none => s!"peret {k} err"
  | .opRes o r =>
    let rs := match r with
      | .ok => "ok" | .err e => "err " ++ errText e | .notoken => "notoken" | .nohandle => "nohandle"
      | .fail => "fail" | .nofd => "nofd" | .nodisp => "nodisp" | .borrowed => "borrowed" | .exists => "exists"
    s!"op {copText o} -> {rs}"
  | .ins k (.ok t) => s!"ins {k} ok {t.id}.{t.ver}"
  | .ins k (.err e) => s!"ins {k} err {errText e}"
  | .ins k .nosource => s!"ins {k} nosource"
  | .cb k p =>
    let ps := match p with
      | .unit => "unit" | .msg v => s!"msg {v}" | .closed => "closed" | .deadline d => s!"deadline {d}"
      | .ready r w => s!"ready {b01 r}{b01 w}" | .sub j => s!"sub {j}"
    s!"cb {k} {ps}"
  | .cbret k r => s!"cbret {k} {retText r}"
  | .reg k kind sub ok =>
    let ks := match kind with | .register => "register" | .reregister => "reregister" | .unregister => "unregister"
    s!"reg {k} {ks} sub={sub} {if ok then "ok" else "err"}"
  | .bs k .none => s!"bs {k} none"
  | .bs k .err => s!"bs {k} err"
  | .bs k (.synth j) => s!"bs {k} synth {j}"
  | .bhe k evs => evs.foldl (fun acc e => acc ++ s!" {tokText e.key}:{b01 e.r}{b01 e.w}") s!"bhe {k}"
  | .idle i => s!"idle {i}"
  | .idleret i => s!"idleret {i}"
  | .drop k => s!"drop {k}"
  | .dispatchBegin => "dispatch begin"
  | .dispatchEnd none => "dispatch end ok"
  | .dispatchEnd (some e) => s!"dispatch end err {errText e}"
  | .st s => s!"st slots={s.slots} occ={s.occ} life={s.life} heap={s.heap} idles={s.idles} pend={paNum s.pend} synth={s.synth}"
  | .ep es =>
    let sorted := es.foldl (fun acc e => insertSorted e acc) []
    sorted.foldl (fun acc e =>
      let m := match e.mode with | .level => "L" | .edge => "E" | .oneshot => "O"
      acc ++ s!" {tokText e.key}/{b01 e.r}{b01 e.w}/{m}") "ep"
  | .panic .borrow => "panic Borrow"
  | .panic .unreachable => "panic Unreachable"
  | .panic .subIdOverflow => "panic SubIdOverflow"
  | .abort => "abort"
  | .caseEnd => "end"
  | .loopDropped => "loopdropped"

structure DrvSt where
  st : Option St := none
  printed : Nat := 0

def insertStr (x : String) : List String → List String
  | [] => [x]
  | y :: ys => if x < y then x :: y :: ys else y :: insertStr x ys

def stepLine (d : DrvSt) (line : String) : DrvSt × List String :=
  match words line with
  | [] => (d, [])
  | "case" :: _ => ({ st := some {}, printed := 0 }, [line])
  | ["end"] =>
    match d.st with
    | none => (d, [])
    | some s =>
      let (obs, rest) := endCase s
      let restLines := rest.foldl (fun acc k => insertStr s!"drop {k}" acc) []
      ({ st := none, printed := 0 }, obs.map obsText ++ restLines)
  | _ =>
    match d.st with
    | none => (d, [])
    | some s =>
      if s.aborted then (d, []) else
      match words line with
      | ["blockon", n] =>
        -- `EventLoop::block_on` of a future that is ready at its n-th poll and wakes itself at every earlier one:
        -- n-1 turns, each a dispatch (events, then idles); the harness prints one snapshot, after the last turn
        let turns := max 1 ((n.toNat?.getD 2) - 1)
        let s' := (List.range turns).foldl (fun s _ => step s .dispatch) s
        let newObs := s'.log.drop d.printed
        let isSnap (o : Obs) : Bool := match o with | .st _ | .ep _ => true | _ => false
        let snaps := newObs.filter isSnap
        let body := newObs.filter (fun o => !isSnap o)
        let tail := if s'.aborted then [] else (snaps.reverse.take 2).reverse
        ({ st := some s', printed := s'.log.length }, (body ++ tail).map obsText)
      | _ =>
      match parseOp line with
      | none => (d, ["bad-op " ++ line])
      | some o =>
        let s' := step s o
        let newObs := s'.log.drop d.printed
        ({ st := some s', printed := s'.log.length }, newObs.map obsText)

end Verif.Drv.Core

/-! ### parsing observation lines back (for the monitors on implementation traces) -/

namespace Verif.Drv.Core
open Verif.Loop Verif.Token Verif.Kernel

def parseErr : List String → Option Err
  | ["InvalidToken"] => some .invalidToken
  | ["Io:EEXIST"] => some (.io .eexist) | ["Io:ENOENT"] => some (.io .enoent)
  | ["Io:EBADF"] => some (.io .ebadf) | ["Io:other"] => some (.io .other) | ["Io:EPERM"] => some (.io .other)
  | ["Other"] => some .other
  | _ => none

def parseTok (s : String) : Option Tok :=
  match (s.splitOn ".").map String.toNat? with
  | [some a, some b, some c] => some ⟨a, b, c⟩
  | _ => none

def parseBit (c : Char) : Option Bool := if c == '1' then some true else if c == '0' then some false else none

def parseRW (s : String) : Option (Bool × Bool) :=
  match s.toList with
  | [a, b] => do let a ← parseBit a; let b ← parseBit b; pure (a, b)
  | _ => none

def parsePayload : List String → Option Payload
  | ["unit"] => some .unit
  | ["msg", v] => v.toNat?.map .msg
  | ["closed"] => some .closed
  | ["deadline", d] => (parseInt d).map .deadline
  | ["ready", rw] => (parseRW rw).map fun (r, w) => .ready r w
  | ["sub", j] => j.toNat?.map .sub
  | _ => none

def parsePAo : String → Option (Option PA)
  | "cont" => some (some .Continue) | "rereg" => some (some .Reregister)
  | "disable" => some (some .Disable) | "remove" => some (some .Remove) | "err" => some none
  | _ => none

def parseRegKind : String → Option RegKind
  | "register" => some .register | "reregister" => some .reregister | "unregister" => some .unregister
  | _ => none

def parseOkErr : String → Option Bool
  | "ok" => some true | "err" => some false | _ => none

def parseModeLetter : String → Option Mode
  | "L" => some .level | "E" => some .edge | "O" => some .oneshot | _ => none

def kv (s key : String) : Option Nat :=
  match s.splitOn "=" with
  | [k, v] => if k == key then v.toNat? else none
  | _ => none

def parseObs (line : String) : Option Obs :=
  match words line with
  | ">" :: rest =>
    let body := String.intercalate " " rest
    match parseOp body with
    | some (.c o) => some (.exec o)
    | some o => some (.top o)
    | none => none
  | ["pe", k] => k.toNat?.map .pe
  | ["peret", k, r] => do let k ← k.toNat?; let r ← parsePAo r; pure (.peret k r)
  | "op" :: rest =>
    -- op <text…> -> <result…>
    let (opw, res) := rest.span (· != "->")
    match parseCOp opw, res.drop 1 with
    | some o, ["ok"] => some (.opRes o .ok)
    | some o, "err" :: e => (parseErr e).map fun e => .opRes o (.err e)
    | some o, ["notoken"] => some (.opRes o .notoken)
    | some o, ["nohandle"] => some (.opRes o .nohandle)
    | some o, ["fail"] => some (.opRes o .fail)
    | some o, ["nofd"] => some (.opRes o .nofd)
    | some o, ["nodisp"] => some (.opRes o .nodisp)
    | some o, ["borrowed"] => some (.opRes o .borrowed)
    | some o, ["exists"] => some (.opRes o .exists)
    | _, _ => none
  | ["ins", k, "ok", iv] =>
    match k.toNat?, (iv.splitOn ".").map String.toNat? with
    | some k, [some i, some v] => some (.ins k (.ok ⟨i, v, 0⟩))
    | _, _ => none
  | "ins" :: k :: "err" :: e => do let k ← k.toNat?; let e ← parseErr e; pure (.ins k (.err e))
  | ["ins", k, "nosource"] => k.toNat?.map fun k => .ins k .nosource
  | "cb" :: k :: p => do let k ← k.toNat?; let p ← parsePayload p; pure (.cb k p)
  | "cbret" :: k :: r => do let k ← k.toNat?; let r ← parseRet r; pure (.cbret k r)
  | ["reg", k, kind, sub, res] => do
    let k ← k.toNat?
    let kind ← parseRegKind kind
    let j ← kv sub "sub"
    let ok ← parseOkErr res
    pure (.reg k kind j ok)
  | ["bs", k, "none"] => k.toNat?.map fun k => .bs k .none
  | ["bs", k, "err"] => k.toNat?.map fun k => .bs k .err
  | ["bs", k, "synth", j] => do let k ← k.toNat?; let j ← j.toNat?; pure (.bs k (.synth j))
  | "bhe" :: k :: evs => do
    let k ← k.toNat?
    let evs ← evs.mapM fun e =>
      match e.splitOn ":" with
      | [t, rw] => do let t ← parseTok t; let (r, w) ← parseRW rw; pure ({ key := t, r := r, w := w } : Event)
      | _ => none
    pure (.bhe k evs)
  | ["idle", i] => i.toNat?.map .idle
  | ["idleret", i] => i.toNat?.map .idleret
  | ["drop", k] => k.toNat?.map .drop
  | ["dispatch", "begin"] => some .dispatchBegin
  | ["dispatch", "end", "ok"] => some (.dispatchEnd none)
  | "dispatch" :: "end" :: "err" :: e => (parseErr e).map fun e => .dispatchEnd (some e)
  | ["st", a, b, c, d, e, f, g] => do
    let slots ← kv a "slots"; let occ ← kv b "occ"; let life ← kv c "life"; let heap ← kv d "heap"
    let idles ← kv e "idles"; let pend ← kv f "pend"; let synth ← kv g "synth"
    let pa : PA := match pend with | 0 => .Continue | 1 => .Reregister | 2 => .Disable | _ => .Remove
    pure (.st { slots := slots, occ := occ, life := life, heap := heap, idles := idles, pend := pa, synth := synth })
  | "ep" :: es => do
    let es ← es.mapM fun e =>
      match e.splitOn "/" with
      | [t, rw, m] => do
        let t ← parseTok t; let (r, w) ← parseRW rw
        let m ← parseModeLetter m
        pure ({ fd := 0, key := t, r := r, w := w, mode := m } : EpEntry)
      | _ => none
    pure (.ep es)
  | ["panic", "Borrow"] => some (.panic .borrow)
  | ["panic", "Unreachable"] => some (.panic .unreachable)
  | ["panic", "SubIdOverflow"] => some (.panic .subIdOverflow)
  | ["panic", _] => some (.panic .borrow)
  | ["abort"] => some .abort
  | ["end"] => some .caseEnd
  | ["loopdropped"] => some .loopDropped
  | _ => none

open Verif.Spec.Core in
def propName : PropId → String
  | .C01 => "C01" | .C02 => "C02" | .C05 => "C05" | .C06 => "C06" | .C07 => "C07" | .C08 => "C08"
  | .C09 => "C09" | .C13 => "C13" | .C14 => "C14" | .C15 => "C15" | .C16 => "C16"

open Verif.Spec.Core in
structure MonSt where
  t : Option T := none
  bad : List String := []

open Verif.Spec.Core in
/-- `drv coremon`: one line per case — `ok wf=<b>` or `viol <Cxx>@<obs index> <why> | …`;
    unparsable observation lines are reported, never skipped silently. -/
def monLine (m : MonSt) (line : String) : MonSt × List String :=
  match words line with
  | [] => (m, [])
  | "case" :: _ => ({ t := some {}, bad := [] }, [])
  | ["timing-inconclusive"] => (m, [])
  | ws =>
    match m.t with
    | none => (m, [])
    | some t =>
      match parseObs line with
      | none =>
        if ws.head? == some "drop" || ws.head? == some "bad-op" then (m, [])
        else ({ m with bad := m.bad ++ [line] }, [])
      | some x =>
        let t' := onObs t x
        match x with
        | .loopDropped | .abort =>
          let out :=
            if !m.bad.isEmpty then "unparsed " ++ String.intercalate " || " m.bad
            else if t'.viols.isEmpty then s!"ok wf={t'.wf}"
            else "viol " ++ String.intercalate " | " (t'.viols.map fun v => s!"{propName v.prop}@{v.pos} {v.why}")
          ({ t := none, bad := [] }, [out])
        | _ => ({ m with t := some t' }, [])

end Verif.Drv.Core
