/- `drv core`: parser of the op-file language, printer of observation lines, case runner for
   `Verif.Loop` (same line protocol as `vh core`). -/
import Verif.Model.Loop

namespace Verif.Drv.Core
open Verif.Loop Verif.Token Verif.Kernel

def words (line : String) : List String := (line.splitOn " ").filter (· ≠ "")

def parseInt (s : String) : Option Int :=
  if s.startsWith "-" then (s.drop 1).toString.toNat?.map (fun n => -(n : Int)) else s.toNat?.map (fun n => (n : Int))

def parseInterest : String → Option (Bool × Bool)
  | "r" => some (true, false) | "w" => some (false, true) | "rw" => some (true, true) | "-" => some (false, false)
  | _ => none

def parseMode : String → Option Mode
  | "level" => some .level | "edge" => some .edge | "oneshot" => some .oneshot | _ => none

def interestText (r w : Bool) : String :=
  match r, w with | true, false => "r" | false, true => "w" | true, true => "rw" | false, false => "-"

def modeText : Mode → String | .level => "level" | .edge => "edge" | .oneshot => "oneshot"

def optNat (s : String) : Option (Option Nat) :=
  if s == "-" then some none else s.toNat?.map some

def parsePlan (ws : List String) : Option Plan :=
  ws.foldlM (fun (p : Plan) kv =>
    match kv.splitOn "=" with
    | ["reg", v] => (optNat v).map fun x => { p with regFail := x }
    | ["rereg", v] => (optNat v).map fun x => { p with reregFail := x }
    | ["unreg", v] => (optNat v).map fun x => { p with unregFail := x }
    | ["bs", v] =>
      if v == "none" then some { p with bs := .none }
      else if v == "err" then some { p with bs := .err }
      else if v.startsWith "synth" then (v.drop 5).toString.toNat?.map fun j => { p with bs := .synth j }
      else none
    | _ => none) {}

def planText (p : Plan) : String :=
  let o : Option Nat → String := fun x => match x with | some j => toString j | none => "-"
  let bs := match p.bs with | .none => "none" | .err => "err" | .synth j => s!"synth{j}"
  s!"reg={o p.regFail} rereg={o p.reregFail} unreg={o p.unregFail} bs={bs}"

def parseCOp (ws : List String) : Option COp :=
  match ws with
  | ["new", k, "ping"] => k.toNat?.map .newPing
  | ["new", k, "timer", "none"] => k.toNat?.map fun k => .newTimer k none
  | ["new", k, "timer", d] => do let k ← k.toNat?; let d ← parseInt d; pure (.newTimer k (some d))
  | ["new", k, "chan"] => k.toNat?.map .newChan
  | ["new", k, "sync", n] => do let k ← k.toNat?; let n ← n.toNat?; pure (.newSync k n)
  | ["new", k, "gen", f, i, m] => do
    let k ← k.toNat?; let f ← f.toNat?; let (r, w) ← parseInterest i; let m ← parseMode m
    pure (.newGen k f r w m)
  | ["new", k, "custom", n, l] => do
    let k ← k.toNat?; let n ← n.toNat?
    if l == "1" then pure (.newCustom k n true) else if l == "0" then pure (.newCustom k n false) else none
  | ["fd", f] => f.toNat?.map .fd
  | "plan" :: k :: rest => do let k ← k.toNat?; let p ← parsePlan rest; pure (.plan k p)
  | ["insert", k] => k.toNat?.map .insert
  | ["insertd", k] => k.toNat?.map .insertd
  | ["remove", k] => k.toNat?.map .remove
  | ["disable", k] => k.toNat?.map .disable
  | ["enable", k] => k.toNat?.map .enable
  | ["update", k] => k.toNat?.map .update
  | ["ping", k] => k.toNat?.map .ping
  | ["cloneping", k] => k.toNat?.map .clonePing
  | ["dropping", k] => k.toNat?.map .dropPing
  | ["send", k, v] => do let k ← k.toNat?; let v ← v.toNat?; pure (.send k v)
  | ["clonesender", k] => k.toNat?.map .cloneSender
  | ["dropsender", k] => k.toNat?.map .dropSender
  | ["write", f, n] => do let f ← f.toNat?; let n ← n.toNat?; pure (.write f n)
  | ["read", f] => f.toNat?.map .read
  | ["advance", n] => n.toNat?.map .advance
  | ["setdeadline", k, d] => do let k ← k.toNat?; let d ← parseInt d; pure (.setDeadline k d)
  | ["setinterest", k, i, m] => do
    let k ← k.toNat?; let (r, w) ← parseInterest i; let m ← parseMode m; pure (.setInterest k r w m)
  | ["dropdisp", k] => k.toNat?.map .dropDisp
  | ["idle", i] => i.toNat?.map .idle
  | ["cancelidle", i] => i.toNat?.map .cancelIdle
  | ["dropidle", i] => i.toNat?.map .dropIdle
  | _ => none

def copText : COp → String
  | .newPing k => s!"new {k} ping"
  | .newTimer k none => s!"new {k} timer none"
  | .newTimer k (some d) => s!"new {k} timer {d}"
  | .newChan k => s!"new {k} chan"
  | .newSync k n => s!"new {k} sync {n}"
  | .newGen k f r w m => s!"new {k} gen {f} {interestText r w} {modeText m}"
  | .newCustom k n l => s!"new {k} custom {n} {if l then 1 else 0}"
  | .fd f => s!"fd {f}"
  | .plan k p => s!"plan {k} {planText p}"
  | .insert k => s!"insert {k}" | .insertd k => s!"insertd {k}"
  | .remove k => s!"remove {k}" | .disable k => s!"disable {k}" | .enable k => s!"enable {k}"
  | .update k => s!"update {k}"
  | .ping k => s!"ping {k}" | .clonePing k => s!"cloneping {k}" | .dropPing k => s!"dropping {k}"
  | .send k v => s!"send {k} {v}" | .cloneSender k => s!"clonesender {k}" | .dropSender k => s!"dropsender {k}"
  | .write f n => s!"write {f} {n}" | .read f => s!"read {f}" | .advance n => s!"advance {n}"
  | .setDeadline k d => s!"setdeadline {k} {d}"
  | .setInterest k r w m => s!"setinterest {k} {interestText r w} {modeText m}"
  | .dropDisp k => s!"dropdisp {k}"
  | .idle i => s!"idle {i}" | .cancelIdle i => s!"cancelidle {i}" | .dropIdle i => s!"dropidle {i}"

def parseRet (ws : List String) : Option Ret :=
  match ws with
  | ["unit"] => some .unit | ["cont"] => some .cont | ["rereg"] => some .rereg
  | ["disable"] => some .disable | ["remove"] => some .remove | ["err"] => some .err
  | ["drop"] => some .drop | ["overflow"] => some .overflow
  | ["toinstant", d] => (parseInt d).map .toInstant
  | _ => none

def retText : Ret → String
  | .unit => "unit" | .cont => "cont" | .rereg => "rereg" | .disable => "disable" | .remove => "remove"
  | .err => "err" | .drop => "drop" | .overflow => "overflow" | .toInstant d => s!"toinstant {d}"

/-- `op ; op ; … ; ret R` -/
def parseScript (body : String) : Option Script :=
  (body.splitOn ";").foldlM (fun (sc : Script) part =>
    match words part with
    | [] => some sc
    | "ret" :: r => (parseRet r).map fun r => { sc with ret := r }
    | ws => (parseCOp ws).map fun o => { sc with ops := sc.ops ++ [o] }) {}

def parseOp (line : String) : Option Op :=
  match words line with
  | ["dispatch"] => some .dispatch
  | "script" :: k :: n :: ":" :: _ => do
    let k ← k.toNat?
    let n ← if n == "*" then some 0 else n.toNat?
    let body := (line.splitOn ":").drop 1 |> String.intercalate ":"
    let sc ← parseScript body
    pure (.script k n sc)
  | "idlescript" :: i :: ":" :: _ => do
    let i ← i.toNat?
    let body := (line.splitOn ":").drop 1 |> String.intercalate ":"
    let sc ← parseScript body
    pure (.idleScript i sc)
  | ws => (parseCOp ws).map .c

def errText : Err → String
  | .invalidToken => "InvalidToken"
  | .io .eexist => "Io:EEXIST" | .io .enoent => "Io:ENOENT" | .io .ebadf => "Io:EBADF" | .io .other => "Io:other"
  | .other => "Other"

def tokText (t : Tok) : String := s!"{t.id}.{t.ver}.{t.sub}"
def b01 (b : Bool) : String := if b then "1" else "0"

def paNum : PA → Nat
  | .Continue => 0 | .Reregister => 1 | .Disable => 2 | .Remove => 3

def tokLt (a b : Tok) : Bool :=
  a.id < b.id || (a.id == b.id && (a.ver < b.ver || (a.ver == b.ver && a.sub < b.sub)))

def insertSorted (e : EpEntry) : List EpEntry → List EpEntry
  | [] => [e]
  | x :: xs => if tokLt e.key x.key then e :: x :: xs else x :: insertSorted e xs

def obsText : Obs → String
  | .opRes o r =>
    let rs := match r with
      | .ok => "ok" | .err e => "err " ++ errText e | .notoken => "notoken" | .nohandle => "nohandle"
      | .fail => "fail" | .nofd => "nofd" | .nodisp => "nodisp" | .borrowed => "borrowed" | .exists => "exists"
    s!"op {copText o} -> {rs}"
  | .ins k (.ok t) => s!"ins {k} ok {t.id}.{t.ver}"
  | .ins k (.err e) => s!"ins {k} err {errText e}"
  | .ins k .nosource => s!"ins {k} nosource"
  | .cb k p =>
    let ps := match p with
      | .unit => "unit" | .msg v => s!"msg {v}" | .closed => "closed" | .deadline d => s!"deadline {d}"
      | .ready r w => s!"ready {b01 r}{b01 w}" | .sub j => s!"sub {j}"
    s!"cb {k} {ps}"
  | .cbret k r => s!"cbret {k} {retText r}"
  | .reg k kind sub ok =>
    let ks := match kind with | .register => "register" | .reregister => "reregister" | .unregister => "unregister"
    s!"reg {k} {ks} sub={sub} {if ok then "ok" else "err"}"
  | .bs k .none => s!"bs {k} none"
  | .bs k .err => s!"bs {k} err"
  | .bs k (.synth j) => s!"bs {k} synth {j}"
  | .bhe k evs => evs.foldl (fun acc e => acc ++ s!" {tokText e.key}:{b01 e.r}{b01 e.w}") s!"bhe {k}"
  | .idle i => s!"idle {i}"
  | .idleret i => s!"idleret {i}"
  | .drop k => s!"drop {k}"
  | .dispatchBegin => "dispatch begin"
  | .dispatchEnd none => "dispatch end ok"
  | .dispatchEnd (some e) => s!"dispatch end err {errText e}"
  | .st s => s!"st slots={s.slots} occ={s.occ} life={s.life} heap={s.heap} idles={s.idles} pend={paNum s.pend} synth={s.synth}"
  | .ep es =>
    let sorted := es.foldl (fun acc e => insertSorted e acc) []
    sorted.foldl (fun acc e =>
      let m := match e.mode with | .level => "L" | .edge => "E" | .oneshot => "O"
      acc ++ s!" {tokText e.key}/{b01 e.r}{b01 e.w}/{m}") "ep"
  | .panic .borrow => "panic Borrow"
  | .panic .unreachable => "panic Unreachable"
  | .panic .subIdOverflow => "panic SubIdOverflow"
  | .abort => "abort"
  | .caseEnd => "end"
  | .loopDropped => "loopdropped"

structure DrvSt where
  st : Option St := none
  printed : Nat := 0

def insertStr (x : String) : List String → List String
  | [] => [x]
  | y :: ys => if x < y then x :: y :: ys else y :: insertStr x ys

def stepLine (d : DrvSt) (line : String) : DrvSt × List String :=
  match words line with
  | [] => (d, [])
  | "case" :: _ => ({ st := some {}, printed := 0 }, [line])
  | ["end"] =>
    match d.st with
    | none => (d, [])
    | some s =>
      let (obs, rest) := endCase s
      let restLines := rest.foldl (fun acc k => insertStr s!"drop {k}" acc) []
      ({ st := none, printed := 0 }, obs.map obsText ++ restLines)
  | _ =>
    match d.st with
    | none => (d, [])
    | some s =>
      if s.aborted then (d, []) else
      match parseOp line with
      | none => (d, ["bad-op " ++ line])
      | some o =>
        let s' := step s o
        let newObs := s'.log.drop d.printed
        ({ st := some s', printed := s'.log.length }, newObs.map obsText)

end Verif.Drv.Core
