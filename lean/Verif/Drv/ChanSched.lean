/- `drv chansched`: replays a thread schedule in `ChanProto` (same case format and `step` lines as
   `vh chansched`). -/
import Verif.Model.ChanProto

namespace Verif.Drv.ChanSched
open Verif.ChanProto

inductive SOp | send (v : Nat) | trysend (v : Nat) | clone | drop
  deriving DecidableEq, Repr

inductive SMid
  | none
  | atSend (v : Nat)            -- parked at chan.send (async)
  | atTry (v : Nat)             -- parked at chan.try_send (try_send)
  | atTrySend (v : Nat)         -- parked at chan.try_send (inside SyncSender::send)
  | wakeBefore                  -- parked at efd.ping
  | wakeAfter                   -- parked at efd.written
  | wakeBeforeBlock (v : Nat)   -- parked at efd.ping; will block afterwards
  | wakeAfterBlock (v : Nat)    -- parked at efd.written; chan.sync_block next
  | atSyncBlock (v : Nat)       -- parked at chan.sync_block
  | inBlocked (v : Nat)         -- inside the blocking send (not parked)
  deriving DecidableEq, Repr

structure SThread where
  ops : List SOp := []
  mid : SMid := .none
  handles : Nat := 1
  deriving Repr

inductive LMid | none | atPoll | atPolled (ev : Bool) | atDrain | atRecv | wakeBefore | wakeAfter
  deriving DecidableEq, Repr

structure World where
  s : St := {}
  threads : List SThread := []
  loopOps : Nat := 0
  lmid : LMid := .none
  loopDone : Bool := false
  deriving Repr

def act (w : World) (a : Act) : World :=
  match step w.s a with
  | some s' => { w with s := s' }
  | none => w

def isAsync (w : World) : Bool := w.s.cap.isNone

def room (w : World) : Bool := !full w.s && w.s.cap != some 0

def senderStep (w : World) (p : SThread) : Nat → World × SThread × String
  | 0 => (w, p, "fuel")
  | fuel + 1 =>
    match p.mid with
    | .atSend v => (act w (.pushOk v), { p with mid := .wakeBefore }, "efd.ping")
    | .atTry v =>
      if room w then (act w (.pushOk v), { p with mid := .wakeBefore }, "efd.ping")
      else (act w (.pushFullTry v), { p with mid := .wakeBefore }, "efd.ping")
    | .atTrySend v =>
      if room w then (act w (.pushOk v), { p with mid := .wakeBefore }, "efd.ping")
      else (act w (.pushFullSend v), { p with mid := .wakeBeforeBlock v }, "efd.ping")
    | .wakeBefore => (act w .wakeWrite, { p with mid := .wakeAfter }, "efd.written")
    | .wakeAfter => senderStep w { p with mid := .none } fuel
    | .wakeBeforeBlock v => (act w .wakeWrite, { p with mid := .wakeAfterBlock v }, "efd.written")
    | .wakeAfterBlock v => (w, { p with mid := .atSyncBlock v }, "chan.sync_block")
    | .atSyncBlock v =>
      let w := act w (.enterBlocking v)
      if room w then (act w (.blockedCompletes v), { p with mid := .wakeBefore }, "efd.ping")
      else (w, { p with mid := .inBlocked v }, "blocked")
    | .inBlocked v =>
      -- still inside the blocking send?  (a rendezvous hand-over or freed room lets it go)
      if w.s.blocked.contains v then
        if room w then (act w (.blockedCompletes v), { p with mid := .wakeBefore }, "efd.ping")
        else (w, p, "blocked")
      else (w, { p with mid := .wakeBefore }, "efd.ping")
    | .none =>
      match p.ops with
      | [] => (w, p, "done")
      | .send v :: rest =>
        if p.handles == 0 then senderStep w { p with ops := rest } fuel
        else if isAsync w then (act w (.sendStart v), { p with ops := rest, mid := .atSend v }, "chan.send")
        else (act w (.sendStart v), { p with ops := rest, mid := .atTrySend v }, "chan.try_send")
      | .trysend v :: rest =>
        if p.handles == 0 || isAsync w then senderStep w { p with ops := rest } fuel
        else (act w (.sendStart v), { p with ops := rest, mid := .atTry v }, "chan.try_send")
      | .clone :: rest =>
        if p.handles == 0 then senderStep w { p with ops := rest } fuel
        else senderStep (act w .senderClone) { p with ops := rest, handles := p.handles + 1 } fuel
      | .drop :: rest =>
        if p.handles == 0 then senderStep w { p with ops := rest } fuel
        else
          let pings := isAsync w || w.s.live == 1
          let w' := act w (.senderDrop (isAsync w))
          if pings then (w', { p with ops := rest, handles := p.handles - 1, mid := .wakeBefore }, "efd.ping")
          else senderStep w' { p with ops := rest, handles := p.handles - 1 } fuel

def loopStep (w : World) : Nat → World × String
  | 0 => (w, "fuel")
  | fuel + 1 =>
    if w.loopDone then (w, "skip") else
    match w.lmid with
    | .none =>
      if w.loopOps == 0 then ({ w with loopDone := true }, "done")
      else ({ w with loopOps := w.loopOps - 1, lmid := .atPoll }, "loop.poll")
    | .atPoll =>
      let ev := w.s.reg == 1 && w.s.counter > 0 && w.s.loop == 0
      let w := if ev then act w .loopPoll else w
      ({ w with lmid := .atPolled ev }, "loop.polled")
    | .atPolled ev =>
      if ev then ({ w with lmid := .atDrain }, "efd.drain") else loopStep { w with lmid := .none } fuel
    | .atDrain => ({ (act w .loopDrainStart) with lmid := .atRecv }, "chan.recv")
    | .atRecv =>
      let w := act w .loopRecv
      if w.s.loop == 2 then
        if w.s.budgetLeft > 0 then (w, "chan.recv")
        else ({ (act w .loopBudgetOut) with lmid := .wakeBefore }, "efd.ping")
      else loopStep { (act w .loopPost) with lmid := .none } fuel
    | .wakeBefore => ({ (act w .loopPost) with lmid := .wakeAfter }, "efd.written")
    | .wakeAfter => loopStep { w with lmid := .none } fuel

def deliveredText (s : St) : String :=
  String.intercalate "," (s.delivered.map toString ++ (if s.closed ≥ 1 then ["closed"] else []))

def snapshot (w : World) : String := s!"counter={w.s.counter} delivered=[{deliveredText w.s}] reg={w.s.reg}"

structure RunSt where
  w : World
  finished : List Nat := []

def stepThread (r : RunSt) (t n : Nat) : RunSt × String :=
  if t > n || r.finished.contains t then (r, "skip") else
  if t == 0 then
    let (w', l) := loopStep r.w 4000
    ({ w := w', finished := if l == "done" then t :: r.finished else r.finished }, l)
  else
    match r.w.threads[t - 1]? with
    | none => (r, "skip")
    | some p =>
      let (w', p', l) := senderStep r.w p 100
      ({ w := { w' with threads := w'.threads.set (t - 1) p' }, finished := if l == "done" then t :: r.finished else r.finished }, l)

/-- a sender released from a blocking send by the last step runs on to its next yield point -/
def settle (r : RunSt) (t n : Nat) : RunSt :=
  (List.range n).foldl (fun r i =>
    let u := i + 1
    if u == t then r else
    match r.w.threads[u - 1]? with
    | some p =>
      match p.mid with
      | .inBlocked _ => (stepThread r u n).1
      | _ => r
    | none => r) r

def words (line : String) : List String := (line.splitOn " ").filter (· ≠ "")

def parseProg (body : String) : List SOp :=
  (body.splitOn ";").filterMap fun x =>
    match words x with
    | ["send", v] => v.toNat?.map .send
    | ["trysend", v] => v.toNat?.map .trysend
    | ["clone"] => some .clone
    | ["drop"] => some .drop
    | _ => none

structure Case where
  name : String := ""
  cap : Option Nat := none
  progs : List (List SOp) := []
  loopOps : Nat := 0
  sched : List Nat := []

def initWorld (c : Case) (batch : Nat) : World :=
  let s0 : St := match c.cap with
    | none => { (initAsync batch) with live := c.progs.length }
    | some k => { (initSync k batch) with live := c.progs.length }
  { s := s0, threads := c.progs.map fun p => { ops := p }, loopOps := c.loopOps }

def runCase (c : Case) (batch : Nat) : List String :=
  let n := c.progs.length
  let (_, lines) := c.sched.foldl (fun (acc : RunSt × List String) t =>
    let (r', l) := stepThread acc.1 t n
    let r'' := settle r' t n
    (r'', acc.2 ++ [s!"step {t} {l} {snapshot r''.w}"])) (({ w := initWorld c batch } : RunSt), [])
  [s!"case {c.name}"] ++ lines ++ ["final"]

def stepLine (batch : Nat) (c : Case) (line : String) : Case × List String :=
  match words line with
  | "case" :: nm :: _ => ({ name := nm }, [])
  | ["chan", "async"] => ({ c with cap := none }, [])
  | ["chan", "sync", k] => ({ c with cap := some (k.toNat?.getD 0) }, [])
  | ["senders", n] => ({ c with progs := List.replicate (n.toNat?.getD 0) [] }, [])
  | "prog" :: i :: _ =>
    let idx := ((i.dropEnd 1).toString.toNat?).getD 0
    let body := String.intercalate ":" ((line.splitOn ":").drop 1)
    if idx ≥ 1 && idx ≤ c.progs.length then ({ c with progs := c.progs.set (idx - 1) (parseProg body) }, []) else (c, [])
  | "loop:" :: _ =>
    let body := String.intercalate ":" ((line.splitOn ":").drop 1)
    ({ c with loopOps := ((body.splitOn ";").filter fun x => words x == ["dispatch"]).length }, [])
  | "sched" :: ts => ({ c with sched := ts.filterMap String.toNat? }, [])
  | ["end"] => (c, runCase c batch)
  | _ => (c, [])

end Verif.Drv.ChanSched
