/- `drv runsched`: replays a thread schedule in `SignalProto` (same case format and `step` lines as
   `vh runsched`). -/
import Verif.Model.SignalProto

namespace Verif.Drv.RunSched
open Verif.SignalProto

inductive TOp | stop | wakeup | complete | wake
  deriving DecidableEq, Repr

inductive TMid | none | atStop | atWakeup | atWakeStore | atWakeNotify
  deriving DecidableEq, Repr

structure Thread where
  ops : List TOp := []
  mid : TMid := .none
  deriving Repr

structure World where
  s : St := {}
  threads : List Thread := []
  loopLabel : String := "loop.ready"     -- where the loop thread is parked ("blocked" = inside the wait)
  loopDone : Bool := false
  selfWake : Nat := 0                    -- the future wakes itself inside its first `selfWake` polls
  deriving Repr

def act (w : World) (a : Act) : World :=
  match step w.s a with
  | some s' => { w with s := s' }
  | none => w

def threadStep (w : World) (t : Thread) : Nat → World × Thread × String
  | 0 => (w, t, "fuel")
  | fuel + 1 =>
    match t.mid with
    | .atStop => threadStep (act w .stopStore) { t with mid := .none } fuel
    | .atWakeup => threadStep (act w .wakeupNotify) { t with mid := .none } fuel
    | .atWakeStore => (act w .wakerStore, { t with mid := .atWakeNotify }, "bo.wake.notify")
    | .atWakeNotify => threadStep (act w .wakerNotify) { t with mid := .none } fuel
    | .none =>
      match t.ops with
      | [] => (w, t, "done")
      | .stop :: rest => (act w .stopStart, { t with ops := rest, mid := .atStop }, "sig.stop")
      | .wakeup :: rest => (act w .wakeupStart, { t with ops := rest, mid := .atWakeup }, "sig.wakeup")
      | .complete :: rest => threadStep (act w .complete) { t with ops := rest } fuel
      | .wake :: rest =>
        -- the future hands out its waker when it is first polled
        if w.s.polls ≥ 1 then (act w .wakerStart, { t with ops := rest, mid := .atWakeStore }, "bo.wake.store")
        else threadStep w { t with ops := rest } fuel

/-- the loop thread, from the yield point it is parked at to the next -/
def loopStep (w : World) : World × String :=
  if w.loopDone then (w, "skip") else
  let mark := fun (w : World) (l : String) => ({ w with loopLabel := l, loopDone := l == "done" }, l)
  match w.loopLabel with
  | "loop.ready" => mark (act w .runStart) "run.reset"
  | "run.reset" | "run.iter_end" =>
    let w := act w .check
    if w.s.lp == 8 then mark w "done" else mark w "run.checked"
  | "run.checked" =>
    let w := act w .afterChecked
    if w.s.lp == 3 then mark w "bo.swap" else mark w "loop.poll"
  | "bo.swap" =>
    let w := act w .swap
    if w.s.lp == 9 then
      -- the poll has begun (counted, waker stored); a self-waking future calls its waker before it parks at `fut.poll`
      if w.selfWake > 0 then mark { (act w .wakerStart) with selfWake := w.selfWake - 1 } "bo.wake.store"
      else mark w "fut.poll"
    else mark w "loop.poll"
  | "bo.wake.store" => mark (act w .wakerStore) "bo.wake.notify"
  | "bo.wake.notify" => mark (act w .wakerNotify) "fut.poll"
  | "fut.poll" =>
    let w := act w .pollEnd
    if w.s.lp == 8 then mark w "done" else mark w "loop.poll"
  | "loop.poll" | "blocked" =>
    let w := if w.s.lp == 4 then act w .enterWait else w
    if w.s.notif == 1 then mark (act w .waitReturn) "loop.polled" else mark w "blocked"
  | "loop.polled" => mark (act w .afterWait) "run.iter_end"
  | _ => (w, "skip")

/-- a loop blocked in the wait that has been notified runs on to `loop.polled` by itself -/
def settleLoop (w : World) : World :=
  if w.loopLabel == "blocked" && w.s.notif == 1 then { (act w .waitReturn) with loopLabel := "loop.polled" } else w

def resultText (s : St) : String :=
  if s.result == 1 then "some" else if s.result == 2 then "stopped" else "none"

def snapshot (w : World) : String := s!"iters={w.s.iters} polls={w.s.polls} result={resultText w.s}"

structure RunSt where
  w : World
  finished : List Nat := []

def stepThread (r : RunSt) (t n : Nat) : RunSt × String :=
  if t > n || r.finished.contains t then (r, "skip") else
  if t == 0 then
    let (w', l) := loopStep r.w
    ({ w := w', finished := if l == "done" then 0 :: r.finished else r.finished }, l)
  else
    match r.w.threads[t - 1]? with
    | none => (r, "skip")
    | some th =>
      let (w', th', l) := threadStep r.w th 100
      let w'' := settleLoop { w' with threads := w'.threads.set (t - 1) th' }
      ({ w := w'', finished := if l == "done" then t :: r.finished else r.finished }, l)

def words (line : String) : List String := (line.splitOn " ").filter (· ≠ "")

def parseProg (body : String) : List TOp :=
  (body.splitOn ";").filterMap fun x =>
    match words x with
    | ["stop"] => some .stop | ["wakeup"] => some .wakeup | ["complete"] => some .complete | ["wake"] => some .wake
    | _ => none

structure Case where
  name : String := ""
  mode : Nat := 0
  progs : List (List TOp) := []
  sched : List Nat := []
  selfWake : Nat := 0

def runCase (c : Case) : List String :=
  let n := c.progs.length
  let w0 : World := { s := { mode := c.mode }, threads := c.progs.map fun p => { ops := p }, selfWake := c.selfWake }
  let (_, lines) := c.sched.foldl (fun (acc : RunSt × List String) t =>
    let (r', l) := stepThread acc.1 t n
    (r', acc.2 ++ [s!"step {t} {l} {snapshot r'.w}"])) (({ w := w0 } : RunSt), [])
  [s!"case {c.name}"] ++ lines ++ ["final"]

def stepLine (c : Case) (line : String) : Case × List String :=
  match words line with
  | "case" :: nm :: _ => ({ name := nm }, [])
  | ["mode", m] => ({ c with mode := if m == "blockon" then 1 else 0 }, [])
  | ["selfwake", n] => ({ c with selfWake := n.toNat?.getD 0 }, [])
  | ["threads", n] => ({ c with progs := List.replicate (n.toNat?.getD 0) [] }, [])
  | "thread" :: i :: _ =>
    let idx := ((i.dropEnd 1).toString.toNat?).getD 0
    let body := String.intercalate ":" ((line.splitOn ":").drop 1)
    if idx ≥ 1 && idx ≤ c.progs.length then ({ c with progs := c.progs.set (idx - 1) (parseProg body) }, []) else (c, [])
  | "sched" :: ts => ({ c with sched := ts.filterMap String.toNat? }, [])
  | ["end"] => (c, runCase c)
  | _ => (c, [])

end Verif.Drv.RunSched
