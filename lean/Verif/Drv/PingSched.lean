/- `drv pingsched`: replays a thread schedule in `PingProto` (same case format and output lines as
   `vh pingsched`).  Each real thread's program is turned into LTS actions; one schedule step runs a
   thread up to its next yield point. -/
import Verif.Model.PingProto
import Verif.Spec.C03

namespace Verif.Drv.PingSched
open Verif.PingProto

inductive POp | ping | clone | drop
  deriving DecidableEq, Repr

inductive PMid | none | pingBefore | pingAfter | pingReturned | dropBefore | dropAfter
  deriving DecidableEq, Repr

structure PThread where
  ops : List POp := []
  mid : PMid := .none
  handles : Nat := 1
  deriving Repr

inductive LMid | none | atPoll | atPolled (ev : Bool) | atDrain | atCb
  deriving DecidableEq, Repr

structure World where
  s : St := {}
  pingers : List PThread := []
  loopOps : Nat := 0            -- remaining `dispatch` operations
  lmid : LMid := .none
  loopDone : Bool := false
  deriving Repr

def act (w : World) (a : Act) : World :=
  match step w.s a with
  | some s' => { w with s := s' }
  | none => w       -- cannot happen: the driver only issues enabled actions (a disabled one would show as a mismatch)

/-- run pinger `t` (given as record) to its next yield point; returns label -/
def pingerStep (w : World) (p : PThread) : Nat → World × PThread × String
  | 0 => (w, p, "fuel")
  | fuel + 1 =>
    match p.mid with
    | .pingBefore => (act w .pingWrite, { p with mid := .pingAfter }, "efd.written")
    | .dropBefore => (act w .dropWrite, { p with mid := .dropAfter }, "efd.written")
    | .pingAfter => (w, { p with mid := .pingReturned }, "ping.returned")
    | .pingReturned | .dropAfter => pingerStep w { p with mid := .none } fuel
    | .none =>
      match p.ops with
      | [] => (w, p, "done")
      | .ping :: rest =>
        if p.handles > 0 then (act w .pingStart, { p with ops := rest, mid := .pingBefore }, "efd.ping")
        else pingerStep w { p with ops := rest } fuel
      | .clone :: rest =>
        if p.handles > 0 then pingerStep (act w .clone) { p with ops := rest, handles := p.handles + 1 } fuel
        else pingerStep w { p with ops := rest } fuel
      | .drop :: rest =>
        if p.handles > 0 then
          let last := w.s.holders + w.s.inPing == 1
          let w' := act w .dropStart
          if last then (w', { p with ops := rest, handles := p.handles - 1, mid := .dropBefore }, "efd.close")
          else pingerStep w' { p with ops := rest, handles := p.handles - 1 } fuel
        else pingerStep w { p with ops := rest } fuel

def loopStep (w : World) : Nat → World × String
  | 0 => (w, "fuel")
  | fuel + 1 =>
    if w.loopDone then (w, "skip") else
    match w.lmid with
    | .none =>
      if w.loopOps == 0 then ({ w with loopDone := true }, "done")
      else ({ w with loopOps := w.loopOps - 1, lmid := .atPoll }, "loop.poll")
    | .atPoll =>
      let ev := w.s.reg == 1 && w.s.counter > 0 && w.s.loop == 0
      let w := if ev then act w .loopPoll else w
      ({ w with lmid := .atPolled ev }, "loop.polled")
    | .atPolled ev =>
      if ev then ({ w with lmid := .atDrain }, "efd.drain")
      else loopStep { w with lmid := .none } fuel
    | .atDrain =>
      let w := act w .loopDrain
      if w.s.lc ≥ 2 then
        -- the callback starts (it is counted) and the thread parks inside it
        ({ (act w .loopCallback) with lmid := .atCb }, "ping.cb")
      else
        let w := act (act w .loopCallback) .loopPost
        loopStep { w with lmid := .none } fuel
    | .atCb => loopStep { (act w .loopPost) with lmid := .none } fuel

def snapshot (w : World) : String := s!"counter={w.s.counter} cbs={w.s.cbs} reg={w.s.reg}"

def stepThread (w : World) (t : Nat) : World × String :=
  if t == 0 then loopStep w 100
  else
    match w.pingers[t - 1]? with
    | none => (w, "skip")
    | some p =>
      let (w', p', l) := pingerStep w p 100
      ({ w' with pingers := w'.pingers.set (t - 1) p' }, l)

def words (line : String) : List String := (line.splitOn " ").filter (· ≠ "")

def parseProg (body : String) : List POp :=
  (body.splitOn ";").filterMap fun x =>
    match words x with
    | ["ping"] => some .ping | ["clone"] => some .clone | ["drop"] => some .drop | _ => none

structure Case where
  name : String := ""
  n : Nat := 0
  progs : List (List POp) := []
  loopOps : Nat := 0
  sched : List Nat := []

/-- a finished thread answers `done` once and `skip` afterwards -/
structure RunSt where
  w : World
  finished : List Nat := []

def runStep (r : RunSt) (t : Nat) (n : Nat) : RunSt × String :=
  if t > n || r.finished.contains t then (r, "skip") else
  let (w', l) := stepThread r.w t
  ({ w := w', finished := if l == "done" then t :: r.finished else r.finished }, l)

partial def finish (r : RunSt) (t n : Nat) : RunSt :=
  let (r', l) := runStep r t n
  if l == "skip" || l == "done" then r' else finish r' t n

def runCase (c : Case) : List String :=
  let w0 : World := { s := { holders := c.n }, pingers := c.progs.map fun p => { ops := p }, loopOps := c.loopOps }
  let (r, lines) := c.sched.foldl (fun (acc : RunSt × List String) t =>
    let (r', l) := runStep acc.1 t c.n
    (r', acc.2 ++ [s!"step {t} {l} {snapshot r'.w}"])) (({ w := w0 } : RunSt), [])
  let r := (List.range c.n).foldl (fun r i => finish r (i + 1) c.n) r
  let r := finish r 0 c.n
  [s!"case {c.name}"] ++ lines ++ [s!"final cbs={r.w.s.cbs}"]

def stepLine (c : Case) (line : String) : Case × List String :=
  match words line with
  | "case" :: nm :: _ => ({ name := nm }, [])
  | ["pingers", n] => let k := n.toNat?.getD 0; ({ c with n := k, progs := List.replicate k [] }, [])
  | "prog" :: i :: _ =>
    let idx := ((i.dropEnd 1).toString.toNat?).getD 0
    let body := String.intercalate ":" ((line.splitOn ":").drop 1)
    if idx ≥ 1 && idx ≤ c.n then ({ c with progs := c.progs.set (idx - 1) (parseProg body) }, []) else (c, [])
  | "loop:" :: _ =>
    let body := String.intercalate ":" ((line.splitOn ":").drop 1)
    ({ c with loopOps := ((body.splitOn ";").filter fun x => words x == ["dispatch"]).length }, [])
  | "sched" :: ts => ({ c with sched := ts.filterMap String.toNat? }, [])
  | ["end"] => (c, runCase c)
  | _ => (c, [])

/-! ### every maximal schedule of a small configuration -/

partial def allSchedules (r : RunSt) (n : Nat) (pre : List Nat) (limit : Nat) : List (List Nat) :=
  if limit == 0 then [] else
  let live := (List.range (n + 1)).filter fun t => !r.finished.contains t
  if live.isEmpty then [pre.reverse]
  else live.foldl (fun acc t =>
    if acc.length ≥ limit then acc else
    let (r', _) := runStep r t n
    acc ++ allSchedules r' n (t :: pre) (limit - acc.length)) []

def enumCase (c : Case) (limit : Nat) : List String :=
  let w0 : World := { s := { holders := c.n }, pingers := c.progs.map fun p => { ops := p }, loopOps := c.loopOps }
  (allSchedules { w := w0 } c.n [] limit).map fun sc => "sched " ++ String.intercalate " " (sc.map toString)

/-- `drv pingenum LIMIT`: for each case (without `sched` line) print all maximal schedules -/
def enumLine (limit : Nat) (c : Case) (line : String) : Case × List String :=
  match words line with
  | ["end"] => (c, [s!"case {c.name}"] ++ enumCase c limit ++ ["end"])
  | _ => (stepLine c line).1 |> fun c' => (c', [])

/-! ### Spec_C03 on a trace -/

open Verif.Spec.C03 in
def parseRec (ws : List String) : Option Rec :=
  match ws with
  | ["step", t, l, c, cb, rg] =>
    let val := fun (s : String) => ((s.splitOn "=").getD 1 "").toNat?
    match t.toNat?, val c, val cb, val rg with
    | some t, some c, some cb, some rg => some { thread := t, label := l, counter := c, cbs := cb, reg := rg }
    | _, _, _, _ => none
  | _ => none

open Verif.Spec.C03 in
def monLine (m : Option Mon) (line : String) : Option Mon × List String :=
  match words line with
  | "case" :: _ => (some {}, [])
  | "final" :: _ =>
    match m with
    | some mm => (none, [match mm.bad with | some b => "bad " ++ b | none => "ok"])
    | none => (none, [])
  | ws =>
    match m, parseRec ws with
    | some mm, some r => (some (onRec mm r), [])
    | some mm, none => (some (mm.flag true ("unparsed line " ++ line)), [])
    | none, _ => (none, [])

end Verif.Drv.PingSched
