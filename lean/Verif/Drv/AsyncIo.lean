/- `drv asyncio`: the model side of the C17 correspondence at quiescent points (same case format and `op`
   lines as `vh asyncio`), for the read direction and for writes that fit the socket buffer. -/
import Verif.Model.AsyncProto

namespace Verif.Drv.AsyncIo
open Verif.AsyncProto

structure Case where
  name : String := ""
  modeRead : Bool := true
  blocking : Bool := true
  total : Nat := 0
  chunk : Nat := 1
  probe : Bool := false    -- every wait is polled under a throw-away waker first
  adaptFail : Bool := false
  adaptClosed : Bool := false
  ops : List String := []

structure World where
  s : St := {}
  peer : Nat := 0          -- bytes the peer wrote (read mode) / read (write mode)
  done : Bool := false
  running : Bool := false  -- the task is in the middle of a run (not parked, not woken-but-unrun)

def act (w : World) (a : Act) : World :=
  match step w.s a with
  | some s' => { w with s := s' }
  | none => w

def words (line : String) : List String := (line.splitOn " ").filter (· ≠ "")

/-- run the loop and the task until nothing is enabled any more -/
def settle (c : Case) (w : World) : Nat → World
  | 0 => w
  | fuel + 1 =>
    if w.done then w else
    if w.running then
      -- the task reads until WouldBlock or until it has everything
      if w.s.got ≥ c.total then { (act w .dropAdapter) with done := true, running := false }
      else if w.s.avail ≥ 1 then settle c (act w (.taskRead (min c.chunk (c.total - w.s.got)))) fuel
      else
        let w := act w .taskBlock
        let w := if c.probe then act w .probeArm else w
        settle c { (act w .taskArm) with running := false } fuel
    else if w.s.woken = 1 then settle c { (act w .taskRun) with running := true } fuel
    else if w.s.queued = 1 then settle c (act w .loopReport) fuel
    else w

def snapshot (c : Case) (w : World) : String :=
  let armed := if w.s.alive = 0 then "none" else if w.s.armed = 1 then (if c.modeRead then "r" else "w") else "-"
  let moved := if c.modeRead then w.s.got else w.s.got
  s!"moved={moved} peer={w.peer} ok=1 done={if w.done then 1 else 0} armed={armed} nonblock={w.s.nonblock}"

def runCase (c : Case) : List String :=
  -- a refused registration: the call fails, the loop's bookkeeping and the fd's mode are as before
  -- refused before the poller is asked (the fd is closed): three failed calls, no slot taken
  if c.adaptClosed then [s!"case {c.name}", "adaptclosed errs=3 occupied=0->0 slots_grew=0"] else
  if c.adaptFail then [s!"case {c.name}", s!"adaptfail err=1 bookkeeping=same nonblock={if c.blocking then 0 else 1}"] else
  -- write mode within the buffer: the room is there from the start
  let room := if c.modeRead then 0 else c.total
  let w0 : World := { s := { wasNonblock := if c.blocking then 0 else 1, avail := room, sent := room } }
  let (_, lines) := c.ops.foldl (fun (acc : World × List String) op =>
    let w := acc.1
    let w' := match words op with
      | ["peer", n] =>
        let k := n.toNat?.getD 0
        if c.modeRead then
          if k ≥ 1 then { (act w (.peerWrite k)) with peer := w.peer + k } else w
        else { w with peer := w.peer + min k (w.s.got - w.peer) }
      | ["settle"] => settle c w 100000
      | ["removeexec"] => if w.done then w else { (act w .dropAdapter) with done := true, running := false }
      | ["finishpeer"] =>
        -- (write direction within the buffer) the peer reads everything, the loop settles
        let w1 := settle c w 100000
        { w1 with peer := if c.modeRead then w1.peer else w1.s.got }
      | _ => w
    (w', acc.2 ++ [s!"op {op} -> {snapshot c w'}"])) (w0, [])
  [s!"case {c.name}", "created nonblock=1"] ++ lines

def stepLine (c : Case) (line : String) : Case × List String :=
  match words line with
  | "case" :: nm :: _ => ({ name := nm }, [])
  | ["mode", m] => ({ c with modeRead := m == "read", adaptFail := m == "adaptfail", adaptClosed := m == "adaptclosed" }, [])
  | ["blocking", b] => ({ c with blocking := b == "1" }, [])
  | ["total", t, "chunk", k] => ({ c with total := t.toNat?.getD 0, chunk := max 1 (k.toNat?.getD 1) }, [])
  | ["finish", _] => (c, [])
  | ["probe", b] => ({ c with probe := b == "1" }, [])
  | ["vectored", _] => (c, [])   -- the vectored entry points follow the same protocol
  | ["end"] => (c, runCase c)
  | _ => ({ c with ops := c.ops ++ [line] }, [])

end Verif.Drv.AsyncIo
