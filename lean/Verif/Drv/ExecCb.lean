/- `drv execcb`: the model's answers to the harness's `vh execcb` queries.
   `stream N D`: a StreamSource over a stream with N items ready at once, D dispatches (Verif.StreamSrc).
   `chain N`: task 0 scheduled from outside, the executor's callback schedules task r+1 when r is delivered —
   scheduling from inside the callback has the effect it has outside: every task runs and is delivered, in order. -/
import Verif.Model.StreamSrc

namespace Verif.Drv.ExecCb
open Verif.StreamSrc

def step (line : String) : Option String :=
  match (line.splitOn " ").filter (· ≠ "") with
  | ["chain", n] =>
    let n := n.toNat?.getD 0
    some s!"chain {n} delivered=[{",".intercalate ((List.range (n + 1)).map toString)}] panicked=0"
  | ["yield", n] =>
    -- a task that wakes itself inside its poll is polled again (the wake is not lost, whoever issues it), completes
    -- and is delivered; a task scheduled afterwards is delivered too
    let n := n.toNat?.getD 0
    some s!"yield {n} delivered=[0,1]"
  | ["stream", n, d] =>
    let n := n.toNat?.getD 0
    let d := d.toNat?.getD 0
    let s := iter d { rest := (List.range n).map Step.item }
    let items := s.out.filterMap id
    let inorder := items == List.range items.length
    let nones := (s.out.filter (· == none)).length
    some s!"stream {n} items={items.length} inorder={if inorder then 1 else 0} nones={nones} gone={if s.removed then 1 else 0}"
  | [] => none
  | _ => some "bad-op"

end Verif.Drv.ExecCb
