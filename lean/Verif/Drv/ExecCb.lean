/- `drv execcb`: the model's answers to the harness's `vh execcb` queries.
   `stream N D`: a StreamSource over a stream with N items ready at once, D dispatches (Verif.StreamSrc).
   `chain N`: task 0 scheduled from outside, the executor's callback schedules task r+1 when r is delivered —
   scheduling from inside the callback has the effect it has outside: every task runs and is delivered, in order. -/
import Verif.Model.StreamSrc
import Verif.Model.ExecFifo

namespace Verif.Drv.ExecCb
open Verif.StreamSrc

/-- `slab OPS…`: `sI` schedule, `cI` complete and wake, `wI` wake, `d` dispatch, `x` remove and drop the executor
    (Verif.ExecFifo) -/
def slabOp (o : String) : Verif.ExecFifo.Op :=
  let i := (o.drop 1).toNat?.getD 0
  match o.toList.head? with
  | some 's' => .sch i
  | some 'c' => .cpl i
  | some 'w' => .wk i
  | some 'x' => .drop
  | _ => .disp

def step (line : String) : Option String :=
  match (line.splitOn " ").filter (· ≠ "") with
  | ["chain", n] =>
    let n := n.toNat?.getD 0
    some s!"chain {n} delivered=[{",".intercalate ((List.range (n + 1)).map toString)}] panicked=0"
  | ["yield", n] =>
    -- a task that wakes itself inside its poll is polled again (the wake is not lost, whoever issues it), completes
    -- and is delivered; a task scheduled afterwards is delivered too
    let n := n.toNat?.getD 0
    some s!"yield {n} delivered=[0,1]"
  | "slab" :: ops =>
    let s := Verif.ExecFifo.run (ops.map slabOp)
    let gone := (List.range 64).filter s.dropped.contains
    some s!"slab delivered=[{",".intercalate (s.done.map toString)}] dropped=[{",".intercalate (gone.map toString)}] panicked=0"
  | ["stream", n, d] =>
    let n := n.toNat?.getD 0
    let d := d.toNat?.getD 0
    let s := iter d { rest := (List.range n).map Step.item }
    let items := s.out.filterMap id
    let inorder := items == List.range items.length
    let nones := (s.out.filter (· == none)).length
    some s!"stream {n} items={items.length} inorder={if inorder then 1 else 0} nones={nones} gone={if s.removed then 1 else 0}"
  | [] => none
  | _ => some "bad-op"

end Verif.Drv.ExecCb
