/- `drv execcb`: the model's answers to the harness's `vh execcb` queries.
   `stream N D`: a StreamSource over a stream with N items ready at once, D dispatches (Verif.StreamSrc).
   `chain N`: task 0 scheduled from outside, the executor's callback schedules task r+1 when r is delivered —
   scheduling from inside the callback has the effect it has outside: every task runs and is delivered, in order. -/
import Verif.Model.StreamSrc

namespace Verif.Drv.ExecCb
open Verif.StreamSrc

/-- `slab OPS…`: manual tasks on one executor — `sI` schedule, `cI` complete and wake, `wI` wake, `d` dispatch, `x` remove and drop the executor.  The
    executor is a FIFO of runnables: scheduling queues the task, a wake queues a task that was polled, is not done and is
    not queued; a dispatch polls the queued tasks in order and delivers those whose flag is set (their futures are dropped
    then); when the executor goes, every future it still holds is dropped, whoever else holds a waker. -/
structure Slab where
  flags : List Nat := []
  queued : List Nat := []
  polled : List Nat := []
  done : List Nat := []
  out : List Nat := []
  sched : List Nat := []
  dropped : List Nat := []     -- futures that have been dropped: delivered ones, and everything the executor held when it went
  dead : Bool := false         -- the executor has been removed from the loop and dropped

def Slab.wake (s : Slab) (i : Nat) : Slab :=
  if s.polled.contains i && !s.done.contains i && !s.queued.contains i && !s.dead then { s with queued := s.queued ++ [i] } else s

def Slab.op (s : Slab) (o : String) : Slab :=
  let i := (o.drop 1).toNat?.getD 0
  match o.toList.head? with
  | some 's' => if s.dead then s else { s with queued := s.queued ++ [i], sched := s.sched ++ [i] }
  | some 'c' => ({ s with flags := s.flags ++ [i] } : Slab).wake i
  | some 'w' => s.wake i
  | some 'x' => { s with dead := true, queued := [], dropped := s.dropped ++ s.sched }
  | _ =>
    s.queued.foldl (fun (s : Slab) i =>
      if s.flags.contains i then { s with done := s.done ++ [i], out := s.out ++ [i], dropped := s.dropped ++ [i] }
      else { s with polled := s.polled ++ [i] }) { s with queued := [] }

def step (line : String) : Option String :=
  match (line.splitOn " ").filter (· ≠ "") with
  | ["chain", n] =>
    let n := n.toNat?.getD 0
    some s!"chain {n} delivered=[{",".intercalate ((List.range (n + 1)).map toString)}] panicked=0"
  | ["yield", n] =>
    -- a task that wakes itself inside its poll is polled again (the wake is not lost, whoever issues it), completes
    -- and is delivered; a task scheduled afterwards is delivered too
    let n := n.toNat?.getD 0
    some s!"yield {n} delivered=[0,1]"
  | "slab" :: ops =>
    let s := ops.foldl Slab.op {}
    let gone := (List.range 64).filter s.dropped.contains
    some s!"slab delivered=[{",".intercalate (s.out.map toString)}] dropped=[{",".intercalate (gone.map toString)}] panicked=0"
  | ["stream", n, d] =>
    let n := n.toNat?.getD 0
    let d := d.toNat?.getD 0
    let s := iter d { rest := (List.range n).map Step.item }
    let items := s.out.filterMap id
    let inorder := items == List.range items.length
    let nones := (s.out.filter (· == none)).length
    some s!"stream {n} items={items.length} inorder={if inorder then 1 else 0} nones={nones} gone={if s.removed then 1 else 0}"
  | [] => none
  | _ => some "bad-op"

end Verif.Drv.ExecCb
