/- `drv` — the model side of every correspondence check: `drv <mode>` reads the same line protocol
   as the Rust harness `vh <mode>` on stdin and prints the model's observation lines; the `*mon`
   modes evaluate a property monitor (`Verif.Spec.*`) on an observation stream. -/
import Verif.Drv.Tok
import Verif.Generated.Consts
import Verif.Drv.Transient
import Verif.Drv.Core
import Verif.Drv.PingSched
import Verif.Drv.ChanSched
import Verif.Drv.Sig
import Verif.Drv.RunSched
import Verif.Drv.AsyncIo
import Verif.Drv.ExecSched
import Verif.Drv.Timeout
import Verif.Drv.ExecCb

partial def lineLoop (h : IO.FS.Stream) (out : IO.FS.Stream) (f : String → Option String) : IO Unit := do
  let line ← h.getLine
  if line.isEmpty then return ()
  match f (line.trimAscii.toString) with
  | some o => out.putStrLn o
  | none => pure ()
  lineLoop h out f

partial def stateLoop {σ : Type} (h : IO.FS.Stream) (out : IO.FS.Stream)
    (f : σ → String → σ × List String) (s : σ) : IO Unit := do
  let line ← h.getLine
  if line.isEmpty then return ()
  let (s', os) := f s (line.trimAscii.toString)
  for o in os do out.putStrLn o
  stateLoop h out f s'

def main (args : List String) : IO UInt32 := do
  let stdin ← IO.getStdin
  let stdout ← IO.getStdout
  match args with
  | ["tok"] => lineLoop stdin stdout Verif.Drv.Tok.step; return 0
  | ["transient"] => stateLoop stdin stdout Verif.Drv.Transient.stepModel none; return 0
  | ["core"] => stateLoop stdin stdout Verif.Drv.Core.stepLine {}; return 0
  | ["pingenum", lim] => stateLoop stdin stdout (Verif.Drv.PingSched.enumLine (lim.toNat?.getD 1000)) {}; return 0
  | ["c03mon"] => stateLoop stdin stdout Verif.Drv.PingSched.monLine none; return 0
  | ["chansched"] => stateLoop stdin stdout (Verif.Drv.ChanSched.stepLine Verif.Generated.Consts.MAX_EVENTS_CHECK) {}; return 0
  | ["timeout"] => lineLoop stdin stdout Verif.Drv.Timeout.step; return 0
  | ["execcb"] => lineLoop stdin stdout Verif.Drv.ExecCb.step; return 0
  | ["runsched"] => stateLoop stdin stdout Verif.Drv.RunSched.stepLine {}; return 0
  | ["execsched"] => stateLoop stdin stdout (Verif.Drv.ExecSched.stepLine Verif.Generated.Consts.EXECUTOR_BATCH) {}; return 0
  | ["asyncio"] => stateLoop stdin stdout Verif.Drv.AsyncIo.stepLine {}; return 0
  | ["sig"] => stateLoop stdin stdout Verif.Drv.Sig.stepLine none; return 0
  | ["pingsched"] => stateLoop stdin stdout Verif.Drv.PingSched.stepLine {}; return 0
  | ["coremon"] => stateLoop stdin stdout Verif.Drv.Core.monLine {}; return 0
  | ["c18mon"] => stateLoop stdin stdout Verif.Drv.Transient.stepMon {}; return 0
  | _ => IO.eprintln "usage: drv tok|transient|c18mon"; return 2
