/- `drv` — the model side of every correspondence check: `drv <mode>` reads the same line protocol
   as the Rust harness `vh <mode>` on stdin and prints the model's observation lines. -/
import Verif.Drv.Tok

partial def lineLoop (h : IO.FS.Stream) (out : IO.FS.Stream) (f : String → Option String) : IO Unit := do
  let line ← h.getLine
  if line.isEmpty then return ()
  match f (line.trimAscii.toString) with
  | some o => out.putStrLn o
  | none => pure ()
  lineLoop h out f

def main (args : List String) : IO UInt32 := do
  let stdin ← IO.getStdin
  let stdout ← IO.getStdout
  match args with
  | ["tok"] => lineLoop stdin stdout Verif.Drv.Tok.step; return 0
  | _ => IO.eprintln "usage: drv tok|…"; return 2
