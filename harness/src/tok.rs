//! C20: the real token arithmetic through the `calloop::verif` accessors.
use calloop::verif as v;
use std::io::{BufRead, Write};
use std::panic::catch_unwind;

fn fmt(t: (u32, u16, u16)) -> String {
    format!("{}.{}.{}", t.0, t.1, t.2)
}

pub fn run() -> i32 {
    std::panic::set_hook(Box::new(|_| {}));
    let stdin = std::io::stdin();
    let out = std::io::stdout();
    let mut out = std::io::BufWriter::new(out.lock());
    for line in stdin.lock().lines() {
        let line = line.unwrap();
        let w: Vec<&str> = line.split_whitespace().collect();
        if w.is_empty() || w[0].starts_with('#') {
            continue;
        }
        let n = |i: usize| -> u64 { w[i].parse::<u64>().unwrap() };
        let res = match w[0] {
            // pack ID VER SUB : key, and what the key decodes back to
            "pack" => {
                let k = v::token_pack(n(1) as u32, n(2) as u16, n(3) as u16);
                format!("{} {}", k, fmt(v::token_unpack(k)))
            }
            // unpack KEY : fields, and what they encode back to
            "unpack" => {
                let t = v::token_unpack(n(1) as usize);
                format!("{} {}", fmt(t), v::token_pack(t.0, t.1, t.2))
            }
            "new" => match v::token_new(n(1) as usize) {
                Some(t) => fmt(t),
                None => "err".to_string(),
            },
            "incver" => fmt(v::token_inc_version(n(1) as u32, n(2) as u16, n(3) as u16)),
            "incsub" => {
                let (a, b, c) = (n(1) as u32, n(2) as u16, n(3) as u16);
                match catch_unwind(|| v::token_inc_sub_id(a, b, c)) {
                    Ok(t) => fmt(t),
                    Err(_) => "panic".to_string(),
                }
            }
            "forget" => fmt(v::token_forget_sub_id(n(1) as u32, n(2) as u16, n(3) as u16)),
            "same" => format!(
                "{}",
                v::token_same_source(
                    (n(1) as u32, n(2) as u16, n(3) as u16),
                    (n(4) as u32, n(5) as u16, n(6) as u16)
                )
            ),
            // factory ID VER SUB N : ask a fresh factory for N tokens; print count delivered, first, last,
            // a checksum of all keys, whether all are same-source and pairwise distinct (keys strictly increasing)
            "factory" => {
                let (a, b, c, cnt) = (n(1) as u32, n(2) as u16, n(3) as u16, n(4));
                let r = catch_unwind(|| {
                    let mut f = v::token_factory(a, b, c);
                    let mut toks = Vec::new();
                    for _ in 0..cnt {
                        let r = catch_unwind(std::panic::AssertUnwindSafe(|| f.token()));
                        match r {
                            Ok(t) => toks.push(v::token_fields(t)),
                            Err(_) => return (toks, true),
                        }
                    }
                    (toks, false)
                });
                let (toks, panicked) = r.unwrap();
                let mut sum: u64 = 0;
                let mut increasing = true;
                let mut same = true;
                let mut prev: Option<usize> = None;
                for t in &toks {
                    let k = v::token_pack(t.0, t.1, t.2);
                    sum = sum.wrapping_mul(31).wrapping_add(k as u64);
                    if let Some(p) = prev {
                        increasing &= p < k;
                    }
                    prev = Some(k);
                    same &= v::token_same_source(*t, (a, b, 0));
                }
                format!(
                    "n={} first={} last={} sum={} distinct={} same={} panic={}",
                    toks.len(),
                    toks.first().map(|t| fmt(*t)).unwrap_or("-".into()),
                    toks.last().map(|t| fmt(*t)).unwrap_or("-".into()),
                    sum,
                    increasing,
                    same,
                    panicked
                )
            }
            _ => "bad-op".to_string(),
        };
        writeln!(out, "{}", res).unwrap();
    }
    0
}
