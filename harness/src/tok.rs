//! C20: the real token arithmetic through the `calloop::verif` accessors.
use calloop::verif as v;
use std::io::{BufRead, Write};
use std::panic::catch_unwind;

fn fmt(t: (u32, u16, u16)) -> String {
    format!("{}.{}.{}", t.0, t.1, t.2)
}

pub fn run() -> i32 {
    std::panic::set_hook(Box::new(|_| {}));
    let stdin = std::io::stdin();
    let out = std::io::stdout();
    let mut out = std::io::BufWriter::new(out.lock());
    for line in stdin.lock().lines() {
        let line = line.unwrap();
        let w: Vec<&str> = line.split_whitespace().collect();
        if w.is_empty() || w[0].starts_with('#') {
            continue;
        }
        let n = |i: usize| -> u64 { w[i].parse::<u64>().unwrap() };
        let res = match w[0] {
            // pack ID VER SUB : key, and what the key decodes back to
            "pack" => {
                let k = v::token_pack(n(1) as u32, n(2) as u16, n(3) as u16);
                format!("{} {}", k, fmt(v::token_unpack(k)))
            }
            // unpack KEY : fields, and what they encode back to
            "unpack" => {
                let t = v::token_unpack(n(1) as usize);
                format!("{} {}", fmt(t), v::token_pack(t.0, t.1, t.2))
            }
            "new" => match v::token_new(n(1) as usize) {
                Some(t) => fmt(t),
                None => "err".to_string(),
            },
            "incver" => fmt(v::token_inc_version(n(1) as u32, n(2) as u16, n(3) as u16)),
            "incsub" => {
                let (a, b, c) = (n(1) as u32, n(2) as u16, n(3) as u16);
                match catch_unwind(|| v::token_inc_sub_id(a, b, c)) {
                    Ok(t) => fmt(t),
                    Err(_) => "panic".to_string(),
                }
            }
            "forget" => fmt(v::token_forget_sub_id(n(1) as u32, n(2) as u16, n(3) as u16)),
            "same" => format!(
                "{}",
                v::token_same_source(
                    (n(1) as u32, n(2) as u16, n(3) as u16),
                    (n(4) as u32, n(5) as u16, n(6) as u16)
                )
            ),
            // factory ID VER SUB N : ask a fresh factory for N tokens; print count delivered, first, last,
            // a checksum of all keys, whether all are same-source and pairwise distinct (keys strictly increasing)
            "factory" => {
                let (a, b, c, cnt) = (n(1) as u32, n(2) as u16, n(3) as u16, n(4));
                let r = catch_unwind(|| {
                    let mut f = v::token_factory(a, b, c);
                    let mut toks = Vec::new();
                    for _ in 0..cnt {
                        let r = catch_unwind(std::panic::AssertUnwindSafe(|| f.token()));
                        match r {
                            Ok(t) => toks.push(v::token_fields(t)),
                            Err(_) => return (toks, true),
                        }
                    }
                    (toks, false)
                });
                let (toks, panicked) = r.unwrap();
                let mut sum: u64 = 0;
                let mut increasing = true;
                let mut same = true;
                let mut prev: Option<usize> = None;
                for t in &toks {
                    let k = v::token_pack(t.0, t.1, t.2);
                    sum = sum.wrapping_mul(31).wrapping_add(k as u64);
                    if let Some(p) = prev {
                        increasing &= p < k;
                    }
                    prev = Some(k);
                    same &= v::token_same_source(*t, (a, b, 0));
                }
                format!(
                    "n={} first={} last={} sum={} distinct={} same={} panic={}",
                    toks.len(),
                    toks.first().map(|t| fmt(*t)).unwrap_or("-".into()),
                    toks.last().map(|t| fmt(*t)).unwrap_or("-".into()),
                    sum,
                    increasing,
                    same,
                    panicked
                )
            }
            // composite LEAVES OPS : a real composite source (g = Generic leaf, r = hand-written leaf that takes its
            // token from the factory and talks to the poller itself) in a real loop; after the insertion and after each
            // operation, the sub-ids under which its leaves sit in the poller
            "composite" => composite(w[1], w.get(2).copied().unwrap_or("")),
            // dupreg ping|gen: a Dispatcher that is registered is registered a second time (the poller refuses the fd):
            // the call fails, takes no slot, and the first registration keeps working
            "dupreg" => dupreg(w[1]),
            _ => "bad-op".to_string(),
        };
        writeln!(out, "{}", res).unwrap();
    }
    0
}


// ---- sub-tokens of a composite source, as the poller holds them --------------------------------------------------

use calloop::generic::Generic;
use calloop::{EventLoop, EventSource, Interest, Mode, Poll, PostAction, Readiness, Token, TokenFactory};
use std::cell::Cell;
use std::os::fd::{AsFd, AsRawFd, BorrowedFd, OwnedFd};
use std::rc::Rc;

#[derive(Clone)]
struct Fd(Rc<OwnedFd>);
impl AsFd for Fd {
    fn as_fd(&self) -> BorrowedFd<'_> {
        self.0.as_fd()
    }
}

enum Leaf {
    Gen(Generic<Fd>),
    Raw { fd: Fd, token: Option<Token> },
    Tim(calloop::timer::Timer),
    /// the leaf has been taken out of the source (`Generic::unwrap`)
    Gone,
}

struct Composite {
    leaves: Rc<std::cell::RefCell<Vec<Leaf>>>,
    registered: Rc<std::cell::RefCell<Vec<bool>>>,
    want_rereg: Rc<Cell<bool>>,
    /// indices of the leaves whose callback ran
    ran: Rc<std::cell::RefCell<Vec<usize>>>,
    /// leaves that are still part of the source (a retired leaf is unregistered at the next re-registration and takes
    /// no token any more, so the leaves after it move to lower sub-ids)
    active: Rc<std::cell::RefCell<Vec<bool>>>,
}

impl Composite {
    fn reg_leaf(leaf: &mut Leaf, poll: &mut Poll, tf: &mut TokenFactory, fresh: bool) -> calloop::Result<()> {
        match leaf {
            Leaf::Gen(g) => {
                if fresh {
                    g.register(poll, tf)
                } else {
                    g.reregister(poll, tf)
                }
            }
            Leaf::Tim(tm) => {
                if fresh {
                    tm.register(poll, tf)
                } else {
                    tm.reregister(poll, tf)
                }
            }
            Leaf::Gone => Ok(()),
            Leaf::Raw { fd, token } => {
                let t = tf.token();
                if fresh {
                    unsafe { poll.register(fd.as_fd(), Interest::READ, Mode::Level, t)? };
                } else {
                    poll.reregister(fd.as_fd(), Interest::READ, Mode::Level, t)?;
                }
                *token = Some(t);
                Ok(())
            }
        }
    }
    fn unreg_leaf(leaf: &mut Leaf, poll: &mut Poll) -> calloop::Result<()> {
        match leaf {
            Leaf::Gen(g) => g.unregister(poll),
            Leaf::Tim(tm) => tm.unregister(poll),
            Leaf::Gone => Ok(()),
            Leaf::Raw { fd, token } => {
                poll.unregister(fd.as_fd())?;
                *token = None;
                Ok(())
            }
        }
    }
}

impl EventSource for Composite {
    type Event = ();
    type Metadata = ();
    type Ret = ();
    type Error = std::io::Error;

    fn process_events<F>(&mut self, r: Readiness, t: Token, mut cb: F) -> Result<PostAction, Self::Error>
    where
        F: FnMut((), &mut ()),
    {
        let ran = self.ran.clone();
        let mut leaves = self.leaves.borrow_mut();
        for (i, leaf) in leaves.iter_mut().enumerate() {
            match leaf {
                Leaf::Gone => {}
                Leaf::Gen(g) => {
                    g.process_events(r, t, |_, f| {
                        let mut b = [0u8; 8];
                        let _ = rustix::io::read(f.as_fd(), &mut b);
                        ran.borrow_mut().push(i);
                        cb((), &mut ());
                        Ok(PostAction::Continue)
                    })?;
                }
                Leaf::Raw { fd, token } => {
                    if *token == Some(t) {
                        let mut b = [0u8; 8];
                        let _ = rustix::io::read(fd.as_fd(), &mut b);
                        ran.borrow_mut().push(i);
                        cb((), &mut ());
                    }
                }
                Leaf::Tim(tm) => {
                    let _ = tm.process_events(r, t, |_, _| {
                        ran.borrow_mut().push(i);
                        cb((), &mut ());
                        calloop::timer::TimeoutAction::Drop
                    });
                }
            }
        }
        Ok(if self.want_rereg.replace(false) { PostAction::Reregister } else { PostAction::Continue })
    }

    fn register(&mut self, poll: &mut Poll, tf: &mut TokenFactory) -> calloop::Result<()> {
        let active = self.active.borrow().clone();
        let mut registered = self.registered.borrow_mut();
        for (i, leaf) in self.leaves.borrow_mut().iter_mut().enumerate() {
            if active[i] {
                Composite::reg_leaf(leaf, poll, tf, true)?;
                registered[i] = true;
            }
        }
        Ok(())
    }

    fn reregister(&mut self, poll: &mut Poll, tf: &mut TokenFactory) -> calloop::Result<()> {
        let active = self.active.borrow().clone();
        let mut registered = self.registered.borrow_mut();
        for (i, leaf) in self.leaves.borrow_mut().iter_mut().enumerate() {
            if active[i] {
                Composite::reg_leaf(leaf, poll, tf, !registered[i])?;
                registered[i] = true;
            } else if registered[i] {
                Composite::unreg_leaf(leaf, poll)?;
                registered[i] = false;
            }
        }
        Ok(())
    }

    fn unregister(&mut self, poll: &mut Poll) -> calloop::Result<()> {
        let mut registered = self.registered.borrow_mut();
        for (i, leaf) in self.leaves.borrow_mut().iter_mut().enumerate() {
            if registered[i] {
                Composite::unreg_leaf(leaf, poll)?;
                registered[i] = false;
            }
        }
        Ok(())
    }
}

fn composite(leaves: &str, ops: &str) -> String {
    use rustix::event::{eventfd, EventfdFlags};
    let mut el: EventLoop<'static, ()> = match EventLoop::try_new() {
        Ok(e) => e,
        Err(_) => return "err".into(),
    };
    let epfd = el.as_raw_fd();
    let fds: Vec<Fd> = leaves.chars().map(|_| Fd(Rc::new(eventfd(0, EventfdFlags::CLOEXEC | EventfdFlags::NONBLOCK).unwrap()))).collect();
    let want_rereg = Rc::new(Cell::new(false));
    let ran = Rc::new(std::cell::RefCell::new(Vec::new()));
    let active = Rc::new(std::cell::RefCell::new(vec![true; leaves.len()]));
    let has_timer = leaves.contains('t');
    let leafv: Rc<std::cell::RefCell<Vec<Leaf>>> = Rc::new(std::cell::RefCell::new(
        leaves
            .chars()
            .zip(fds.iter())
            .map(|(c, fd)| match c {
                'g' => Leaf::Gen(Generic::new(fd.clone(), Interest::READ, Mode::Level)),
                // a Generic registered with an empty interest: in the poller under its key, never answering
                'e' => Leaf::Gen(Generic::new(fd.clone(), Interest::EMPTY, Mode::Level)),
                't' => Leaf::Tim(calloop::timer::Timer::from_duration(std::time::Duration::from_millis(25))),
                _ => Leaf::Raw { fd: fd.clone(), token: None },
            })
            .collect(),
    ));
    let registered = Rc::new(std::cell::RefCell::new(vec![false; leaves.len()]));
    let src = Composite {
        leaves: leafv.clone(),
        registered: registered.clone(),
        want_rereg: want_rereg.clone(),
        ran: ran.clone(),
        active: active.clone(),
    };
    let kinds: Vec<char> = leaves.chars().collect();
    let token = match el.handle().insert_source(src, |_, _, _| {}) {
        Ok(t) => t,
        Err(_) => return "insert-err".into(),
    };
    let (sid, sver, _) = v::reg_token_fields(token);
    let stage = |out: &mut Vec<String>, own: &mut bool| {
        let s = std::fs::read_to_string(format!("/proc/self/fdinfo/{}", epfd)).unwrap_or_default();
        let mut subs = Vec::new();
        for (fi, fd) in fds.iter().enumerate() {
            if kinds[fi] == 't' {
                subs.push("t".to_string());
                continue;
            }
            let raw = fd.0.as_raw_fd();
            let mut found = None;
            for l in s.lines().filter(|l| l.starts_with("tfd:")) {
                let f: Vec<&str> = l.split_whitespace().collect();
                if f[1].parse::<i32>().ok() == Some(raw) {
                    found = Some(u64::from_str_radix(f[5], 16).unwrap_or(0));
                }
            }
            match found {
                Some(k) => {
                    let (a, b, c) = v::token_unpack(k as usize);
                    *own &= a == sid && b == sver;
                    subs.push(format!("{}", c));
                }
                None => subs.push("-".into()),
            }
        }
        out.push(subs.join(","));
    };
    let mut out = Vec::new();
    let mut own = true;
    let mut ok = true;
    stage(&mut out, &mut own);
    for op in ops.split(',').filter(|x| !x.is_empty()) {
        match op {
            "update" => ok &= el.handle().update(&token).is_ok(),
            "disable" => ok &= el.handle().disable(&token).is_ok(),
            "enable" => ok &= el.handle().enable(&token).is_ok(),
            // the first leaf still active leaves the source (effective at the next re-registration)
            "retire" => {
                let mut a = active.borrow_mut();
                if let Some(i) = a.iter().position(|x| *x) {
                    a[i] = false;
                }
            }
            // the first active `Generic` leaf is taken out of the source and unwrapped while it is still registered
            // (`Generic::unwrap` gives the fd back: it must leave the poller, as on drop)
            "unwrap" => {
                let mut a = active.borrow_mut();
                let mut lv = leafv.borrow_mut();
                if let Some(i) = (0..kinds.len()).find(|i| a[*i] && matches!(lv[*i], Leaf::Gen(_))) {
                    if let Leaf::Gen(g) = std::mem::replace(&mut lv[i], Leaf::Gone) {
                        let _fd = g.unwrap();
                    }
                    a[i] = false;
                    registered.borrow_mut()[i] = false;
                }
            }
            "rereg" => {
                // an event on the first active fd-backed leaf, answered by PostAction::Reregister
                let act = active.borrow().clone();
                if let Some(i) = (0..kinds.len()).find(|i| kinds[*i] != 't' && kinds[*i] != 'e' && act[*i]) {
                    want_rereg.set(true);
                    let _ = rustix::io::write(fds[i].as_fd(), &1u64.to_ne_bytes());
                    ok &= el.dispatch(Some(std::time::Duration::ZERO), &mut ()).is_ok();
                }
            }
            _ => {}
        }
        stage(&mut out, &mut own);
    }
    // every fd-backed leaf that is registered answers an event on its fd
    let mut poked = Vec::new();
    for i in 0..kinds.len() {
        if kinds[i] == 't' {
            continue;
        }
        ran.borrow_mut().clear();
        let _ = rustix::io::write(fds[i].as_fd(), &1u64.to_ne_bytes());
        ok &= el.dispatch(Some(std::time::Duration::ZERO), &mut ()).is_ok();
        if ran.borrow().contains(&i) {
            poked.push(i.to_string());
        }
        // (an unanswered write is taken back so that it cannot be answered later)
        let mut b = [0u8; 8];
        let _ = rustix::io::read(fds[i].as_fd(), &mut b);
    }
    let poked = if poked.is_empty() { "-".to_string() } else { poked.join(",") };
    // the timers run out: only timer leaves have a reason to be called back
    let mut fired = String::from("-");
    if has_timer {
        ran.borrow_mut().clear();
        std::thread::sleep(std::time::Duration::from_millis(40));
        ok &= el.dispatch(Some(std::time::Duration::ZERO), &mut ()).is_ok();
        let mut v = ran.borrow().clone();
        v.sort();
        v.dedup();
        if !v.is_empty() {
            fired = v.iter().map(|i| i.to_string()).collect::<Vec<_>>().join(",");
        }
    }
    format!("{} own={} ok={} poked={} fired={}", out.join(";"), own, ok, poked, fired)
}

fn dupreg(kind: &str) -> String {
    use calloop::generic::Generic;
    use calloop::ping::make_ping;
    use calloop::{Dispatcher, EventLoop, Interest, Mode, PostAction};
    use std::cell::Cell;
    use std::io::Write as _;
    use std::os::unix::net::UnixStream;
    use std::rc::Rc;
    use std::time::Duration;
    let mut el: EventLoop<'static, ()> = EventLoop::try_new().unwrap();
    let h = el.handle();
    let fired = Rc::new(Cell::new(0u32));
    let f = fired.clone();
    let before;
    let second_err;
    let mut poke: Box<dyn FnMut()>;
    let _keep: Box<dyn std::any::Any>;
    if kind == "ping" {
        let (ping, src) = make_ping().unwrap();
        let disp = Dispatcher::new(src, move |_, _, _: &mut ()| f.set(f.get() + 1));
        h.register_dispatcher(disp.clone()).unwrap();
        before = h.verif_stats();
        second_err = h.register_dispatcher(disp.clone()).is_err();
        poke = Box::new(move || ping.ping());
        _keep = Box::new(disp);
    } else {
        let (a, mut b) = UnixStream::pair().unwrap();
        a.set_nonblocking(true).unwrap();
        let disp = Dispatcher::new(Generic::new(a, Interest::READ, Mode::Level), move |_, s, _: &mut ()| {
            use std::io::Read;
            let mut buf = [0u8; 16];
            let _ = unsafe { s.get_mut() }.read(&mut buf);
            f.set(f.get() + 1);
            Ok(PostAction::Continue)
        });
        h.register_dispatcher(disp.clone()).unwrap();
        before = h.verif_stats();
        second_err = h.register_dispatcher(disp.clone()).is_err();
        poke = Box::new(move || {
            b.write_all(b"x").unwrap();
        });
        _keep = Box::new(disp);
    }
    let after = h.verif_stats();
    let mut rounds_ok = 0;
    for _ in 0..3 {
        let was = fired.get();
        poke();
        el.dispatch(Some(Duration::from_millis(50)), &mut ()).unwrap();
        if fired.get() == was + 1 {
            rounds_ok += 1;
        }
    }
    format!(
        "dupreg {} second={} occupied={}->{} rounds={}/3",
        kind,
        if second_err { "err" } else { "ok" },
        before.occupied,
        after.occupied,
        rounds_ok
    )
}
