//! `vh` — the Rust side of the correspondence check.  Each sub-command reads a line protocol on
//! stdin, runs the *real* calloop built from /repo's working tree (with `--cfg calloop_verif`),
//! and prints one observation line per effect on stdout.
mod asyncio;
mod chansched;
mod core;
mod execsched;
mod pingsched;
mod runsched;
mod sched;
mod sig;
mod timing;
mod tok;
mod transient;

fn main() {
    let args: Vec<String> = std::env::args().collect();
    let mode = args.get(1).map(|s| s.as_str()).unwrap_or("");
    let code = match mode {
        "tok" => tok::run(),
        "pingsched" => pingsched::run(),
        "chansched" => chansched::run(),
        "sig" => sig::run(),
        "asyncio" => asyncio::run(),
        "execsched" => execsched::run(),
        "execcb" => execsched::run_cb(),
        "runsched" => runsched::run(),
        "timing" => timing::run(),
        "core" => core::run(&args[2..]),
        "transient" => transient::run(),
        _ => {
            eprintln!("usage: vh tok|...  (line protocol on stdin)");
            2
        }
    };
    std::process::exit(code);
}
